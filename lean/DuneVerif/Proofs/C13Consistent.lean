import DuneVerif.Proofs.C13World
/-! C13, level 4: the consistent state of a decomposition, deleting copies from it. Core Lean only. -/
namespace DV.C13

/-- every rank's slice lists each global index at most once, in ascending order -/
def DecompWF (D : Decomp) : Prop := ∀ sl ∈ D, sl.Pairwise (fun a b => a.1 < b.1)

theorem slice_eq_of_lt (D : Decomp) (p : Nat) (h : p < D.length) : D[p]? = some (D.slice p) := by
  simp [Decomp.slice, List.getD_eq_getElem?_getD, List.getElem?_eq_getElem h]

theorem slice_eq_nil (D : Decomp) (p : Nat) (h : D.length ≤ p) : D.slice p = [] := by
  simp [Decomp.slice, List.getD_eq_getElem?_getD, List.getElem?_eq_none h]

theorem DecompWF.slice {D : Decomp} (h : DecompWF D) (p : Nat) : (D.slice p).Pairwise (fun a b => a.1 < b.1) := by
  by_cases hp : p < D.length
  · have := slice_eq_of_lt D p hp
    exact h _ (List.mem_of_getElem? this)
  · rw [slice_eq_nil D p (by omega)]
    exact List.Pairwise.nil

theorem attrOf_iff {D : Decomp} (h : DecompWF D) (p : Nat) (g : Int) (a : Nat) :
    D.attrOf p g = some a ↔ (g, a) ∈ D.slice p := by
  unfold Decomp.attrOf
  constructor
  · exact lookup_mem' g a _
  · exact lookup_of_mem_pairwise (fun a b : Int => a < b) (fun a => Int.lt_irrefl a) g a _ (h.slice p)

/-! ### numbering, intersection -/

theorem mem_numberFrom (e : IdxEntry) : ∀ (i : Nat) (l : List (Int × Nat)), e ∈ numberFrom i l → (e.g, e.attr) ∈ l
  | _, [], h => by simp [numberFrom] at h
  | i, x :: xs, h => by
    simp only [numberFrom, List.mem_cons] at h
    rcases h with rfl | h
    · simp
    · simp [mem_numberFrom e (i + 1) xs h]

theorem numberFrom_map_key : ∀ (i : Nat) (l : List (Int × Nat)), (numberFrom i l).map (fun e => (e.g, e.attr)) = l
  | _, [] => rfl
  | i, x :: xs => by simp [numberFrom, numberFrom_map_key (i + 1) xs]

theorem hasKey_numberFrom (g : Int) (a : Nat) (i : Nat) (l : List (Int × Nat)) :
    hasKey (numberFrom i l) g a = true ↔ (g, a) ∈ l := by
  rw [hasKey_iff]
  constructor
  · rintro ⟨e, he, h1, h2⟩
    have := mem_numberFrom e i l he
    rw [h1, h2] at this
    exact this
  · intro h
    have : (g, a) ∈ (numberFrom i l).map (fun e => (e.g, e.attr)) := by rw [numberFrom_map_key]; exact h
    rw [List.mem_map] at this
    obtain ⟨e, he, h1⟩ := this
    simp only [Prod.mk.injEq] at h1
    exact ⟨e, he, h1.1, h1.2⟩

theorem numberFrom_pairwise (i : Nat) (l : List (Int × Nat)) (h : l.Pairwise (fun a b => a.1 < b.1)) :
    (numberFrom i l).Pairwise (fun a b => a.g < b.g) := by
  have : ((numberFrom i l).map (fun e => (e.g, e.attr))).Pairwise (fun a b => a.1 < b.1) := by
    rw [numberFrom_map_key]; exact h
  rw [List.pairwise_map] at this
  exact this

theorem mem_interList (mine other : List (Int × Nat)) (en : RemEntry) :
    en ∈ interList mine other ↔ (en.g, en.own) ∈ mine ∧ other.lookup en.g = some en.rem := by
  simp only [interList, List.mem_filterMap, Option.map_eq_some_iff]
  constructor
  · rintro ⟨⟨g, a⟩, h1, b, h2, rfl⟩
    exact ⟨h1, h2⟩
  · rintro ⟨h1, h2⟩
    exact ⟨(en.g, en.own), h1, en.rem, h2, rfl⟩

theorem interList_pairwise (mine other : List (Int × Nat)) (h : mine.Pairwise (fun a b => a.1 < b.1)) :
    (interList mine other).Pairwise (fun a b => a.g < b.g) := by
  unfold interList
  apply List.Pairwise.filterMap _ _ h
  intro a a' haa b hb b' hb'
  simp only [Option.map_eq_some_iff] at hb hb'
  obtain ⟨_, _, rfl⟩ := hb
  obtain ⟨_, _, rfl⟩ := hb'
  exact haa

/-! ### the consistent state -/

theorem consistent_getElem? (D : Decomp) (p : Nat) :
    (consistent D)[p]? = (D[p]?).map (fun mine => consistentRank D p mine) := by
  simp [consistent, List.getElem?_mapIdx]

theorem consistent_length (D : Decomp) : (consistent D).length = D.length := by simp [consistent]

theorem mem_remote_consistentRank (D : Decomp) (p : Nat) (mine : List (Int × Nat)) (q : Nat) (l : List RemEntry) :
    (q, l) ∈ (consistentRank D p mine).remote ↔
      q < D.length ∧ q ≠ p ∧ l = interList mine (D.slice q) ∧ l ≠ [] := by
  simp only [consistentRank, List.mem_filterMap, List.mem_range]
  constructor
  · rintro ⟨q', h1, h2⟩
    split at h2
    · simp at h2
    · rename_i hne
      split at h2
      · simp at h2
      · rename_i hemp
        simp only [Option.some.injEq, Prod.mk.injEq] at h2
        obtain ⟨rfl, rfl⟩ := h2
        refine ⟨h1, hne, rfl, ?_⟩
        intro hc
        rw [hc] at hemp
        simp at hemp
  · rintro ⟨h1, h2, rfl, h4⟩
    refine ⟨q, h1, ?_⟩
    have : (interList mine (D.slice q)).isEmpty = false := by
      cases hh : interList mine (D.slice q) with
      | nil => exact absurd hh h4
      | cons _ _ => rfl
    simp [h2, this]

theorem remote_consistentRank_sorted (D : Decomp) (p : Nat) (mine : List (Int × Nat)) :
    (consistentRank D p mine).remote.Pairwise (fun a b => a.1 < b.1) := by
  simp only [consistentRank]
  apply List.Pairwise.filterMap _ _ List.pairwise_lt_range
  intro a a' haa b hb b' hb'
  split at hb
  · simp at hb
  · split at hb
    · simp at hb
    · split at hb'
      · simp at hb'
      · split at hb'
        · simp at hb'
        · simp only [Option.some.injEq] at hb hb'
          subst hb; subst hb'
          exact haa

theorem listOf_consistentRank (D : Decomp) (p : Nat) (mine : List (Int × Nat)) (q : Nat) (h1 : q < D.length) (h2 : q ≠ p) :
    listOf (consistentRank D p mine).remote q = interList mine (D.slice q) := by
  by_cases hemp : interList mine (D.slice q) = []
  · rw [hemp]
    apply listOf_eq_nil_of_not_neighbour
    cases hn : isNeighbour (consistentRank D p mine).remote q
    · rfl
    · obtain ⟨l, hl⟩ := (isNeighbour_iff _ _).1 hn
      obtain ⟨_, _, h3, h4⟩ := (mem_remote_consistentRank D p mine q l).1 hl
      rw [h3] at h4
      exact absurd hemp h4
  · exact listOf_of_mem _ (remote_consistentRank_sorted D p mine) q _
      ((mem_remote_consistentRank D p mine q _).2 ⟨h1, h2, rfl, hemp⟩)

theorem rankInv_consistent {D : Decomp} (hD : DecompWF D) (p : Nat) :
    RankInv D D.length p (consistentRank D p (D.slice p)) := by
  refine ⟨numberFrom_pairwise 0 _ (hD.slice p), ?_, remote_consistentRank_sorted D p _, ?_, ?_⟩
  · intro e he
    exact (attrOf_iff hD p e.g e.attr).2 (mem_numberFrom e 0 _ he)
  · intro ⟨q, l⟩ hq
    obtain ⟨h1, h2, h3, _⟩ := (mem_remote_consistentRank D p _ q l).1 hq
    refine ⟨h2, h1, ?_⟩
    rw [h3]
    exact interList_pairwise _ _ (hD.slice p)
  · intro ⟨q, l⟩ hq en hen
    obtain ⟨_, _, h3, _⟩ := (mem_remote_consistentRank D p _ q l).1 hq
    simp only at hen
    rw [h3] at hen
    obtain ⟨h4, h5⟩ := (mem_interList _ _ en).1 hen
    exact ⟨h5, (hasKey_numberFrom en.g en.own 0 _).2 h4⟩

theorem partialView_consistent {D : Decomp} (hD : DecompWF D) : PartialView D (consistent D) := by
  intro p st hst
  rw [consistent_getElem?] at hst
  simp only [Option.map_eq_some_iff] at hst
  obtain ⟨mine, hm, rfl⟩ := hst
  have hp : p < D.length := (List.getElem?_eq_some_iff.1 hm).1
  have : mine = D.slice p := by
    have := slice_eq_of_lt D p hp
    rw [hm] at this
    simpa using this
  rw [consistent_length, this]
  exact rankInv_consistent hD p

/-! ### deleting copies -/

theorem listOf_map_filter (f : RemEntry → Bool) : ∀ (r : List (Nat × List RemEntry)) (x : Nat),
    listOf (r.map fun y => (y.1, y.2.filter f)) x = (listOf r x).filter f
  | [], x => by simp [listOf_nil]
  | (y, l) :: rest, x => by
    simp only [List.map_cons]
    rw [listOf_cons, listOf_cons]
    by_cases h : x = y
    · simp [h]
    · simp [h, listOf_map_filter f rest x]

theorem isNeighbour_map_filter (f : RemEntry → Bool) (r : List (Nat × List RemEntry)) (x : Nat) :
    isNeighbour (r.map fun y => (y.1, y.2.filter f)) x = isNeighbour r x := by
  simp [isNeighbour, List.any_map, Function.comp_def]

theorem rankInv_delete {D : Decomp} {P q : Nat} {st : RankState} (h : RankInv D P q st) (del : Int → Bool) :
    RankInv D P q (deleteRank del st) := by
  refine ⟨List.Pairwise.filter _ h.idxSorted, ?_, ?_, ?_, ?_⟩
  · intro e he
    exact h.idxTrue e (List.mem_filter.1 he).1
  · simp only [deleteRank]
    rw [List.pairwise_map]
    exact h.rem.nbSorted
  · intro x hx
    simp only [deleteRank, List.mem_map] at hx
    obtain ⟨y, hy, rfl⟩ := hx
    have := h.rem.nbOk y hy
    exact ⟨this.1, this.2.1, List.Pairwise.filter _ this.2.2⟩
  · intro x hx en hen
    simp only [deleteRank, List.mem_map] at hx
    obtain ⟨y, hy, rfl⟩ := hx
    simp only [List.mem_filter] at hen
    have := h.rem.remTrue y hy en hen.1
    refine ⟨this.1, ?_⟩
    obtain ⟨e, he, h1, h2⟩ := (hasKey_iff _ _ _).1 this.2
    rw [hasKey_iff]
    refine ⟨e, ?_, h1, h2⟩
    simp only [deleteRank, List.mem_filter]
    refine ⟨he, ?_⟩
    rw [h1]
    exact hen.2

theorem deleteCopies_getElem? (del : Nat → Int → Bool) (w : World) (p : Nat) :
    (deleteCopies del w)[p]? = (w[p]?).map (fun st => deleteRank (del p) st) := by
  simp [deleteCopies, List.getElem?_mapIdx]

theorem partialView_delete {D : Decomp} {w : World} (h : PartialView D w) (del : Nat → Int → Bool) :
    PartialView D (deleteCopies del w) := by
  intro p st hst
  rw [deleteCopies_getElem?] at hst
  simp only [Option.map_eq_some_iff] at hst
  obtain ⟨st0, h0, rfl⟩ := hst
  have : (deleteCopies del w).length = w.length := by simp [deleteCopies]
  rw [this]
  exact rankInv_delete (h p st0 h0) (del p)

end DV.C13
