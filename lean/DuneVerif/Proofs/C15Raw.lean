/-
C15 — lemmas about the request validation of MallocAllocator/AlignedAllocator and the page arithmetic and lookup of
DebugMemory::AllocationManager, all about the generated definitions of Gen/C15.lean.  Core Lean only.
-/
import DuneVerif.Model.C15

namespace DV.C15
open DV.C15.Gen

theorem wrap_of_le {x : Nat} (h : x ≤ sizeMax) : wrap x = x := by
  unfold wrap; unfold sizeMax at h; exact Nat.mod_eq_of_lt (by omega)

theorem mul_le_of_le_maxSize {sz n : Nat} (hsz : 0 < sz) (h : n ≤ mallocMaxSize sz) : n * sz ≤ sizeMax :=
  (Nat.le_div_iff_mul_le hsz).1 h

theorem maxSize_lt_of_overflow {sz n : Nat} (h : sizeMax < n * sz) : mallocMaxSize sz < n := by
  unfold mallocMaxSize
  exact Nat.div_lt_of_lt_mul (by rw [Nat.mul_comm]; exact h)

/-! ### MallocAllocator -/

theorem malloc_refused' {sz n : Nat} (h : sizeMax < n * sz) (os : Nat → Bool) :
    mallocAllocate sz n os = .error .alloc := by
  have := maxSize_lt_of_overflow h
  simp [mallocAllocate, mallocLimit, this]

theorem malloc_served' {sz n bytes : Nat} (hsz : 0 < sz) {os : Nat → Bool}
    (h : mallocAllocate sz n os = .ok bytes) : bytes = n * sz ∧ os bytes = true ∧ n * sz ≤ sizeMax := by
  simp only [mallocAllocate, mallocLimit] at h
  split at h
  · exact absurd h (by simp)
  · rename_i hn
    have hle := mul_le_of_le_maxSize hsz (Nat.le_of_not_gt hn)
    split at h
    · rename_i hos
      simp only [Except.ok.injEq] at h
      rw [mallocBytes, wrap_of_le hle] at h hos
      exact ⟨h.symm, by rw [← h]; exact hos, hle⟩
    · exact absurd h (by simp)

/-! ### AlignedAllocator -/

theorem aligned_refused' {sz n : Nat} (al A : Nat) (h : sizeMax < n * sz) (os : Nat → Bool) :
    alignedAllocate sz al A n os = .error .alloc := by
  have := maxSize_lt_of_overflow h
  simp [alignedAllocate, alignedLimit, this]

theorem aligned_served' {sz al A n a bytes : Nat} (hsz : 0 < sz) {os : Nat → Bool}
    (h : alignedAllocate sz al A n os = .ok (a, bytes)) :
    a = (if A = 0 then al else A) ∧ bytes = n * sz ∧ os bytes = true ∧ n * sz ≤ sizeMax := by
  simp only [alignedAllocate, alignedLimit] at h
  split at h
  · exact absurd h (by simp)
  · rename_i hn
    have hle := mul_le_of_le_maxSize hsz (Nat.le_of_not_gt hn)
    split at h
    · rename_i hos
      simp only [Except.ok.injEq, Prod.mk.injEq] at h
      rw [alignedBytes, wrap_of_le hle] at h hos
      exact ⟨by rw [← h.1]; rfl, h.2.symm, by rw [← h.2]; exact hos, hle⟩
    · exact absurd h (by simp)

/-! ### DebugAllocator: page arithmetic -/

/-- the facts about one accepted request, for a sane page size -/
structure DbgFacts (sz page n : Nat) (ai : AInfo) : Prop where
  cap_eq : ai.cap = n * sz
  ptr_ge : ai.pagePtr ≤ ai.ptr
  ptr_off_lt : ai.ptr - ai.pagePtr < page
  ends_at_guard : ai.ptr + ai.cap = ai.pagePtr + dbgGuardOff ai.cap page
  guard_last : dbgGuardOff ai.cap page + page = ai.pages * page
  maplen : dbgMapLen ai.cap page = ai.pages * page
  no_wrap : ai.pages * page ≤ sizeMax

theorem dbg_pages_mul {cap page : Nat} :
    dbgPages cap page * page = (if cap % page ≠ 0 then cap - cap % page + 2 * page else cap + page) := by
  have hdm := Nat.div_add_mod' cap page
  unfold dbgPages dbgOverlap
  split
  · rw [Nat.add_mul]
    generalize cap / page * page = q at hdm ⊢
    omega
  · rename_i h
    have : cap % page = 0 := by simpa using h
    rw [Nat.add_mul, Nat.one_mul]
    generalize cap / page * page = q at hdm ⊢
    omega

theorem dbg_guard_off {cap page : Nat} :
    dbgGuardOff cap page = (if cap % page ≠ 0 then cap - cap % page + page else cap) := by
  have hdm := Nat.div_add_mod' cap page
  unfold dbgGuardOff dbgPages dbgOverlap
  generalize cap / page = d at hdm ⊢
  split
  · have : d + 2 - 1 = d + 1 := by omega
    rw [this, Nat.add_mul, Nat.one_mul]
    generalize d * page = q at hdm ⊢
    omega
  · rename_i h
    have h0 : cap % page = 0 := by simpa using h
    have : d + 1 - 1 = d := by omega
    rw [this]
    generalize d * page = q at hdm ⊢
    omega

theorem dbg_ptr_off {cap page : Nat} :
    dbgPtrOff cap page = (if cap % page ≠ 0 then page - cap % page else 0) := by
  unfold dbgPtrOff dbgOverlap; rfl

/-- `dbgAllocate` with the generated request bound spelled out -/
theorem dbgAllocate_eq (sz page n : Nat) (mmap : Nat → Option Nat) (l : List AInfo) :
    dbgAllocate sz page n mmap l =
      if n > (sizeMax - 2 * page) / sz then .error .alloc else
      match mmap (dbgMapLen (dbgCapacity sz n) page) with
      | none => .error .alloc
      | some pp =>
        .ok ({ pagePtr := pp, ptr := pp + dbgPtrOff (dbgCapacity sz n) page, pages := dbgPages (dbgCapacity sz n) page,
               cap := dbgCapacity sz n, size := n },
             l ++ [{ pagePtr := pp, ptr := pp + dbgPtrOff (dbgCapacity sz n) page,
                     pages := dbgPages (dbgCapacity sz n) page, cap := dbgCapacity sz n, size := n }]) := by
  rfl

theorem dbg_facts {sz page n : Nat} (hsz : 0 < sz) (hp : 0 < page) (hp2 : 2 * page ≤ sizeMax)
    {mmap : Nat → Option Nat} {l l' : List AInfo} {ai : AInfo}
    (h : dbgAllocate sz page n mmap l = .ok (ai, l')) :
    DbgFacts sz page n ai ∧ l' = l ++ [ai] ∧ mmap (dbgMapLen ai.cap page) = some ai.pagePtr ∧
    n * sz + 2 * page ≤ sizeMax := by
  rw [dbgAllocate_eq] at h
  by_cases hn : n > (sizeMax - 2 * page) / sz
  · rw [if_pos hn] at h; exact absurd h (by simp)
  · rw [if_neg hn] at h
    have hle : n * sz ≤ sizeMax - 2 * page := (Nat.le_div_iff_mul_le hsz).1 (Nat.le_of_not_gt hn)
    have hcap : dbgCapacity sz n = n * sz := by unfold dbgCapacity; exact wrap_of_le (by omega)
    cases hmm : mmap (dbgMapLen (dbgCapacity sz n) page) with
    | none => rw [hmm] at h; exact absurd h (by simp)
    | some pp =>
      rw [hmm] at h
      simp only [Except.ok.injEq, Prod.mk.injEq] at h
      obtain ⟨hai, hl⟩ := h
      subst hai
      simp only [hcap] at hmm hl ⊢
      have hmodlt := Nat.mod_lt (n * sz) hp
      have hmodle := Nat.mod_le (n * sz) page
      have hpm := dbg_pages_mul (cap := n * sz) (page := page)
      have hgo := dbg_guard_off (cap := n * sz) (page := page)
      have hpo := dbg_ptr_off (cap := n * sz) (page := page)
      have hnw : dbgPages (n * sz) page * page ≤ sizeMax := by rw [hpm]; split <;> omega
      have hml : dbgMapLen (n * sz) page = dbgPages (n * sz) page * page := by
        unfold dbgMapLen; exact wrap_of_le hnw
      refine ⟨⟨rfl, by simp, ?_, ?_, ?_, hml, hnw⟩, hl.symm, hmm, by omega⟩
      · simp only [Nat.add_sub_cancel_left]; rw [hpo]; split <;> omega
      · simp only; rw [hgo, hpo]; split <;> omega
      · simp only; rw [hgo, hpm]; split <;> omega

theorem dbg_refused' {sz page n : Nat} (hp2 : 2 * page ≤ sizeMax) (h : sizeMax < n * sz + 2 * page)
    (mmap : Nat → Option Nat) (l : List AInfo) : dbgAllocate sz page n mmap l = .error .alloc := by
  have hc : sz * n = n * sz := Nat.mul_comm _ _
  have : (sizeMax - 2 * page) / sz < n := Nat.div_lt_of_lt_mul (by omega)
  rw [dbgAllocate_eq, if_pos this]

theorem dbg_ptr_aligned' {sz page n al : Nat} (hsz : 0 < sz) (hp : 0 < page) (hp2 : 2 * page ≤ sizeMax)
    {mmap : Nat → Option Nat} {l l' : List AInfo} {ai : AInfo}
    (h : dbgAllocate sz page n mmap l = .ok (ai, l')) (h1 : al ∣ sz) (h2 : al ∣ page) (h3 : al ∣ ai.pagePtr) :
    al ∣ ai.ptr := by
  have hf := (dbg_facts hsz hp hp2 h).1
  rw [dbgAllocate_eq] at h
  by_cases hn : n > (sizeMax - 2 * page) / sz
  · rw [if_pos hn] at h; exact absurd h (by simp)
  · rw [if_neg hn] at h
    cases hmm : mmap (dbgMapLen (dbgCapacity sz n) page) with
    | none => rw [hmm] at h; exact absurd h (by simp)
    | some pp =>
      rw [hmm] at h
      simp only [Except.ok.injEq, Prod.mk.injEq] at h
      obtain ⟨hai, _⟩ := h
      have hcap := hf.cap_eq
      subst hai
      simp only at hcap h3 ⊢
      rw [hcap, dbg_ptr_off]
      have hdc : al ∣ n * sz := Nat.dvd_trans h1 (Nat.dvd_mul_left sz n)
      have hdm : al ∣ n * sz % page := (Nat.dvd_mod_iff h2).2 hdc
      split
      · exact Nat.dvd_add h3 (Nat.dvd_sub h2 hdm)
      · simpa using h3

/-! ### DebugAllocator: lookup on deallocate -/

/-- invariant of the allocation list: the lookup key of every block is its own page_ptr, and page_ptrs are distinct -/
structure DInv (page : Nat) (l : List AInfo) : Prop where
  key : ∀ it ∈ l, dbgLookupKey it.ptr page = it.pagePtr
  distinct : l.Pairwise (fun a b => a.pagePtr ≠ b.pagePtr)

theorem lookupKey_block {page pp off : Nat} (hd : page ∣ pp) (ho : off < page) : dbgLookupKey (pp + off) page = pp := by
  obtain ⟨k, rfl⟩ := hd
  unfold dbgLookupKey
  rw [Nat.mul_add_mod, Nat.mod_eq_of_lt ho]
  omega

theorem dbgDeallocate_finds {page : Nat} : ∀ {l : List AInfo}, DInv page l → ∀ it ∈ l,
    dbgDeallocate page l it.ptr = some (l.erase it)
  | [], _, it, hm => by simp at hm
  | hd :: rest, hi, it, hm => by
    have hkey := hi.key it hm
    by_cases heq : hd = it
    · subst heq
      simp [dbgDeallocate, hkey]
    · have hin : it ∈ rest := by
        rcases List.mem_cons.1 hm with h | h
        · exact absurd h.symm heq
        · exact h
      have hne : hd.pagePtr ≠ it.pagePtr := (List.pairwise_cons.1 hi.distinct).1 it hin
      have hrest : DInv page rest :=
        ⟨fun x hx => hi.key x (List.mem_cons_of_mem _ hx), (List.pairwise_cons.1 hi.distinct).2⟩
      have ih := dbgDeallocate_finds hrest it hin
      rw [List.erase_cons_tail (by simpa using heq)]
      simp only [dbgDeallocate, hkey, hne, if_false, ih, Option.map_some]

theorem dinv_erase {page : Nat} {l : List AInfo} (hi : DInv page l) (it : AInfo) : DInv page (l.erase it) :=
  ⟨fun x hx => hi.key x (List.mem_of_mem_erase hx), hi.distinct.sublist (List.erase_sublist)⟩

theorem dinv_append {page : Nat} {l : List AInfo} (hi : DInv page l) {ai : AInfo}
    (hk : dbgLookupKey ai.ptr page = ai.pagePtr) (hfresh : ∀ it ∈ l, it.pagePtr ≠ ai.pagePtr) : DInv page (l ++ [ai]) := by
  refine ⟨fun x hx => ?_, ?_⟩
  · rcases List.mem_append.1 hx with h | h
    · exact hi.key x h
    · simp only [List.mem_singleton] at h; rw [h]; exact hk
  · rw [List.pairwise_append]
    refine ⟨hi.distinct, by simp, fun a ha b hb => ?_⟩
    simp only [List.mem_singleton] at hb
    rw [hb]; exact hfresh a ha

theorem dinv_step {sz page : Nat} (hsz : 0 < sz) (hp : 0 < page) (hp2 : 2 * page ≤ sizeMax) {l : List AInfo}
    (hi : DInv page l) (o : DOp) (os : List DOp) (hv : DValid sz page l (o :: os)) :
    ∃ l', dbgStep sz page l o = some l' ∧ DInv page l' ∧ DValid sz page l' os := by
  cases o with
  | alloc n mm =>
    obtain ⟨hfresh, hnext⟩ := hv
    cases hres : dbgAllocate sz page n (fun _ => mm) l with
    | error e =>
      have hs : dbgStep sz page l (.alloc n mm) = some l := by simp [dbgStep, hres]
      exact ⟨l, hs, hi, hnext l hs⟩
    | ok r =>
      obtain ⟨ai, l'⟩ := r
      have hs : dbgStep sz page l (.alloc n mm) = some l' := by simp [dbgStep, hres]
      obtain ⟨hf, hl', hmm, _⟩ := dbg_facts hsz hp hp2 hres
      have hfr := hfresh ai.pagePtr hmm
      have hk : dbgLookupKey ai.ptr page = ai.pagePtr := by
        have h1 := hf.ptr_ge
        have : ai.ptr = ai.pagePtr + (ai.ptr - ai.pagePtr) := by omega
        rw [this]; exact lookupKey_block hfr.1 hf.ptr_off_lt
      exact ⟨l', hs, by rw [hl']; exact dinv_append hi hk hfr.2, hnext l' hs⟩
  | free ptr =>
    obtain ⟨⟨it, hit, hptr⟩, hnext⟩ := hv
    have hs : dbgStep sz page l (.free ptr) = some (l.erase it) := by
      simp only [dbgStep]; rw [← hptr]; exact dbgDeallocate_finds hi it hit
    exact ⟨l.erase it, hs, dinv_erase hi it, hnext _ hs⟩

theorem dbgRun_ok {sz page : Nat} (hsz : 0 < sz) (hp : 0 < page) (hp2 : 2 * page ≤ sizeMax) :
    ∀ (ops : List DOp) (l : List AInfo), DInv page l → DValid sz page l ops →
    ∃ l', dbgRun sz page l ops = some l' ∧ DInv page l'
  | [], l, hi, _ => ⟨l, rfl, hi⟩
  | o :: os, l, hi, hv => by
    obtain ⟨l1, hs, hi1, hv1⟩ := dinv_step hsz hp hp2 hi o os hv
    obtain ⟨l2, hr, hi2⟩ := dbgRun_ok hsz hp hp2 os l1 hi1 hv1
    exact ⟨l2, by simp only [dbgRun, hs]; exact hr, hi2⟩

/-! ### debugalign.hh -/

theorem isAligned_iff' (p a : Nat) : isAligned p a = true ↔ a ∣ p := by
  unfold isAligned
  simp only [beq_iff_eq]
  exact (Nat.dvd_iff_mod_eq_zero ..).symm

end DV.C15
