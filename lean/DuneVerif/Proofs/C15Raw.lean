/-
C15 — lemmas about the request validation of MallocAllocator/AlignedAllocator and the page arithmetic and lookup of
DebugMemory::AllocationManager, all about the generated definitions of Gen/C15.lean.  Core Lean only.
-/
import DuneVerif.Model.C15

namespace DV.C15
open DV.C15.Gen

theorem wrap_of_le {x : Nat} (h : x ≤ sizeMax) : wrap x = x := by
  unfold wrap; unfold sizeMax at h; exact Nat.mod_eq_of_lt (by omega)

theorem mul_le_of_le_maxSize {sz n : Nat} (hsz : 0 < sz) (h : n ≤ mallocMaxSize sz) : n * sz ≤ sizeMax :=
  (Nat.le_div_iff_mul_le hsz).1 h

theorem maxSize_lt_of_overflow {sz n : Nat} (h : sizeMax < n * sz) : mallocMaxSize sz < n := by
  unfold mallocMaxSize
  exact Nat.div_lt_of_lt_mul (by rw [Nat.mul_comm]; exact h)

/-! ### MallocAllocator -/

theorem mallocBytesFor_eq (sz al n : Nat) : mallocBytesFor sz al n = wrap (n * sz) := by
  unfold mallocBytesFor mallocOverBytes mallocBytes; split <;> rfl

theorem malloc_refused' {sz n : Nat} (al : Nat) (h : sizeMax < n * sz) (os : Nat → Bool) :
    mallocAllocate sz al n os = .error .alloc := by
  have := maxSize_lt_of_overflow h
  simp [mallocAllocate, mallocLimit, mallocLimitVal, this]

theorem malloc_served' {sz al n a bytes : Nat} (hsz : 0 < sz) {os : Nat → Bool}
    (h : mallocAllocate sz al n os = .ok (a, bytes)) :
    a = mallocAlignment al ∧ bytes = n * sz ∧ os bytes = true ∧ n * sz ≤ sizeMax := by
  simp only [mallocAllocate, mallocLimit, mallocLimitVal] at h
  split at h
  · exact absurd h (by simp)
  · rename_i hn
    have hle := mul_le_of_le_maxSize hsz (Nat.le_of_not_gt hn)
    split at h
    · rename_i hos
      simp only [Except.ok.injEq, Prod.mk.injEq] at h
      rw [mallocBytesFor_eq, wrap_of_le hle] at h hos
      exact ⟨h.1.symm, h.2.symm, by rw [← h.2]; exact hos, hle⟩
    · exact absurd h (by simp)

/-- the alignment the C library is asked for is sufficient for a type whose alignment is a power of two -/
theorem mallocAlignment_dvd (k : Nat) : 2 ^ k ∣ mallocAlignment (2 ^ k) := by
  unfold mallocAlignment mallocOverCond mallocOverAlign maxAlign
  split
  · exact Nat.dvd_refl _
  · rename_i h
    simp only [decide_eq_true_eq] at h
    have hk : k ≤ 4 := by
      apply Classical.byContradiction
      intro hk
      have : 2 ^ 5 ≤ 2 ^ k := Nat.pow_le_pow_right (by decide) (by omega)
      omega
    exact (Nat.pow_dvd_pow 2 hk : 2 ^ k ∣ 2 ^ 4)

/-! ### AlignedAllocator -/

theorem aligned_refused' {sz n : Nat} (al A : Nat) (h : sizeMax < n * sz) (os : Nat → Bool) :
    alignedAllocate sz al A n os = .error .alloc := by
  have := maxSize_lt_of_overflow h
  simp [alignedAllocate, alignedLimit, alignedLimitVal, this]

theorem aligned_served' {sz al A n a bytes : Nat} (hsz : 0 < sz) {os : Nat → Bool}
    (h : alignedAllocate sz al A n os = .ok (a, bytes)) :
    a = (if A = 0 then al else A) ∧ bytes = n * sz ∧ os bytes = true ∧ n * sz ≤ sizeMax := by
  simp only [alignedAllocate, alignedLimit, alignedLimitVal] at h
  split at h
  · exact absurd h (by simp)
  · rename_i hn
    have hle := mul_le_of_le_maxSize hsz (Nat.le_of_not_gt hn)
    split at h
    · rename_i hos
      simp only [Except.ok.injEq, Prod.mk.injEq] at h
      rw [alignedBytes, wrap_of_le hle] at h hos
      exact ⟨by rw [← h.1]; rfl, h.2.symm, by rw [← h.2]; exact hos, hle⟩
    · exact absurd h (by simp)

/-! ### DebugAllocator: page arithmetic -/

/-- the facts about one accepted request, for a sane page size -/
structure DbgFacts (sz page n : Nat) (ai : AInfo) : Prop where
  cap_eq : ai.cap = n * sz
  ptr_ge : ai.pagePtr ≤ ai.ptr
  ptr_off_lt : ai.ptr - ai.pagePtr < page
  ends_at_guard : ai.ptr + ai.cap = ai.pagePtr + dbgGuardOff ai.cap page
  guard_last : dbgGuardOff ai.cap page + page = ai.pages * page
  maplen : dbgMapLen ai.cap page = ai.pages * page
  no_wrap : ai.pages * page ≤ sizeMax

theorem dbg_pages_mul {cap page : Nat} :
    dbgPages cap page * page = (if cap % page ≠ 0 then cap - cap % page + 2 * page else cap + page) := by
  have hdm := Nat.div_add_mod' cap page
  unfold dbgPages dbgOverlap
  split
  · rw [Nat.add_mul]
    generalize cap / page * page = q at hdm ⊢
    omega
  · rename_i h
    have : cap % page = 0 := by simpa using h
    rw [Nat.add_mul, Nat.one_mul]
    generalize cap / page * page = q at hdm ⊢
    omega

theorem dbg_guard_off {cap page : Nat} :
    dbgGuardOff cap page = (if cap % page ≠ 0 then cap - cap % page + page else cap) := by
  have hdm := Nat.div_add_mod' cap page
  unfold dbgGuardOff dbgPages dbgOverlap
  generalize cap / page = d at hdm ⊢
  split
  · have : d + 2 - 1 = d + 1 := by omega
    rw [this, Nat.add_mul, Nat.one_mul]
    generalize d * page = q at hdm ⊢
    omega
  · rename_i h
    have h0 : cap % page = 0 := by simpa using h
    have : d + 1 - 1 = d := by omega
    rw [this]
    generalize d * page = q at hdm ⊢
    omega

theorem dbg_ptr_off {cap page : Nat} :
    dbgPtrOff cap page = (if cap % page ≠ 0 then page - cap % page else 0) := by
  unfold dbgPtrOff dbgOverlap; rfl

/-- `dbgAllocate` with the generated request bound spelled out -/
theorem dbgAllocate_eq (sz page n : Nat) (mmap : Nat → Option Nat) (l : List AInfo) :
    dbgAllocate sz page n mmap l =
      if n > (sizeMax - 2 * page) / sz then .error .alloc else
      match mmap (dbgMapLen (dbgCapacity sz n) page) with
      | none => .error .alloc
      | some pp =>
        .ok ({ pagePtr := pp, ptr := pp + dbgPtrOff (dbgCapacity sz n) page, pages := dbgPages (dbgCapacity sz n) page,
               cap := dbgCapacity sz n, size := n },
             l ++ [{ pagePtr := pp, ptr := pp + dbgPtrOff (dbgCapacity sz n) page,
                     pages := dbgPages (dbgCapacity sz n) page, cap := dbgCapacity sz n, size := n }]) := by
  rfl

theorem dbg_facts {sz page n : Nat} (hsz : 0 < sz) (hp : 0 < page) (hp2 : 2 * page ≤ sizeMax)
    {mmap : Nat → Option Nat} {l l' : List AInfo} {ai : AInfo}
    (h : dbgAllocate sz page n mmap l = .ok (ai, l')) :
    DbgFacts sz page n ai ∧ l' = l ++ [ai] ∧ mmap (dbgMapLen ai.cap page) = some ai.pagePtr ∧
    n * sz + 2 * page ≤ sizeMax := by
  rw [dbgAllocate_eq] at h
  by_cases hn : n > (sizeMax - 2 * page) / sz
  · rw [if_pos hn] at h; exact absurd h (by simp)
  · rw [if_neg hn] at h
    have hle : n * sz ≤ sizeMax - 2 * page := (Nat.le_div_iff_mul_le hsz).1 (Nat.le_of_not_gt hn)
    have hcap : dbgCapacity sz n = n * sz := by unfold dbgCapacity; exact wrap_of_le (by omega)
    cases hmm : mmap (dbgMapLen (dbgCapacity sz n) page) with
    | none => rw [hmm] at h; exact absurd h (by simp)
    | some pp =>
      rw [hmm] at h
      simp only [Except.ok.injEq, Prod.mk.injEq] at h
      obtain ⟨hai, hl⟩ := h
      subst hai
      simp only [hcap] at hmm hl ⊢
      have hmodlt := Nat.mod_lt (n * sz) hp
      have hmodle := Nat.mod_le (n * sz) page
      have hpm := dbg_pages_mul (cap := n * sz) (page := page)
      have hgo := dbg_guard_off (cap := n * sz) (page := page)
      have hpo := dbg_ptr_off (cap := n * sz) (page := page)
      have hnw : dbgPages (n * sz) page * page ≤ sizeMax := by rw [hpm]; split <;> omega
      have hml : dbgMapLen (n * sz) page = dbgPages (n * sz) page * page := by
        unfold dbgMapLen; exact wrap_of_le hnw
      refine ⟨⟨rfl, by simp, ?_, ?_, ?_, hml, hnw⟩, hl.symm, hmm, by omega⟩
      · simp only [Nat.add_sub_cancel_left]; rw [hpo]; split <;> omega
      · simp only; rw [hgo, hpo]; split <;> omega
      · simp only; rw [hgo, hpm]; split <;> omega

theorem dbg_refused' {sz page n : Nat} (hp2 : 2 * page ≤ sizeMax) (h : sizeMax < n * sz + 2 * page)
    (mmap : Nat → Option Nat) (l : List AInfo) : dbgAllocate sz page n mmap l = .error .alloc := by
  have hc : sz * n = n * sz := Nat.mul_comm _ _
  have : (sizeMax - 2 * page) / sz < n := Nat.div_lt_of_lt_mul (by omega)
  rw [dbgAllocate_eq, if_pos this]

theorem dbg_ptr_aligned' {sz page n al : Nat} (hsz : 0 < sz) (hp : 0 < page) (hp2 : 2 * page ≤ sizeMax)
    {mmap : Nat → Option Nat} {l l' : List AInfo} {ai : AInfo}
    (h : dbgAllocate sz page n mmap l = .ok (ai, l')) (h1 : al ∣ sz) (h2 : al ∣ page) (h3 : al ∣ ai.pagePtr) :
    al ∣ ai.ptr := by
  have hf := (dbg_facts hsz hp hp2 h).1
  rw [dbgAllocate_eq] at h
  by_cases hn : n > (sizeMax - 2 * page) / sz
  · rw [if_pos hn] at h; exact absurd h (by simp)
  · rw [if_neg hn] at h
    cases hmm : mmap (dbgMapLen (dbgCapacity sz n) page) with
    | none => rw [hmm] at h; exact absurd h (by simp)
    | some pp =>
      rw [hmm] at h
      simp only [Except.ok.injEq, Prod.mk.injEq] at h
      obtain ⟨hai, _⟩ := h
      have hcap := hf.cap_eq
      subst hai
      simp only at hcap h3 ⊢
      rw [hcap, dbg_ptr_off]
      have hdc : al ∣ n * sz := Nat.dvd_trans h1 (Nat.dvd_mul_left sz n)
      have hdm : al ∣ n * sz % page := (Nat.dvd_mod_iff h2).2 hdc
      split
      · exact Nat.dvd_add h3 (Nat.dvd_sub h2 hdm)
      · simpa using h3

/-! ### DebugAllocator: lookup on deallocate, the OS trace, disjointness -/

/-- what is recorded about one block: its lookup key is its own page_ptr; the block lies in its mapping and ends where
    the guard page — the last page of the mapping — begins; the mapping length does not wrap -/
structure EntryOK (page : Nat) (it : AInfo) : Prop where
  key : dbgLookupKey it.ptr page = it.pagePtr
  ptr_ge : it.pagePtr ≤ it.ptr
  ends : it.ptr + it.cap + page = it.pagePtr + it.pages * page
  pages_pos : 1 ≤ it.pages
  no_wrap : it.pages * page ≤ sizeMax

/-- invariant of the allocation list relative to the relation `R` assumed between an older and a newer mapping -/
structure DInvG (page : Nat) (R : AInfo → AInfo → Prop) (l : List AInfo) : Prop where
  entry : ∀ it ∈ l, EntryOK page it
  rel : l.Pairwise R

/-- the relations used: each makes the start addresses of two recorded mappings different -/
def Separates (R : AInfo → AInfo → Prop) : Prop :=
  ∀ a b, 1 ≤ a.pages → 1 ≤ b.pages → R a b → a.pagePtr ≠ b.pagePtr

theorem separates_ne : Separates (fun it ai => it.pagePtr ≠ ai.pagePtr) := fun _ _ _ _ h => h

theorem separates_apart {page : Nat} (hp : 0 < page) : Separates (apart page) := by
  intro a b ha hb h heq
  have h1 : page ≤ a.pages * page := Nat.le_mul_of_pos_left page ha
  have h2 : page ≤ b.pages * page := Nat.le_mul_of_pos_left page hb
  unfold apart at h
  omega

abbrev DInv (page : Nat) := DInvG page (fun it ai => it.pagePtr ≠ ai.pagePtr)

theorem lookupKey_block {page pp off : Nat} (hd : page ∣ pp) (ho : off < page) : dbgLookupKey (pp + off) page = pp := by
  obtain ⟨k, rfl⟩ := hd
  unfold dbgLookupKey
  rw [Nat.mul_add_mod, Nat.mod_eq_of_lt ho]
  omega

theorem dbgSizeOk_iff (n size : Nat) : dbgSizeOk n size = true ↔ (n = 0 ∨ n = size) := by
  unfold dbgSizeOk
  simp only [decide_eq_true_eq]
  omega

theorem distinct_of_rel {page : Nat} {R : AInfo → AInfo → Prop} (hR : Separates R) {l : List AInfo}
    (hi : DInvG page R l) : l.Pairwise (fun a b => a.pagePtr ≠ b.pagePtr) := by
  have h := hi.rel
  have he := hi.entry
  clear hi
  induction l with
  | nil => exact List.Pairwise.nil
  | cons x xs ih =>
    rw [List.pairwise_cons] at h ⊢
    refine ⟨fun y hy => hR x y (he x (by simp)).pages_pos (he y (List.mem_cons_of_mem _ hy)).pages_pos (h.1 y hy), ?_⟩
    exact ih h.2 (fun it hit => he it (List.mem_cons_of_mem _ hit))

theorem dbgDeallocate_finds' {page : Nat} : ∀ {l : List AInfo}, (∀ it ∈ l, dbgLookupKey it.ptr page = it.pagePtr) →
    l.Pairwise (fun a b => a.pagePtr ≠ b.pagePtr) → ∀ it ∈ l, ∀ n, (n = 0 ∨ n = it.size) →
    dbgDeallocate page l it.ptr n = some (it, l.erase it)
  | [], _, _, it, hm, _, _ => by simp at hm
  | hd :: rest, hk, hd', it, hm, n, hn => by
    have hkey := hk it hm
    have hsz := (dbgSizeOk_iff n it.size).2 hn
    by_cases heq : hd = it
    · subst heq
      simp [dbgDeallocate, hkey, hsz]
    · have hin : it ∈ rest := by
        rcases List.mem_cons.1 hm with h | h
        · exact absurd h.symm heq
        · exact h
      have hne : hd.pagePtr ≠ it.pagePtr := (List.pairwise_cons.1 hd').1 it hin
      have ih := dbgDeallocate_finds' (fun x hx => hk x (List.mem_cons_of_mem _ hx)) (List.pairwise_cons.1 hd').2 it hin n hn
      rw [List.erase_cons_tail (by simpa using heq)]
      simp only [dbgDeallocate, hkey, hne, if_false, ih, Option.map_some]

theorem dbgDeallocate_finds {page : Nat} {R : AInfo → AInfo → Prop} (hR : Separates R) {l : List AInfo}
    (hi : DInvG page R l) (it : AInfo) (hit : it ∈ l) (n : Nat) (hn : n = 0 ∨ n = it.size) :
    dbgDeallocate page l it.ptr n = some (it, l.erase it) :=
  dbgDeallocate_finds' (fun x hx => (hi.entry x hx).key) (distinct_of_rel hR hi) it hit n hn

theorem dinv_erase {page : Nat} {R : AInfo → AInfo → Prop} {l : List AInfo} (hi : DInvG page R l) (it : AInfo) :
    DInvG page R (l.erase it) :=
  ⟨fun x hx => hi.entry x (List.mem_of_mem_erase hx), hi.rel.sublist (List.erase_sublist)⟩

theorem dinv_append {page : Nat} {R : AInfo → AInfo → Prop} {l : List AInfo} (hi : DInvG page R l) {ai : AInfo}
    (hk : EntryOK page ai) (hfresh : ∀ it ∈ l, R it ai) : DInvG page R (l ++ [ai]) := by
  refine ⟨fun x hx => ?_, ?_⟩
  · rcases List.mem_append.1 hx with h | h
    · exact hi.entry x h
    · simp only [List.mem_singleton] at h; rw [h]; exact hk
  · rw [List.pairwise_append]
    refine ⟨hi.rel, by simp, fun a ha b hb => ?_⟩
    simp only [List.mem_singleton] at hb
    rw [hb]; exact hfresh a ha

/-- an accepted request whose mapping starts page-aligned yields a well-formed entry -/
theorem entryOK_of_alloc {sz page n : Nat} (hsz : 0 < sz) (hp : 0 < page) (hp2 : 2 * page ≤ sizeMax)
    {mmap : Nat → Option Nat} {l l' : List AInfo} {ai : AInfo}
    (h : dbgAllocate sz page n mmap l = .ok (ai, l')) (hd : page ∣ ai.pagePtr) : EntryOK page ai := by
  obtain ⟨hf, _, _, _⟩ := dbg_facts hsz hp hp2 h
  have h1 := hf.ptr_ge
  have h2 := hf.ends_at_guard
  have h3 := hf.guard_last
  refine ⟨?_, h1, by omega, ?_, hf.no_wrap⟩
  · have : ai.ptr = ai.pagePtr + (ai.ptr - ai.pagePtr) := by omega
    rw [this]; exact lookupKey_block hd hf.ptr_off_lt
  · apply Classical.byContradiction
    intro hz
    have : ai.pages = 0 := by omega
    rw [this] at h3
    omega

/-- permutation bookkeeping for the OS trace -/
theorem maps_append (a b : List OsEv) : maps (a ++ b) = maps a ++ maps b := by
  induction a with
  | nil => rfl
  | cons e es ih => cases e <;> simp [maps, ih]

theorem unmaps_append (a b : List OsEv) : unmaps (a ++ b) = unmaps a ++ unmaps b := by
  induction a with
  | nil => rfl
  | cons e es ih => cases e <;> simp [unmaps, ih]

theorem dbgUnmapLen_eq {page : Nat} {it : AInfo} (h : EntryOK page it) : dbgUnmapLen it.pages page = it.pages * page := by
  unfold dbgUnmapLen; exact wrap_of_le h.no_wrap

theorem dbgDtorUnmapLen_eq {page : Nat} {it : AInfo} (h : EntryOK page it) :
    dbgDtorUnmapLen it.pages page = it.pages * page := by
  unfold dbgDtorUnmapLen; exact wrap_of_le h.no_wrap

/-- one step of a valid history: the manager does not abort, the invariant is kept, the history stays valid, and the
    OS calls of the step keep the balance `recorded mappings + maps = unmaps + recorded mappings afterwards` -/
theorem dinv_step {sz page : Nat} {R : AInfo → AInfo → Prop} (hR : Separates R)
    (hsz : 0 < sz) (hp : 0 < page) (hp2 : 2 * page ≤ sizeMax) {l : List AInfo}
    (hi : DInvG page R l) (o : DOp) (os : List DOp) (hv : DValidG sz page R l (o :: os)) :
    ∃ st, dbgStep sz page l o = some st ∧ DInvG page R st.1 ∧ DValidG sz page R st.1 os ∧
      (l.map (AInfo.rng page) ++ maps st.2).Perm (unmaps st.2 ++ st.1.map (AInfo.rng page)) := by
  cases o with
  | alloc n mm =>
    obtain ⟨hfresh, hnext⟩ := hv
    cases hres : dbgAllocate sz page n (fun _ => mm) l with
    | error e =>
      have hs : dbgStep sz page l (.alloc n mm) = some (l, []) := by simp [dbgStep, hres]
      exact ⟨(l, []), hs, hi, hnext _ hs, by simp [maps, unmaps]⟩
    | ok r =>
      obtain ⟨ai, l'⟩ := r
      have hs : dbgStep sz page l (.alloc n mm) = some (l', [.map ai.pagePtr (dbgMapLen ai.cap page)]) := by
        simp [dbgStep, hres]
      obtain ⟨hf, hl', _, _⟩ := dbg_facts hsz hp hp2 hres
      have hfr := hfresh ai l' hres
      have he := entryOK_of_alloc hsz hp hp2 hres hfr.1
      refine ⟨_, hs, by rw [hl']; exact dinv_append hi he hfr.2, hnext _ hs, ?_⟩
      simp only [maps, unmaps, List.nil_append]
      rw [hl', List.map_append, hf.maplen]
      exact List.Perm.refl _
  | free ptr n =>
    obtain ⟨⟨it, hit, hptr, hn⟩, hnext⟩ := hv
    have hfind := dbgDeallocate_finds hR hi it hit n hn
    rw [hptr] at hfind
    have hs : dbgStep sz page l (.free ptr n) = some (l.erase it, [.unmap it.pagePtr (dbgUnmapLen it.pages page)]) := by
      simp [dbgStep, hfind]
    refine ⟨_, hs, dinv_erase hi it, hnext _ hs, ?_⟩
    simp only [maps, unmaps, List.append_nil, List.cons_append, List.nil_append]
    rw [dbgUnmapLen_eq (hi.entry it hit)]
    exact (List.perm_cons_erase hit).map (AInfo.rng page)

theorem dbgRun_ok {sz page : Nat} {R : AInfo → AInfo → Prop} (hR : Separates R)
    (hsz : 0 < sz) (hp : 0 < page) (hp2 : 2 * page ≤ sizeMax) :
    ∀ (ops : List DOp) (l : List AInfo), DInvG page R l → DValidG sz page R l ops →
    ∃ st, dbgRun sz page l ops = some st ∧ DInvG page R st.1 ∧
      (l.map (AInfo.rng page) ++ maps st.2).Perm (unmaps st.2 ++ st.1.map (AInfo.rng page))
  | [], l, hi, _ => ⟨(l, []), rfl, hi, by simp [maps, unmaps]⟩
  | o :: os, l, hi, hv => by
    obtain ⟨st1, hs, hi1, hv1, hp1⟩ := dinv_step hR hsz hp hp2 hi o os hv
    obtain ⟨st2, hr, hi2, hp2'⟩ := dbgRun_ok hR hsz hp hp2 os st1.1 hi1 hv1
    refine ⟨(st2.1, st1.2 ++ st2.2), by simp only [dbgRun, hs, hr], hi2, ?_⟩
    simp only [maps_append, unmaps_append]
    -- l ++ (m1 ++ m2) ~ (l ++ m1) ++ m2 ~ (u1 ++ l1) ++ m2 ~ u1 ++ (l1 ++ m2) ~ u1 ++ (u2 ++ l2)
    have e1 : (l.map (AInfo.rng page) ++ (maps st1.2 ++ maps st2.2)).Perm
        ((unmaps st1.2 ++ st1.1.map (AInfo.rng page)) ++ maps st2.2) := by
      rw [← List.append_assoc]; exact hp1.append_right _
    have e2 : ((unmaps st1.2 ++ st1.1.map (AInfo.rng page)) ++ maps st2.2).Perm
        (unmaps st1.2 ++ (unmaps st2.2 ++ st2.1.map (AInfo.rng page))) := by
      rw [List.append_assoc]; exact hp2'.append_left _
    rw [List.append_assoc]
    exact e1.trans e2

/-! ways to establish validity of a concrete history (used by the non-vacuity examples) -/

theorem dvalid_alloc_ok {sz page : Nat} {R : AInfo → AInfo → Prop} {l l' : List AInfo} {n : Nat} {mm : Option Nat}
    {ai : AInfo} {os : List DOp} (hres : dbgAllocate sz page n (fun _ => mm) l = .ok (ai, l'))
    (h1 : page ∣ ai.pagePtr) (h2 : ∀ it ∈ l, R it ai) (hnext : DValidG sz page R l' os) :
    DValidG sz page R l (.alloc n mm :: os) := by
  refine ⟨fun ai' l'' h => ?_, fun st hs => ?_⟩
  · rw [hres] at h
    simp only [Except.ok.injEq, Prod.mk.injEq] at h
    rw [← h.1]; exact ⟨h1, h2⟩
  · simp only [dbgStep, hres, Option.some.injEq] at hs
    rw [← hs]; exact hnext

theorem dvalid_alloc_refused {sz page : Nat} {R : AInfo → AInfo → Prop} {l : List AInfo} {n : Nat} {mm : Option Nat}
    {e : Err} {os : List DOp} (hres : dbgAllocate sz page n (fun _ => mm) l = .error e)
    (hnext : DValidG sz page R l os) : DValidG sz page R l (.alloc n mm :: os) := by
  refine ⟨fun ai' l'' h => ?_, fun st hs => ?_⟩
  · rw [hres] at h; exact absurd h (by simp)
  · simp only [dbgStep, hres, Option.some.injEq] at hs
    rw [← hs]; exact hnext

theorem dvalid_free {sz page : Nat} {R : AInfo → AInfo → Prop} {l l' : List AInfo} {ptr n : Nat} {it : AInfo}
    {os : List DOp} (hfind : dbgDeallocate page l ptr n = some (it, l')) (hit : it ∈ l) (hptr : it.ptr = ptr)
    (hn : n = 0 ∨ n = it.size) (hnext : DValidG sz page R l' os) : DValidG sz page R l (.free ptr n :: os) := by
  refine ⟨⟨it, hit, hptr, hn⟩, fun st hs => ?_⟩
  simp only [dbgStep, hfind, Option.some.injEq] at hs
  rw [← hs]; exact hnext

theorem dinv_nil (page : Nat) (R : AInfo → AInfo → Prop) : DInvG page R [] := ⟨by simp, List.Pairwise.nil⟩

/-- the blocks of two entries whose mappings are apart do not overlap, and neither block reaches into the other's
    (or its own) guard page -/
theorem blocks_apart {page : Nat} {a b : AInfo} (ha : EntryOK page a) (hb : EntryOK page b) (h : apart page a b) :
    (a.ptr + a.cap ≤ b.ptr ∨ b.ptr + b.cap ≤ a.ptr) ∧
    (a.ptr + a.cap ≤ b.pagePtr + (b.pages - 1) * page ∨ b.pagePtr + b.pages * page ≤ a.ptr) := by
  have ha1 := ha.ptr_ge; have ha2 := ha.ends
  have hb1 := hb.ptr_ge; have hb2 := hb.ends
  have hbp := hb.pages_pos
  have hsub : (b.pages - 1) * page + page = b.pages * page := by
    have : b.pages - 1 + 1 = b.pages := by omega
    rw [← this, Nat.add_mul, Nat.one_mul]; simp
  unfold apart at h
  constructor <;> omega

/-! ### debugalign.hh -/

theorem isAligned_iff' (p a : Nat) : isAligned p a = true ↔ a ∣ p := by
  unfold isAligned
  simp only [beq_iff_eq]
  exact (Nat.dvd_iff_mod_eq_zero ..).symm

end DV.C15
