/-
C12, round four: acceptance of floating-point text in both directions.

`Parser<double>` / `Parser<float>` accept EXACTLY  blanks  literal  blanks  where the literal is
`[sign] digits* [. digits*] [e|E [sign] digits+]` with at least one mantissa digit and its pieces evaluate
(`FloatLex.evalB`: exact decimal value, rounded to nearest / ties to even, overflow = failure) to a finite number of
the format, and that evaluation is what is returned.  `LexOf t f` ties the text of a literal to the pieces the lexer
reports.  (Round two proved only "accepted ⇒ that shape".)
-/
import DuneVerif.Proofs.C12Float

namespace DV.C12

/-- the text `t` is a floating literal and `f` are its pieces as the lexer reports them -/
def LexOf (t : Str) (f : FloatLex) : Prop :=
  ∃ sign frac expo, t = sign ++ f.ip ++ frac ++ expo ∧ SignOK sign ∧ f.neg = decide (sign = ['-']) ∧
    AllDig f.ip ∧ AllDig f.fp ∧ ((frac = [] ∧ f.fp = []) ∨ frac = '.' :: f.fp) ∧ (f.ip ≠ [] ∨ f.fp ≠ []) ∧
    ((expo = [] ∧ f.eneg = false ∧ f.ex = []) ∨
      ∃ e esign, expo = e :: (esign ++ f.ex) ∧ (e = 'e' ∨ e = 'E') ∧ SignOK esign ∧ f.eneg = decide (esign = ['-']) ∧
        f.ex ≠ [] ∧ AllDig f.ex)

theorem signSplit_sign_body {sign R : Str} (hs : SignOK sign)
    (hR : ∀ c, R.head? = some c → c ≠ '-' ∧ c ≠ '+') : signSplit (sign ++ R) = (decide (sign = ['-']), R) := by
  rcases hs with rfl | rfl | rfl
  · cases R with
    | nil => simp [signSplit_nil]
    | cons c t =>
      obtain ⟨h1, h2⟩ := hR c rfl
      simp [signSplit_other t h1 h2]
  · simp [signSplit_plus]
  · simp [signSplit_minus]

theorem skipWs_body {pre R : Str} (hpre : AllSpace pre) (hR : ∀ c, R.head? = some c → isSpaceC c = false) :
    skipWs (pre ++ R) = R := by
  rw [skipWs_append_of_allSpace hpre]
  cases R with
  | nil => rfl
  | cons c t => exact skipWs_cons_of_not_space (hR c rfl)

theorem isDig_dot : isDig '.' = false := by decide
theorem isDig_e : isDig 'e' = false := by decide
theorem isDig_E : isDig 'E' = false := by decide

theorem fracSplit_dot (fp R : Str) (hfp : AllDig fp) (hR : NoDigHead R) : fracSplit ('.' :: (fp ++ R)) = (fp, R) := by
  simp only [fracSplit, takeWhile_digs hfp hR, dropWhile_digs hfp hR]

theorem fracSplit_nodot (R : Str) (hR : ∀ c, R.head? = some c → c ≠ '.') : fracSplit R = ([], R) := by
  cases R with
  | nil => rfl
  | cons c t =>
    have := hR c rfl
    unfold fracSplit
    split
    · rename_i r heq
      injection heq with h1 h2
      exact absurd h1 this
    · rfl


theorem expoStage_none_expo (neg : Bool) (ip fp post : Str) (hpost : AllSpace post) :
    expoStage neg ip fp post = some (⟨neg, ip, fp, false, []⟩, post) := by
  cases post with
  | nil => rfl
  | cons c r =>
    have hc : isSpaceC c = true := hpost c List.mem_cons_self
    have h1 : (c == 'e' || c == 'E') = false := by
      by_cases he : c = 'e'
      · subst he; exact absurd hc (by decide)
      · by_cases hE : c = 'E'
        · subst hE; exact absurd hc (by decide)
        · simp [he, hE]
    simp only [expoStage, h1, Bool.false_eq_true, if_false]

theorem expoStage_expo (neg : Bool) (ip fp post esign ex : Str) (e : Char) (he : e = 'e' ∨ e = 'E') (hes : SignOK esign)
    (hex : ex ≠ []) (hexd : AllDig ex) (hpost : AllSpace post) :
    expoStage neg ip fp (e :: (esign ++ ex) ++ post) = some (⟨neg, ip, fp, decide (esign = ['-']), ex⟩, post) := by
  have h1 : (e == 'e' || e == 'E') = true := by rcases he with rfl | rfl <;> decide
  have hR : ∀ c, (ex ++ post).head? = some c → c ≠ '-' ∧ c ≠ '+' := by
    intro c hc
    cases ex with
    | nil => exact absurd rfl hex
    | cons d ds =>
      simp at hc; subst hc
      have := hexd d List.mem_cons_self
      exact ⟨ne_minus_of_isDig this, ne_plus_of_isDig this⟩
  have hss := signSplit_sign_body (R := ex ++ post) hes hR
  have e1 : (esign ++ ex ++ post) = esign ++ (ex ++ post) := by simp
  have hs1 : ((esign ++ ex ++ post).head? == some '-') = decide (esign = ['-']) := by
    have := congrArg Prod.fst hss; rw [e1]; exact this
  have hs2 : (if (esign ++ ex ++ post).head? == some '-' || (esign ++ ex ++ post).head? == some '+' then (esign ++ ex ++ post).drop 1
      else (esign ++ ex ++ post)) = ex ++ post := by
    have := congrArg Prod.snd hss; rw [e1]; exact this
  have hnd := noDigHead_of_allSpace hpost
  simp only [List.cons_append, expoStage, h1, if_true]
  rw [hs2, hs1, takeWhile_digs hexd hnd, dropWhile_digs hexd hnd]
  simp [hex]


theorem expo_part (neg : Bool) (ip fp expo post : Str) (f : FloatLex) (hpost : AllSpace post)
    (hexpo : (expo = [] ∧ f.eneg = false ∧ f.ex = []) ∨
      ∃ e esign, expo = e :: (esign ++ f.ex) ∧ (e = 'e' ∨ e = 'E') ∧ SignOK esign ∧ f.eneg = decide (esign = ['-']) ∧
        f.ex ≠ [] ∧ AllDig f.ex) :
    expoStage neg ip fp (expo ++ post) = some (⟨neg, ip, fp, f.eneg, f.ex⟩, post) ∧ NoDigHead (expo ++ post) ∧
      (∀ c, (expo ++ post).head? = some c → c ≠ '.') := by
  rcases hexpo with ⟨rfl, h1, h2⟩ | ⟨e, esign, rfl, he, hes, h1, h2, h3⟩
  · refine ⟨by rw [h1, h2]; exact expoStage_none_expo neg ip fp post hpost, noDigHead_of_allSpace hpost, ?_⟩
    intro c hc
    cases post with
    | nil => simp at hc
    | cons x xs =>
      simp at hc; subst hc
      have := hpost x List.mem_cons_self
      intro h; subst h; exact absurd this (by decide)
  · refine ⟨by rw [h1]; exact expoStage_expo neg ip fp post esign f.ex e he hes h2 h3 hpost, ?_, ?_⟩
    · intro c hc
      simp at hc; subst hc
      rcases he with rfl | rfl <;> decide
    · intro c hc
      simp at hc; subst hc
      rcases he with rfl | rfl <;> decide

theorem frac_part (frac fp R : Str) (hfrac : (frac = [] ∧ fp = []) ∨ frac = '.' :: fp) (hfp : AllDig fp)
    (hR : NoDigHead R) (hR' : ∀ c, R.head? = some c → c ≠ '.') :
    fracSplit (frac ++ R) = (fp, R) ∧ NoDigHead (frac ++ R) := by
  rcases hfrac with ⟨rfl, rfl⟩ | rfl
  · exact ⟨fracSplit_nodot R hR', hR⟩
  · refine ⟨fracSplit_dot fp R hfp hR, ?_⟩
    intro c hc
    simp at hc; subst hc; exact isDig_dot

/-- completeness of the lexer: on blanks, a floating literal, blanks it reports the literal's pieces and leaves
    the trailing blanks -/
theorem extractFloatLex_complete (pre lit post : Str) (f : FloatLex) (hpre : AllSpace pre) (hpost : AllSpace post)
    (hl : LexOf lit f) : extractFloatLex (pre ++ lit ++ post) = some (f, post) := by
  obtain ⟨sign, frac, expo, rfl, hsign, hneg, hip, hfp, hfrac, hne, hexpo⟩ := hl
  obtain ⟨hE, hEnd, hEdot⟩ := expo_part f.neg f.ip f.fp expo post f hpost hexpo
  obtain ⟨hF, hFnd⟩ := frac_part frac f.fp (expo ++ post) hfrac hfp hEnd hEdot
  -- the head of the mantissa is a digit or the point
  have hT : ∀ c, (f.ip ++ (frac ++ (expo ++ post))).head? = some c → c ≠ '-' ∧ c ≠ '+' ∧ isSpaceC c = false := by
    intro c hc
    cases hi : f.ip with
    | cons d ds =>
      rw [hi] at hc; simp at hc; subst hc
      have := hip d (by rw [hi]; exact List.mem_cons_self)
      exact ⟨ne_minus_of_isDig this, ne_plus_of_isDig this, isSpaceC_of_isDig this⟩
    | nil =>
      rw [hi] at hc
      have hfpne : f.fp ≠ [] := by rcases hne with h | h; exact absurd hi h; exact h
      rcases hfrac with ⟨_, h⟩ | h
      · exact absurd h hfpne
      · rw [h] at hc; simp at hc; subst hc; exact ⟨by decide, by decide, by decide⟩
  have eq1 : pre ++ (sign ++ f.ip ++ frac ++ expo) ++ post = pre ++ (sign ++ (f.ip ++ (frac ++ (expo ++ post)))) := by
    simp [List.append_assoc]
  have hS : ∀ c, (sign ++ (f.ip ++ (frac ++ (expo ++ post)))).head? = some c → isSpaceC c = false := by
    intro c hc
    rcases hsign with rfl | rfl | rfl
    · exact (hT c hc).2.2
    · simp at hc; subst hc; exact isSpaceC_plus
    · simp at hc; subst hc; exact isSpaceC_minus
  rw [extractFloatLex_eq, eq1, skipWs_body hpre hS,
    signSplit_sign_body hsign (fun c hc => ⟨(hT c hc).1, (hT c hc).2.1⟩)]
  simp only
  rw [takeWhile_digs hip hFnd, dropWhile_digs hip hFnd, hF]
  have hm : (f.ip = [] && f.fp = []) = false := by
    rcases hne with h | h <;> simp [h]
  simp only [hm, Bool.false_eq_true, if_false, hE, ← hneg]


theorem decide_eq_of_iff {b : Bool} {p : Prop} [Decidable p] (h : b = true ↔ p) : b = decide p := by
  by_cases hp : p
  · simp [hp, h.mpr hp]
  · have : b = false := by
      cases b with
      | false => rfl
      | true => exact absurd (h.mp rfl) hp
    simp [hp, this]

theorem expoStage_fields (neg : Bool) (ip fp s4 : Str) (f : FloatLex) (rest : Str)
    (h : expoStage neg ip fp s4 = some (f, rest)) :
    f.neg = neg ∧ f.ip = ip ∧ f.fp = fp ∧ ∃ expo, s4 = expo ++ rest ∧
      ((expo = [] ∧ f.eneg = false ∧ f.ex = []) ∨
        ∃ e esign, expo = e :: (esign ++ f.ex) ∧ (e = 'e' ∨ e = 'E') ∧ SignOK esign ∧ f.eneg = decide (esign = ['-']) ∧
          f.ex ≠ [] ∧ AllDig f.ex) := by
  unfold expoStage at h
  split at h
  · rename_i e r
    by_cases he : (e == 'e' || e == 'E') = true
    · simp only [he, if_true] at h
      obtain ⟨esign, hes, hr, hneg⟩ := signSplit_spec r
      have hr2 : (signSplit r).2 = (if r.head? == some '-' || r.head? == some '+' then r.drop 1 else r) := rfl
      have hr1 : (signSplit r).1 = (r.head? == some '-') := rfl
      rw [← hr2, ← hr1] at h
      by_cases hex : (signSplit r).2.takeWhile isDig = []
      · simp [hex] at h
      · simp only [hex, if_false, Option.some.injEq, Prod.mk.injEq] at h
        obtain ⟨hf, hrest⟩ := h
        subst hf
        refine ⟨rfl, rfl, rfl, e :: (esign ++ (signSplit r).2.takeWhile isDig), ?_,
          Or.inr ⟨e, esign, rfl, by simpa using he, hes, decide_eq_of_iff hneg, hex,
            fun c hc => mem_takeWhile_pos isDig _ c hc⟩⟩
        rw [← hrest]
        simp only [List.cons_append, List.append_assoc, List.takeWhile_append_dropWhile]
        rw [← hr]
    · simp only [he, if_false, Bool.false_eq_true, Option.some.injEq, Prod.mk.injEq] at h
      obtain ⟨hf, hrest⟩ := h
      subst hf
      exact ⟨rfl, rfl, rfl, [], by rw [← hrest]; rfl, Or.inl ⟨rfl, rfl, rfl⟩⟩
  · simp only [Option.some.injEq, Prod.mk.injEq] at h
    obtain ⟨hf, hrest⟩ := h
    subst hf
    exact ⟨rfl, rfl, rfl, [], by rw [← hrest]; rfl, Or.inl ⟨rfl, rfl, rfl⟩⟩

/-- soundness of the lexer with the pieces: what it reports are the pieces of the literal it consumed -/
theorem extractFloatLex_sound (s : Str) (f : FloatLex) (rest : Str) (h : extractFloatLex s = some (f, rest)) :
    ∃ pre t, s = pre ++ t ++ rest ∧ AllSpace pre ∧ LexOf t f := by
  rw [extractFloatLex_eq] at h
  simp only at h
  obtain ⟨pre, hpre, hs⟩ := skipWs_split s
  obtain ⟨sign, hsign, hs1, hneg⟩ := signSplit_spec (skipWs s)
  obtain ⟨hdig, _, hs2⟩ := digs_split (signSplit (skipWs s)).2
  obtain ⟨frac, hs3, hfp, hfrac⟩ := fracSplit_spec ((signSplit (skipWs s)).2.dropWhile isDig)
  by_cases hm : ((signSplit (skipWs s)).2.takeWhile isDig = [] &&
      (fracSplit ((signSplit (skipWs s)).2.dropWhile isDig)).1 = []) = true
  · simp [hm] at h
  · simp only [hm, if_false, Bool.false_eq_true] at h
    obtain ⟨h1, h2, h3, expo, hs4, hexpo⟩ := expoStage_fields _ _ _ _ f rest h
    refine ⟨pre, sign ++ f.ip ++ frac ++ expo, ?_, hpre, sign, frac, expo, rfl, hsign, ?_, ?_, ?_, ?_, ?_, hexpo⟩
    · conv => lhs; rw [hs, hs1, hs2, hs3, hs4]
      rw [h2]
      simp only [List.append_assoc]
    · rw [h1]; exact decide_eq_of_iff hneg
    · rw [h2]; exact hdig
    · rw [h3]; exact hfp
    · rw [h3]
      rcases hfrac with ⟨hf, hf2⟩ | hf
      · exact Or.inl ⟨hf, hf2⟩
      · exact Or.inr hf
    · rw [h2, h3]
      by_cases hip : (signSplit (skipWs s)).2.takeWhile isDig = []
      · right
        intro e
        apply hm
        simp [hip, e]
      · exact Or.inl hip

/-- **acceptance of floating text, both directions**: `Parser<double|float>` (any binary format `b` of the model)
    accepts exactly blanks, one floating literal, blanks whose pieces evaluate (`evalB`: exact decimal value rounded
    to nearest-even, overflow = failure) to a finite number, and returns that evaluation -/
theorem parseBin_iff (b : BinFmt) (s : Str) (v : Nat) :
    parseScalar (extractBin b) s = some v ↔
      ∃ pre lit post f, s = pre ++ lit ++ post ∧ AllSpace pre ∧ AllSpace post ∧ LexOf lit f ∧ f.evalB b = some v := by
  rw [parseScalar_eq_some]
  constructor
  · rintro ⟨rest, h1, hrest⟩
    unfold extractBin at h1
    cases hl : extractFloatLex s with
    | none => rw [hl] at h1; cases h1
    | some p =>
      obtain ⟨f, r⟩ := p
      rw [hl] at h1
      simp only at h1
      cases hv : f.evalB b with
      | none => rw [hv] at h1; cases h1
      | some w =>
        rw [hv] at h1
        simp only [Option.some.injEq, Prod.mk.injEq] at h1
        obtain ⟨rfl, rfl⟩ := h1
        obtain ⟨pre, t, hs, hpre, ht⟩ := extractFloatLex_sound s f r hl
        exact ⟨pre, t, r, f, hs, hpre, hrest, ht, hv⟩
  · rintro ⟨pre, lit, post, f, rfl, hpre, hpost, hl, hv⟩
    refine ⟨post, ?_, hpost⟩
    unfold extractBin
    rw [extractFloatLex_complete pre lit post f hpre hpost hl]
    simp only [hv]

end DV.C12
