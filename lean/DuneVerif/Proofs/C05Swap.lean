import DuneVerif.Proofs.C05System
/-!
C05 helper lemmas, part 5: exchanging the roles of the two index sets and of the two attribute sets exchanges the
two sides of the interface; hence a backward communication is a forward communication of the exchanged system.
-/
namespace DV.C05

/-- source and target index set exchanged on every process -/
def System.swap (sys : System) : System :=
  { P := sys.P, rank := fun p => { src := (sys.rank p).tgtSet, tgt := (sys.rank p).src, two := (sys.rank p).two } }

theorem swap_tgtSet (sys : System) (p : Nat) : (sys.swap.rank p).tgtSet = (sys.rank p).src := by
  simp only [System.swap, RankData.tgtSet]
  by_cases h : (sys.rank p).two = true <;> simp [h]

theorem swap_src (sys : System) (p : Nat) : (sys.swap.rank p).src = (sys.rank p).tgtSet := rfl

theorem swap_sendSpec (ign : Bool) (sys : System) (p q : Nat) : sendSpec ign sys.swap p q = recvSpec ign sys p q := by
  simp only [sendSpec, recvSpec, swap_tgtSet, swap_src]

theorem swap_recvSpec (ign : Bool) (sys : System) (p q : Nat) : recvSpec ign sys.swap p q = sendSpec ign sys p q := by
  simp only [sendSpec, recvSpec, swap_tgtSet, swap_src]

theorem passes_swap (send : Bool) (S T : Nat → Bool) : passes send T S = passes (!send) S T := by
  funext x
  cases send <;> simp [passes]

theorem infoOf_swap (send : Bool) (S T : Nat → Bool) (l : List RIdx) : infoOf send T S l = infoOf (!send) S T l := by
  rw [infoOf_eq, infoOf_eq, passes_swap]

theorem swap_remoteEntry (ign : Bool) (sys : System) (p q : Nat) :
    remoteEntry ign sys.swap p q = (remoteEntry ign sys p q).map fun e => (e.1, e.2.2, e.2.1) := by
  simp only [remoteEntry, swap_sendSpec, swap_recvSpec]
  have htwo : (sys.swap.rank p).two = (sys.rank p).two := rfl
  rw [htwo]
  by_cases h1 : q = p ∧ (sys.rank p).two = false
  · simp only [h1, and_self, if_true, Option.map_none]
  · simp only [h1, if_false]
    by_cases h2 : (sendSpec ign sys p q).isEmpty = true ∧ (recvSpec ign sys p q).isEmpty = true
    · have h2' : (recvSpec ign sys p q).isEmpty = true ∧ (sendSpec ign sys p q).isEmpty = true := ⟨h2.2, h2.1⟩
      simp only [h2, and_self, if_true, Option.map_none]
    · have h2' : ¬ ((recvSpec ign sys p q).isEmpty = true ∧ (sendSpec ign sys p q).isEmpty = true) :=
        fun h => h2 ⟨h.2, h.1⟩
      simp only [h2, h2', if_false, Option.map_some]

theorem swap_remoteSpec (ign : Bool) (sys : System) (p : Nat) :
    remoteSpec ign sys.swap p = (remoteSpec ign sys p).map fun e => (e.1, e.2.2, e.2.1) := by
  simp only [remoteSpec, List.map_filterMap]
  have : sys.swap.P = sys.P := rfl
  rw [this]
  congr 1
  funext q
  exact swap_remoteEntry ign sys p q

/-- the interface of the exchanged system with the exchanged attribute sets is the interface with its sides exchanged -/
theorem swap_interfaceOf (ign : Bool) (S T : Nat → Bool) (sys : System) (p : Nat) :
    interfaceOf ign T S sys.swap p = swapIf (interfaceOf ign S T sys p) := by
  simp only [interfaceOf, buildInterface, swap_remoteSpec, buildInterfaceRaw, strip, swapIf, List.map_map,
    List.filter_map]
  have h1 : ∀ l, infoOf true T S l = infoOf false S T l := fun l => infoOf_swap true S T l
  have h2 : ∀ l, infoOf false T S l = infoOf true S T l := fun l => infoOf_swap false S T l
  congr 1
  · funext e
    simp only [Function.comp, h1, h2]
  · congr 1
    funext e
    simp only [Function.comp, h1, h2]
    rw [Bool.and_comm]

theorem swap_comm (ign : Bool) (S T : Nat → Bool) (sys : System) (sz : Nat) (csS csT : Nat → Nat → Nat) (p : Nat) :
    ((netOf ign S T sys sz csS csT).comm p).swap = (netOf ign T S sys.swap sz csT csS).comm p := by
  simp only [Net.comm, netOf, buildComm_swap, swap_interfaceOf]

theorem swap_wf {sys : System} (h : WF sys) : WF sys.swap where
  src := fun p => by rw [swap_src]; exact h.tgt p
  tgt := fun p => by rw [swap_tgtSet]; exact h.src p

theorem swap_sizes {sys : System} {csS csT blk} (h : SizesByGlobal sys csS csT blk) : SizesByGlobal sys.swap csT csS blk where
  src := fun p e he => by rw [swap_src] at he; exact h.tgt p e he
  tgt := fun p e he => by rw [swap_tgtSet] at he; exact h.src p e he

theorem swap_admits (sys : System) (p q : Nat) : admits sys.swap p q ↔ admits sys p q := Iff.rfl

theorem swap_sendL (ign : Bool) (S T : Nat → Bool) (sys : System) (p q : Nat) :
    sendL ign T S sys.swap p q = recvL ign S T sys p q := by
  have h : passes true T S = passes false S T := passes_swap true S T
  simp only [sendL, recvL, sendEntries, recvEntries, swap_sendSpec, h]
  rfl

theorem swap_recvL (ign : Bool) (S T : Nat → Bool) (sys : System) (p q : Nat) :
    recvL ign T S sys.swap p q = sendL ign S T sys p q := by
  have h : passes false T S = passes true S T := passes_swap false S T
  simp only [sendL, recvL, sendEntries, recvEntries, swap_recvSpec, h]
  rfl

end DV.C05
