/-
C03 helper lemmas, part 1: the comparison, insertion sort, the three-way merge.  Core Lean only.
-/
import DuneVerif.Model.C03

namespace DV.C03

/-- (global, attribute): what the sort functor and the merge compare -/
def key (p : Pair) : Int × Nat := (p.g, p.l.attr)

/-- lexicographic `≤` on (global, attribute) -/
def keyLe (a b : Pair) : Prop := a.g < b.g ∨ (a.g = b.g ∧ a.l.attr ≤ b.l.attr)

/-- ascending in (global, attribute) -/
def SortedLex (xs : List Pair) : Prop := xs.Pairwise keyLe

/-- strictly ascending global indices -/
def StrictG (xs : List Pair) : Prop := xs.Pairwise fun a b => a.g < b.g

/-- ascending global indices -/
def SortedG (xs : List Pair) : Prop := xs.Pairwise fun a b => a.g ≤ b.g

def globals (xs : List Pair) : List Int := xs.map (·.g)

theorem before_iff (a b : Pair) : before a b = true ↔ a.g < b.g ∨ (a.g = b.g ∧ a.l.attr < b.l.attr) := by
  simp [before]

theorem before_false_iff (a b : Pair) : before a b = false ↔ ¬ (a.g < b.g ∨ (a.g = b.g ∧ a.l.attr < b.l.attr)) := by
  rw [← before_iff]; simp

theorem keyLe_of_before {a b : Pair} (h : before a b = true) : keyLe a b := by
  rcases (before_iff a b).1 h with h | ⟨h1, h2⟩
  · exact Or.inl h
  · exact Or.inr ⟨h1, Nat.le_of_lt h2⟩

theorem keyLe_of_not_before {a b : Pair} (h : before a b = false) : keyLe b a := by
  have h' := (before_false_iff a b).1 h
  unfold keyLe
  by_cases h1 : b.g < a.g
  · exact Or.inl h1
  · by_cases h2 : a.g < b.g
    · exact absurd (Or.inl h2) h'
    · have : a.g = b.g := by omega
      refine Or.inr ⟨this.symm, ?_⟩
      by_cases h3 : a.l.attr < b.l.attr
      · exact absurd (Or.inr ⟨this, h3⟩) h'
      · omega

theorem keyLe_trans {a b c : Pair} (h1 : keyLe a b) (h2 : keyLe b c) : keyLe a c := by
  unfold keyLe at *
  rcases h1 with h1 | ⟨h1, h1'⟩ <;> rcases h2 with h2 | ⟨h2, h2'⟩
  · left; omega
  · left; omega
  · left; omega
  · right; exact ⟨by omega, by omega⟩

theorem keyLe_refl (a : Pair) : keyLe a a := Or.inr ⟨rfl, Nat.le_refl _⟩

theorem keyLe_g {a b : Pair} (h : keyLe a b) : a.g ≤ b.g := by
  unfold keyLe at h; omega

theorem SortedLex.sortedG {xs : List Pair} (h : SortedLex xs) : SortedG xs :=
  List.Pairwise.imp (fun h => keyLe_g h) h

theorem StrictG.sortedG {xs : List Pair} (h : StrictG xs) : SortedG xs :=
  List.Pairwise.imp (fun h => Int.le_of_lt h) h

/-! ### insertion sort -/

theorem insertSorted_perm (p : Pair) (xs : List Pair) : (insertSorted p xs).Perm (p :: xs) := by
  induction xs with
  | nil => simp [insertSorted]
  | cons q qs ih =>
    unfold insertSorted
    split
    · exact (List.Perm.cons q ih).trans (List.Perm.swap p q qs)
    · exact List.Perm.refl _

theorem insertSorted_sorted (p : Pair) (xs : List Pair) (h : SortedLex xs) : SortedLex (insertSorted p xs) := by
  induction xs with
  | nil => simp [insertSorted, SortedLex]
  | cons q qs ih =>
    unfold SortedLex at h ih ⊢
    rw [List.pairwise_cons] at h
    unfold insertSorted
    split
    · next hb =>
      rw [List.pairwise_cons]
      refine ⟨?_, ih h.2⟩
      intro x hx
      rcases List.mem_cons.1 ((insertSorted_perm p qs).mem_iff.1 hx) with rfl | hx
      · exact keyLe_of_before hb
      · exact h.1 x hx
    · next hb =>
      have hb : before q p = false := by simpa using hb
      have hpq : keyLe p q := keyLe_of_not_before hb
      rw [List.pairwise_cons]
      refine ⟨?_, List.pairwise_cons.2 h⟩
      intro x hx
      rcases List.mem_cons.1 hx with rfl | hx
      · exact hpq
      · exact keyLe_trans hpq (h.1 x hx)

theorem sortFresh_perm (xs : List Pair) : (sortFresh xs).Perm xs := by
  induction xs with
  | nil => exact List.Perm.refl _
  | cons p ps ih => exact (insertSorted_perm p _).trans (List.Perm.cons p ih)

theorem sortFresh_sorted (xs : List Pair) : SortedLex (sortFresh xs) := by
  induction xs with
  | nil => simp [sortFresh, SortedLex]
  | cons p ps ih => exact insertSorted_sorted p _ ih

/-! ### uniqueness of the sorted arrangement (justifies modelling `std::sort` by insertion sort) -/

/-- pairwise distinct (global, attribute) -/
def KeysNodup (xs : List Pair) : Prop := xs.Pairwise fun a b => key a ≠ key b

theorem keyLe_antisymm {a b : Pair} (h1 : keyLe a b) (h2 : keyLe b a) : key a = key b := by
  unfold keyLe at h1 h2
  unfold key
  have hg : a.g = b.g := by omega
  have ha : a.l.attr = b.l.attr := by omega
  rw [hg, ha]

theorem sorted_perm_unique : ∀ (xs ys : List Pair), SortedLex xs → SortedLex ys → xs.Perm ys → KeysNodup xs → xs = ys := by
  intro xs
  induction xs with
  | nil => intro ys _ _ hp _; exact (List.Perm.nil_eq hp)
  | cons x xs ih =>
    intro ys hx hy hp hk
    cases ys with
    | nil => exact absurd hp.length_eq (by simp)
    | cons y ys =>
      unfold SortedLex at hx hy
      rw [List.pairwise_cons] at hx hy
      unfold KeysNodup at hk
      rw [List.pairwise_cons] at hk
      have hxy : x = y := by
        have hxin : x ∈ y :: ys := hp.mem_iff.1 (List.mem_cons_self)
        have hyin : y ∈ x :: xs := hp.mem_iff.2 (List.mem_cons_self)
        rcases List.mem_cons.1 hxin with h | hxin
        · exact h
        · rcases List.mem_cons.1 hyin with h | hyin
          · exact h.symm
          · exact absurd (keyLe_antisymm (hx.1 y hyin) (hy.1 x hxin)) (hk.1 y hyin)
      subst hxy
      have hp' : xs.Perm ys := List.Perm.cons_inv hp
      rw [ih ys hx.2 hy.2 hp' hk.2]

/-! ### the three-way merge -/

theorem mergeLoop_nil (added : List Pair) : mergeLoop [] added = added := rfl

theorem mergeLoop_cons_nil (o : Pair) (os : List Pair) :
    mergeLoop (o :: os) [] = if o.l.valid then o :: mergeLoop os [] else mergeLoop os [] := by
  cases h : o.l.valid <;> simp [mergeLoop, mergeInner, h]

theorem mergeLoop_cons_cons (o : Pair) (os : List Pair) (a : Pair) (as : List Pair) :
    mergeLoop (o :: os) (a :: as) =
      if !o.l.valid then mergeLoop os (a :: as)
      else if before o a then o :: mergeLoop os (a :: as)
      else a :: mergeLoop (o :: os) as := by
  cases h : o.l.valid <;> simp [mergeLoop, mergeInner, h]

/-- induction along the loop iterations of `merge()` -/
theorem mergeLoop_induct (P : List Pair → List Pair → Prop)
    (nil : ∀ added, P [] added)
    (consNil : ∀ o os, P os [] → P (o :: os) [])
    (deleted : ∀ o os a as, o.l.valid = false → P os (a :: as) → P (o :: os) (a :: as))
    (takeOld : ∀ o os a as, o.l.valid = true → before o a = true → P os (a :: as) → P (o :: os) (a :: as))
    (takeNew : ∀ o os a as, o.l.valid = true → before o a = false → P (o :: os) as → P (o :: os) (a :: as)) :
    ∀ old added, P old added := by
  intro old
  induction old with
  | nil => exact nil
  | cons o os ihO =>
    intro added
    induction added with
    | nil => exact consNil o os (ihO [])
    | cons a as ihA =>
      cases hv : o.l.valid with
      | false => exact deleted o os a as hv (ihO _)
      | true =>
        cases hb : before o a with
        | true => exact takeOld o os a as hv hb (ihO _)
        | false => exact takeNew o os a as hv hb ihA

theorem mergeLoop_nil_right (old : List Pair) : mergeLoop old [] = old.filter (·.l.valid) := by
  induction old with
  | nil => rfl
  | cons o os ih =>
    rw [mergeLoop_cons_nil]
    by_cases h : o.l.valid = true
    · simp [h, ih]
    · simp [h, ih]

theorem mergeLoop_perm : ∀ (old added : List Pair),
    (mergeLoop old added).Perm (old.filter (·.l.valid) ++ added) := by
  apply mergeLoop_induct
  · intro added; simp [mergeLoop_nil]
  · intro o os _; rw [mergeLoop_nil_right]; simp
  · intro o os a as hv ih
    rw [mergeLoop_cons_cons]
    simp only [hv, Bool.not_false, if_true]
    simpa [List.filter_cons, hv] using ih
  · intro o os a as hv hb ih
    rw [mergeLoop_cons_cons]
    simp only [hv, Bool.not_true, hb, if_true, Bool.false_eq_true, if_false]
    simpa [List.filter_cons, hv] using List.Perm.cons o ih
  · intro o os a as hv hb ih
    rw [mergeLoop_cons_cons]
    simp only [hv, Bool.not_true, hb, Bool.false_eq_true, if_false]
    exact (List.Perm.cons a ih).trans (List.perm_middle.symm)

theorem mergeLoop_sorted : ∀ (old added : List Pair), SortedLex old → SortedLex added →
    SortedLex (mergeLoop old added) := by
  apply mergeLoop_induct
  · intro added _ h; simpa [mergeLoop_nil] using h
  · intro o os _ h _; rw [mergeLoop_nil_right]; exact List.Pairwise.filter _ h
  · intro o os a as hv ih ho ha
    rw [mergeLoop_cons_cons]
    simp only [hv, Bool.not_false, if_true]
    exact ih (List.Pairwise.of_cons ho) ha
  · intro o os a as hv hb ih ho ha
    rw [mergeLoop_cons_cons]
    simp only [hv, Bool.not_true, hb, if_true, Bool.false_eq_true, if_false]
    unfold SortedLex at *
    rw [List.pairwise_cons]
    refine ⟨?_, ih (List.Pairwise.of_cons ho) ha⟩
    intro x hx
    have hx' := (mergeLoop_perm os (a :: as)).mem_iff.1 hx
    rw [List.pairwise_cons] at ho ha
    rcases List.mem_append.1 hx' with hx' | hx'
    · exact ho.1 x (List.mem_filter.1 hx').1
    · have hoa : keyLe o a := keyLe_of_before hb
      rcases List.mem_cons.1 hx' with rfl | hx'
      · exact hoa
      · exact keyLe_trans hoa (ha.1 x hx')
  · intro o os a as hv hb ih ho ha
    rw [mergeLoop_cons_cons]
    simp only [hv, Bool.not_true, hb, Bool.false_eq_true, if_false]
    unfold SortedLex at *
    rw [List.pairwise_cons]
    refine ⟨?_, ih ho (List.Pairwise.of_cons ha)⟩
    intro x hx
    have hx' := (mergeLoop_perm (o :: os) as).mem_iff.1 hx
    have hao : keyLe a o := keyLe_of_not_before hb
    have ho' := List.pairwise_cons.1 ho
    have ha' := List.pairwise_cons.1 ha
    rcases List.mem_append.1 hx' with hx' | hx'
    · rcases List.mem_cons.1 (List.mem_filter.1 hx').1 with rfl | hx''
      · exact hao
      · exact keyLe_trans hao (ho'.1 x hx'')
    · exact ha'.1 x hx'

theorem mergeLoop_valid (old added : List Pair) (ha : ∀ p ∈ added, p.l.valid = true) :
    ∀ p ∈ mergeLoop old added, p.l.valid = true := by
  intro p hp
  rcases List.mem_append.1 ((mergeLoop_perm old added).mem_iff.1 hp) with h | h
  · simpa using (List.mem_filter.1 h).2
  · exact ha p h

end DV.C03
