import DuneVerif.Proofs.C20Basic
/-! the bound arithmetic operations against the plain vector operations -/
namespace DV.C20

theorem getItem_of_norm (v : List Int) (i : Int) (p : Nat) (h : normIndex v.length i = some p) :
    getItem v i = .ok (v.getD p 0) := by
  simp [getItem, h]

theorem setItem_of_norm (v : List Int) (i x : Int) (p : Nat) (h : normIndex v.length i = some p) :
    setItem v i x = .ok (v.set p x) := by
  simp [setItem, h]

theorem getD_set_same (v : List Int) (p : Nat) (x : Int) (hp : p < v.length) : (v.set p x).getD p 0 = x := by
  simp [List.getD_eq_getElem?_getD, List.getElem?_set_self hp]

theorem pyNeg_eq (v : List Int) : pyNeg v = vneg v := by
  unfold pyNeg vscale vneg
  apply List.map_congr_left
  intro a _
  exact Int.mul_neg_one a

theorem vadd_comm (a b : List Int) : vadd a b = vadd b a := by
  unfold vadd
  rw [List.zipWith_comm]
  congr 1
  funext x y
  exact Int.add_comm y x

theorem vsub_swap (a b : List Int) : vsub a b = vneg (vsub b a) := by
  unfold vsub vneg
  induction a generalizing b with
  | nil => cases b <;> simp
  | cons x xs ih =>
    cases b with
    | nil => simp
    | cons y ys =>
      simp only [List.zipWith_cons_cons, List.map_cons]
      rw [ih ys]
      congr 1
      omega

theorem vsub_zero_left (v : List Int) : vsub (List.replicate v.length 0) v = vneg v := by
  unfold vsub vneg
  induction v with
  | nil => simp
  | cons x xs ih =>
    simp only [List.length_cons, List.replicate_succ, List.zipWith_cons_cons, List.map_cons]
    rw [ih]
    congr 1
    omega

theorem vscale_comm (k : Int) (v : List Int) : vscale k v = v.map (fun e => k * e) := by
  unfold vscale
  apply List.map_congr_left
  intro a _
  exact Int.mul_comm a k

theorem foldl_add_shift (f : Int → Int) (l : List Int) (c : Int) :
    l.foldl (fun s e => s + f e) c = c + l.foldl (fun s e => s + f e) 0 := by
  induction l generalizing c with
  | nil => simp
  | cons x xs ih =>
    simp only [List.foldl_cons]
    rw [ih (c + f x), ih (0 + f x)]
    omega

theorem oneNorm_cons (e : Int) (v : List Int) : oneNorm (e :: v) = iabs e + oneNorm v := by
  unfold oneNorm
  simp only [List.foldl_cons]
  rw [foldl_add_shift]
  omega

theorem twoNorm2_cons (e : Int) (v : List Int) : twoNorm2 (e :: v) = e * e + twoNorm2 v := by
  unfold twoNorm2
  simp only [List.foldl_cons]
  rw [foldl_add_shift (fun e => e * e)]
  omega

theorem foldl_plus_shift (l : List Int) (c : Int) :
    l.foldl (· + ·) c = c + l.foldl (· + ·) 0 := by
  induction l generalizing c with
  | nil => simp
  | cons x xs ih =>
    simp only [List.foldl_cons]
    rw [ih (c + x), ih (0 + x)]
    omega

theorem vdot_cons (a b : Int) (x y : List Int) : vdot (a :: x) (b :: y) = a * b + vdot x y := by
  unfold vdot
  simp only [List.zipWith_cons_cons, List.foldl_cons]
  rw [foldl_plus_shift]
  omega

theorem twoNorm2_eq_dot (v : List Int) : twoNorm2 v = vdot v v := by
  induction v with
  | nil => rfl
  | cons x xs ih => rw [twoNorm2_cons, vdot_cons, ih]

theorem iabs_nonneg (e : Int) : 0 ≤ iabs e := by unfold iabs; omega

theorem infNorm_foldl_ge (l : List Int) (c : Int) :
    c ≤ l.foldl (fun m e => max m (iabs e)) c ∧ ∀ e ∈ l, iabs e ≤ l.foldl (fun m e => max m (iabs e)) c := by
  induction l generalizing c with
  | nil => simp
  | cons x xs ih =>
    simp only [List.foldl_cons]
    have h := ih (max c (iabs x))
    constructor
    · exact Int.le_trans (Int.le_max_left _ _) h.1
    · intro e he
      cases he with
      | head => exact Int.le_trans (Int.le_max_right _ _) h.1
      | tail _ hm => exact h.2 e hm

theorem infNorm_foldl_attained (l : List Int) (c : Int) :
    l.foldl (fun m e => max m (iabs e)) c = c ∨ ∃ e ∈ l, l.foldl (fun m e => max m (iabs e)) c = iabs e := by
  induction l generalizing c with
  | nil => simp
  | cons x xs ih =>
    simp only [List.foldl_cons]
    cases ih (max c (iabs x)) with
    | inl h =>
      rw [h, Int.max_def]
      by_cases hc : c ≤ iabs x
      · right; exact ⟨x, List.mem_cons_self, by simp [hc]⟩
      · left; simp [hc]
    | inr h =>
      obtain ⟨e, he, h⟩ := h
      right
      exact ⟨e, List.mem_cons_of_mem _ he, h⟩

end DV.C20
