import DuneVerif.Proofs.C20Basic
/-! the bound arithmetic operations against the plain vector operations -/
namespace DV.C20

theorem getItem_of_norm (v : List Int) (i : Int) (p : Nat) (h : normIndex v.length i = some p) :
    getItem v i = .ok (v.getD p 0) := by
  simp [getItem, h]

theorem setItem_of_norm (v : List Int) (i x : Int) (p : Nat) (h : normIndex v.length i = some p) :
    setItem v i x = .ok (v.set p x) := by
  simp [setItem, h]

theorem getD_set_same (v : List Int) (p : Nat) (x : Int) (hp : p < v.length) : (v.set p x).getD p 0 = x := by
  simp [List.getD_eq_getElem?_getD, List.getElem?_set_self hp]

theorem pyNeg_eq (v : List Int) : pyNeg v = vneg v := by
  unfold pyNeg vscale vneg
  apply List.map_congr_left
  intro a _
  exact Int.mul_neg_one a

theorem vadd_comm (a b : List Int) : vadd a b = vadd b a := by
  unfold vadd
  rw [List.zipWith_comm]
  congr 1
  funext x y
  exact Int.add_comm y x

theorem vsub_swap (a b : List Int) : vsub a b = vneg (vsub b a) := by
  unfold vsub vneg
  induction a generalizing b with
  | nil => cases b <;> simp
  | cons x xs ih =>
    cases b with
    | nil => simp
    | cons y ys =>
      simp only [List.zipWith_cons_cons, List.map_cons]
      rw [ih ys]
      congr 1
      omega

theorem vsub_zero_left (v : List Int) : vsub (List.replicate v.length 0) v = vneg v := by
  unfold vsub vneg
  induction v with
  | nil => simp
  | cons x xs ih =>
    simp only [List.length_cons, List.replicate_succ, List.zipWith_cons_cons, List.map_cons]
    rw [ih]
    congr 1
    omega

theorem vscale_comm (k : Int) (v : List Int) : vscale k v = v.map (fun e => k * e) := by
  unfold vscale
  apply List.map_congr_left
  intro a _
  exact Int.mul_comm a k

theorem foldl_add_shift (f : Int → Int) (l : List Int) (c : Int) :
    l.foldl (fun s e => s + f e) c = c + l.foldl (fun s e => s + f e) 0 := by
  induction l generalizing c with
  | nil => simp
  | cons x xs ih =>
    simp only [List.foldl_cons]
    rw [ih (c + f x), ih (0 + f x)]
    omega

theorem oneNorm_cons (e : Int) (v : List Int) : oneNorm (e :: v) = iabs e + oneNorm v := by
  unfold oneNorm
  simp only [List.foldl_cons]
  rw [foldl_add_shift]
  omega

theorem twoNorm2_cons (e : Int) (v : List Int) : twoNorm2 (e :: v) = e * e + twoNorm2 v := by
  unfold twoNorm2
  simp only [List.foldl_cons]
  rw [foldl_add_shift (fun e => e * e)]
  omega

theorem foldl_plus_shift (l : List Int) (c : Int) :
    l.foldl (· + ·) c = c + l.foldl (· + ·) 0 := by
  induction l generalizing c with
  | nil => simp
  | cons x xs ih =>
    simp only [List.foldl_cons]
    rw [ih (c + x), ih (0 + x)]
    omega

theorem vdot_cons (a b : Int) (x y : List Int) : vdot (a :: x) (b :: y) = a * b + vdot x y := by
  unfold vdot
  simp only [List.zipWith_cons_cons, List.foldl_cons]
  rw [foldl_plus_shift]
  omega

theorem twoNorm2_eq_dot (v : List Int) : twoNorm2 v = vdot v v := by
  induction v with
  | nil => rfl
  | cons x xs ih => rw [twoNorm2_cons, vdot_cons, ih]

theorem iabs_nonneg (e : Int) : 0 ≤ iabs e := by unfold iabs; omega

theorem infNorm_foldl_ge (l : List Int) (c : Int) :
    c ≤ l.foldl (fun m e => max m (iabs e)) c ∧ ∀ e ∈ l, iabs e ≤ l.foldl (fun m e => max m (iabs e)) c := by
  induction l generalizing c with
  | nil => simp
  | cons x xs ih =>
    simp only [List.foldl_cons]
    have h := ih (max c (iabs x))
    constructor
    · exact Int.le_trans (Int.le_max_left _ _) h.1
    · intro e he
      cases he with
      | head => exact Int.le_trans (Int.le_max_right _ _) h.1
      | tail _ hm => exact h.2 e hm

theorem infNorm_foldl_attained (l : List Int) (c : Int) :
    l.foldl (fun m e => max m (iabs e)) c = c ∨ ∃ e ∈ l, l.foldl (fun m e => max m (iabs e)) c = iabs e := by
  induction l generalizing c with
  | nil => simp
  | cons x xs ih =>
    simp only [List.foldl_cons]
    cases ih (max c (iabs x)) with
    | inl h =>
      rw [h, Int.max_def]
      by_cases hc : c ≤ iabs x
      · right; exact ⟨x, List.mem_cons_self, by simp [hc]⟩
      · left; simp [hc]
    | inr h =>
      obtain ⟨e, he, h⟩ := h
      right
      exact ⟨e, List.mem_cons_of_mem _ he, h⟩

/-! ### iteration protocol, string conversion -/

theorem getItem_nat_lt (v : List Int) (i : Nat) (h : i < v.length) : getItem v (i : Int) = .ok v[i] := by
  have hn : normIndex v.length (i : Int) = some i := by
    rw [normIndex_nonneg v.length i (by omega) (by omega)]; simp
  rw [getItem_of_norm v _ _ hn]
  simp [List.getD_eq_getElem?_getD, List.getElem?_eq_getElem h]

theorem getItem_nat_ge (v : List Int) (i : Nat) (h : v.length ≤ i) : getItem v (i : Int) = .error .index := by
  have hn : normIndex v.length (i : Int) = none := normIndex_out _ _ (Or.inr (by omega))
  simp [getItem, hn]

theorem iterFrom_spec (v : List Int) : ∀ (fuel i : Nat), i ≤ v.length → v.length - i < fuel →
    iterFrom v i fuel = v.drop i := by
  intro fuel
  induction fuel with
  | zero => intro i _ h; omega
  | succ fuel ih =>
    intro i hi hf
    by_cases hlt : i < v.length
    · simp only [iterFrom, getItem_nat_lt v i hlt]
      rw [ih (i + 1) (by omega) (by omega)]
      exact (List.drop_eq_getElem_cons hlt).symm
    · have : i = v.length := by omega
      subst this
      simp [iterFrom, getItem_nat_ge v v.length (Nat.le_refl _)]

theorem pyIter_eq (v : List Int) : pyIter v = v := by
  unfold pyIter
  rw [iterFrom_spec v (v.length + 1) 0 (by omega) (by omega)]
  simp

theorem foldl_join_append (d p q : String) (l : List String) :
    l.foldl (fun s y => s ++ d ++ y) (p ++ q) = p ++ l.foldl (fun s y => s ++ d ++ y) q := by
  induction l generalizing q with
  | nil => simp
  | cons a as ih =>
    simp only [List.foldl_cons]
    rw [show p ++ q ++ d ++ a = p ++ (q ++ d ++ a) by simp [String.append_assoc]]
    exact ih _

theorem joinLoop_eq (d : String) : ∀ (l : List String), joinLoop d l = d.intercalate l
  | [] => by simp [joinLoop]
  | [a] => by simp [joinLoop]
  | a :: b :: l => by
    have ih := joinLoop_eq d (b :: l)
    rw [String.intercalate_cons_cons, ← ih]
    simp only [joinLoop, List.foldl_cons]
    rw [foldl_join_append]

end DV.C20
