import DuneVerif.Proofs.C20Basic
/-! what single bound operations do to the store (unfolding `step` once per operation) -/
namespace DV.C20

theorem step_get (kd : Kind) (hk : kd.isVec = true) (s : State) (x b : Nat) (i : Int)
    (hx : s.xs x = some b) (hi : okIdx i = true) :
    step kd s (.get x i) =
      (s, match getItem (s.read b) i with | .error e => e.show | .ok v => toString v) := by
  simp only [step, hk, hx, hi]
  cases getItem (s.read b) i <;> simp

theorem step_set (kd : Kind) (hk : kd.isVec = true) (s : State) (x b : Nat) (i k : Int)
    (hx : s.xs x = some b) (hi : okIdx i = true) (hkk : okInt k = true) :
    step kd s (.set x i k) =
      (match setItem (s.read b) i k with
       | .error e => (s, e.show)
       | .ok v => (s.write b v, showInts v)) := by
  simp only [step, hk, hx, hi, hkk]
  cases setItem (s.read b) i k <;> simp

theorem step_view (n : Nat) (s : State) (a x b : Nat) (hx : s.xs x = some b) :
    step (.fv n) s (.view a x) = (s.bindA a (fullView b (s.read b).length), showInts (s.read b)) := by
  simp [step, Kind.isVec, Kind.isFv, hx]

theorem step_aget (kd : Kind) (hk : kd.isVec = true) (s : State) (a : Nat) (v : View) (i : Int)
    (ha : s.arrs a = some v) (hi : okIdx i = true) :
    step kd s (.aget a i) =
      (s, match normIndex v.len i with
          | none => Err.index.show
          | some p => toString ((s.read v.blk).getD (v.pos p) 0)) := by
  simp only [step, hk, ha, hi]
  cases normIndex v.len i <;> simp

theorem step_aset (kd : Kind) (hk : kd.isVec = true) (s : State) (a : Nat) (v : View) (i k : Int)
    (ha : s.arrs a = some v) (hi : okIdx i = true) (hkk : okInt k = true) :
    step kd s (.aset a i k) =
      (match normIndex v.len i with
       | none => (s, Err.index.show)
       | some p =>
         let s1 := s.write v.blk ((s.read v.blk).set (v.pos p) k)
         (s1, showInts (s1.viewVals v))) := by
  simp only [step, hk, ha, hi, hkk]
  cases normIndex v.len i <;> simp

theorem step_copy (n : Nat) (s : State) (x y b : Nat) (hy : s.xs y = some b) :
    step (.fv n) s (.copy x y) = ((s.alloc (s.read b)).1.bindX x (s.alloc (s.read b)).2, showInts (s.read b)) := by
  simp [step, Kind.isVec, Kind.isFv, hy]

theorem step_mcopy (n : Nat) (s : State) (x y b : Nat) (hy : s.xs y = some b) :
    step (.fv n) s (.mcopy x y) = ((s.alloc (s.read b)).1.bindX x (s.alloc (s.read b)).2, showInts (s.read b)) := by
  simp [step, Kind.isVec, Kind.isFv, hy]

theorem step_npcopy (kd : Kind) (hk : kd.isVec = true) (s : State) (a x b : Nat) (hx : s.xs x = some b) :
    step kd s (.npcopy a x) =
      ((s.alloc (s.read b)).1.bindA a (fullView (s.alloc (s.read b)).2 (s.read b).length), showInts (s.read b)) := by
  simp [step, hk, hx]

theorem step_alias (kd : Kind) (hk : kd.isVec = true) (s : State) (x y b : Nat) (hy : s.xs y = some b) :
    step kd s (.alias x y) = (s.bindX x b, showInts (s.read b)) := by
  simp [step, hk, hy]

theorem step_inplaceV (kd : Kind) (hk : kd.isVec = true) (s : State) (isSub : Bool) (x y bx by_ : Nat)
    (hx : s.xs x = some bx) (hy : s.xs y = some by_) (hl : (s.read bx).length = (s.read by_).length)
    (hok : okVals (if isSub then vsub (s.read bx) (s.read by_) else vadd (s.read bx) (s.read by_)) = true) :
    step kd s (.inplaceV isSub x y) =
      (s.write bx (if isSub then vsub (s.read bx) (s.read by_) else vadd (s.read bx) (s.read by_)),
       showInts (if isSub then vsub (s.read bx) (s.read by_) else vadd (s.read bx) (s.read by_))) := by
  simp [step, hk, hx, hy, hl, hok]

/-! register files -/

theorem bindA_xs (s : State) (a : Nat) (v : View) : (s.bindA a v).xs = s.xs := rfl
theorem bindA_read (s : State) (a : Nat) (v : View) (b : Nat) : (s.bindA a v).read b = s.read b := rfl
theorem bindA_arrs_same (s : State) (a : Nat) (v : View) : (s.bindA a v).arrs a = some v := by
  simp [State.bindA, upd]
theorem bindA_blocks (s : State) (a : Nat) (v : View) : (s.bindA a v).blocks = s.blocks := rfl
theorem bindX_read (s : State) (x b c : Nat) : (s.bindX x b).read c = s.read c := rfl
theorem bindX_blocks (s : State) (x b : Nat) : (s.bindX x b).blocks = s.blocks := rfl
theorem bindX_same (s : State) (x b : Nat) : (s.bindX x b).xs x = some b := by
  simp [State.bindX, upd]
theorem bindX_other (s : State) (x y b : Nat) (h : y ≠ x) : (s.bindX x b).xs y = s.xs y := by
  simp [State.bindX, upd, h]
theorem write_xs (s : State) (b : Nat) (v : List Int) : (s.write b v).xs = s.xs := rfl
theorem write_arrs (s : State) (b : Nat) (v : List Int) : (s.write b v).arrs = s.arrs := rfl
theorem alloc_xs (s : State) (v : List Int) : (s.alloc v).1.xs = s.xs := rfl
theorem alloc_arrs (s : State) (v : List Int) : (s.alloc v).1.arrs = s.arrs := rfl

end DV.C20
