import DuneVerif.Proofs.C20Basic
/-! what single bound operations do to the store: register files, effects, `step` unfolded once per operation -/
namespace DV.C20

/-! register files -/

theorem bindA_xs (s : State) (a : Nat) (v : View) : (s.bindA a v).xs = s.xs := rfl
theorem bindA_read (s : State) (a : Nat) (v : View) (b : Nat) : (s.bindA a v).read b = s.read b := rfl
theorem bindA_arrs_same (s : State) (a : Nat) (v : View) : (s.bindA a v).arrs a = some v := by
  simp [State.bindA, upd]
theorem bindA_arrs_other (s : State) (a c : Nat) (v : View) (h : c ≠ a) : (s.bindA a v).arrs c = s.arrs c := by
  simp [State.bindA, upd, h]
theorem bindA_blocks (s : State) (a : Nat) (v : View) : (s.bindA a v).blocks = s.blocks := rfl
theorem bindX_read (s : State) (x b c : Nat) : (s.bindX x b).read c = s.read c := rfl
theorem bindX_blocks (s : State) (x b : Nat) : (s.bindX x b).blocks = s.blocks := rfl
theorem bindX_arrs (s : State) (x b : Nat) : (s.bindX x b).arrs = s.arrs := rfl
theorem bindX_same (s : State) (x b : Nat) : (s.bindX x b).xs x = some b := by
  simp [State.bindX, upd]
theorem bindX_other (s : State) (x y b : Nat) (h : y ≠ x) : (s.bindX x b).xs y = s.xs y := by
  simp [State.bindX, upd, h]
theorem write_xs (s : State) (b : Nat) (v : List Int) : (s.write b v).xs = s.xs := rfl
theorem write_arrs (s : State) (b : Nat) (v : List Int) : (s.write b v).arrs = s.arrs := rfl
theorem alloc_xs (s : State) (v : List Int) : (s.alloc v).1.xs = s.xs := rfl
theorem alloc_arrs (s : State) (v : List Int) : (s.alloc v).1.arrs = s.arrs := rfl

theorem viewVals_congr (s s' : State) (v : View) (h : s'.read v.blk = s.read v.blk) : s'.viewVals v = s.viewVals v := by
  unfold State.viewVals; rw [h]

/-! `step` on a vector operation is the effect of the operation applied to the store -/

theorem step_v (kd : Kind) (hk : kd.isVec = true) (s : State) (o : VOp) :
    step kd s (.v o) = (vecEff kd s o).apply s := by
  simp [step, hk]

theorem vecEff_get (kd : Kind) (s : State) (x b : Nat) (i : Int) (hx : s.xs x = some b) :
    vecEff kd s (.get false x i) =
      (match getItem (s.read b) i with | .error e => Eff.obs e.show | .ok v => Eff.obs (toString v)) := by
  simp only [vecEff, hx, Bool.false_and, Bool.false_eq_true, if_false]
  cases getItem (s.read b) i <;> rfl

theorem vecEff_set (kd : Kind) (s : State) (x b : Nat) (i k : Int) (hx : s.xs x = some b) (hkk : okInt k = true) :
    vecEff kd s (.set false x i k) =
      (match setItem (s.read b) i k with | .error e => Eff.obs e.show | .ok v => Eff.writeB b v) := by
  simp only [vecEff, hx, hkk, Bool.not_true, Bool.false_and, Bool.false_eq_true, if_false]
  cases setItem (s.read b) i k <;> rfl

theorem step_get (kd : Kind) (hk : kd.isVec = true) (s : State) (x b : Nat) (i : Int) (hx : s.xs x = some b) :
    step kd s (.v (.get false x i)) =
      (s, match getItem (s.read b) i with | .error e => e.show | .ok v => toString v) := by
  rw [step_v kd hk, vecEff_get kd s x b i hx]
  cases getItem (s.read b) i <;> rfl

theorem step_set (kd : Kind) (hk : kd.isVec = true) (s : State) (x b : Nat) (i k : Int)
    (hx : s.xs x = some b) (hkk : okInt k = true) :
    step kd s (.v (.set false x i k)) =
      (match setItem (s.read b) i k with
       | .error e => (s, e.show)
       | .ok v => (s.write b v, showInts v)) := by
  rw [step_v kd hk, vecEff_set kd s x b i k hx hkk]
  cases setItem (s.read b) i k <;> rfl

theorem step_view (n : Nat) (s : State) (a x b : Nat) (hx : s.xs x = some b) :
    step (.fv n) s (.v (.view a x)) =
      (s.bindA a (fullView b (s.read b).length), showInts (s.viewVals (fullView b (s.read b).length))) := by
  simp [step, Kind.isVec, vecEff, Kind.isFv, hx, Eff.apply]

theorem step_sl (n : Nat) (s : State) (a x b : Nat) (i j : Option Int) (st : Int) (hx : s.xs x = some b) (hst : st ≠ 0) :
    step (.fv n) s (.v (.sl a x i j (some st))) =
      (s.bindA a { blk := b, off := (sliceIdx (s.read b).length i j st).1, step := st,
                   len := (sliceIdx (s.read b).length i j st).2 },
       showInts (s.viewVals { blk := b, off := (sliceIdx (s.read b).length i j st).1, step := st,
                              len := (sliceIdx (s.read b).length i j st).2 })) := by
  simp [step, Kind.isVec, vecEff, Kind.isFv, hx, Eff.apply, hst]

theorem step_aget (kd : Kind) (hk : kd.isVec = true) (s : State) (a : Nat) (v : View) (i : Int)
    (ha : s.arrs a = some v) (hi : okIdx i = true) :
    step kd s (.v (.aget a i)) =
      (s, match normIndex v.len i with
          | none => Err.index.show
          | some p => toString ((s.read v.blk).getD (v.pos p) 0)) := by
  rw [step_v kd hk]
  simp only [vecEff, ha, hi]
  cases normIndex v.len i <;> simp [Eff.apply]

theorem step_aset (kd : Kind) (hk : kd.isVec = true) (s : State) (a : Nat) (v : View) (i k : Int)
    (ha : s.arrs a = some v) (hdt : v.dt = 0) (hi : okIdx i = true) (hkk : okInt k = true) :
    step kd s (.v (.aset a i k)) =
      (match normIndex v.len i with
       | none => (s, Err.index.show)
       | some p =>
         (s.write v.blk ((s.read v.blk).set (v.pos p) k),
          showInts ((s.write v.blk ((s.read v.blk).set (v.pos p) k)).viewVals v))) := by
  rw [step_v kd hk]
  simp only [vecEff, ha, hi, hkk, hdt, dtOk]
  cases normIndex v.len i <;> simp [Eff.apply]

theorem step_copy (n : Nat) (s : State) (x y b : Nat) (hy : s.xs y = some b) :
    step (.fv n) s (.v (.copy x y)) = ((s.alloc (s.read b)).1.bindX x (s.alloc (s.read b)).2, showInts (s.read b)) := by
  simp [step, Kind.isVec, vecEff, Kind.isFv, hy, Eff.apply]

theorem step_mcopy (n : Nat) (s : State) (x y b : Nat) (hy : s.xs y = some b) :
    step (.fv n) s (.v (.mcopy x y)) = ((s.alloc (s.read b)).1.bindX x (s.alloc (s.read b)).2, showInts (s.read b)) := by
  simp [step, Kind.isVec, vecEff, Kind.isFv, hy, Eff.apply]

theorem step_npcopy (kd : Kind) (hk : kd.isVec = true) (s : State) (a x b : Nat) (hx : s.xs x = some b) :
    step kd s (.v (.npcopy a x)) =
      ((s.alloc (s.read b)).1.bindA a (fullView (s.alloc (s.read b)).2 (s.read b).length), showInts (s.read b)) := by
  simp [step, hk, vecEff, hx, Eff.apply]

theorem step_alist (kd : Kind) (hk : kd.isVec = true) (s : State) (a : Nat) (v : View) (ha : s.arrs a = some v) :
    step kd s (.v (.alist a)) = (s, showInts (s.viewVals v)) := by
  simp [step, hk, vecEff, ha, Eff.apply]

theorem step_alias (kd : Kind) (hk : kd.isVec = true) (s : State) (x y b : Nat) (hy : s.xs y = some b) :
    step kd s (.v (.alias x y)) = (s.bindX x b, showInts (s.read b)) := by
  simp [step, hk, vecEff, hy, Eff.apply]

theorem step_inplaceV (kd : Kind) (hk : kd.isVec = true) (s : State) (isSub : Bool) (x y bx by_ : Nat)
    (hx : s.xs x = some bx) (hy : s.xs y = some by_) (hl : (s.read bx).length = (s.read by_).length)
    (hok : okVals (if isSub then vsub (s.read bx) (s.read by_) else vadd (s.read bx) (s.read by_)) = true) :
    step kd s (.v (.inplaceV isSub x y)) =
      (s.write bx (if isSub then vsub (s.read bx) (s.read by_) else vadd (s.read bx) (s.read by_)),
       showInts (if isSub then vsub (s.read bx) (s.read by_) else vadd (s.read bx) (s.read by_))) := by
  simp [step, hk, vecEff, hx, hy, hl, effWrite, hok, Eff.apply]

/-- `nscale`: `x *= k` on a NumPy-backed C++ vector writes the scaled values through the view -/
theorem step_nscale (kd : Kind) (hk : kd.isVec = true) (s : State) (a : Nat) (v : View) (k : Int)
    (ha : s.arrs a = some v) (hdt : v.dt = 0) (hkk : okInt k = true) (hok : okVals (vscale k (s.viewVals v)) = true) :
    step kd s (.v (.nscale a k)) =
      (s.viewWrite v (vscale k (s.viewVals v)), showInts ((s.viewWrite v (vscale k (s.viewVals v))).viewVals v)) := by
  simp [step, hk, vecEff, ha, hkk, hok, Eff.apply, nvWrite, hdt]

/-- `nset`: `x[i] = k` on a NumPy-backed C++ vector -/
theorem step_nset (kd : Kind) (hk : kd.isVec = true) (s : State) (a : Nat) (v : View) (p : Nat) (k : Int)
    (ha : s.arrs a = some v) (hdt : v.dt = 0) (hkk : okInt k = true) (hp : p < v.len) :
    step kd s (.v (.nset a (p : Int) k)) =
      (s.write v.blk ((s.read v.blk).set (v.pos p) k),
       showInts ((s.write v.blk ((s.read v.blk).set (v.pos p) k)).viewVals v)) := by
  have h1 : ¬ ((p : Int) < 0) := by omega
  have h2 : ¬ ((p : Int) ≥ (v.len : Int)) := by omega
  simp [step, hk, vecEff, ha, hkk, h1, h2, Eff.apply, nvWriteCell, hdt]

/-- a writing operation of a NumPyVector over a buffer that does not hold doubles never changes the store -/
theorem nvWrite_foreign (s : State) (v : View) (R : List Int) (hdt : v.dt ≠ 0) :
    ((nvWrite s v R).apply s).1 = s := by
  unfold nvWrite
  split
  · rfl
  · simp [hdt, Eff.apply]

theorem nvWriteCell_foreign (s : State) (v : View) (p : Nat) (k : Int) (hdt : v.dt ≠ 0) :
    ((nvWriteCell s v p k).apply s).1 = s := by
  unfold nvWriteCell
  split
  · rfl
  · simp [hdt, Eff.apply]

end DV.C20
