/-
C16 — helper lemmas: the machine difference of IntegralRangeIterator, the pointer chasing list iterators, the
integer_sequence helpers.  Core Lean only.
-/
import DuneVerif.Proofs.C16Ranges

namespace DV.C16

/-! ### difference of two IntegralRangeIterators in the arithmetic of a `bits` wide type -/

theorem two_pow_split (bits : Nat) (hb : 0 < bits) : (2 : Int) ^ bits = 2 * 2 ^ (bits - 1) := by
  have : bits = (bits - 1) + 1 := by omega
  rw [this, Int.pow_succ]
  simp only [Nat.add_sub_cancel]
  omega

theorem toSigned_mod_exact (bits : Nat) (hb : 0 < bits) (d : Int)
    (h1 : -(2 ^ (bits - 1)) ≤ d) (h2 : d < 2 ^ (bits - 1)) : toSigned bits (d % 2 ^ bits) = d := by
  have hM := two_pow_split bits hb
  have hH : (0 : Int) < 2 ^ (bits - 1) := Int.pow_pos (by omega)
  unfold toSigned
  generalize (2 : Int) ^ (bits - 1) = H at *
  generalize (2 : Int) ^ bits = M at *
  by_cases hd : 0 ≤ d
  · have e : d % M = d := Int.emod_eq_of_lt hd (by omega)
    rw [e, if_pos h2]
  · have e : d % M = d + M := by
      rw [← Int.add_emod_right d M]
      exact Int.emod_eq_of_lt (by omega) (by omega)
    rw [e, if_neg (by omega)]
    omega

/-! ### SLList iterators: a pointer chasing iterator is a position -/
namespace SL

theorem next_getElem : ∀ (nodes : List Nat), nodes.Nodup → ∀ (p : Nat) (hp : p < nodes.length),
    next nodes (some nodes[p]) = nodes[p + 1]? := by
  intro nodes
  induction nodes with
  | nil => intro _ p hp; simp at hp
  | cons x xs ih =>
    intro hnd p hp
    have hx : x ∉ xs := (List.nodup_cons.mp hnd).1
    have hxs : xs.Nodup := (List.nodup_cons.mp hnd).2
    cases p with
    | zero =>
      simp only [List.getElem_cons_zero, next, if_true]
      cases xs <;> simp
    | succ q =>
      have hq : q < xs.length := by simpa using hp
      have hne : x ≠ xs[q] := fun h => hx (h ▸ List.getElem_mem hq)
      simp only [List.getElem_cons_succ, next, if_neg hne]
      rw [ih hxs q hq]
      simp

theorem next_none (nodes : List Nat) : next nodes none = none := by
  cases nodes <;> rfl

/-- the iterator reached from `begin()` by `p ≤ size` increments points to the `p`-th node (`none` = `end()` for `p = size`) -/
theorem at_eq (nodes : List Nat) (hnd : nodes.Nodup) : ∀ p, p ≤ nodes.length → at_ nodes p = nodes[p]? := by
  intro p
  induction p with
  | zero => intro _; simp [at_, stepsNat, begin_, List.head?_eq_getElem?]
  | succ q ih =>
    intro hq
    have hq' : q < nodes.length := by omega
    unfold at_ at ih ⊢
    rw [stepsNat_succ', ih (by omega), List.getElem?_eq_getElem hq', next_getElem nodes hnd q hq']

theorem at_end (nodes : List Nat) (hnd : nodes.Nodup) : at_ nodes nodes.length = end_ := by
  rw [at_eq nodes hnd _ (Nat.le_refl _)]; simp [end_]

/-- two iterators of one list are equal (as pointers) exactly when they stand at the same position -/
theorem equals_iff_pos (nodes : List Nat) (hnd : nodes.Nodup) (p q : Nat) (hp : p ≤ nodes.length) (hq : q ≤ nodes.length) :
    equals (at_ nodes p) (at_ nodes q) = decide (p = q) := by
  rw [at_eq nodes hnd p hp, at_eq nodes hnd q hq]
  unfold equals
  by_cases hpq : p = q
  · subst hpq; simp
  · have : ¬ (nodes[p]? = nodes[q]?) := by
      intro h
      by_cases hpl : p < nodes.length
      · by_cases hql : q < nodes.length
        · rw [List.getElem?_eq_getElem hpl, List.getElem?_eq_getElem hql] at h
          exact hpq ((List.getElem_inj hnd).mp (Option.some.inj h))
        · rw [List.getElem?_eq_getElem hpl, List.getElem?_eq_none (by omega)] at h
          cases h
      · by_cases hql : q < nodes.length
        · rw [List.getElem?_eq_none (by omega), List.getElem?_eq_getElem hql] at h
          cases h
        · omega
    simp [hpq, this]

/-- SLListModifyIterator: `iterator_` walks like a plain iterator, `beforeIterator_` stays one node behind -/
theorem mAt (beforeHead : Nat) (nodes : List Nat) (p : Nat) :
    stepsNat (mNext beforeHead nodes) p (mBegin beforeHead nodes) =
      (at_ (beforeHead :: nodes) p, at_ nodes p) := by
  induction p with
  | zero => simp [stepsNat, mBegin, at_, begin_]
  | succ q ih =>
    rw [stepsNat_succ', ih]
    simp only [mNext, at_]
    rw [stepsNat_succ', stepsNat_succ']

end SL

/-! ### integer_sequence helpers -/
namespace Seq

theorem contains_iff (s : List Int) (v : Int) : contains s v = true ↔ v ∈ s := by
  unfold contains
  rw [List.any_eq_true]
  constructor
  · rintro ⟨x, hx, he⟩
    have : x = v := by simpa using he
    exact this ▸ hx
  · intro h; exact ⟨v, h, by simp⟩

theorem difference_eq_filter (is js : List Int) : difference is js = is.filter (fun x => !contains js x) := by
  induction is with
  | nil => rfl
  | cons i0 is ih =>
    unfold difference
    by_cases hj : js.length = 0
    · have : js = [] := List.eq_nil_of_length_eq_zero hj
      subst this
      have : ∀ l : List Int, l = l.filter (fun _ => true) := by
        intro l; induction l with
        | nil => rfl
        | cons a as ih => simp; exact ih
      simpa [contains] using this (i0 :: is)
    · rw [if_neg hj]
      by_cases hc : contains js i0 = true
      · simp [hc, ih]
      · have hc' : contains js i0 = false := by simpa using hc
        simp [hc', ih]

theorem equal_iff (a b : List Int) : equal a b = true ↔ a = b := by
  induction a generalizing b with
  | nil => cases b <;> simp [equal]
  | cons x xs ih =>
    cases b with
    | nil => simp [equal]
    | cons y ys => simp [equal, ih]

theorem insertSorted_perm (x : Int) (l : List Int) : (insertSorted x l).Perm (x :: l) := by
  induction l with
  | nil => exact List.Perm.refl _
  | cons y ys ih =>
    unfold insertSorted
    by_cases h : x ≤ y
    · rw [if_pos h]
    · rw [if_neg h]
      exact (List.Perm.cons y ih).trans (List.Perm.swap x y ys)

theorem sorted_perm (l : List Int) : (sorted l).Perm l := by
  induction l with
  | nil => exact List.Perm.refl _
  | cons x xs ih => exact (insertSorted_perm x (sorted xs)).trans (List.Perm.cons x ih)

theorem insertSorted_pairwise (x : Int) (l : List Int) (h : l.Pairwise (· ≤ ·)) :
    (insertSorted x l).Pairwise (· ≤ ·) := by
  induction l with
  | nil => simp [insertSorted]
  | cons y ys ih =>
    unfold insertSorted
    have hy := (List.pairwise_cons.mp h).1
    have hys := (List.pairwise_cons.mp h).2
    by_cases hxy : x ≤ y
    · rw [if_pos hxy]
      refine List.pairwise_cons.mpr ⟨?_, h⟩
      intro z hz
      rcases List.mem_cons.mp hz with rfl | hz'
      · exact hxy
      · exact Int.le_trans hxy (hy z hz')
    · rw [if_neg hxy]
      refine List.pairwise_cons.mpr ⟨?_, ih hys⟩
      intro z hz
      have : z ∈ x :: ys := (insertSorted_perm x ys).subset hz
      rcases List.mem_cons.mp this with rfl | hz'
      · omega
      · exact hy z hz'

theorem sorted_pairwise (l : List Int) : (sorted l).Pairwise (· ≤ ·) := by
  induction l with
  | nil => simp [sorted]
  | cons x xs ih => exact insertSorted_pairwise x _ ih

end Seq

end DV.C16
