import DuneVerif.Proofs.C02Float
import Mathlib.GroupTheory.Perm.Basic
/-!
# C02 — the elimination phase of `luDecomposition` under rounded arithmetic

Part 1: the structure of a run of `luDecomp` for an arbitrary scalar type (the lemmas of C02Run.lean are stated for
fields; here nothing but the core operations is assumed, so they apply to `FlR R`).
Part 2: the entry-wise invariant of Higham's Theorem 9.3 for the in-place elimination with row exchanges.
-/
namespace DV.C02.Flt
open DV.C02
set_option linter.unusedSectionVars false

section Generic
variable {n : Nat} {K Q S : Type} [Add K] [Sub K] [Mul K] [Div K] [Neg K] [OfNat K 0] [OfNat K 1]
variable [LinearOrder Q] [Zero Q]

theorem swapRows_fG (A : Mat n K) (i p r c : Fin n) :
    (swapRows A i p).f r c = A.f (Equiv.swap i p r) c := by
  simp only [swapRows, Mat.ofFn_f, Equiv.swap_apply_def]
  split_ifs <;> rfl

theorem swapRows_selfG (A : Mat n K) (i : Fin n) : swapRows A i i = A := by
  apply Mat.ext; intro r c; rw [swapRows_fG]; simp

def pivRowG (piv : Bool) (absval : K → Q) (A : Mat n K) (i : Fin n) : Fin n :=
  if piv then (pivotSearch absval A i).2 else i

def pivValG (piv : Bool) (absval : K → Q) (A : Mat n K) (i : Fin n) : Q :=
  if piv then (pivotSearch absval A i).1 else absval (A.f i i)

def swapSG (piv : Bool) (F : Func n K S) (s : S) (i p : Fin n) : S := if piv then F.swap s i p else s

theorem pivotPhase_eqG (piv : Bool) (absval : K → Q) (F : Func n K S) (A : Mat n K) (s : S) (i : Fin n) :
    pivotPhase piv absval F A s i =
      (pivValG piv absval A i, swapRows A i (pivRowG piv absval A i), swapSG piv F s i (pivRowG piv absval A i)) := by
  cases piv <;> simp [pivotPhase, pivValG, pivRowG, swapSG, swapRows_selfG]

theorem luStep_eqG (piv : Bool) (absval : K → Q) (F : Func n K S) (i : Fin n) (st : LUState n K S)
    (hok : st.ok = true) :
    luStep piv absval F i st =
      if pivValG piv absval st.A i = 0 then
        ⟨swapRows st.A i (pivRowG piv absval st.A i), swapSG piv F st.s i (pivRowG piv absval st.A i), false⟩
      else
        ⟨elimAll (swapRows st.A i (pivRowG piv absval st.A i)) i,
         (elimLoop F (swapRows st.A i (pivRowG piv absval st.A i))
            (swapSG piv F st.s i (pivRowG piv absval st.A i)) i).2, true⟩ := by
  simp only [luStep, hok, if_true, pivotPhase_eqG, beq_iff_eq, elimLoop_fst]

theorem luStep_not_okG (piv : Bool) (absval : K → Q) (F : Func n K S) (i : Fin n) (st : LUState n K S)
    (hok : st.ok = false) : luStep piv absval F i st = st := by
  simp [luStep, hok]

theorem pivRow_geG (piv : Bool) (absval : K → Q) (A : Mat n K) (i : Fin n) : i ≤ pivRowG piv absval A i := by
  cases piv
  · simp [pivRowG]
  · simp only [pivRowG, if_true]; exact (pivotSearch_spec absval A i).1

theorem pivVal_eqG (piv : Bool) (absval : K → Q) (A : Mat n K) (i : Fin n) :
    pivValG piv absval A i = absval ((swapRows A i (pivRowG piv absval A i)).f i i) := by
  rw [swapRows_fG, Equiv.swap_apply_left]
  cases piv
  · simp [pivValG, pivRowG]
  · simp only [pivValG, pivRowG, if_true]; exact (pivotSearch_spec absval A i).2.1

/-- a run of `luDecomposition` that ends with `ok = true` went through `n` steps "swap rows `i`, `p ≥ i`;
the pivot's magnitude is nonzero; eliminate"; `I` is any invariant of such steps -/
theorem lu_invariantG (piv : Bool) (absval : K → Q) (F : Func n K S) (A₀ : Mat n K) (s₀ : S)
    (I : Nat → Equiv.Perm (Fin n) → Mat n K → S → Prop) (h0 : I 0 1 A₀ s₀)
    (hstep : ∀ (i p : Fin n) (σ : Equiv.Perm (Fin n)) (A : Mat n K) (s : S), i ≤ p → (piv = false → p = i) →
      I i.1 σ A s → absval ((swapRows A i p).f i i) ≠ 0 →
      I (i.1 + 1) (σ * Equiv.swap i p) (elimAll (swapRows A i p) i)
        (elimLoop F (swapRows A i p) (swapSG piv F s i p) i).2) :
    (luDecomp piv absval F A₀ s₀).ok = true →
      ∃ σ, I n σ (luDecomp piv absval F A₀ s₀).A (luDecomp piv absval F A₀ s₀).s := by
  unfold luDecomp
  apply forUp_ind (⟨A₀, s₀, true⟩ : LUState n K S) (luStep piv absval F)
    (fun m st => st.ok = true → ∃ σ, I m σ st.A st.s)
  · exact fun _ => ⟨1, h0⟩
  · intro i st h1
    by_cases hok : st.ok = true
    · obtain ⟨σ, hI⟩ := h1 hok
      rw [luStep_eqG piv absval F i st hok]
      by_cases hz : pivValG piv absval st.A i = 0
      · simp only [hz, if_true]
        intro h; simp at h
      · simp only [hz, if_false]
        intro _
        refine ⟨σ * Equiv.swap i (pivRowG piv absval st.A i), ?_⟩
        apply hstep i _ σ st.A st.s (pivRow_geG piv absval st.A i) _ hI
        · rw [← pivVal_eqG piv absval st.A i]; exact hz
        · intro hpiv; subst hpiv; simp [pivRowG]
    · have hok' : st.ok = false := by simpa using hok
      rw [luStep_not_okG piv absval F i st hok']
      intro h; exact absurd h hok

end Generic

/-! ## Part 2: the entry-wise invariant under rounding -/

variable {R : Rounding} {n : Nat}

/-- entry-wise invariant after `m` outer steps (Higham, proof of Thm 9.3, for the in-place algorithm):
every entry of the row-permuted input is the current entry (times the pivot, for a stored multiplier) plus the
products multiplier × pivot-row entry already subtracted, each with a relative perturbation `≤ γ_m` -/
def MatInv (A₀ : Mat n (FlR R)) (m : ℕ) (σ : Equiv.Perm (Fin n)) (A : Mat n (FlR R)) : Prop :=
  ∀ r c : Fin n, ∃ (p : ℝ) (θ : Fin n → ℝ), |p| ≤ gamma R.u m ∧ (∀ i, |θ i| ≤ gamma R.u m) ∧
    (A₀.f (σ r) c).val =
      (if c.1 < m ∧ c < r then (A.f r c).val * (A.f c c).val else (A.f r c).val) * (1 + p)
      + ∑ i : Fin n, if i.1 < m ∧ i < r ∧ i < c then (A.f r i).val * (A.f i c).val * (1 + θ i) else 0

theorem MatInv_zero (A₀ : Mat n (FlR R)) : MatInv A₀ 0 1 A₀ := by
  intro r c
  exact ⟨0, fun _ => 0, by simp [gamma_zero], by simp [gamma_zero], by simp⟩

theorem swap_lt_iff {i p c r : Fin n} (hip : i ≤ p) (hc : c.1 < i.1) : c < Equiv.swap i p r ↔ c < r := by
  simp only [Equiv.swap_apply_def, Fin.lt_def, Fin.le_def] at *
  split_ifs with h1 h2
  · subst h1; omega
  · subst h2; omega
  · rfl

theorem swap_fix {i p c : Fin n} (hip : i ≤ p) (hc : c.1 < i.1) : Equiv.swap i p c = c := by
  apply Equiv.swap_apply_of_ne_of_ne
  · intro h; subst h; omega
  · intro h; subst h; simp only [Fin.le_def] at hip; omega

theorem MatInv_swap {A₀ A : Mat n (FlR R)} {σ : Equiv.Perm (Fin n)} {i p : Fin n} (hip : i ≤ p)
    (h : MatInv A₀ i.1 σ A) : MatInv A₀ i.1 (σ * Equiv.swap i p) (swapRows A i p) := by
  intro r c
  obtain ⟨q, θ, hq, hθ, heq⟩ := h (Equiv.swap i p r) c
  refine ⟨q, θ, hq, hθ, ?_⟩
  rw [Equiv.Perm.mul_apply, heq]
  congr 1
  · congr 1
    by_cases hc : c.1 < i.1
    · simp only [hc, true_and, swap_lt_iff hip hc, swapRows_fG, swap_fix hip hc]
    · simp [hc, swapRows_fG]
  · apply Finset.sum_congr rfl
    intro k _
    by_cases hk : k.1 < i.1
    · simp only [hk, true_and, swap_lt_iff hip hk, swapRows_fG, swap_fix hip hk]
    · simp [hk]

theorem elimAll_f_row (B : Mat n (FlR R)) (i r c : Fin n) (h : ¬ i < r) : (elimAll B i).f r c = B.f r c := by
  simp [elimAll, h]
theorem elimAll_f_left (B : Mat n (FlR R)) (i r c : Fin n) (h : i < r) (hc : c.1 < i.1) :
    (elimAll B i).f r c = B.f r c := by
  have h1 : c ≠ i := fun h => by subst h; omega
  have h2 : ¬ i < c := by simp only [Fin.lt_def]; omega
  simp [elimAll, h, elimEntry, h1, h2]
theorem elimAll_f_piv (B : Mat n (FlR R)) (i r : Fin n) (h : i < r) :
    (elimAll B i).f r i = B.f r i / B.f i i := by
  simp [elimAll, h, elimEntry]
theorem elimAll_f_right (B : Mat n (FlR R)) (i r c : Fin n) (h : i < r) (hc : i < c) :
    (elimAll B i).f r c = B.f r c - (B.f r i / B.f i i) * B.f i c := by
  have h1 : c ≠ i := fun h => by subst h; exact absurd hc (lt_irrefl _)
  simp [elimAll, h, elimEntry, h1, hc]

theorem MatInv_elim {A₀ B : Mat n (FlR R)} {σ : Equiv.Perm (Fin n)} {i : Fin n} (hn : (n : ℝ) * R.u < 1)
    (hne : (B.f i i).val ≠ 0) (h : MatInv A₀ i.1 σ B) : MatInv A₀ (i.1 + 1) σ (elimAll B i) := by
  have hu := R.u_nonneg
  have hk1 : ((i.1 + 1 : ℕ) : ℝ) * R.u < 1 := nat_mul_lt hu (Nat.succ_le_of_lt i.2) hn
  have hmono : gamma R.u i.1 ≤ gamma R.u (i.1 + 1) := gamma_mono hu (Nat.le_succ _) hk1
  have hu1 : R.u < 1 := by
    have : (1 : ℝ) * R.u ≤ ((i.1 + 1 : ℕ) : ℝ) * R.u :=
      mul_le_mul_of_nonneg_right (by exact_mod_cast Nat.succ_le_succ (Nat.zero_le _)) hu
    linarith
  intro r c
  obtain ⟨q, θ, hq, hθ, heq⟩ := h r c
  by_cases hir : i < r
  · by_cases hci : c.1 < i.1
    · -- an already stored multiplier: nothing changes
      refine ⟨q, θ, le_trans hq hmono, fun k => le_trans (hθ k) hmono, ?_⟩
      have hcr : c < r := by simp only [Fin.lt_def] at *; omega
      have hnic : ¬ i < c := by simp only [Fin.lt_def]; omega
      rw [heq]
      congr 1
      · have h1 : c.1 < i.1 + 1 := by omega
        simp only [hci, h1, hcr, and_self, if_true, elimAll_f_left B i r c hir hci, elimAll_f_row B i c c hnic]
      · apply Finset.sum_congr rfl
        intro k _
        by_cases hkc : k < c
        · have hki : k.1 < i.1 := by simp only [Fin.lt_def] at hkc; omega
          have hki1 : k.1 < i.1 + 1 := by omega
          have hnik : ¬ i < k := by simp only [Fin.lt_def]; omega
          simp only [hki, hki1, hkc, elimAll_f_left B i r k hir hki, elimAll_f_row B i k c hnik]
        · simp [hkc]
    · by_cases hceq : c = i
      · -- the multiplier of this step is stored
        subst hceq
        obtain ⟨η, hη, hdiv⟩ := R.spec ((B.f r c).val / (B.f c c).val)
        have hη' := abs_le.mp hη
        have hpos : 1 + η ≠ 0 := by linarith [hη'.1]
        refine ⟨(1 + q) / (1 + η) - 1, θ, gamma_step_div hu hk1 hq hη, fun k => le_trans (hθ k) hmono, ?_⟩
        have hcc : ¬ c < c := lt_irrefl _
        rw [heq]
        have hsum : ∀ k : Fin n,
            (if k.1 < c.1 + 1 ∧ k < r ∧ k < c then
              ((elimAll B c).f r k).val * ((elimAll B c).f k c).val * (1 + θ k) else 0) =
            (if k.1 < c.1 ∧ k < r ∧ k < c then (B.f r k).val * (B.f k c).val * (1 + θ k) else 0) := by
          intro k
          by_cases hkc : k < c
          · have hki : k.1 < c.1 := hkc
            have hki1 : k.1 < c.1 + 1 := by omega
            have hnik : ¬ c < k := by simp only [Fin.lt_def]; omega
            simp only [hki, hki1, hkc, elimAll_f_left B c r k hir hki, elimAll_f_row B c k c hnik]
          · simp [hkc]
        simp only [hsum]
        congr 1
        have h1 : c.1 < c.1 + 1 := Nat.lt_succ_self _
        have h2 : ¬ c.1 < c.1 := lt_irrefl _
        simp only [h1, h2, hir, and_self, if_true, false_and, if_false, elimAll_f_piv B c r hir,
          elimAll_f_row B c c c hcc, div_val, hdiv]
        field_simp
        ring
      · -- an entry right of the pivot column: one more product is subtracted
        have hic : i < c := by
          have : c.1 ≠ i.1 := fun h => hceq (Fin.ext h)
          simp only [Fin.lt_def]; omega
        obtain ⟨η, hη, hdiv⟩ := R.spec ((B.f r i).val / (B.f i i).val)
        obtain ⟨ε, hε, hmul⟩ := R.spec ((B.f r i / B.f i i).val * (B.f i c).val)
        obtain ⟨δ, hδ, hsub⟩ := R.spec ((B.f r c).val - (B.f r i / B.f i i).val * (B.f i c).val * (1 + ε))
        have hδ' := abs_le.mp hδ
        have hpos : 1 + δ ≠ 0 := by linarith [hδ'.1]
        refine ⟨(1 + q) / (1 + δ) - 1, Function.update θ i ((1 + q) * (1 + ε) - 1),
          gamma_step_div hu hk1 hq hδ, ?_, ?_⟩
        · intro k
          by_cases hki : k = i
          · subst hki; rw [Function.update_self]; exact gamma_step_mul hu hk1 hq hε
          · rw [Function.update_of_ne hki]; exact le_trans (hθ k) hmono
        · have hii : ¬ i < i := lt_irrefl _
          have hsplit : ∀ k : Fin n,
              (if k.1 < i.1 + 1 ∧ k < r ∧ k < c then
                ((elimAll B i).f r k).val * ((elimAll B i).f k c).val *
                  (1 + Function.update θ i ((1 + q) * (1 + ε) - 1) k) else 0) =
              (if k.1 < i.1 ∧ k < r ∧ k < c then (B.f r k).val * (B.f k c).val * (1 + θ k) else 0) +
              (if k = i then (B.f r i / B.f i i).val * (B.f i c).val * ((1 + q) * (1 + ε)) else 0) := by
            intro k
            by_cases hki : k = i
            · subst hki
              have h1 : k.1 < k.1 + 1 := Nat.lt_succ_self _
              have h2 : ¬ k.1 < k.1 := lt_irrefl _
              simp only [h1, h2, hir, hic, and_self, if_true, false_and, if_false, Function.update_self,
                elimAll_f_piv B k r hir, elimAll_f_row B k k c hii, zero_add]
              ring
            · by_cases hlt : k.1 < i.1
              · have hki1 : k.1 < i.1 + 1 := by omega
                have hkr : k < r := by simp only [Fin.lt_def] at *; omega
                have hkc : k < c := by simp only [Fin.lt_def] at *; omega
                have hnik : ¬ i < k := by simp only [Fin.lt_def]; omega
                simp only [hlt, hki1, hkr, hkc, and_self, if_true, hki, if_false, add_zero,
                  Function.update_of_ne hki, elimAll_f_left B i r k hir hlt, elimAll_f_row B i k c hnik]
              · have hki1 : ¬ k.1 < i.1 + 1 := by
                  have : k.1 ≠ i.1 := fun h => hki (Fin.ext h)
                  omega
                simp [hlt, hki1, hki]
          simp only [hsplit, Finset.sum_add_distrib, Finset.sum_ite_eq' Finset.univ i, Finset.mem_univ, if_true]
          have hmain : ¬ (c.1 < i.1 + 1 ∧ c < r) := by
            simp only [Fin.lt_def] at hic; intro h; omega
          have hmain' : ¬ (c.1 < i.1 ∧ c < r) := by
            simp only [Fin.lt_def] at hic; intro h; omega
          rw [heq]
          simp only [hmain, hmain', if_false, elimAll_f_right B i r c hir hic, sub_val, mul_val, hmul, hsub]
          field_simp
          ring
  · -- rows up to the pivot row are not touched
    refine ⟨q, θ, le_trans hq hmono, fun k => le_trans (hθ k) hmono, ?_⟩
    have hri : r.1 ≤ i.1 := by simp only [Fin.lt_def] at hir; omega
    rw [heq]
    congr 1
    · by_cases hcr : c < r
      · have h1 : c.1 < i.1 := by simp only [Fin.lt_def] at hcr; omega
        have h2 : c.1 < i.1 + 1 := by omega
        have hnic : ¬ i < c := by simp only [Fin.lt_def]; omega
        simp only [h1, h2, hcr, and_self, if_true, elimAll_f_row B i r c hir, elimAll_f_row B i c c hnic]
      · simp [hcr, elimAll_f_row B i r c hir]
    · apply Finset.sum_congr rfl
      intro k _
      by_cases hkr : k < r
      · have h1 : k.1 < i.1 := by simp only [Fin.lt_def] at hkr; omega
        have h2 : k.1 < i.1 + 1 := by omega
        have hnik : ¬ i < k := by simp only [Fin.lt_def]; omega
        simp only [h1, h2, hkr, true_and, elimAll_f_row B i r k hir, elimAll_f_row B i k c hnik]
      · simp [hkr]

/-! ### the right-hand side of `solve` (functor `Elim`) follows the same recurrences -/

def RhsInv (b₀ : Vec n (FlR R)) (m : ℕ) (σ : Equiv.Perm (Fin n)) (A : Mat n (FlR R)) (s : Vec n (FlR R)) : Prop :=
  ∀ r : Fin n, ∃ (p : ℝ) (θ : Fin n → ℝ), |p| ≤ gamma R.u m ∧ (∀ i, |θ i| ≤ gamma R.u m) ∧
    (b₀.f (σ r)).val = (s.f r).val * (1 + p)
      + ∑ i : Fin n, if i.1 < m ∧ i < r then (A.f r i).val * (s.f i).val * (1 + θ i) else 0

theorem RhsInv_zero (A₀ : Mat n (FlR R)) (b₀ : Vec n (FlR R)) : RhsInv b₀ 0 1 A₀ b₀ := by
  intro r
  exact ⟨0, fun _ => 0, by simp [gamma_zero], by simp [gamma_zero], by simp⟩

theorem elimFunc_swapSG_f (piv : Bool) (s : Vec n (FlR R)) (i p : Fin n) (hp : piv = false → p = i) :
    (swapSG piv (elimFunc : Func n (FlR R) (Vec n (FlR R))) s i p).f = s.f ∘ Equiv.swap i p := by
  cases piv
  · have := hp rfl; subst this
    simp [swapSG]
  · funext r
    simp only [swapSG, if_true, elimFunc, Vec.ofFn_f, Function.comp, Equiv.swap_apply_def]
    split_ifs <;> rfl

theorem RhsInv_swap {b₀ : Vec n (FlR R)} {A : Mat n (FlR R)} {s s' : Vec n (FlR R)} {σ : Equiv.Perm (Fin n)}
    {i p : Fin n} (hip : i ≤ p) (hs' : s'.f = s.f ∘ Equiv.swap i p) (h : RhsInv b₀ i.1 σ A s) :
    RhsInv b₀ i.1 (σ * Equiv.swap i p) (swapRows A i p) s' := by
  intro r
  obtain ⟨q, θ, hq, hθ, heq⟩ := h (Equiv.swap i p r)
  refine ⟨q, θ, hq, hθ, ?_⟩
  rw [Equiv.Perm.mul_apply, heq, hs']
  congr 1
  apply Finset.sum_congr rfl
  intro k _
  by_cases hk : k.1 < i.1
  · simp only [hk, true_and, swap_lt_iff hip hk, swapRows_fG, Function.comp, swap_fix hip hk]
  · simp [hk]

theorem RhsInv_elim {b₀ : Vec n (FlR R)} {B : Mat n (FlR R)} {s : Vec n (FlR R)} {σ : Equiv.Perm (Fin n)}
    {i : Fin n} (hn : (n : ℝ) * R.u < 1) (h : RhsInv b₀ i.1 σ B s) :
    RhsInv b₀ (i.1 + 1) σ (elimAll B i)
      (Vec.ofFn fun r => if i < r then s.f r - (B.f r i / B.f i i) * s.f i else s.f r) := by
  have hu := R.u_nonneg
  have hk1 : ((i.1 + 1 : ℕ) : ℝ) * R.u < 1 := nat_mul_lt hu (Nat.succ_le_of_lt i.2) hn
  have hmono : gamma R.u i.1 ≤ gamma R.u (i.1 + 1) := gamma_mono hu (Nat.le_succ _) hk1
  have hu1 : R.u < 1 := by
    have : (1 : ℝ) * R.u ≤ ((i.1 + 1 : ℕ) : ℝ) * R.u :=
      mul_le_mul_of_nonneg_right (by exact_mod_cast Nat.succ_le_succ (Nat.zero_le _)) hu
    linarith
  intro r
  obtain ⟨q, θ, hq, hθ, heq⟩ := h r
  by_cases hir : i < r
  · obtain ⟨ε, hε, hmul⟩ := R.spec ((B.f r i / B.f i i).val * (s.f i).val)
    obtain ⟨δ, hδ, hsub⟩ := R.spec ((s.f r).val - (B.f r i / B.f i i).val * (s.f i).val * (1 + ε))
    have hδ' := abs_le.mp hδ
    have hpos : 1 + δ ≠ 0 := by linarith [hδ'.1]
    refine ⟨(1 + q) / (1 + δ) - 1, Function.update θ i ((1 + q) * (1 + ε) - 1),
      gamma_step_div hu hk1 hq hδ, ?_, ?_⟩
    · intro k
      by_cases hki : k = i
      · subst hki; rw [Function.update_self]; exact gamma_step_mul hu hk1 hq hε
      · rw [Function.update_of_ne hki]; exact le_trans (hθ k) hmono
    · have hii : ¬ i < i := lt_irrefl _
      have hsplit : ∀ k : Fin n,
          (if k.1 < i.1 + 1 ∧ k < r then
            ((elimAll B i).f r k).val *
              ((Vec.ofFn fun r => if i < r then s.f r - (B.f r i / B.f i i) * s.f i else s.f r).f k).val *
              (1 + Function.update θ i ((1 + q) * (1 + ε) - 1) k) else 0) =
          (if k.1 < i.1 ∧ k < r then (B.f r k).val * (s.f k).val * (1 + θ k) else 0) +
          (if k = i then (B.f r i / B.f i i).val * (s.f i).val * ((1 + q) * (1 + ε)) else 0) := by
        intro k
        by_cases hki : k = i
        · subst hki
          have h1 : k.1 < k.1 + 1 := Nat.lt_succ_self _
          have h2 : ¬ k.1 < k.1 := lt_irrefl _
          simp only [h1, h2, hir, and_self, if_true, false_and, if_false, Function.update_self,
            elimAll_f_piv B k r hir, Vec.ofFn_f, hii, zero_add]
          ring
        · by_cases hlt : k.1 < i.1
          · have hki1 : k.1 < i.1 + 1 := by omega
            have hkr : k < r := by simp only [Fin.lt_def] at *; omega
            have hnik : ¬ i < k := by simp only [Fin.lt_def]; omega
            simp only [hlt, hki1, hkr, and_self, if_true, hki, if_false, add_zero,
              Function.update_of_ne hki, elimAll_f_left B i r k hir hlt, Vec.ofFn_f, hnik]
          · have hki1 : ¬ k.1 < i.1 + 1 := by
              have : k.1 ≠ i.1 := fun h => hki (Fin.ext h)
              omega
            simp [hlt, hki1, hki]
      simp only [hsplit, Finset.sum_add_distrib, Finset.sum_ite_eq' Finset.univ i, Finset.mem_univ, if_true]
      rw [heq]
      simp only [Vec.ofFn_f, hir, if_true, sub_val, mul_val, hmul, hsub]
      field_simp
      ring
  · refine ⟨q, θ, le_trans hq hmono, fun k => le_trans (hθ k) hmono, ?_⟩
    have hri : r.1 ≤ i.1 := by simp only [Fin.lt_def] at hir; omega
    rw [heq]
    simp only [Vec.ofFn_f, hir, if_false]
    congr 1
    apply Finset.sum_congr rfl
    intro k _
    by_cases hkr : k < r
    · have h1 : k.1 < i.1 := by simp only [Fin.lt_def] at hkr; omega
      have h2 : k.1 < i.1 + 1 := by omega
      have hnik : ¬ i < k := by simp only [Fin.lt_def]; omega
      simp only [h1, h2, hkr, and_self, if_true, elimAll_f_row B i r k hir, hnik, if_false]
    · simp [hkr]

/-! ### a whole run of `luDecomposition` with the functor `Elim` under rounding -/

def DiagNZ (m : ℕ) (A : Mat n (FlR R)) : Prop := ∀ j : Fin n, j.1 < m → (A.f j j).val ≠ 0

theorem lu_run_fl {Q : Type} [LinearOrder Q] [Zero Q] (hn : (n : ℝ) * R.u < 1) (piv : Bool)
    (absval : FlR R → Q) (habs0 : ∀ x : FlR R, x.val = 0 → absval x = 0)
    (A₀ : Mat n (FlR R)) (b₀ : Vec n (FlR R))
    (hok : (luDecomp piv absval elimFunc A₀ b₀).ok = true) :
    ∃ σ : Equiv.Perm (Fin n), MatInv A₀ n σ (luDecomp piv absval elimFunc A₀ b₀).A ∧
      RhsInv b₀ n σ (luDecomp piv absval elimFunc A₀ b₀).A (luDecomp piv absval elimFunc A₀ b₀).s ∧
      DiagNZ n (luDecomp piv absval elimFunc A₀ b₀).A := by
  apply lu_invariantG piv absval elimFunc A₀ b₀
    (fun m σ A s => MatInv A₀ m σ A ∧ RhsInv b₀ m σ A s ∧ DiagNZ m A) _ _ hok
  · exact ⟨MatInv_zero A₀, RhsInv_zero A₀ b₀, fun j hj => absurd hj (Nat.not_lt_zero _)⟩
  · intro i p σ A s hip hp ⟨hM, hR, hD⟩ hpiv
    have hne : ((swapRows A i p).f i i).val ≠ 0 := fun h0 => hpiv (habs0 _ h0)
    refine ⟨MatInv_elim hn hne (MatInv_swap hip hM), ?_, ?_⟩
    · rw [elimLoop_elimFunc_snd]
      exact RhsInv_elim hn (RhsInv_swap hip (elimFunc_swapSG_f piv s i p hp) hR)
    · intro j hj
      have hnij : ¬ i < j := by simp only [Fin.lt_def]; omega
      rw [elimAll_f_row _ i j j hnij]
      by_cases hji : j = i
      · subst hji; exact hne
      · have hlt : j.1 < i.1 := by
          have : j.1 ≠ i.1 := fun h => hji (Fin.ext h)
          omega
        rw [swapRows_fG, swap_fix hip hlt]
        exact hD j hlt

/-! ### the computed factors as real matrices, and the final form of the invariants -/

/-- `L̂`: unit lower triangular, the stored multipliers -/
def Lr (A : Mat n (FlR R)) (r c : Fin n) : ℝ := if c < r then (A.f r c).val else if r = c then 1 else 0
/-- `Û`: the upper triangle -/
def Ur (A : Mat n (FlR R)) (r c : Fin n) : ℝ := if r ≤ c then (A.f r c).val else 0

theorem MatInv_rows {A₀ A : Mat n (FlR R)} {σ : Equiv.Perm (Fin n)} (h : MatInv A₀ n σ A) (r c : Fin n) :
    ∃ Θ : Fin n → ℝ, (∀ k, |Θ k| ≤ gamma R.u n) ∧
      (A₀.f (σ r) c).val = ∑ k, Lr A r k * Ur A k c * (1 + Θ k) := by
  obtain ⟨p, θ, hp, hθ, heq⟩ := h r c
  by_cases hcr : c < r
  · refine ⟨Function.update θ c p, ?_, ?_⟩
    · intro k
      by_cases hk : k = c
      · subst hk; rw [Function.update_self]; exact hp
      · rw [Function.update_of_ne hk]; exact hθ k
    · have hterm : ∀ k : Fin n, Lr A r k * Ur A k c * (1 + Function.update θ c p k) =
          (if k = c then (A.f r c).val * (A.f c c).val * (1 + p) else 0) +
          (if k.1 < n ∧ k < r ∧ k < c then (A.f r k).val * (A.f k c).val * (1 + θ k) else 0) := by
        intro k
        by_cases hk : k = c
        · subst hk
          simp [Lr, Ur, hcr]
        · rw [Function.update_of_ne hk]
          by_cases hkc : k < c
          · have hkr : k < r := lt_trans hkc hcr
            simp [Lr, Ur, hk, hkc, hkr, le_of_lt hkc, k.2]
          · have : ¬ k ≤ c := fun h => hkc (lt_of_le_of_ne h hk)
            simp [Ur, hk, hkc, this]
      simp only [hterm, Finset.sum_add_distrib, Finset.sum_ite_eq' Finset.univ c, Finset.mem_univ, if_true]
      rw [heq]
      simp [hcr, c.2]
  · have hrc : r ≤ c := not_lt.mp hcr
    refine ⟨Function.update θ r p, ?_, ?_⟩
    · intro k
      by_cases hk : k = r
      · subst hk; rw [Function.update_self]; exact hp
      · rw [Function.update_of_ne hk]; exact hθ k
    · have hterm : ∀ k : Fin n, Lr A r k * Ur A k c * (1 + Function.update θ r p k) =
          (if k = r then (A.f r c).val * (1 + p) else 0) +
          (if k.1 < n ∧ k < r ∧ k < c then (A.f r k).val * (A.f k c).val * (1 + θ k) else 0) := by
        intro k
        by_cases hk : k = r
        · subst hk
          simp [Lr, Ur, hrc]
        · rw [Function.update_of_ne hk]
          by_cases hkr : k < r
          · have hkc : k < c := lt_of_lt_of_le hkr hrc
            simp [Lr, Ur, hk, hkc, hkr, le_of_lt hkc, k.2]
          · have : r ≠ k := fun h => hk h.symm
            simp [Lr, hk, hkr, this]
      simp only [hterm, Finset.sum_add_distrib, Finset.sum_ite_eq' Finset.univ r, Finset.mem_univ, if_true]
      rw [heq]
      simp [hcr]

theorem RhsInv_rows {b₀ s : Vec n (FlR R)} {A : Mat n (FlR R)} {σ : Equiv.Perm (Fin n)}
    (h : RhsInv b₀ n σ A s) (r : Fin n) :
    ∃ Θ : Fin n → ℝ, (∀ k, |Θ k| ≤ gamma R.u n) ∧
      (b₀.f (σ r)).val = ∑ k, Lr A r k * (s.f k).val * (1 + Θ k) := by
  obtain ⟨p, θ, hp, hθ, heq⟩ := h r
  refine ⟨Function.update θ r p, ?_, ?_⟩
  · intro k
    by_cases hk : k = r
    · subst hk; rw [Function.update_self]; exact hp
    · rw [Function.update_of_ne hk]; exact hθ k
  · have hterm : ∀ k : Fin n, Lr A r k * (s.f k).val * (1 + Function.update θ r p k) =
        (if k = r then (s.f r).val * (1 + p) else 0) +
        (if k.1 < n ∧ k < r then (A.f r k).val * (s.f k).val * (1 + θ k) else 0) := by
      intro k
      by_cases hk : k = r
      · subst hk
        simp [Lr]
      · rw [Function.update_of_ne hk]
        by_cases hkr : k < r
        · simp [Lr, hk, hkr, k.2]
        · have : r ≠ k := fun h => hk h.symm
          simp [Lr, hk, hkr, this]
    simp only [hterm, Finset.sum_add_distrib, Finset.sum_ite_eq' Finset.univ r, Finset.mem_univ, if_true]
    rw [heq]

/-! ### combining the three error sources: `L̂Û = PA + ΔA₁`, `(L̂+ΔL) ŷ = Pb`, `(Û+ΔU) x̂ = ŷ` -/

theorem combine_rows (L U a : Fin n → Fin n → ℝ) (bv y x : Fin n → ℝ) (g₁ g₂ : ℝ) (hg12 : g₁ ≤ g₂)
    (Ψ : Fin n → Fin n → Fin n → ℝ) (Θ Φ : Fin n → Fin n → ℝ)
    (hΨ : ∀ r c k, |Ψ r c k| ≤ g₁) (hΘ : ∀ r k, |Θ r k| ≤ g₁) (hΦ : ∀ k c, |Φ k c| ≤ g₂)
    (hA : ∀ r c, a r c = ∑ k, L r k * U k c * (1 + Ψ r c k))
    (hb : ∀ r, bv r = ∑ k, L r k * y k * (1 + Θ r k))
    (hy : ∀ k, y k = ∑ c, U k c * (1 + Φ k c) * x c) :
    ∃ ΔA : Fin n → Fin n → ℝ, (∀ r, ∑ c, (a r c + ΔA r c) * x c = bv r) ∧
      ∀ r c, |ΔA r c| ≤ (3 * g₂ + g₂ ^ 2) * ∑ k, |L r k| * |U k c| := by
  refine ⟨fun r c => ∑ k, L r k * U k c * ((1 + Θ r k) * (1 + Φ k c) - (1 + Ψ r c k)), ?_, ?_⟩
  · intro r
    rw [hb r]
    simp only [hy, hA r]
    simp only [← Finset.sum_add_distrib, Finset.sum_mul, Finset.mul_sum]
    rw [Finset.sum_comm]
    apply Finset.sum_congr rfl
    intro k _
    apply Finset.sum_congr rfl
    intro c _
    ring
  · intro r c
    calc |∑ k, L r k * U k c * ((1 + Θ r k) * (1 + Φ k c) - (1 + Ψ r c k))|
        ≤ ∑ k, |L r k * U k c * ((1 + Θ r k) * (1 + Φ k c) - (1 + Ψ r c k))| :=
          Finset.abs_sum_le_sum_abs _ _
      _ ≤ ∑ k, (3 * g₂ + g₂ ^ 2) * (|L r k| * |U k c|) := by
          apply Finset.sum_le_sum
          intro k _
          rw [abs_mul, abs_mul, mul_comm]
          apply mul_le_mul_of_nonneg_right _ (mul_nonneg (abs_nonneg _) (abs_nonneg _))
          have e : (1 + Θ r k) * (1 + Φ k c) - (1 + Ψ r c k) = Θ r k * Φ k c + Θ r k + Φ k c - Ψ r c k := by ring
          rw [e]
          have h1 : |Θ r k| ≤ g₂ := le_trans (hΘ r k) hg12
          have h2 : |Φ k c| ≤ g₂ := hΦ k c
          have h3 : |Ψ r c k| ≤ g₂ := le_trans (hΨ r c k) hg12
          have h4 : |Θ r k * Φ k c| ≤ g₂ * g₂ := by
            rw [abs_mul]; exact mul_le_mul h1 h2 (abs_nonneg _) (le_trans (abs_nonneg _) h1)
          calc |Θ r k * Φ k c + Θ r k + Φ k c - Ψ r c k|
              ≤ |Θ r k * Φ k c + Θ r k + Φ k c| + |Ψ r c k| := abs_sub _ _
            _ ≤ |Θ r k * Φ k c + Θ r k| + |Φ k c| + |Ψ r c k| := by
                have := abs_add_le (Θ r k * Φ k c + Θ r k) (Φ k c); linarith
            _ ≤ |Θ r k * Φ k c| + |Θ r k| + |Φ k c| + |Ψ r c k| := by
                have := abs_add_le (Θ r k * Φ k c) (Θ r k); linarith
            _ ≤ 3 * g₂ + g₂ ^ 2 := by nlinarith
      _ = (3 * g₂ + g₂ ^ 2) * ∑ k, |L r k| * |U k c| := by rw [Finset.mul_sum]

/-! ### backward error of `solve` on the LU path (Higham, Thm 9.4, with the constant `3γ + γ²`, `γ = γ_{n+1}`) -/

theorem solveLU_backward_error_rows {Q : Type} [LinearOrder Q] [Zero Q] (hn : ((n + 1 : ℕ) : ℝ) * R.u < 1)
    (piv : Bool) (absval : FlR R → Q) (habs0 : ∀ x : FlR R, x.val = 0 → absval x = 0)
    (A : Mat n (FlR R)) (b x : Vec n (FlR R)) (h : solveLU piv absval A b = .ok x) :
    ∃ (σ : Equiv.Perm (Fin n)) (ΔA : Fin n → Fin n → ℝ),
      (∀ r, ∑ c, ((A.f (σ r) c).val + ΔA r c) * (x.f c).val = (b.f (σ r)).val) ∧
      ∀ r c, |ΔA r c| ≤ (3 * gamma R.u (n + 1) + gamma R.u (n + 1) ^ 2) *
        ∑ k, |Lr (luDecomp piv absval elimFunc A b).A r k| * |Ur (luDecomp piv absval elimFunc A b).A k c| := by
  have hu := R.u_nonneg
  have hn' : (n : ℝ) * R.u < 1 := nat_mul_lt hu (Nat.le_succ n) hn
  have hmono : gamma R.u n ≤ gamma R.u (n + 1) := gamma_mono hu (Nat.le_succ _) hn
  unfold solveLU at h
  split at h
  · rename_i hok
    injection h with hx
    obtain ⟨σ, hM, hR, hD⟩ := lu_run_fl hn' piv absval habs0 A b hok
    generalize (luDecomp piv absval elimFunc A b).A = LU at hM hR hD hx ⊢
    generalize (luDecomp piv absval elimFunc A b).s = y at hR hx
    choose Ψ hΨ hA using fun r c => MatInv_rows hM r c
    choose Θ hΘ hb using fun r => RhsInv_rows hR r
    choose Φ hΦ hy using backSubst_rows hn LU y (fun j => hD j j.2)
    rw [hx] at hy
    have hyk : ∀ k, (y.f k).val = ∑ c, Ur LU k c * (1 + Φ k c) * (x.f c).val := by
      intro k
      rw [← hy k]
      apply Finset.sum_congr rfl
      intro c _
      by_cases hkc : k ≤ c <;> simp [Ur, hkc]
    obtain ⟨ΔA, h1, h2⟩ := combine_rows (Lr LU) (Ur LU) (fun r c => (A.f (σ r) c).val)
      (fun r => (b.f (σ r)).val) (fun k => (y.f k).val) (fun c => (x.f c).val) (gamma R.u n) (gamma R.u (n + 1))
      hmono Ψ Θ Φ hΨ hΘ hΦ hA hb hyk
    exact ⟨σ, ΔA, h1, h2⟩
  · cases h

end DV.C02.Flt
