/-
C12 — the typed-retrieval lexers (`Parser<T>::parse`, model section 6): complete characterisation of the
integer extraction, of `Parser<int-like>::parse`, of the fixed-size ranges, of `bool`, `vector`, `bitset`,
and the round trip through the canonical decimal text.
-/
import DuneVerif.Model.C12
import DuneVerif.Proofs.C12Str

namespace DV.C12

def AllSpace (s : Str) : Prop := ∀ c ∈ s, isSpaceC c = true
def AllDig (s : Str) : Prop := ∀ c ∈ s, isDig c = true
def SignOK (sign : Str) : Prop := sign = [] ∨ sign = ['+'] ∨ sign = ['-']
/-- the unread text does not start with a digit -/
def NoDigHead (rest : Str) : Prop := ∀ c, rest.head? = some c → isDig c = false

/-- the value the integer type `ty` assigns to the literal `sign digs` -/
def IntTy.denotes (ty : IntTy) (sign digs : Str) (v : Int) : Prop :=
  if ty.signed then
    v = (if sign = ['-'] then -(digitsVal digs : Int) else (digitsVal digs : Int)) ∧ ty.lo ≤ v ∧ v ≤ ty.hi
  else (digitsVal digs : Int) ≤ ty.hi ∧
       v = (if sign = ['-'] then (((2 ^ ty.bits - digitsVal digs) % 2 ^ ty.bits : Nat) : Int)
            else (digitsVal digs : Int))

/-! ### generic list facts (missing from core) -/

theorem head?_dropWhile_not {α} (p : α → Bool) :
    ∀ (l : List α) (c : α), (l.dropWhile p).head? = some c → p c = false
  | [], c, h => by simp at h
  | x :: xs, c, h => by
    by_cases hx : p x = true
    · rw [List.dropWhile_cons_of_pos hx] at h
      exact head?_dropWhile_not p xs c h
    · rw [List.dropWhile_cons_of_neg hx] at h
      simp at h
      subst h
      simpa using hx

theorem mem_takeWhile_pos {α} (p : α → Bool) : ∀ (l : List α) (c : α), c ∈ l.takeWhile p → p c = true
  | [], c, h => by simp at h
  | x :: xs, c, h => by
    by_cases hx : p x = true
    · rw [List.takeWhile_cons_of_pos hx] at h
      simp only [List.mem_cons] at h
      rcases h with rfl | h
      · exact hx
      · exact mem_takeWhile_pos p xs c h
    · rw [List.takeWhile_cons_of_neg hx] at h
      simp at h

theorem dropWhile_nil_iff {α} (p : α → Bool) : ∀ (l : List α), l.dropWhile p = [] ↔ ∀ c ∈ l, p c = true
  | [] => by simp
  | x :: xs => by
    by_cases hx : p x = true
    · rw [List.dropWhile_cons_of_pos hx, dropWhile_nil_iff p xs]
      simp [hx]
    · rw [List.dropWhile_cons_of_neg hx]
      simp [hx]

/-! ### character classes -/

theorem isSpaceC_of_isDig {c : Char} (h : isDig c = true) : isSpaceC c = false := by
  cases hs : isSpaceC c with
  | false => rfl
  | true =>
    simp [isSpaceC] at hs
    rcases hs with ((((h1 | h1) | h1) | h1) | h1) | h1 <;> subst h1 <;> exact absurd h (by decide)

theorem isDig_of_isSpaceC {c : Char} (h : isSpaceC c = true) : isDig c = false := by
  cases hd : isDig c with
  | false => rfl
  | true => rw [isSpaceC_of_isDig hd] at h; cases h

theorem ne_minus_of_isDig {c : Char} (h : isDig c = true) : c ≠ '-' := by
  intro e; subst e; exact absurd h (by decide)

theorem ne_plus_of_isDig {c : Char} (h : isDig c = true) : c ≠ '+' := by
  intro e; subst e; exact absurd h (by decide)

theorem isSpaceC_minus : isSpaceC '-' = false := by decide
theorem isSpaceC_plus : isSpaceC '+' = false := by decide

theorem allSpace_nil : AllSpace [] := by intro c hc; cases hc
theorem allDig_nil : AllDig [] := by intro c hc; cases hc

theorem noDigHead_nil : NoDigHead [] := by intro c hc; simp at hc

theorem noDigHead_of_allSpace {s : Str} (h : AllSpace s) : NoDigHead s := by
  intro c hc
  cases s with
  | nil => simp at hc
  | cons x xs =>
    simp at hc
    subst hc
    exact isDig_of_isSpaceC (h x List.mem_cons_self)

/-! ### skipWs -/

theorem skipWs_append_of_allSpace {pre x : Str} (h : AllSpace pre) : skipWs (pre ++ x) = skipWs x := by
  unfold skipWs
  exact List.dropWhile_append_of_pos h

theorem skipWs_cons_of_not_space {c : Char} {s : Str} (h : isSpaceC c = false) : skipWs (c :: s) = c :: s := by
  unfold skipWs
  exact List.dropWhile_cons_of_neg (by simp [h])

theorem skipWs_eq_nil_iff (s : Str) : skipWs s = [] ↔ AllSpace s := by
  unfold skipWs AllSpace
  exact dropWhile_nil_iff isSpaceC s

/-- every string is blanks followed by what `skipWs` leaves -/
theorem skipWs_split (s : Str) : ∃ pre, AllSpace pre ∧ s = pre ++ skipWs s :=
  ⟨s.takeWhile isSpaceC, fun c hc => mem_takeWhile_pos isSpaceC s c hc, by
    unfold skipWs; exact List.takeWhile_append_dropWhile.symm⟩

/-! ### digit runs -/

theorem takeWhile_digs {digs rest : Str} (hd : AllDig digs) (hr : NoDigHead rest) :
    (digs ++ rest).takeWhile isDig = digs := by
  rw [List.takeWhile_append_of_pos hd]
  cases rest with
  | nil => simp
  | cons c r =>
    have : isDig c = false := hr c rfl
    rw [List.takeWhile_cons_of_neg (by simp [this])]
    simp

theorem dropWhile_digs {digs rest : Str} (hd : AllDig digs) (hr : NoDigHead rest) :
    (digs ++ rest).dropWhile isDig = rest := by
  rw [List.dropWhile_append_of_pos hd]
  cases rest with
  | nil => simp
  | cons c r =>
    have : isDig c = false := hr c rfl
    exact List.dropWhile_cons_of_neg (by simp [this])

theorem digs_split (s2 : Str) :
    AllDig (s2.takeWhile isDig) ∧ NoDigHead (s2.dropWhile isDig) ∧
      s2 = s2.takeWhile isDig ++ s2.dropWhile isDig :=
  ⟨fun c hc => mem_takeWhile_pos isDig s2 c hc, fun c hc => head?_dropWhile_not isDig s2 c hc,
    List.takeWhile_append_dropWhile.symm⟩

/-! ### `extractInt` in two stages: the sign, then the digits -/

/-- the optional sign: was it a minus, and what follows -/
def signSplit (s1 : Str) : Bool × Str :=
  (s1.head? == some '-', if s1.head? == some '-' || s1.head? == some '+' then s1.drop 1 else s1)

/-- the conversion once the lexer has isolated the digits -/
def intResult (ty : IntTy) (neg : Bool) (digs rest : Str) : Option (Int × Str) :=
  if digs = [] then none
  else
    let m := digitsVal digs
    if ty.signed then
      let v : Int := if neg then -(m : Int) else m
      if ty.lo ≤ v ∧ v ≤ ty.hi then some (v, rest) else none
    else if (m : Int) > ty.hi then none
    else some (if neg then (((2 ^ ty.bits - m) % 2 ^ ty.bits : Nat) : Int) else (m : Int), rest)

theorem extractInt_eq (ty : IntTy) (s : Str) :
    extractInt ty s = intResult ty (signSplit (skipWs s)).1
      ((signSplit (skipWs s)).2.takeWhile isDig) ((signSplit (skipWs s)).2.dropWhile isDig) := rfl

theorem signSplit_nil : signSplit [] = (false, []) := by simp [signSplit]
theorem signSplit_minus (t : Str) : signSplit ('-' :: t) = (true, t) := by simp [signSplit]
theorem signSplit_plus (t : Str) : signSplit ('+' :: t) = (false, t) := by simp [signSplit]
theorem signSplit_other {c : Char} (t : Str) (h1 : c ≠ '-') (h2 : c ≠ '+') :
    signSplit (c :: t) = (false, c :: t) := by simp [signSplit, h1, h2]

/-- every string is an optional sign followed by what `signSplit` leaves -/
theorem signSplit_spec (s1 : Str) :
    ∃ sign, SignOK sign ∧ s1 = sign ++ (signSplit s1).2 ∧ ((signSplit s1).1 = true ↔ sign = ['-']) := by
  cases s1 with
  | nil => exact ⟨[], Or.inl rfl, by simp [signSplit_nil], by simp [signSplit_nil]⟩
  | cons c t =>
    by_cases h1 : c = '-'
    · subst h1
      exact ⟨['-'], Or.inr (Or.inr rfl), by simp [signSplit_minus], by simp [signSplit_minus]⟩
    · by_cases h2 : c = '+'
      · subst h2
        exact ⟨['+'], Or.inr (Or.inl rfl), by simp [signSplit_plus], by simp [signSplit_plus]⟩
      · exact ⟨[], Or.inl rfl, by simp [signSplit_other t h1 h2], by simp [signSplit_other t h1 h2]⟩

/-- on  sign digits …  the sign stage finds the sign -/
theorem signSplit_sign_digs {sign digs rest : Str} (hs : SignOK sign) (hne : digs ≠ []) (hd : AllDig digs) :
    (signSplit (sign ++ digs ++ rest)).2 = digs ++ rest ∧
      ((signSplit (sign ++ digs ++ rest)).1 = true ↔ sign = ['-']) := by
  cases digs with
  | nil => exact absurd rfl hne
  | cons d ds =>
    have hdd : isDig d = true := hd d List.mem_cons_self
    rcases hs with rfl | rfl | rfl
    · have := signSplit_other (ds ++ rest) (ne_minus_of_isDig hdd) (ne_plus_of_isDig hdd)
      simp only [List.nil_append, List.cons_append]
      rw [this]
      simp
    · simp only [List.cons_append, List.nil_append]
      rw [signSplit_plus]
      simp
    · simp only [List.cons_append, List.nil_append]
      rw [signSplit_minus]
      simp

theorem skipWs_sign_digs {sign digs rest : Str} (hs : SignOK sign) (hne : digs ≠ []) (hd : AllDig digs) :
    skipWs (sign ++ digs ++ rest) = sign ++ digs ++ rest := by
  cases digs with
  | nil => exact absurd rfl hne
  | cons d ds =>
    have hdd : isDig d = true := hd d List.mem_cons_self
    rcases hs with rfl | rfl | rfl
    · exact skipWs_cons_of_not_space (isSpaceC_of_isDig hdd)
    · exact skipWs_cons_of_not_space isSpaceC_plus
    · exact skipWs_cons_of_not_space isSpaceC_minus

theorem intResult_iff (ty : IntTy) (neg : Bool) (sign digs rest rest' : Str) (v : Int)
    (hs : neg = true ↔ sign = ['-']) :
    intResult ty neg digs rest = some (v, rest') ↔ digs ≠ [] ∧ rest' = rest ∧ ty.denotes sign digs v := by
  unfold intResult IntTy.denotes
  by_cases hd : digs = []
  · simp [hd]
  · simp only [hd, if_false, ne_eq, not_false_eq_true, true_and]
    cases hsg : ty.signed with
    | true =>
      simp only [if_true]
      cases neg with
      | true =>
        have : sign = ['-'] := hs.mp rfl
        simp only [this, if_true]
        by_cases hr : ty.lo ≤ -(digitsVal digs : Int) ∧ -(digitsVal digs : Int) ≤ ty.hi
        · simp only [hr, and_self, if_true, Option.some.injEq, Prod.mk.injEq]
          constructor
          · rintro ⟨rfl, rfl⟩; exact ⟨rfl, rfl, hr⟩
          · rintro ⟨rfl, rfl, _⟩; exact ⟨rfl, rfl⟩
        · simp only [hr, if_false]
          constructor
          · intro h; cases h
          · rintro ⟨_, rfl, h⟩; exact absurd h hr
      | false =>
        have : ¬ sign = ['-'] := fun e => by have := hs.mpr e; cases this
        simp only [this, if_false, Bool.false_eq_true]
        by_cases hr : ty.lo ≤ (digitsVal digs : Int) ∧ (digitsVal digs : Int) ≤ ty.hi
        · simp only [hr, and_self, if_true, Option.some.injEq, Prod.mk.injEq]
          constructor
          · rintro ⟨rfl, rfl⟩; exact ⟨rfl, rfl, hr⟩
          · rintro ⟨rfl, rfl, _⟩; exact ⟨rfl, rfl⟩
        · simp only [hr, if_false]
          constructor
          · intro h; cases h
          · rintro ⟨_, rfl, h⟩; exact absurd h hr
    | false =>
      simp only [Bool.false_eq_true, if_false]
      by_cases hr : (digitsVal digs : Int) > ty.hi
      · simp only [hr, if_true]
        constructor
        · intro h; cases h
        · rintro ⟨_, h, _⟩; omega
      · simp only [hr, if_false, Option.some.injEq, Prod.mk.injEq]
        have hle : (digitsVal digs : Int) ≤ ty.hi := by omega
        cases neg with
        | true =>
          have : sign = ['-'] := hs.mp rfl
          simp only [this, if_true]
          constructor
          · rintro ⟨rfl, rfl⟩; exact ⟨rfl, hle, rfl⟩
          · rintro ⟨rfl, _, rfl⟩; exact ⟨rfl, rfl⟩
        | false =>
          have : ¬ sign = ['-'] := fun e => by have := hs.mpr e; cases this
          simp only [this, if_false, Bool.false_eq_true]
          constructor
          · rintro ⟨rfl, rfl⟩; exact ⟨rfl, hle, rfl⟩
          · rintro ⟨rfl, _, rfl⟩; exact ⟨rfl, rfl⟩

/-- complete characterisation of one integer extraction -/
theorem extractInt_iff (ty : IntTy) (s rest : Str) (v : Int) :
    extractInt ty s = some (v, rest) ↔
      ∃ pre sign digs, s = pre ++ sign ++ digs ++ rest ∧ AllSpace pre ∧ SignOK sign ∧ digs ≠ [] ∧ AllDig digs ∧
        NoDigHead rest ∧ ty.denotes sign digs v := by
  constructor
  · intro h
    rw [extractInt_eq] at h
    obtain ⟨pre, hpre, hs⟩ := skipWs_split s
    obtain ⟨sign, hsign, hs1, hneg⟩ := signSplit_spec (skipWs s)
    obtain ⟨hdig, hrest, hs2⟩ := digs_split (signSplit (skipWs s)).2
    rw [intResult_iff ty _ sign _ _ _ v hneg] at h
    obtain ⟨hne, hr, hden⟩ := h
    refine ⟨pre, sign, _, ?_, hpre, hsign, hne, hdig, ?_, hden⟩
    · rw [hr, List.append_assoc, List.append_assoc, ← hs2, ← hs1]
      exact hs
    · rw [hr]; exact hrest
  · rintro ⟨pre, sign, digs, rfl, hpre, hsign, hne, hdig, hrest, hden⟩
    rw [extractInt_eq]
    have h1 : skipWs (pre ++ sign ++ digs ++ rest) = sign ++ digs ++ rest := by
      rw [List.append_assoc, List.append_assoc, skipWs_append_of_allSpace hpre, ← List.append_assoc]
      exact skipWs_sign_digs hsign hne hdig
    obtain ⟨h2, hneg⟩ := signSplit_sign_digs (rest := rest) hsign hne hdig
    rw [h1, h2, takeWhile_digs hdig hrest, dropWhile_digs hdig hrest]
    rw [intResult_iff ty _ sign _ _ _ v hneg]
    exact ⟨hne, rfl, hden⟩

/-! ### `Parser<T>::parse` for integers -/

theorem parseScalar_eq_some {α} (ex : Str → Option (α × Str)) (s : Str) (v : α) :
    parseScalar ex s = some v ↔ ∃ rest, ex s = some (v, rest) ∧ AllSpace rest := by
  unfold parseScalar
  cases h : ex s with
  | none => simp
  | some p =>
    obtain ⟨w, rest⟩ := p
    simp only [Option.some.injEq, Prod.mk.injEq]
    by_cases hr : skipWs rest = []
    · simp only [hr, if_true, Option.some.injEq]
      constructor
      · rintro rfl; exact ⟨rest, ⟨rfl, rfl⟩, (skipWs_eq_nil_iff rest).mp hr⟩
      · rintro ⟨_, ⟨rfl, _⟩, _⟩; rfl
    · simp only [hr, if_false]
      constructor
      · intro h; cases h
      · rintro ⟨_, ⟨_, rfl⟩, h2⟩; exact absurd ((skipWs_eq_nil_iff _).mpr h2) hr

/-- `Parser<T>::parse` for integers accepts exactly  blanks [sign] digits blanks  with the value in range -/
theorem parseInt_iff (ty : IntTy) (s : Str) (v : Int) :
    parseInt ty s = some v ↔
      ∃ pre sign digs post, s = pre ++ sign ++ digs ++ post ∧ AllSpace pre ∧ AllSpace post ∧ SignOK sign ∧
        digs ≠ [] ∧ AllDig digs ∧ ty.denotes sign digs v := by
  unfold parseInt
  rw [parseScalar_eq_some]
  constructor
  · rintro ⟨rest, h, hrest⟩
    obtain ⟨pre, sign, digs, hs, hpre, hsign, hne, hdig, _, hden⟩ := (extractInt_iff ty s rest v).mp h
    exact ⟨pre, sign, digs, rest, hs, hpre, hrest, hsign, hne, hdig, hden⟩
  · rintro ⟨pre, sign, digs, post, hs, hpre, hpost, hsign, hne, hdig, hden⟩
    exact ⟨post, (extractInt_iff ty s post v).mpr
      ⟨pre, sign, digs, hs, hpre, hsign, hne, hdig, noDigHead_of_allSpace hpost, hden⟩, hpost⟩

/-! ### canonical decimal text -/

theorem digitChar_spec : ∀ d : Fin 10, isDig (digitChar d) = true ∧ (digitChar d).toNat - 48 = d := by decide

theorem digitChar_isDig {d : Nat} (h : d < 10) : isDig (digitChar d) = true := (digitChar_spec ⟨d, h⟩).1
theorem digitChar_val {d : Nat} (h : d < 10) : (digitChar d).toNat - 48 = d := (digitChar_spec ⟨d, h⟩).2

theorem showNat_lt {n : Nat} (h : n < 10) : showNat n = [digitChar n] := by
  rw [showNat]; simp [h]

theorem showNat_ge {n : Nat} (h : ¬ n < 10) : showNat n = showNat (n / 10) ++ [digitChar (n % 10)] := by
  rw [showNat]; simp [h]

theorem showNat_ne_nil (n : Nat) : showNat n ≠ [] := by
  by_cases h : n < 10
  · rw [showNat_lt h]; simp
  · rw [showNat_ge h]; simp

theorem showNat_allDig (n : Nat) : AllDig (showNat n) := by
  induction n using Nat.strongRecOn with
  | ind n ih =>
    by_cases h : n < 10
    · rw [showNat_lt h]
      intro c hc
      simp at hc
      subst hc
      exact digitChar_isDig h
    · rw [showNat_ge h]
      intro c hc
      simp only [List.mem_append, List.mem_singleton] at hc
      rcases hc with hc | rfl
      · exact ih (n / 10) (by omega) c hc
      · exact digitChar_isDig (by omega)

theorem digitsVal_concat (xs : Str) (c : Char) : digitsVal (xs ++ [c]) = digitsVal xs * 10 + (c.toNat - 48) := by
  simp [digitsVal, List.foldl_append]

theorem digitsVal_singleton (c : Char) : digitsVal [c] = c.toNat - 48 := by
  simp [digitsVal]

theorem digitsVal_showNat (n : Nat) : digitsVal (showNat n) = n := by
  induction n using Nat.strongRecOn with
  | ind n ih =>
    by_cases h : n < 10
    · rw [showNat_lt h, digitsVal_singleton, digitChar_val h]
    · rw [showNat_ge h, digitsVal_concat, ih (n / 10) (by omega), digitChar_val (by omega)]
      omega

/-- `showInt i` is an optional minus followed by the digits of `|i|` -/
theorem showInt_eq (i : Int) : showInt i = (if i < 0 then ['-'] else []) ++ showNat i.natAbs := by
  unfold showInt
  by_cases h : i < 0 <;> simp [h]

/-- canonical decimal text, with optional blanks around it, converts back to the number -/
theorem roundtrip_int (ty : IntTy) (i : Int) (hlo : ty.lo ≤ i) (hhi : i ≤ ty.hi)
    (pre post : Str) (hpre : AllSpace pre) (hpost : AllSpace post) :
    parseInt ty (pre ++ showInt i ++ post) = some i := by
  rw [parseInt_iff]
  refine ⟨pre, if i < 0 then ['-'] else [], showNat i.natAbs, post, ?_, hpre, hpost, ?_, showNat_ne_nil _,
    showNat_allDig _, ?_⟩
  · rw [showInt_eq]; simp [List.append_assoc]
  · by_cases h : i < 0
    · simp [h, SignOK]
    · simp [h, SignOK]
  · unfold IntTy.denotes
    rw [digitsVal_showNat]
    cases hsg : ty.signed with
    | true =>
      simp only [if_true]
      refine ⟨?_, hlo, hhi⟩
      by_cases h : i < 0
      · simp only [h, if_true]; omega
      · simp only [h, if_false]
        have : ¬ ([] : Str) = ['-'] := by simp
        simp only [this, if_false]; omega
    | false =>
      have h0 : (0 : Int) ≤ i := by
        have : ty.lo = 0 := by simp [IntTy.lo, hsg]
        omega
      have h : ¬ i < 0 := by omega
      have hn : ¬ ([] : Str) = ['-'] := by simp
      simp only [Bool.false_eq_true, if_false, h, hn]
      constructor <;> omega

/-! ### fixed-size ranges -/

/-- fixed-size ranges: exactly `n` literals, then only blanks -/
inductive IntItems (ty : IntTy) : Str → List Int → Prop
  | nil {post : Str} : AllSpace post → IntItems ty post []
  | cons {pre sign digs rest : Str} {v : Int} {vs : List Int} :
      AllSpace pre → SignOK sign → digs ≠ [] → AllDig digs → NoDigHead rest → ty.denotes sign digs v →
      IntItems ty rest vs → IntItems ty (pre ++ sign ++ digs ++ rest) (v :: vs)

theorem parseRange_succ_eq_some {α} (ex : Str → Option (α × Str)) (n : Nat) (s : Str) (vs : List α) :
    parseRange ex (n + 1) s = some vs ↔
      ∃ v rest vs', ex s = some (v, rest) ∧ parseRange ex n rest = some vs' ∧ vs = v :: vs' := by
  cases h : ex s with
  | none => simp [parseRange, h]
  | some p =>
    obtain ⟨w, rest⟩ := p
    cases h2 : parseRange ex n rest with
    | none =>
      simp only [parseRange, h, h2, Option.some.injEq, Prod.mk.injEq]
      constructor
      · intro h; cases h
      · rintro ⟨_, _, _, ⟨_, rfl⟩, h3, _⟩; rw [h2] at h3; cases h3
    | some ws =>
      simp only [parseRange, h, h2, Option.some.injEq, Prod.mk.injEq]
      constructor
      · rintro rfl; exact ⟨w, rest, ws, ⟨rfl, rfl⟩, h2, rfl⟩
      · rintro ⟨_, _, _, ⟨rfl, rfl⟩, h3, rfl⟩
        rw [h2] at h3
        cases h3
        rfl

/-- anything but blanks after the last item is an error (this is the repaired over-long check) -/
theorem parseRange_trailing {α} (ex : Str → Option (α × Str)) (s : Str) :
    parseRange ex 0 s = some [] ↔ AllSpace s := by
  rw [parseRange, ← skipWs_eq_nil_iff]
  by_cases h : skipWs s = [] <;> simp [h]

theorem parseRange_zero_eq_some {α} (ex : Str → Option (α × Str)) (s : Str) (vs : List α) :
    parseRange ex 0 s = some vs ↔ vs = [] ∧ AllSpace s := by
  rw [parseRange, ← skipWs_eq_nil_iff]
  by_cases h : skipWs s = []
  · simp [h, eq_comm]
  · simp [h]

/-- a converted range never has the wrong number of items -/
theorem parseRange_length {α} (ex : Str → Option (α × Str)) (n : Nat) (s : Str) (vs : List α)
    (h : parseRange ex n s = some vs) : vs.length = n := by
  induction n generalizing s vs with
  | zero =>
    rw [parseRange_zero_eq_some] at h
    simp [h.1]
  | succ n ih =>
    rw [parseRange_succ_eq_some] at h
    obtain ⟨v, rest, vs', _, h2, rfl⟩ := h
    simp [ih rest vs' h2]

theorem parseRange_int_iff (ty : IntTy) (n : Nat) (s : Str) (vs : List Int) :
    parseRange (extractInt ty) n s = some vs ↔ vs.length = n ∧ IntItems ty s vs := by
  induction n generalizing s vs with
  | zero =>
    rw [parseRange_zero_eq_some]
    constructor
    · rintro ⟨rfl, h⟩; exact ⟨rfl, IntItems.nil h⟩
    · rintro ⟨hl, h⟩
      cases h with
      | nil h => exact ⟨rfl, h⟩
      | cons => simp at hl
  | succ n ih =>
    rw [parseRange_succ_eq_some]
    constructor
    · rintro ⟨v, rest, vs', h1, h2, rfl⟩
      obtain ⟨hl, hi⟩ := (ih rest vs').mp h2
      obtain ⟨pre, sign, digs, rfl, hpre, hsign, hne, hdig, hrest, hden⟩ := (extractInt_iff ty s rest v).mp h1
      exact ⟨by simp [hl], IntItems.cons hpre hsign hne hdig hrest hden hi⟩
    · rintro ⟨hl, h⟩
      cases h with
      | nil h => simp at hl
      | @cons pre sign digs rest v vs' hpre hsign hne hdig hrest hden hi =>
        refine ⟨v, rest, vs', ?_, ?_, rfl⟩
        · exact (extractInt_iff ty _ rest v).mpr ⟨pre, sign, digs, rfl, hpre, hsign, hne, hdig, hrest, hden⟩
        · exact (ih rest vs').mpr ⟨by simpa using hl, hi⟩

/-! ### bool -/

theorem bool_words_cases (s : Str) :
    ((s.map toLowerC = "yes".toList ∨ s.map toLowerC = "true".toList) → parseBool s = some true) ∧
    ((s.map toLowerC = "no".toList ∨ s.map toLowerC = "false".toList) → parseBool s = some false) ∧
    ((s.map toLowerC ≠ "yes".toList ∧ s.map toLowerC ≠ "true".toList ∧ s.map toLowerC ≠ "no".toList ∧
       s.map toLowerC ≠ "false".toList) → parseBool s = (parseInt tInt (s.map toLowerC)).map (· != 0)) := by
  refine ⟨?_, ?_, ?_⟩
  · intro h
    unfold parseBool
    rcases h with h | h <;> simp [h]
  · intro h
    unfold parseBool
    rcases h with h | h <;> rw [h] <;> simp
  · rintro ⟨h1, h2, h3, h4⟩
    simp only [parseBool, h1, h2, h3, h4, decide_false, Bool.or_false, Bool.false_eq_true, if_false]

theorem toLowerC_of_isDig {c : Char} (h : isDig c = true) : toLowerC c = c := by
  simp [isDig] at h
  unfold toLowerC
  have : ¬ (65 ≤ c.toNat ∧ c.toNat ≤ 90) := by omega
  simp [this]

theorem toLowerC_minus : toLowerC '-' = '-' := by decide

theorem showInt_mem {i : Int} {c : Char} (h : c ∈ showInt i) : c = '-' ∨ isDig c = true := by
  rw [showInt_eq] at h
  simp only [List.mem_append] at h
  rcases h with h | h
  · by_cases hi : i < 0
    · simp [hi] at h; exact Or.inl h
    · simp [hi] at h
  · exact Or.inr (showNat_allDig _ c h)

theorem map_toLowerC_showInt (i : Int) : (showInt i).map toLowerC = showInt i := by
  have : ∀ (l : Str), (∀ c ∈ l, c = '-' ∨ isDig c = true) → l.map toLowerC = l := by
    intro l
    induction l with
    | nil => intro _; rfl
    | cons x xs ih =>
      intro h
      have hx : toLowerC x = x := by
        rcases h x List.mem_cons_self with rfl | hx
        · exact toLowerC_minus
        · exact toLowerC_of_isDig hx
      simp only [List.map_cons, hx, ih (fun c hc => h c (List.mem_cons_of_mem _ hc))]
  exact this _ (fun c hc => showInt_mem hc)

theorem showInt_ne_word {i : Int} {w : Str} {c : Char} (hc : c ∈ w) (h1 : c ≠ '-') (h2 : isDig c = false) :
    showInt i ≠ w := by
  intro e
  rw [← e] at hc
  rcases showInt_mem hc with h | h
  · exact h1 h
  · rw [h2] at h; cases h

/-- numerals as booleans: non-zero = true -/
theorem bool_numeral (i : Int) (hlo : tInt.lo ≤ i) (hhi : i ≤ tInt.hi) : parseBool (showInt i) = some (i != 0) := by
  have h := (bool_words_cases (showInt i)).2.2
  rw [map_toLowerC_showInt] at h
  have hy : showInt i ≠ "yes".toList := showInt_ne_word (c := 'y') (by decide) (by decide) (by decide)
  have ht : showInt i ≠ "true".toList := showInt_ne_word (c := 't') (by decide) (by decide) (by decide)
  have hn : showInt i ≠ "no".toList := showInt_ne_word (c := 'n') (by decide) (by decide) (by decide)
  have hf : showInt i ≠ "false".toList := showInt_ne_word (c := 'f') (by decide) (by decide) (by decide)
  rw [h ⟨hy, ht, hn, hf⟩]
  have := roundtrip_int tInt i hlo hhi [] [] allSpace_nil allSpace_nil
  simp only [List.nil_append, List.append_nil] at this
  rw [this]
  rfl

/-! ### vector, bitset -/

/-- pointwise relation of two lists (core Lean has no `List.Forall₂`) -/
inductive Forall₂ {α β} (R : α → β → Prop) : List α → List β → Prop
  | nil : Forall₂ R [] []
  | cons {a b l₁ l₂} : R a b → Forall₂ R l₁ l₂ → Forall₂ R (a :: l₁) (b :: l₂)

theorem Forall₂.length_eq {α β} {R : α → β → Prop} {l₁ : List α} {l₂ : List β} (h : Forall₂ R l₁ l₂) :
    l₁.length = l₂.length := by
  induction h with
  | nil => rfl
  | cons _ _ ih => simp [ih]

theorem mapM_option_iff {α β} (p : α → Option β) :
    ∀ (l : List α) (vs : List β), l.mapM p = some vs ↔ Forall₂ (fun a b => p a = some b) l vs
  | [], vs => by
    rw [List.mapM_nil]
    constructor
    · intro h
      cases h
      exact Forall₂.nil
    · intro h
      cases h
      rfl
  | a :: l, vs => by
    rw [List.mapM_cons]
    cases hp : p a with
    | none =>
      constructor
      · intro h; cases h
      · intro h
        cases h with
        | cons h1 _ => rw [hp] at h1; cases h1
    | some b =>
      cases hl : l.mapM p with
      | none =>
        constructor
        · intro h; cases h
        · intro h
          cases h with
          | cons _ h2 =>
            have := (mapM_option_iff p l _).mpr h2
            rw [hl] at this
            cases this
      | some bs =>
        have ih := (mapM_option_iff p l bs).mp hl
        constructor
        · intro h
          cases h
          exact Forall₂.cons hp ih
        · intro h
          cases h with
          | cons h1 h2 =>
            have h3 := (mapM_option_iff p l _).mpr h2
            rw [hp] at h1
            rw [hl] at h3
            cases h1
            cases h3
            rfl

theorem parseVector_iff {α} (p : Str → Option α) (s : Str) (vs : List α) :
    parseVector p s = some vs ↔ Forall₂ (fun tok v => p tok = some v) (splitWs s) vs := by
  unfold parseVector
  exact mapM_option_iff p (splitWs s) vs

theorem parseBitset_length (n : Nat) (s : Str) (bs : List Bool) (h : parseBitset n s = some bs) :
    bs.length = n ∧ (splitWs s).length = n := by
  unfold parseBitset at h
  by_cases hn : (splitWs s).length = n
  · simp only [hn, bne_self_eq_false, Bool.false_eq_true, if_false] at h
    have := ((mapM_option_iff parseBool (splitWs s) bs).mp h).length_eq
    exact ⟨by omega, hn⟩
  · simp [hn] at h

/-! ### non-vacuity -/

example : parseInt ⟨true, 32⟩ " -12 ".toList = some (-12) := by decide
example : parseInt ⟨true, 32⟩ "12x".toList = none := by decide
example : parseInt ⟨false, 8⟩ "-1".toList = some 255 := by decide
example : parseInt ⟨false, 8⟩ "256".toList = none := by decide
example : parseInt ⟨true, 8⟩ "-128".toList = some (-128) := by decide
example : parseInt ⟨true, 8⟩ "128".toList = none := by decide
example : parseRange (extractInt ⟨true, 32⟩) 2 "1 2 -".toList = none := by decide
example : parseRange (extractInt ⟨true, 32⟩) 2 "1 2 ".toList = some [1, 2] := by decide
example : parseRange (extractInt ⟨true, 32⟩) 2 "1 2 3".toList = none := by decide
example : parseRange (extractInt ⟨true, 32⟩) 2 "1".toList = none := by decide
example : parseBool "YES".toList = some true := by decide
example : parseBool "False".toList = some false := by decide
example : parseBool "2".toList = some true := by decide
example : parseBool "0".toList = some false := by decide
example : parseBool "maybe".toList = none := by decide
example : parseVector (parseInt tInt) "1  2\t3".toList = some [1, 2, 3] := by decide
example : parseBitset 3 "1 0 yes".toList = some [true, false, true] := by decide
example : parseBitset 3 "1 0".toList = none := by decide

end DV.C12
