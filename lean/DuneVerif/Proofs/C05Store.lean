import DuneVerif.Proofs.C05Swap
/-!
C05 helper lemmas, part 6: what a list of scatter calls does to a container under the copy and the add policy,
the tagged form of the expected calls (exactly once), posted receives of the swapped communicator.
-/
namespace DV.C05

/-- copy policy on a container with read-after-write semantics -/
structure CopyStore {Val Data} (gather : Data → Nat → Nat → Val) (scatter : Data → Val → Nat → Nat → Data) : Prop where
  get_set : ∀ d v l j l' j', gather (scatter d v l j) l' j' = if l' = l ∧ j' = j then v else gather d l' j'

/-- accumulating policy -/
structure AddStore {Val Data} (add : Val → Val → Val) (gather : Data → Nat → Nat → Val)
    (scatter : Data → Val → Nat → Nat → Data) : Prop where
  get_set : ∀ d v l j l' j', gather (scatter d v l j) l' j' =
    if l' = l ∧ j' = j then add (gather d l j) v else gather d l' j'

theorem applyCalls_cons {Val Data} (scatter : Data → Val → Nat → Nat → Data) (d : Data) (c) (cs : List (Val × Nat × Nat)) :
    applyCalls scatter d (c :: cs) = applyCalls scatter (scatter d c.1 c.2.1 c.2.2) cs := rfl

theorem applyCalls_copy_other {Val Data} {gather : Data → Nat → Nat → Val} {scatter} (h : CopyStore gather scatter) :
    ∀ (calls : List (Val × Nat × Nat)) (d : Data) (l j : Nat), (l, j) ∉ calls.map (·.2) →
      gather (applyCalls scatter d calls) l j = gather d l j
  | [], _, _, _, _ => rfl
  | c :: cs, d, l, j, hn => by
    simp only [List.map_cons, List.mem_cons, not_or] at hn
    rw [applyCalls_cons, applyCalls_copy_other h cs _ l j hn.2, h.get_set]
    have : ¬ (l = c.2.1 ∧ j = c.2.2) := fun hh => hn.1 (by rw [hh.1, hh.2])
    simp [this]

theorem applyCalls_copy_mem {Val Data} {gather : Data → Nat → Nat → Val} {scatter} (h : CopyStore gather scatter) :
    ∀ (calls : List (Val × Nat × Nat)) (d : Data), (calls.map (·.2)).Nodup → ∀ c ∈ calls,
      gather (applyCalls scatter d calls) c.2.1 c.2.2 = c.1
  | [], _, _, c, hc => by cases hc
  | c0 :: cs, d, hnd, c, hc => by
    simp only [List.map_cons, List.nodup_cons] at hnd
    rw [applyCalls_cons]
    rw [List.mem_cons] at hc
    rcases hc with rfl | hc
    · rw [applyCalls_copy_other h cs _ _ _ hnd.1, h.get_set]; simp
    · exact applyCalls_copy_mem h cs _ hnd.2 c hc

theorem applyCalls_add {Val Data} {add} {gather : Data → Nat → Nat → Val} {scatter} (h : AddStore add gather scatter) :
    ∀ (calls : List (Val × Nat × Nat)) (d : Data) (l j : Nat),
      gather (applyCalls scatter d calls) l j =
        ((calls.filter fun c => c.2 == (l, j)).map (·.1)).foldl add (gather d l j)
  | [], _, _, _ => rfl
  | c :: cs, d, l, j => by
    rw [applyCalls_cons, applyCalls_add h cs, h.get_set, List.filter_cons]
    by_cases hc : c.2 = (l, j)
    · have hl : c.2.1 = l := by rw [hc]
      have hj : c.2.2 = j := by rw [hc]
      have h1 : l = c.2.1 ∧ j = c.2.2 := ⟨hl.symm, hj.symm⟩
      have h2 : (c.2 == (l, j)) = true := by simp [hc]
      rw [if_pos h1, if_pos h2, List.map_cons, List.foldl_cons, hl, hj]
    · have h1 : ¬ (l = c.2.1 ∧ j = c.2.2) := fun hh => hc (by rw [hh.1, hh.2])
      have h2 : ¬ (c.2 == (l, j)) = true := by simp [hc]
      rw [if_neg h1, if_neg h2]

theorem foldl_add_perm {Val} {add : Val → Val → Val} (comm : ∀ a b, add a b = add b a) (assoc : ∀ a b c, add (add a b) c = add a (add b c))
    {l1 l2 : List Val} (hp : l1.Perm l2) (z : Val) : l1.foldl add z = l2.foldl add z := by
  apply List.Perm.foldl_eq' hp
  intro x _ y _ z
  rw [assoc, assoc, comm x y]

/-! ### exactly once: the expected calls carry distinct tags (sender, global index, component) -/

def pairExpectedTagged {Val} (blk : Int → Nat) (gat : Nat → Nat → Val) (p : Nat) (se re : List RIdx) :
    List ((Nat × Int × Nat) × (Val × Nat × Nat)) :=
  (se.zip re).flatMap fun xy => (List.range (blk xy.1.g)).map fun j => ((p, xy.1.g, j), (gat xy.1.l j, xy.2.l, j))

theorem pairExpectedTagged_snd {Val} (blk : Int → Nat) (gat : Nat → Nat → Val) (p : Nat) (se re : List RIdx) :
    (pairExpectedTagged blk gat p se re).map (·.2) = pairExpected blk gat se re := by
  simp only [pairExpectedTagged, pairExpected, List.map_flatMap, List.map_map]
  rfl

theorem pairwise_zip_left {α β} {R : α → α → Prop} : ∀ (l1 : List α) (l2 : List β), l1.Pairwise R →
    (l1.zip l2).Pairwise fun a b => R a.1 b.1
  | [], _, _ => by simp
  | _ :: _, [], _ => by simp
  | a :: l1, b :: l2, h => by
    rw [List.pairwise_cons] at h
    simp only [List.zip_cons_cons, List.pairwise_cons]
    refine ⟨?_, pairwise_zip_left l1 l2 h.2⟩
    intro x hx
    exact h.1 x.1 (List.of_mem_zip (a := x.1) (b := x.2) hx).1

theorem tagged_nodup {Val} (blk : Int → Nat) (gat : Nat → Nat → Nat → Val) (P : Nat) (se re : Nat → List RIdx)
    (hs : ∀ p, ((se p).map (·.g)).Pairwise (· < ·)) :
    (((List.range P).flatMap fun p => pairExpectedTagged blk (gat p) p (se p) (re p)).map (·.1)).Nodup := by
  rw [List.map_flatMap, List.nodup_iff_pairwise_ne, List.pairwise_flatMap]
  constructor
  · intro p _
    simp only [pairExpectedTagged, List.map_flatMap, List.map_map, List.pairwise_flatMap]
    constructor
    · intro xy _
      rw [List.pairwise_map]
      apply List.Pairwise.imp _ List.pairwise_lt_range
      intro a b hab h
      simp only [Function.comp, Prod.mk.injEq] at h
      omega
    · have := pairwise_zip_left (se p) (re p) (List.pairwise_map.mp (hs p))
      apply List.Pairwise.imp _ this
      intro a b hab x hx y hy
      simp only [List.mem_map, Function.comp] at hx hy
      obtain ⟨_, _, rfl⟩ := hx
      obtain ⟨_, _, rfl⟩ := hy
      intro h
      simp only [Prod.mk.injEq] at h
      omega
  · apply List.Pairwise.imp _ List.pairwise_lt_range
    intro a b hab x hx y hy
    simp only [pairExpectedTagged, List.map_flatMap, List.map_map, List.mem_flatMap, List.mem_map, Function.comp] at hx hy
    obtain ⟨_, _, _, _, rfl⟩ := hx
    obtain ⟨_, _, _, _, rfl⟩ := hy
    intro h
    simp only [Prod.mk.injEq] at h
    omega

/-! ### containers -/

theorem Cont.get_set {Data} (c : Cont Data) (k : Bool) (d : Data) : (c.set k d).get k = d := by
  simp only [Cont.set, Cont.get]
  split <;> rename_i h <;> simp_all

/-! ### posted receives in a backward communication -/

theorem Comm.swap_postedRecvs (c : Comm) : c.swap.postedRecvs true = c.postedRecvs false := by
  simp only [Comm.postedRecvs, Comm.swap, List.filter_map, List.map_map, recvMsgInfo, if_true, Bool.false_eq_true, if_false]
  rfl

theorem Comm.swap_postedSends (c : Comm) : c.swap.postedSends true = c.postedSends false := by
  simp only [Comm.postedSends, Comm.swap, List.filter_map, List.map_map, sendMsgInfo, if_true, Bool.false_eq_true, if_false]
  rfl

end DV.C05
