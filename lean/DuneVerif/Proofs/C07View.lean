import DuneVerif.Proofs.C07Ext
/-! helper lemmas for the container views of the MPIData-based reductions: with a functor that acts cell by cell the
result of `MPI_Allreduce` does not depend on how the cells are grouped into elements -/
namespace DV.C07.Proofs
open DV.C07

/-- one step of the cell-wise fold -/
def cellStep {α} (f : α → α → α) (a y : Option α) : Option α :=
  match a, y with
  | some a, some b => some (f a b)
  | _, _ => none

theorem foldCells_cons {α} (f : α → α → α) (x : Option α) (xs : List (Option α)) :
    Spec.foldCells f (x :: xs) = xs.foldl (cellStep f) x := rfl

theorem foldl_zipWith_getElem? {α} (f : α → α → α) (xs : List (List α)) :
    ∀ (x : List α) (i : Nat), (xs.foldl (List.zipWith f) x)[i]? = (xs.map (·[i]?)).foldl (cellStep f) x[i]? := by
  induction xs with
  | nil => intro x i; rfl
  | cons y ys ih =>
    intro x i
    simp only [List.foldl_cons, List.map_cons]
    rw [ih]
    congr 1
    rw [List.getElem?_zipWith]
    unfold cellStep
    cases x[i]? <;> cases y[i]? <;> rfl

theorem flatMap_getElem?_const {β} (n e : Nat) (g : Nat → List β) (h : ∀ j, j < n → (g j).length = e) (j i : Nat)
    (hj : j < n) (hi : i < e) : ((List.range n).flatMap g)[j * e + i]? = (g j)[i]? := by
  induction n with
  | zero => omega
  | succ n ih =>
    rw [List.range_succ, List.flatMap_append]
    have hlen := flatMap_length_const n e g (fun k hk => h k (by omega))
    simp only [List.flatMap_cons, List.flatMap_nil, List.append_nil]
    by_cases hjn : j < n
    · have hlt : j * e + i < ((List.range n).flatMap g).length := by
        rw [hlen]
        have : (j + 1) * e ≤ n * e := Nat.mul_le_mul_right e hjn
        rw [Nat.add_mul, Nat.one_mul] at this
        omega
      rw [List.getElem?_append_left hlt]
      exact ih (fun k hk => h k (by omega)) hjn
    · have hjeq : j = n := by omega
      subst hjeq
      rw [List.getElem?_append_right (by rw [hlen]; omega), hlen]
      congr 1
      omega

theorem elem_getElem? {α} (e j i : Nat) (buf : List α) (hi : i < e) : (Spec.elem e j buf)[i]? = buf[j * e + i]? := by
  unfold Spec.elem
  rw [List.getElem?_take, if_pos hi, List.getElem?_drop]

theorem zipWith_length_eq {α} (f : α → α → α) (e : Nat) (a b : List α) (ha : a.length = e) (hb : b.length = e) :
    (List.zipWith f a b).length = e := by
  rw [List.length_zipWith, ha, hb, Nat.min_self]

/-- with a cell-wise functor, cell `j*e+i` of the reduction is the rank-order fold of that cell -/
theorem allreduceVal_cell {α} (f : α → α → α) (e n : Nat) (ins : List (List α)) (hne : ins ≠ [])
    (hl : ∀ x ∈ ins, x.length = n * e) (j i : Nat) (hj : j < n) (hi : i < e) :
    (Spec.allreduceVal e n (List.zipWith f) ins)[j * e + i]? = Spec.foldCells f (ins.map (·[j * e + i]?)) := by
  unfold Spec.allreduceVal
  rw [flatMap_getElem?_const n e _ _ j i hj hi]
  · cases ins with
    | nil => exact absurd rfl hne
    | cons x rest =>
      simp only [List.map_cons, Spec.foldRanks, Option.getD_some, foldCells_cons]
      rw [foldl_zipWith_getElem?, elem_getElem? e j i x hi, List.map_map]
      congr 1
      apply List.map_congr_left
      intro y _
      exact elem_getElem? e j i y hi
  · intro k hk
    apply foldRanks_length e (List.zipWith f) (zipWith_length_eq f e)
    · intro x hx
      simp only [List.mem_map] at hx
      obtain ⟨y, hy, rfl⟩ := hx
      exact elem_length e k n y hk (hl y hy)
    · intro h
      exact hne (List.map_eq_nil_iff.mp h)

/-- … hence the grouping of the cells into elements is irrelevant: `n` elements of `e` cells reduce like `n*e`
one-cell elements -/
theorem allreduceVal_view {α} (f : α → α → α) (e n : Nat) (ins : List (List α)) (hne : ins ≠ [])
    (hl : ∀ x ∈ ins, x.length = n * e) :
    Spec.allreduceVal e n (List.zipWith f) ins = Spec.allreduceVal 1 (n * e) (List.zipWith f) ins := by
  have hl1 : ∀ x ∈ ins, x.length = n * e * 1 := fun x hx => by rw [Nat.mul_one]; exact hl x hx
  have hlenL := allreduceVal_length e n (List.zipWith f) (zipWith_length_eq f e) ins hne hl
  have hlenR := allreduceVal_length 1 (n * e) (List.zipWith f) (zipWith_length_eq f 1) ins hne hl1
  apply List.ext_getElem?
  intro c
  by_cases hc : c < n * e
  · have he : 0 < e := by
      cases e with
      | zero => simp at hc
      | succ k => omega
    have hdm : c / e * e + c % e = c := by rw [Nat.mul_comm]; exact Nat.div_add_mod c e
    have hj : c / e < n := by
      apply (Nat.div_lt_iff_lt_mul he).mpr
      exact hc
    have hi : c % e < e := Nat.mod_lt c he
    have h1 := allreduceVal_cell f e n ins hne hl (c / e) (c % e) hj hi
    have h2 := allreduceVal_cell f 1 (n * e) ins hne hl1 c 0 hc (by omega)
    rw [hdm] at h1
    rw [Nat.mul_one, Nat.add_zero] at h2
    rw [h1, h2]
  · rw [List.getElem?_eq_none (by omega), List.getElem?_eq_none (by omega)]

end DV.C07.Proofs
