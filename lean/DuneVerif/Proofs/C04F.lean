import DuneVerif.Proofs.C04
import DuneVerif.Model.C04F
/-!
Refinement lemmas: the faithful layer `DV.C04.F` (buffer cursor, entry counts, ring state machine, network-level
neighbour exchange, generated decisions `DV.C04.Gen`) against the per-rank model `DV.C04` (core Lean only).

Part 1: the generated decisions are the ones the per-rank model uses.
Part 2: merge-joins with cursor / count.
Part 3: messages and `unpackCreateRemote`.
Part 4: ring arithmetic and the ring state machine.
-/
namespace DV.C04.F
open DV.C04

/-! ## Part 1 -/

theorem published_eq (ign : Bool) (s : List Pair) : published ign s = C04.published ign s := rfl

theorem bne_cast (a b : Nat) : ((a : Int) != (b : Int)) = (a != b) := by
  rw [Bool.eq_iff_iff]
  simp [bne_iff_ne, Int.ofNat_inj]

theorem keepPair_eq (fs : Bool) (a b : Nat) : Gen.keepPair fs (a : Int) (b : Int) = (!fs || a != b) := by
  unfold Gen.keepPair
  rw [bne_cast]

theorem rewindTest_eq (r r' : Wire) (rs : List Wire) : Gen.rewindTest r'.g r.g = rewinds r (r' :: rs) := rfl

theorem takeSame_eq (fs : Bool) (r : Wire) : ∀ loc : List Pair, takeSame fs r loc = C04.takeSame fs r loc
  | [] => rfl
  | p :: ps => by
    unfold takeSame C04.takeSame
    rw [takeSame_eq fs r ps, keepPair_eq]

/-! ## Part 2 -/

/-- the cursor loop against the list version: same remote indices, and what is left of the buffer after the
    trailing unpack loop is the buffer without the `k` entries that had not been read at the start -/
theorem unpackGo_eq (fs : Bool) : ∀ (k : Nat) (r : Wire) (rest : List Wire) (loc : List Pair), k ≤ rest.length →
    (unpackGo fs k r rest loc).1 = unpackLoop fs (r :: rest.take k) loc ∧
    (unpackGo fs k r rest loc).2.2.drop (unpackGo fs k r rest loc).2.1 = rest.drop k
  | 0, r, rest, loc, _ => by
    unfold unpackGo unpackLoop
    simp only [List.take_zero, List.drop_zero]
    cases loc.dropWhile (fun p => decide (p.g < r.g)) with
    | nil => exact ⟨rfl, rfl⟩
    | cons p ps =>
      by_cases hp : p.g = r.g
      · simp only [hp, if_true, takeSame_eq]
        simp [unpackLoop]
      · simp only [hp, if_false]
        simp [unpackLoop]
  | k + 1, r, [], loc, h => by simp at h
  | k + 1, r, r' :: rest', loc, h => by
    have hk : k ≤ rest'.length := by simpa using h
    unfold unpackGo unpackLoop
    simp only [List.take_succ_cons, List.drop_succ_cons]
    cases hl : loc.dropWhile (fun p => decide (p.g < r.g)) with
    | nil => exact ⟨rfl, rfl⟩
    | cons p ps =>
      by_cases hp : p.g = r.g
      · simp only [hp, if_true]
        have ih := unpackGo_eq fs k r' rest' (if Gen.rewindTest r'.g r.g = true then p :: ps else (takeSame fs r (p :: ps)).2) hk
        rw [rewindTest_eq r r' (rest'.take k), takeSame_eq] at ih
        rw [rewindTest_eq r r' (rest'.take k), takeSame_eq]
        exact ⟨congrArg _ ih.1, ih.2⟩
      · simp only [hp, if_false]
        exact unpackGo_eq fs k r' rest' (p :: ps) hk

/-- the faithful single-list `unpackIndices` is the per-rank model's (for a buffer that holds the announced entries) -/
theorem unpackIndices_eq' (fs : Bool) (buf : List Wire) (n : Nat) (loc : List Pair) (h : n ≤ buf.length) :
    unpackIndices fs buf n loc = C04.unpackIndices fs buf n loc := by
  unfold unpackIndices C04.unpackIndices
  by_cases h0 : n = 0
  · simp [h0]
  · rw [if_neg h0, if_neg h0]
    cases buf with
    | nil => simp at h; exact absurd h h0
    | cons r rest =>
      have hk : n - 1 ≤ rest.length := by simp at h; omega
      have := unpackGo_eq fs (n - 1) r rest loc hk
      obtain ⟨m, rfl⟩ : ∃ m, n = m + 1 := ⟨n - 1, by omega⟩
      simp only [Nat.add_sub_cancel] at this ⊢
      simp only [List.take_succ_cons, List.drop_succ_cons]
      rw [this.1, this.2]

theorem unpackBoth_eq : ∀ (k : Nat) (buf : List Wire) (ls ld : List Pair),
    unpackBoth k buf ls ld = C04.unpackBoth (buf.take k) ls ld
  | 0, buf, ls, ld => by
    unfold unpackBoth
    simp [C04.unpackBoth]
  | k + 1, [], ls, ld => by
    unfold unpackBoth
    simp [C04.unpackBoth]
  | k + 1, r :: rest, ls, ld => by
    unfold unpackBoth
    simp only [List.take_succ_cons]
    rw [C04.unpackBoth]
    simp only [unpackBoth_eq k rest]

/-! ## Part 3 -/

theorem unpack_consumes_all' (fs : Bool) (buf : List Wire) (n : Nat) (loc : List Pair) :
    (C04.unpackIndices fs buf n loc).2 = buf.drop n := by
  unfold C04.unpackIndices
  split
  · rename_i h; simp [h]
  · rfl

theorem sendTwo_eq (b : Bool) : Gen.sendTwo (!b) = b := by cases b <;> rfl

theorem mkMsg_eq (ign : Bool) (d : RankData) : mkMsg (mkLocal ign d) = C04.mkMsg ign d := by
  unfold mkMsg mkLocal C04.mkMsg
  simp only [sendTwo_eq, published_eq]
  cases d.two <;> simp [wire, Gen.destPublishSent]

theorem mkLocal_sendTwo (ign : Bool) (d : RankData) : (mkLocal ign d).sendTwo = d.two := sendTwo_eq d.two

theorem mkLocal_src (ign : Bool) (d : RankData) :
    (mkLocal ign d).srcArr.take (mkLocal ign d).sourcePublish = d.srcPairs ign := by
  simp [mkLocal, RankData.srcPairs, published_eq]

theorem mkLocal_dst_two (ign : Bool) (d : RankData) (h : d.two = true) :
    (mkLocal ign d).dstArr.take (mkLocal ign d).destPublish = d.dstPairs ign := by
  simp [mkLocal, RankData.dstPairs, RankData.tgtOf, published_eq, Gen.sendTwo, h]

theorem mkLocal_dstEntries (ign : Bool) (d : RankData) :
    (mkLocal ign d).dstArr.take
      (Gen.destEntries (mkLocal ign d).sendTwo (mkLocal ign d).destPublish (mkLocal ign d).sourcePublish).toNat
      = d.dstPairs ign := by
  unfold Gen.destEntries
  cases h : d.two <;> simp [mkLocal, RankData.dstPairs, RankData.tgtOf, published_eq, Gen.sendTwo, h]

/-- the faithful `unpackCreateRemote` on the message of `other`, with the local data of `me` -/
theorem unpackCreateRemote_eq (ign : Bool) (me other : RankData) (fs : Bool) :
    unpackCreateRemote (mkMsg (mkLocal ign other)) (mkLocal ign me) fs =
      C04.unpackCreateRemote (C04.mkMsg ign other) (me.srcPairs ign) (me.dstPairs ign) me.two fs := by
  unfold unpackCreateRemote C04.unpackCreateRemote
  rw [mkMsg_eq, mkLocal_src, mkLocal_dstEntries, mkLocal_sendTwo]
  have hlen : (C04.mkMsg ign other).ents.length = (C04.mkMsg ign other).nS + (C04.mkMsg ign other).nT := by
    simp [C04.mkMsg, wire]
  have h1 : (C04.mkMsg ign other).nS ≤ (C04.mkMsg ign other).ents.length := by omega
  simp only [Gen.oneSetReceived, Gen.dropEntry]
  cases hot : (C04.mkMsg ign other).two with
  | false =>
    simp only [Bool.not_false, if_true]
    cases hm : me.two with
    | false =>
      simp only [Bool.false_eq_true, if_false]
      rw [unpackIndices_eq' fs _ _ _ h1]
    | true =>
      simp only [if_true]
      rw [unpackBoth_eq, mkLocal_dst_two ign me hm]
  | true =>
    simp only [Bool.not_true, Bool.false_eq_true, if_false]
    rw [unpackIndices_eq' fs _ _ _ h1]
    have h2 : (C04.mkMsg ign other).nT ≤
        (C04.unpackIndices fs (C04.mkMsg ign other).ents (C04.mkMsg ign other).nS (me.dstPairs ign)).2.length := by
      rw [unpack_consumes_all']
      simp only [List.length_drop]
      omega
    rw [unpackIndices_eq' fs _ _ _ h2]

/-! ## Part 4: the ring -/

theorem tmod_cast (a b : Nat) : Int.tmod (a : Int) (b : Int) = ((a % b : Nat) : Int) := (Int.ofNat_tmod a b).symm

theorem ringRecvFrom_eq {p P : Nat} (hP : 0 < P) : (Gen.ringRecvFrom p P).toNat = (p + P - 1) % P := by
  unfold Gen.ringRecvFrom
  have : ((p : Int) + (P : Int) - 1) = ((p + P - 1 : Nat) : Int) := by omega
  rw [this, tmod_cast, Int.toNat_natCast]

theorem ringSendTo_eq (p P : Nat) : (Gen.ringSendTo p P).toNat = (p + 1) % P := by
  unfold Gen.ringSendTo
  have : ((p : Int) + 1) = ((p + 1 : Nat) : Int) := by omega
  rw [this, tmod_cast, Int.toNat_natCast]

theorem ringOrigin_eq {p P k : Nat} (hk : k ≤ p + P) : (Gen.ringOrigin p P k).toNat = (p + P - k) % P := by
  unfold Gen.ringOrigin
  have : ((p : Int) + (P : Int) - (k : Int)) = ((p + P - k : Nat) : Int) := by omega
  rw [this, tmod_cast, Int.toNat_natCast]

theorem ringInBuf_eq (k : Nat) : Gen.ringInBuf (k : Int) = ((k % 2 : Nat) : Int) := by
  unfold Gen.ringInBuf
  exact tmod_cast k 2

theorem ringOutBuf_eq {k : Nat} (hk : 1 ≤ k) : Gen.ringOutBuf (k : Int) = Gen.ringInBuf ((k - 1 : Nat) : Int) := by
  rw [ringInBuf_eq]
  unfold Gen.ringOutBuf
  have : Int.tmod (k : Int) 2 = ((k % 2 : Nat) : Int) := tmod_cast k 2
  rw [this]
  omega

theorem Bufs.get_set (b : Bufs) (i : Int) (m : Msg) : (b.set i m).get i = m := by
  unfold Bufs.get Bufs.set
  by_cases h : (i == 0) = true <;> simp [h]

theorem getD_map_range {α : Type} (f : Nat → α) (d : α) {p P : Nat} (h : p < P) :
    ((List.range P).map f).getD p d = f p := by
  simp [List.getD_eq_getElem?_getD, List.getElem?_map, List.getElem?_range h]

theorem ring_mod_step {p P k : Nat} (hp : p < P) (hk : k + 1 ≤ P) :
    ((p + P - 1) % P + P - k) % P = (p + P - (k + 1)) % P := by
  by_cases h0 : p = 0
  · subst h0
    have e1 : (0 + P - 1) % P = P - 1 := by rw [Nat.zero_add]; exact Nat.mod_eq_of_lt (by omega)
    rw [e1]
    have e2 : P - 1 + P - k = (0 + P - (k + 1)) + P := by omega
    rw [e2, Nat.add_mod_right]
  · have e1 : (p + P - 1) % P = p - 1 := by
      have : p + P - 1 = (p - 1) + P := by omega
      rw [this, Nat.add_mod_right]
      exact Nat.mod_eq_of_lt (by omega)
    rw [e1]
    have e2 : p - 1 + P - k = p + P - (k + 1) := by omega
    rw [e2]

/-- after ring round `k` every rank holds in the buffer it received into the message of the rank `k` places before it -/
def Held (P : Nat) (msgs : List Msg) (k : Nat) (st : List Bufs) : Prop :=
  ∀ p, p < P → (st.getD p default).get (Gen.ringInBuf (k : Int)) = msgs.getD ((p + P - k) % P) default

theorem held_init (P : Nat) (msgs : List Msg) (hl : msgs.length = P) :
    Held P msgs 0 (msgs.map fun m => (⟨m, default⟩ : Bufs)) := by
  intro p hp
  have e : (p + P - 0) % P = p := by
    rw [Nat.sub_zero, Nat.add_mod_right]; exact Nat.mod_eq_of_lt hp
  have hp' : p < msgs.length := by omega
  rw [e]
  simp [List.getD_eq_getElem?_getD, List.getElem?_map, List.getElem?_eq_getElem hp', Bufs.get, Gen.ringInBuf]

theorem held_step {P : Nat} {msgs : List Msg} {k : Nat} {st : List Bufs} (hk : k + 1 ≤ P)
    (h : Held P msgs k st) : Held P msgs (k + 1) (ringRound P ((k + 1 : Nat) : Int) st) := by
  intro p hp
  have hP : 0 < P := by omega
  unfold ringRound
  rw [getD_map_range _ _ hp, Bufs.get_set, ringRecvFrom_eq hP, ringOutBuf_eq (by omega)]
  have hq : (p + P - 1) % P < P := Nat.mod_lt _ hP
  have := h _ hq
  simp only [Nat.add_sub_cancel] at this ⊢
  rw [this, ring_mod_step hp hk]

/-- the ring loop on all ranks: rank `p` ends up with what it gets by processing, in ring order, the *original*
    messages of the ranks `(p+P-k)%P` under exactly these labels -/
theorem ringLoop_spec (P : Nat) (locals : List Local) (msgs : List Msg) :
    ∀ (fuel j : Nat) (st : List Bufs) (maps : List RMap), 1 ≤ j → j ≤ P → P + 1 ≤ fuel + j → Held P msgs (j - 1) st →
    ∀ p, p < P → (ringLoop P locals fuel (j : Int) st maps).getD p [] =
      ((List.range' j (P - j)).map (fun k => (p + P - k) % P)).foldl
        (fun m q => m.add q (unpackCreateRemote (msgs.getD q default) (locals.getD p default) false)) (maps.getD p [])
  | 0, j, _, _, _, h2, h3, _ => by omega
  | fuel + 1, j, st, maps, h1, h2, h3, hh => by
    intro p hp
    unfold ringLoop
    by_cases hj : j < P
    · have hc : Gen.ringCont (j : Int) (P : Int) = true := by
        unfold Gen.ringCont
        simp only [decide_eq_true_eq]; omega
      rw [if_pos hc]
      have hcast : ((j : Int) + 1) = ((j + 1 : Nat) : Int) := by omega
      have hstep : Held P msgs j (ringRound P (j : Int) st) := by
        have := held_step (k := j - 1) (by omega) hh
        have e : j - 1 + 1 = j := by omega
        rw [e] at this
        exact this
      rw [hcast]
      have ih := ringLoop_spec P locals msgs fuel (j + 1) (ringRound P (j : Int) st)
        ((List.range P).map fun p =>
          (maps.getD p []).add (Gen.ringOrigin p P j).toNat
            (unpackCreateRemote (((ringRound P (j : Int) st).getD p default).get (Gen.ringInBuf j)) (locals.getD p default) false))
        (by omega) (by omega) (by omega) (by simpa using hstep) p hp
      rw [ih, getD_map_range _ _ hp, ringOrigin_eq (by omega), hstep p hp]
      have hr : List.range' j (P - j) = j :: List.range' (j + 1) (P - (j + 1)) := by
        have : P - j = (P - (j + 1)) + 1 := by omega
        rw [this, List.range'_succ]
      rw [hr, List.map_cons, List.foldl_cons]
    · have hc : Gen.ringCont (j : Int) (P : Int) = false := by
        unfold Gen.ringCont
        simp only [decide_eq_false_iff_not]; omega
      have : P - j = 0 := by omega
      simp [hc, this]

/-! ## Part 5: the neighbour network -/

theorem pairwise_insertSet (k : Nat) : ∀ l : List Nat, l.Pairwise (· < ·) → (insertSet k l).Pairwise (· < ·)
  | [], _ => by simp [insertSet]
  | x :: xs, h => by
    have hh := List.pairwise_cons.mp h
    unfold insertSet
    by_cases h1 : k < x
    · rw [if_pos h1]
      refine List.pairwise_cons.mpr ⟨?_, h⟩
      intro y hy
      rcases List.mem_cons.mp hy with e | e
      · subst e; exact h1
      · have := hh.1 y e; omega
    · rw [if_neg h1]
      by_cases h2 : k = x
      · rw [if_pos h2]; exact h
      · rw [if_neg h2]
        refine List.pairwise_cons.mpr ⟨?_, pairwise_insertSet k xs hh.2⟩
        intro y hy
        rcases (mem_insertSet k y xs).mp hy with e | e
        · subst e; omega
        · exact hh.1 y e

theorem pairwise_foldl_insertSet : ∀ (l acc : List Nat), acc.Pairwise (· < ·) →
    (l.foldl (fun s k => insertSet k s) acc).Pairwise (· < ·)
  | [], _, h => h
  | k :: ks, acc, h => by
    rw [List.foldl_cons]
    exact pairwise_foldl_insertSet ks _ (pairwise_insertSet k acc h)

theorem sorted_nbIds (d : RankData) (p : Nat) : (nbIds d p).Pairwise (· < ·) :=
  pairwise_foldl_insertSet _ [] List.Pairwise.nil

theorem sorted_senders (sys : System) (p : Nat) : (senders sys p).Pairwise (· < ·) :=
  List.Pairwise.sublist List.filter_sublist List.pairwise_lt_range

theorem sorted_ext : ∀ {l₁ l₂ : List Nat}, l₁.Pairwise (· < ·) → l₂.Pairwise (· < ·) →
    (∀ x, x ∈ l₁ ↔ x ∈ l₂) → l₁ = l₂
  | [], [], _, _, _ => rfl
  | [], y :: ys, _, _, h => by have := (h y).mpr (by simp); simp at this
  | x :: xs, [], _, _, h => by have := (h x).mp (by simp); simp at this
  | x :: xs, y :: ys, h1, h2, h => by
    have hh1 := List.pairwise_cons.mp h1
    have hh2 := List.pairwise_cons.mp h2
    have hxy : x = y := by
      have a := (h x).mp (by simp)
      have b := (h y).mpr (by simp)
      rcases List.mem_cons.mp a with e | e
      · exact e
      · rcases List.mem_cons.mp b with e' | e'
        · exact e'.symm
        · have := hh2.1 x e; have := hh1.1 y e'; omega
    subst hxy
    have : xs = ys := sorted_ext hh1.2 hh2.2 (fun z => by
      constructor
      · intro hz
        have := (h z).mp (by simp [hz])
        rcases List.mem_cons.mp this with e | e
        · subst e; have := hh1.1 z hz; omega
        · exact e
      · intro hz
        have := (h z).mpr (by simp [hz])
        rcases List.mem_cons.mp this with e | e
        · subst e; have := hh2.1 z hz; omega
        · exact e)
    rw [this]

theorem mem_senders (sys : System) (p q : Nat) : q ∈ senders sys p ↔ q < sys.P ∧ p ∈ nbIds (sys.rank q) q := by
  simp [senders]

/-- with consistent hints the ranks that send to `p` are exactly the ranks `p` waits for -/
theorem senders_eq_nbIds (sys : System) (h : SymHints sys) {p : Nat} (hp : p < sys.P) :
    senders sys p = nbIds (sys.rank p) p := by
  apply sorted_ext (sorted_senders sys p) (sorted_nbIds _ _)
  intro q
  rw [mem_senders]
  constructor
  · rintro ⟨hq, hm⟩
    exact (h q hq p hm).2
  · intro hm
    exact h p hp q hm

theorem isRing_iff (sys : System) (p : Nat) : isRing sys p = true ↔ nbIds (sys.rank p) p = [] := by
  unfold isRing Gen.ringMode
  cases nbIds (sys.rank p) p with
  | nil => simp
  | cons x xs =>
    simp only [List.length_cons, reduceCtorEq, iff_false, beq_iff_eq]
    omega

theorem netOK_ring (sys : System) (arrivals : Nat → List Nat) (h : AllRing sys) : netOK sys arrivals = true := by
  unfold netOK
  rw [Bool.or_eq_true]
  left
  rw [List.all_eq_true]
  intro p hp
  exact (isRing_iff sys p).mpr (h p (List.mem_range.mp hp))

theorem netOK_nb (sys : System) (arrivals : Nat → List Nat) (hn : AllNb sys) (hs : SymHints sys)
    (ha : ∀ p, p < sys.P → (arrivals p).Perm (nbIds (sys.rank p) p)) : netOK sys arrivals = true := by
  unfold netOK
  rw [Bool.or_eq_true]
  right
  rw [List.all_eq_true]
  intro p hp
  have hp' := List.mem_range.mp hp
  have hr : isRing sys p = false := by
    cases h : isRing sys p with
    | false => rfl
    | true => exact absurd ((isRing_iff sys p).mp h) (hn p hp')
  have hse := senders_eq_nbIds sys hs hp'
  simp only [hr, Bool.not_false, Bool.true_and, Bool.and_eq_true, List.all_eq_true, decide_eq_true_eq,
    List.isPerm_iff, beq_iff_eq, hse]
  exact ⟨⟨fun q hq => (hs p hp' q hq).1, ha p hp'⟩, trivial⟩

/-! ## Part 6: the collective `buildRemote` against the per-rank model -/

theorem foldl_congr_mem {α β : Type} (f g : α → β → α) : ∀ (l : List β) (a : α),
    (∀ m, ∀ q ∈ l, f m q = g m q) → l.foldl f a = l.foldl g a
  | [], _, _ => rfl
  | x :: xs, a, h => by
    rw [List.foldl_cons, List.foldl_cons, h a x (by simp)]
    exact foldl_congr_mem f g xs _ (fun m q hq => h m q (by simp [hq]))

/-- `locals` of `buildAll` -/
def localsOf (ign : Bool) (sys : System) : List Local := (List.range sys.P).map fun p => mkLocal ign (sys.rank p)

theorem locals_getD (ign : Bool) (sys : System) {p : Nat} (hp : p < sys.P) :
    (localsOf ign sys).getD p default = mkLocal ign (sys.rank p) := getD_map_range _ _ hp

theorem msgs_getD (ign : Bool) (sys : System) {q : Nat} (hq : q < sys.P) :
    ((localsOf ign sys).map mkMsg).getD q default = mkMsg (mkLocal ign (sys.rank q)) := by
  unfold localsOf
  rw [List.map_map, getD_map_range _ _ hq]
  rfl

theorem step_eq (ign : Bool) (sys : System) {p q : Nat} (hp : p < sys.P) (hq : q < sys.P) (fs : Bool) :
    unpackCreateRemote (((localsOf ign sys).map mkMsg).getD q default) ((localsOf ign sys).getD p default) fs
      = fromRank ign sys p q fs := by
  rw [msgs_getD ign sys hq, locals_getD ign sys hp, unpackCreateRemote_eq]
  rfl

theorem selfMap_eq (ign : Bool) (sys : System) {p : Nat} (hp : p < sys.P) :
    selfMap ((localsOf ign sys).getD p default) (sys.rank p).incl p = selfPart ign sys p := by
  unfold selfMap selfPart
  rw [locals_getD ign sys hp, mkLocal_sendTwo, unpackCreateRemote_eq]
  rfl

theorem ringLoop_length (P : Nat) (locals : List Local) : ∀ (fuel : Nat) (j : Int) (st : List Bufs) (maps : List RMap),
    maps.length = P → (ringLoop P locals fuel j st maps).length = P
  | 0, _, _, _, h => h
  | fuel + 1, j, st, maps, h => by
    unfold ringLoop
    split
    · exact ringLoop_length P locals fuel _ _ _ (by simp)
    · exact h

theorem cast_beq_one (n : Nat) : ((n : Int) == 1) = (n == 1) := by
  rw [Bool.eq_iff_iff]
  simp only [beq_iff_eq]
  omega

theorem early_eq (ign : Bool) (sys : System) {p : Nat} (hp : p < sys.P) :
    Gen.nothingToDo sys.P ((localsOf ign sys).getD p default).sendTwo (sys.rank p).incl
      = (sys.P == 1 && !((sys.rank p).two || (sys.rank p).incl)) := by
  rw [locals_getD ign sys hp, mkLocal_sendTwo]
  unfold Gen.nothingToDo
  rw [cast_beq_one]

/-- the collective call returns on every rank (`netOK`) ⇒ every rank holds what the per-rank model computes from
    the messages of its ring predecessors / of the ranks whose messages arrive -/
theorem buildAll_refines (ign : Bool) (sys : System) (arrivals : Nat → List Nat)
    (hn : netOK sys arrivals = true) (hP : 0 < sys.P) :
    ∃ maps, buildAll ign sys arrivals = some maps ∧ maps.length = sys.P ∧
      ∀ p, p < sys.P → maps.getD p [] = C04.buildRemote ign sys p (arrivals p) := by
  have hfold : buildAll ign sys arrivals =
      (let ranks := List.range sys.P
       let locals := localsOf ign sys
       let early := ranks.map fun p => Gen.nothingToDo sys.P (locals.getD p default).sendTwo (sys.rank p).incl
       if early.all id then some (ranks.map fun _ => [])
       else if early.any id then none
       else if !netOK sys arrivals then none
       else
         let msgs := locals.map mkMsg
         let self := ranks.map fun p => selfMap (locals.getD p default) (sys.rank p).incl p
         if isRing sys 0 then
           let st0 := msgs.map fun m => (⟨m, default⟩ : Bufs)
           some (ringLoop sys.P locals sys.P Gen.ringFirst st0 self)
         else
           some (ranks.map fun p =>
             nbLoop (locals.getD p default) msgs (self.getD p []) (arrivals p) (nbIds (sys.rank p) p).length)) := rfl
  rw [hfold]
  simp only []
  have hearly : ((List.range sys.P).map fun p =>
      Gen.nothingToDo sys.P ((localsOf ign sys).getD p default).sendTwo (sys.rank p).incl)
      = (List.range sys.P).map fun p => (sys.P == 1 && !((sys.rank p).two || (sys.rank p).incl)) :=
    List.map_congr_left (fun p hp => early_eq ign sys (List.mem_range.mp hp))
  rw [hearly]
  by_cases hall : (((List.range sys.P).map fun p => (sys.P == 1 && !((sys.rank p).two || (sys.rank p).incl))).all id) = true
  · rw [if_pos hall]
    refine ⟨_, rfl, by simp, fun p hp => ?_⟩
    rw [getD_map_range _ _ hp]
    have hc : (sys.P == 1 && !((sys.rank p).two || (sys.rank p).incl)) = true := by
      rw [List.all_eq_true] at hall
      exact hall _ (List.mem_map.mpr ⟨p, List.mem_range.mpr hp, rfl⟩)
    unfold C04.buildRemote
    simp only [hc, if_true]
  · rw [if_neg hall]
    have hnone : ∀ p, p < sys.P → (sys.P == 1 && !((sys.rank p).two || (sys.rank p).incl)) = false := by
      intro p hp
      cases hc : (sys.P == 1 && !((sys.rank p).two || (sys.rank p).incl)) with
      | false => rfl
      | true =>
        exfalso
        apply hall
        have h1 : sys.P = 1 := by
          simp only [Bool.and_eq_true, beq_iff_eq] at hc
          exact hc.1
        have hp0 : p = 0 := by omega
        subst hp0
        simp only [h1, List.range_one, List.map_cons, List.map_nil, List.all_cons, List.all_nil, Bool.and_true, id]
        rw [h1] at hc
        exact hc
    have hany : (((List.range sys.P).map fun p => (sys.P == 1 && !((sys.rank p).two || (sys.rank p).incl))).any id) = false := by
      rw [List.any_eq_false]
      intro b hb
      obtain ⟨p, hp, rfl⟩ := List.mem_map.mp hb
      have := hnone p (List.mem_range.mp hp)
      simp only [id_eq, this, Bool.false_eq_true, not_false_eq_true]
    rw [hany, hn]
    simp only [Bool.false_eq_true, if_false, Bool.not_true]
    by_cases hr0 : isRing sys 0 = true
    · -- ring mode on all ranks
      rw [if_pos hr0]
      have hring : ∀ p, p < sys.P → isRing sys p = true := by
        unfold netOK at hn
        rcases Bool.or_eq_true _ _ |>.mp hn with h | h
        · intro p hp
          exact List.all_eq_true.mp h p (List.mem_range.mpr hp)
        · have := List.all_eq_true.mp h 0 (List.mem_range.mpr hP)
          simp [hr0] at this
      refine ⟨_, rfl, ringLoop_length _ _ _ _ _ _ (by simp), fun p hp => ?_⟩
      have hfirst : Gen.ringFirst = ((1 : Nat) : Int) := rfl
      rw [hfirst, ringLoop_spec sys.P (localsOf ign sys) ((localsOf ign sys).map mkMsg) sys.P 1 _ _ (by omega) (by omega)
        (by omega) (held_init _ _ (by simp [localsOf])) p hp, getD_map_range _ _ hp, selfMap_eq ign sys hp]
      unfold C04.buildRemote
      simp only [hnone p hp, Bool.false_eq_true, if_false]
      have hemp : (nbIds (sys.rank p) p).isEmpty = true := by
        rw [(isRing_iff sys p).mp (hring p hp)]; rfl
      simp only [hemp, if_true]
      unfold receiveAll ringOrder
      apply foldl_congr_mem
      intro m q hq
      obtain ⟨k, _, rfl⟩ := List.mem_map.mp hq
      rw [step_eq ign sys hp (Nat.mod_lt _ hP)]
    · -- neighbour mode on all ranks
      rw [if_neg hr0]
      have hnb : ∀ p, p < sys.P → isRing sys p = false ∧ (arrivals p).Perm (senders sys p) ∧
          (senders sys p).length = (nbIds (sys.rank p) p).length := by
        unfold netOK at hn
        rcases Bool.or_eq_true _ _ |>.mp hn with h | h
        · have := List.all_eq_true.mp h 0 (List.mem_range.mpr hP)
          exact absurd this hr0
        · intro p hp
          have := List.all_eq_true.mp h p (List.mem_range.mpr hp)
          simp only [Bool.and_eq_true, Bool.not_eq_true', List.isPerm_iff, beq_iff_eq] at this
          exact ⟨this.1.1.1, this.1.2, this.2⟩
      refine ⟨_, rfl, by simp, fun p hp => ?_⟩
      obtain ⟨hr, hperm, hlen⟩ := hnb p hp
      rw [getD_map_range _ _ hp, getD_map_range _ _ hp, selfMap_eq ign sys hp]
      unfold nbLoop
      have htake : (arrivals p).take (nbIds (sys.rank p) p).length = arrivals p := by
        rw [← hlen, ← hperm.length_eq, List.take_length]
      rw [htake]
      unfold C04.buildRemote
      simp only [hnone p hp, Bool.false_eq_true, if_false]
      have hemp : (nbIds (sys.rank p) p).isEmpty = false := by
        cases h : nbIds (sys.rank p) p with
        | nil => rw [(isRing_iff sys p).mpr h] at hr; cases hr
        | cons x xs => rfl
      simp only [hemp, Bool.false_eq_true, if_false]
      unfold receiveAll
      apply foldl_congr_mem
      intro m q hq
      have hqP : q < sys.P := ((mem_senders sys p q).mp (hperm.mem_iff.mp hq)).1
      rw [step_eq ign sys hp hqP]

/-! ## Part 7: the specification `spec` read as a set -/

theorem RMap.mem_of_find : ∀ {m : RMap} {k : Nat} {v : Lists}, m.find k = some v → (k, v) ∈ m
  | [], _, _, h => by simp [RMap.find] at h
  | (k', v') :: rest, k, v, h => by
    unfold RMap.find at h
    by_cases e : k = k'
    · rw [if_pos e] at h
      cases h
      subst e
      simp
    · rw [if_neg e] at h
      exact List.mem_cons_of_mem _ (RMap.mem_of_find h)

/-- membership in `spec A B`: the local pair is in `A`, some pair of `B` has the same global index, and the entry
    carries that pair's attribute -/
theorem mem_spec_iff' (A B : List Pair) (hB : StrictG B) (x : RIdx) :
    x ∈ spec A B ↔ x.loc ∈ A ∧ ∃ b ∈ B, b.g = x.loc.g ∧ b.a = x.ra := by
  unfold spec join
  rw [List.mem_filterMap]
  constructor
  · rintro ⟨p, hp, hj⟩
    unfold joinOne at hj
    cases hf : (wire B).find? (fun r => r.g == p.g) with
    | none => simp [hf] at hj
    | some r =>
      simp only [hf, Bool.false_and, Bool.false_eq_true, if_false, Option.some.injEq] at hj
      subst hj
      have hr := List.find?_some hf
      have hm := List.mem_of_find?_eq_some hf
      simp only [wire, List.mem_map] at hm
      obtain ⟨b, hb, rfl⟩ := hm
      simp only [Pair.wire, beq_iff_eq] at hr
      exact ⟨hp, b, hb, hr, rfl⟩
  · rintro ⟨hp, b, hb, hg, ha⟩
    refine ⟨x.loc, hp, ?_⟩
    unfold joinOne
    cases hf : (wire B).find? (fun r => r.g == x.loc.g) with
    | none =>
      exfalso
      rw [List.find?_eq_none] at hf
      have := hf b.wire (by simp only [wire, List.mem_map]; exact ⟨b, hb, rfl⟩)
      simp [Pair.wire, hg] at this
    | some r =>
      have hr := List.find?_some hf
      have hm := List.mem_of_find?_eq_some hf
      simp only [wire, List.mem_map] at hm
      obtain ⟨b', hb', rfl⟩ := hm
      simp only [Pair.wire, beq_iff_eq] at hr
      have : b' = b := strictG_inj hB hb' hb (by rw [hr, hg])
      subst this
      simp only [Bool.false_and, Bool.false_eq_true, if_false, Pair.wire, ha]

theorem sorted_ext_key {α : Type} (key : α → Int) : ∀ {l₁ l₂ : List α},
    l₁.Pairwise (fun x y => key x < key y) → l₂.Pairwise (fun x y => key x < key y) →
    (∀ x, x ∈ l₁ ↔ x ∈ l₂) → l₁ = l₂
  | [], [], _, _, _ => rfl
  | [], y :: ys, _, _, h => by have := (h y).mpr (by simp); simp at this
  | x :: xs, [], _, _, h => by have := (h x).mp (by simp); simp at this
  | x :: xs, y :: ys, h1, h2, h => by
    have hh1 := List.pairwise_cons.mp h1
    have hh2 := List.pairwise_cons.mp h2
    have hxy : x = y := by
      have a := (h x).mp (by simp)
      have b := (h y).mpr (by simp)
      rcases List.mem_cons.mp a with e | e
      · exact e
      · rcases List.mem_cons.mp b with e' | e'
        · exact e'.symm
        · have := hh2.1 x e; have := hh1.1 y e'; omega
    subst hxy
    have : xs = ys := sorted_ext_key key hh1.2 hh2.2 (fun z => by
      constructor
      · intro hz
        have := (h z).mp (by simp [hz])
        rcases List.mem_cons.mp this with e | e
        · subst e; have := hh1.1 z hz; omega
        · exact e
      · intro hz
        have := (h z).mpr (by simp [hz])
        rcases List.mem_cons.mp this with e | e
        · subst e; have := hh2.1 z hz; omega
        · exact e)
    rw [this]

/-- the send list of `p` about `q` and the receive list of `q` about `p` list the same global indices with the same
    two attributes, in the same order -/
theorem spec_mirror (A B : List Pair) (hA : StrictG A) (hB : StrictG B) :
    (spec A B).map (fun x => (x.loc.g, x.loc.a, x.ra)) = (spec B A).map (fun x => (x.loc.g, x.ra, x.loc.a)) := by
  apply sorted_ext_key (fun t : Int × Nat × Nat => t.1)
  · rw [List.pairwise_map]
    exact strictR_join hA false _
  · rw [List.pairwise_map]
    exact strictR_join hB false _
  · intro t
    simp only [List.mem_map]
    constructor
    · rintro ⟨x, hx, rfl⟩
      obtain ⟨hl, b, hb, hg, ha⟩ := (mem_spec_iff' A B hB x).mp hx
      refine ⟨⟨x.loc.a, b⟩, (mem_spec_iff' B A hA _).mpr ⟨hb, x.loc, hl, hg.symm, rfl⟩, ?_⟩
      simp [hg, ha]
    · rintro ⟨x, hx, rfl⟩
      obtain ⟨hl, a, ha, hg, haa⟩ := (mem_spec_iff' B A hA x).mp hx
      refine ⟨⟨x.loc.a, a⟩, (mem_spec_iff' A B hB _).mpr ⟨ha, x.loc, hl, hg.symm, rfl⟩, ?_⟩
      simp [hg, haa]

end DV.C04.F
