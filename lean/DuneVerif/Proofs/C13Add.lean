import DuneVerif.Proofs.C13Shape
/-! C13, level 8: states in which a process announces copies the others do not have yet (`addCopy`), growing the
ground-truth decomposition, transporting the invariant along equal shapes. Core Lean only. -/
namespace DV.C13

/-- `D'` knows everything `D` knows -/
def DecompLe (D D' : Decomp) : Prop := ∀ p g a, D.attrOf p g = some a → D'.attrOf p g = some a

theorem RankInv.mono {D D' : Decomp} {P q : Nat} {st : RankState} (h : RankInv D P q st) (hD : DecompLe D D') :
    RankInv D' P q st :=
  ⟨h.idxSorted, fun e he => hD _ _ _ (h.idxTrue e he),
    h.rem.nbSorted, h.rem.nbOk, fun x hx en hen => ⟨hD _ _ _ (h.rem.remTrue x hx en hen).1, (h.rem.remTrue x hx en hen).2⟩⟩

theorem partialView_mono {D D' : Decomp} {w : World} (h : PartialView D w) (hD : DecompLe D D') : PartialView D' w :=
  fun q st hq => (h q st hq).mono hD

/-- appending further (global, attribute) pairs to the slices only adds knowledge -/
theorem decompLe_zipWith_append (D E : Decomp) (h : D.length ≤ E.length) : DecompLe D (List.zipWith (· ++ ·) D E) := by
  intro p g a ha
  unfold Decomp.attrOf Decomp.slice at *
  rw [List.getD_eq_getElem?_getD] at ha ⊢
  by_cases hp : p < D.length
  · have hpE : p < E.length := by omega
    rw [List.getElem?_zipWith, List.getElem?_eq_getElem hp, List.getElem?_eq_getElem hpE]
    rw [List.getElem?_eq_getElem hp] at ha
    simp only [Option.getD_some] at ha ⊢
    rw [List.lookup_append, ha]
    rfl
  · rw [List.getElem?_eq_none (by omega)] at ha
    simp at ha

theorem eq_of_mem_pairwise_g : ∀ (l : List IdxEntry), l.Pairwise (fun a b => a.g < b.g) →
    ∀ e₁ e₂, e₁ ∈ l → e₂ ∈ l → e₁.g = e₂.g → e₁ = e₂
  | [], _, _, _, h, _, _ => by simp at h
  | x :: xs, hp, e₁, e₂, h₁, h₂, hg => by
    rw [List.pairwise_cons] at hp
    simp only [List.mem_cons] at h₁ h₂
    rcases h₁ with rfl | h₁
    · rcases h₂ with rfl | h₂
      · rfl
      · have := hp.1 e₂ h₂; omega
    · rcases h₂ with rfl | h₂
      · have := hp.1 e₁ h₁; omega
      · exact eq_of_mem_pairwise_g xs hp.2 e₁ e₂ h₁ h₂ hg

/-- the invariant only reads the shape -/
theorem rankInv_of_shapeEq {D : Decomp} {P q : Nat} {a b : RankState} (h : ShapeEq a b) (hb : RankInv D P q b) :
    RankInv D P q a := by
  have hk : ∀ g x, hasKey a.idx g x = hasKey b.idx g x := fun g x => hasKey_of_keys h.1 g x
  have hmem : ∀ e ∈ a.idx, ∃ e' ∈ b.idx, e'.g = e.g ∧ e'.attr = e.attr := by
    intro e he
    have : hasKey a.idx e.g e.attr = true := (hasKey_iff _ _ _).2 ⟨e, he, rfl, rfl⟩
    rw [hk] at this
    exact (hasKey_iff _ _ _).1 this
  refine ⟨?_, ?_, ?_⟩
  · have h1 : (b.idx.map IdxEntry.key).Pairwise (fun x y => x.1 < y.1) := by
      rw [List.pairwise_map]; exact hb.idxSorted
    rw [← h.1, List.pairwise_map] at h1
    exact h1
  · intro e he
    obtain ⟨e', he', h1, h2⟩ := hmem e he
    have := hb.idxTrue e' he'
    rw [h1, h2] at this
    exact this
  · rw [h.2]
    exact ⟨hb.rem.nbSorted, hb.rem.nbOk, fun x hx en hen =>
      ⟨(hb.rem.remTrue x hx en hen).1, by rw [hk]; exact (hb.rem.remTrue x hx en hen).2⟩⟩

theorem partialView_of_shape {D : Decomp} {w w' : World} (h : Shape w w') (hw' : PartialView D w') : PartialView D w := by
  intro q a ha
  have hq : q < w'.length := h.1 ▸ (List.getElem?_eq_some_iff.1 ha).1
  have hb : w'[q]? = some w'[q] := List.getElem?_eq_getElem hq
  rw [h.1]
  exact rankInv_of_shapeEq (h.2 q a _ ha hb) (hw' q _ hb)

theorem nbSym_of_shape {w w' : World} (h : Shape w w') (hs : NbSym w') : NbSym w := by
  intro p q sp sq hp hq
  have hp' : p < w'.length := h.1 ▸ (List.getElem?_eq_some_iff.1 hp).1
  have hq' : q < w'.length := h.1 ▸ (List.getElem?_eq_some_iff.1 hq).1
  have hbp : w'[p]? = some w'[p] := List.getElem?_eq_getElem hp'
  have hbq : w'[q]? = some w'[q] := List.getElem?_eq_getElem hq'
  rw [(h.2 p sp _ hp hbp).2, (h.2 q sq _ hq hbq).2]
  exact hs p q _ _ hbp hbq

/-! ### adding a copy -/

theorem addCopy_remote_fst (st : RankState) (g : Int) (a loc : Nat) (known : List (Nat × Nat)) :
    (addCopy st g a loc known).remote.map (fun x => x.1) = st.remote.map (fun x => x.1) := by
  simp only [addCopy, List.map_map]
  apply List.map_congr_left
  intro x _
  simp only [Function.comp]
  split <;> rfl

theorem isNeighbour_addCopy (st : RankState) (g : Int) (a loc : Nat) (known : List (Nat × Nat)) (x : Nat) :
    isNeighbour (addCopy st g a loc known).remote x = isNeighbour st.remote x := by
  have e : ∀ r : List (Nat × List RemEntry), isNeighbour r x = (r.map (fun y => y.1)).any (fun y => y == x) := by
    intro r; simp [isNeighbour, List.any_map, Function.comp_def]
  rw [e, e, addCopy_remote_fst]

theorem mem_addCopy_remote (st : RankState) (g : Int) (a loc : Nat) (known : List (Nat × Nat)) (y : Nat × List RemEntry)
    (hy : y ∈ (addCopy st g a loc known).remote) :
    ∃ x ∈ st.remote, y.1 = x.1 ∧ (y.2 = x.2 ∨ ∃ b, known.lookup x.1 = some b ∧ y.2 = insertEntry ⟨g, a, b⟩ x.2) := by
  simp only [addCopy, List.mem_map] at hy
  obtain ⟨x, hx, rfl⟩ := hy
  refine ⟨x, hx, ?_⟩
  cases hl : known.lookup x.1 with
  | none => simp
  | some b => exact ⟨rfl, Or.inr ⟨b, rfl, rfl⟩⟩

theorem rankInv_addCopy {D : Decomp} {P q : Nat} {st : RankState} (h : RankInv D P q st) (g : Int) (a loc : Nat)
    (known : List (Nat × Nat)) (hq : D.attrOf q g = some a) (hnew : ∀ e ∈ st.idx, e.g ≠ g)
    (hk : ∀ x b, known.lookup x = some b → D.attrOf x g = some b) :
    RankInv D P q (addCopy st g a loc known) := by
  have hidx : (addCopy st g a loc known).idx = insertIdx ⟨g, a, loc⟩ st.idx := rfl
  have hmono : ∀ g' a', hasKey st.idx g' a' = true → hasKey (insertIdx ⟨g, a, loc⟩ st.idx) g' a' = true := by
    intro g' a' h1; rw [hasKey_insertIdx]; exact Or.inr h1
  refine ⟨?_, ?_, ?_, ?_, ?_⟩
  · rw [hidx]
    exact pairwise_insertIdx _ _ h.idxSorted hnew
  · rw [hidx]
    intro e he
    rcases (mem_insertIdx _ e _).1 he with rfl | he
    · exact hq
    · exact h.idxTrue e he
  · have : ((addCopy st g a loc known).remote.map (fun x => x.1)).Pairwise (fun a b => a < b) := by
      rw [addCopy_remote_fst, List.pairwise_map]; exact h.rem.nbSorted
    rw [List.pairwise_map] at this
    exact this
  · intro y hy
    obtain ⟨x, hx, h1, h2⟩ := mem_addCopy_remote st g a loc known y hy
    have hok := h.rem.nbOk x hx
    rw [h1]
    refine ⟨hok.1, hok.2.1, ?_⟩
    rcases h2 with h2 | ⟨b, _, h2⟩
    · rw [h2]; exact hok.2.2
    · rw [h2]
      apply pairwise_insertEntry _ _ hok.2.2
      intro e he heg
      obtain ⟨e', he', h3, _⟩ := (hasKey_iff _ _ _).1 (h.rem.remTrue x hx e he).2
      exact hnew e' he' (h3.trans heg)
  · intro y hy en hen
    obtain ⟨x, hx, h1, h2⟩ := mem_addCopy_remote st g a loc known y hy
    rw [hidx, h1]
    rcases h2 with h2 | ⟨b, hb, h2⟩
    · rw [h2] at hen
      exact ⟨(h.rem.remTrue x hx en hen).1, hmono _ _ (h.rem.remTrue x hx en hen).2⟩
    · rw [h2] at hen
      rcases (mem_insertEntry _ en _).1 hen with rfl | hen
      · exact ⟨hk _ _ hb, by rw [hasKey_insertIdx]; exact Or.inl ⟨rfl, rfl⟩⟩
      · exact ⟨(h.rem.remTrue x hx en hen).1, hmono _ _ (h.rem.remTrue x hx en hen).2⟩

theorem partialView_set {D : Decomp} {w : World} (h : PartialView D w) (p : Nat) (st' : RankState)
    (hst' : RankInv D w.length p st') : PartialView D (w.set p st') := by
  intro q st hq
  rw [List.length_set]
  rw [List.getElem?_set] at hq
  split at hq
  · rename_i hpq
    split at hq
    · simp only [Option.some.injEq] at hq
      subst hq; subst hpq
      exact hst'
    · simp at hq
  · exact h q st hq

theorem nbSym_set {w : World} (hs : NbSym w) (p : Nat) (st st' : RankState) (hp : w[p]? = some st)
    (hn : ∀ x, isNeighbour st'.remote x = isNeighbour st.remote x) : NbSym (w.set p st') := by
  have key : ∀ (r : Nat) (sr : RankState), (w.set p st')[r]? = some sr →
      ∃ sr0, w[r]? = some sr0 ∧ ∀ x, isNeighbour sr.remote x = isNeighbour sr0.remote x := by
    intro r sr hr
    rw [List.getElem?_set] at hr
    split at hr
    · rename_i hpr
      split at hr
      · simp only [Option.some.injEq] at hr
        subst hr; subst hpr
        exact ⟨st, hp, hn⟩
      · simp at hr
    · exact ⟨sr, hr, fun _ => rfl⟩
  intro a b sa sb ha hb
  obtain ⟨sa0, ha0, ea⟩ := key a sa ha
  obtain ⟨sb0, hb0, eb⟩ := key b sb hb
  rw [ea, eb]
  exact hs a b sa0 sb0 ha0 hb0

theorem nbSym_consistent {D : Decomp} (hD : DecompWF D) : NbSym (consistent D) := by
  intro p q sp sq hp hq
  have h := nbSym_deleted hD (fun _ _ => false) p q (deleteRank (fun _ => false) sp) (deleteRank (fun _ => false) sq)
    (by rw [deleteCopies_getElem?, hp]; rfl) (by rw [deleteCopies_getElem?, hq]; rfl)
  rwa [isNeighbour_deleteRank, isNeighbour_deleteRank] at h

theorem known_of_forall (D : Decomp) (g : Int) (known : List (Nat × Nat))
    (h : ∀ pr ∈ known, D.attrOf pr.1 g = some pr.2) : ∀ x b, known.lookup x = some b → D.attrOf x g = some b :=
  fun x b hl => h (x, b) (lookup_mem x b known hl)

/-! ### histories: any sequence of syncs (in any admissible processing order), deletions and announcements -/

inductive Step where
  | sync (num : Int → Nat)
  | syncOrd (ord : Nat → List (Nat × List Item) → List (Nat × List Item)) (num : Int → Nat)
  | delete (del : Nat → Int → Bool)
  | add (p : Nat) (g : Int) (a : Nat) (loc : Nat) (known : List (Nat × Nat))

def Step.run : Step → World → World
  | .sync num, w => DV.C13.sync num w
  | .syncOrd ord num, w => DV.C13.syncOrd ord num w
  | .delete del, w => deleteCopies del w
  | .add p g a loc known, w => addCopyAt w p g a loc known

/-- side conditions of a step in the state it is applied to: a processing order is a permutation of every inbox; a
process announces a copy of an index it does not hold yet, and what it announces agrees with the decomposition -/
def Step.ok (D : Decomp) : Step → World → Prop
  | .syncOrd ord _, w => ∀ q, (ord q (inbox w q)).Perm (inbox w q)
  | .add p g a _ known, w => D.attrOf p g = some a ∧ (∀ st, w[p]? = some st → ∀ e ∈ st.idx, e.g ≠ g) ∧
      ∀ x b, known.lookup x = some b → D.attrOf x g = some b
  | _, _ => True

def runSteps : List Step → World → World
  | [], w => w
  | s :: ss, w => runSteps ss (s.run w)

def stepsOk (D : Decomp) : List Step → World → Prop
  | [], _ => True
  | s :: ss, w => s.ok D w ∧ stepsOk D ss (s.run w)

theorem partialView_addCopyAt {D : Decomp} {w : World} (h : PartialView D w) (p : Nat) (g : Int) (a loc : Nat)
    (known : List (Nat × Nat)) (hq : D.attrOf p g = some a) (hnew : ∀ st, w[p]? = some st → ∀ e ∈ st.idx, e.g ≠ g)
    (hk : ∀ x b, known.lookup x = some b → D.attrOf x g = some b) :
    PartialView D (addCopyAt w p g a loc known) := by
  unfold addCopyAt
  cases hp : w[p]? with
  | none => exact h
  | some st => exact partialView_set h p _ (rankInv_addCopy (h p st hp) g a loc known hq (hnew st hp) hk)

theorem nbSym_addCopyAt {w : World} (hs : NbSym w) (p : Nat) (g : Int) (a loc : Nat) (known : List (Nat × Nat)) :
    NbSym (addCopyAt w p g a loc known) := by
  unfold addCopyAt
  cases hp : w[p]? with
  | none => exact hs
  | some st => exact nbSym_set hs p st _ hp (isNeighbour_addCopy st g a loc known)

end DV.C13
