import DuneVerif.Proofs.C02Func
import Mathlib.LinearAlgebra.Matrix.NonsingularInverse
/-! C02: last helper steps before the property theorems. -/
namespace DV.C02
open Matrix
set_option linter.unusedSectionVars false

variable {n : Nat} {K Q : Type} [Field K] [LinearOrder Q] [Zero Q]

theorem submatrix_mulVec_apply (M : Matrix (Fin n) (Fin n) K) (σ : Equiv.Perm (Fin n)) (v : Fin n → K) (r : Fin n) :
    (M.submatrix σ id *ᵥ v) r = (M *ᵥ v) (σ r) := by
  simp [mulVec, dotProduct]

/-- equations that hold after permuting the rows hold before -/
theorem mulVec_of_perm_rows {M : Matrix (Fin n) (Fin n) K} {σ : Equiv.Perm (Fin n)} {v w : Fin n → K}
    (h : M.submatrix σ id *ᵥ v = w ∘ σ) : M *ᵥ v = w := by
  funext r
  have := congrFun h (σ.symm r)
  rw [submatrix_mulVec_apply] at this
  simpa using this

/-- what a successful decomposition gives for the solve path -/
theorem solve_of_ok (piv : Bool) {absval : K → Q} (habs : AbsLike absval) (A : Mat n K) (b : Vec n K)
    (hok : (luDecomp piv absval elimFunc A b).ok = true) :
    toMatrix A *ᵥ (backSubst (luDecomp piv absval elimFunc A b).A (luDecomp piv absval elimFunc A b).s).f = b.f := by
  obtain ⟨σ, hA, hR⟩ := (lu_elim_run piv habs A b).1 hok
  have hW : Wview n (luDecomp piv absval elimFunc A b).A *ᵥ
      (backSubst (luDecomp piv absval elimFunc A b).A (luDecomp piv absval elimFunc A b).s).f =
      (luDecomp piv absval elimFunc A b).s.f := by
    rw [backSubst_f]
    exact bs_correct _ (fun j => hA.diag j j.2) _
  apply mulVec_of_perm_rows (σ := σ)
  rw [← hA.fact, ← Matrix.mulVec_mulVec, hW, hR]

/-- what a successful decomposition gives for the invert path -/
theorem invert_of_ok (piv : Bool) {absval : K → Q} (habs : AbsLike absval) (A : Mat n K)
    (hok : (luDecomp piv absval pivotFunc A idPivot).ok = true) :
    toMatrix A * toMatrix (unpermute (luDecomp piv absval pivotFunc A idPivot).s
      (backwardU (luDecomp piv absval pivotFunc A idPivot).A
        (forwardL (luDecomp piv absval pivotFunc A idPivot).A identity))) = 1 := by
  obtain ⟨σ, hA, hσ⟩ := (lu_pivot_run piv habs A).1 hok
  generalize (luDecomp piv absval pivotFunc A idPivot).A = LU at hA ⊢
  generalize (luDecomp piv absval pivotFunc A idPivot).s = s at hσ ⊢
  -- columns of X = U⁻¹ L⁻¹
  have hcol : ∀ c : Fin n, (toMatrix A).submatrix σ id *ᵥ (fun r => (backwardU LU (forwardL LU identity)).f r c) =
      fun r => if r = c then 1 else 0 := by
    intro c
    rw [← hA.fact, ← Matrix.mulVec_mulVec, backwardU_col, bs_correct _ (fun j => hA.diag j j.2), forwardL_col,
      fw_correct]
    funext r; simp [identity]
  ext r c
  rw [Matrix.mul_apply, Matrix.one_apply]
  simp only [toMatrix_apply, unpermute_f, ← hσ]
  have := congrFun (hcol (σ⁻¹ c)) (σ⁻¹ r)
  rw [submatrix_mulVec_apply] at this
  have hr : σ (σ⁻¹ r) = r := by simp
  simp only [hr, mulVec, dotProduct, toMatrix_apply] at this
  rw [this]
  simp

end DV.C02
