import DuneVerif.Proofs.C08Basic
/-!
# C08 — the 2x2 eigenvector code: Cayley–Hamilton columns, identity special case, scale invariance
-/
namespace DV.C08

/-- `temp = matrix; temp[0][0] -= l; temp[1][1] -= l;` -/
def shifted (A : M2 ℝ) (l : ℝ) : M2 ℝ := { A with a00 := A.a00 - l, a11 := A.a11 - l }

/-- the two candidate columns of `A - l I` as the code forms them -/
def colA (A : M2 ℝ) (l : ℝ) : V2 ℝ := ⟨A.a00 - l, A.a10⟩
def colB (A : M2 ℝ) (l : ℝ) : V2 ℝ := ⟨A.a01, A.a11 - l⟩

theorem identThreshold_nonneg (eps n : ℝ) (he : 0 ≤ eps) (hn : 0 ≤ n) :
    0 ≤ (Gen.ev2_identThreshold eps n : ℝ) := by
  unfold Gen.ev2_identThreshold
  push_cast
  positivity

/-- the identity threshold is homogeneous in the size of the matrix (this is what the repair of the absolute
`1e-14` threshold establishes; with the absolute constant this statement is false) -/
theorem identThreshold_smul (eps n s : ℝ) :
    (Gen.ev2_identThreshold eps (s * n) : ℝ) = s * Gen.ev2_identThreshold eps n := by
  unfold Gen.ev2_identThreshold
  ring

theorem choice_unfold (eps : ℝ) (A : M2 ℝ) (l0 l1 : ℝ) :
    eigenVectorChoice2d eps A l0 l1 =
      if infNorm2 (shifted A l0) ≤ Gen.ev2_identThreshold eps (infNorm2 A) then none
      else some (pickColumn (colA A l1) (colB A l1), pickColumn (colA A l0) (colB A l0)) := by
  unfold eigenVectorChoice2d
  simp only [Gen.ev2_shiftIndex, if_true]
  rfl

theorem shifted_smul (s : ℝ) (A : M2 ℝ) (l : ℝ) : shifted (smul2 s A) (s * l) = smul2 s (shifted A l) := by
  unfold shifted smul2
  simp only [mul_sub]

theorem colA_smul (s : ℝ) (A : M2 ℝ) (l : ℝ) : colA (smul2 s A) (s * l) = smulV s (colA A l) := by
  unfold colA smul2 smulV
  simp only [mul_sub]

theorem colB_smul (s : ℝ) (A : M2 ℝ) (l : ℝ) : colB (smul2 s A) (s * l) = smulV s (colB A l) := by
  unfold colB smul2 smulV
  simp only [mul_sub]

/-- scaling the matrix (and its eigenvalues) by `s > 0` does not change the branch and scales the chosen columns -/
theorem choice_smul (eps s : ℝ) (hs : 0 < s) (A : M2 ℝ) (l0 l1 : ℝ) :
    eigenVectorChoice2d eps (smul2 s A) (s * l0) (s * l1)
      = (eigenVectorChoice2d eps A l0 l1).map (fun c => (smulV s c.1, smulV s c.2)) := by
  rw [choice_unfold, choice_unfold, shifted_smul, infNorm2_smul s hs, infNorm2_smul s hs, identThreshold_smul,
    colA_smul, colB_smul, colA_smul, colB_smul, pickColumn_smul s hs, pickColumn_smul s hs]
  by_cases h : infNorm2 (shifted A l0) ≤ Gen.ev2_identThreshold eps (infNorm2 A)
  · rw [if_pos h, if_pos (mul_le_mul_of_nonneg_left h hs.le)]
    rfl
  · rw [if_neg h, if_neg]
    · rfl
    · intro hc
      exact h (le_of_mul_le_mul_left hc hs)

theorem eigenVectors2d_smul (eps s : ℝ) (hs : 0 < s) (A : M2 ℝ) (l0 l1 : ℝ) :
    eigenVectors2d Real.sqrt eps (smul2 s A) (s * l0) (s * l1) = eigenVectors2d Real.sqrt eps A l0 l1 := by
  unfold eigenVectors2d
  rw [choice_smul eps s hs]
  cases eigenVectorChoice2d eps A l0 l1 with
  | none => rfl
  | some c =>
    obtain ⟨c0, c1⟩ := c
    simp only [Option.map_some, normalize2_smul s hs]

/-! ### Cayley–Hamilton: the columns of `A - l₁ I` are eigenvectors for `l₀` and vice versa -/

/-- Vieta relations of the two eigenvalues of a symmetric matrix -/
def Vieta (A : M2 ℝ) (l0 l1 : ℝ) : Prop := l0 + l1 = A.a00 + A.a11 ∧ l0 * l1 = A.a00 * A.a11 - A.a01 * A.a01

theorem vieta_of_closed_form (A : M2 ℝ) (hs : Sym2 A) :
    Vieta A ((A.a00 + A.a11) / 2 - Real.sqrt (disc2 A)) ((A.a00 + A.a11) / 2 + Real.sqrt (disc2 A)) := by
  have hq := disc2_nonneg A hs
  have hsq : Real.sqrt (disc2 A) * Real.sqrt (disc2 A) = disc2 A := Real.mul_self_sqrt hq
  refine ⟨by ring, ?_⟩
  have : disc2 A = ((A.a00 - A.a11) / 2) ^ 2 + A.a01 * A.a01 := by unfold disc2; rw [hs]
  linear_combination (-1 : ℝ) * hsq + (-1 : ℝ) * this

theorem colA_eigen (A : M2 ℝ) (hs : Sym2 A) (l0 l1 : ℝ) (hv : Vieta A l0 l1) :
    mulVec2 A (colA A l1) = smulV2 l0 (colA A l1) := by
  obtain ⟨h1, h2⟩ := hv
  unfold mulVec2 smulV2 colA
  rw [hs]
  simp only [V2.mk.injEq]
  constructor
  · linear_combination (1 : ℝ) * h2 + (-A.a00) * h1
  · linear_combination (-A.a01) * h1

theorem colB_eigen (A : M2 ℝ) (hs : Sym2 A) (l0 l1 : ℝ) (hv : Vieta A l0 l1) :
    mulVec2 A (colB A l1) = smulV2 l0 (colB A l1) := by
  obtain ⟨h1, h2⟩ := hv
  unfold mulVec2 smulV2 colB
  rw [hs]
  simp only [V2.mk.injEq]
  constructor
  · linear_combination (-A.a01) * h1
  · linear_combination (1 : ℝ) * h2 + (-A.a11) * h1

theorem vieta_swap (A : M2 ℝ) (l0 l1 : ℝ) (hv : Vieta A l0 l1) : Vieta A l1 l0 := by
  obtain ⟨h1, h2⟩ := hv
  exact ⟨by linarith, by linarith [mul_comm l0 l1]⟩

/-- all four pairs (column of `A - l₁ I`, column of `A - l₀ I`) are orthogonal -/
theorem cols_orthogonal (A : M2 ℝ) (hs : Sym2 A) (l0 l1 : ℝ) (hv : Vieta A l0 l1)
    (u w : V2 ℝ) (hu : u = colA A l1 ∨ u = colB A l1) (hw : w = colA A l0 ∨ w = colB A l0) : dot2 u w = 0 := by
  obtain ⟨h1, h2⟩ := hv
  unfold Sym2 at hs
  rcases hu with rfl | rfl <;> rcases hw with rfl | rfl <;> simp only [dot2, colA, colB, hs]
  · linear_combination (1 : ℝ) * h2 + (-A.a00) * h1
  · linear_combination (-A.a01) * h1
  · linear_combination (-A.a01) * h1
  · linear_combination (1 : ℝ) * h2 + (-A.a11) * h1

theorem pick_mem (e0 e1 : V2 ℝ) : pickColumn e0 e1 = e0 ∨ pickColumn e0 e1 = e1 := by
  rcases pickColumn_cases e0 e1 with h | h
  · exact Or.inl h.1
  · exact Or.inr h.1

/-- if the chosen (larger) column vanishes, both candidates vanish -/
theorem pick_zero (e0 e1 : V2 ℝ) (h : norm2 (pickColumn e0 e1) = 0) : norm2 e0 = 0 ∧ norm2 e1 = 0 := by
  rcases pickColumn_cases e0 e1 with ⟨he, hle⟩ | ⟨he, hlt⟩
  · rw [he] at h
    exact ⟨h, le_antisymm (h ▸ hle) (norm2_nonneg e1)⟩
  · rw [he] at h
    exact ⟨le_antisymm (h ▸ hlt.le) (norm2_nonneg e0), h⟩

/-- in the general branch the chosen columns are non-zero -/
theorem general_branch_nonzero (eps : ℝ) (he : 0 ≤ eps) (A : M2 ℝ) (l0 l1 : ℝ) (hv : Vieta A l0 l1)
    (hb : ¬ infNorm2 (shifted A l0) ≤ Gen.ev2_identThreshold eps (infNorm2 A)) :
    norm2 (pickColumn (colA A l1) (colB A l1)) ≠ 0 ∧ norm2 (pickColumn (colA A l0) (colB A l0)) ≠ 0 := by
  have hthr := identThreshold_nonneg eps (infNorm2 A) he (infNorm2_nonneg A)
  obtain ⟨h1, _⟩ := hv
  constructor
  · intro h
    obtain ⟨ha, hb'⟩ := pick_zero _ _ h
    obtain ⟨ha1, ha2⟩ := norm2_eq_zero ha
    obtain ⟨hb1, hb2⟩ := norm2_eq_zero hb'
    simp only [colA, colB] at ha1 ha2 hb1 hb2
    apply hb
    rw [infNorm2_eq_zero]
    · exact hthr
    · unfold shifted
      simp only
      refine ⟨by linarith, hb1, ha2, by linarith⟩
  · intro h
    obtain ⟨ha, hb'⟩ := pick_zero _ _ h
    obtain ⟨ha1, ha2⟩ := norm2_eq_zero ha
    obtain ⟨hb1, hb2⟩ := norm2_eq_zero hb'
    simp only [colA, colB] at ha1 ha2 hb1 hb2
    apply hb
    rw [infNorm2_eq_zero]
    · exact hthr
    · unfold shifted
      simp only
      exact ⟨ha1, hb1, ha2, hb2⟩

theorem mulVec2_normalize (A : M2 ℝ) (l : ℝ) (c : V2 ℝ) (h : mulVec2 A c = smulV2 l c) :
    mulVec2 A (normalize2 Real.sqrt c) = smulV2 l (normalize2 Real.sqrt c) := by
  unfold mulVec2 smulV2 at h
  simp only [V2.mk.injEq] at h
  obtain ⟨h1, h2⟩ := h
  unfold mulVec2 smulV2 normalize2
  simp only [V2.mk.injEq]
  constructor
  · linear_combination (1 / Real.sqrt (norm2 c)) * h1
  · linear_combination (1 / Real.sqrt (norm2 c)) * h2

theorem dot2_normalize (c0 c1 : V2 ℝ) (h : dot2 c0 c1 = 0) :
    dot2 (normalize2 Real.sqrt c0) (normalize2 Real.sqrt c1) = 0 := by
  unfold dot2 at h
  unfold dot2 normalize2
  simp only
  linear_combination (1 / (Real.sqrt (norm2 c0) * Real.sqrt (norm2 c1))) * h

/-- The general (non-degenerate) branch returns unit, mutually orthogonal eigenvectors. -/
theorem general_branch_correct (eps : ℝ) (he : 0 ≤ eps) (A : M2 ℝ) (hs : Sym2 A) (l0 l1 : ℝ) (hv : Vieta A l0 l1)
    (c0 c1 : V2 ℝ) (hc : eigenVectorChoice2d eps A l0 l1 = some (c0, c1)) :
    let v := eigenVectors2d Real.sqrt eps A l0 l1
    mulVec2 A v.1 = smulV2 l0 v.1 ∧ mulVec2 A v.2 = smulV2 l1 v.2 ∧
      norm2 v.1 = 1 ∧ norm2 v.2 = 1 ∧ dot2 v.1 v.2 = 0 := by
  have hc' := hc
  rw [choice_unfold] at hc'
  by_cases hb : infNorm2 (shifted A l0) ≤ Gen.ev2_identThreshold eps (infNorm2 A)
  · rw [if_pos hb] at hc'
    exact absurd hc' (by simp)
  · rw [if_neg hb] at hc'
    simp only [Option.some.injEq, Prod.mk.injEq] at hc'
    obtain ⟨h0, h1⟩ := hc'
    obtain ⟨hn0, hn1⟩ := general_branch_nonzero eps he A l0 l1 hv hb
    rw [h0] at hn0
    rw [h1] at hn1
    have hm0 := pick_mem (colA A l1) (colB A l1)
    have hm1 := pick_mem (colA A l0) (colB A l0)
    rw [h0] at hm0
    rw [h1] at hm1
    have e0 : mulVec2 A c0 = smulV2 l0 c0 := by
      rcases hm0 with h | h <;> rw [h]
      · exact colA_eigen A hs l0 l1 hv
      · exact colB_eigen A hs l0 l1 hv
    have e1 : mulVec2 A c1 = smulV2 l1 c1 := by
      rcases hm1 with h | h <;> rw [h]
      · exact colA_eigen A hs l1 l0 (vieta_swap A l0 l1 hv)
      · exact colB_eigen A hs l1 l0 (vieta_swap A l0 l1 hv)
    have ho : dot2 c0 c1 = 0 := cols_orthogonal A hs l0 l1 hv c0 c1 hm0 hm1
    show _ ∧ _
    unfold eigenVectors2d
    rw [hc]
    exact ⟨mulVec2_normalize A l0 c0 e0, mulVec2_normalize A l1 c1 e1, normalize2_unit c0 hn0,
      normalize2_unit c1 hn1, dot2_normalize c0 c1 ho⟩

/-- In the identity special case the unit vectors are returned; they are exactly orthonormal, and their residuals
are bounded entrywise by the threshold `‖A - l₀ I‖∞ ≤ thr`. -/
theorem ident_branch_correct (eps : ℝ) (A : M2 ℝ) (_hs : Sym2 A) (l0 l1 : ℝ) (hv : Vieta A l0 l1)
    (hc : eigenVectorChoice2d eps A l0 l1 = none) :
    let v := eigenVectors2d Real.sqrt eps A l0 l1
    let thr : ℝ := Gen.ev2_identThreshold eps (infNorm2 A)
    let r0 := mulVec2 (shifted A l0) v.1
    let r1 := mulVec2 (shifted A l1) v.2
    norm2 v.1 = 1 ∧ norm2 v.2 = 1 ∧ dot2 v.1 v.2 = 0 ∧
      |r0.x| ≤ thr ∧ |r0.y| ≤ thr ∧ |r1.x| ≤ thr ∧ |r1.y| ≤ thr := by
  have hc' := hc
  rw [choice_unfold] at hc'
  by_cases hb : infNorm2 (shifted A l0) ≤ Gen.ev2_identThreshold eps (infNorm2 A)
  · obtain ⟨h1, _⟩ := hv
    have hv1 : eigenVectors2d Real.sqrt eps A l0 l1 = (⟨1, 0⟩, ⟨0, 1⟩) := by
      unfold eigenVectors2d
      rw [hc]
      simp only [one, zero, Nat.cast_one, Nat.cast_zero]
    simp only [hv1]
    rw [infNorm2_eq] at hb
    have hrow0 : |A.a00 - l0| + |A.a01| ≤ Gen.ev2_identThreshold eps (infNorm2 A) :=
      le_trans (le_trans (le_max_left _ _) (le_max_right _ _)) hb
    have hrow1 : |A.a10| + |A.a11 - l0| ≤ Gen.ev2_identThreshold eps (infNorm2 A) :=
      le_trans (le_max_left _ _) hb
    have e1 : A.a11 - l1 = -(A.a00 - l0) := by linarith
    refine ⟨by rw [norm2_eq]; norm_num, by rw [norm2_eq]; norm_num, by unfold dot2; norm_num, ?_, ?_, ?_, ?_⟩
    · simp only [mulVec2, shifted, mul_one, mul_zero, add_zero]
      linarith [abs_nonneg A.a01]
    · simp only [mulVec2, shifted, mul_one, mul_zero, add_zero]
      linarith [abs_nonneg (A.a11 - l0)]
    · simp only [mulVec2, shifted, mul_one, mul_zero, zero_add]
      linarith [abs_nonneg (A.a00 - l0)]
    · simp only [mulVec2, shifted, mul_one, mul_zero, zero_add]
      rw [e1, abs_neg]
      linarith [abs_nonneg A.a01]
  · rw [if_neg hb] at hc'
    exact absurd hc' (by simp)

end DV.C08
