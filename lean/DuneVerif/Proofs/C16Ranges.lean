/-
C16 — helper lemmas about the range loops (range-based `for` through the facade operators) and the
hybrid index walk.  Core Lean only.
-/
import DuneVerif.Proofs.C16Basic

namespace DV.C16

/-- the values `lo, lo+1, …, hi-1` -/
def intRange (lo hi : Int) : List Int := (List.range (hi - lo).toNat).map (fun (i : Nat) => lo + (i : Int))

theorem intRange_cons (lo hi : Int) (h : lo < hi) : intRange lo hi = lo :: intRange (lo + 1) hi := by
  unfold intRange
  have e : (hi - lo).toNat = (hi - (lo + 1)).toNat + 1 := by omega
  rw [e, List.range_succ_eq_map]
  simp only [List.map_cons, List.map_map]
  congr 1
  · simp
  · apply List.map_congr_left
    intro a _
    simp only [Function.comp]
    omega

theorem intRange_nil (lo hi : Int) (h : hi ≤ lo) : intRange lo hi = [] := by
  unfold intRange
  have e : (hi - lo).toNat = 0 := by omega
  rw [e]; rfl

theorem mem_intRange (lo hi x : Int) : x ∈ intRange lo hi ↔ lo ≤ x ∧ x < hi := by
  unfold intRange
  simp only [List.mem_map, List.mem_range]
  constructor
  · rintro ⟨i, hi', rfl⟩; omega
  · intro ⟨h1, h2⟩
    exact ⟨(x - lo).toNat, by omega, by omega⟩

/-- the IntegralRange loop started at value `v` with `fuel = hi - v` produces `v … hi-1` -/
theorem enumLoop_eq (hi : Int) : ∀ (fuel : Nat) (v : Int), v ≤ hi → fuel = (hi - v).toNat →
    IntegralRange.enumLoop fuel ⟨v⟩ ⟨hi⟩ = intRange v hi := by
  intro fuel
  induction fuel with
  | zero =>
    intro v hv hf
    rw [intRange_nil v hi (by omega)]; rfl
  | succ m ih =>
    intro v hv hf
    have hlt : v < hi := by omega
    have hne : IR.ne ⟨v⟩ ⟨hi⟩ = true := by simp [IR.ne]; omega
    rw [IntegralRange.enumLoop, hne, intRange_cons v hi hlt]
    simp only [if_true, IR.deref, IR.inc]
    rw [ih (v + 1) (by omega) (by omega)]

theorem transformLoopIR_eq (f : Int → Int) (hi : Int) : ∀ (fuel : Nat) (v : Int), v ≤ hi → fuel = (hi - v).toNat →
    transformLoopIR f fuel ⟨v⟩ ⟨hi⟩ = ((intRange v hi).map f, intRange v hi) := by
  intro fuel
  induction fuel with
  | zero =>
    intro v hv hf
    rw [intRange_nil v hi (by omega)]; rfl
  | succ m ih =>
    intro v hv hf
    have hlt : v < hi := by omega
    have hne : NewF.ne irBase (⟨v⟩ : IR) ⟨hi⟩ = true := by
      simp [NewF.ne, NewF.eq, irBase, IR.eq]; omega
    rw [transformLoopIR, hne, intRange_cons v hi hlt]
    simp only [if_true]
    have hinc : NewF.preInc irBase (⟨v⟩ : IR) = ⟨v + 1⟩ := rfl
    rw [hinc, ih (v + 1) (by omega) (by omega)]
    rfl

/-! ### loops over a container -/

theorem getAt_nat (c : List Int) (p : Nat) : getAt c (p : Int) = c[p]? := by
  have h : ¬ ((p : Int) < 0) := by omega
  simp [getAt, h]

theorem drop_take_succ (c : List Int) (p m : Nat) (h : p < c.length) :
    (c.drop p).take (m + 1) = c[p] :: (c.drop (p + 1)).take m := by
  rw [List.drop_eq_getElem_cons h]; rfl

/-- range-for through a legacy facade iterator from position `p` to position `e` visits `c[p], …, c[e-1]` -/
theorem legacyLoop_eq (conv : Bool) (c : List Int) (k e : Nat) (he : e ≤ c.length) :
    ∀ (fuel p : Nat), p ≤ e → fuel = e - p →
    legacyLoop conv c fuel ⟨k, p⟩ ⟨k, e⟩ = (c.drop p).take (e - p) := by
  intro fuel
  induction fuel with
  | zero => intro p hp hf; rw [← hf]; simp [legacyLoop]
  | succ m ih =>
    intro p hp hf
    have hlt : p < e := by omega
    have hne : Legacy.ne posCore conv (⟨k, p⟩ : It) ⟨k, e⟩ = true := by
      cases conv <;> simp [Legacy.ne, posCore] <;> omega
    have hd : dereference c ⟨k, p⟩ = some c[p] := by
      simp only [dereference, getAt_nat]; exact List.getElem?_eq_getElem (by omega)
    have hinc : Legacy.preInc posCore (⟨k, p⟩ : It) = ⟨k, ((p + 1 : Nat) : Int)⟩ := by
      simp [Legacy.preInc, posCore]
    rw [legacyLoop, hne, hd, hinc]
    simp only [if_true]
    rw [ih (p + 1) (by omega) (by omega), ← hf, drop_take_succ c p m (by omega)]
    congr 2; omega

theorem transformLoop_eq (f : Int → Int) (c : List Int) (k e : Nat) (he : e ≤ c.length) :
    ∀ (fuel p : Nat), p ≤ e → fuel = e - p →
    transformLoop f c fuel ⟨k, p⟩ ⟨k, e⟩ = (((c.drop p).take (e - p)).map f, (c.drop p).take (e - p)) := by
  intro fuel
  induction fuel with
  | zero => intro p hp hf; rw [← hf]; simp [transformLoop]
  | succ m ih =>
    intro p hp hf
    have hlt : p < e := by omega
    have hne : NewF.ne stdBase (⟨k, p⟩ : It) ⟨k, e⟩ = true := by
      simp [NewF.ne, NewF.eq, stdBase]; omega
    have hd : dereference c ⟨k, p⟩ = some c[p] := by
      simp only [dereference, getAt_nat]; exact List.getElem?_eq_getElem (by omega)
    have hinc : NewF.preInc stdBase (⟨k, p⟩ : It) = ⟨k, ((p + 1 : Nat) : Int)⟩ := by
      simp [NewF.preInc, stdBase]
    rw [transformLoop, hne, hd, hinc]
    simp only [if_true]
    rw [ih (p + 1) (by omega) (by omega), ← hf, drop_take_succ c p m (by omega)]
    have e1 : e - (p + 1) = m := by omega
    simp [e1]

/-- entries paired with their positions, starting at position `p` -/
def withIndexFrom : Nat → List Int → List (Int × Int)
  | _, [] => []
  | p, x :: xs => (x, (p : Int)) :: withIndexFrom (p + 1) xs

theorem sparseLoop_eq (c : List Int) (k e : Nat) (he : e ≤ c.length) :
    ∀ (fuel p : Nat), p ≤ e → fuel = e - p →
    sparseLoop c fuel ⟨k, p⟩ ⟨k, e⟩ = withIndexFrom p ((c.drop p).take (e - p)) := by
  intro fuel
  induction fuel with
  | zero => intro p hp hf; rw [← hf]; simp [sparseLoop, withIndexFrom]
  | succ m ih =>
    intro p hp hf
    have hlt : p < e := by omega
    have hne : NewF.ne denseBase (⟨k, p⟩ : It) ⟨k, e⟩ = true := by
      simp [NewF.ne, NewF.eq, denseBase, Legacy.eq, posCore]; omega
    have hd : dereference c ⟨k, p⟩ = some c[p] := by
      simp only [dereference, getAt_nat]; exact List.getElem?_eq_getElem (by omega)
    have hinc : NewF.preInc denseBase (⟨k, p⟩ : It) = ⟨k, ((p + 1 : Nat) : Int)⟩ := by
      simp [NewF.preInc, denseBase, Legacy.preInc, posCore]
    rw [sparseLoop, hne, hd, hinc]
    simp only [if_true]
    rw [ih (p + 1) (by omega) (by omega), ← hf, drop_take_succ c p m (by omega)]
    have e1 : e - (p + 1) = m := by omega
    simp [e1, withIndexFrom]

/-! ### hybrid index walk -/

theorem forEachIndex_cons_succ {σ : Type} (x : Int) (xs : List Int) (f : σ → Int → σ) :
    ∀ (is : List Nat) (s : σ),
    Hybrid.forEachIndex (x :: xs) f (is.map Nat.succ) s = Hybrid.forEachIndex xs f is s := by
  intro is
  induction is with
  | nil => intro s; rfl
  | cons i is ih =>
    intro s
    simp only [List.map_cons, Hybrid.forEachIndex]
    show (match Hybrid.elementAtStatic xs i with
      | some y => Hybrid.forEachIndex (x :: xs) f (is.map Nat.succ) (f s y)
      | none => Hybrid.forEachIndex (x :: xs) f (is.map Nat.succ) s) = _
    cases Hybrid.elementAtStatic xs i with
    | none => exact ih s
    | some y => exact ih (f s y)

theorem forEachStatic_cons {σ : Type} (x : Int) (xs : List Int) (f : σ → Int → σ) (s : σ) :
    Hybrid.forEachStatic (x :: xs) f s = Hybrid.forEachStatic xs f (f s x) := by
  unfold Hybrid.forEachStatic Hybrid.sizeStatic
  rw [List.length_cons, List.range_succ_eq_map]
  simp only [Hybrid.forEachIndex, Hybrid.elementAtStatic]
  exact forEachIndex_cons_succ x xs f _ _

end DV.C16
