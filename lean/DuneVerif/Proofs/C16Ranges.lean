/-
C16 — helper lemmas about the range loops (range-based `for` through the facade operators) and the
hybrid index walk.  The loop lemmas hold for EVERY fuel that is at least the length of the range: the loops stop by
themselves when the iterator reaches `end()`, the fuel never cuts them short.  Core Lean only.
-/
import DuneVerif.Proofs.C16Basic

namespace DV.C16

/-- the values `lo, lo+1, …, hi-1` -/
def intRange (lo hi : Int) : List Int := (List.range (hi - lo).toNat).map (fun (i : Nat) => lo + (i : Int))

theorem intRange_cons (lo hi : Int) (h : lo < hi) : intRange lo hi = lo :: intRange (lo + 1) hi := by
  unfold intRange
  have e : (hi - lo).toNat = (hi - (lo + 1)).toNat + 1 := by omega
  rw [e, List.range_succ_eq_map]
  simp only [List.map_cons, List.map_map]
  congr 1
  · simp
  · apply List.map_congr_left
    intro a _
    simp only [Function.comp]
    omega

theorem intRange_nil (lo hi : Int) (h : hi ≤ lo) : intRange lo hi = [] := by
  unfold intRange
  have e : (hi - lo).toNat = 0 := by omega
  rw [e]; rfl

theorem mem_intRange (lo hi x : Int) : x ∈ intRange lo hi ↔ lo ≤ x ∧ x < hi := by
  unfold intRange
  simp only [List.mem_map, List.mem_range]
  constructor
  · rintro ⟨i, hi', rfl⟩; omega
  · intro ⟨h1, h2⟩
    exact ⟨(x - lo).toNat, by omega, by omega⟩

theorem length_intRange (lo hi : Int) : (intRange lo hi).length = (hi - lo).toNat := by simp [intRange]

/-- the IntegralRange loop started at value `v` with any `fuel ≥ hi - v` produces `v … hi-1` -/
theorem enumLoop_eq (hi : Int) : ∀ (fuel : Nat) (v : Int), v ≤ hi → (hi - v).toNat ≤ fuel →
    IntegralRange.enumLoop fuel ⟨v⟩ ⟨hi⟩ = intRange v hi := by
  intro fuel
  induction fuel with
  | zero =>
    intro v hv hf
    rw [intRange_nil v hi (by omega)]; rfl
  | succ m ih =>
    intro v hv hf
    by_cases hlt : v < hi
    · have hne : IR.ne ⟨v⟩ ⟨hi⟩ = true := by simp [IR.ne_spec]; omega
      rw [IntegralRange.enumLoop, hne, intRange_cons v hi hlt]
      simp only [if_true, IR.deref_spec, IR.inc_spec]
      rw [ih (v + 1) (by omega) (by omega)]
    · have hne : IR.ne ⟨v⟩ ⟨hi⟩ = false := by simp [IR.ne_spec]; omega
      rw [IntegralRange.enumLoop, hne, intRange_nil v hi (by omega)]
      simp

theorem transformLoopIR_eq (f : Int → Int) (hi : Int) : ∀ (fuel : Nat) (v : Int), v ≤ hi → (hi - v).toNat ≤ fuel →
    transformLoopIR f fuel ⟨v⟩ ⟨hi⟩ = ((intRange v hi).map f, intRange v hi) := by
  intro fuel
  induction fuel with
  | zero =>
    intro v hv hf
    rw [intRange_nil v hi (by omega)]; rfl
  | succ m ih =>
    intro v hv hf
    by_cases hlt : v < hi
    · have hne : NewF.ne irBase (⟨v⟩ : IR) ⟨hi⟩ = true := by
        simp [NewF.ne_spec, NewF.eq, irBase, IR.eq_spec]; omega
      rw [transformLoopIR, hne, intRange_cons v hi hlt]
      simp only [if_true]
      have hinc : NewF.preInc irBase (⟨v⟩ : IR) = ⟨v + 1⟩ := rfl
      rw [hinc, ih (v + 1) (by omega) (by omega)]
      rfl
    · have hne : NewF.ne irBase (⟨v⟩ : IR) ⟨hi⟩ = false := by
        simp [NewF.ne_spec, NewF.eq, irBase, IR.eq_spec]; omega
      rw [transformLoopIR, hne, intRange_nil v hi (by omega)]
      simp

/-! ### loops over a container -/

theorem getAt_nat (c : List Int) (p : Nat) : getAt c (p : Int) = c[p]? := by
  have h : ¬ ((p : Int) < 0) := by omega
  simp [getAt, h]

theorem drop_take_succ (c : List Int) (p m : Nat) (h : p < c.length) :
    (c.drop p).take (m + 1) = c[p] :: (c.drop (p + 1)).take m := by
  rw [List.drop_eq_getElem_cons h]; rfl

/-- range-for through a legacy facade iterator (any lawful core `k`, any of the `!=` operators `ne` that decide
inequality of positions) from position `p` to position `e` visits `c[p], …, c[e-1]`, for every sufficient fuel -/
theorem legacyLoop_eq (k : Core It) (ne : It → It → Bool)
    (hinc : ∀ i : It, Legacy.preInc k i = ⟨i.cont, i.pos + 1⟩)
    (hne : ∀ (q : Nat) (p e : Int), ne ⟨q, p⟩ ⟨q, e⟩ = decide (p ≠ e))
    (c : List Int) (q e : Nat) (he : e ≤ c.length) :
    ∀ (fuel p : Nat), p ≤ e → e - p ≤ fuel →
    legacyLoop k ne c fuel ⟨q, p⟩ ⟨q, e⟩ = (c.drop p).take (e - p) := by
  intro fuel
  induction fuel with
  | zero => intro p hp hf; have : e - p = 0 := by omega
            rw [this]; simp [legacyLoop]
  | succ m ih =>
    intro p hp hf
    by_cases hlt : p < e
    · have hn : ne (⟨q, p⟩ : It) ⟨q, e⟩ = true := by rw [hne]; simp; omega
      have hd : getAt c ((p : Nat) : Int) = some c[p] := by
        rw [getAt_nat]; exact List.getElem?_eq_getElem (by omega)
      have hi : Legacy.preInc k (⟨q, p⟩ : It) = ⟨q, ((p + 1 : Nat) : Int)⟩ := by
        rw [hinc]; simp
      rw [legacyLoop, hn]
      simp only [if_true]
      rw [hd, hi]
      simp only []
      rw [ih (p + 1) (by omega) (by omega)]
      have e1 : e - p = (e - (p + 1)) + 1 := by omega
      rw [e1, drop_take_succ c p _ (by omega)]
    · have hpe : p = e := by omega
      have hn : ne (⟨q, p⟩ : It) ⟨q, e⟩ = false := by rw [hne]; simp; omega
      rw [legacyLoop, hn]
      have : e - p = 0 := by omega
      rw [this]; simp

theorem transformLoop_eq (f : Int → Int) (c : List Int) (k e : Nat) (he : e ≤ c.length) :
    ∀ (fuel p : Nat), p ≤ e → e - p ≤ fuel →
    transformLoop f c fuel ⟨k, p⟩ ⟨k, e⟩ = (((c.drop p).take (e - p)).map f, (c.drop p).take (e - p)) := by
  intro fuel
  induction fuel with
  | zero => intro p hp hf; have : e - p = 0 := by omega
            rw [this]; simp [transformLoop]
  | succ m ih =>
    intro p hp hf
    by_cases hlt : p < e
    · have hne : NewF.ne stdBase (⟨k, p⟩ : It) ⟨k, e⟩ = true := by
        simp [NewF.ne_spec, NewF.eq, stdBase]; omega
      have hd : getAt c ((p : Nat) : Int) = some c[p] := by
        rw [getAt_nat]; exact List.getElem?_eq_getElem (by omega)
      have hinc : NewF.preInc stdBase (⟨k, p⟩ : It) = ⟨k, ((p + 1 : Nat) : Int)⟩ := by
        simp [NewF.preInc, stdBase]
      rw [transformLoop, hne]
      simp only [if_true]
      rw [hd, hinc]
      simp only []
      rw [ih (p + 1) (by omega) (by omega)]
      have e1 : e - p = (e - (p + 1)) + 1 := by omega
      rw [e1, drop_take_succ c p _ (by omega)]
      simp
    · have hne : NewF.ne stdBase (⟨k, p⟩ : It) ⟨k, e⟩ = false := by
        simp [NewF.ne_spec, NewF.eq, stdBase]; omega
      rw [transformLoop, hne]
      have : e - p = 0 := by omega
      rw [this]; simp

/-- entries paired with their positions, starting at position `p` -/
def withIndexFrom : Nat → List Int → List (Int × Int)
  | _, [] => []
  | p, x :: xs => (x, (p : Int)) :: withIndexFrom (p + 1) xs

theorem sparseLoop_eq (c : List Int) (k e : Nat) (he : e ≤ c.length) :
    ∀ (fuel p : Nat), p ≤ e → e - p ≤ fuel →
    sparseLoop c fuel ⟨k, p⟩ ⟨k, e⟩ = withIndexFrom p ((c.drop p).take (e - p)) := by
  intro fuel
  induction fuel with
  | zero => intro p hp hf; have : e - p = 0 := by omega
            rw [this]; simp [sparseLoop, withIndexFrom]
  | succ m ih =>
    intro p hp hf
    by_cases hlt : p < e
    · have hne : NewF.ne denseBase (⟨k, p⟩ : It) ⟨k, e⟩ = true := by
        simp [NewF.ne_spec, NewF.eq, denseBase, Legacy.eq_spec, posCore_equals]; omega
      have hd : dereference c ⟨k, p⟩ = some c[p] := by
        simp only [dereference_spec, getAt_nat]; exact List.getElem?_eq_getElem (by omega)
      have hinc : NewF.preInc denseBase (⟨k, p⟩ : It) = ⟨k, ((p + 1 : Nat) : Int)⟩ := by
        simp [NewF.preInc, denseBase, Legacy.preInc, posCore_increment]
      rw [sparseLoop, hne]
      simp only [if_true]
      rw [hd, hinc]
      simp only []
      rw [ih (p + 1) (by omega) (by omega)]
      have e1 : e - p = (e - (p + 1)) + 1 := by omega
      rw [e1, drop_take_succ c p _ (by omega)]
      simp [withIndexFrom]
    · have hne : NewF.ne denseBase (⟨k, p⟩ : It) ⟨k, e⟩ = false := by
        simp [NewF.ne_spec, NewF.eq, denseBase, Legacy.eq_spec, posCore_equals]; omega
      rw [sparseLoop, hne]
      have : e - p = 0 := by omega
      rw [this]; simp [withIndexFrom]

/-! ### hybrid index walk -/

theorem forEachIndex_cons_succ {σ : Type} (x : Int) (xs : List Int) (f : σ → Int → σ) :
    ∀ (is : List Nat) (s : σ),
    Hybrid.forEachIndex (x :: xs) f (is.map Nat.succ) s = Hybrid.forEachIndex xs f is s := by
  intro is
  induction is with
  | nil => intro s; rfl
  | cons i is ih =>
    intro s
    simp only [List.map_cons, Hybrid.forEachIndex]
    show (match Hybrid.elementAtStatic xs i with
      | some y => Hybrid.forEachIndex (x :: xs) f (is.map Nat.succ) (f s y)
      | none => Hybrid.forEachIndex (x :: xs) f (is.map Nat.succ) s) = _
    cases Hybrid.elementAtStatic xs i with
    | none => exact ih s
    | some y => exact ih (f s y)

theorem forEachStatic_cons {σ : Type} (x : Int) (xs : List Int) (f : σ → Int → σ) (s : σ) :
    Hybrid.forEachStatic (x :: xs) f s = Hybrid.forEachStatic xs f (f s x) := by
  unfold Hybrid.forEachStatic Hybrid.sizeStatic
  rw [List.length_cons, List.range_succ_eq_map]
  simp only [Hybrid.forEachIndex, Hybrid.elementAtStatic]
  exact forEachIndex_cons_succ x xs f _ _

theorem forEachDynamic_eq_foldl {σ : Type} (c : List Int) (f : σ → Int → σ) (s : σ) :
    Hybrid.forEachDynamic c f s = c.foldl f s := by
  induction c generalizing s with
  | nil => rfl
  | cons x xs ih => exact ih (f s x)

/-- the sequence a static range converts to is `from … to-1` -/
theorem toSequence_eq (r : IntegralRange) : SR.toSequence r = intRange r.lo r.hi := by
  unfold SR.toSequence intRange
  apply List.map_congr_left
  intro a _; omega

end DV.C16
