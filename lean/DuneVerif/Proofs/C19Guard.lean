/-
C19 — helper lemmas for the guard part: closed form of one section, lock-step execution of programs that all
issue a collective, sequences of sections by induction.  Core Lean only.
-/
import DuneVerif.Model.C19

namespace DV.C19

/-- a program that issues exactly one collective and then returns -/
def OneSum {α : Type} : Prog α → Prop
  | .sum _ k => ∀ r, ∃ a, k r = .ret a
  | .ret _ => False

/-- the contribution of a rank to the `sum` of its section -/
def contribOf (a : Act) : Nat := if fails a then 1 else 0

/-- guard object of a rank after a section, given the global sum -/
def stateAfter (a : Act) (total : Nat) : Option Guard :=
  match a with
  | .finTrue => some { active := false }
  | .finDefault => some { active := false }
  | .finFalse => some { active := false }
  | .react => if total > 0 then some { active := false } else some { active := true }
  | .throwUser => none
  | .leave => none

def notArmed : Option Guard → Prop
  | some g => g.active = false
  | none => True

/-- every path of every rank through a section: exactly one `sum`, contribution 1 iff the rank fails, and the
observation afterwards depends only on the global sum -/
theorem sectionProg_eq (st : Option Guard) (s : Arm × Act) :
    sectionProg st s =
      .sum (contribOf s.2) (fun total => .ret (stateAfter s.2 total, expectedObs (decide (total > 0)) s.2)) := by
  obtain ⟨arm, act⟩ := s
  rcases st with _ | ⟨⟨_ | _⟩⟩ <;> cases arm <;> cases act <;>
    simp [sectionProg, armProg, actProg, destroy, reactivate, finalize, finalizeDefault, Prog.bind, contribOf, fails,
      stateAfter, expectedObs, obsOfThrow] <;>
    (funext total; by_cases h : 0 < total <;> simp [h, Prog.bind])

theorem scriptProg_cons (st : Option Guard) (s : Arm × Act) (ss : List (Arm × Act)) (acc : List Obs) :
    scriptProg st (s :: ss) acc =
      .sum (contribOf s.2) (fun total =>
        scriptProg (stateAfter s.2 total) ss (expectedObs (decide (total > 0)) s.2 :: acc)) := by
  simp [scriptProg, sectionProg_eq, Prog.bind]

theorem scriptProg_nil (st : Option Guard) (h : notArmed st) (acc : List Obs) :
    scriptProg st [] acc = .ret acc.reverse := by
  rcases st with _ | ⟨⟨a⟩⟩
  · simp [scriptProg, endProg, Prog.bind]
  · simp [notArmed] at h
    subst h
    simp [scriptProg, endProg, destroy, Prog.bind]

theorem stateAfter_notArmed (a : Act) (total : Nat) (h : a ≠ .react) : notArmed (stateAfter a total) := by
  cases a <;> simp [stateAfter, notArmed] at *

/-! ### lock step -/

theorem allRet_map_ret {ι α : Type} (l : List ι) (v : ι → α) :
    allRet (l.map fun i => Prog.ret (v i)) = some (l.map v) := by
  induction l with
  | nil => rfl
  | cons x xs ih => simp [allRet, ih]

theorem allRet_map_sum {ι α : Type} (l : List ι) (hl : l ≠ []) (c : ι → Nat) (k : ι → Nat → Prog α) :
    allRet (l.map fun i => Prog.sum (c i) (k i)) = none := by
  cases l with
  | nil => exact absurd rfl hl
  | cons x xs => simp [allRet]

theorem allSum_map_sum {ι α : Type} (l : List ι) (c : ι → Nat) (k : ι → Nat → Prog α) :
    allSum (l.map fun i => Prog.sum (c i) (k i)) = some (l.map fun i => (c i, k i)) := by
  induction l with
  | nil => rfl
  | cons x xs ih => simp [allSum, ih]

/-- when every rank is in a collective, the collective completes with the sum of all contributions -/
theorem runJoint_sum_step {ι α : Type} (fuel : Nat) (l : List ι) (hl : l ≠ []) (c : ι → Nat) (k : ι → Nat → Prog α) :
    runJoint (fuel + 1) (l.map fun i => Prog.sum (c i) (k i)) =
      runJoint fuel (l.map fun i => k i ((l.map c).sum)) := by
  simp [runJoint, allRet_map_sum l hl, allSum_map_sum, List.map_map, Function.comp_def]

theorem runJoint_ret {ι α : Type} (fuel : Nat) (l : List ι) (v : ι → α) :
    runJoint (fuel + 1) (l.map fun i => Prog.ret (v i)) = .done (l.map v) := by
  simp [runJoint, allRet_map_ret]

theorem sum_contrib_pos {ι : Type} (l : List ι) (f : ι → Act) :
    decide ((l.map fun i => contribOf (f i)).sum > 0) = l.any fun j => fails (f j) := by
  induction l with
  | nil => simp
  | cons x xs ih =>
    simp only [List.map_cons, List.sum_cons, List.any_cons]
    rw [← ih]
    by_cases hx : fails (f x) = true
    · simp [contribOf, hx]; omega
    · simp [contribOf, hx]

/-- what the property demands of rank `i` in section `k` of a case -/
def specObs (members : List Nat) (script : Nat → Nat → Arm × Act) (i k : Nat) : Obs :=
  expectedObs (members.any fun j => fails (script j k).2) (script i k).2

/-- the hypothesis on the last section: a rank that re-arms by `reactivate()` must run another section -/
def LastOk (members : List Nat) (script : Nat → Nat → Arm × Act) (st : Nat → Option Guard) : Nat → Prop
  | 0 => ∀ i ∈ members, notArmed (st i)
  | n + 1 => ∀ i ∈ members, (script i n).2 ≠ .react

/-- sequences of sections, by induction on the number of sections -/
theorem joint_scripts (members : List Nat) :
    ∀ (n fuel : Nat) (script : Nat → Nat → Arm × Act) (st : Nat → Option Guard) (acc : Nat → List Obs),
      n < fuel → LastOk members script st n →
      runJoint fuel (members.map fun i => scriptProg (st i) ((List.range n).map (script i)) (acc i)) =
        .done (members.map fun i => (acc i).reverse ++ (List.range n).map (specObs members script i)) := by
  intro n
  induction n with
  | zero =>
    intro fuel script st acc hf hl
    obtain ⟨f, rfl⟩ : ∃ f, fuel = f + 1 := ⟨fuel - 1, by omega⟩
    have : (members.map fun i => scriptProg (st i) ((List.range 0).map (script i)) (acc i)) =
        members.map fun i => Prog.ret ((acc i).reverse) := by
      apply List.map_congr_left
      intro i hi
      simp [scriptProg_nil (st i) (hl i hi)]
    rw [this, runJoint_ret]
    simp
  | succ n ih =>
    intro fuel script st acc hf hl
    obtain ⟨f, rfl⟩ : ∃ f, fuel = f + 1 := ⟨fuel - 1, by omega⟩
    by_cases hm : members = []
    · subst hm; simp [runJoint, allRet]
    · have hprog : (members.map fun i => scriptProg (st i) ((List.range (n + 1)).map (script i)) (acc i)) =
          members.map fun i => Prog.sum (contribOf (script i 0).2) (fun total =>
            scriptProg (stateAfter (script i 0).2 total) ((List.range n).map (fun k => script i (k + 1)))
              (expectedObs (decide (total > 0)) (script i 0).2 :: acc i)) := by
        apply List.map_congr_left
        intro i _
        rw [List.range_succ_eq_map]
        simp [scriptProg_cons, List.map_map, Function.comp_def]
      rw [hprog, runJoint_sum_step f members hm]
      have hl' : LastOk members (fun i k => script i (k + 1))
          (fun i => stateAfter (script i 0).2 ((members.map fun i => contribOf (script i 0).2).sum)) n := by
        cases n with
        | zero =>
          intro i hi
          exact stateAfter_notArmed _ _ (hl i hi)
        | succ n' =>
          intro i hi
          exact hl i hi
      rw [ih f (fun i k => script i (k + 1)) _ _ (by omega) hl']
      congr 1
      apply List.map_congr_left
      intro i _
      rw [List.range_succ_eq_map]
      have hs := sum_contrib_pos members (fun j => (script j 0).2)
      simp only [gt_iff_lt] at hs
      simp [specObs, hs, List.map_map, Function.comp_def]

/-! ### programs of the shape `OneSum` never deadlock -/

theorem allRet_of_forall_ret {α : Type} (ps : List (Prog α)) (h : ∀ p ∈ ps, ∃ a, p = .ret a) :
    ∃ vs, allRet ps = some vs ∧ vs.length = ps.length := by
  induction ps with
  | nil => exact ⟨[], rfl, rfl⟩
  | cons p ps ih =>
    obtain ⟨a, rfl⟩ := h p (by simp)
    obtain ⟨vs, hvs, hlen⟩ := ih (fun q hq => h q (by simp [hq]))
    exact ⟨a :: vs, by simp [allRet, hvs], by simp [hlen]⟩

theorem allSum_of_oneSum {α : Type} (ps : List (Prog α)) (h : ∀ p ∈ ps, OneSum p) :
    ∃ cks, allSum ps = some cks ∧ cks.length = ps.length ∧ ∀ ck ∈ cks, ∀ r, ∃ a, ck.2 r = Prog.ret a := by
  induction ps with
  | nil => exact ⟨[], rfl, rfl, by simp⟩
  | cons p ps ih =>
    obtain ⟨cks, hcks, hlen, hk⟩ := ih (fun q hq => h q (by simp [hq]))
    have hp := h p (by simp)
    cases p with
    | ret a => exact absurd hp (by simp [OneSum])
    | sum c k =>
      refine ⟨(c, k) :: cks, by simp [allSum, hcks], by simp [hlen], ?_⟩
      intro ck hck
      rcases List.mem_cons.mp hck with rfl | hmem
      · exact hp
      · exact hk ck hmem

theorem allRet_none_of_oneSum {α : Type} (ps : List (Prog α)) (hne : ps ≠ []) (h : ∀ p ∈ ps, OneSum p) :
    allRet ps = none := by
  cases ps with
  | nil => exact absurd rfl hne
  | cons p ps =>
    have hp := h p (by simp)
    cases p with
    | ret a => exact absurd hp (by simp [OneSum])
    | sum c k => simp [allRet]

end DV.C19
