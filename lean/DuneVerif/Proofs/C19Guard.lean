/-
C19 — helper lemmas for the guard part: closed form of one section, lock-step execution of programs that all
issue a collective, sequences of sections by induction.  Core Lean only.
-/
import DuneVerif.Model.C19

namespace DV.C19

/-- a program that issues exactly one collective and then returns -/
def OneSum {α : Type} : Prog α → Prop
  | .sum _ k => ∀ r, ∃ a, k r = .ret a
  | .ret _ => False

/-- the contribution of a rank to the `sum` of its section -/
def contribOf (a : Act) : Nat := if fails a then 1 else 0

/-- guard object of a rank after a section, given the global sum -/
def stateAfter (a : Act) (total : Nat) : Option Guard :=
  match a with
  | .finTrue => some { active := false }
  | .finDefault => some { active := false }
  | .finFalse => some { active := false }
  | .react => if total > 0 then some { active := false } else some { active := true }
  | .throwUser => none
  | .leave => none

def notArmed : Option Guard → Prop
  | some g => g.active = false
  | none => True

/-- every path of every rank through a section: exactly one `sum`, contribution 1 iff the rank fails, and the
observation afterwards depends only on the global sum -/
theorem sectionProg_eq (st : Option Guard) (s : Arm × Act) :
    sectionProg st s =
      .sum (contribOf s.2) (fun total => .ret (stateAfter s.2 total, expectedObs (decide (total > 0)) s.2)) := by
  obtain ⟨arm, act⟩ := s
  rcases st with _ | ⟨⟨_ | _⟩⟩ <;> cases arm <;> cases act <;>
    simp [sectionProg, armProg, actProg, destroy, reactivate, finalize, finalizeDefault, Prog.bind, contribOf, fails,
      stateAfter, expectedObs, obsOfThrow] <;>
    (funext total; by_cases h : 0 < total <;> simp [h, Prog.bind])

theorem scriptProg_cons (st : Option Guard) (s : Arm × Act) (ss : List (Arm × Act)) (acc : List Obs) :
    scriptProg st (s :: ss) acc =
      .sum (contribOf s.2) (fun total =>
        scriptProg (stateAfter s.2 total) ss (expectedObs (decide (total > 0)) s.2 :: acc)) := by
  simp [scriptProg, sectionProg_eq, Prog.bind]

theorem scriptProg_nil (st : Option Guard) (h : notArmed st) (acc : List Obs) :
    scriptProg st [] acc = .ret acc.reverse := by
  rcases st with _ | ⟨⟨a⟩⟩
  · simp [scriptProg, endProg, Prog.bind]
  · simp [notArmed] at h
    subst h
    simp [scriptProg, endProg, destroy, Prog.bind]

theorem stateAfter_notArmed (a : Act) (total : Nat) (h : a ≠ .react) : notArmed (stateAfter a total) := by
  cases a <;> simp [stateAfter, notArmed] at *

/-! ### lock step -/

theorem allRet_map_ret {ι α : Type} (l : List ι) (v : ι → α) :
    allRet (l.map fun i => Prog.ret (v i)) = some (l.map v) := by
  induction l with
  | nil => rfl
  | cons x xs ih => simp [allRet, ih]

theorem allRet_map_sum {ι α : Type} (l : List ι) (hl : l ≠ []) (c : ι → Nat) (k : ι → Nat → Prog α) :
    allRet (l.map fun i => Prog.sum (c i) (k i)) = none := by
  cases l with
  | nil => exact absurd rfl hl
  | cons x xs => simp [allRet]

theorem allSum_map_sum {ι α : Type} (l : List ι) (c : ι → Nat) (k : ι → Nat → Prog α) :
    allSum (l.map fun i => Prog.sum (c i) (k i)) = some (l.map fun i => (c i, k i)) := by
  induction l with
  | nil => rfl
  | cons x xs ih => simp [allSum, ih]

/-- when every rank is in a collective, the collective completes with the sum of all contributions -/
theorem runJoint_sum_step {ι α : Type} (fuel : Nat) (l : List ι) (hl : l ≠ []) (c : ι → Nat) (k : ι → Nat → Prog α) :
    runJoint (fuel + 1) (l.map fun i => Prog.sum (c i) (k i)) =
      runJoint fuel (l.map fun i => k i ((l.map c).sum)) := by
  simp [runJoint, allRet_map_sum l hl, allSum_map_sum, List.map_map, Function.comp_def]

theorem runJoint_ret {ι α : Type} (fuel : Nat) (l : List ι) (v : ι → α) :
    runJoint (fuel + 1) (l.map fun i => Prog.ret (v i)) = .done (l.map v) := by
  simp [runJoint, allRet_map_ret]

theorem sum_contrib_pos {ι : Type} (l : List ι) (f : ι → Act) :
    decide ((l.map fun i => contribOf (f i)).sum > 0) = l.any fun j => fails (f j) := by
  induction l with
  | nil => simp
  | cons x xs ih =>
    simp only [List.map_cons, List.sum_cons, List.any_cons]
    rw [← ih]
    by_cases hx : fails (f x) = true
    · simp [contribOf, hx]; omega
    · simp [contribOf, hx]

/-- what the property demands of rank `i` in section `k` of a case -/
def specObs (members : List Nat) (script : Nat → Nat → Arm × Act) (i k : Nat) : Obs :=
  expectedObs (members.any fun j => fails (script j k).2) (script i k).2

/-! ### the end of a case: ranks that still hold an armed guard (last call was a successful `reactivate()`) -/

def isArmed : Option Guard → Bool
  | some g => g.active
  | none => false

theorem notArmed_iff (st : Option Guard) : notArmed st ↔ isArmed st = false := by
  rcases st with _ | ⟨⟨a⟩⟩ <;> simp [notArmed, isArmed]

/-- the guard object of an armed rank is deleted at the end of the case: its destructor issues `sum(1)` and, because
it clears `active_` first, does not throw -/
theorem scriptProg_nil_armed (st : Option Guard) (h : isArmed st = true) (acc : List Obs) :
    scriptProg st [] acc = .sum 1 (fun _ => .ret acc.reverse) := by
  rcases st with _ | ⟨⟨a⟩⟩
  · simp [isArmed] at h
  · simp [isArmed] at h
    subst h
    simp [scriptProg, endProg, destroy, finalize, Prog.bind]

theorem allRet_none_of_mem {α : Type} (ps : List (Prog α)) (c : Nat) (k : Nat → Prog α)
    (h : Prog.sum c k ∈ ps) : allRet ps = none := by
  induction ps with
  | nil => simp at h
  | cons p ps ih =>
    cases p with
    | sum c' k' => simp [allRet]
    | ret a =>
      have : Prog.sum c k ∈ ps := by simpa using h
      simp [allRet, ih this]

theorem allSum_none_of_mem {α : Type} (ps : List (Prog α)) (a : α) (h : Prog.ret a ∈ ps) : allSum ps = none := by
  induction ps with
  | nil => simp at h
  | cons p ps ih =>
    cases p with
    | ret a' => simp [allSum]
    | sum c k =>
      have : Prog.ret a ∈ ps := by simpa using h
      simp [allSum, ih this]

/-- a rank waits in a collective that a rank which has already returned never enters -/
theorem runJoint_mixed_deadlock {α : Type} (fuel : Nat) (ps : List (Prog α)) (c : Nat) (k : Nat → Prog α) (a : α)
    (hs : Prog.sum c k ∈ ps) (hr : Prog.ret a ∈ ps) : runJoint (fuel + 1) ps = .deadlock := by
  simp [runJoint, allRet_none_of_mem ps c k hs, allSum_none_of_mem ps a hr]

/-- outcome of the end of a case, given the guard objects the ranks hold after the last section -/
def endOutcome (members : List Nat) (st : Nat → Option Guard) (rows : Nat → List Obs) : Outcome (List Obs) :=
  if (members.all fun i => !isArmed (st i)) || (members.all fun i => isArmed (st i)) then .done (members.map rows)
  else .deadlock

theorem endOutcome_congr (members : List Nat) (st : Nat → Option Guard) (r1 r2 : Nat → List Obs)
    (h : ∀ i ∈ members, r1 i = r2 i) : endOutcome members st r1 = endOutcome members st r2 := by
  unfold endOutcome
  rw [List.map_congr_left h]

theorem runJoint_end (members : List Nat) (fuel : Nat) (st : Nat → Option Guard) (acc : Nat → List Obs)
    (hf : 2 ≤ fuel) :
    runJoint fuel (members.map fun i => scriptProg (st i) [] (acc i)) =
      endOutcome members st (fun i => (acc i).reverse) := by
  obtain ⟨f, rfl⟩ : ∃ f, fuel = f + 2 := ⟨fuel - 2, by omega⟩
  unfold endOutcome
  by_cases hU : (members.all fun i => !isArmed (st i)) = true
  · -- nobody armed: every rank returns
    have : (members.map fun i => scriptProg (st i) [] (acc i)) = members.map fun i => Prog.ret ((acc i).reverse) := by
      apply List.map_congr_left
      intro i hi
      have := List.all_eq_true.mp hU i hi
      exact scriptProg_nil (st i) ((notArmed_iff _).mpr (by simpa using this)) (acc i)
    rw [this, runJoint_ret]
    simp [hU]
  · by_cases hA : (members.all fun i => isArmed (st i)) = true
    · -- everybody armed: one more matched collective (the destructors), then every rank returns
      have hne : members ≠ [] := by
        intro h; subst h; simp at hU
      have : (members.map fun i => scriptProg (st i) [] (acc i)) =
          members.map fun i => Prog.sum 1 (fun _ => Prog.ret ((acc i).reverse)) := by
        apply List.map_congr_left
        intro i hi
        exact scriptProg_nil_armed (st i) (List.all_eq_true.mp hA i hi) (acc i)
      rw [this, runJoint_sum_step (f + 1) members hne (fun _ => 1) (fun i _ => Prog.ret ((acc i).reverse)),
        runJoint_ret]
      simp [hA]
    · -- mixed: deadlock
      have hU' : ∃ i ∈ members, isArmed (st i) = true := by
        simpa using hU
      have hA' : ∃ j ∈ members, isArmed (st j) = false := by
        simpa using hA
      obtain ⟨i, hi, hia⟩ := hU'
      obtain ⟨j, hj, hja⟩ := hA'
      have hs : Prog.sum 1 (fun _ => Prog.ret ((acc i).reverse)) ∈
          members.map fun i => scriptProg (st i) [] (acc i) :=
        List.mem_map.mpr ⟨i, hi, scriptProg_nil_armed (st i) hia (acc i)⟩
      have hr : Prog.ret ((acc j).reverse) ∈ members.map fun i => scriptProg (st i) [] (acc i) :=
        List.mem_map.mpr ⟨j, hj, scriptProg_nil (st j) ((notArmed_iff _).mpr hja) (acc j)⟩
      rw [runJoint_mixed_deadlock (f + 1) _ _ _ _ hs hr]
      simp [hU, hA]

/-- global sum of the collective of section `k` -/
def sectionTotal (members : List Nat) (script : Nat → Nat → Arm × Act) (k : Nat) : Nat :=
  (members.map fun i => contribOf (script i k).2).sum

/-- the guard objects after `n` sections -/
def finalSt (members : List Nat) : Nat → (Nat → Nat → Arm × Act) → (Nat → Option Guard) → Nat → Option Guard
  | 0, _, st => st
  | n + 1, script, _ =>
    finalSt members n (fun i k => script i (k + 1))
      (fun i => stateAfter (script i 0).2 (sectionTotal members script 0))

/-- sequences of sections with an arbitrary end, by induction on the number of sections -/
theorem joint_scripts_end (members : List Nat) :
    ∀ (n fuel : Nat) (script : Nat → Nat → Arm × Act) (st : Nat → Option Guard) (acc : Nat → List Obs),
      n + 1 < fuel →
      runJoint fuel (members.map fun i => scriptProg (st i) ((List.range n).map (script i)) (acc i)) =
        endOutcome members (finalSt members n script st)
          (fun i => (acc i).reverse ++ (List.range n).map (specObs members script i)) := by
  intro n
  induction n with
  | zero =>
    intro fuel script st acc hf
    have := runJoint_end members fuel st acc (by omega)
    simpa [finalSt] using this
  | succ n ih =>
    intro fuel script st acc hf
    obtain ⟨f, rfl⟩ : ∃ f, fuel = f + 1 := ⟨fuel - 1, by omega⟩
    by_cases hm : members = []
    · subst hm; simp [runJoint, allRet, endOutcome]
    · have hprog : (members.map fun i => scriptProg (st i) ((List.range (n + 1)).map (script i)) (acc i)) =
          members.map fun i => Prog.sum (contribOf (script i 0).2) (fun total =>
            scriptProg (stateAfter (script i 0).2 total) ((List.range n).map (fun k => script i (k + 1)))
              (expectedObs (decide (total > 0)) (script i 0).2 :: acc i)) := by
        apply List.map_congr_left
        intro i _
        rw [List.range_succ_eq_map]
        simp [scriptProg_cons, List.map_map, Function.comp_def]
      rw [hprog, runJoint_sum_step f members hm]
      rw [ih f (fun i k => script i (k + 1)) _ _ (by omega)]
      simp only [finalSt, sectionTotal]
      apply endOutcome_congr
      intro i _
      rw [List.range_succ_eq_map]
      have hs := sum_contrib_pos members (fun j => (script j 0).2)
      simp only [gt_iff_lt] at hs
      simp [specObs, hs, List.map_map, Function.comp_def]

theorem isArmed_finalSt (members : List Nat) (i : Nat) :
    ∀ (n : Nat) (script : Nat → Nat → Arm × Act) (st : Nat → Option Guard),
      isArmed (finalSt members (n + 1) script st i) = endsArmed members script (n + 1) i := by
  intro n
  induction n with
  | zero =>
    intro script st
    have hs := sum_contrib_pos members (fun j => (script j 0).2)
    simp only [gt_iff_lt] at hs
    simp only [finalSt, endsArmed, sectionTotal]
    rw [← hs]
    generalize (members.map fun j => contribOf (script j 0).2).sum = t
    cases h : (script i 0).2 <;> by_cases ht : 0 < t <;> simp [stateAfter, isArmed, ht]
  | succ n ih =>
    intro script st
    have e : finalSt members (n + 1 + 1) script st =
        finalSt members (n + 1) (fun i k => script i (k + 1))
          (fun i => stateAfter (script i 0).2 (sectionTotal members script 0)) := rfl
    rw [e, ih]
    simp [endsArmed]

theorem isArmed_final (members : List Nat) (script : Nat → Nat → Arm × Act) (n i : Nat) :
    isArmed (finalSt members n script (fun _ => none) i) = endsArmed members script n i := by
  cases n with
  | zero => rfl
  | succ n => exact isArmed_finalSt members i n script _

/-- the sections of the ranks of a communicator match at the end of the case: either no member or every member still
holds an armed guard (i.e. ended with a successful `reactivate()` checkpoint and therefore owes one more section) -/
def EndsMatched (members : List Nat) (script : Nat → Nat → Arm × Act) (n : Nat) : Prop :=
  (∀ i ∈ members, endsArmed members script n i = false) ∨ (∀ i ∈ members, endsArmed members script n i = true)

theorem endsMatchedB_iff (members : List Nat) (script : Nat → Nat → Arm × Act) (n : Nat) :
    endsMatchedB members script n = true ↔ EndsMatched members script n := by
  unfold endsMatchedB EndsMatched
  simp [List.all_eq_true]

theorem endOutcome_matched (members : List Nat) (script : Nat → Nat → Arm × Act) (n : Nat)
    (h : EndsMatched members script n) (rows : Nat → List Obs) :
    endOutcome members (finalSt members n script (fun _ => none)) rows = .done (members.map rows) := by
  unfold endOutcome
  simp only [isArmed_final]
  rcases h with h | h
  · have : (members.all fun i => !endsArmed members script n i) = true :=
      List.all_eq_true.mpr fun i hi => by simp [h i hi]
    simp [this]
  · have : (members.all fun i => endsArmed members script n i) = true :=
      List.all_eq_true.mpr fun i hi => h i hi
    simp [this]

theorem endOutcome_unmatched (members : List Nat) (script : Nat → Nat → Arm × Act) (n : Nat)
    (h : ¬ EndsMatched members script n) (rows : Nat → List Obs) :
    endOutcome members (finalSt members n script (fun _ => none)) rows = .deadlock := by
  unfold endOutcome
  simp only [isArmed_final]
  have h1 : (members.all fun i => !endsArmed members script n i) = false := by
    apply Bool.eq_false_iff.mpr
    intro hc
    exact h (Or.inl fun i hi => by simpa using List.all_eq_true.mp hc i hi)
  have h2 : (members.all fun i => endsArmed members script n i) = false := by
    apply Bool.eq_false_iff.mpr
    intro hc
    exact h (Or.inr fun i hi => List.all_eq_true.mp hc i hi)
  simp [h1, h2]

/-! ### programs of the shape `OneSum` never deadlock -/

theorem allRet_of_forall_ret {α : Type} (ps : List (Prog α)) (h : ∀ p ∈ ps, ∃ a, p = .ret a) :
    ∃ vs, allRet ps = some vs ∧ vs.length = ps.length := by
  induction ps with
  | nil => exact ⟨[], rfl, rfl⟩
  | cons p ps ih =>
    obtain ⟨a, rfl⟩ := h p (by simp)
    obtain ⟨vs, hvs, hlen⟩ := ih (fun q hq => h q (by simp [hq]))
    exact ⟨a :: vs, by simp [allRet, hvs], by simp [hlen]⟩

theorem allSum_of_oneSum {α : Type} (ps : List (Prog α)) (h : ∀ p ∈ ps, OneSum p) :
    ∃ cks, allSum ps = some cks ∧ cks.length = ps.length ∧ ∀ ck ∈ cks, ∀ r, ∃ a, ck.2 r = Prog.ret a := by
  induction ps with
  | nil => exact ⟨[], rfl, rfl, by simp⟩
  | cons p ps ih =>
    obtain ⟨cks, hcks, hlen, hk⟩ := ih (fun q hq => h q (by simp [hq]))
    have hp := h p (by simp)
    cases p with
    | ret a => exact absurd hp (by simp [OneSum])
    | sum c k =>
      refine ⟨(c, k) :: cks, by simp [allSum, hcks], by simp [hlen], ?_⟩
      intro ck hck
      rcases List.mem_cons.mp hck with rfl | hmem
      · exact hp
      · exact hk ck hmem

theorem allRet_none_of_oneSum {α : Type} (ps : List (Prog α)) (hne : ps ≠ []) (h : ∀ p ∈ ps, OneSum p) :
    allRet ps = none := by
  cases ps with
  | nil => exact absurd rfl hne
  | cons p ps =>
    have hp := h p (by simp)
    cases p with
    | ret a => exact absurd hp (by simp [OneSum])
    | sum c k => simp [allRet]

end DV.C19
