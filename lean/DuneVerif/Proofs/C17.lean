/-
C17 — helper lemmas and the specification vocabulary used by Props/C17.lean.

`K` is an arbitrary linearly ordered field.  `absK/maxK/minK` (the written-out `std::abs/max/min` of the model)
are Mathlib's `|·|`, `max`, `min`; `tol` is the documented tolerance of a comparison style; `IsTrunc tr` says that
`tr` behaves like the C++ conversion `I(val)` (truncation toward zero).
-/
import DuneVerif.Model.C17
import DuneVerif.Proofs.C17FP
import Mathlib.Algebra.Order.Field.Basic
import Mathlib.Algebra.Order.Ring.Abs
import Mathlib.Algebra.Order.Ring.Cast
import Mathlib.Tactic.Linarith
import Mathlib.Tactic.Push

set_option linter.unusedSectionVars false
set_option linter.unusedSimpArgs false
namespace DV.C17
variable {K : Type} [Field K] [LinearOrder K] [IsStrictOrderedRing K]

theorem absK_eq_abs (x : K) : absK x = |x| := by
  unfold absK; split
  · rename_i h; exact (abs_of_neg h).symm
  · rename_i h; exact (abs_of_nonneg (not_lt.mp h)).symm

theorem maxK_eq_max (a b : K) : maxK a b = max a b := by
  unfold maxK; split
  · rename_i h; exact (max_eq_right (le_of_lt h)).symm
  · rename_i h; exact (max_eq_left (not_lt.mp h)).symm

theorem minK_eq_min (a b : K) : minK a b = min a b := by
  unfold minK; split
  · rename_i h; exact (min_eq_right (le_of_lt h)).symm
  · rename_i h; exact (min_eq_left (not_lt.mp h)).symm

/-- the documented tolerance of a style: `eq(a,b) ⇔ |a-b| ≤ tol` -/
def tol (s : Style) (a b e : K) : K :=
  match s with
  | .relativeWeak => e * max |a| |b|
  | .relativeStrong => e * min |a| |b|
  | .absolute => e

-- (the permutation lemmas make the proof independent of the order in which the source writes the operands of
--  `max`/`min`, of the product and of the difference)
theorem eqS_iff (s : Style) (a b e : K) : eqS s a b e = true ↔ |a - b| ≤ tol s a b e := by
  cases s <;> simp [eqS, tol, Gen.eq_relativeWeak, Gen.eq_relativeStrong, Gen.eq_absolute, absK_eq_abs, maxK_eq_max, minK_eq_min,
    max_comm, min_comm, abs_sub_comm, mul_comm]

theorem tol_comm (s : Style) (a b e : K) : tol s a b e = tol s b a e := by
  cases s <;> simp [tol, max_comm, min_comm]

theorem tol_nonneg (s : Style) (a b e : K) (h : 0 ≤ e) : 0 ≤ tol s a b e := by
  cases s
  · exact mul_nonneg h (le_max_of_le_left (abs_nonneg a))
  · exact mul_nonneg h (le_min (abs_nonneg a) (abs_nonneg b))
  · exact h

/-- operands of size at most 1 have tolerance at most epsilon -/
theorem tol_le (s : Style) (a b e : K) (h : 0 ≤ e) (ha : |a| ≤ 1) (hb : |b| ≤ 1) : tol s a b e ≤ e := by
  cases s
  · calc e * max |a| |b| ≤ e * 1 := mul_le_mul_of_nonneg_left (max_le ha hb) h
      _ = e := mul_one e
  · calc e * min |a| |b| ≤ e * 1 := mul_le_mul_of_nonneg_left (le_trans (min_le_left _ _) ha) h
      _ = e := mul_one e
  · exact le_refl e

theorem eqS_symm (s : Style) (a b e : K) : eqS s a b e = eqS s b a e := by
  rw [Bool.eq_iff_iff, eqS_iff, eqS_iff, abs_sub_comm, tol_comm]

theorem eqS_refl (s : Style) (a e : K) (h : 0 ≤ e) : eqS s a a e = true := by
  rw [eqS_iff, sub_self, abs_zero]; exact tol_nonneg s a a e h

/-- in a linear order any two scalars compare in exactly one of the three ways -/
theorem tri_of_linear (x y : K) : Tri x y := by
  unfold Tri
  rcases lt_trichotomy x y with h | h | h
  · right; left; exact ⟨ne_of_lt h, h, not_lt_of_gt h⟩
  · left; subst h; exact ⟨rfl, lt_irrefl _, lt_irrefl _⟩
  · right; right; exact ⟨ne_of_gt h, not_lt_of_gt h, h⟩

/-- the lexicographic `<` of `std::vector` is a strict total order -/
theorem lexLt_total (a b : List K) :
    (a = b ∧ lexLt a b = false ∧ lexLt b a = false) ∨
    (a ≠ b ∧ lexLt a b = true ∧ lexLt b a = false) ∨
    (a ≠ b ∧ lexLt a b = false ∧ lexLt b a = true) :=
  lexLt_total_of a b (fun x _ y _ => tri_of_linear x y)

/-- a non-negative number and a number at most -1 are not equal within an epsilon below 1 (any style) -/
theorem eqS_opposite_false (s : Style) (a x e : K) (ha : 0 ≤ a) (hx : x ≤ -1) (he : e < 1) : eqS s a x e = false := by
  rw [Bool.eq_false_iff, Ne, eqS_iff]
  intro h
  have hxa : |x| = -x := abs_of_neg (by linarith)
  have haa : |a| = a := abs_of_nonneg ha
  have hd : |a - x| = a - x := abs_of_pos (by linarith)
  rw [hd] at h
  cases s
  · simp only [tol, hxa, haa] at h
    have hm : (1 : K) ≤ max a (-x) := le_max_of_le_right (by linarith)
    have hm2 : max a (-x) ≤ a - x := max_le (by linarith) (by linarith)
    have : e * max a (-x) < 1 * max a (-x) := mul_lt_mul_of_pos_right he (by linarith)
    linarith
  · simp only [tol, hxa, haa] at h
    have hm0 : (0 : K) ≤ min a (-x) := le_min ha (by linarith)
    have hm2 : min a (-x) ≤ a := min_le_left _ _
    have : e * min a (-x) ≤ 1 * min a (-x) := mul_le_mul_of_nonneg_right (le_of_lt he) hm0
    linarith
  · simp only [tol] at h
    linarith

/-- two numbers of magnitude at least 1 at distance below 1 that are not equal within epsilon: epsilon is below 1 -/
theorem lt_one_of_not_eq_near (s : Style) (p x e : K) (hp : 1 ≤ |p|) (hx : 1 ≤ |x|) (hd : |p - x| < 1)
    (h : eqS s p x e = false) : e < 1 := by
  by_contra he
  have he1 : 1 ≤ e := not_lt.mp he
  rw [Bool.eq_false_iff, Ne, eqS_iff] at h
  apply h
  cases s
  · simp only [tol]
    have : (1 : K) ≤ e * max |p| |x| := by
      calc (1 : K) = 1 * 1 := (one_mul 1).symm
        _ ≤ e * max |p| |x| := mul_le_mul he1 (le_max_of_le_left hp) zero_le_one (by linarith)
    linarith
  · simp only [tol]
    have : (1 : K) ≤ e * min |p| |x| := by
      calc (1 : K) = 1 * 1 := (one_mul 1).symm
        _ ≤ e * min |p| |x| := mul_le_mul he1 (le_min hp hx) zero_le_one (by linarith)
    linarith
  · simp only [tol]; linarith

/-! ### rounding -/

/-- `tr` is the C++ floating → integer conversion: truncation toward zero -/
def IsTrunc (tr : K → Int) : Prop :=
  ∀ x : K, (0 ≤ x → ((tr x : Int) : K) ≤ x ∧ x < ((tr x : Int) : K) + 1) ∧
           (x ≤ 0 → x ≤ ((tr x : Int) : K) ∧ ((tr x : Int) : K) - 1 < x)


theorem floor_unique {x : K} {l l' : Int} (h1 : (l : K) ≤ x) (h2 : x < (l : K) + 1)
    (h1' : (l' : K) ≤ x) (h2' : x < (l' : K) + 1) : l = l' := by
  have a : (l : K) < ((l' + 1 : Int) : K) := by push_cast; linarith
  have b : (l' : K) < ((l + 1 : Int) : K) := by push_cast; linarith
  have a' := Int.cast_lt.mp a
  have b' := Int.cast_lt.mp b
  omega

/-- the floor computed by the code from the truncation -/
def floorOf (tr : K → Int) (x : K) : Int := if ((tr x : Int) : K) > x then tr x - 1 else tr x

theorem floorOf_spec {tr : K → Int} (htr : IsTrunc tr) (x : K) :
    ((floorOf tr x : Int) : K) ≤ x ∧ x < ((floorOf tr x : Int) : K) + 1 := by
  unfold floorOf
  rcases le_total 0 x with h | h
  · have h1 := (htr x).1 h
    have hng : ¬ ((tr x : Int) : K) > x := not_lt.mpr h1.1
    simp only [hng, if_false]; exact h1
  · have h1 := (htr x).2 h
    by_cases hg : ((tr x : Int) : K) > x
    · simp only [hg, if_true]; push_cast; constructor <;> linarith
    · simp only [hg, if_false]
      have : ((tr x : Int) : K) = x := le_antisymm (not_lt.mp hg) h1.1
      constructor <;> linarith

theorem trunc_abs_lt_one {tr : K → Int} (htr : IsTrunc tr) (x : K) : |((tr x : Int) : K) - x| < 1 := by
  rw [abs_lt]
  rcases le_total 0 x with h | h
  · have := (htr x).1 h; constructor <;> linarith
  · have := (htr x).2 h; constructor <;> linarith

theorem roundDown_eq (s : Style) {tr : K → Int} (htr : IsTrunc tr) (x e : K) (l : Int)
    (hl : (l : K) < x) (hu : x < (l : K) + 1) (hne : eqS s ((tr x : Int) : K) x e = false) :
    roundDown s tr x e = if leS s (x - (l : K)) ((l : K) + 1 - x) e then l else l + 1 := by
  have hb := floorOf_spec htr x
  have hlo : floorOf tr x = l := floor_unique hb.1 hb.2 (le_of_lt hl) hu
  unfold floorOf at hlo
  unfold roundDown
  simp only [hne, Bool.false_eq_true, if_false]
  by_cases hg : ((tr x : Int) : K) > x
  · simp only [hg, if_true] at hlo ⊢
    have ht : tr x = l + 1 := by omega
    simp only [ht, add_sub_cancel_right]
    push_cast; rw [add_sub_cancel_right]
  · simp only [hg, if_false] at hlo ⊢
    simp only [hlo]
    push_cast; rfl

theorem roundUp_eq (s : Style) {tr : K → Int} (htr : IsTrunc tr) (x e : K) (l : Int)
    (hl : (l : K) < x) (hu : x < (l : K) + 1) (hne : eqS s ((tr x : Int) : K) x e = false) :
    roundUp s tr x e = if ltS s (x - (l : K)) ((l : K) + 1 - x) e then l else l + 1 := by
  have hb := floorOf_spec htr x
  have hlo : floorOf tr x = l := floor_unique hb.1 hb.2 (le_of_lt hl) hu
  unfold floorOf at hlo
  unfold roundUp
  simp only [hne, Bool.false_eq_true, if_false]
  by_cases hg : ((tr x : Int) : K) > x
  · simp only [hg, if_true] at hlo ⊢
    have ht : tr x = l + 1 := by omega
    simp only [ht, add_sub_cancel_right]
    push_cast; rw [add_sub_cancel_right]
  · simp only [hg, if_false] at hlo ⊢
    simp only [hlo]
    push_cast; rfl

theorem roundDown_of_eq (s : Style) (tr : K → Int) (x e : K) (h : eqS s ((tr x : Int) : K) x e = true) :
    roundDown s tr x e = tr x := by
  unfold roundDown; simp [h]

theorem roundUp_of_eq (s : Style) (tr : K → Int) (x e : K) (h : eqS s ((tr x : Int) : K) x e = true) :
    roundUp s tr x e = tr x := by
  unfold roundUp; simp [h]

/-- when the argument is not equal (within epsilon) to its integer part it lies strictly between two integers -/
theorem strict_bracket (s : Style) {tr : K → Int} (htr : IsTrunc tr) (x e : K) (h0 : 0 ≤ e)
    (hne : eqS s ((tr x : Int) : K) x e = false) :
    ((floorOf tr x : Int) : K) < x ∧ x < ((floorOf tr x : Int) : K) + 1 := by
  have hb := floorOf_spec htr x
  refine ⟨lt_of_le_of_ne hb.1 ?_, hb.2⟩
  intro heq
  have habs := trunc_abs_lt_one htr x
  rw [abs_lt] at habs
  unfold floorOf at heq
  by_cases hg : ((tr x : Int) : K) > x
  · simp only [hg, if_true] at heq; push_cast at heq; linarith
  · simp only [hg, if_false] at heq
    rw [heq, eqS_refl s x e h0] at hne; exact Bool.noConfusion hne

-- (`and_comm` / `or_comm`: independent of the order of the two operands of `&&` / `||` in the source)
theorem leS_iff (s : Style) (p q e : K) : leS s p q e = true ↔ (p < q ∨ eqS s p q e = true) := by
  simp [leS, Gen.le, or_comm]

theorem ltS_iff (s : Style) (p q e : K) : ltS s p q e = true ↔ (p < q ∧ eqS s p q e = false) := by
  simp [ltS, Gen.lt, Gen.ne, and_comm]

theorem gtS_iff (s : Style) (p q e : K) : gtS s p q e = true ↔ (q < p ∧ eqS s p q e = false) := by
  simp [gtS, Gen.gt, Gen.ne, and_comm]

/-- tolerant equality of the two distances to the neighbouring integers bounds their difference by epsilon -/
theorem dist_eq_bound (s : Style) (x e : K) (l : Int) (h0 : 0 ≤ e) (hl : (l : K) < x) (hu : x < (l : K) + 1)
    (h : eqS s (x - (l : K)) ((l : K) + 1 - x) e = true) : |(x - (l : K)) - ((l : K) + 1 - x)| ≤ e := by
  rw [eqS_iff] at h
  refine le_trans h (tol_le s _ _ e h0 ?_ ?_)
  · rw [abs_le]; constructor <;> linarith
  · rw [abs_le]; constructor <;> linarith

theorem down_choice_within (s : Style) (x e : K) (l : Int) (h0 : 0 ≤ e) (hl : (l : K) < x) (hu : x < (l : K) + 1) :
    |(((if leS s (x - (l : K)) ((l : K) + 1 - x) e then l else l + 1 : Int) : Int) : K) - x| ≤ 1 / 2 + e / 2 := by
  by_cases hc : leS s (x - (l : K)) ((l : K) + 1 - x) e = true
  · simp only [hc, if_true]
    rw [abs_le]
    rcases (leS_iff s _ _ e).mp hc with hlt | heq
    · constructor <;> linarith
    · have := dist_eq_bound s x e l h0 hl hu heq
      rw [abs_le] at this
      constructor <;> linarith
  · simp only [hc, Bool.false_eq_true, if_false]
    have hnl : ¬ (x - (l : K) < (l : K) + 1 - x) := fun h => hc ((leS_iff s _ _ e).mpr (Or.inl h))
    push_cast
    rw [abs_le]; constructor <;> linarith

theorem up_choice_within (s : Style) (x e : K) (l : Int) (h0 : 0 ≤ e) (hl : (l : K) < x) (hu : x < (l : K) + 1) :
    |(((if ltS s (x - (l : K)) ((l : K) + 1 - x) e then l else l + 1 : Int) : Int) : K) - x| ≤ 1 / 2 + e / 2 := by
  by_cases hc : ltS s (x - (l : K)) ((l : K) + 1 - x) e = true
  · simp only [hc, if_true]
    have := ((ltS_iff s _ _ e).mp hc).1
    rw [abs_le]; constructor <;> linarith
  · simp only [hc, Bool.false_eq_true, if_false]
    push_cast
    rw [abs_le]
    by_cases hlt : x - (l : K) < (l : K) + 1 - x
    · have heq : eqS s (x - (l : K)) ((l : K) + 1 - x) e = true := by
        cases hE : eqS s (x - (l : K)) ((l : K) + 1 - x) e
        · exact absurd ((ltS_iff s _ _ e).mpr ⟨hlt, hE⟩) hc
        · rfl
      have := dist_eq_bound s x e l h0 hl hu heq
      rw [abs_le] at this
      constructor <;> linarith
    · constructor <;> linarith

theorem sameVal_iff (a b : K) : sameVal a b = true ↔ a = b := by
  unfold sameVal
  constructor
  · intro h
    simp only [Bool.and_eq_true, Bool.not_eq_true', decide_eq_false_iff_not] at h
    exact le_antisymm (not_lt.mp h.2) (not_lt.mp h.1)
  · intro h; subst h; simp

/-- closed form of `trunc<downward>`: an integer is returned unchanged; otherwise the integer above if the argument
    is equal to it within epsilon, else the integer below -/
theorem truncDown_eq (s : Style) {tr : K → Int} (htr : IsTrunc tr) (x e : K) (l : Int)
    (hl : (l : K) ≤ x) (hu : x < (l : K) + 1) :
    truncDown s false tr x e = if (l : K) = x then l else if eqS s ((l : K) + 1) x e then l + 1 else l := by
  have hb := floorOf_spec htr x
  have hlo : floorOf tr x = l := floor_unique hb.1 hb.2 hl hu
  have hsv : ∀ a : K, (sameVal a x = true) = (a = x) := fun a => propext (sameVal_iff _ _)
  unfold floorOf at hlo
  unfold truncDown
  simp only [Bool.false_and, Bool.false_eq_true, if_false]
  by_cases hg : ((tr x : Int) : K) > x
  · simp only [hg, if_true] at hlo
    have ht : tr x = l + 1 := by omega
    -- the conversion lies above the argument: the argument is negative and strictly above the integer below it
    have hlt : (l : K) < x := by
      rcases le_total 0 x with h0 | h0
      · exact absurd hg (not_lt.mpr ((htr x).1 h0).1)
      · have := ((htr x).2 h0).2
        rw [ht] at this; push_cast at this; linarith
    have hne : ¬ (l : K) = x := ne_of_lt hlt
    have hg' : (l : K) + 1 > x := hu
    rw [ht]
    simp only [add_sub_cancel_right]
    push_cast
    simp only [hg', decide_true, Bool.true_and, if_true, hsv, hne, if_false]
    by_cases hE : eqS s ((l : K) + 1) x e = true
    · simp only [hE, if_true]
    · simp only [hE, Bool.false_eq_true, if_false]
  · simp only [hg, if_false] at hlo
    have hg' : ¬ (l : K) > x := by rw [← hlo]; exact hg
    rw [hlo]
    simp only [hg', decide_false, Bool.false_and, Bool.false_eq_true, if_false, hsv]
    push_cast; rfl

theorem truncUp_eq (s : Style) {tr : K → Int} (htr : IsTrunc tr) (x e : K) (l : Int) (h0 : 0 ≤ e)
    (hl : (l : K) ≤ x) (hu : x < (l : K) + 1) :
    truncUp s false tr x e =
      if (l : K) = x then l else
      if eqS s ((l : K) + 1) x e then l + 1 else if eqS s (l : K) x e then l else l + 1 := by
  unfold truncUp
  rw [truncDown_eq s htr x e l hl hu]
  by_cases hi : (l : K) = x
  · have : eqS s ((l : Int) : K) x e = true := by rw [hi]; exact eqS_refl s x e h0
    rw [if_pos hi, if_pos hi]
    simp [neS, Gen.ne, this]
  · simp only [hi, if_false]
    by_cases h1 : eqS s ((l : K) + 1) x e = true
    · simp only [h1, if_true, neS, Gen.ne]; push_cast; simp [h1]
    · simp only [h1, Bool.false_eq_true, if_false, neS, Gen.ne]
      cases h2 : eqS s (l : K) x e <;> simp


/-- the documented direction in which a tie (within epsilon) between the two neighbouring integers `l`, `l+1`
    is resolved by `round` -/
def tieChoice (rs : RStyle) (x : K) (l : Int) : Int :=
  match rs with
  | .downward => l
  | .upward => l + 1
  | .towardZero => if 0 < x then l else l + 1
  | .towardInf => if 0 < x then l + 1 else l

theorem round_cases (s : Style) (rs : RStyle) (tr : K → Int) (x e : K) :
    round s rs tr x e = roundDown s tr x e ∨ round s rs tr x e = roundUp s tr x e := by
  cases rs <;> simp only [round] <;> (try split) <;> simp

theorem trunc_towardZero_eq (s : Style) (u : Bool) (tr : K → Int) (x e : K) :
    trunc s u .towardZero tr x e = if 0 < x then trunc s u .downward tr x e else trunc s u .upward tr x e := by
  simp [trunc]

theorem trunc_towardInf_eq (s : Style) (u : Bool) (tr : K → Int) (x e : K) :
    trunc s u .towardInf tr x e = if 0 < x then trunc s u .upward tr x e else trunc s u .downward tr x e := by
  simp [trunc]

end DV.C17
