import DuneVerif.Proofs.C20Basic
/-! tuple vectors: what `buildSlots` stores -/
namespace DV.C20

/-- what an entry of a tuple vector shows to Python: its type tag and its values -/
def readSlot (s : State) : Slot → SlotTy × List Int
  | .d v => (.d, [v])
  | .i v => (.i, [v])
  | .f b => (.f (s.read b).length, s.read b)

/-- the entries a tuple vector of shape `sh` is built from, cut out of the flat value list -/
def expected : List SlotTy → List Int → List (SlotTy × List Int)
  | [], _ => []
  | .d :: sh, V => (.d, [V.getD 0 0]) :: expected sh (V.drop 1)
  | .i :: sh, V => (.i, [V.getD 0 0]) :: expected sh (V.drop 1)
  | .f n :: sh, V => (.f n, V.take n) :: expected sh (V.drop n)

/-- all blocks a slot list refers to exist -/
def slotsBelow (m : Nat) : List Slot → Prop
  | [] => True
  | .f b :: r => b < m ∧ slotsBelow m r
  | .d _ :: r => slotsBelow m r
  | .i _ :: r => slotsBelow m r

theorem slotsBelow_mono {m m' : Nat} (h : m ≤ m') : ∀ l, slotsBelow m l → slotsBelow m' l
  | [], _ => trivial
  | .f _ :: r, hl => ⟨Nat.lt_of_lt_of_le hl.1 h, slotsBelow_mono h r hl.2⟩
  | .d _ :: r, hl => slotsBelow_mono h r hl
  | .i _ :: r, hl => slotsBelow_mono h r hl

/-- states that only grew: old blocks keep their contents -/
def Extends (s s' : State) : Prop :=
  s.blocks.length ≤ s'.blocks.length ∧ ∀ b, b < s.blocks.length → s'.read b = s.read b

theorem Extends.refl (s : State) : Extends s s := ⟨Nat.le_refl _, fun _ _ => rfl⟩

theorem Extends.trans {a b c : State} (h1 : Extends a b) (h2 : Extends b c) : Extends a c :=
  ⟨Nat.le_trans h1.1 h2.1, fun x hx => by rw [h2.2 x (Nat.lt_of_lt_of_le hx h1.1), h1.2 x hx]⟩

theorem extends_alloc (s : State) (v : List Int) : Extends s (s.alloc v).1 :=
  ⟨by rw [alloc_blocks_length]; omega, fun b hb => read_alloc_old s v b hb⟩

theorem readSlot_extends {s s' : State} (h : Extends s s') :
    ∀ l, slotsBelow s.blocks.length l → l.map (readSlot s') = l.map (readSlot s)
  | [], _ => rfl
  | .f b :: r, hl => by
    simp only [List.map_cons, readSlot]
    rw [h.2 b hl.1, readSlot_extends h r hl.2]
  | .d _ :: r, hl => by
    simp only [List.map_cons, readSlot]
    rw [readSlot_extends h r hl]
  | .i _ :: r, hl => by
    simp only [List.map_cons, readSlot]
    rw [readSlot_extends h r hl]

/-- main invariant of `buildSlots` -/
theorem buildSlots_spec (byRef : Bool) :
    ∀ (sh : List SlotTy) (V : List Int) (s : State), shapeWidth sh ≤ V.length →
      let r := buildSlots byRef sh V s
      Extends s r.1 ∧ slotsBelow r.1.blocks.length r.2.1 ∧ slotsBelow r.1.blocks.length r.2.2 ∧
      r.2.1.map (readSlot r.1) = expected sh V ∧ r.2.2.map (readSlot r.1) = expected sh V ∧
      (byRef = true → r.2.2 = r.2.1)
  | [], V, s, _ => by
    simp [buildSlots, expected, slotsBelow, Extends.refl]
  | .d :: sh, V, s, h => by
    have hw : shapeWidth sh ≤ (V.drop 1).length := by
      simp only [shapeWidth, SlotTy.width, List.length_drop] at h ⊢; omega
    have ih := buildSlots_spec byRef sh (V.drop 1) s hw
    simp only [buildSlots]
    generalize buildSlots byRef sh (V.drop 1) s = r at ih ⊢
    obtain ⟨s', src, tv⟩ := r
    simp only at ih ⊢
    obtain ⟨h1, h2, h3, h4, h5, h6⟩ := ih
    refine ⟨h1, ?_, ?_, ?_, ?_, ?_⟩
    · simpa [slotsBelow] using h2
    · simpa [slotsBelow] using h3
    · simp [readSlot, expected, h4]
    · simp [readSlot, expected, h5]
    · intro hb; rw [h6 hb]
  | .i :: sh, V, s, h => by
    have hw : shapeWidth sh ≤ (V.drop 1).length := by
      simp only [shapeWidth, SlotTy.width, List.length_drop] at h ⊢; omega
    have ih := buildSlots_spec byRef sh (V.drop 1) s hw
    simp only [buildSlots]
    generalize buildSlots byRef sh (V.drop 1) s = r at ih ⊢
    obtain ⟨s', src, tv⟩ := r
    simp only at ih ⊢
    obtain ⟨h1, h2, h3, h4, h5, h6⟩ := ih
    refine ⟨h1, ?_, ?_, ?_, ?_, ?_⟩
    · simpa [slotsBelow] using h2
    · simpa [slotsBelow] using h3
    · simp [readSlot, expected, h4]
    · simp [readSlot, expected, h5]
    · intro hb; rw [h6 hb]
  | .f n :: sh, V, s, h => by
    have hn : n ≤ V.length := by
      simp only [shapeWidth, SlotTy.width] at h; omega
    have hw : shapeWidth sh ≤ (V.drop n).length := by
      simp only [shapeWidth, SlotTy.width, List.length_drop] at h ⊢; omega
    have htake : (V.take n).length = n := by simp; omega
    cases byRef with
    | true =>
      have ih := buildSlots_spec true sh (V.drop n) (s.alloc (V.take n)).1 hw
      simp only [buildSlots, if_true]
      generalize buildSlots true sh (V.drop n) (s.alloc (V.take n)).1 = r at ih ⊢
      obtain ⟨s', src, tv⟩ := r
      simp only at ih ⊢
      obtain ⟨h1, h2, h3, h4, h5, h6⟩ := ih
      have e1 := extends_alloc s (V.take n)
      have hlt : (s.alloc (V.take n)).2 < (s.alloc (V.take n)).1.blocks.length := by
        rw [alloc_blocks_length, alloc_fresh]; omega
      have hrd : s'.read (s.alloc (V.take n)).2 = V.take n := by
        rw [h1.2 _ hlt, read_alloc_new]
      refine ⟨e1.trans h1, ?_, ?_, ?_, ?_, ?_⟩
      · exact ⟨Nat.lt_of_lt_of_le hlt h1.1, h2⟩
      · exact ⟨Nat.lt_of_lt_of_le hlt h1.1, h3⟩
      · simp [readSlot, expected, h4, hrd, htake]
      · simp [readSlot, expected, h5, hrd, htake]
      · intro _; rw [h6 trivial]
    | false =>
      have ih := buildSlots_spec false sh (V.drop n) ((s.alloc (V.take n)).1.alloc (V.take n)).1 hw
      simp only [buildSlots, Bool.false_eq_true, if_false]
      generalize buildSlots false sh (V.drop n) ((s.alloc (V.take n)).1.alloc (V.take n)).1 = r at ih ⊢
      obtain ⟨s', src, tv⟩ := r
      simp only at ih ⊢
      obtain ⟨h1, h2, h3, h4, h5, _⟩ := ih
      have e1 := extends_alloc s (V.take n)
      have e2 := extends_alloc (s.alloc (V.take n)).1 (V.take n)
      have hlt1 : (s.alloc (V.take n)).2 < (s.alloc (V.take n)).1.blocks.length := by
        rw [alloc_blocks_length, alloc_fresh]; omega
      have hlt2 : ((s.alloc (V.take n)).1.alloc (V.take n)).2
          < ((s.alloc (V.take n)).1.alloc (V.take n)).1.blocks.length := by
        rw [alloc_blocks_length, alloc_fresh]; omega
      have hrd1 : s'.read (s.alloc (V.take n)).2 = V.take n := by
        rw [h1.2 _ (Nat.lt_of_lt_of_le hlt1 e2.1), e2.2 _ hlt1, read_alloc_new]
      have hrd2 : s'.read ((s.alloc (V.take n)).1.alloc (V.take n)).2 = V.take n := by
        rw [h1.2 _ hlt2, read_alloc_new]
      refine ⟨e1.trans (e2.trans h1), ?_, ?_, ?_, ?_, ?_⟩
      · exact ⟨Nat.lt_of_lt_of_le (Nat.lt_of_lt_of_le hlt1 e2.1) h1.1, h2⟩
      · exact ⟨Nat.lt_of_lt_of_le hlt2 h1.1, h3⟩
      · simp [readSlot, expected, h4, hrd1, htake]
      · simp [readSlot, expected, h5, hrd2, htake]
      · intro hc; cases hc

end DV.C20
