/-
C12 — the tree: association lists, get-after-set, the order of keys, rebuilding a tree from its entries.
-/
import DuneVerif.Proofs.C12Ini

namespace DV.C12

/-! ### association lists -/

def names {α} (l : List (Str × α)) : List Str := l.map (·.1)

/-- append `k` unless present -/
def addNew' (acc : List Str) (k : Str) : List Str := if k ∈ acc then acc else acc ++ [k]

theorem aHas_eq_mem {α} (k : Str) : ∀ (l : List (Str × α)), aHas k l = true ↔ k ∈ names l
  | [] => by simp [aHas, names]
  | (k', v) :: r => by
    have ih := aHas_eq_mem k r
    simp only [aHas, List.any_cons, Bool.or_eq_true, beq_iff_eq, names, List.map_cons, List.mem_cons] at ih ⊢
    constructor
    · rintro (h | h)
      · exact Or.inl h.symm
      · exact Or.inr (ih.mp h)
    · rintro (h | h)
      · exact Or.inl h.symm
      · exact Or.inr (ih.mpr h)

theorem aHas_false_iff {α} (k : Str) (l : List (Str × α)) : aHas k l = false ↔ k ∉ names l := by
  rw [← aHas_eq_mem]; simp

theorem aGet?_none_iff {α} (k : Str) : ∀ (l : List (Str × α)), aGet? k l = none ↔ aHas k l = false
  | [] => by simp [aGet?, aHas]
  | (k', v) :: r => by
    have ih := aGet?_none_iff k r
    by_cases h : k' = k
    · simp [aGet?, aHas, h]
    · have hb : (k' == k) = false := by simp [h]
      simp only [aGet?, hb, Bool.false_eq_true, if_false, ih, aHas, List.any_cons, Bool.false_or]

theorem aGet?_isSome_of_has {α} {k : Str} {l : List (Str × α)} (h : aHas k l = true) : ∃ v, aGet? k l = some v := by
  cases hg : aGet? k l with
  | none => rw [aGet?_none_iff] at hg; simp [hg] at h
  | some v => exact ⟨v, rfl⟩

theorem aSet_of_not_has {α} (k : Str) (v : α) : ∀ (l : List (Str × α)), aHas k l = false → aSet k v l = l ++ [(k, v)]
  | [], _ => rfl
  | (k', v') :: r, h => by
    simp only [aHas, List.any_cons, Bool.or_eq_false_iff, beq_eq_false_iff_ne, ne_eq] at h
    have ih := aSet_of_not_has k v r (by simpa [aHas] using h.2)
    simp [aSet, h.1, ih]

theorem aGet?_aSet_self {α} (k : Str) (v : α) : ∀ (l : List (Str × α)), aGet? k (aSet k v l) = some v
  | [] => by simp [aSet, aGet?]
  | (k0, v0) :: r => by
    by_cases h : k0 = k
    · simp [aSet, aGet?, h]
    · simp [aSet, aGet?, h, aGet?_aSet_self k v r]

theorem aGet?_aSet_ne {α} {k' k : Str} (v : α) (hne : k' ≠ k) : ∀ (l : List (Str × α)), aGet? k' (aSet k v l) = aGet? k' l
  | [] => by simp [aSet, aGet?, Ne.symm hne]
  | (k0, v0) :: r => by
    by_cases h : k0 = k
    · subst h
      simp [aSet, aGet?, Ne.symm hne]
    · simp only [aSet, beq_iff_eq, h, if_false, aGet?]
      rw [aGet?_aSet_ne v hne r]

theorem aSet_aSet {α} (k : Str) (v w : α) : ∀ (l : List (Str × α)), aSet k w (aSet k v l) = aSet k w l
  | [] => by simp [aSet]
  | (k0, v0) :: r => by
    by_cases h : k0 = k
    · simp [aSet, h]
    · simp [aSet, h, aSet_aSet k v w r]

/-- keys after `map[k] = v`: unchanged if present, appended otherwise -/
theorem names_aSet {α} (k : Str) (v : α) : ∀ (l : List (Str × α)),
    names (aSet k v l) = if k ∈ names l then names l else names l ++ [k]
  | [] => by simp [aSet, names]
  | (k0, v0) :: r => by
    have ih := names_aSet k v r
    by_cases h : k0 = k
    · subst h; simp [aSet, names]
    · have hb : (k0 == k) = false := by simp [h]
      have hne : ¬ k = k0 := fun e => h e.symm
      simp only [aSet, hb, Bool.false_eq_true, if_false, names, List.map_cons, List.mem_cons, hne, false_or] at ih ⊢
      rw [ih]
      by_cases hm : k ∈ List.map (fun x => x.1) r <;> simp [hm]

theorem aHas_aSet {α} (k' k : Str) (v : α) (l : List (Str × α)) : aHas k' (aSet k v l) = (k' == k || aHas k' l) := by
  rw [Bool.eq_iff_iff, aHas_eq_mem, names_aSet]
  simp only [Bool.or_eq_true, beq_iff_eq, aHas_eq_mem]
  by_cases hm : k ∈ names l
  · simp only [hm, if_true]
    constructor
    · exact Or.inr
    · rintro (rfl | h)
      · exact hm
      · exact h
  · simp only [hm, if_false, List.mem_append, List.mem_singleton]
    constructor
    · rintro (h | h)
      · exact Or.inr h
      · exact Or.inl h
    · rintro (h | h)
      · exact Or.inr h
      · exact Or.inl h

theorem addNew_some (acc : List Str) (k : Str) :
    (if k ∈ acc then acc else acc ++ [k]) = addNew' acc k := rfl

/-! ### one assignment: what it does to the root and to the children -/

/-- the sub-tree `name` of a node (an empty tree when missing, as `sub()` creates it) -/
def child (g : Str) (t : Tree) : Tree := (aGet? g t.subs).getD .empty

def leafOf : List Str → Option Str
  | [k] => some k
  | _ => none

def groupOf : List Str → Option Str
  | k :: _ :: _ => some k
  | _ => none

def addNew (acc : List Str) (k : Option Str) : List Str :=
  match k with
  | none => acc
  | some k => addNew' acc k

/-- root level: the value keys / sub keys grow by the new leaf / group name, at the end, only if new -/
theorem setPath_root_names : ∀ (p : List Str) (v : Str) (t t' : Tree), setPath p v t = .ok t' →
    names t'.vals = addNew (names t.vals) (leafOf p) ∧ names t'.subs = addNew (names t.subs) (groupOf p)
  | [], v, t, t', h => by
    simp only [setPath] at h; injection h with h; subst h; simp [leafOf, groupOf, addNew]
  | [k], v, .node vals subs, t', h => by
    simp only [setPath] at h
    have : t' = .node (aSet k v vals) subs := by
      split at h
      · split at h
        · simp at h
        · injection h with h; exact h.symm
      · injection h with h; exact h.symm
    subst this
    simp [Tree.vals, Tree.subs, leafOf, groupOf, addNew, names_aSet, addNew_some]
  | k :: k2 :: rest, v, .node vals subs, t', h => by
    simp only [setPath] at h
    split at h
    · simp at h
    · split at h
      · simp at h
      · rename_i s' hs
        injection h with h; subst h
        simp [Tree.vals, Tree.subs, leafOf, groupOf, addNew, names_aSet, addNew_some]

/-- the part of an assignment that concerns the group `g` -/
def under (g : Str) (e : List Str × Str) : Option (List Str × Str) :=
  match e.1 with
  | k :: k2 :: r => if k = g then some (k2 :: r, e.2) else none
  | _ => none

/-- children: only the group the path goes through changes, by the rest of the path -/
theorem setPath_child (g : Str) : ∀ (p : List Str) (v : Str) (t t' : Tree), setPath p v t = .ok t' →
    (match under g (p, v) with
     | none => child g t' = child g t
     | some (q, w) => setPath q w (child g t) = .ok (child g t'))
  | [], v, t, t', h => by
    simp only [setPath] at h; injection h with h; subst h; simp [under]
  | [k], v, .node vals subs, t', h => by
    simp only [setPath] at h
    have : t' = .node (aSet k v vals) subs := by
      split at h
      · split at h
        · simp at h
        · injection h with h; exact h.symm
      · injection h with h; exact h.symm
    subst this
    simp [under, child, Tree.subs]
  | k :: k2 :: rest, v, .node vals subs, t', h => by
    simp only [setPath] at h
    split at h
    · simp at h
    · split at h
      · simp at h
      · rename_i s' hs
        injection h with h; subst h
        by_cases hk : k = g
        · subst hk
          simp only [under, if_true, child, Tree.subs, aGet?_aSet_self, Option.getD_some]
          exact hs
        · simp only [under, hk, if_false, child, Tree.subs]
          rw [aGet?_aSet_ne _ (fun e => hk e.symm)]

/-! ### sequences of assignments on paths -/

def setAllP : List (List Str × Str) → Tree → Except Err Tree
  | [], t => .ok t
  | (p, v) :: r, t => andThen (setPath p v t) (setAllP r)

theorem setAllP_append : ∀ (a b : List (List Str × Str)) (t : Tree),
    setAllP (a ++ b) t = andThen (setAllP a t) (setAllP b)
  | [], b, t => rfl
  | (p, v) :: r, b, t => by
    simp only [List.cons_append, setAllP]
    cases setPath p v t with
    | error e => rfl
    | ok t' => simp only [andThen_ok]; exact setAllP_append r b t'

/-- keys listed in order of first appearance, after those already present -/
def firstApp (base : List Str) (new : List (Option Str)) : List Str := new.foldl addNew base

theorem setAllP_root_names : ∀ (ps : List (List Str × Str)) (t t' : Tree), setAllP ps t = .ok t' →
    names t'.vals = firstApp (names t.vals) (ps.map (fun e => leafOf e.1)) ∧
    names t'.subs = firstApp (names t.subs) (ps.map (fun e => groupOf e.1))
  | [], t, t', h => by
    simp only [setAllP] at h; injection h with h; subst h; simp [firstApp]
  | (p, v) :: r, t, t', h => by
    simp only [setAllP] at h
    cases hs : setPath p v t with
    | error e => rw [hs] at h; simp at h
    | ok t1 =>
      rw [hs] at h
      simp only [andThen_ok] at h
      have h1 := setPath_root_names p v t t1 hs
      have h2 := setAllP_root_names r t1 t' h
      simp only [List.map_cons, firstApp, List.foldl_cons] at h2 ⊢
      rw [← h1.1, ← h1.2]
      exact h2

theorem setAllP_child (g : Str) : ∀ (ps : List (List Str × Str)) (t t' : Tree), setAllP ps t = .ok t' →
    setAllP (ps.filterMap (under g)) (child g t) = .ok (child g t')
  | [], t, t', h => by
    simp only [setAllP] at h; injection h with h; subst h; simp [setAllP]
  | (p, v) :: r, t, t', h => by
    simp only [setAllP] at h
    cases hs : setPath p v t with
    | error e => rw [hs] at h; simp at h
    | ok t1 =>
      rw [hs] at h
      simp only [andThen_ok] at h
      have h1 := setPath_child g p v t t1 hs
      have h2 := setAllP_child g r t1 t' h
      simp only [List.filterMap_cons]
      cases hu : under g (p, v) with
      | none =>
        rw [hu] at h1
        simp only at h1 ⊢
        rw [← h1]; exact h2
      | some qw =>
        obtain ⟨q, w⟩ := qw
        rw [hu] at h1
        simp only at h1 ⊢
        simp only [setAllP, h1, andThen_ok]
        exact h2

/-- the node reached through the groups `gs` -/
def nodeAt : List Str → Tree → Tree
  | [], t => t
  | g :: gs, t => nodeAt gs (child g t)

/-- the assignments below the group path `gs`, with that prefix removed -/
def descend : List Str → List (List Str × Str) → List (List Str × Str)
  | [], ps => ps
  | g :: gs, ps => descend gs (ps.filterMap (under g))

theorem setAllP_nodeAt : ∀ (gs : List Str) (ps : List (List Str × Str)) (t t' : Tree), setAllP ps t = .ok t' →
    setAllP (descend gs ps) (nodeAt gs t) = .ok (nodeAt gs t')
  | [], _, _, _, h => h
  | g :: gs, ps, t, t', h => setAllP_nodeAt gs _ _ _ (setAllP_child g ps t t' h)

/-! ### applyAll with overwrite = true is a sequence of `set`s guarded by the duplicate test -/

def pathsOf (es : List (Str × Str)) : List (List Str × Str) := es.map (fun e => (comps e.1, e.2))

theorem assignStep_true {st st' : St} {k v : Str} (h : assignStep true st k v = .ok st') :
    st.tree.set k v = .ok st'.tree ∧ st'.seen = k :: st.seen ∧ st'.pfx = st.pfx ∧ st.seen.contains k = false := by
  unfold assignStep at h
  split at h
  · simp at h
  · rename_i hc
    simp only [if_true] at h
    cases hs : st.tree.set k v with
    | error e => rw [hs] at h; simp at h
    | ok t =>
      rw [hs] at h
      simp only [Except.ok.injEq] at h
      subst h
      simp at hc
      simp [hc]

theorem applyAll_true_setAllP : ∀ (es : List (Str × Str)) (st st' : St), applyAll true es st = .ok st' →
    setAllP (pathsOf es) st.tree = .ok st'.tree
  | [], st, st', h => by
    simp only [applyAll] at h; injection h with h; subst h; rfl
  | (k, v) :: r, st, st', h => by
    simp only [applyAll] at h
    cases hs : assignStep true st k v with
    | error e => rw [hs] at h; simp at h
    | ok s1 =>
      rw [hs] at h
      simp only at h
      have h1 := assignStep_true hs
      have h2 := applyAll_true_setAllP r s1 st' h
      simp only [pathsOf, List.map_cons, setAllP]
      simp only [Tree.set] at h1
      rw [h1.1]
      exact h2

theorem applyAll_append (ow : Bool) : ∀ (a b : List (Str × Str)) (st : St),
    applyAll ow (a ++ b) st = andThen (applyAll ow a st) (applyAll ow b)
  | [], b, st => rfl
  | (k, v) :: r, b, st => by
    simp only [List.cons_append, applyAll]
    cases assignStep ow st k v with
    | error e => rfl
    | ok s => exact applyAll_append ow r b s

/-- every accepted assignment is recorded in `keysInFile` -/
theorem assignStep_seen {ow : Bool} {st st' : St} {k v : Str} (h : assignStep ow st k v = .ok st') :
    st'.seen = k :: st.seen := by
  unfold assignStep at h
  split at h
  · simp at h
  · cases ow with
    | true =>
      simp only [if_true] at h
      cases hs : st.tree.set k v with
      | error e => rw [hs] at h; simp at h
      | ok t => rw [hs] at h; simp at h; rw [← h]
    | false =>
      simp only [Bool.false_eq_true, if_false] at h
      cases hk : st.tree.hasKey k with
      | error e => rw [hk] at h; simp at h
      | ok b =>
        rw [hk] at h
        cases b with
        | true => simp at h; rw [← h]
        | false =>
          simp only at h
          cases hs : st.tree.set k v with
          | error e => rw [hs] at h; simp at h
          | ok t => rw [hs] at h; simp at h; rw [← h]

theorem applyAll_seen (ow : Bool) : ∀ (es : List (Str × Str)) (st st' : St), applyAll ow es st = .ok st' →
    ∀ k, (k ∈ es.map (·.1) ∨ k ∈ st.seen) → k ∈ st'.seen
  | [], st, st', h, k, hk => by
    simp only [applyAll] at h; injection h with h; subst h; simpa using hk
  | (k0, v0) :: r, st, st', h, k, hk => by
    simp only [applyAll] at h
    cases hs : assignStep ow st k0 v0 with
    | error e => rw [hs] at h; simp at h
    | ok s1 =>
      rw [hs] at h
      simp only at h
      have hseen := assignStep_seen hs
      apply applyAll_seen ow r s1 st' h k
      simp only [List.map_cons, List.mem_cons] at hk
      rcases hk with (rfl | hk) | hk
      · right; rw [hseen]; simp
      · left; exact hk
      · right; rw [hseen]; simp [hk]

theorem assignStep_dup (ow : Bool) (st : St) (k v : Str) (h : k ∈ st.seen) : assignStep ow st k v = .error .parser := by
  unfold assignStep
  simp [h]

/-! ### get after set -/

/-- the leaf of the path names a group at its node (the only way an accepted assignment can make a name
    both value and group) -/
def leafClash : List Str → Tree → Bool
  | [], _ => false
  | [k], .node _ subs => aHas k subs
  | k :: rest, .node _ subs =>
    match aGet? k subs with
    | none => false
    | some s => leafClash rest s

theorem leafClash_empty : ∀ (p : List Str), leafClash p .empty = false
  | [] => rfl
  | [k] => by simp [leafClash, Tree.empty, aHas]
  | k :: k2 :: rest => by simp [leafClash, Tree.empty, aGet?]

theorem getPath_empty : ∀ (p : List Str), getPath p .empty = none
  | [] => rfl
  | [k] => by simp [getPath, Tree.empty, aHas]
  | k :: k2 :: rest => by simp [getPath, Tree.empty, aHas, aGet?]

theorem leafClash_child {k k2 : Str} {rest : List Str} {vals : List (Str × Str)} {subs : List (Str × Tree)}
    (h : leafClash (k :: k2 :: rest) (.node vals subs) = false) :
    leafClash (k2 :: rest) ((aGet? k subs).getD .empty) = false := by
  simp only [leafClash] at h
  cases hg : aGet? k subs with
  | none => simp [leafClash_empty]
  | some s => rw [hg] at h; simpa using h

theorem setPath_leaf_ok {k v : Str} {vals : List (Str × Str)} {subs : List (Str × Tree)} {t' : Tree}
    (h : setPath [k] v (.node vals subs) = .ok t') : t' = .node (aSet k v vals) subs := by
  simp only [setPath] at h
  split at h
  · split at h
    · simp at h
    · injection h with h; exact h.symm
  · injection h with h; exact h.symm

theorem setPath_inner_ok {k k2 v : Str} {rest : List Str} {vals : List (Str × Str)} {subs : List (Str × Tree)} {t' : Tree}
    (h : setPath (k :: k2 :: rest) v (.node vals subs) = .ok t') :
    aHas k vals = false ∧ ∃ s', setPath (k2 :: rest) v ((aGet? k subs).getD .empty) = .ok s' ∧
      t' = .node vals (aSet k s' subs) := by
  simp only [setPath] at h
  split at h
  · simp at h
  · rename_i hv
    split at h
    · simp at h
    · rename_i s' hs
      injection h with h
      exact ⟨by simpa using hv, s', hs, h.symm⟩

theorem getPath_setPath_self : ∀ (p : List Str) (v : Str) (t t' : Tree), p ≠ [] → setPath p v t = .ok t' →
    leafClash p t = false → getPath p t' = some v
  | [], _, _, _, h, _, _ => absurd rfl h
  | [k], v, .node vals subs, t', _, h, hc => by
    rw [setPath_leaf_ok h]
    simp only [leafClash] at hc
    simp [getPath, aHas_aSet, hc, aGet?_aSet_self]
  | k :: k2 :: rest, v, .node vals subs, t', _, h, hc => by
    obtain ⟨hv, s', hs, rfl⟩ := setPath_inner_ok h
    simp only [getPath, hv, Bool.false_eq_true, if_false, aGet?_aSet_self]
    exact getPath_setPath_self (k2 :: rest) v _ s' (by simp) hs (leafClash_child hc)

theorem getPath_setPath_ne : ∀ (p : List Str) (v : Str) (t t' : Tree) (p' : List Str), setPath p v t = .ok t' →
    leafClash p t = false → p' ≠ p → getPath p' t' = getPath p' t
  | [], v, t, t', p', h, _, _ => by
    simp only [setPath] at h; injection h with h; subst h; rfl
  | [k], v, .node vals subs, t', p', h, hc, hne => by
    rw [setPath_leaf_ok h]
    simp only [leafClash] at hc
    match p' with
    | [] => rfl
    | [k'] =>
      have hk : k' ≠ k := fun e => hne (by rw [e])
      have hb : (k' == k) = false := by simp [hk]
      simp only [getPath, aHas_aSet, hb, Bool.false_or, aGet?_aSet_ne v hk]
    | k' :: k2' :: rest' =>
      simp only [getPath, aHas_aSet]
      by_cases hk : k' = k
      · subst hk
        simp only [beq_self_eq_true, Bool.true_or, if_true]
        by_cases hv : aHas k' vals = true
        · simp [hv]
        · have : aGet? k' subs = none := (aGet?_none_iff k' subs).mpr hc
          simp [hv, this]
      · have hb : (k' == k) = false := by simp [hk]
        simp only [hb, Bool.false_or]
  | k :: k2 :: rest, v, .node vals subs, t', p', h, hc, hne => by
    obtain ⟨hv, s', hs, rfl⟩ := setPath_inner_ok h
    match p' with
    | [] => rfl
    | [k'] =>
      simp only [getPath, aHas_aSet]
      by_cases hk : k' = k
      · subst hk; simp [hv]
      · have hb : (k' == k) = false := by simp [hk]
        simp only [hb, Bool.false_or]
    | k' :: k2' :: rest' =>
      simp only [getPath]
      by_cases hk : k' = k
      · subst hk
        simp only [hv, Bool.false_eq_true, if_false, aGet?_aSet_self]
        have hne' : k2' :: rest' ≠ k2 :: rest := fun e => hne (by rw [e])
        have ih := getPath_setPath_ne (k2 :: rest) v _ s' (k2' :: rest') hs (leafClash_child hc) hne'
        rw [ih]
        cases hg : aGet? k' subs with
        | none => simp [getPath_empty]
        | some s => simp
      · rw [aGet?_aSet_ne _ hk]

/-! ### hasKey versus get -/

theorem hasKeyPath_of_getPath : ∀ (p : List Str) (t : Tree) (s : Str), getPath p t = some s → hasKeyPath p t = .ok true
  | [], _, _, h => by simp [getPath] at h
  | [k], .node vals subs, s, h => by
    simp only [getPath] at h
    split at h
    · rename_i hc
      simp only [Bool.and_eq_true, Bool.not_eq_true'] at hc
      simp [hasKeyPath, hc.1, hc.2]
    · simp at h
  | k :: k2 :: rest, .node vals subs, s, h => by
    simp only [getPath] at h
    split at h
    · simp at h
    · rename_i hv
      split at h
      · simp at h
      · rename_i s' hs
        simp only [hasKeyPath, hs]
        simp only [hv]
        exact hasKeyPath_of_getPath (k2 :: rest) s' s h

theorem getPath_of_hasKeyPath_true : ∀ (p : List Str) (t : Tree), hasKeyPath p t = .ok true → ∃ s, getPath p t = some s
  | [], _, h => by simp [hasKeyPath] at h
  | [k], .node vals subs, h => by
    simp only [hasKeyPath] at h
    split at h
    · rename_i hv
      split at h
      · simp at h
      · rename_i hs
        obtain ⟨x, hx⟩ := aGet?_isSome_of_has hv
        exact ⟨x, by simp [getPath, hv, hs, hx]⟩
    · simp at h
  | k :: k2 :: rest, .node vals subs, h => by
    simp only [hasKeyPath] at h
    split at h
    · simp at h
    · rename_i s' hs
      split at h
      · simp at h
      · rename_i hv
        obtain ⟨x, hx⟩ := getPath_of_hasKeyPath_true (k2 :: rest) s' h
        exact ⟨x, by simp [getPath, hv, hs, hx]⟩

theorem getPath_of_hasKeyPath_false : ∀ (p : List Str) (t : Tree), hasKeyPath p t = .ok false → getPath p t = none
  | [], _, _ => rfl
  | [k], .node vals subs, h => by
    simp only [hasKeyPath] at h
    split at h
    · split at h <;> simp at h
    · rename_i hv
      simp [getPath, hv]
  | k :: k2 :: rest, .node vals subs, h => by
    simp only [hasKeyPath] at h
    split at h
    · rename_i hs
      simp only [getPath, hs]
      split <;> rfl
    · rename_i s' hs
      split at h
      · simp at h
      · rename_i hv
        simp only [getPath, hv, hs]
        exact getPath_of_hasKeyPath_false (k2 :: rest) s' h

/-! ### the overwrite flag -/

/-- no assignment of the source targets, as a value, a name that is a group at that moment -/
def NoLeafClash (ow : Bool) : List (Str × Str) → St → Prop
  | [], _ => True
  | (k, v) :: r, st =>
    leafClash (comps k) st.tree = false ∧ ∀ st', assignStep ow st k v = .ok st' → NoLeafClash ow r st'

theorem comps_ne_nil (k : Str) : comps k ≠ [] := splitOnC_ne_nil '.' k

theorem comps_injective {a b : Str} (h : comps a = comps b) : a = b := splitOnC_injective '.' h

theorem applyAll_ok_fresh (ow : Bool) : ∀ (es : List (Str × Str)) (st st' : St), applyAll ow es st = .ok st' →
    ∀ k ∈ st.seen, aGet? k es = none
  | [], _, _, _, _, _ => rfl
  | (k0, v0) :: r, st, st', h, k, hk => by
    simp only [applyAll] at h
    cases hs : assignStep ow st k0 v0 with
    | error e => rw [hs] at h; simp at h
    | ok s1 =>
      rw [hs] at h
      simp only at h
      have hne : k0 ≠ k := by
        intro e
        rw [e] at hs
        rw [assignStep_dup ow st k v0 hk] at hs
        simp at hs
      have hb : (k0 == k) = false := by simp [hne]
      simp only [aGet?, hb, Bool.false_eq_true, if_false]
      exact applyAll_ok_fresh ow r s1 st' h k (by rw [assignStep_seen hs]; simp [hk])

/-- effect of one accepted assignment on `get?` -/
theorem assignStep_get {ow : Bool} {st st' : St} {k v : Str} (h : assignStep ow st k v = .ok st')
    (hc : leafClash (comps k) st.tree = false) (q : Str) :
    st'.tree.get? q =
      if ow then (if q = k then some v else st.tree.get? q)
      else (if q = k then (st.tree.get? k).or (some v) else st.tree.get? q) := by
  have hset : ∀ t', st.tree.set k v = .ok t' → t'.get? q = if q = k then some v else st.tree.get? q := by
    intro t' hs
    simp only [Tree.set] at hs
    by_cases hq : q = k
    · subst hq
      simp only [if_true, Tree.get?]
      exact getPath_setPath_self _ v _ _ (comps_ne_nil q) hs hc
    · simp only [hq, if_false, Tree.get?]
      exact getPath_setPath_ne _ v _ _ _ hs hc (fun e => hq (comps_injective e))
  unfold assignStep at h
  split at h
  · simp at h
  · cases ow with
    | true =>
      simp only [if_true] at h ⊢
      cases hs : st.tree.set k v with
      | error e => rw [hs] at h; simp at h
      | ok t =>
        rw [hs] at h
        simp only [Except.ok.injEq] at h
        subst h
        exact hset t hs
    | false =>
      simp only [Bool.false_eq_true, if_false] at h ⊢
      cases hk : st.tree.hasKey k with
      | error e => rw [hk] at h; simp at h
      | ok b =>
        rw [hk] at h
        cases b with
        | true =>
          simp only [Except.ok.injEq] at h
          subst h
          obtain ⟨x, hx⟩ := getPath_of_hasKeyPath_true _ _ hk
          by_cases hq : q = k
          · subst hq; simp [Tree.get?, hx]
          · simp [hq]
        | false =>
          simp only at h
          cases hs : st.tree.set k v with
          | error e => rw [hs] at h; simp at h
          | ok t =>
            rw [hs] at h
            simp only [Except.ok.injEq] at h
            subst h
            have hn : st.tree.get? k = none := getPath_of_hasKeyPath_false _ _ hk
            rw [hset t hs]
            by_cases hq : q = k
            · simp [hq, hn]
            · simp [hq]

/-- **overwrite flag**: with `overwrite` the source wins, without it the pre-existing entry wins; everything
    else is kept -/
theorem applyAll_get (ow : Bool) : ∀ (es : List (Str × Str)) (st st' : St), applyAll ow es st = .ok st' →
    NoLeafClash ow es st → ∀ q,
    st'.tree.get? q = if ow then (aGet? q es).or (st.tree.get? q) else (st.tree.get? q).or (aGet? q es)
  | [], st, st', h, _, q => by
    simp only [applyAll] at h; injection h with h; subst h
    cases ow <;> simp [aGet?]
  | (k, v) :: r, st, st', h, hc, q => by
    simp only [applyAll] at h
    cases hs : assignStep ow st k v with
    | error e => rw [hs] at h; simp at h
    | ok s1 =>
      rw [hs] at h
      simp only at h
      have ih := applyAll_get ow r s1 st' h (hc.2 s1 hs) q
      have hstep := assignStep_get hs hc.1 q
      have hfresh : aGet? k r = none := applyAll_ok_fresh ow r s1 st' h k (by rw [assignStep_seen hs]; simp)
      rw [ih, hstep]
      by_cases hq : q = k
      · subst hq
        have hb : (q == q) = true := by simp
        cases ow with
        | true => simp [aGet?, hfresh]
        | false =>
          simp only [Bool.false_eq_true, if_false, if_true, aGet?, hb, hfresh]
          cases st.tree.get? q <;> simp
      · have hb : (k == q) = false := by simp [Ne.symm hq]
        cases ow <;> simp [aGet?, hb, hq]

/-! ### groups and dotted keys -/

theorem comps_dot (g k : Str) : comps (g ++ '.' :: k) = comps g ++ comps k := splitOnC_append '.' g k

theorem hasKeyPath_empty : ∀ (p : List Str), hasKeyPath p .empty = .ok false
  | [] => rfl
  | [k] => by simp [hasKeyPath, Tree.empty, aHas]
  | k :: k2 :: rest => by simp [hasKeyPath, Tree.empty, aGet?]

/-- `t.sub(g)[k]` is `t[g.k]`, and likewise for `hasKey` -/
theorem subPath_getPath (f : Bool) : ∀ (g p : List Str) (t s : Tree), p ≠ [] → subPath f g t = .ok s →
    getPath (g ++ p) t = getPath p s ∧ hasKeyPath (g ++ p) t = hasKeyPath p s
  | [], p, t, s, _, h => by
    simp only [subPath] at h; injection h with h; subst h; simp
  | [k], k2 :: rest, .node vals subs, s, _, h => by
    simp only [subPath] at h
    split at h
    · simp at h
    · rename_i hv
      cases hg : aGet? k subs with
      | none =>
        rw [hg] at h
        simp only at h
        have hs : s = .empty := by
          split at h
          · simp at h
          · injection h with h; exact h.symm
        subst hs
        simp [getPath, hasKeyPath, hv, hg, getPath_empty, hasKeyPath_empty]
      | some s' =>
        rw [hg] at h
        simp only at h
        injection h with h; subst h
        simp [getPath, hasKeyPath, hv, hg]
  | k :: g2 :: grest, k2 :: rest, .node vals subs, s, hp, h => by
    simp only [subPath] at h
    split at h
    · simp at h
    · rename_i hv
      cases hg : aGet? k subs with
      | none =>
        rw [hg] at h
        simp only at h
        have ih := subPath_getPath f (g2 :: grest) (k2 :: rest) .empty s hp h
        simp only [List.cons_append, getPath, hasKeyPath, hv, hg, Bool.false_eq_true, if_false]
        simp only [List.cons_append, getPath_empty, hasKeyPath_empty] at ih
        exact ⟨ih.1, ih.2⟩
      | some s' =>
        rw [hg] at h
        simp only at h
        have ih := subPath_getPath f (g2 :: grest) (k2 :: rest) s' s hp h
        simp only [List.cons_append, getPath, hasKeyPath, hv, hg, Bool.false_eq_true, if_false]
        simp only [List.cons_append] at ih
        exact ih
  | _ :: _, [], _, _, hp, _ => absurd rfl hp

/-! ### a tree is rebuilt by assigning its entries in order -/

mutual
/-- the entries of a tree as (path, value), value keys first, then group by group, in key-list order -/
def flat : Tree → List (List Str × Str)
  | .node vals subs => vals.map (fun kv => ([kv.1], kv.2)) ++ flatSubs subs
def flatSubs : List (Str × Tree) → List (List Str × Str)
  | [] => []
  | (n, s) :: r => (flat s).map (fun e => (n :: e.1, e.2)) ++ flatSubs r
end

mutual
/-- a hierarchy as a parsed document produces it: distinct names per node, no name both value and group,
    no empty group, no dot inside a name -/
def WFT : Tree → Prop
  | .node vals subs =>
    (names vals).Nodup ∧ (names subs).Nodup ∧ (∀ k ∈ names vals, k ∉ names subs) ∧
    (∀ k ∈ names vals, '.' ∉ k) ∧ WFS subs
def WFS : List (Str × Tree) → Prop
  | [] => True
  | (n, s) :: r => '.' ∉ n ∧ WFT s ∧ flat s ≠ [] ∧ WFS r
end

mutual
theorem flat_paths_ne_nil : ∀ (t : Tree), ∀ e ∈ flat t, e.1 ≠ []
  | .node vals subs, e, he => by
    simp only [flat, List.mem_append, List.mem_map] at he
    rcases he with ⟨kv, _, rfl⟩ | he
    · simp
    · exact flatSubs_paths_ne_nil subs e he
theorem flatSubs_paths_ne_nil : ∀ (subs : List (Str × Tree)), ∀ e ∈ flatSubs subs, e.1 ≠ []
  | [], e, he => by simp [flatSubs] at he
  | (n, s) :: r, e, he => by
    simp only [flatSubs, List.mem_append, List.mem_map] at he
    rcases he with ⟨e', _, rfl⟩ | he
    · simp
    · exact flatSubs_paths_ne_nil r e he
end

/-- value entries, appended one by one -/
theorem rebuild_vals : ∀ (vals V : List (Str × Str)) (S : List (Str × Tree)), (names V ++ names vals).Nodup →
    setAllP (vals.map (fun kv => ([kv.1], kv.2))) (.node V S) = .ok (.node (V ++ vals) S)
  | [], V, S, _ => by simp [setAllP]
  | (k, v) :: r, V, S, hnd => by
    have hk : k ∉ names V := by
      have := (List.nodup_append.mp hnd).2.2
      intro hm
      exact this k hm k (by simp [names]) rfl
    have hV : aHas k V = false := (aHas_false_iff k V).mpr hk
    simp only [List.map_cons, setAllP, setPath, hV, Bool.false_eq_true, if_false, andThen_ok]
    rw [aSet_of_not_has k v V hV]
    have := rebuild_vals r (V ++ [(k, v)]) S (by
      simp only [names, List.map_append, List.map_cons, List.map_nil, List.append_assoc, List.cons_append, List.nil_append] at hnd ⊢
      exact hnd)
    rw [this]
    simp

/-- assignments below the group `n`: they act on the child `n` -/
theorem rebuild_lift (n : Str) (V : List (Str × Str)) (hV : aHas n V = false) :
    ∀ (es : List (List Str × Str)) (S : List (Str × Tree)) (c1 : Tree), es ≠ [] → (∀ e ∈ es, e.1 ≠ []) →
    setAllP es ((aGet? n S).getD .empty) = .ok c1 →
    setAllP (es.map (fun e => (n :: e.1, e.2))) (.node V S) = .ok (.node V (aSet n c1 S))
  | [], _, _, h, _, _ => absurd rfl h
  | (p, v) :: r, S, c1, _, hp, h => by
    simp only [setAllP] at h
    cases hs : setPath p v ((aGet? n S).getD .empty) with
    | error e => rw [hs] at h; simp at h
    | ok c' =>
      rw [hs] at h
      simp only [andThen_ok] at h
      have hpne : p ≠ [] := hp (p, v) (by simp)
      obtain ⟨k2, rest, rfl⟩ : ∃ k2 rest, p = k2 :: rest := by
        cases p with
        | nil => exact absurd rfl hpne
        | cons a b => exact ⟨a, b, rfl⟩
      simp only [List.map_cons, setAllP, setPath, hV, Bool.false_eq_true, if_false, hs, andThen_ok]
      cases r with
      | nil =>
        simp only [setAllP] at h
        injection h with h; subst h
        simp [setAllP]
      | cons e r' =>
        have ih := rebuild_lift n V hV (e :: r') (aSet n c' S) c1 (by simp)
          (fun x hx => hp x (List.mem_cons_of_mem _ hx)) (by simpa [aGet?_aSet_self] using h)
        rw [ih, aSet_aSet]

mutual
theorem rebuild : ∀ (t : Tree), WFT t → setAllP (flat t) .empty = .ok t
  | .node vals subs, h => by
    simp only [WFT] at h
    obtain ⟨hv, hs, hdis, _, hw⟩ := h
    simp only [flat, setAllP_append, Tree.empty]
    rw [rebuild_vals vals [] [] (by simpa [names] using hv)]
    simp only [andThen_ok, List.nil_append]
    have := rebuildSubs subs hw vals [] (by simpa [names] using hs) (fun n hn hm => hdis n hm hn)
    simpa using this
theorem rebuildSubs : ∀ (subs : List (Str × Tree)), WFS subs → ∀ (V : List (Str × Str)) (S : List (Str × Tree)),
    (names S ++ names subs).Nodup → (∀ n ∈ names subs, n ∉ names V) →
    setAllP (flatSubs subs) (.node V S) = .ok (.node V (S ++ subs))
  | [], _, V, S, _, _ => by simp [flatSubs, setAllP]
  | (n, s) :: r, h, V, S, hnd, hV => by
    simp only [WFS] at h
    obtain ⟨_, hws, hne, hwr⟩ := h
    have hnS : n ∉ names S := by
      have := (List.nodup_append.mp hnd).2.2
      intro hm
      exact this n hm n (by simp [names]) rfl
    have hSn : aHas n S = false := (aHas_false_iff n S).mpr hnS
    have hVn : aHas n V = false := (aHas_false_iff n V).mpr (hV n (by simp [names]))
    have hchild : (aGet? n S).getD .empty = .empty := by
      rw [(aGet?_none_iff n S).mpr hSn]; rfl
    have h1 := rebuild_lift n V hVn (flat s) S s hne (flat_paths_ne_nil s) (by rw [hchild]; exact rebuild s hws)
    simp only [flatSubs, setAllP_append]
    rw [h1]
    simp only [andThen_ok]
    rw [aSet_of_not_has n s S hSn]
    have := rebuildSubs r hwr V (S ++ [(n, s)]) (by
      simp only [names, List.map_append, List.map_cons, List.map_nil, List.append_assoc, List.cons_append, List.nil_append] at hnd ⊢
      exact hnd) (fun x hx => hV x (by simp only [names, List.map_cons, List.mem_cons] at hx ⊢; exact Or.inr hx))
    rw [this]
    simp
end

/-! ### from paths back to key strings -/

theorem nodup_map_on {α β} {f : α → β} : ∀ {l : List α}, (∀ a ∈ l, ∀ b ∈ l, f a = f b → a = b) → l.Nodup → (l.map f).Nodup
  | [], _, _ => by simp
  | a :: l, hf, h => by
    rw [List.nodup_cons] at h
    simp only [List.map_cons, List.nodup_cons, List.mem_map, not_exists, not_and]
    refine ⟨?_, nodup_map_on (fun x hx y hy => hf x (List.mem_cons_of_mem _ hx) y (List.mem_cons_of_mem _ hy)) h.2⟩
    intro b hb e
    have := hf a (by simp) b (List.mem_cons_of_mem _ hb) e.symm
    exact h.1 (this ▸ hb)

mutual
theorem flat_comps_nodot : ∀ (t : Tree), WFT t → ∀ e ∈ flat t, ∀ c ∈ e.1, '.' ∉ c
  | .node vals subs, h, e, he, c, hc => by
    simp only [WFT] at h
    simp only [flat, List.mem_append, List.mem_map] at he
    rcases he with ⟨kv, hkv, rfl⟩ | he
    · simp only [List.mem_singleton] at hc
      subst hc
      exact h.2.2.2.1 kv.1 (by simp only [names, List.mem_map]; exact ⟨kv, hkv, rfl⟩)
    · exact flatSubs_comps_nodot subs h.2.2.2.2 e he c hc
theorem flatSubs_comps_nodot : ∀ (subs : List (Str × Tree)), WFS subs → ∀ e ∈ flatSubs subs, ∀ c ∈ e.1, '.' ∉ c
  | [], _, e, he, _, _ => by simp [flatSubs] at he
  | (n, s) :: r, h, e, he, c, hc => by
    simp only [WFS] at h
    simp only [flatSubs, List.mem_append, List.mem_map] at he
    rcases he with ⟨e', he', rfl⟩ | he
    · simp only [List.mem_cons] at hc
      rcases hc with rfl | hc
      · exact h.1
      · exact flat_comps_nodot s h.2.1 e' he' c hc
    · exact flatSubs_comps_nodot r h.2.2.2 e he c hc
end

theorem flatSubs_heads : ∀ (subs : List (Str × Tree)), ∀ e ∈ flatSubs subs, ∃ n ∈ names subs, ∃ q, q ≠ [] ∧ e.1 = n :: q
  | [], e, he => by simp [flatSubs] at he
  | (n, s) :: r, e, he => by
    simp only [flatSubs, List.mem_append, List.mem_map] at he
    rcases he with ⟨e', he', rfl⟩ | he
    · exact ⟨n, by simp [names], e'.1, flat_paths_ne_nil s e' he', rfl⟩
    · obtain ⟨m, hm, q, hq, hx⟩ := flatSubs_heads r e he
      exact ⟨m, by simp only [names, List.map_cons, List.mem_cons] at hm ⊢; exact Or.inr hm, q, hq, hx⟩

mutual
theorem flat_nodup : ∀ (t : Tree), WFT t → ((flat t).map (·.1)).Nodup
  | .node vals subs, h => by
    simp only [WFT] at h
    obtain ⟨hv, hs, _, _, hw⟩ := h
    simp only [flat, List.map_append, List.map_map]
    rw [List.nodup_append]
    refine ⟨?_, flatSubs_nodup subs hw hs, ?_⟩
    · have : List.map ((fun x => x.1) ∘ fun kv : Str × Str => ([kv.1], kv.2)) vals = (names vals).map (fun k => [k]) := by
        simp [names, List.map_map, Function.comp_def]
      rw [this]
      exact nodup_map_on (fun a _ b _ e => by simpa using e) hv
    · intro a ha b hb
      simp only [List.mem_map, Function.comp] at ha hb
      obtain ⟨kv, _, rfl⟩ := ha
      obtain ⟨e, he, rfl⟩ := hb
      obtain ⟨n, _, q, hq, hx⟩ := flatSubs_heads subs e he
      rw [hx]
      intro e2
      simp only [List.cons.injEq] at e2
      exact hq e2.2.symm
theorem flatSubs_nodup : ∀ (subs : List (Str × Tree)), WFS subs → (names subs).Nodup → ((flatSubs subs).map (·.1)).Nodup
  | [], _, _ => by simp [flatSubs]
  | (n, s) :: r, h, hnd => by
    simp only [WFS] at h
    simp only [names, List.map_cons, List.nodup_cons] at hnd
    simp only [flatSubs, List.map_append, List.map_map]
    rw [List.nodup_append]
    refine ⟨?_, flatSubs_nodup r h.2.2.2 hnd.2, ?_⟩
    · have : List.map ((fun x => x.1) ∘ fun e : List Str × Str => (n :: e.1, e.2)) (flat s) = ((flat s).map (·.1)).map (fun q => n :: q) := by
        simp [List.map_map, Function.comp_def]
      rw [this]
      exact nodup_map_on (fun a _ b _ e => by simpa using e) (flat_nodup s h.2.1)
    · intro a ha b hb
      simp only [List.mem_map, Function.comp] at ha hb
      obtain ⟨e1, _, rfl⟩ := ha
      obtain ⟨e2, he2, rfl⟩ := hb
      obtain ⟨m, hm, q, _, hx⟩ := flatSubs_heads r e2 he2
      rw [hx]
      intro e
      simp only [List.cons.injEq] at e
      exact hnd.1 (e.1 ▸ hm)
end

/-- dotted key of a path -/
def joinDots (p : List Str) : Str := joinC '.' p

/-- the entries of a tree with their full dotted keys -/
def flatten (t : Tree) : List (Str × Str) := (flat t).map (fun e => (joinDots e.1, e.2))

theorem comps_joinDots (p : List Str) (hne : p ≠ []) (hc : ∀ c ∈ p, '.' ∉ c) : comps (joinDots p) = p :=
  splitOnC_joinC '.' p hne hc

theorem pathsOf_flatten (t : Tree) (h : WFT t) : pathsOf (flatten t) = flat t := by
  simp only [pathsOf, flatten, List.map_map]
  have : ∀ e ∈ flat t, ((fun e : Str × Str => (comps e.1, e.2)) ∘ fun e : List Str × Str => (joinDots e.1, e.2)) e = e := by
    intro e he
    simp only [Function.comp]
    rw [comps_joinDots e.1 (flat_paths_ne_nil t e he) (flat_comps_nodot t h e he)]
  rw [List.map_congr_left this]
  simp

theorem flatten_keys_nodup (t : Tree) (h : WFT t) : ((flatten t).map (·.1)).Nodup := by
  have : (flatten t).map (·.1) = ((flat t).map (·.1)).map joinDots := by
    simp [flatten, List.map_map, Function.comp_def]
  rw [this]
  apply nodup_map_on _ (flat_nodup t h)
  intro a ha b hb e
  simp only [List.mem_map] at ha hb
  obtain ⟨ea, hea, rfl⟩ := ha
  obtain ⟨eb, heb, rfl⟩ := hb
  have h1 := comps_joinDots ea.1 (flat_paths_ne_nil t ea hea) (flat_comps_nodot t h ea hea)
  have h2 := comps_joinDots eb.1 (flat_paths_ne_nil t eb heb) (flat_comps_nodot t h eb heb)
  rw [← h1, ← h2, e]

/-- with overwrite, distinct fresh keys: `applyAll` is exactly the sequence of `set`s -/
theorem applyAll_true_of_setAllP : ∀ (es : List (Str × Str)) (st : St) (t' : Tree),
    (es.map (·.1)).Nodup → (∀ k ∈ es.map (·.1), k ∉ st.seen) → setAllP (pathsOf es) st.tree = .ok t' →
    ∃ st', applyAll true es st = .ok st' ∧ st'.tree = t' ∧ st'.pfx = st.pfx
  | [], st, t', _, _, h => by
    simp only [pathsOf, List.map_nil, setAllP] at h
    injection h with h
    exact ⟨st, rfl, h, rfl⟩
  | (k, v) :: r, st, t', hnd, hfresh, h => by
    simp only [pathsOf, List.map_cons, setAllP] at h
    cases hs : setPath (comps k) v st.tree with
    | error e => rw [hs] at h; simp at h
    | ok t1 =>
      rw [hs] at h
      simp only [andThen_ok] at h
      simp only [List.map_cons, List.nodup_cons] at hnd
      have hk : st.seen.contains k = false := by
        have := hfresh k (by simp)
        simpa using this
      have hstep : assignStep true st k v = .ok { st with seen := k :: st.seen, tree := t1 } := by
        unfold assignStep
        simp only [hk, Bool.false_eq_true, if_false, if_true, Tree.set, hs]
      obtain ⟨st', h1, h2, h3⟩ := applyAll_true_of_setAllP r { st with seen := k :: st.seen, tree := t1 } t' hnd.2
        (by
          intro q hq
          simp only [List.mem_cons, not_or]
          exact ⟨fun e => hnd.1 (e ▸ hq), hfresh q (by simp only [List.map_cons, List.mem_cons]; exact Or.inr hq)⟩)
        h
      exact ⟨st', by simp only [applyAll, hstep]; exact h1, h2, h3⟩

/-- **every hierarchy is rebuilt from its entries** -/
theorem applyAll_flatten (t : Tree) (h : WFT t) (pfx : Str) :
    ∃ st', applyAll true (flatten t) ⟨pfx, [], .empty⟩ = .ok st' ∧ st'.tree = t := by
  obtain ⟨st', h1, h2, _⟩ := applyAll_true_of_setAllP (flatten t) ⟨pfx, [], .empty⟩ t (flatten_keys_nodup t h)
    (by simp) (by rw [pathsOf_flatten t h]; exact rebuild t h)
  exact ⟨st', h1, h2⟩

end DV.C12
