/-
C10 helper lemmas, part 10 (round four): the generated tables mean what the specification says, and the extended
statement machine (`Model/C10Hist.lean`) refines the machine over natural numbers modulo W.  Core Lean only.
-/
import DuneVerif.Model.C10Hist
import DuneVerif.Proofs.C10Prog

set_option linter.unusedSimpArgs false

namespace DV.C10
open DV.C10.Gen

/-- the table regenerated from the twenty free mixed operators: every arithmetic operator, for a signed and for an
    unsigned built-in operand on either side, applies *that* operator with the operands in *that* order (for `+` and
    `*` possibly commuted); no other entry exists -/
theorem mixedOk_all (s bl : Bool) (o : BinOp) : mixedOk s bl o = true := by
  cases s <;> cases bl <;> cases o <;> rfl

theorem specBin_comm (W : Nat) {o : BinOp} (h : o = .add ∨ o = .mul) (x y : Nat) : specBin W o x y = specBin W o y x := by
  rcases h with h | h <;> subst h
  · simp only [specBin, Nat.add_comm]
  · simp only [specBin, Nat.mul_comm]

theorem binop_all (o : BinOp) : o ∈ binopViaCompound := by
  cases o <;> simp [binopViaCompound]

theorem builtin_bounds {t : IntTy} {y : Int} (h : builtinOk t y = true) :
    y < 2 ^ 64 ∧ (y < 0 → t.signed = true) := by
  unfold builtinOk at h
  simp only [Bool.and_eq_true, decide_eq_true_eq] at h
  obtain ⟨hw, hy⟩ := h
  have hp : 2 ^ t.width ≤ 2 ^ 64 := Nat.pow_le_pow_right (by omega) hw
  have hp' : 2 ^ (t.width - 1) ≤ 2 ^ 64 := Nat.pow_le_pow_right (by omega) (by omega)
  unfold IntTy.holds at hy
  split at hy
  · rename_i hs
    have := of_decide_eq_true hy
    exact ⟨by omega, fun _ => hs⟩
  · have := of_decide_eq_true hy
    exact ⟨by omega, fun hneg => by omega⟩

/-- conversion of a built-in operand of any admitted type: rejected iff negative, else `y mod W` -/
theorem construct_cases {n : Nat} {t : IntTy} {y : Int} (h : builtinOk t y = true) :
    (y < 0 ∧ construct n t y = .negative) ∨
    (0 ≤ y ∧ construct n t y = .ok (assign n y.toNat) ∧ Wf n (assign n y.toNat) ∧
      val (assign n y.toNat) = y.toNat % W n) := by
  obtain ⟨hlt, hs⟩ := builtin_bounds h
  by_cases hneg : y < 0
  · exact Or.inl ⟨hneg, construct_signed_neg n t y (hs hneg) hneg⟩
  · have h0 : 0 ≤ y := by omega
    have hx : y.toNat < 2 ^ 64 := by omega
    exact Or.inr ⟨h0, construct_nonneg n t y h0, assign_wf' n _, assign_val' n hx⟩

theorem ofRes_abs (res : Res) : (Obs.ofRes res).abs = SObs.ofOpt res.abs := by
  cases res <;> rfl

theorem commitObs_spec {n : Nat} {r : Regs} (hr : WfRegs n r) (d : Reg) {res : Res} {spec : Option Nat}
    (h : ResOk n res spec) :
    ((commitObs r d res).1.abs, (commitObs r d res).2.abs) = scommitObs r.abs d spec ∧
    WfRegs n (commitObs r d res).1 := by
  obtain ⟨e, w⟩ := commit_spec hr d h
  have e1 := congrArg Prod.fst e
  have e2 := congrArg Prod.snd e
  simp only at e1 e2
  unfold commitObs scommitObs
  rw [ofRes_abs, e1, e2]
  exact ⟨rfl, w⟩

theorem cmpEval_spec {n : Nat} {a x : List Nat} (ha : Wf n a) (hx : Wf n x) (c : Cmp) :
    cmpEval c a x = cmpSpec c (val a) (val x) := by
  cases c
  · exact lt_val' ha hx
  · exact le_val' ha hx
  · exact gt_val' ha hx
  · exact ge_val' ha hx
  · exact eq_val' ha hx
  · exact ne_val' ha hx

theorem touint_val0 {n : Nat} {a : List Nat} (ha : Wf n a) : touint a = val a % 2 ^ 32 := by
  by_cases hn : 1 ≤ n
  · exact touint_val' ha hn
  · have : a = [] := List.eq_nil_of_length_eq_zero (by have := ha.1; omega)
    subst this
    rfl

/-- one round-four statement: the model step abstracts to the spec step and keeps the variables well-formed -/
theorem step4_refines {k : Nat} {r : Regs} (hr : WfRegs (ndigits k) r) (s : Stmt) :
    (step4 k r s).map (fun p => (p.1.abs, p.2.abs)) = specStep4 (ndigits k) r.abs s ∧
    ∀ r' o, step4 k r s = some (r', o) → WfRegs (ndigits k) r' := by
  unfold step4 specStep4
  by_cases hv : s.valid (ndigits k) = true
  · simp only [hv, Bool.not_true, Bool.false_eq_true, if_false]
    have key : ∀ (d : Reg) (res : Res) (spec : Option Nat), ResOk (ndigits k) res spec →
        (Option.map (fun p : Regs × Obs => (p.1.abs, p.2.abs)) (some (commitObs r d res)) =
          some (scommitObs r.abs d spec)) ∧
        ∀ r' o, some (commitObs r d res) = some (r', o) → WfRegs (ndigits k) r' := by
      intro d res spec h
      obtain ⟨e, w⟩ := commitObs_spec hr d h
      refine ⟨by simp only [Option.map_some, e], fun r' o he => ?_⟩
      have e2 : commitObs r d res = (r', o) := Option.some.inj he
      rw [e2] at w
      exact w
    cases s with
    | old op =>
      obtain ⟨h1, h2⟩ := step_refines hr op
      simp only
      rw [← h1]
      cases hs : step k r op with
      | none => exact ⟨rfl, fun r' o h => by cases h⟩
      | some p =>
        refine ⟨by simp [ofRes_abs], fun r' o h => ?_⟩
        simp only [Option.map_some, Option.some.injEq, Prod.mk.injEq] at h
        rw [← h.1]
        exact h2 p.1 p.2 (by rw [hs])
    | mixed o d t y bl =>
      have hb : builtinOk t y = true := hv
      have hok := mixedOk_all t.signed bl o
      unfold mixedOk at hok
      cases hm : mixedBody t.signed bl o with
      | none =>
        rw [hm] at hok
        have ha' : isArith o = false := by simpa using hok
        simp only [hm, ha', Bool.false_eq_true, if_false, Bool.not_false, if_true, Option.map_none]
        exact ⟨trivial, fun r' o' h => by cases h⟩
      | some b =>
        rw [hm] at hok
        simp only [Bool.and_eq_true, Bool.or_eq_true, beq_iff_eq, decide_eq_true_eq] at hok
        obtain ⟨⟨ha, hop⟩, hside⟩ := hok
        simp only [hm, ha, Bool.not_true, Bool.false_eq_true, if_false]
        rcases construct_cases (n := ndigits k) hb with ⟨hneg, hc⟩ | ⟨hpos, hc, hwf, hval⟩
        · simp only [hc, hneg, if_true]
          exact ⟨rfl, fun r' o' h => by cases h; exact hr⟩
        · have hnn : ¬ y < 0 := by omega
          simp only [hc, hnn, if_false, abs_get, hop]
          have h1 := applyBin_spec (k := k) o hwf (hr.get d)
          rw [hval, W_eq] at h1
          have h2 := applyBin_spec (k := k) o (hr.get d) hwf
          rw [hval, W_eq] at h2
          have hcomm : b.bigLeft ≠ bl → ∀ u v, specBin (2 ^ (bits * ndigits k)) o u v =
              specBin (2 ^ (bits * ndigits k)) o v u := by
            intro hne u v
            rcases hside with (hs | hs) | hs
            · exact absurd hs hne
            · exact specBin_comm _ (Or.inl hs) u v
            · exact specBin_comm _ (Or.inr hs) u v
          cases hbl : b.bigLeft <;> cases bl <;> simp only [Bool.false_eq_true, if_false, if_true, ↓reduceIte]
          · exact key d _ _ h1
          · rw [hcomm (by simp [hbl])]
            exact key d _ _ h1
          · rw [hcomm (by simp [hbl])]
            exact key d _ _ h2
          · exact key d _ _ h2
    | compound o d t y =>
      have hb : builtinOk t y = true := hv
      rcases construct_cases (n := ndigits k) hb with ⟨hneg, hc⟩ | ⟨hpos, hc, hwf, hval⟩
      · simp only [hc, hneg, if_true]
        exact ⟨rfl, fun r' o' h => by cases h; exact hr⟩
      · have hnn : ¬ y < 0 := by omega
        simp only [hc, hnn, if_false, abs_get]
        have h := applyBin_spec (k := k) o (hr.get d) hwf
        rw [hval, W_eq] at h
        exact key d _ _ h
    | cmp c x y =>
      simp only [Option.map_some, abs_get, cmpEval_spec (hr.get x) (hr.get y) c, Obs.abs]
      exact ⟨trivial, fun r' o' h => by cases h; exact hr⟩
    | cmpB c x t y =>
      have hb : builtinOk t y = true := hv
      rcases construct_cases (n := ndigits k) hb with ⟨hneg, hc⟩ | ⟨hpos, hc, hwf, hval⟩
      · simp only [hc, hneg, if_true]
        exact ⟨rfl, fun r' o' h => by cases h; exact hr⟩
      · have hnn : ¬ y < 0 := by omega
        simp only [hc, hnn, if_false, Option.map_some, abs_get, cmpEval_spec (hr.get x) hwf c, hval, W_eq, Obs.abs]
        exact ⟨trivial, fun r' o' h => by cases h; exact hr⟩
    | touint x =>
      simp only [Option.map_some, abs_get, touint_val0 (hr.get x), Obs.abs]
      exact ⟨trivial, fun r' o' h => by cases h; exact hr⟩
  · simp only [hv, Bool.not_false, if_true, Option.map_none]
    exact ⟨trivial, fun r' o h => by cases h⟩

/-- all round-four histories: induction over the program -/
theorem run4_refines {k : Nat} : ∀ (p : List Stmt) (r : Regs), WfRegs (ndigits k) r →
    (run4 k r p).map (fun q => (q.1.map Obs.abs, q.2.abs)) = specRun4 (ndigits k) r.abs p ∧
    ∀ os r', run4 k r p = some (os, r') → WfRegs (ndigits k) r'
  | [], r, hr => ⟨rfl, fun os r' h => by cases h; exact hr⟩
  | s :: ss, r, hr => by
    obtain ⟨h1, h2⟩ := step4_refines hr s
    unfold run4 specRun4
    rw [← h1]
    cases hs : step4 k r s with
    | none => exact ⟨rfl, fun os r' h => by cases h⟩
    | some p =>
      obtain ⟨r1, o1⟩ := p
      have hr1 := h2 r1 o1 hs
      obtain ⟨i1, i2⟩ := run4_refines ss r1 hr1
      simp only [Option.map_some]
      rw [← i1]
      cases hq : run4 k r1 ss with
      | none => exact ⟨rfl, fun os r' h => by cases h⟩
      | some q =>
        obtain ⟨os, r2⟩ := q
        refine ⟨rfl, fun os' r' h => ?_⟩
        cases h
        exact i2 os r2 hq

end DV.C10
