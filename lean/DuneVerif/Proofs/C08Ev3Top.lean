import DuneVerif.Proofs.C08Ev3Vec
set_option linter.unusedSimpArgs false
/-!
# C08 — the 3x3 entry points `eigenValues3d` / `eigenValuesVectors3d` on the unscaled matrix: branch conditions,
agreement of the two entry points, un-scaling of eigenpairs, the diagonal special case
-/
namespace DV.C08

/-- the eigenvector routine and the eigenvalue routine take the diagonal shortcut under the same condition
(`offDiagNorm = p1`, and the two translated thresholds coincide) -/
theorem diagBranchVec_iff (eps : ℝ) (S : M3 ℝ) : diagBranchVec eps S = true ↔ DiagBranch eps S := by
  unfold diagBranchVec DiagBranch
  rw [decide_eq_true_eq, norm2_3_eq, p1Of_eq]
  unfold Gen.ev3_vecThreshold Gen.ev3_diagThreshold
  exact Iff.rfl

theorem mulVec3_shift_unscale (A : M3 ℝ) (m l : ℝ) (v : V3 ℝ) (hm : m ≠ 0)
    (h : mulVec3 (shift3 (sdiv3 A m) l) v = ⟨0, 0, 0⟩) : mulVec3 (shift3 A (l * m)) v = ⟨0, 0, 0⟩ := by
  unfold mulVec3 dot3 shift3 sdiv3 at h
  simp only [V3.mk.injEq] at h
  obtain ⟨h0, h1, h2⟩ := h
  unfold mulVec3 dot3 shift3
  simp only [V3.mk.injEq]
  refine ⟨?_, ?_, ?_⟩
  · have : (A.a00 - l * m) * v.x + A.a01 * v.y + A.a02 * v.z
        = m * ((A.a00 / m - l) * v.x + A.a01 / m * v.y + A.a02 / m * v.z) := by field_simp
    rw [this, h0, mul_zero]
  · have : A.a10 * v.x + (A.a11 - l * m) * v.y + A.a12 * v.z
        = m * (A.a10 / m * v.x + (A.a11 / m - l) * v.y + A.a12 / m * v.z) := by field_simp
    rw [this, h1, mul_zero]
  · have : A.a20 * v.x + A.a21 * v.y + (A.a22 - l * m) * v.z
        = m * (A.a20 / m * v.x + A.a21 / m * v.y + (A.a22 / m - l) * v.z) := by field_simp
    rw [this, h2, mul_zero]

theorem EigTriple_unscale (A : M3 ℝ) (m l0 l1 l2 : ℝ) (v0 v1 v2 : V3 ℝ) (hm : m ≠ 0)
    (h : EigTriple (sdiv3 A m) l0 l1 l2 v0 v1 v2) : EigTriple A (l0 * m) (l1 * m) (l2 * m) v0 v1 v2 :=
  ⟨h.n0, h.n1, h.n2, h.o01, h.o02, h.o12, mulVec3_shift_unscale A m l0 v0 hm h.k0,
    mulVec3_shift_unscale A m l1 v1 hm h.k1, mulVec3_shift_unscale A m l2 v2 hm h.k2⟩

/-- the result of `eigenValuesVectors3d` in the trigonometric branch -/
theorem vectors3d_trig (sqrt acos cos : ℝ → ℝ) (pi eps : ℝ) (A : M3 ℝ)
    (hb : diagBranchVec eps (sdiv3 A (maxAbsElement A)) = false) :
    eigenValuesVectors3d sqrt acos cos pi eps A =
      (let m := maxAbsElement A
       let S := sdiv3 A m
       let lr := eigenValues3dImpl sqrt acos cos pi eps S
       let t := trigVectors sqrt S lr.1 lr.2
       ((t.1.1 * m, t.2.1.1 * m, t.2.2.1 * m), (t.1.2, t.2.1.2, t.2.2.2))) := by
  unfold eigenValuesVectors3d
  simp only [hb]
  rfl

/-- the three values of the diagonal special case of the eigenvector routine are those of the eigenvalue routine:
both run the same three compare-and-swap steps on the diagonal of the scaled matrix -/
theorem bubble_values (a b c : ℝ) (x y z : V3 ℝ) :
    (let e0 : ℝ × V3 ℝ := (a, x)
     let e1 : ℝ × V3 ℝ := (b, y)
     let e2 : ℝ × V3 ℝ := (c, z)
     let p := swapIf (decide (e1.1 < e0.1)) (e0, e1)
     let q := swapIf (decide (e2.1 < p.2.1)) (p.2, e2)
     let r := swapIf (decide (q.1.1 < p.1.1)) (p.1, q.1)
     (r.1.1, r.2.1, q.2.1)) = sort3 a b c := by
  unfold sort3 cswap swapIf
  by_cases h1 : b < a <;> by_cases h2 : c < a <;> by_cases h3 : c < b <;> by_cases h4 : a < b <;>
    by_cases h5 : a < c <;> by_cases h6 : b < c <;>
    first
    | (exfalso; linarith)
    | simp [h1, h2, h3, h4, h5, h6]

theorem vectors3d_diag (sqrt acos cos : ℝ → ℝ) (pi eps : ℝ) (A : M3 ℝ)
    (hb : diagBranchVec eps (sdiv3 A (maxAbsElement A)) = true) :
    eigenValuesVectors3d sqrt acos cos pi eps A =
      (let m := maxAbsElement A
       let S := sdiv3 A m
       let e0 : ℝ × V3 ℝ := (S.a00, ⟨1, 0, 0⟩)
       let e1 : ℝ × V3 ℝ := (S.a11, ⟨0, 1, 0⟩)
       let e2 : ℝ × V3 ℝ := (S.a22, ⟨0, 0, 1⟩)
       let p := swapIf (decide (e1.1 < e0.1)) (e0, e1)
       let q := swapIf (decide (e2.1 < p.2.1)) (p.2, e2)
       let r := swapIf (decide (q.1.1 < p.1.1)) (p.1, q.1)
       ((r.1.1 * m, r.2.1 * m, q.2.1 * m), (r.1.2, r.2.2, q.2.2))) := by
  unfold eigenValuesVectors3d
  simp only [hb, if_true, zero, one, Nat.cast_zero, Nat.cast_one]

/-- **agreement of the two 3x3 entry points** (any matrix, any elementary functions) -/
theorem entry_points_agree3 (sqrt acos cos : ℝ → ℝ) (pi eps : ℝ) (A : M3 ℝ) :
    (eigenValuesVectors3d sqrt acos cos pi eps A).1 = eigenValues3d sqrt acos cos pi eps A := by
  by_cases hb : diagBranchVec eps (sdiv3 A (maxAbsElement A)) = true
  · rw [vectors3d_diag sqrt acos cos pi eps A hb]
    have hd := (diagBranchVec_iff eps _).mp hb
    unfold eigenValues3d
    simp only
    rw [impl_diag sqrt acos cos pi eps _ hd]
    have := bubble_values (sdiv3 A (maxAbsElement A)).a00 (sdiv3 A (maxAbsElement A)).a11 (sdiv3 A (maxAbsElement A)).a22
      ⟨1, 0, 0⟩ ⟨0, 1, 0⟩ ⟨0, 0, 1⟩
    simp only at this
    rw [← this]
  · have hb' : diagBranchVec eps (sdiv3 A (maxAbsElement A)) = false := by
      cases h : diagBranchVec eps (sdiv3 A (maxAbsElement A))
      · rfl
      · exact absurd h hb
    rw [vectors3d_trig sqrt acos cos pi eps A hb']
    have hasc := impl_asc sqrt acos cos pi eps (sdiv3 A (maxAbsElement A))
    simp only at hasc
    unfold eigenValues3d trigVectors
    simp only
    split_ifs with hr
    · rw [sortPairs3_sorted _ _ _ hasc.1 hasc.2]
    · rw [sortPairs3_sorted _ _ _ hasc.1 hasc.2]

/-! ## the diagonal special case: unit vectors, residual bounded by the threshold -/

/-- squared length of the residual `(A - λ I) v` -/
noncomputable def resid2 (A : M3 ℝ) (l : ℝ) (v : V3 ℝ) : ℝ := norm2_3 (mulVec3 (shift3 A l) v)

theorem resid_unit_x (A : M3 ℝ) : resid2 A A.a00 ⟨1, 0, 0⟩ = A.a10 * A.a10 + A.a20 * A.a20 := by
  unfold resid2 mulVec3 dot3 shift3
  rw [norm2_3_eq]
  simp only
  ring

theorem resid_unit_y (A : M3 ℝ) : resid2 A A.a11 ⟨0, 1, 0⟩ = A.a01 * A.a01 + A.a21 * A.a21 := by
  unfold resid2 mulVec3 dot3 shift3
  rw [norm2_3_eq]
  simp only
  ring

theorem resid_unit_z (A : M3 ℝ) : resid2 A A.a22 ⟨0, 0, 1⟩ = A.a02 * A.a02 + A.a12 * A.a12 := by
  unfold resid2 mulVec3 dot3 shift3
  rw [norm2_3_eq]
  simp only
  ring

/-- the pairs (diagonal entry, coordinate vector) all have residual² ≤ p1 for a symmetric matrix -/
def GoodPair (S : M3 ℝ) (p : ℝ × V3 ℝ) : Prop :=
  norm2_3 p.2 = 1 ∧ resid2 S p.1 p.2 ≤ p1Of S

theorem goodPair_x (S : M3 ℝ) (hs : Sym3 S) : GoodPair S (S.a00, ⟨1, 0, 0⟩) := by
  obtain ⟨h1, h2, h3⟩ := hs
  refine ⟨by rw [norm2_3_eq]; norm_num, ?_⟩
  show resid2 S S.a00 ⟨1, 0, 0⟩ ≤ p1Of S
  rw [resid_unit_x, p1Of_eq, h1, h2]
  nlinarith [mul_self_nonneg S.a12]

theorem goodPair_y (S : M3 ℝ) (hs : Sym3 S) : GoodPair S (S.a11, ⟨0, 1, 0⟩) := by
  obtain ⟨h1, h2, h3⟩ := hs
  refine ⟨by rw [norm2_3_eq]; norm_num, ?_⟩
  show resid2 S S.a11 ⟨0, 1, 0⟩ ≤ p1Of S
  rw [resid_unit_y, p1Of_eq, h3]
  nlinarith [mul_self_nonneg S.a02]

theorem goodPair_z (S : M3 ℝ) (hs : Sym3 S) : GoodPair S (S.a22, ⟨0, 0, 1⟩) := by
  obtain ⟨h1, h2, h3⟩ := hs
  refine ⟨by rw [norm2_3_eq]; norm_num, ?_⟩
  show resid2 S S.a22 ⟨0, 0, 1⟩ ≤ p1Of S
  rw [resid_unit_z, p1Of_eq]
  nlinarith [mul_self_nonneg S.a01]

theorem swapIf_cases (c : Bool) (p : (ℝ × V3 ℝ) × (ℝ × V3 ℝ)) : swapIf c p = p ∨ swapIf c p = (p.2, p.1) := by
  unfold swapIf
  cases c <;> simp

/-- the joint bubble sort returns a permutation: every returned pair is good, and the vectors stay orthogonal -/
theorem bubble_pairs (S : M3 ℝ) (hs : Sym3 S) :
    let e0 : ℝ × V3 ℝ := (S.a00, ⟨1, 0, 0⟩)
    let e1 : ℝ × V3 ℝ := (S.a11, ⟨0, 1, 0⟩)
    let e2 : ℝ × V3 ℝ := (S.a22, ⟨0, 0, 1⟩)
    let p := swapIf (decide (e1.1 < e0.1)) (e0, e1)
    let q := swapIf (decide (e2.1 < p.2.1)) (p.2, e2)
    let r := swapIf (decide (q.1.1 < p.1.1)) (p.1, q.1)
    GoodPair S r.1 ∧ GoodPair S r.2 ∧ GoodPair S q.2 ∧
      dot3 r.1.2 r.2.2 = 0 ∧ dot3 r.1.2 q.2.2 = 0 ∧ dot3 r.2.2 q.2.2 = 0 := by
  have gx := goodPair_x S hs
  have gy := goodPair_y S hs
  have gz := goodPair_z S hs
  simp only
  unfold swapIf
  by_cases h1 : S.a11 < S.a00 <;> by_cases h2 : S.a22 < S.a00 <;> by_cases h3 : S.a22 < S.a11 <;>
    by_cases h4 : S.a00 < S.a11 <;> by_cases h5 : S.a00 < S.a22 <;> by_cases h6 : S.a11 < S.a22 <;>
    first
    | (exfalso; linarith)
    | simp [h1, h2, h3, h4, h5, h6, gx, gy, gz, dot3_eq]

theorem resid2_unscale (A : M3 ℝ) (m l : ℝ) (v : V3 ℝ) (hm : m ≠ 0) :
    resid2 A (l * m) v = m * m * resid2 (sdiv3 A m) l v := by
  unfold resid2 mulVec3 dot3 shift3 sdiv3
  rw [norm2_3_eq, norm2_3_eq]
  simp only
  field_simp

/-- a factorisation of the characteristic polynomial of the max-norm-scaled matrix, scaled back -/
theorem charPoly3_unscale_factor (A : M3 ℝ) (m a b c : ℝ) (hm : m ≠ 0)
    (h : ∀ t, charPoly3 (sdiv3 A m) t = (t - a) * (t - b) * (t - c)) :
    ∀ t, charPoly3 A t = (t - a * m) * (t - b * m) * (t - c * m) := by
  intro t
  have key : charPoly3 A t = m ^ 3 * charPoly3 (sdiv3 A m) (t / m) := by
    unfold charPoly3 det3 shift3 sdiv3
    simp only
    field_simp
  rw [key, h (t / m)]
  field_simp

/-- the whole trigonometric branch of `eigenValuesVectors3d` for a symmetric matrix: the values are those of
`eigenValues3d` and, with the vectors, form an orthonormal eigen-decomposition of `A` -/
theorem vectors3d_trig_correct (eps : ℝ) (he : 0 ≤ eps) (A : M3 ℝ) (hs : Sym3 A)
    (hb : diagBranchVec eps (sdiv3 A (maxAbsElement A)) = false) :
    EigTriple A (eigenValuesVectors3d Real.sqrt Real.arccos Real.cos Real.pi eps A).1.1
      (eigenValuesVectors3d Real.sqrt Real.arccos Real.cos Real.pi eps A).1.2.1
      (eigenValuesVectors3d Real.sqrt Real.arccos Real.cos Real.pi eps A).1.2.2
      (eigenValuesVectors3d Real.sqrt Real.arccos Real.cos Real.pi eps A).2.1
      (eigenValuesVectors3d Real.sqrt Real.arccos Real.cos Real.pi eps A).2.2.1
      (eigenValuesVectors3d Real.sqrt Real.arccos Real.cos Real.pi eps A).2.2.2 := by
  have hm := (maxAbsElement_pos A).ne'
  have hS := sdiv3_sym A (maxAbsElement A) hs
  have hnd : ¬ DiagBranch eps (sdiv3 A (maxAbsElement A)) := by
    intro hd
    rw [(diagBranchVec_iff eps _).mpr hd] at hb
    exact Bool.noConfusion hb
  rw [vectors3d_trig _ _ _ _ eps A hb]
  simp only
  have hasc := impl_asc Real.sqrt Real.arccos Real.cos Real.pi eps (sdiv3 A (maxAbsElement A))
  simp only at hasc
  have hf := trig_factor eps he _ hS hnd
  have hr := trig_r_sign eps he _ hS hnd
  obtain ⟨e0, e1, e2, T⟩ := trigVectors_spec (sdiv3 A (maxAbsElement A)) hS _ _ _ _ hasc.1 hasc.2 hf hr
  rw [e0, e1, e2]
  exact EigTriple_unscale A _ _ _ _ _ _ _ hm T

/-- the diagonal special case of `eigenValuesVectors3d` for a symmetric matrix: unit, mutually orthogonal vectors whose
residuals `(A - λᵢ I) vᵢ` have squared length at most `eps · m²`, `m` the max norm of `A` -/
theorem vectors3d_diag_correct (sqrt acos cos : ℝ → ℝ) (pi eps : ℝ) (A : M3 ℝ) (hs : Sym3 A)
    (hb : diagBranchVec eps (sdiv3 A (maxAbsElement A)) = true) :
    let R := eigenValuesVectors3d sqrt acos cos pi eps A
    let m := maxAbsElement A
    norm2_3 R.2.1 = 1 ∧ norm2_3 R.2.2.1 = 1 ∧ norm2_3 R.2.2.2 = 1 ∧
      dot3 R.2.1 R.2.2.1 = 0 ∧ dot3 R.2.1 R.2.2.2 = 0 ∧ dot3 R.2.2.1 R.2.2.2 = 0 ∧
      resid2 A R.1.1 R.2.1 ≤ eps * (m * m) ∧ resid2 A R.1.2.1 R.2.2.1 ≤ eps * (m * m) ∧
      resid2 A R.1.2.2 R.2.2.2 ≤ eps * (m * m) := by
  have hm := (maxAbsElement_pos A).ne'
  have hS := sdiv3_sym A (maxAbsElement A) hs
  have hd : p1Of (sdiv3 A (maxAbsElement A)) ≤ eps := (diagBranchVec_iff eps _).mp hb
  simp only
  rw [vectors3d_diag sqrt acos cos pi eps A hb]
  obtain ⟨g0, g1, g2, o01, o02, o12⟩ := bubble_pairs (sdiv3 A (maxAbsElement A)) hS
  simp only at g0 g1 g2 o01 o02 o12 ⊢
  have hmm : 0 ≤ maxAbsElement A * maxAbsElement A := mul_self_nonneg _
  have bound : ∀ p : ℝ × V3 ℝ, GoodPair (sdiv3 A (maxAbsElement A)) p →
      resid2 A (p.1 * maxAbsElement A) p.2 ≤ eps * (maxAbsElement A * maxAbsElement A) := by
    intro p hp
    rw [resid2_unscale A _ _ _ hm]
    calc maxAbsElement A * maxAbsElement A * resid2 (sdiv3 A (maxAbsElement A)) p.1 p.2
        ≤ maxAbsElement A * maxAbsElement A * eps := mul_le_mul_of_nonneg_left (le_trans hp.2 hd) hmm
      _ = eps * (maxAbsElement A * maxAbsElement A) := by ring
  exact ⟨g0.1, g1.1, g2.1, o01, o02, o12, bound _ g0, bound _ g1, bound _ g2⟩

end DV.C08
