import DuneVerif.Model.C13
/-! C13, round four: lemmas about the definitions that take source-derived data as parameters
(`insertEntryG`, `calcInfo`).  Core Lean only. -/
namespace DV.C13

/-- the reference conditions: advance while `<`, insert if `≠`, scan while `=`, found if the remote attribute is equal,
insert unless found -/
def InsertConds.reference : InsertConds := ⟨.lt, .ne, .eq, .eq, true⟩

/-- the hand-written `insertEntry` of the protocol model is the skeleton of `insertIntoRemoteIndexList` with the
reference conditions -/
theorem insertEntryG_reference (n : RemEntry) : ∀ l : List RemEntry,
    insertEntryG InsertConds.reference n l = insertEntry n l
  | [] => by simp [insertEntryG, insertEntry]
  | e :: es => by
    have ih := insertEntryG_reference n es
    unfold InsertConds.reference at ih ⊢
    simp only [insertEntryG, insertEntry, Cmp.evalKey, Cmp.evalNat, remLt, sameKey, ih, beq_true]
    rfl

/-! ### the counting loop of `calculateMessageSizes` -/

/-- the counting increments the model's messages correspond to: one published index and as many pairs as holders -/
def CountIncr.reference : CountIncr := ⟨.const 1, .holders⟩

theorem inner_fold (a b : Nat) (q : Nat) : ∀ (l : List (Nat × Nat)) (info : Nat → Nat × Nat),
    (l.foldl (fun info h => fun q => if q = h.1 then ((info q).1 + a, (info q).2 + b) else info q) info) q =
      ((info q).1 + l.countP (fun h => h.1 == q) * a, (info q).2 + l.countP (fun h => h.1 == q) * b)
  | [], info => by simp
  | h :: t, info => by
    rw [List.foldl_cons, inner_fold a b q t]
    by_cases hq : q = h.1
    · subst hq
      simp [Nat.add_mul]
      omega
    · have : (h.1 == q) = false := by
        simp only [beq_eq_false_iff_ne, ne_eq]
        exact fun e => hq e.symm
      simp [this, hq]

theorem countP_key_of_distinct (q : Nat) : ∀ (l : List (Nat × Nat)), l.Pairwise (fun a b => a.1 ≠ b.1) →
    l.countP (fun h => h.1 == q) = if l.any (fun h => h.1 == q) then 1 else 0
  | [], _ => by simp
  | h :: t, hp => by
    rw [List.pairwise_cons] at hp
    have ih := countP_key_of_distinct q t hp.2
    by_cases hq : h.1 = q
    · have hnot : t.any (fun x => x.1 == q) = false := by
        rw [List.any_eq_false]
        intro x hx
        have := hp.1 x hx
        simp only [beq_iff_eq]
        intro e
        exact this (hq.trans e.symm)
      rw [hnot] at ih
      simp [hq, ih]
    · have : (h.1 == q) = false := by simpa using hq
      rw [List.countP_cons, List.any_cons, this, Bool.false_or, ih]
      simp

theorem holders_distinct (g : Int) : ∀ (r : List (Nat × List RemEntry)), r.Pairwise (fun a b => a.1 ≠ b.1) →
    (holders r g).Pairwise (fun a b => a.1 ≠ b.1) ∧ ∀ h ∈ holders r g, ∃ x ∈ r, x.1 = h.1
  | [], _ => by simp [holders]
  | x :: t, hp => by
    rw [List.pairwise_cons] at hp
    obtain ⟨ih1, ih2⟩ := holders_distinct g t hp.2
    unfold holders at ih1 ih2 ⊢
    rw [List.filterMap_cons]
    cases hf : (x.2.find? (fun en => en.g == g)) with
    | none =>
      simp only [Option.map_none]
      refine ⟨ih1, fun h hh => ?_⟩
      obtain ⟨y, hy, e⟩ := ih2 h hh
      exact ⟨y, List.mem_cons_of_mem _ hy, e⟩
    | some en =>
      simp only [Option.map_some]
      refine ⟨?_, ?_⟩
      · rw [List.pairwise_cons]
        refine ⟨fun h hh => ?_, ih1⟩
        obtain ⟨y, hy, e⟩ := ih2 h hh
        have := hp.1 y hy
        simpa [e] using this
      · intro h hh
        rw [List.mem_cons] at hh
        cases hh with
        | inl e => exact ⟨x, List.mem_cons_self, by rw [e]⟩
        | inr hh =>
          obtain ⟨y, hy, e⟩ := ih2 h hh
          exact ⟨y, List.mem_cons_of_mem _ hy, e⟩

/-- the outer loop, over any list of index pairs with the remote map fixed -/
theorem outer_fold (inc : CountIncr) (r : List (Nat × List RemEntry)) (q : Nat) :
    ∀ (idx : List IdxEntry) (info : Nat → Nat × Nat),
    (idx.foldl (fun info e =>
      let hs := holders r e.g
      hs.foldl (fun info h => fun q =>
        if q = h.1 then ((info q).1 + inc.publish.eval hs.length, (info q).2 + inc.pairs.eval hs.length) else info q) info)
      info) q =
    ((info q).1 + (idx.map (fun e => (holders r e.g).countP (fun h => h.1 == q) * inc.publish.eval (holders r e.g).length)).sum,
     (info q).2 + (idx.map (fun e => (holders r e.g).countP (fun h => h.1 == q) * inc.pairs.eval (holders r e.g).length)).sum)
  | [], info => by simp
  | e :: t, info => by
    rw [List.foldl_cons, outer_fold inc r q t]
    simp only [inner_fold, List.map_cons, List.sum_cons]
    ext <;> simp only [] <;> omega

/-- counts of the message the model lets `packAndSend(q)` write, over any list of index pairs -/
theorem msgCounts_filterMap (r : List (Nat × List RemEntry)) (q : Nat) : ∀ (idx : List IdxEntry),
    msgCounts (idx.filterMap fun e =>
      let hs := holders r e.g
      if hs.any (fun h => h.1 == q) then some (⟨e.g, e.attr, hs⟩ : Item) else none) =
    ((idx.map (fun e => if (holders r e.g).any (fun h => h.1 == q) then 1 else 0)).sum,
     (idx.map (fun e => if (holders r e.g).any (fun h => h.1 == q) then (holders r e.g).length else 0)).sum)
  | [] => by simp [msgCounts]
  | e :: t => by
    have ih := msgCounts_filterMap r q t
    simp only [msgCounts] at ih ⊢
    rw [List.filterMap_cons]
    by_cases h : (holders r e.g).any (fun h => h.1 == q) = true
    · simp only [h, if_true, List.length_cons, List.map_cons, List.sum_cons]
      rw [Prod.mk.injEq] at ih ⊢
      omega
    · have h' : (holders r e.g).any (fun h => h.1 == q) = false := (Bool.not_eq_true _).mp h
      simp only [h', Bool.false_eq_true, if_false, List.map_cons, List.sum_cons]
      rw [Prod.mk.injEq] at ih ⊢
      omega

/-- **The counters of `calculateMessageSizes` are the counts of the message `packAndSend` writes**, for every state
whose neighbour map has distinct keys (a `std::map`) and every destination. -/
theorem calcInfo_reference (st : RankState) (hd : st.remote.Pairwise (fun a b => a.1 ≠ b.1)) (q : Nat) :
    calcInfo CountIncr.reference st q = msgCounts (itemsFor st q) := by
  unfold calcInfo itemsFor
  rw [outer_fold, msgCounts_filterMap]
  have key : ∀ e : IdxEntry, (holders st.remote e.g).countP (fun h => h.1 == q) =
      if (holders st.remote e.g).any (fun h => h.1 == q) then 1 else 0 :=
    fun e => countP_key_of_distinct q _ (holders_distinct e.g st.remote hd).1
  simp only [key, CountIncr.reference, Amount.eval, Nat.zero_add]
  congr 1
  · congr 1
    apply List.map_congr_left
    intro e _
    split <;> simp
  · congr 1
    apply List.map_congr_left
    intro e _
    split <;> simp

end DV.C13
