/-
C12 — the command-line readers (model section 5): `readOptions` ("-key value" pairs) and `readNamedOptions`
(positional / `--key=value` arguments, help, unknown, superfluous, missing, already specified).
-/
import DuneVerif.Model.C12
import DuneVerif.Proofs.C12Str

namespace DV.C12

/-! ### readOptions -/

/-- the assignments `pt[k] = v` in order -/
def setAll : List (Str × Str) → Tree → Except Err Tree
  | [], t => .ok t
  | (k, v) :: r, t => match t.set k v with
    | .error e => .error e
    | .ok t' => setAll r t'

/-- argv of "-key value" pairs -/
def optArgs (pairs : List (Str × Str)) : List Str := pairs.flatMap fun kv => [('-' :: kv.1), kv.2]

theorem optArgs_nil : optArgs [] = [] := rfl

theorem optArgs_cons (k v : Str) (r : List (Str × Str)) :
    optArgs ((k, v) :: r) = ('-' :: k) :: v :: optArgs r := by
  simp [optArgs]

theorem isOpt_dash_cons {k : Str} (h : k ≠ []) : isOpt ('-' :: k) = true := by
  cases k with
  | nil => exact absurd rfl h
  | cons c r => rfl

theorem readOptions_cons_opt (k v : Str) (rest : List Str) (t : Tree) (h : k ≠ []) :
    readOptions (('-' :: k) :: v :: rest) t =
      match t.set k v with
      | .error e => .error e
      | .ok t' => readOptions rest t' := by
  simp only [readOptions, isOpt_dash_cons h, List.drop_succ_cons, List.drop_zero, if_true]
  cases t.set k v <;> rfl

theorem readOptions_pairs_aux : ∀ (pairs : List (Str × Str)), (∀ kv ∈ pairs, kv.1 ≠ []) → ∀ (t : Tree),
    readOptions (optArgs pairs) t = setAll pairs t
  | [], _, t => rfl
  | (k, v) :: r, hk, t => by
    have hk0 : k ≠ [] := hk (k, v) List.mem_cons_self
    rw [optArgs_cons, readOptions_cons_opt k v _ t hk0]
    simp only [setAll]
    cases t.set k v with
    | error e => rfl
    | ok t' => exact readOptions_pairs_aux r (fun kv h => hk kv (List.mem_cons_of_mem _ h)) t'

/-- options_spec, readOptions: "-key value" pairs are stored under `key` in order (later ones overwrite) -/
theorem readOptions_pairs (pairs : List (Str × Str)) (hk : ∀ kv ∈ pairs, kv.1 ≠ []) (t : Tree) :
    readOptions (optArgs pairs) t = setAll pairs t :=
  readOptions_pairs_aux pairs hk t

/-- arguments that are not options ("-" alone, or not starting with '-') are ignored -/
theorem readOptions_skip (a : Str) (rest : List Str) (t : Tree) (h : isOpt a = false) :
    readOptions (a :: rest) t = readOptions rest t := by
  cases rest with
  | nil => simp [readOptions, h]
  | cons v r => simp [readOptions, h]

theorem readOptions_missing_argument_aux : ∀ (pairs : List (Str × Str)), (∀ kv ∈ pairs, kv.1 ≠ []) →
    ∀ (a : Str), isOpt a = true → ∀ (t t' : Tree), setAll pairs t = .ok t' →
    readOptions (optArgs pairs ++ [a]) t = .error .range
  | [], _, a, ha, t, t', _ => by simp [optArgs_nil, readOptions, ha]
  | (k, v) :: r, hk, a, ha, t, t', h => by
    have hk0 : k ≠ [] := hk (k, v) List.mem_cons_self
    rw [optArgs_cons, List.cons_append, List.cons_append, readOptions_cons_opt k v _ t hk0]
    simp only [setAll] at h
    cases hs : t.set k v with
    | error e => rw [hs] at h; cases h
    | ok t1 =>
      rw [hs] at h
      exact readOptions_missing_argument_aux r (fun kv h => hk kv (List.mem_cons_of_mem _ h)) a ha t1 t' h

/-- an option in last position has no argument: RangeError -/
theorem readOptions_missing_argument (pairs : List (Str × Str)) (hk : ∀ kv ∈ pairs, kv.1 ≠ []) (a : Str)
    (ha : isOpt a = true) (t t' : Tree) (h : setAll pairs t = .ok t') :
    readOptions (optArgs pairs ++ [a]) t = .error .range :=
  readOptions_missing_argument_aux pairs hk a ha t t' h

/-! ### tree: `touchPath` on an existing entry -/

theorem aSet_of_aGet? {α} (k : Str) (s : α) : ∀ (l : List (Str × α)), aGet? k l = some s → aSet k s l = l
  | [], h => by simp [aGet?] at h
  | (k', v) :: r, h => by
    by_cases hk : k' = k
    · simp [aGet?, hk] at h
      simp [aSet, hk, h]
    · simp [aGet?, hk] at h
      simp [aSet, hk, aSet_of_aGet? k s r h]

theorem touchPath_of_getPath : ∀ (p : List Str) (t : Tree) (s : Str),
    getPath p t = some s → touchPath p t = .ok (t, s)
  | [], _, _, h => by simp [getPath] at h
  | [k], .node vals subs, s, h => by
    simp only [getPath] at h
    by_cases h1 : aHas k vals = true
    · by_cases h2 : aHas k subs = true
      · simp [h1, h2] at h
      · simp [h1, h2] at h
        simp [touchPath, h1, h2, h]
    · simp [h1] at h
  | k :: k2 :: rest, .node vals subs, s, h => by
    simp only [getPath] at h
    by_cases h1 : aHas k vals = true
    · simp [h1] at h
    · simp only [h1, Bool.false_eq_true, if_false] at h
      cases hg : aGet? k subs with
      | none => rw [hg] at h; cases h
      | some sub =>
        rw [hg] at h
        have ih := touchPath_of_getPath (k2 :: rest) sub s h
        simp [touchPath, h1, hg, ih, aSet_of_aGet? k sub subs hg]

theorem storeOpt_already (t : Tree) (key value s : Str) (hs : t.get? key = some s) (hne : s ≠ []) :
    storeOpt false t key value = .error .parser := by
  unfold Tree.get? at hs
  simp [storeOpt, touchPath_of_getPath _ t s hs, hne]

theorem storeOpt_true (t : Tree) (key value : Str) : storeOpt true t key value = t.set key value := by
  simp [storeOpt]

/-! ### one iteration of `namedLoop` -/

theorem toList_h : "-h".toList = ['-', 'h'] := rfl
theorem toList_help : "--help".toList = ['-', '-', 'h', 'e', 'l', 'p'] := rfl

/-- a positional argument: not `-h`, not starting with `--` -/
def Positional (a : Str) : Prop := a ≠ "-h".toList ∧ ∀ r, a ≠ '-' :: '-' :: r

theorem Positional.not_help {a : Str} (h : Positional a) :
    (a == "-h".toList || a == "--help".toList) = false := by
  have h1 : a ≠ ['-', 'h'] := h.1
  have h2 : a ≠ ['-', '-', 'h', 'e', 'l', 'p'] := h.2 _
  simp [h1, h2]

/-- the positional branch of the loop body -/
def posStep (keywords : List Str) (allowMore ow : Bool) (opt : Str) (rest : List Str) (t : Tree)
    (done : List Bool) (cur : Nat) : Except Err (Tree × List Bool) :=
  let cur' := skipDone done.length done cur
  if cur' ≥ done.length then .error .parser
  else match storeOpt ow t (keywords.getD cur' []) opt with
    | .error e => .error e
    | .ok t' => namedLoop keywords allowMore ow rest t' (done.set cur' true) cur'

theorem namedLoop_pos (kws : List Str) (am ow : Bool) (a : Str) (rest : List Str) (t : Tree)
    (done : List Bool) (cur : Nat) (h : Positional a) :
    namedLoop kws am ow (a :: rest) t done cur = posStep kws am ow a rest t done cur := by
  rw [namedLoop]
  · rw [h.not_help]
    simp only [Bool.false_eq_true, if_false]
    unfold posStep
    dsimp only
    by_cases hc : skipDone done.length done cur ≥ done.length
    · rw [if_pos hc, if_pos hc]
    · rw [if_neg hc, if_neg hc]
      cases storeOpt ow t (kws.getD (skipDone done.length done cur) []) a <;> rfl
  · intro body hb
    exact h.2 body hb


def markDone (it : Option Nat) (done : List Bool) : List Bool :=
  match it with
  | some i => done.set i true
  | none => done

/-- the `--key=value` branch of the loop body -/
def namedStep (keywords : List Str) (allowMore ow : Bool) (key value : Str) (rest : List Str) (t : Tree)
    (done : List Bool) (cur : Nat) : Except Err (Tree × List Bool) :=
  if !allowMore && (findIdx? key keywords).isNone then .error .parser
  else match storeOpt ow t key value with
    | .error e => .error e
    | .ok t' => namedLoop keywords allowMore ow rest t' (markDone (findIdx? key keywords) done) cur

theorem dd_not_help {body : Str} (hh : body ≠ ['h', 'e', 'l', 'p']) :
    (('-' :: '-' :: body) == "-h".toList || ('-' :: '-' :: body) == "--help".toList) = false := by
  simp [hh]

theorem namedLoop_dd_none (kws : List Str) (am ow : Bool) (body : Str) (rest : List Str) (t : Tree)
    (done : List Bool) (cur : Nat) (hh : body ≠ ['h', 'e', 'l', 'p']) (hs : splitFirst '=' body = none) :
    namedLoop kws am ow (('-' :: '-' :: body) :: rest) t done cur = .error .parser := by
  rw [namedLoop, dd_not_help hh]
  simp only [Bool.false_eq_true, if_false, hs]

theorem namedLoop_dd_some (kws : List Str) (am ow : Bool) (body key value : Str) (rest : List Str) (t : Tree)
    (done : List Bool) (cur : Nat) (hs : splitFirst '=' body = some (key, value)) :
    namedLoop kws am ow (('-' :: '-' :: body) :: rest) t done cur =
      namedStep kws am ow key value rest t done cur := by
  have hh : body ≠ ['h', 'e', 'l', 'p'] := by
    intro e; subst e
    have : splitFirst '=' ['h', 'e', 'l', 'p'] = none := by decide
    rw [this] at hs; cases hs
  rw [namedLoop, dd_not_help hh]
  simp only [Bool.false_eq_true, if_false, hs]
  unfold namedStep
  by_cases hc : (!am && (findIdx? key kws).isNone) = true
  · rw [if_pos hc, if_pos hc]
  · rw [if_neg hc, if_neg hc]
    cases storeOpt ow t key value with
    | error e => rfl
    | ok t' =>
      dsimp only
      cases findIdx? key kws <;> rfl

/-! ### the `done` vector and `skipDone` -/

/-- `done` after the first `i` of `n` keywords have been filled -/
def doneUpTo (n i : Nat) : List Bool := List.replicate i true ++ List.replicate (n - i) false

theorem doneUpTo_zero (n : Nat) : doneUpTo n 0 = List.replicate n false := by simp [doneUpTo]

theorem length_doneUpTo {n i : Nat} (h : i ≤ n) : (doneUpTo n i).length = n := by
  simp [doneUpTo]; omega

theorem getD_doneUpTo (n i j : Nat) : (doneUpTo n i).getD j false = decide (j < i) := by
  unfold doneUpTo
  rw [List.getD_eq_getElem?_getD, List.getElem?_append]
  by_cases h : j < i
  · simp [h]
  · simp [h, List.getElem?_replicate]
    split <;> rfl

theorem set_doneUpTo {n i : Nat} (h : i < n) : (doneUpTo n i).set i true = doneUpTo n (i + 1) := by
  apply List.ext_getElem?
  intro j
  rw [List.getElem?_set]
  unfold doneUpTo
  simp only [List.getElem?_append, List.getElem?_replicate, List.length_append, List.length_replicate]
  by_cases h1 : i = j
  · subst h1; simp; omega
  · by_cases h2 : j < i
    · have : j < i + 1 := by omega
      simp [h1, h2, this]
    · have : ¬ j < i + 1 := by omega
      simp [h1, h2, this]
      have e : (j - i < n - i) ↔ (j - (i + 1) < n - (i + 1)) := by omega
      simp only [e]

theorem skipDone_eq (done : List Bool) (i : Nat) : ∀ (f cur : Nat), cur ≤ i → i - cur ≤ f →
    (∀ j, cur ≤ j → j < i → done.getD j false = true) → done.getD i false = false →
    skipDone f done cur = i
  | 0, cur, h1, h2, _, _ => by simp [skipDone]; omega
  | f+1, cur, h1, h2, h3, h4 => by
    by_cases hc : cur = i
    · subst hc; simp only [skipDone, h4, Bool.false_eq_true, if_false]
    · have hlt : cur < i := by omega
      have := h3 cur (Nat.le_refl _) hlt
      simp only [skipDone, this, if_true]
      exact skipDone_eq done i f (cur + 1) (by omega) (by omega) (fun j hj1 hj2 => h3 j (by omega) hj2) h4

theorem skipDone_doneUpTo {n i cur : Nat} (hc : cur ≤ i) (hi : i ≤ n) :
    skipDone (doneUpTo n i).length (doneUpTo n i) cur = i := by
  rw [length_doneUpTo hi]
  apply skipDone_eq _ i n cur hc (by omega)
  · intro j _ hj; rw [getD_doneUpTo]; simp [hj]
  · rw [getD_doneUpTo]; simp

/-! ### findIdx? -/

theorem findIdx?_none_of_not_mem (k : Str) : ∀ (l : List Str), k ∉ l → findIdx? k l = none
  | [], _ => rfl
  | x :: xs, h => by
    have hx : x ≠ k := fun e => h (by simp [e])
    have ih := findIdx?_none_of_not_mem k xs (fun hm => h (List.mem_cons_of_mem _ hm))
    simp [findIdx?, hx, ih]

theorem findIdx?_some_of_mem (k : Str) : ∀ (l : List Str), k ∈ l → ∃ i, findIdx? k l = some i ∧ i < l.length
  | [], h => by cases h
  | x :: xs, h => by
    by_cases hx : x = k
    · exact ⟨0, by simp [findIdx?, hx], by simp⟩
    · have hm : k ∈ xs := by
        simp only [List.mem_cons] at h
        rcases h with h | h
        · exact absurd h.symm hx
        · exact h
      obtain ⟨i, hi, hl⟩ := findIdx?_some_of_mem k xs hm
      exact ⟨i + 1, by simp [findIdx?, hx, hi], by simp; omega⟩

/-! ### readNamedOptions from the loop result -/

theorem readNamed_of_loop_error {args : List Str} {t : Tree} {kws : List Str} {required : Nat} {am ow : Bool}
    {e : Err} (h : namedLoop kws am ow args t (List.replicate kws.length false) 0 = .error e) :
    readNamedOptions args t kws required am ow = .error e := by
  simp only [readNamedOptions, h]

theorem readNamed_of_loop_ok {args : List Str} {t t' : Tree} {kws : List Str} {required : Nat} {am ow : Bool}
    {done : List Bool} (h : namedLoop kws am ow args t (List.replicate kws.length false) 0 = .ok (t', done)) :
    readNamedOptions args t kws required am ow =
      if (List.range kws.length).any (fun i => i < required && !(done.getD i false)) then .error .parser
      else .ok t' := by
  simp only [readNamedOptions, h]

/-- the "missing parameter(s)" test after `m` positional arguments -/
theorem missing_check (n m required : Nat) :
    (List.range n).any (fun i => i < required && !((doneUpTo n m).getD i false)) = decide (m < min required n) := by
  rw [Bool.eq_iff_iff]
  simp only [List.any_eq_true, List.mem_range, getD_doneUpTo, Bool.and_eq_true, decide_eq_true_eq,
    Bool.not_eq_true', decide_eq_false_iff_not]
  constructor
  · rintro ⟨i, h1, h2, h3⟩
    omega
  · intro h
    exact ⟨m, by omega, by omega, by omega⟩

/-! ### positional arguments -/

/-- attach the `done` vector to a result -/
def withDone (r : Except Err Tree) (d : List Bool) : Except Err (Tree × List Bool) :=
  match r with
  | .error e => .error e
  | .ok t => .ok (t, d)

theorem getD_eq_getElem {kws : List Str} {i : Nat} (h : i < kws.length) : kws.getD i [] = kws[i] := by
  simp [List.getD_eq_getElem?_getD, h]

theorem posStep_doneUpTo (kws : List Str) (am : Bool) (a : Str) (rest : List Str) (t : Tree) (i cur : Nat)
    (hc : cur ≤ i) (hi : i < kws.length) :
    posStep kws am true a rest t (doneUpTo kws.length i) cur =
      match t.set kws[i] a with
      | .error e => .error e
      | .ok t' => namedLoop kws am true rest t' (doneUpTo kws.length (i + 1)) i := by
  unfold posStep
  dsimp only
  rw [skipDone_doneUpTo hc (Nat.le_of_lt hi), length_doneUpTo (Nat.le_of_lt hi),
    if_neg (by omega), storeOpt_true, getD_eq_getElem hi, set_doneUpTo hi]

theorem namedLoop_positional (kws : List Str) (am : Bool) : ∀ (args : List Str) (i cur : Nat) (t : Tree),
    cur ≤ i → i + args.length ≤ kws.length → (∀ a ∈ args, Positional a) →
    namedLoop kws am true args t (doneUpTo kws.length i) cur =
      withDone (setAll ((kws.drop i).zip args) t) (doneUpTo kws.length (i + args.length))
  | [], i, cur, t, _, _, _ => by simp [namedLoop, setAll, withDone]
  | a :: rest, i, cur, t, hc, hl, hp => by
    have hi : i < kws.length := by simp at hl; omega
    rw [namedLoop_pos _ _ _ _ _ _ _ _ (hp a List.mem_cons_self), posStep_doneUpTo kws am a rest t i cur hc hi,
      List.drop_eq_getElem_cons hi, List.zip_cons_cons]
    simp only [setAll]
    cases t.set kws[i] a with
    | error e => rfl
    | ok t' =>
      dsimp only
      rw [namedLoop_positional kws am rest (i + 1) i t' (by omega) (by simp at hl; omega)
        (fun x hx => hp x (List.mem_cons_of_mem _ hx))]
      simp only [List.length_cons]
      rw [show i + 1 + rest.length = i + (rest.length + 1) by omega]

theorem namedLoop_superfluous (kws : List Str) (am : Bool) : ∀ (args : List Str) (i cur : Nat) (t t' : Tree),
    cur ≤ i → i ≤ kws.length → kws.length < i + args.length → (∀ a ∈ args, Positional a) →
    setAll ((kws.drop i).zip (args.take (kws.length - i))) t = .ok t' →
    namedLoop kws am true args t (doneUpTo kws.length i) cur = .error .parser
  | [], i, cur, t, t', _, hi, hl, _, _ => by simp at hl; omega
  | a :: rest, i, cur, t, t', hc, hi, hl, hp, h => by
    rw [namedLoop_pos _ _ _ _ _ _ _ _ (hp a List.mem_cons_self)]
    by_cases hin : i = kws.length
    · unfold posStep
      dsimp only
      rw [skipDone_doneUpTo hc hi, length_doneUpTo hi, if_pos (by omega)]
    · have hi' : i < kws.length := by omega
      rw [posStep_doneUpTo kws am a rest t i cur hc hi']
      rw [List.drop_eq_getElem_cons hi', show kws.length - i = (kws.length - (i + 1)) + 1 by omega,
        List.take_succ_cons, List.zip_cons_cons] at h
      simp only [setAll] at h
      cases hs : t.set kws[i] a with
      | error e => rw [hs] at h; cases h
      | ok t1 =>
        rw [hs] at h
        dsimp only
        exact namedLoop_superfluous kws am rest (i + 1) i t1 t' (by omega) (by omega)
          (by simp at hl; omega) (fun x hx => hp x (List.mem_cons_of_mem _ hx)) h

/-- options_spec, readNamedOptions with positional arguments only: argument i is stored under keyword i -/
theorem named_positional (kws args : List Str) (required : Nat) (allowMore : Bool) (t : Tree)
    (hpos : ∀ a ∈ args, Positional a) (hlen : args.length ≤ kws.length)
    (hreq : min required kws.length ≤ args.length) :
    readNamedOptions args t kws required allowMore true = setAll (kws.zip args) t := by
  have hl := namedLoop_positional kws allowMore args 0 0 t (Nat.le_refl _) (by omega) hpos
  rw [doneUpTo_zero, List.drop_zero, Nat.zero_add] at hl
  cases hs : setAll (kws.zip args) t with
  | error e =>
    rw [hs] at hl
    exact readNamed_of_loop_error hl
  | ok t' =>
    rw [hs] at hl
    rw [readNamed_of_loop_ok hl, missing_check, if_neg (by simp; omega)]

/-- fewer positional arguments than required keywords: "missing parameter(s)" -/
theorem named_missing_reported (kws args : List Str) (required : Nat) (allowMore : Bool) (t t' : Tree)
    (hpos : ∀ a ∈ args, Positional a) (hlt : args.length < min required kws.length)
    (h : setAll (kws.zip args) t = .ok t') :
    readNamedOptions args t kws required allowMore true = .error .parser := by
  have hl := namedLoop_positional kws allowMore args 0 0 t (Nat.le_refl _) (by omega) hpos
  rw [doneUpTo_zero, List.drop_zero, Nat.zero_add, h] at hl
  rw [readNamed_of_loop_ok hl, missing_check, if_pos (by simp; omega)]

/-- more positional arguments than keywords: "superfluous unnamed parameter" -/
theorem named_superfluous_reported (kws args : List Str) (required : Nat) (allowMore : Bool) (t t' : Tree)
    (hpos : ∀ a ∈ args, Positional a) (hgt : kws.length < args.length)
    (h : setAll (kws.zip (args.take kws.length)) t = .ok t') :
    readNamedOptions args t kws required allowMore true = .error .parser := by
  apply readNamed_of_loop_error
  rw [← doneUpTo_zero]
  exact namedLoop_superfluous kws allowMore args 0 0 t t' (Nat.le_refl _) (Nat.zero_le _) (by omega) hpos
    (by simpa using h)

/-! ### named arguments, help -/

theorem namedLoop_nil (kws : List Str) (am ow : Bool) (t : Tree) (done : List Bool) (cur : Nat) :
    namedLoop kws am ow [] t done cur = .ok (t, done) := by
  rw [namedLoop]

theorem keyval_ne_help {key value : Str} (heq : '=' ∉ key) : key ++ '=' :: value ≠ ['h', 'e', 'l', 'p'] := by
  intro e
  have h1 := splitFirst_append '=' key value heq
  rw [e] at h1
  have : splitFirst '=' ['h', 'e', 'l', 'p'] = none := by decide
  rw [this] at h1; cases h1

theorem namedLoop_keyval (kws : List Str) (am ow : Bool) (key value : Str) (rest : List Str) (t : Tree)
    (done : List Bool) (cur : Nat) (heq : '=' ∉ key) :
    namedLoop kws am ow (('-' :: '-' :: key ++ '=' :: value) :: rest) t done cur =
      namedStep kws am ow key value rest t done cur :=
  namedLoop_dd_some kws am ow _ key value rest t done cur (splitFirst_append '=' key value heq)

/-- `--key=value` with a key outside the keyword list and allow_more = false: "unknown parameter" -/
theorem named_unknown_reported (kws rest : List Str) (key value : Str) (required : Nat) (ow : Bool) (t : Tree)
    (hk : key ∉ kws) (heq : '=' ∉ key) :
    readNamedOptions (('-' :: '-' :: key ++ '=' :: value) :: rest) t kws required false ow = .error .parser := by
  apply readNamed_of_loop_error
  rw [namedLoop_keyval _ _ _ _ _ _ _ _ _ heq]
  simp [namedStep, findIdx?_none_of_not_mem key kws hk]

/-- `--key` without `=`: "value missing for parameter" -/
theorem named_value_missing (kws rest : List Str) (key : Str) (required : Nat) (am ow : Bool) (t : Tree)
    (heq : '=' ∉ key) (hh : '-' :: '-' :: key ≠ "--help".toList) :
    readNamedOptions (('-' :: '-' :: key) :: rest) t kws required am ow = .error .parser := by
  apply readNamed_of_loop_error
  have hh' : key ≠ ['h', 'e', 'l', 'p'] := by
    intro e; apply hh; rw [e]; rfl
  exact namedLoop_dd_none kws am ow key rest t _ 0 hh' (splitFirst_none '=' key heq)

/-- `-h` / `--help`: HelpRequest, wherever it stands, provided the loop gets there (here: first position) -/
theorem named_help (kws rest : List Str) (required : Nat) (am ow : Bool) (t : Tree) :
    readNamedOptions ("-h".toList :: rest) t kws required am ow = .error .help ∧
    readNamedOptions ("--help".toList :: rest) t kws required am ow = .error .help := by
  constructor
  · apply readNamed_of_loop_error
    simp [namedLoop]
  · apply readNamed_of_loop_error
    simp [namedLoop]

/-- a single named parameter that is a keyword is stored under its key (overwrite = true); every required
    keyword index must be the index `findIdx?` marks, i.e. the FIRST occurrence of `key` -/
theorem named_named (kws : List Str) (key value : Str) (required : Nat) (am : Bool) (t : Tree)
    (hk : key ∈ kws) (heq : '=' ∉ key)
    (hreq : ∀ i, i < min required kws.length → findIdx? key kws = some i) :
    readNamedOptions [('-' :: '-' :: key ++ '=' :: value)] t kws required am true = t.set key value := by
  obtain ⟨j, hj, hjl⟩ := findIdx?_some_of_mem key kws hk
  have hl := namedLoop_keyval kws am true key value [] t (List.replicate kws.length false) 0 heq
  simp only [namedStep, hj, Option.isNone_some, Bool.and_false, Bool.false_eq_true, if_false, storeOpt_true,
    markDone] at hl
  cases hs : t.set key value with
  | error e =>
    rw [hs] at hl
    exact readNamed_of_loop_error hl
  | ok t' =>
    rw [hs] at hl
    dsimp only at hl
    rw [namedLoop_nil] at hl
    rw [readNamed_of_loop_ok hl, if_neg]
    simp only [List.any_eq_true, List.mem_range, Bool.and_eq_true, decide_eq_true_eq, Bool.not_eq_true']
    rintro ⟨i, h1, h2, h3⟩
    have hij : j = i := by
      have := hreq i (by omega)
      rw [hj] at this
      exact Option.some.inj this
    subst hij
    simp [List.getD_eq_getElem?_getD, hjl] at h3

/-- corollary: nothing is required -/
theorem named_named_of_required_zero (kws : List Str) (key value : Str) (am : Bool) (t : Tree)
    (hk : key ∈ kws) (heq : '=' ∉ key) :
    readNamedOptions [('-' :: '-' :: key ++ '=' :: value)] t kws 0 am true = t.set key value :=
  named_named kws key value 0 am t hk heq (fun i hi => by simp at hi)

/-- corollary: `key` is the first keyword and at most that one is required -/
theorem named_named_head (kws : List Str) (key value : Str) (required : Nat) (am : Bool) (t : Tree)
    (heq : '=' ∉ key) (hreq : required ≤ 1) :
    readNamedOptions [('-' :: '-' :: key ++ '=' :: value)] t (key :: kws) required am true = t.set key value :=
  named_named (key :: kws) key value required am t List.mem_cons_self heq (fun i hi => by
    have : i = 0 := by omega
    subst this
    simp [findIdx?])

/-- overwrite = false: an entry that already holds a non-empty string is "already specified" -/
theorem named_already_specified (kws rest : List Str) (key value s : Str) (required : Nat) (am : Bool) (t : Tree)
    (heq : '=' ∉ key) (hk : key ∈ kws ∨ am = true) (hs : t.get? key = some s) (hne : s ≠ []) :
    readNamedOptions (('-' :: '-' :: key ++ '=' :: value) :: rest) t kws required am false = .error .parser := by
  apply readNamed_of_loop_error
  rw [namedLoop_keyval _ _ _ _ _ _ _ _ _ heq]
  have hc : (!am && (findIdx? key kws).isNone) = false := by
    rcases hk with hk | hk
    · obtain ⟨j, hj, _⟩ := findIdx?_some_of_mem key kws hk
      simp [hj]
    · simp [hk]
  simp only [namedStep, hc, Bool.false_eq_true, if_false, storeOpt_already t key value s hs hne]

/-- the same for a positional argument: the keyword it would fill is already set -/
theorem positional_already_specified (kw a s : Str) (kws rest : List Str) (required : Nat) (am : Bool) (t : Tree)
    (hp : Positional a) (hs : t.get? kw = some s) (hne : s ≠ []) :
    readNamedOptions (a :: rest) t (kw :: kws) required am false = .error .parser := by
  apply readNamed_of_loop_error
  rw [namedLoop_pos _ _ _ _ _ _ _ _ hp]
  simp [posStep, skipDone, List.replicate_succ, storeOpt_already t kw a s hs hne]

/-! ### non-vacuity -/

example : readOptions (optArgs [("a".toList, "1".toList), ("b.c".toList, "2".toList), ("a".toList, "3".toList)]) .empty
    = .ok (.node [("a".toList, "3".toList)] [("b".toList, .node [("c".toList, "2".toList)] [])]) := by rfl
example : readOptions ["x".toList, "-".toList, "-a".toList, "1".toList, "y".toList] .empty
    = .ok (.node [("a".toList, "1".toList)] []) := by rfl
example : readOptions ["-a".toList, "1".toList, "-b".toList] .empty = .error .range := by rfl
example : Positional "x".toList := ⟨by decide, fun r => by simp⟩
example : Positional "-x".toList := ⟨by decide, fun r => by simp⟩
example : readNamedOptions ["1".toList, "2".toList] .empty ["a".toList, "b".toList, "c".toList] 2 false true
    = .ok (.node [("a".toList, "1".toList), ("b".toList, "2".toList)] []) := by rfl
example : readNamedOptions ["1".toList] .empty ["a".toList, "b".toList, "c".toList] 2 false true
    = .error .parser := by rfl
example : readNamedOptions ["1".toList, "2".toList] .empty ["a".toList] 0 true true = .error .parser := by rfl
example : readNamedOptions ["--z=1".toList] .empty ["a".toList] 0 false true = .error .parser := by rfl
example : readNamedOptions ["--z=1".toList] .empty ["a".toList] 0 true true
    = .ok (.node [("z".toList, "1".toList)] []) := by rfl
example : readNamedOptions ["--a".toList] .empty ["a".toList] 0 true true = .error .parser := by rfl
example : readNamedOptions ["1".toList, "--help".toList] .empty ["a".toList] 0 true true = .error .help := by rfl
/-- a named keyword is skipped by the positional arguments -/
example : readNamedOptions ["--a=1".toList, "2".toList] .empty ["a".toList, "b".toList] 2 false true
    = .ok (.node [("a".toList, "1".toList), ("b".toList, "2".toList)] []) := by rfl
example : readNamedOptions ["--a=1".toList] (.node [("a".toList, "0".toList)] []) ["a".toList] 1 false false
    = .error .parser := by rfl
/-- overwrite = false with an entry holding the empty string: not "already specified" -/
example : readNamedOptions ["--a=1".toList] (.node [("a".toList, [])] []) ["a".toList] 1 false false
    = .ok (.node [("a".toList, "1".toList)] []) := by rfl
/-- why `named_named` needs the first-occurrence hypothesis: a repeated required keyword stays "missing" -/
example : readNamedOptions ["--a=1".toList] .empty ["a".toList, "a".toList] 2 false true = .error .parser := by rfl

end DV.C12
