/-
C17 — lemmas that do not need an ordered field: the vector loops over an arbitrary scalar type, and the comparison
algebra in the ROUNDING arithmetic `FP f` of a binary floating-point format (every operation = exact operation
followed by round-to-nearest-even, overflow to infinity; `f` arbitrary: binary32, binary64, x87 extended, the
8-bit format of the harness).   Core Lean only.

Why the laws survive rounding: rounding is an odd function (`rnd (-z) = -(rnd z)`), so `|a ⊖ b| = |b ⊖ a|`
exactly; `max`/`min` of two finite numbers do not depend on the order of the arguments; a product of two
non-negative finite numbers is non-negative or `+∞`, never NaN; and finite numbers are totally ordered.
-/
import DuneVerif.Model.C17

namespace DV.C17

/-! ### generic: the component loop -/
set_option linter.unusedSectionVars false
section generic
variable {K : Type} [Zero K] [Neg K] [Sub K] [Mul K] [LT K] [LE K] [DecidableLT K] [DecidableLE K]

theorem eqLoop_iff (s : Style) (e : K) : ∀ (a b : List K), a.length = b.length →
    (eqLoop s a b e = true ↔ ∀ (i : Nat) (ha : i < a.length) (hb : i < b.length), eqS s a[i] b[i] e = true)
  | [], [], _ => by simp [eqLoop]
  | [], _ :: _, h => by simp at h
  | _ :: _, [], h => by simp at h
  | x :: xs, y :: ys, h => by
    have hl : xs.length = ys.length := by simpa using h
    have ih := eqLoop_iff s e xs ys hl
    cases hE : eqS s x y e
    · simp only [eqLoop, hE]
      constructor
      · intro hf; simp at hf
      · intro hall
        have := hall 0 (by simp) (by simp)
        simp [hE] at this
    · simp only [eqLoop, hE]
      constructor
      · intro hrest i ha hb
        cases i with
        | zero => simpa using hE
        | succ j =>
          simp only [List.getElem_cons_succ]
          exact (ih.mp (by simpa using hrest)) j (by simpa using ha) (by simpa using hb)
      · intro hall
        have : eqLoop s xs ys e = true := ih.mpr (fun i ha hb => by
          have := hall (i+1) (by simpa using ha) (by simpa using hb)
          simpa using this)
        simpa using this

theorem eqVec_iff (s : Style) (a b : List K) (e : K) :
    eqVec s a b e = true ↔ a.length = b.length ∧
      ∀ (i : Nat) (ha : i < a.length) (hb : i < b.length), eqS s a[i] b[i] e = true := by
  unfold eqVec
  by_cases h : a.length = b.length
  · have hb : (a.length != b.length) = false := by simp [h]
    rw [hb]; simp only [Bool.false_eq_true, if_false]
    exact ⟨fun hl => ⟨h, (eqLoop_iff s e a b h).mp hl⟩, fun hr => (eqLoop_iff s e a b h).mpr hr.2⟩
  · simp [h]

/-- the three mutually exclusive outcomes of comparing two scalars with `<` -/
def Tri (x y : K) : Prop :=
  (x = y ∧ ¬ x < y ∧ ¬ y < x) ∨ (x ≠ y ∧ x < y ∧ ¬ y < x) ∨ (x ≠ y ∧ ¬ x < y ∧ y < x)

/-- the lexicographic `<` of `std::vector` is a strict total order on vectors whose components are totally ordered -/
theorem lexLt_total_of : ∀ (a b : List K), (∀ x ∈ a, ∀ y ∈ b, Tri x y) →
    (a = b ∧ lexLt a b = false ∧ lexLt b a = false) ∨
    (a ≠ b ∧ lexLt a b = true ∧ lexLt b a = false) ∨
    (a ≠ b ∧ lexLt a b = false ∧ lexLt b a = true)
  | [], [], _ => by simp [lexLt]
  | [], _ :: _, _ => by simp [lexLt]
  | _ :: _, [], _ => by simp [lexLt]
  | x :: xs, y :: ys, h => by
    have ih := lexLt_total_of xs ys (fun p hp q hq => h p (List.mem_cons_of_mem _ hp) q (List.mem_cons_of_mem _ hq))
    rcases h x (List.mem_cons_self ..) y (List.mem_cons_self ..) with ⟨hxy, h1, h2⟩ | ⟨hne, h1, h2⟩ | ⟨hne, h1, h2⟩
    · subst hxy
      rcases ih with ⟨e1, e2, e3⟩ | ⟨e1, e2, e3⟩ | ⟨e1, e2, e3⟩
      · left; subst e1; simp [lexLt, h1, e2]
      · right; left
        refine ⟨by intro hc; injection hc with _ h4; exact e1 h4, ?_, ?_⟩ <;> simp [lexLt, h1, e2, e3]
      · right; right
        refine ⟨by intro hc; injection hc with _ h4; exact e1 h4, ?_, ?_⟩ <;> simp [lexLt, h1, e2, e3]
    · right; left
      refine ⟨by intro hc; injection hc with h3 _; exact hne h3, ?_, ?_⟩ <;> simp [lexLt, h1, h2]
    · right; right
      refine ⟨by intro hc; injection hc with h3 _; exact hne h3, ?_, ?_⟩ <;> simp [lexLt, h1, h2]

/-- exactly one of less / equal / greater for vectors, from: components totally ordered and `eq` reflexive on them -/
theorem vec_trichotomy_of (s : Style) (a b : List K) (e : K)
    (htri : ∀ x ∈ a, ∀ y ∈ b, Tri x y) (hrefl : ∀ x ∈ a, eqS s x x e = true) :
    (ltVec s a b e = true ∧ eqVec s a b e = false ∧ gtVec s a b e = false) ∨
    (ltVec s a b e = false ∧ eqVec s a b e = true ∧ gtVec s a b e = false) ∨
    (ltVec s a b e = false ∧ eqVec s a b e = false ∧ gtVec s a b e = true) := by
  cases hE : eqVec s a b e
  · rcases lexLt_total_of a b htri with ⟨h1, _, _⟩ | ⟨_, h2, h3⟩ | ⟨_, h2, h3⟩
    · subst h1
      have : eqVec s a a e = true := by
        rw [eqVec_iff]; exact ⟨rfl, fun i ha _ => hrefl _ (List.getElem_mem ha)⟩
      rw [this] at hE; exact Bool.noConfusion hE
    · left; simp [ltVec, gtVec, neVec, hE, h2, h3]
    · right; right; simp [ltVec, gtVec, neVec, hE, h2, h3]
  · right; left; simp [ltVec, gtVec, neVec, hE]

theorem eqVec_symm_of (s : Style) (a b : List K) (e : K)
    (hsymm : ∀ x ∈ a, ∀ y ∈ b, eqS s x y e = eqS s y x e) : eqVec s a b e = eqVec s b a e := by
  rw [Bool.eq_iff_iff, eqVec_iff, eqVec_iff]
  constructor
  · rintro ⟨hl, h⟩
    exact ⟨hl.symm, fun i ha hb => by
      rw [← hsymm _ (List.getElem_mem hb) _ (List.getElem_mem ha)]; exact h i hb ha⟩
  · rintro ⟨hl, h⟩
    exact ⟨hl.symm, fun i ha hb => by
      rw [hsymm _ (List.getElem_mem ha) _ (List.getElem_mem hb)]; exact h i hb ha⟩

end generic

/-! ### the rounding arithmetic `FP f` -/
namespace FP
variable {f : Fmt}

theorem lt_iff (a b : FP f) : a < b ↔ lt a b = true := Iff.rfl
theorem le_iff (a b : FP f) : a ≤ b ↔ le a b = true := Iff.rfl

theorem roundMag_zero (f : Fmt) (s : Nat) : roundMag f 0 s = 0 := by
  unfold roundMag
  by_cases hs : s = 0
  · subst hs; simp [Dy.bitlen]
  · have h1 : (0 : Nat) < 2 ^ (s - 1) := Nat.two_pow_pos _
    simp [Dy.bitlen, hs]

theorem rnd_zero (f : Fmt) (s : Nat) : rnd f 0 s = .fin 0 := by
  simp [rnd, roundMag_zero, ofMag]

/-- rounding is odd -/
theorem rnd_neg (f : Fmt) (z : Int) (s : Nat) : rnd f (-z) s = neg (rnd f z s) := by
  rcases Int.lt_trichotomy z 0 with h | h | h
  · have h1 : ¬ (-z < 0) := by omega
    simp only [rnd, Int.natAbs_neg, h, h1, decide_true, decide_false, ofMag]
    split <;> simp [neg]
  · subst h; simp [rnd_zero, neg]
  · have h1 : -z < 0 := by omega
    have h2 : ¬ (z < 0) := by omega
    simp only [rnd, Int.natAbs_neg, h1, h2, decide_true, decide_false, ofMag]
    split <;> simp [neg]

/-- `std::abs` of the model on a finite number -/
theorem absK_fin (n : Int) : absK (.fin n : FP f) = .fin (if n < 0 then -n else n) := by
  unfold absK
  by_cases h : n < 0
  · have : (FP.fin n : FP f) < 0 := by
      show lt (.fin n) (.fin 0) = true
      simp [lt, h]
    simp only [this, if_true, h]; rfl
  · have : ¬ (FP.fin n : FP f) < 0 := by
      show ¬ lt (.fin n) (.fin 0) = true
      simp [lt, h]
    simp only [this, if_false, h]

theorem absK_neg (y : FP f) : absK (-y) = absK y := by
  cases y with
  | fin n =>
    show absK (FP.fin (-n) : FP f) = absK (.fin n)
    rw [absK_fin, absK_fin]
    congr 1
    split <;> split <;> omega
  | inf s =>
    cases s <;> rfl
  | nan => rfl

/-- `|a ⊖ b| = |b ⊖ a|` for finite numbers -/
theorem abs_sub_comm (a b : Int) : absK ((.fin a : FP f) - .fin b) = absK ((.fin b : FP f) - .fin a) := by
  show absK (rnd f (a - b) 0) = absK (rnd f (b - a) 0)
  have : a - b = -(b - a) := by omega
  rw [this, rnd_neg]
  exact absK_neg _

theorem maxK_comm_fin (p q : Int) : maxK (.fin p : FP f) (.fin q) = maxK (.fin q) (.fin p) := by
  unfold maxK
  have e1 : ((FP.fin p : FP f) < .fin q) ↔ p < q := by
    show lt (.fin p) (.fin q) = true ↔ _; simp [lt]
  have e2 : ((FP.fin q : FP f) < .fin p) ↔ q < p := by
    show lt (.fin q) (.fin p) = true ↔ _; simp [lt]
  by_cases h1 : p < q
  · have h2 : ¬ q < p := by omega
    simp [e1, e2, h1, h2]
  · by_cases h2 : q < p
    · simp [e1, e2, h1, h2]
    · have : p = q := by omega
      subst this; simp [e1]

theorem minK_comm_fin (p q : Int) : minK (.fin p : FP f) (.fin q) = minK (.fin q) (.fin p) := by
  unfold minK
  have e1 : ((FP.fin p : FP f) < .fin q) ↔ p < q := by
    show lt (.fin p) (.fin q) = true ↔ _; simp [lt]
  have e2 : ((FP.fin q : FP f) < .fin p) ↔ q < p := by
    show lt (.fin q) (.fin p) = true ↔ _; simp [lt]
  by_cases h1 : p < q
  · have h2 : ¬ q < p := by omega
    simp [e1, e2, h1, h2]
  · by_cases h2 : q < p
    · simp [e1, e2, h1, h2]
    · have : p = q := by omega
      subst this; simp [e1]

/-- tolerant equality is symmetric in the rounding arithmetic: all finite operands, every epsilon (even NaN) -/
theorem eqS_symm (s : Style) (a b : Int) (e : FP f) :
    eqS s (.fin a : FP f) (.fin b) e = eqS s (.fin b) (.fin a) e := by
  cases s
  · simp only [eqS, Gen.eq_relativeWeak]
    rw [abs_sub_comm a b, absK_fin, absK_fin, maxK_comm_fin]
  · simp only [eqS, Gen.eq_relativeStrong]
    rw [abs_sub_comm a b, absK_fin, absK_fin, minK_comm_fin]
  · simp only [eqS, Gen.eq_absolute]
    rw [abs_sub_comm a b]

theorem mul_def (a b : Int) : (.fin a : FP f) * .fin b = rnd f (a * b) f.sh := rfl

/-- a rounded non-negative number is at least zero (a finite non-negative number or `+∞`) -/
theorem zero_le_rnd (z : Int) (s : Nat) (hz : 0 ≤ z) : (.fin 0 : FP f) ≤ rnd f z s := by
  show le (.fin 0) (rnd f z s) = true
  have h : ¬ (z < 0) := by omega
  simp only [rnd, h, decide_false, ofMag]
  split
  · simp [le]
  · simp [le]

/-- the product of two non-negative finite numbers is at least zero, never NaN -/
theorem zero_le_mul (m k : Int) (hm : 0 ≤ m) (hk : 0 ≤ k) : (.fin 0 : FP f) ≤ (.fin m : FP f) * .fin k := by
  rw [mul_def]; exact zero_le_rnd _ _ (Int.mul_nonneg hm hk)

/-- tolerant equality is reflexive in the rounding arithmetic for a finite non-negative epsilon -/
theorem eqS_refl (s : Style) (a m : Int) (hm : 0 ≤ m) : eqS s (.fin a : FP f) (.fin a) (.fin m) = true := by
  have hsub : ((.fin a : FP f) - .fin a) = .fin 0 := by
    show rnd f (a - a) 0 = .fin 0
    rw [Int.sub_self]; exact rnd_zero f 0
  have habs0 : absK (.fin 0 : FP f) = .fin 0 := by rw [absK_fin]; simp
  have hk : (0 : Int) ≤ (if a < 0 then -a else a) := by split <;> omega
  cases s
  · simp only [eqS, Gen.eq_relativeWeak, hsub, habs0, absK_fin, decide_eq_true_eq]
    have : maxK (.fin (if a < 0 then -a else a) : FP f) (.fin (if a < 0 then -a else a)) = .fin (if a < 0 then -a else a) := by
      unfold maxK
      have : ¬ ((FP.fin (if a < 0 then -a else a) : FP f) < .fin (if a < 0 then -a else a)) := by
        show ¬ lt _ _ = true; simp [lt]
      simp [this]
    rw [this, mul_def]; apply zero_le_rnd
    first | exact Int.mul_nonneg hm hk | exact Int.mul_nonneg hk hm
  · simp only [eqS, Gen.eq_relativeStrong, hsub, habs0, absK_fin, decide_eq_true_eq]
    have : minK (.fin (if a < 0 then -a else a) : FP f) (.fin (if a < 0 then -a else a)) = .fin (if a < 0 then -a else a) := by
      unfold minK
      have : ¬ ((FP.fin (if a < 0 then -a else a) : FP f) < .fin (if a < 0 then -a else a)) := by
        show ¬ lt _ _ = true; simp [lt]
      simp [this]
    rw [this, mul_def]; apply zero_le_rnd
    first | exact Int.mul_nonneg hm hk | exact Int.mul_nonneg hk hm
  · simp only [eqS, Gen.eq_absolute, hsub, habs0, decide_eq_true_eq]
    show le (.fin 0) (.fin m) = true
    simp [le, hm]

/-- finite numbers are totally ordered -/
theorem tri_fin (a b : Int) : Tri (.fin a : FP f) (.fin b) := by
  have e1 : ((FP.fin a : FP f) < .fin b) ↔ a < b := by
    show lt (.fin a) (.fin b) = true ↔ _; simp [lt]
  have e2 : ((FP.fin b : FP f) < .fin a) ↔ b < a := by
    show lt (.fin b) (.fin a) = true ↔ _; simp [lt]
  unfold Tri
  rw [e1, e2]
  rcases Int.lt_trichotomy a b with h | h | h
  · right; left; refine ⟨?_, h, by omega⟩
    intro hc; injection hc with hc; omega
  · left; subst h; exact ⟨rfl, by omega, by omega⟩
  · right; right; refine ⟨?_, by omega, h⟩
    intro hc; injection hc with hc; omega

/-- exactly one of less / equal / greater holds in the rounding arithmetic -/
theorem trichotomy (s : Style) (a b m : Int) (hm : 0 ≤ m) :
    let x : FP f := .fin a; let y : FP f := .fin b; let e : FP f := .fin m
    (ltS s x y e = true ∧ eqS s x y e = false ∧ gtS s x y e = false) ∨
    (ltS s x y e = false ∧ eqS s x y e = true ∧ gtS s x y e = false) ∨
    (ltS s x y e = false ∧ eqS s x y e = false ∧ gtS s x y e = true) := by
  intro x y e
  cases hE : eqS s x y e
  · rcases tri_fin (f := f) a b with ⟨h0, _, _⟩ | ⟨_, h1, h2⟩ | ⟨_, h1, h2⟩
    · have : eqS s x y e = true := by
        show eqS s (.fin a : FP f) (.fin b) (.fin m) = true
        rw [show (FP.fin b : FP f) = .fin a from h0.symm]; exact eqS_refl s a m hm
      rw [this] at hE; exact Bool.noConfusion hE
    · left; simp [ltS, gtS, Gen.lt, Gen.gt, Gen.ne, hE, x, y, h1, h2]
    · right; right; simp [ltS, gtS, Gen.lt, Gen.gt, Gen.ne, hE, x, y, h1, h2]
  · right; left; simp [ltS, gtS, Gen.lt, Gen.gt, Gen.ne, hE]

/-- in the rounding arithmetic: an argument that is an integer (`T(i)` is exactly the argument and `I(val) = i`) is a
    fixed point of `round` and `trunc` in every style — for every magnitude, also where `i+1` is not a number of the
    format (the repaired `T(lower+1)` artefact of `trunc`) -/
theorem round_trunc_int (s : Style) (rs : RStyle) (n i m : Int) (hm : 0 ≤ m)
    (hT : ((i : Int) : FP f) = .fin n) (hI : FP.trunc (.fin n : FP f) = i) :
    DV.C17.round s rs FP.trunc (.fin n : FP f) (.fin m) = i ∧ DV.C17.trunc s false rs FP.trunc (.fin n : FP f) (.fin m) = i := by
  have hrefl := eqS_refl (f := f) s n m hm
  have hnlt : ¬ ((FP.fin n : FP f) < .fin n) := by
    show ¬ lt (.fin n) (.fin n) = true; simp [lt]
  have hrd : roundDown s FP.trunc (.fin n : FP f) (.fin m) = i := by
    simp [roundDown, hI, hT, hrefl]
  have hru : roundUp s FP.trunc (.fin n : FP f) (.fin m) = i := by
    simp [roundUp, hI, hT, hrefl]
  have htd : truncDown s false FP.trunc (.fin n : FP f) (.fin m) = i := by
    simp [truncDown, sameVal, hI, hT, hnlt]
  have htu : truncUp s false FP.trunc (.fin n : FP f) (.fin m) = i := by
    simp [truncUp, htd, neS, Gen.ne, hT, hrefl]
  constructor
  · cases rs <;> simp only [DV.C17.round, hrd, hru] <;> (try split) <;> rfl
  · cases rs <;> simp only [DV.C17.trunc, htd, htu] <;> (try split) <;> rfl

end FP
end DV.C17
