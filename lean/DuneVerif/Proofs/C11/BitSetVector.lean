import DuneVerif.Model.C11.BitSetVector
/-! Helper lemmas for the BitSetVector refinement (core Lean only). -/
namespace DV.C11.BV

/-- the underlying `vector<bool>` holds whole blocks -/
def Inv (B : Nat) (v : Bits) : Prop := v.length % B = 0

/-! ### addresses -/

theorem addr_div {B : Nat} (i : Nat) {j : Nat} (hj : j < B) : (i * B + j) / B = i := by
  have hB : 0 < B := by omega
  rw [Nat.add_comm, Nat.add_mul_div_right _ _ hB, Nat.div_eq_of_lt hj]; simp

theorem addr_mod {B : Nat} (i : Nat) {j : Nat} (hj : j < B) : (i * B + j) % B = j := by
  rw [Nat.add_comm, Nat.add_mul_mod_self_right, Nat.mod_eq_of_lt hj]

/-- `getBit_addr_inj`: different (block, bit) pairs are different bits of the base vector -/
theorem addr_inj {B i j i' j' : Nat} (hj : j < B) (hj' : j' < B) (h : i * B + j = i' * B + j') : i = i' ∧ j = j' := by
  have h1 := addr_div i hj
  have h2 := addr_mod i hj
  rw [h] at h1 h2
  rw [addr_div i' hj'] at h1
  rw [addr_mod i' hj'] at h2
  exact ⟨h1.symm, h2.symm⟩

theorem block_in_range {B : Nat} {v : Bits} {i j : Nat} (hi : i < size B v) (hj : j < B) : i * B + j < v.length := by
  have h1 : (i + 1) * B ≤ v.length / B * B := Nat.mul_le_mul_right B hi
  have h2 := Nat.div_mul_le_self v.length B
  rw [Nat.add_mul] at h1
  omega

/-! ### single-bit writes -/

theorem length_setBit (B : Nat) (v : Bits) (i j : Nat) (b : Bool) : (setBit B v i j b).length = v.length := by
  simp [setBit]

theorem getBit_setBit {B : Nat} (v : Bits) {i j i' j' : Nat} (b : Bool) (hj : j < B) (hj' : j' < B)
    (hr : i * B + j < v.length) :
    getBit B (setBit B v i j b) i' j' = if i = i' ∧ j = j' then b else getBit B v i' j' := by
  unfold getBit setBit
  rw [List.getD_eq_getElem?_getD, List.getD_eq_getElem?_getD, List.getElem?_set]
  by_cases h : i * B + j = i' * B + j'
  · have := addr_inj hj hj' h
    simp [h, this, hr]
    rw [← this.1, ← this.2] ; simp [hr]
  · have : ¬ (i = i' ∧ j = j') := fun ⟨a, b⟩ => h (by rw [a, b])
    simp [h, this]

/-- a block was rewritten to the bits `g j`, everything else is untouched -/
structure BlockUpd (B : Nat) (v v' : Bits) (i : Nat) (g : Nat → Bool) : Prop where
  len : v'.length = v.length
  bits : ∀ i' j', j' < B → getBit B v' i' j' = if i = i' then g j' else getBit B v i' j'

theorem length_writeLoop (B : Nat) (v : Bits) (i : Nat) (f : Nat → Bool) (k : Nat) :
    (writeLoop B v i f k).length = v.length := by
  induction k with
  | zero => rfl
  | succ k ih => simp [writeLoop, length_setBit, ih]

theorem getBit_writeLoop {B : Nat} (v : Bits) {i : Nat} (f : Nat → Bool) (hi : i < size B v) :
    ∀ (k : Nat), k ≤ B → ∀ i' j', j' < B →
      getBit B (writeLoop B v i f k) i' j' = if i = i' ∧ j' < k then f j' else getBit B v i' j'
  | 0, _, i', j', _ => by simp [writeLoop]
  | k + 1, hk, i', j', hj' => by
    simp only [writeLoop]
    rw [getBit_setBit _ _ (by omega) hj' (by rw [length_writeLoop]; exact block_in_range hi (by omega)),
      getBit_writeLoop v f hi k (by omega) i' j' hj']
    by_cases h1 : i = i'
    · by_cases h2 : k = j'
      · subst h1; subst h2; simp
      · by_cases h3 : j' < k
        · simp [h1, h2, h3, show j' < k + 1 by omega]
        · simp [h1, h2, h3, show ¬ j' < k + 1 by omega]
    · simp [h1]

theorem writeLoop_upd {B : Nat} (v : Bits) {i : Nat} (f : Nat → Bool) (hi : i < size B v) :
    BlockUpd B v (writeLoop B v i f B) i f :=
  ⟨length_writeLoop B v i f B, fun i' j' hj' => by
    rw [getBit_writeLoop v f hi B (Nat.le_refl _) i' j' hj']; simp [hj']⟩

theorem length_flipLoop (B : Nat) (v : Bits) (i : Nat) (k : Nat) : (flipLoop B v i k).length = v.length := by
  induction k with
  | zero => rfl
  | succ k ih => simp [flipLoop, length_setBit, ih]

theorem getBit_flipLoop {B : Nat} (v : Bits) {i : Nat} (hi : i < size B v) :
    ∀ (k : Nat), k ≤ B → ∀ i' j', j' < B →
      getBit B (flipLoop B v i k) i' j' = if i = i' ∧ j' < k then !(getBit B v i' j') else getBit B v i' j'
  | 0, _, i', j', _ => by simp [flipLoop]
  | k + 1, hk, i', j', hj' => by
    simp only [flipLoop]
    rw [getBit_setBit _ _ (by omega) hj' (by rw [length_flipLoop]; exact block_in_range hi (by omega)),
      getBit_flipLoop v hi k (by omega) i' j' hj', getBit_flipLoop v hi k (by omega) i k (by omega)]
    by_cases h1 : i = i'
    · by_cases h2 : k = j'
      · subst h1; subst h2; simp
      · by_cases h3 : j' < k
        · simp [h1, h2, h3, show j' < k + 1 by omega]
        · simp [h1, h2, h3, show ¬ j' < k + 1 by omega]
    · simp [h1]

theorem flipLoop_upd {B : Nat} (v : Bits) {i : Nat} (hi : i < size B v) :
    BlockUpd B v (flipBlock B v i) i (fun j => !(getBit B v i j)) :=
  ⟨length_flipLoop B v i B, fun i' j' hj' => by
    unfold flipBlock
    rw [getBit_flipLoop v hi B (Nat.le_refl _) i' j' hj']
    by_cases h : i = i'
    · subst h; simp [hj']
    · simp [h]⟩

theorem length_assignRefLoop (B : Nat) (v : Bits) (i k : Nat) (m : Nat) : (assignRefLoop B v i k m).length = v.length := by
  induction m with
  | zero => rfl
  | succ m ih => simp [assignRefLoop, length_setBit, ih]

theorem getBit_assignRefLoop {B : Nat} (v : Bits) {i k : Nat} (hi : i < size B v) :
    ∀ (m : Nat), m ≤ B → ∀ i' j', j' < B →
      getBit B (assignRefLoop B v i k m) i' j' = if i = i' ∧ j' < m then getBit B v k j' else getBit B v i' j'
  | 0, _, i', j', _ => by simp [assignRefLoop]
  | m + 1, hm, i', j', hj' => by
    simp only [assignRefLoop]
    rw [getBit_setBit _ _ (by omega) hj' (by rw [length_assignRefLoop]; exact block_in_range hi (by omega)),
      getBit_assignRefLoop v hi m (by omega) i' j' hj', getBit_assignRefLoop v hi m (by omega) k m (by omega)]
    by_cases h1 : i = i'
    · by_cases h2 : m = j'
      · subst h1; subst h2; simp
      · by_cases h3 : j' < m
        · simp [h1, h2, h3, show j' < m + 1 by omega]
        · simp [h1, h2, h3, show ¬ j' < m + 1 by omega]
    · simp [h1]

theorem assignRef_upd {B : Nat} (v : Bits) {i : Nat} (k : Nat) (hi : i < size B v) :
    BlockUpd B v (assignRef B v i k) i (fun j => getBit B v k j) :=
  ⟨length_assignRefLoop B v i k B, fun i' j' hj' => by
    unfold assignRef
    rw [getBit_assignRefLoop v hi B (Nat.le_refl _) i' j' hj']; simp [hj']⟩

theorem setOne_upd {B : Nat} (v : Bits) {i j : Nat} (b : Bool) (hi : i < size B v) (hj : j < B) :
    BlockUpd B v (setOne B v i j b) i (fun j' => if j = j' then b else getBit B v i j') :=
  ⟨length_setBit B v i j b, fun i' j' hj' => by
    unfold setOne
    rw [getBit_setBit v b hj hj' (block_in_range hi hj)]
    by_cases h1 : i = i'
    · subst h1; by_cases h2 : j = j' <;> simp [h2]
    · simp [h1]⟩

/-! ### blocks -/

theorem length_getRepr (B : Nat) (v : Bits) (i : Nat) : (getRepr B v i).length = B := by simp [getRepr]

theorem getD_getRepr {B : Nat} (v : Bits) (i : Nat) {j : Nat} (hj : j < B) : (getRepr B v i).getD j false = getBit B v i j := by
  simp [getRepr, List.getD_eq_getElem?_getD, hj]

theorem map_getD_range {l : Bits} {B : Nat} (h : l.length = B) : (List.range B).map (fun j => l.getD j false) = l := by
  apply List.ext_getElem?
  intro j
  by_cases hj : j < B
  · simp [hj, List.getD_eq_getElem?_getD, List.getElem?_eq_getElem (h ▸ hj)]
  · simp [hj, List.getElem?_eq_none (by omega : l.length ≤ j)]

theorem BlockUpd.getRepr_self {B : Nat} {v v' : Bits} {i : Nat} {g : Nat → Bool} (h : BlockUpd B v v' i g) :
    getRepr B v' i = (List.range B).map g := by
  unfold getRepr
  apply List.map_congr_left
  intro j hj
  rw [h.bits i j (List.mem_range.mp hj)]; simp

/-- `frame`: the other blocks are unchanged -/
theorem BlockUpd.getRepr_other {B : Nat} {v v' : Bits} {i : Nat} {g : Nat → Bool} (h : BlockUpd B v v' i g)
    {i' : Nat} (hne : i ≠ i') : getRepr B v' i' = getRepr B v i' := by
  unfold getRepr
  apply List.map_congr_left
  intro j hj
  rw [h.bits i' j (List.mem_range.mp hj)]; simp [hne]

theorem abs_length (B : Nat) (v : Bits) : (abs B v).length = size B v := by simp [abs]

theorem abs_get (B : Nat) (v : Bits) (i : Nat) :
    (abs B v)[i]? = if i < size B v then some (getRepr B v i) else none := by
  unfold abs
  by_cases h : i < size B v <;> simp [h]

theorem BlockUpd.abs_eq {B : Nat} {v v' : Bits} {i : Nat} {g : Nat → Bool} (h : BlockUpd B v v' i g) :
    abs B v' = (abs B v).modify i (fun _ => (List.range B).map g) := by
  apply List.ext_getElem?
  intro i'
  have hs : size B v' = size B v := by simp [size, h.len]
  rw [List.getElem?_modify, abs_get, abs_get, hs]
  by_cases hi' : i' < size B v
  · simp only [hi', if_true, Option.map_some]
    by_cases he : i = i'
    · subst he; simp [h.getRepr_self]
    · simp [he, h.getRepr_other he]
  · simp [hi']

theorem modify_const_of_get {l : List Bits} {i : Nat} {a : Bits} (f : Bits → Bits) (h : l[i]? = some a) :
    l.modify i f = l.modify i (fun _ => f a) := by
  apply List.ext_getElem?
  intro j
  rw [List.getElem?_modify, List.getElem?_modify]
  by_cases hij : i = j
  · subst hij; simp [h]
  · simp [hij]

/-- a block update whose new bits are `op (old block)`, on the abstract block vector -/
theorem BlockUpd.abs_modify {B : Nat} {v v' : Bits} {i : Nat} {g : Nat → Bool} (h : BlockUpd B v v' i g)
    (hi : i < size B v) (op : Bits → Bits) (hop : (List.range B).map g = op (getRepr B v i)) :
    abs B v' = (abs B v).modify i op := by
  rw [h.abs_eq, hop]
  have : (abs B v)[i]? = some (getRepr B v i) := by rw [abs_get]; simp [hi]
  rw [modify_const_of_get op this]

/-! ### bitset operations on blocks of length `B` -/

theorem map_range_eq {B : Nat} {l : Bits} (hl : l.length = B) (g : Nat → Bool)
    (h : ∀ j, j < B → g j = l.getD j false) : (List.range B).map g = l := by
  rw [← map_getD_range hl]
  apply List.map_congr_left
  intro j hj
  exact h j (List.mem_range.mp hj)

theorem getD_zipWith {f : Bool → Bool → Bool} (a b : Bits) {j : Nat} (ha : j < a.length) (hb : j < b.length) :
    (List.zipWith f a b).getD j false = f (a.getD j false) (b.getD j false) := by
  simp [List.getD_eq_getElem?_getD, List.getElem?_zipWith, List.getElem?_eq_getElem ha, List.getElem?_eq_getElem hb]

/-! ### whole-vector operations -/

theorem size_mul {B : Nat} {v : Bits} (h : Inv B v) : size B v * B = v.length := by
  unfold size Inv at *
  have := Nat.div_add_mod v.length B
  rw [h, Nat.mul_comm] at this
  omega

theorem getRepr_eq_slice {B : Nat} {v : Bits} {i : Nat} (hi : i < size B v) :
    getRepr B v i = (v.drop (i * B)).take B := by
  apply List.ext_getElem?
  intro j
  by_cases hj : j < B
  · have := block_in_range hi hj
    simp [getRepr, getBit, hj, List.getElem?_take, List.getElem?_drop, List.getD_eq_getElem?_getD,
      List.getElem?_eq_getElem this]
  · simp [getRepr, hj, List.getElem?_take]

/-! ### queries on a block -/

theorem foldl_count {β : Type} (p : β → Bool) : ∀ (l : List β) (a : Nat),
    l.foldl (fun n j => n + (if p j then 1 else 0)) a = a + l.countP p
  | [], a => by simp
  | x :: t, a => by
    rw [List.foldl_cons, foldl_count p t, List.countP_cons]
    by_cases h : p x <;> simp [h] <;> omega

theorem foldl_and {β : Type} (q : β → Bool) : ∀ (l : List β) (a : Bool),
    l.foldl (fun e j => e && q j) a = (a && l.all q)
  | [], a => by simp
  | x :: t, a => by rw [List.foldl_cons, foldl_and q t, List.all_cons, Bool.and_assoc]

theorem countBlock_eq (B : Nat) (v : Bits) (i : Nat) : countBlock B v i = (getRepr B v i).countP (fun b => b) := by
  unfold countBlock getRepr
  rw [foldl_count (fun j => getBit B v i j), List.countP_map]
  simp; rfl

/-! ### whole-vector counts -/

/-- consecutive `B`-wide slices of a list whose length is `n*B` concatenate to the list -/
theorem flatten_slices (B : Nat) : ∀ (n : Nat) (v : Bits), v.length = n * B →
    ((List.range n).map (fun i => (v.drop (i * B)).take B)).flatten = v
  | 0, v, h => by
    have : v = [] := List.eq_nil_of_length_eq_zero (by simpa using h)
    simp [this]
  | n + 1, v, h => by
    rw [List.range_succ_eq_map, List.map_cons, List.flatten_cons, List.map_map]
    have hd : (v.drop B).length = n * B := by rw [List.length_drop, h, Nat.add_mul]; omega
    have ih := flatten_slices B n (v.drop B) hd
    have hf : ((fun i => (v.drop (i * B)).take B) ∘ Nat.succ) = (fun i => ((v.drop B).drop (i * B)).take B) := by
      funext i
      simp only [Function.comp, List.drop_drop]
      congr 2
      rw [Nat.succ_mul]; omega
    rw [hf, ih]
    simp

theorem abs_flatten {B : Nat} {v : Bits} (h : Inv B v) : (abs B v).flatten = v := by
  have hs := size_mul h
  have : abs B v = (List.range (size B v)).map (fun i => (v.drop (i * B)).take B) := by
    unfold abs
    apply List.map_congr_left
    intro i hi
    exact getRepr_eq_slice (List.mem_range.mp hi)
  rw [this]
  exact flatten_slices B (size B v) v hs.symm

theorem countP_flatten {β : Type} (p : β → Bool) : ∀ (l : List (List β)), l.flatten.countP p = (l.map (List.countP p)).sum
  | [] => rfl
  | x :: t => by simp [List.countP_append, countP_flatten p t]

/-- `count()` is the sum of the block counts -/
theorem count_eq {B : Nat} {v : Bits} (h : Inv B v) : count v = ((abs B v).map (List.countP (fun b => b))).sum := by
  rw [← countP_flatten, abs_flatten h]
  unfold count
  congr 1
  funext b; cases b <;> rfl

/-- `countmasked(j)` counts the blocks whose bit `j` is set -/
theorem countmasked_eq {B : Nat} (v : Bits) {j : Nat} (hj : j < B) :
    countmasked B v j = (abs B v).countP (fun blk => blk.getD j false) := by
  unfold countmasked abs
  rw [foldl_count (fun i => getBit B v i j), List.countP_map, Nat.zero_add]
  congr 1
  funext i
  simp only [Function.comp]
  exact (getD_getRepr v i hj).symm

theorem allBlock_eq (B : Nat) (v : Bits) (i : Nat) : allBlock B v i = (getRepr B v i).all (fun b => b) := by
  unfold allBlock getRepr
  rw [List.all_map]; rfl

theorem equalsBits_iff {B : Nat} (v : Bits) (i : Nat) {bs : Bits} (hb : bs.length = B) :
    equalsBits B v i bs = true ↔ getRepr B v i = bs := by
  unfold equalsBits
  rw [foldl_and (fun j => getBit B v i j == bs.getD j false), Bool.true_and, List.all_eq_true]
  constructor
  · intro h
    rw [← map_getD_range hb]
    unfold getRepr
    apply List.map_congr_left
    intro j hj
    simpa using h j hj
  · intro h j hj
    rw [← h, getD_getRepr v i (List.mem_range.mp hj)]
    simp

theorem modify_of_length_le {l : List Bits} {i : Nat} (f : Bits → Bits) (h : l.length ≤ i) : l.modify i f = l := by
  apply List.ext_getElem?
  intro j
  rw [List.getElem?_modify]
  by_cases hij : i = j
  · subst hij; simp [List.getElem?_eq_none h]
  · simp [hij]

theorem getBit_of_lt {B : Nat} {v : Bits} {i j : Nat} (h : i * B + j < v.length) : getBit B v i j = v[i * B + j] := by
  simp [getBit, List.getD_eq_getElem?_getD, List.getElem?_eq_getElem h]

theorem size_of_length {B : Nat} (hB : 0 < B) {v : Bits} {n : Nat} (h : v.length = n * B) : size B v = n := by
  unfold size; rw [h]; exact Nat.mul_div_cancel _ hB

theorem resize_refines {B : Nat} (hB : 0 < B) {v : Bits} (h : Inv B v) (n : Nat) (b : Bool) :
    Inv B (resize B v n b) ∧
      abs B (resize B v n b) = if n ≤ (abs B v).length then (abs B v).take n
        else abs B v ++ List.replicate (n - (abs B v).length) (List.replicate B b) := by
  have hsz := size_mul h
  rw [abs_length]
  by_cases hn : n * B ≤ v.length
  · have hle : n ≤ size B v := by
      rw [← hsz] at hn; exact Nat.le_of_mul_le_mul_right hn hB
    have e : resize B v n b = v.take (n * B) := by simp [resize, hn]
    have hlen : (v.take (n * B)).length = n * B := by simp [Nat.min_eq_left hn]
    rw [e, if_pos hle]
    refine ⟨by unfold Inv; rw [hlen]; exact Nat.mul_mod_left _ _, ?_⟩
    apply List.ext_getElem?
    intro i
    rw [abs_get, size_of_length hB hlen, List.getElem?_take, abs_get]
    by_cases hi : i < n
    · have hi2 : i < size B v := by omega
      simp only [hi, hi2, if_true]
      congr 1
      unfold getRepr
      apply List.map_congr_left
      intro j hj
      have hj := List.mem_range.mp hj
      have h1 : i * B + j < n * B := by
        have : (i + 1) * B ≤ n * B := Nat.mul_le_mul_right B hi
        rw [Nat.add_mul] at this; omega
      simp [getBit, List.getD_eq_getElem?_getD, List.getElem?_take, h1]
    · simp [hi]
  · have hgt : ¬ n ≤ size B v := by
      intro hle
      have := Nat.mul_le_mul_right B hle
      omega
    have e : resize B v n b = v ++ List.replicate (n * B - v.length) b := by simp [resize, hn]
    have hlen : (v ++ List.replicate (n * B - v.length) b).length = n * B := by simp; omega
    rw [e, if_neg hgt]
    refine ⟨by unfold Inv; rw [hlen]; exact Nat.mul_mod_left _ _, ?_⟩
    apply List.ext_getElem?
    intro i
    rw [abs_get, size_of_length hB hlen]
    by_cases hi : i < size B v
    · rw [List.getElem?_append_left (by rw [abs_length]; exact hi), abs_get]
      simp only [hi, show i < n by omega, if_true]
      congr 1
      unfold getRepr
      apply List.map_congr_left
      intro j hj
      have hj := List.mem_range.mp hj
      have h1 := block_in_range hi hj
      simp [getBit, List.getD_eq_getElem?_getD, List.getElem?_append_left h1]
    · rw [List.getElem?_append_right (by rw [abs_length]; omega), abs_length, List.getElem?_replicate]
      by_cases hin : i < n
      · simp only [hin, show i - size B v < n - size B v by omega, if_true]
        congr 1
        apply List.ext_getElem?
        intro j
        by_cases hj : j < B
        · have h1 : v.length ≤ i * B + j := by
            have : size B v * B ≤ i * B := Nat.mul_le_mul_right B (by omega)
            omega
          have h2 : i * B + j - v.length < n * B - v.length := by
            have : (i + 1) * B ≤ n * B := Nat.mul_le_mul_right B hin
            rw [Nat.add_mul] at this; omega
          simp [getRepr, getBit, hj, List.getD_eq_getElem?_getD, List.getElem?_append_right h1, h2]
        · simp [getRepr, hj]
      · simp [hin, show ¬ i - size B v < n - size B v by omega]

theorem clear_refines (B : Nat) (v : Bits) : Inv B (clear v) ∧ abs B (clear v) = [] := by
  simp [Inv, clear, abs, size]

theorem assignAll_refines {B : Nat} {v : Bits} (h : Inv B v) (b : Bool) :
    Inv B (assignAll v b) ∧ abs B (assignAll v b) = (abs B v).map (fun _ => List.replicate B b) := by
  refine ⟨by simpa [Inv, assignAll] using h, ?_⟩
  have hs : size B (assignAll v b) = size B v := by simp [size, assignAll]
  apply List.ext_getElem?
  intro i
  rw [abs_get, hs, List.getElem?_map, abs_get]
  by_cases hi : i < size B v
  · simp only [hi, if_true, Option.map_some]
    congr 1
    apply List.ext_getElem?
    intro j
    by_cases hj : j < B
    · have := block_in_range hi hj
      simp [getRepr, getBit, assignAll, hj, List.getD_eq_getElem?_getD, this]
    · simp [getRepr, hj]
  · simp [hi]

theorem BlockUpd.inv {B : Nat} {v v' : Bits} {i : Nat} {g : Nat → Bool} (h : BlockUpd B v v' i g) (hv : Inv B v) :
    Inv B v' := by unfold Inv; rw [h.len]; exact hv

theorem bNot_getRepr (B : Nat) (v : Bits) (i : Nat) :
    (List.range B).map (fun j => !(getBit B v i j)) = bNot (getRepr B v i) := by
  simp [bNot, getRepr, List.map_map]

theorem set_getRepr {B : Nat} (v : Bits) (i : Nat) {j : Nat} (b : Bool) :
    (List.range B).map (fun j' => if j = j' then b else getBit B v i j') = (getRepr B v i).set j b := by
  apply List.ext_getElem?
  intro m
  rw [List.getElem?_set, length_getRepr]
  by_cases hm : m < B
  · by_cases hjm : j = m
    · subst hjm; simp [hm]
    · simp [hm, hjm, getRepr]
  · by_cases hjm : j = m
    · subst hjm; simp [hm]
    · simp [hm, hjm, getRepr]

theorem map_const_range (B : Nat) (b : Bool) : (List.range B).map (fun _ => b) = List.replicate B b := by
  apply List.ext_getElem?
  intro j
  by_cases hj : j < B <;> simp [hj]

theorem length_bShl (a : Bits) (n : Nat) : (bShl a n).length = a.length := by simp [bShl]
theorem length_bShr (a : Bits) (n : Nat) : (bShr a n).length = a.length := by simp [bShr]
theorem length_bAnd (a b : Bits) : (bAnd a b).length = min a.length b.length := by simp [bAnd]
theorem length_bOr (a b : Bits) : (bOr a b).length = min a.length b.length := by simp [bOr]
theorem length_bXor (a b : Bits) : (bXor a b).length = min a.length b.length := by simp [bXor]

/-- `ref = bitset` with an arbitrary bitset `x` of width `B` -/
theorem assignBits_refines {B : Nat} {v : Bits} (h : Inv B v) {i : Nat} (hi : i < size B v) {x : Bits} (hx : x.length = B) :
    Inv B (assignBits B v i x) ∧ abs B (assignBits B v i x) = (abs B v).modify i (fun _ => x) ∧
      getRepr B (assignBits B v i x) i = x ∧ ∀ i', i ≠ i' → getRepr B (assignBits B v i x) i' = getRepr B v i' := by
  have hu := writeLoop_upd v (fun j => x.getD j false) hi
  have e := map_getD_range hx
  refine ⟨hu.inv h, ?_, ?_, fun i' hne => hu.getRepr_other hne⟩
  · have := hu.abs_eq; rw [e] at this; exact this
  · have := hu.getRepr_self; rw [e] at this; exact this

theorem step_refines {B : Nat} (hB : 0 < B) {v : Bits} (h : Inv B v) (o : Op) :
    Inv B (step B v o) ∧ abs B (step B v o) = specStep B (abs B v) o := by
  have hlen := abs_length B v
  unfold step
  by_cases hok : o.ok B v
  · simp only [hok, if_true]
    cases o with
    | resize n b => simpa [specStep] using resize_refines hB h n b
    | clear => simpa [specStep] using clear_refines B v
    | assignAll b => simpa [specStep] using assignAll_refines h b
    | setBlock i =>
      have hi : i < size B v := by simpa [Op.ok] using hok
      have hu := writeLoop_upd v (fun _ => true) hi
      refine ⟨hu.inv h, ?_⟩
      have := hu.abs_eq
      rw [map_const_range] at this
      exact this
    | resetBlock i =>
      have hi : i < size B v := by simpa [Op.ok] using hok
      have hu := writeLoop_upd v (fun _ => false) hi
      refine ⟨hu.inv h, ?_⟩
      have := hu.abs_eq
      rw [map_const_range] at this
      exact this
    | assignBool i b =>
      have hi : i < size B v := by simpa [Op.ok] using hok
      have hu := writeLoop_upd v (fun _ => b) hi
      refine ⟨hu.inv h, ?_⟩
      have := hu.abs_eq
      rw [map_const_range] at this
      exact this
    | flipBlock i =>
      have hi : i < size B v := by simpa [Op.ok] using hok
      have hu := flipLoop_upd v hi
      exact ⟨hu.inv h, by simpa [specStep] using hu.abs_modify hi bNot (bNot_getRepr B v i)⟩
    | setOne i j b =>
      have hij : i < size B v ∧ j < B := by simpa [Op.ok] using hok
      have hu := setOne_upd v b hij.1 hij.2
      exact ⟨hu.inv h, by simpa [specStep, hij.2] using hu.abs_modify hij.1 (fun x => x.set j b) (set_getRepr v i b)⟩
    | flipOne i j =>
      have hij : i < size B v ∧ j < B := by simpa [Op.ok] using hok
      have hu := setOne_upd v (!(getBit B v i j)) hij.1 hij.2
      refine ⟨hu.inv h, ?_⟩
      have := hu.abs_modify hij.1 (fun x => x.set j (!(x.getD j false)))
        (by rw [set_getRepr v i, getD_getRepr v i hij.2])
      show abs B (setOne B v i j (!(getBit B v i j))) = (if j < B then _ else _)
      rw [if_pos hij.2]
      exact this
    | assignBits i x =>
      have hix : i < size B v ∧ x.length = B := by simpa [Op.ok] using hok
      have := assignBits_refines h hix.1 hix.2
      exact ⟨this.1, by simpa [specStep, hix.2] using this.2.1⟩
    | assignRef i k =>
      have hik : i < size B v ∧ k < size B v := by simpa [Op.ok] using hok
      have hu := assignRef_upd v k hik.1
      refine ⟨hu.inv h, ?_⟩
      have hk : (abs B v)[k]? = some (getRepr B v k) := by rw [abs_get]; simp [hik.2]
      simp only [specStep, hk]
      exact hu.abs_eq
    | andBits i x =>
      have hix : i < size B v ∧ x.length = B := by simpa [Op.ok] using hok
      have hl : (bAnd (getRepr B v i) x).length = B := by rw [length_bAnd, length_getRepr, hix.2]; simp
      have hu := writeLoop_upd v (fun j => (bAnd (getRepr B v i) x).getD j false) hix.1
      refine ⟨hu.inv h, ?_⟩
      show abs B (andBits B v i x) = (if x.length = B then _ else _)
      rw [if_pos hix.2]
      exact hu.abs_modify hix.1 (fun y => bAnd y x) (map_getD_range hl)
    | orBits i x =>
      have hix : i < size B v ∧ x.length = B := by simpa [Op.ok] using hok
      have hl : (bOr (getRepr B v i) x).length = B := by rw [length_bOr, length_getRepr, hix.2]; simp
      have hu := writeLoop_upd v (fun j => (bOr (getRepr B v i) x).getD j false) hix.1
      refine ⟨hu.inv h, ?_⟩
      show abs B (orBits B v i x) = (if x.length = B then _ else _)
      rw [if_pos hix.2]
      exact hu.abs_modify hix.1 (fun y => bOr y x) (map_getD_range hl)
    | xorBits i x =>
      have hix : i < size B v ∧ x.length = B := by simpa [Op.ok] using hok
      have hl : (bXor (getRepr B v i) x).length = B := by rw [length_bXor, length_getRepr, hix.2]; simp
      have hu := writeLoop_upd v (fun j => (bXor (getRepr B v i) x).getD j false) hix.1
      refine ⟨hu.inv h, ?_⟩
      show abs B (xorBits B v i x) = (if x.length = B then _ else _)
      rw [if_pos hix.2]
      exact hu.abs_modify hix.1 (fun y => bXor y x) (map_getD_range hl)
    | shl i n =>
      have hi : i < size B v := by simpa [Op.ok] using hok
      have hl : (bShl (getRepr B v i) n).length = B := by rw [length_bShl, length_getRepr]
      have hu := writeLoop_upd v (fun j => (bShl (getRepr B v i) n).getD j false) hi
      exact ⟨hu.inv h, hu.abs_modify hi (fun y => bShl y n) (map_getD_range hl)⟩
    | shr i n =>
      have hi : i < size B v := by simpa [Op.ok] using hok
      have hl : (bShr (getRepr B v i) n).length = B := by rw [length_bShr, length_getRepr]
      have hu := writeLoop_upd v (fun j => (bShr (getRepr B v i) n).getD j false) hi
      exact ⟨hu.inv h, hu.abs_modify hi (fun y => bShr y n) (map_getD_range hl)⟩
  · simp only [hok, Bool.false_eq_true, if_false]
    refine ⟨h, ?_⟩
    have noop : ∀ (i : Nat) (f : Bits → Bits), ¬ i < size B v → (abs B v).modify i f = abs B v :=
      fun i f hi => modify_of_length_le f (by rw [hlen]; omega)
    cases o with
    | resize n b => simp [Op.ok] at hok
    | clear => simp [Op.ok] at hok
    | assignAll b => simp [Op.ok] at hok
    | setBlock i => simp [specStep, noop i _ (by simpa [Op.ok] using hok)]
    | resetBlock i => simp [specStep, noop i _ (by simpa [Op.ok] using hok)]
    | flipBlock i => simp [specStep, noop i _ (by simpa [Op.ok] using hok)]
    | assignBool i b => simp [specStep, noop i _ (by simpa [Op.ok] using hok)]
    | shl i n => simp [specStep, noop i _ (by simpa [Op.ok] using hok)]
    | shr i n => simp [specStep, noop i _ (by simpa [Op.ok] using hok)]
    | setOne i j b =>
      simp only [specStep]
      by_cases hj : j < B
      · simp [hj, noop i _ (by simpa [Op.ok, hj] using hok)]
      · simp [hj]
    | flipOne i j =>
      simp only [specStep]
      by_cases hj : j < B
      · simp [hj, noop i _ (by simpa [Op.ok, hj] using hok)]
      · simp [hj]
    | assignBits i x =>
      simp only [specStep]
      by_cases hx : x.length = B
      · simp [hx, noop i _ (by simpa [Op.ok, hx] using hok)]
      · simp [hx]
    | andBits i x =>
      simp only [specStep]
      by_cases hx : x.length = B
      · simp [hx, noop i _ (by simpa [Op.ok, hx] using hok)]
      · simp [hx]
    | orBits i x =>
      simp only [specStep]
      by_cases hx : x.length = B
      · simp [hx, noop i _ (by simpa [Op.ok, hx] using hok)]
      · simp [hx]
    | xorBits i x =>
      simp only [specStep]
      by_cases hx : x.length = B
      · simp [hx, noop i _ (by simpa [Op.ok, hx] using hok)]
      · simp [hx]
    | assignRef i k =>
      simp only [specStep]
      by_cases hk : k < size B v
      · have : (abs B v)[k]? = some (getRepr B v k) := by rw [abs_get]; simp [hk]
        simp [this, noop i _ (by simpa [Op.ok, hk] using hok)]
      · have : (abs B v)[k]? = none := by rw [abs_get]; simp [hk]
        simp [this]

theorem run_refines {B : Nat} (hB : 0 < B) (ops : List Op) :
    ∀ {v : Bits}, Inv B v → Inv B (run B v ops) ∧ abs B (run B v ops) = specRun B (abs B v) ops := by
  induction ops with
  | nil => intro v h; exact ⟨h, rfl⟩
  | cons o t ih =>
    intro v h
    obtain ⟨h1, h2⟩ := step_refines hB h o
    have := ih h1
    simp only [run, specRun, List.foldl_cons] at this ⊢
    rw [h2] at this
    exact this

/-! ### `std::bitset` operations as operations on the number the bits stand for -/

/-- the number a `std::bitset` stands for (`to_ullong` for arbitrary width): bit `j` has weight `2^j` -/
def toNat : Bits → Nat
  | [] => 0
  | b :: t => (if b then 1 else 0) + 2 * toNat t

theorem testBit_toNat : ∀ (a : Bits) (j : Nat), (toNat a).testBit j = a.getD j false
  | [], j => by simp [toNat]
  | b :: t, 0 => by
    simp only [toNat, Nat.testBit_zero, List.getD_cons_zero]
    cases b <;> simp <;> omega
  | b :: t, j + 1 => by
    rw [Nat.testBit_succ, List.getD_cons_succ, ← testBit_toNat t j]
    congr 1
    simp only [toNat]
    cases b <;> simp <;> omega

theorem toNat_lt (a : Bits) : toNat a < 2 ^ a.length := by
  apply Nat.lt_pow_two_of_testBit
  intro i hi
  rw [testBit_toNat, List.getD_eq_getElem?_getD, List.getElem?_eq_none (by omega)]
  rfl

theorem getD_map_range (n : Nat) (f : Nat → Bool) (j : Nat) :
    ((List.range n).map f).getD j false = (decide (j < n) && f j) := by
  rw [List.getD_eq_getElem?_getD, List.getElem?_map]
  by_cases h : j < n
  · rw [List.getElem?_range h]; simp [h]
  · rw [List.getElem?_eq_none (by simp; omega)]; simp [h]

/-- `b >> n` is division by `2^n` -/
theorem toNat_bShr (a : Bits) (n : Nat) : toNat (bShr a n) = toNat a / 2 ^ n := by
  rw [← Nat.shiftRight_eq_div_pow]
  apply Nat.eq_of_testBit_eq
  intro j
  rw [testBit_toNat, Nat.testBit_shiftRight, testBit_toNat, bShr, getD_map_range, Nat.add_comm]
  by_cases h : j < a.length
  · simp [h]
  · have : a[n + j]? = none := List.getElem?_eq_none (by omega)
    simp [h, this]

/-- `b << n` is multiplication by `2^n` modulo `2^B` -/
theorem toNat_bShl (a : Bits) (n : Nat) : toNat (bShl a n) = (toNat a * 2 ^ n) % 2 ^ a.length := by
  rw [← Nat.shiftLeft_eq]
  apply Nat.eq_of_testBit_eq
  intro j
  rw [testBit_toNat, Nat.testBit_mod_two_pow, Nat.testBit_shiftLeft, testBit_toNat, bShl, getD_map_range]
  by_cases h1 : j < a.length <;> by_cases h2 : n ≤ j <;> simp [h1, h2]

/-- `~b` is the complement within `B` bits -/
theorem toNat_bNot (a : Bits) : toNat (bNot a) = 2 ^ a.length - 1 - toNat a := by
  have hlt := toNat_lt a
  have e : 2 ^ a.length - 1 - toNat a = 2 ^ a.length - (toNat a + 1) := by omega
  rw [e]
  apply Nat.eq_of_testBit_eq
  intro j
  rw [testBit_toNat, Nat.testBit_two_pow_sub_succ hlt, testBit_toNat, bNot]
  by_cases h : j < a.length
  · simp [h, List.getD_eq_getElem?_getD, List.getElem?_map, List.getElem?_eq_getElem h]
  · have h1 : (a.map (!·)).getD j false = false := by
      rw [List.getD_eq_getElem?_getD, List.getElem?_eq_none (by simp; omega)]; rfl
    simp [h, h1]

theorem getD_zipWith' (f : Bool → Bool → Bool) (hf : f false false = false) (a b : Bits) (hl : a.length = b.length) (j : Nat) :
    (List.zipWith f a b).getD j false = f (a.getD j false) (b.getD j false) := by
  by_cases h : j < a.length
  · simp [List.getD_eq_getElem?_getD, List.getElem?_zipWith, List.getElem?_eq_getElem h,
      List.getElem?_eq_getElem (hl ▸ h)]
  · have h1 : a.getD j false = false := by rw [List.getD_eq_getElem?_getD, List.getElem?_eq_none (by omega)]; rfl
    have h2 : b.getD j false = false := by rw [List.getD_eq_getElem?_getD, List.getElem?_eq_none (by omega)]; rfl
    have h3 : (List.zipWith f a b).getD j false = false := by
      rw [List.getD_eq_getElem?_getD, List.getElem?_eq_none (by simp; omega)]; rfl
    rw [h1, h2, h3, hf]

/-- `&`, `|`, `^` are the bitwise operations on the numbers -/
theorem toNat_bitwise {a b : Bits} (hl : a.length = b.length) :
    toNat (bAnd a b) = toNat a &&& toNat b ∧ toNat (bOr a b) = toNat a ||| toNat b ∧
      toNat (bXor a b) = toNat a ^^^ toNat b := by
  refine ⟨?_, ?_, ?_⟩ <;> apply Nat.eq_of_testBit_eq <;> intro j
  · rw [testBit_toNat, Nat.testBit_and, testBit_toNat, testBit_toNat, bAnd, getD_zipWith' _ rfl a b hl]
  · rw [testBit_toNat, Nat.testBit_or, testBit_toNat, testBit_toNat, bOr, getD_zipWith' _ rfl a b hl]
  · rw [testBit_toNat, Nat.testBit_xor, testBit_toNat, testBit_toNat, bXor, getD_zipWith' _ rfl a b hl]

/-- the number determines the bitset (of a given width) -/
theorem toNat_inj {a b : Bits} (hl : a.length = b.length) (h : toNat a = toNat b) : a = b := by
  apply List.ext_getElem hl
  intro j h1 h2
  have := congrArg (fun x => Nat.testBit x j) h
  simp only [testBit_toNat, List.getD_eq_getElem?_getD, List.getElem?_eq_getElem h1, List.getElem?_eq_getElem h2,
    Option.getD_some] at this
  exact this

/-! ### conversion between a block and the number it stands for, and conversions through a machine word

`getRepr` builds the `std::bitset<B>` bit by bit, which is exact for every `B`.  A conversion that passes through a
`W`-bit machine word (`to_ulong`/`to_ullong`, `bitset(unsigned long long)`; `W = 32, 64`) is exact precisely for
`B ≤ W` — the reason the differential run instantiates block sizes on both sides of 32, 64 and 128. -/

/-- `std::bitset<B>(n)` for a number of arbitrary size: bit `j` of the block is bit `j` of `n` -/
def ofNat (B n : Nat) : Bits := (List.range B).map n.testBit

theorem length_ofNat (B n : Nat) : (ofNat B n).length = B := by simp [ofNat]

theorem getD_ofNat (B n j : Nat) : (ofNat B n).getD j false = (decide (j < B) && n.testBit j) := by
  rw [ofNat, getD_map_range]

/-- block → number → block is the identity, for every width -/
theorem ofNat_toNat (a : Bits) : ofNat a.length (toNat a) = a := by
  apply List.ext_getElem (length_ofNat _ _)
  intro j h1 h2
  have := getD_ofNat a.length (toNat a) j
  rw [testBit_toNat] at this
  simp only [List.getD_eq_getElem?_getD, List.getElem?_eq_getElem h1, List.getElem?_eq_getElem h2, Option.getD_some,
    h2, decide_true, Bool.true_and] at this
  exact this

/-- number → block → number keeps exactly the low `B` bits -/
theorem toNat_ofNat (B n : Nat) : toNat (ofNat B n) = n % 2 ^ B := by
  apply Nat.eq_of_testBit_eq
  intro j
  rw [testBit_toNat, getD_ofNat, Nat.testBit_mod_two_pow]

/-- the conversion of a block that passes through a `W`-bit machine word -/
def viaWord (W : Nat) (a : Bits) : Bits := ofNat a.length (toNat a % 2 ^ W)

theorem getD_viaWord (W : Nat) (a : Bits) (j : Nat) :
    (viaWord W a).getD j false = (decide (j < W) && a.getD j false) := by
  rw [viaWord, getD_ofNat, Nat.testBit_mod_two_pow, testBit_toNat]
  by_cases h : j < a.length
  · simp [h]
  · have : a.getD j false = false := by
      rw [List.getD_eq_getElem?_getD, List.getElem?_eq_none (by omega)]; rfl
    simp [h, this]

/-- a word conversion is exact for all blocks of width `B` iff `B ≤ W` -/
theorem viaWord_exact_iff (W B : Nat) : (∀ a : Bits, a.length = B → viaWord W a = a) ↔ B ≤ W := by
  constructor
  · intro h
    apply Nat.le_of_not_lt
    intro hlt
    have e := h (List.replicate B true) (by simp)
    have g := getD_viaWord W (List.replicate B true) W
    rw [e] at g
    have : (List.replicate B true).getD W false = true := by
      rw [List.getD_eq_getElem?_getD, List.getElem?_replicate]; simp [hlt]
    rw [this] at g
    simp at g
  · intro hle a ha
    have hlt : toNat a < 2 ^ W :=
      Nat.lt_of_lt_of_le (toNat_lt a) (Nat.pow_le_pow_right (by omega) (ha ▸ hle))
    rw [viaWord, Nat.mod_eq_of_lt hlt, ofNat_toNat]
end DV.C11.BV
