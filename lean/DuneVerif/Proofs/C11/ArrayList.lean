import DuneVerif.Model.C11.ArrayList
/-! Helper lemmas for the ArrayList refinement (core Lean only). -/
namespace DV.C11.AL

variable {α : Type}

/-- The representation invariant of `ArrayList` (DESIGN.md C11): capacity is the allocated room, the live
    window lies inside it, chunks in front of the window are freed, chunks from the window on are present
    and full-sized. -/
structure Inv (N : Nat) (s : State α) : Prop where
  cap : s.capacity = N * s.chunks.length
  le : s.start + s.size ≤ s.capacity
  present : ∀ c, s.start / N ≤ c → c < s.chunks.length → ∃ l, s.chunks[c]? = some (some l) ∧ l.length = N
  freed : ∀ c, c < s.start / N → c < s.chunks.length → s.chunks[c]? = some none

/-! ### lists of options -/

theorem reduceOption_map_some (l : List α) : (l.map some).reduceOption = l := by
  induction l with
  | nil => rfl
  | cons a t ih => simpa [List.reduceOption] using ih

theorem eq_map_some_of_all_some : ∀ (l : List (Option α)), (∀ o ∈ l, o.isSome) → l = (l.reduceOption).map some
  | [], _ => rfl
  | none :: _, h => by simp at h
  | some a :: t, h => by
    have ih := eq_map_some_of_all_some t (fun o ho => h o (by simp [ho]))
    simp only [List.reduceOption, List.filterMap_cons, id, List.map_cons]
    exact congrArg _ ih

/-! ### arithmetic of (chunk, offset) addresses -/

theorem addr_inj {N i j : Nat} (hd : i / N = j / N) (hm : i % N = j % N) : i = j := by
  rw [← Nat.div_add_mod i N, ← Nat.div_add_mod j N, hd, hm]

/-- `freed_count_formula`: the chunk count computed by `eraseToHere` is the number of chunks strictly in front
    of the new start that were not already in front of the old one. -/
theorem freed_count {N start pos : Nat} (h : start ≤ pos) :
    (pos - start + start % N) / N = pos / N - start / N := by
  have h1 : pos - start + start % N = pos - N * (start / N) := by
    have := Nat.div_add_mod start N
    omega
  rw [h1, Nat.sub_mul_div_of_le]
  have := Nat.div_add_mod start N
  omega

theorem le_ceil_mul {N : Nat} (hN : 0 < N) (X : Nat) : X ≤ N * ((X + N - 1) / N) := by
  have h1 := Nat.div_add_mod (X + N - 1) N
  have h2 := Nat.mod_lt (X + N - 1) hN
  omega

/-! ### reads and writes -/

theorem length_writeAt (N : Nat) (cs : List (Option (List α))) (i : Nat) (x : α) :
    (writeAt N cs i x).length = cs.length := by simp [writeAt]

theorem getElem?_writeAt (N : Nat) (cs : List (Option (List α))) (i : Nat) (x : α) (c : Nat) :
    (writeAt N cs i x)[c]? =
      (cs[c]?).map (fun oc => if i / N = c then oc.map (fun l => l.set (i % N) x) else oc) := by
  simp [writeAt, List.getElem?_modify]

theorem readAt_writeAt_ne {N : Nat} (cs : List (Option (List α))) {i j : Nat} (x : α) (hne : j ≠ i) :
    readAt N (writeAt N cs i x) j = readAt N cs j := by
  unfold readAt
  rw [getElem?_writeAt]
  cases hc : cs[j / N]? with
  | none => simp
  | some oc =>
    cases oc with
    | none => by_cases hd : i / N = j / N <;> simp [hd]
    | some l =>
      by_cases hd : i / N = j / N
      · have hm : i % N ≠ j % N := fun hm => hne (addr_inj hd hm).symm
        simp [hd, List.getElem?_set, hm]
      · simp [hd]

theorem readAt_writeAt_eq {N : Nat} (cs : List (Option (List α))) {i : Nat} (x : α) {l : List α}
    (hc : cs[i / N]? = some (some l)) (hl : i % N < l.length) :
    readAt N (writeAt N cs i x) i = some x := by
  unfold readAt
  rw [getElem?_writeAt, hc]
  simp [List.getElem?_set, hl]

theorem readAt_append_lt {N : Nat} (cs t : List (Option (List α))) {j : Nat} (h : j / N < cs.length) :
    readAt N (cs ++ t) j = readAt N cs j := by
  unfold readAt
  rw [List.getElem?_append_left h]

/-- every position inside the allocated room from the window start on can be read -/
theorem Inv.readable {N : Nat} {s : State α} (hN : 0 < N) (h : Inv N s) {j : Nat}
    (h1 : s.start ≤ j) (h2 : j < s.capacity) : ∃ l, s.chunks[j / N]? = some (some l) ∧ l.length = N := by
  apply h.present
  · exact Nat.div_le_div_right h1
  · apply Nat.div_lt_of_lt_mul
    rw [← h.cap]; exact h2

theorem Inv.elementAt_isSome {N : Nat} {s : State α} (hN : 0 < N) (h : Inv N s) {j : Nat}
    (h1 : s.start ≤ j) (h2 : j < s.capacity) : (elementAt N s j).isSome := by
  obtain ⟨l, hl, hlen⟩ := h.readable hN h1 h2
  unfold elementAt readAt
  rw [hl]
  have : j % N < l.length := by rw [hlen]; exact Nat.mod_lt _ hN
  simp [this]

/-! ### the view -/

theorem view_length (N : Nat) (s : State α) : (view N s).length = s.size := by simp [view]

theorem view_get (N : Nat) (s : State α) (i : Nat) :
    (view N s)[i]? = if i < s.size then some (elementAt N s (s.start + i)) else none := by
  unfold view
  by_cases h : i < s.size
  · simp [h]
  · simp [h]

theorem view_all_some {N : Nat} {s : State α} (hN : 0 < N) (h : Inv N s) : ∀ o ∈ view N s, o.isSome := by
  intro o ho
  unfold view at ho
  simp only [List.mem_map, List.mem_range] at ho
  obtain ⟨i, hi, rfl⟩ := ho
  exact h.elementAt_isSome hN (by omega) (by have := h.le; omega)

theorem view_eq_map_abs {N : Nat} {s : State α} (hN : 0 < N) (h : Inv N s) :
    view N s = (abs N s).map some :=
  eq_map_some_of_all_some _ (view_all_some hN h)

theorem abs_of_view {N : Nat} {s : State α} {l : List α} (h : view N s = l.map some) : abs N s = l := by
  unfold abs; rw [h]; exact reduceOption_map_some l

/-! ### push_back -/

theorem push_size (N : Nat) (d : α) (s : State α) (x : α) : (push N d s x).size = s.size + 1 := by
  unfold push; by_cases h : s.start + s.size = s.capacity <;> simp [h]

theorem push_start (N : Nat) (d : α) (s : State α) (x : α) : (push N d s x).start = s.start := by
  unfold push; by_cases h : s.start + s.size = s.capacity <;> simp [h]

/-- positions in front of the old end keep their element -/
theorem elementAt_push_lt {N : Nat} (hN : 0 < N) (d : α) {s : State α} (h : Inv N s) (x : α) {j : Nat}
    (hj : j < s.start + s.size) : elementAt N (push N d s x) j = elementAt N s j := by
  have hne : j ≠ s.start + s.size := by omega
  unfold push elementAt
  by_cases hc : s.start + s.size = s.capacity
  · simp only [hc, if_true]
    rw [← hc, readAt_writeAt_ne _ _ hne, readAt_append_lt]
    apply Nat.div_lt_of_lt_mul
    rw [← h.cap]; omega
  · simp only [hc, if_false]
    rw [readAt_writeAt_ne _ _ hne]

/-- the old end position holds the pushed element -/
theorem elementAt_push_end {N : Nat} (hN : 0 < N) (d : α) {s : State α} (h : Inv N s) (x : α) :
    elementAt N (push N d s x) (s.start + s.size) = some x := by
  unfold push elementAt
  by_cases hc : s.start + s.size = s.capacity
  · simp only [hc, if_true]
    have hd : s.capacity / N = s.chunks.length := by rw [h.cap]; exact Nat.mul_div_cancel_left _ hN
    have hm : s.capacity % N = 0 := by rw [h.cap]; exact Nat.mul_mod_right _ _
    apply readAt_writeAt_eq (l := List.replicate N d)
    · rw [hd]; simp
    · rw [hm]; simpa using hN
  · simp only [hc, if_false]
    have hlt : s.start + s.size < s.capacity := by have := h.le; omega
    obtain ⟨l, hl, hlen⟩ := h.readable hN (j := s.start + s.size) (by omega) hlt
    exact readAt_writeAt_eq _ _ hl (by rw [hlen]; exact Nat.mod_lt _ hN)

theorem view_push {N : Nat} (hN : 0 < N) (d : α) {s : State α} (h : Inv N s) (x : α) :
    view N (push N d s x) = view N s ++ [some x] := by
  apply List.ext_getElem?
  intro i
  rw [view_get, push_size, push_start]
  by_cases h1 : i < s.size
  · rw [List.getElem?_append_left (by rw [view_length]; exact h1), view_get]
    simp only [h1, show i < s.size + 1 by omega, if_true]
    rw [elementAt_push_lt hN d h x (by omega)]
  · by_cases h2 : i = s.size
    · subst h2
      rw [List.getElem?_append_right (by rw [view_length]; exact Nat.le_refl _), view_length]
      simp [elementAt_push_end hN d h x]
    · rw [List.getElem?_append_right (by rw [view_length]; omega), view_length]
      have : ¬ i < s.size + 1 := by omega
      simp only [this, if_false]
      have : i - s.size ≠ 0 := by omega
      cases hk : i - s.size with
      | zero => omega
      | succ k => simp

theorem inv_push {N : Nat} (hN : 0 < N) (d : α) {s : State α} (h : Inv N s) (x : α) : Inv N (push N d s x) := by
  by_cases hc : s.start + s.size = s.capacity
  · have e : push N d s x =
        { chunks := writeAt N (s.chunks ++ [some (List.replicate N d)]) (s.start + s.size) x,
          capacity := s.capacity + N, size := s.size + 1, start := s.start } := by
      unfold push; simp [hc]
    rw [e]
    refine ⟨?_, ?_, ?_, ?_⟩
    · simp [length_writeAt, h.cap, Nat.mul_add]
    · simp; omega
    · intro c h1 h2
      simp only [length_writeAt, List.length_append, List.length_singleton] at h2
      simp only [getElem?_writeAt]
      by_cases hcl : c < s.chunks.length
      · obtain ⟨l, hl, hlen⟩ := h.present c h1 hcl
        rw [List.getElem?_append_left hcl, hl]
        by_cases hd : (s.start + s.size) / N = c
        · exact ⟨l.set ((s.start + s.size) % N) x, by simp [hd], by simp [hlen]⟩
        · exact ⟨l, by simp [hd], hlen⟩
      · have hce : c = s.chunks.length := by omega
        subst hce
        rw [List.getElem?_append_right (Nat.le_refl _)]
        by_cases hd : (s.start + s.size) / N = s.chunks.length
        · exact ⟨(List.replicate N d).set ((s.start + s.size) % N) x, by simp [hd], by simp⟩
        · exact ⟨List.replicate N d, by simp [hd], by simp⟩
    · intro c h1 h2
      simp only [length_writeAt, List.length_append, List.length_singleton] at h2
      simp only [getElem?_writeAt]
      have hlt : c < s.chunks.length := by
        have h3 : s.start / N ≤ s.chunks.length := by
          have : s.start / N ≤ s.capacity / N := Nat.div_le_div_right (by have := h.le; omega)
          rw [h.cap, Nat.mul_div_cancel_left _ hN] at this
          exact this
        simp at h1
        omega
      rw [List.getElem?_append_left hlt, h.freed c h1 hlt]
      by_cases hd : (s.start + s.size) / N = c <;> simp [hd]
  · have e : push N d s x =
        { chunks := writeAt N s.chunks (s.start + s.size) x,
          capacity := s.capacity, size := s.size + 1, start := s.start } := by
      unfold push; simp [hc]
    rw [e]
    refine ⟨?_, ?_, ?_, ?_⟩
    · simp [length_writeAt, h.cap]
    · have := h.le; simp; omega
    · intro c h1 h2
      simp only [length_writeAt] at h2
      obtain ⟨l, hl, hlen⟩ := h.present c h1 h2
      simp only [getElem?_writeAt, hl]
      by_cases hd : (s.start + s.size) / N = c
      · exact ⟨l.set ((s.start + s.size) % N) x, by simp [hd], by simp [hlen]⟩
      · exact ⟨l, by simp [hd], hlen⟩
    · intro c h1 h2
      simp only [length_writeAt] at h2
      simp only [getElem?_writeAt, h.freed c h1 h2]
      by_cases hd : (s.start + s.size) / N = c <;> simp [hd]

/-! ### operator[] = x -/

theorem view_set {N : Nat} (hN : 0 < N) {s : State α} (h : Inv N s) {k : Nat} (hk : k < s.size) (x : α) :
    view N (set N s k x) = (view N s).set k (some x) := by
  apply List.ext_getElem?
  intro i
  rw [view_get, List.getElem?_set, view_length, view_get]
  have hst : (set N s k x).start = s.start := rfl
  have hsz : (set N s k x).size = s.size := rfl
  rw [hst, hsz]
  by_cases hi : i < s.size
  · simp only [hi, if_true]
    by_cases hik : k = i
    · subst hik
      simp only [if_true, hk]
      have hlt : s.start + k < s.capacity := by have := h.le; omega
      obtain ⟨l, hl, hlen⟩ := h.readable hN (j := s.start + k) (by omega) hlt
      unfold set elementAt
      simp only
      rw [readAt_writeAt_eq _ _ hl (by rw [hlen]; exact Nat.mod_lt _ hN)]
    · simp only [hik, if_false]
      unfold set elementAt
      simp only
      rw [readAt_writeAt_ne _ _ (by omega)]
  · have : k ≠ i := by omega
    simp [hi, this]

theorem inv_set {N : Nat} {s : State α} (h : Inv N s) (k : Nat) (x : α) : Inv N (set N s k x) := by
  refine ⟨?_, h.le, ?_, ?_⟩
  · simp [set, length_writeAt, h.cap]
  · intro c h1 h2
    simp only [set, length_writeAt] at h1 h2
    obtain ⟨l, hl, hlen⟩ := h.present c h1 h2
    simp only [set, getElem?_writeAt, hl]
    by_cases hd : (s.start + k) / N = c
    · exact ⟨l.set ((s.start + k) % N) x, by simp [hd], by simp [hlen]⟩
    · exact ⟨l, by simp [hd], hlen⟩
  · intro c h1 h2
    simp only [set, length_writeAt] at h1 h2
    simp only [set, getElem?_writeAt, h.freed c h1 h2]
    by_cases hd : (s.start + k) / N = c <;> simp [hd]

/-! ### eraseToHere -/

theorem length_freeLoop (cs : List (Option (List α))) (pcs k : Nat) : (freeLoop cs pcs k).length = cs.length := by
  induction k generalizing cs pcs with
  | zero => rfl
  | succ k ih => simp [freeLoop, ih]

/-- the loop resets exactly the chunks `[pcs-k, pcs)` -/
theorem getElem?_freeLoop (cs : List (Option (List α))) (pcs k c : Nat) (hk : k ≤ pcs) :
    (freeLoop cs pcs k)[c]? = if pcs - k ≤ c ∧ c < pcs then (cs[c]?).map (fun _ => none) else cs[c]? := by
  induction k generalizing cs pcs with
  | zero =>
    have : ¬ (pcs - 0 ≤ c ∧ c < pcs) := by omega
    rw [if_neg this]; rfl
  | succ k ih =>
    simp only [freeLoop]
    rw [ih _ _ (by omega), List.getElem?_set]
    by_cases h1 : pcs - 1 = c
    · subst h1
      have ha : ¬ (pcs - 1 - k ≤ pcs - 1 ∧ pcs - 1 < pcs - 1) := by omega
      have hb : (pcs - (k + 1) ≤ pcs - 1 ∧ pcs - 1 < pcs) := by omega
      rw [if_neg ha, if_pos hb, if_pos rfl]
      by_cases hl : pcs - 1 < cs.length
      · simp [hl]
      · simp [hl]
    · rw [if_neg h1]
      by_cases h2 : pcs - 1 - k ≤ c ∧ c < pcs - 1
      · have : pcs - (k + 1) ≤ c ∧ c < pcs := by omega
        rw [if_pos h2, if_pos this]
      · have : ¬ (pcs - (k + 1) ≤ c ∧ c < pcs) := by omega
        rw [if_neg h2, if_neg this]

/-- chunks from the new start's chunk on are untouched by `eraseToHere` -/
theorem erase_chunk_ge {N : Nat} (s : State α) {p c : Nat} (hp : s.start ≤ p) (hc : (p + 1) / N ≤ c) :
    (eraseToHere N s p).chunks[c]? = s.chunks[c]? := by
  unfold eraseToHere
  simp only
  rw [freed_count (by omega), getElem?_freeLoop _ _ _ _ (Nat.sub_le _ _)]
  have : ¬ ((p + 1) / N - ((p + 1) / N - s.start / N) ≤ c ∧ c < (p + 1) / N) := by omega
  rw [if_neg this]

/-- iterators positioned behind the erased range keep their element -/
theorem elementAt_erase {N : Nat} (s : State α) {p j : Nat} (hp : s.start ≤ p) (hj : p + 1 ≤ j) :
    elementAt N (eraseToHere N s p) j = elementAt N s j := by
  unfold elementAt readAt
  rw [erase_chunk_ge s hp (Nat.div_le_div_right hj)]

theorem erase_size (N : Nat) (s : State α) (p : Nat) : (eraseToHere N s p).size = s.size - (p + 1 - s.start) := rfl
theorem erase_start (N : Nat) (s : State α) (p : Nat) : (eraseToHere N s p).start = p + 1 := rfl

theorem view_erase {N : Nat} (s : State α) {p : Nat} (hp : s.start ≤ p) :
    view N (eraseToHere N s p) = (view N s).drop (p + 1 - s.start) := by
  apply List.ext_getElem?
  intro i
  rw [view_get, List.getElem?_drop, view_get, erase_size, erase_start]
  by_cases hi : i < s.size - (p + 1 - s.start)
  · have : p + 1 - s.start + i < s.size := by omega
    simp only [hi, this, if_true]
    rw [elementAt_erase s hp (by omega)]
    have : p + 1 + i = s.start + (p + 1 - s.start + i) := by omega
    rw [this]
  · have : ¬ p + 1 - s.start + i < s.size := by omega
    simp [hi, this]

theorem inv_erase {N : Nat} (hN : 0 < N) {s : State α} (h : Inv N s) {p : Nat} (hp : s.start ≤ p)
    (hp2 : p < s.start + s.size) : Inv N (eraseToHere N s p) := by
  have hq : s.start / N ≤ (p + 1) / N := Nat.div_le_div_right (by omega)
  refine ⟨?_, ?_, ?_, ?_⟩
  · simp [eraseToHere, length_freeLoop, h.cap]
  · have := h.le
    simp only [erase_size, erase_start]
    show p + 1 + (s.size - (p + 1 - s.start)) ≤ s.capacity
    omega
  · intro c h1 h2
    rw [erase_start] at h1
    have h2' : c < s.chunks.length := by simpa [eraseToHere, length_freeLoop] using h2
    rw [erase_chunk_ge s hp h1]
    exact h.present c (by omega) h2'
  · intro c h1 h2
    rw [erase_start] at h1
    have h2' : c < s.chunks.length := by simpa [eraseToHere, length_freeLoop] using h2
    unfold eraseToHere
    simp only
    rw [freed_count (by omega), getElem?_freeLoop _ _ _ _ (Nat.sub_le _ _)]
    by_cases hlow : c < s.start / N
    · rw [h.freed c hlow h2']
      by_cases hr : (p + 1) / N - ((p + 1) / N - s.start / N) ≤ c ∧ c < (p + 1) / N
      · rw [if_pos hr]; rfl
      · rw [if_neg hr]
    · have hr : (p + 1) / N - ((p + 1) / N - s.start / N) ≤ c ∧ c < (p + 1) / N := by omega
      rw [if_pos hr]
      obtain ⟨l, hl, _⟩ := h.present c (by omega) h2'
      simp [hl]

/-! ### purge -/

theorem purge_of_zero {N : Nat} {s : State α} (h : s.start / N = 0) : purge N s = s := by
  unfold purge; simp [h]

theorem purge_of_pos {N : Nat} {s : State α} (h : 0 < s.start / N) :
    purge N s = { chunks := (s.chunks.drop (s.start / N)).take ((s.start % N + s.size + N - 1) / N),
                  capacity := (s.start % N + s.size + N - 1) / N * N,
                  size := s.size, start := s.start % N } := by
  unfold purge; simp [h]

theorem purge_size (N : Nat) (s : State α) : (purge N s).size = s.size := by
  unfold purge; by_cases h : 0 < s.start / N <;> simp [h]

theorem purge_start (N : Nat) (s : State α) : (purge N s).start = s.start % N := by
  by_cases h : 0 < s.start / N
  · rw [purge_of_pos h]
  · have h0 : s.start / N = 0 := Nat.eq_zero_of_not_pos (by assumption)
    rw [purge_of_zero h0]
    have := Nat.div_add_mod s.start N
    rw [h0] at this
    simp at this
    exact this.symm

/-- the chunks needed by the live window fit behind the first `start/N` ones -/
theorem purge_fits {N : Nat} (hN : 0 < N) {s : State α} (h : Inv N s) :
    s.start / N + (s.start % N + s.size + N - 1) / N ≤ s.chunks.length := by
  have h1 : (s.start % N + s.size + N - 1 + N * (s.start / N)) / N
      = (s.start % N + s.size + N - 1) / N + s.start / N := Nat.add_mul_div_left _ _ hN
  have h2 : s.start % N + s.size + N - 1 + N * (s.start / N) = s.start + s.size + N - 1 := by
    have := Nat.div_add_mod s.start N
    omega
  have h3 : (s.start + s.size + N - 1) / N < s.chunks.length + 1 := by
    apply Nat.div_lt_of_lt_mul
    have := h.le
    have := h.cap
    rw [Nat.mul_add]
    omega
  rw [h2] at h1
  omega

/-- after `purge` position `j` shows what position `j + N·(start/N)` showed before -/
theorem elementAt_purge {N : Nat} (hN : 0 < N) {s : State α} {j : Nat}
    (hj : j / N < (s.start % N + s.size + N - 1) / N) :
    elementAt N (purge N s) j = elementAt N s (j + N * (s.start / N)) := by
  by_cases h : 0 < s.start / N
  · rw [purge_of_pos h]
    unfold elementAt readAt
    simp only
    rw [List.getElem?_take, if_pos hj, List.getElem?_drop, Nat.add_mul_div_left _ _ hN,
      Nat.add_mul_mod_self_left, Nat.add_comm (j / N)]
  · have h0 : s.start / N = 0 := Nat.eq_zero_of_not_pos (by assumption)
    rw [purge_of_zero h0, h0]
    simp

theorem view_purge {N : Nat} (hN : 0 < N) {s : State α} (h : Inv N s) : view N (purge N s) = view N s := by
  apply List.ext_getElem?
  intro i
  rw [view_get, view_get, purge_size, purge_start]
  by_cases hi : i < s.size
  · simp only [hi, if_true]
    rw [elementAt_purge hN]
    · have := Nat.div_add_mod s.start N
      have e : s.start % N + i + N * (s.start / N) = s.start + i := by omega
      rw [e]
    · apply Nat.div_lt_of_lt_mul
      have := le_ceil_mul hN (s.start % N + s.size)
      omega
  · simp [hi]

theorem inv_purge {N : Nat} (hN : 0 < N) {s : State α} (h : Inv N s) : Inv N (purge N s) := by
  by_cases hd : 0 < s.start / N
  · have hfit := purge_fits hN h
    rw [purge_of_pos hd]
    refine ⟨?_, ?_, ?_, ?_⟩
    · simp only [List.length_take, List.length_drop]
      rw [Nat.min_eq_left (by omega), Nat.mul_comm]
    · have := le_ceil_mul hN (s.start % N + s.size)
      simp only
      rw [Nat.mul_comm]
      exact this
    · intro c _ h2
      simp only [List.length_take, List.length_drop] at h2
      have hc : c < (s.start % N + s.size + N - 1) / N := by omega
      simp only [List.getElem?_take, hc, if_true, List.getElem?_drop]
      exact h.present _ (by omega) (by omega)
    · intro c h1 _
      simp only at h1
      have : s.start % N / N = 0 := Nat.div_eq_of_lt (Nat.mod_lt _ hN)
      omega
  · have h0 : s.start / N = 0 := Nat.eq_zero_of_not_pos (by assumption)
    rw [purge_of_zero h0]; exact h

/-! ### clear, empty -/

theorem inv_empty (N : Nat) : Inv N (empty : State α) := by
  refine ⟨by simp [empty], by simp [empty], ?_, ?_⟩ <;> intro c _ h2 <;> simp [empty] at h2

theorem inv_clear (N : Nat) (s : State α) : Inv N (clear s) := inv_empty N

theorem view_clear (N : Nat) (s : State α) : view N (clear s) = [] := by simp [view, clear]

/-! ### the abstract sequence -/

theorem abs_length {N : Nat} {s : State α} (hN : 0 < N) (h : Inv N s) : (abs N s).length = s.size := by
  have := congrArg List.length (view_eq_map_abs hN h)
  rw [view_length, List.length_map] at this
  exact this.symm

theorem abs_push {N : Nat} (hN : 0 < N) (d : α) {s : State α} (h : Inv N s) (x : α) :
    abs N (push N d s x) = abs N s ++ [x] := by
  apply abs_of_view
  rw [view_push hN d h x, view_eq_map_abs hN h]
  simp

theorem abs_erase {N : Nat} (hN : 0 < N) {s : State α} (h : Inv N s) {p : Nat} (hp : s.start ≤ p) :
    abs N (eraseToHere N s p) = (abs N s).drop (p + 1 - s.start) := by
  apply abs_of_view
  rw [view_erase s hp, view_eq_map_abs hN h, List.map_drop]

theorem abs_purge {N : Nat} (hN : 0 < N) {s : State α} (h : Inv N s) : abs N (purge N s) = abs N s := by
  unfold abs; rw [view_purge hN h]

theorem abs_set {N : Nat} (hN : 0 < N) {s : State α} (h : Inv N s) {k : Nat} (hk : k < s.size) (x : α) :
    abs N (set N s k x) = (abs N s).set k x := by
  apply abs_of_view
  rw [view_set hN h hk x, view_eq_map_abs hN h, List.map_set]

theorem abs_clear (N : Nat) (s : State α) : abs N (clear s) = [] := by
  unfold abs; rw [view_clear]; rfl

theorem get_eq_abs {N : Nat} {s : State α} (hN : 0 < N) (h : Inv N s) {i : Nat} (hi : i < s.size) :
    get N s i = (abs N s)[i]? := by
  have h1 := view_get N s i
  rw [if_pos hi, view_eq_map_abs hN h, List.getElem?_map] at h1
  unfold get
  cases hg : (abs N s)[i]? with
  | none => rw [hg] at h1; simp at h1
  | some a => rw [hg] at h1; simpa using h1.symm

/-- one operation of a history: the invariant is kept and the abstract sequence makes the same step -/
theorem step_refines {N : Nat} (hN : 0 < N) (d : α) {s : State α} (h : Inv N s) (o : Op α) :
    Inv N (step N d s o) ∧ abs N (step N d s o) = specStep (abs N s) o := by
  have hlen := abs_length hN h
  cases o with
  | push x => exact ⟨by simpa [step, Op.ok] using inv_push hN d h x, by simpa [step, Op.ok, specStep] using abs_push hN d h x⟩
  | purge => exact ⟨by simpa [step, Op.ok] using inv_purge hN h, by simpa [step, Op.ok, specStep] using abs_purge hN h⟩
  | clear => exact ⟨by simpa [step, Op.ok] using inv_clear N s, by simpa [step, Op.ok, specStep] using abs_clear N s⟩
  | erase k =>
    by_cases hk : k < s.size
    · have e : step N d s (.erase k) = eraseToHere N s (s.start + k) := by simp [step, Op.ok, hk]
      rw [e]
      refine ⟨inv_erase hN h (by omega) (by omega), ?_⟩
      rw [abs_erase hN h (by omega)]
      have : s.start + k + 1 - s.start = k + 1 := by omega
      simp [specStep, hlen, hk, this]
    · have e : step N d s (.erase k) = s := by simp [step, Op.ok, hk]
      rw [e]
      exact ⟨h, by simp [specStep, hlen, hk]⟩
  | set k x =>
    by_cases hk : k < s.size
    · have e : step N d s (.set k x) = set N s k x := by simp [step, Op.ok, hk]
      rw [e]
      exact ⟨inv_set h k x, by simpa [specStep] using abs_set hN h hk x⟩
    · have e : step N d s (.set k x) = s := by simp [step, Op.ok, hk]
      rw [e]
      refine ⟨h, ?_⟩
      simp only [specStep]
      rw [List.set_eq_of_length_le (by omega)]

theorem run_refines {N : Nat} (hN : 0 < N) (d : α) (ops : List (Op α)) :
    ∀ {s : State α}, Inv N s → Inv N (run N d s ops) ∧ abs N (run N d s ops) = specRun (abs N s) ops := by
  induction ops with
  | nil => intro s h; exact ⟨h, rfl⟩
  | cons o t ih =>
    intro s h
    obtain ⟨h1, h2⟩ := step_refines hN d h o
    have := ih h1
    simp only [run, specRun, List.foldl_cons] at this ⊢
    rw [h2] at this
    exact this

/-! ### copying (fixes/C11_arraylist_copy.patch) and histories over two lists -/

theorem copy_eq (s : State α) : copy s = s := by
  have hm : ∀ l : List (Option (List α)), l.map (fun c => c.map (fun a => a)) = l := by
    intro l
    induction l with
    | nil => rfl
    | cons c t ih => cases c <;> simp [ih]
  cases s
  simp only [copy, hm]

theorem step2_refines {N : Nat} (hN : 0 < N) (d : α) {w : World α} (ha : Inv N w.a) (hb : Inv N w.b) (o : Op2 α) :
    Inv N (step2 N d w o).a ∧ Inv N (step2 N d w o).b ∧
      ((abs N (step2 N d w o).a, abs N (step2 N d w o).b) = specStep2 (abs N w.a, abs N w.b) o) := by
  cases o with
  | on t o =>
    cases t with
    | a => obtain ⟨h1, h2⟩ := step_refines hN d ha o; exact ⟨h1, hb, by simp [step2, specStep2, h2]⟩
    | b => obtain ⟨h1, h2⟩ := step_refines hN d hb o; exact ⟨ha, h1, by simp [step2, specStep2, h2]⟩
  | copyFrom t =>
    cases t with
    | a => exact ⟨by simpa [step2, assign, copy_eq] using hb, hb, by simp [step2, specStep2, assign, copy_eq]⟩
    | b => exact ⟨ha, by simpa [step2, assign, copy_eq] using ha, by simp [step2, specStep2, assign, copy_eq]⟩
  | selfAssign t =>
    cases t with
    | a => exact ⟨ha, hb, by simp [step2, specStep2, assign]⟩
    | b => exact ⟨ha, hb, by simp [step2, specStep2, assign]⟩

theorem run2_refines {N : Nat} (hN : 0 < N) (d : α) (ops : List (Op2 α)) : ∀ {w : World α}, Inv N w.a → Inv N w.b →
    Inv N (run2 N d w ops).a ∧ Inv N (run2 N d w ops).b ∧
      (abs N (run2 N d w ops).a, abs N (run2 N d w ops).b) = specRun2 (abs N w.a, abs N w.b) ops := by
  induction ops with
  | nil => intro w ha hb; exact ⟨ha, hb, rfl⟩
  | cons o t ih =>
    intro w ha hb
    obtain ⟨h1, h2, h3⟩ := step2_refines hN d ha hb o
    have := ih h1 h2
    simp only [run2, specRun2, List.foldl_cons] at this ⊢
    rw [h3] at this
    exact this

/-! ### iterator validity over any number of appends -/

/-- `push_back` of a whole list of values -/
def pushAll (N : Nat) (d : α) (s : State α) (xs : List α) : State α := xs.foldl (push N d) s

theorem pushAll_stable {N : Nat} (hN : 0 < N) (d : α) (xs : List α) : ∀ {s : State α}, Inv N s →
    Inv N (pushAll N d s xs) ∧ (pushAll N d s xs).start = s.start ∧ (pushAll N d s xs).size = s.size + xs.length ∧
      ∀ p, p < endPos s → elementAt N (pushAll N d s xs) p = elementAt N s p := by
  induction xs with
  | nil => intro s h; exact ⟨h, rfl, rfl, fun _ _ => rfl⟩
  | cons x t ih =>
    intro s h
    have h1 := inv_push hN d h x
    obtain ⟨i1, i2, i3, i4⟩ := ih h1
    simp only [pushAll, List.foldl_cons] at i1 i2 i3 i4 ⊢
    refine ⟨i1, by rw [i2, push_start], by rw [i3, push_size]; simp; omega, ?_⟩
    intro p hp
    rw [i4 p (by simp [endPos, push_start, push_size] at hp ⊢; omega)]
    exact elementAt_push_lt hN d h x hp

end DV.C11.AL
