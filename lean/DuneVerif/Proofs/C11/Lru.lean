import DuneVerif.Model.C11.Lru
/-! Helper lemmas for the lru refinement (core Lean only). -/
namespace DV.C11.LRU

variable {κ ν : Type} [DecidableEq κ]

/-- no key occurs twice in the recency list -/
def NoDupKeys (s : State κ ν) : Prop := (s.data.map (·.2.1)).Nodup

/-- representation invariant: list nodes have distinct identities and distinct keys, the index maps exactly the
    stored keys to the node holding them, and the allocator never hands out a live identity again -/
structure Inv (s : State κ ν) : Prop where
  ids : (s.data.map (·.1)).Nodup
  keys : NoDupKeys s
  index : ∀ k id, idxFind s.index k = some id ↔ ∃ v, (id, k, v) ∈ s.data
  fresh : ∀ nd ∈ s.data, nd.1 < s.fresh

/-! ### generic list facts -/

theorem inj_of_nodup_map {α β : Type} (f : α → β) : ∀ {l : List α}, (l.map f).Nodup → ∀ {a b : α},
    a ∈ l → b ∈ l → f a = f b → a = b
  | [], _, _, _, ha, _, _ => by simp at ha
  | x :: t, h, a, b, ha, hb, hf => by
    rw [List.map_cons, List.nodup_cons] at h
    rcases List.mem_cons.mp ha with rfl | ha'
    · rcases List.mem_cons.mp hb with rfl | hb'
      · rfl
      · exact absurd (hf ▸ List.mem_map_of_mem (f := f) hb') h.1
    · rcases List.mem_cons.mp hb with rfl | hb'
      · exact absurd (hf ▸ List.mem_map_of_mem (f := f) ha') h.1
      · exact inj_of_nodup_map f h.2 ha' hb' hf

theorem find?_of_nodup_map {α β : Type} [DecidableEq β] (f : α → β) {l : List α} (h : (l.map f).Nodup) {a : α}
    (ha : a ∈ l) : l.find? (fun b => f b == f a) = some a := by
  induction l with
  | nil => simp at ha
  | cons x t ih =>
    rw [List.find?_cons]
    by_cases hx : f x = f a
    · have : x = a := inj_of_nodup_map f h (by simp) ha hx
      simp [this]
    · have hne : x ≠ a := fun e => hx (e ▸ rfl)
      have ha' : a ∈ t := by
        rcases List.mem_cons.mp ha with rfl | h'
        · exact absurd rfl hne
        · exact h'
      rw [List.map_cons, List.nodup_cons] at h
      have hb : (f x == f a) = false := beq_false_of_ne hx
      rw [hb]
      exact ih h.2 ha'

theorem filter_eq_singleton {α β : Type} [DecidableEq β] (f : α → β) {l : List α} (h : (l.map f).Nodup) {a : α}
    (ha : a ∈ l) : l.filter (fun b => f b == f a) = [a] := by
  induction l with
  | nil => simp at ha
  | cons x t ih =>
    rw [List.map_cons, List.nodup_cons] at h
    by_cases hx : f x = f a
    · have hxa : x = a := inj_of_nodup_map f (by rw [List.map_cons, List.nodup_cons]; exact h) (by simp) ha hx
      subst hxa
      have : t.filter (fun b => f b == f x) = [] := by
        rw [List.filter_eq_nil_iff]
        intro b hb hfb
        exact h.1 (by simp at hfb; exact hfb ▸ List.mem_map_of_mem (f := f) hb)
      simp [List.filter_cons, this]
    · have ha' : a ∈ t := by
        rcases List.mem_cons.mp ha with rfl | h'
        · exact absurd rfl hx
        · exact h'
      simp [List.filter_cons, hx, ih h.2 ha']

theorem length_filter_ne {α β : Type} [DecidableEq β] (f : α → β) {l : List α} (h : (l.map f).Nodup) {a : α}
    (ha : a ∈ l) : (l.filter (fun b => !(f b == f a))).length + 1 = l.length := by
  have hp := (List.filter_append_perm (fun b => f b == f a) l).length_eq
  rw [List.length_append, filter_eq_singleton f h ha] at hp
  simp at hp
  omega

/-! ### the index -/

theorem idxFind_cons (ix : List (κ × Nat)) (k0 : κ) (id0 : Nat) (k : κ) :
    idxFind ((k0, id0) :: ix) k = if k0 = k then some id0 else idxFind ix k := by
  unfold idxFind
  rw [List.find?_cons]
  by_cases h : k0 = k
  · have hb : (k0 == k) = true := by simp [h]
    simp [hb, h]
  · have hb : (k0 == k) = false := beq_false_of_ne h
    simp [hb, h]

theorem idxFind_erase (ix : List (κ × Nat)) (k0 k : κ) :
    idxFind (idxErase ix k0) k = if k = k0 then none else idxFind ix k := by
  unfold idxFind idxErase
  by_cases hk : k = k0
  · subst hk
    have : (ix.filter (fun e => !(e.1 == k))).find? (fun e => e.1 == k) = none := by
      rw [List.find?_eq_none]
      intro x hx
      have := (List.mem_filter.mp hx).2
      simpa using this
    simp [this]
  · rw [if_neg hk]
    congr 1
    induction ix with
    | nil => rfl
    | cons e t ih =>
      by_cases h0 : e.1 = k0
      · have hek : ¬ e.1 = k := fun h => hk (h ▸ h0)
        have hb : (e.1 == k) = false := beq_false_of_ne hek
        have hb0 : (e.1 == k0) = true := by simp [h0]
        simp only [List.filter_cons, List.find?_cons, hb0, hb, Bool.not_true, Bool.false_eq_true, if_false]
        exact ih
      · have hb0 : (e.1 == k0) = false := beq_false_of_ne h0
        simp only [List.filter_cons, List.find?_cons, hb0, Bool.not_false, if_true]
        by_cases hek : e.1 = k
        · have hb : (e.1 == k) = true := by simp [hek]
          simp only [hb]
        · have hb : (e.1 == k) = false := beq_false_of_ne hek
          simp only [hb]
          exact ih

/-! ### invariant transport along permutations of the node list -/

theorem Inv.of_perm {s t : State κ ν} (h : Inv s) (hp : t.data.Perm s.data) (hi : t.index = s.index)
    (hf : t.fresh = s.fresh) : Inv t := by
  refine ⟨?_, ?_, ?_, ?_⟩
  · exact ((hp.map (·.1)).nodup_iff).mpr h.ids
  · show (t.data.map (·.2.1)).Nodup
    exact ((hp.map (·.2.1)).nodup_iff).mpr (show (s.data.map (·.2.1)).Nodup from h.keys)
  · intro k id
    rw [hi, h.index]
    exact ⟨fun ⟨v, hv⟩ => ⟨v, hp.mem_iff.mpr hv⟩, fun ⟨v, hv⟩ => ⟨v, hp.mem_iff.mp hv⟩⟩
  · intro nd hnd
    rw [hf]
    exact h.fresh nd (hp.mem_iff.mp hnd)

/-- removing one node and erasing its key from the index keeps the invariant -/
theorem Inv.remove {s : State κ ν} (h : Inv s) {nd : Nat × κ × ν} {r : List (Nat × κ × ν)}
    (hp : s.data.Perm (nd :: r)) : Inv { data := r, index := idxErase s.index nd.2.1, fresh := s.fresh } := by
  have hids : ((nd :: r).map (·.1)).Nodup := ((hp.map (·.1)).nodup_iff).mp h.ids
  have hkeys : ((nd :: r).map (·.2.1)).Nodup :=
    ((hp.map (·.2.1)).nodup_iff).mp (show (s.data.map (·.2.1)).Nodup from h.keys)
  rw [List.map_cons, List.nodup_cons] at hids hkeys
  refine ⟨hids.2, hkeys.2, ?_, ?_⟩
  · intro k id
    simp only
    rw [idxFind_erase]
    by_cases hk : k = nd.2.1
    · subst hk
      simp only [if_true]
      constructor
      · intro h'; cases h'
      · rintro ⟨v, hv⟩
        exact absurd (List.mem_map_of_mem (f := fun x : Nat × κ × ν => x.2.1) hv) hkeys.1
    · simp only [hk, if_false]
      rw [h.index]
      constructor
      · rintro ⟨v, hv⟩
        have := hp.mem_iff.mp hv
        rcases List.mem_cons.mp this with e | hr
        · exact absurd (by rw [← e]) hk
        · exact ⟨v, hr⟩
      · rintro ⟨v, hv⟩
        exact ⟨v, hp.mem_iff.mpr (List.mem_cons_of_mem _ hv)⟩
  · intro x hx
    exact h.fresh x (hp.mem_iff.mpr (List.mem_cons_of_mem _ hx))

/-! ### splice to front -/

omit [DecidableEq κ] in
theorem find?_id {d : List (Nat × κ × ν)} (h : (d.map (·.1)).Nodup) {nd : Nat × κ × ν} (hnd : nd ∈ d) :
    d.find? (fun x => x.1 == nd.1) = some nd := find?_of_nodup_map (·.1) h hnd

theorem find?_key {d : List (Nat × κ × ν)} (h : (d.map (·.2.1)).Nodup) {nd : Nat × κ × ν} (hnd : nd ∈ d) :
    d.find? (fun x => x.2.1 == nd.2.1) = some nd := find?_of_nodup_map (·.2.1) h hnd

theorem spliceFront_eq {d : List (Nat × κ × ν)} (h : (d.map (·.1)).Nodup) {nd : Nat × κ × ν} (hnd : nd ∈ d) :
    spliceFront d nd.1 = nd :: d.filter (fun x => !(x.1 == nd.1)) := by
  unfold spliceFront; rw [find?_id h hnd]

theorem spliceFront_perm {d : List (Nat × κ × ν)} (h : (d.map (·.1)).Nodup) {nd : Nat × κ × ν} (hnd : nd ∈ d) :
    (spliceFront d nd.1).Perm d := by
  rw [spliceFront_eq h hnd]
  have hp := List.filter_append_perm (fun x : Nat × κ × ν => x.1 == nd.1) d
  rw [filter_eq_singleton (·.1) h hnd] at hp
  exact hp

/-- with distinct ids and keys, filtering out a node's id is filtering out its key -/
theorem filter_id_eq_filter_key {d : List (Nat × κ × ν)} (hi : (d.map (·.1)).Nodup) (hk : (d.map (·.2.1)).Nodup)
    {nd : Nat × κ × ν} (hnd : nd ∈ d) :
    d.filter (fun x => !(x.1 == nd.1)) = d.filter (fun x => !(x.2.1 == nd.2.1)) := by
  apply List.filter_congr
  intro x hx
  by_cases h1 : x.1 = nd.1
  · have : x = nd := inj_of_nodup_map (·.1) hi hx hnd h1
    simp [this]
  · have h2 : x.2.1 ≠ nd.2.1 := fun h2 => h1 (by rw [inj_of_nodup_map (·.2.1) hk hx hnd h2])
    have e1 : (x.1 == nd.1) = false := beq_false_of_ne h1
    have e2 : (x.2.1 == nd.2.1) = false := beq_false_of_ne h2
    simp only [e1, e2]

theorem abs_spliceFront {d : List (Nat × κ × ν)} (hi : (d.map (·.1)).Nodup) (hk : (d.map (·.2.1)).Nodup)
    {nd : Nat × κ × ν} (hnd : nd ∈ d) :
    (spliceFront d nd.1).map (·.2) = nd.2 :: (d.map (·.2)).filter (fun e => !(e.1 == nd.2.1)) := by
  rw [spliceFront_eq hi hnd, filter_id_eq_filter_key hi hk hnd, List.map_cons, List.filter_map]
  rfl

/-! ### overwrite the value of a node -/

theorem setValue_ids (d : List (Nat × κ × ν)) (id : Nat) (v : ν) : (setValue d id v).map (·.1) = d.map (·.1) := by
  unfold setValue
  rw [List.map_map]
  apply List.map_congr_left
  intro x _
  by_cases h : x.1 = id <;> simp [h]

theorem setValue_keys (d : List (Nat × κ × ν)) (id : Nat) (v : ν) : (setValue d id v).map (·.2.1) = d.map (·.2.1) := by
  unfold setValue
  rw [List.map_map]
  apply List.map_congr_left
  intro x _
  by_cases h : x.1 = id <;> simp [h]

theorem setValue_mem_iff (d : List (Nat × κ × ν)) (id : Nat) (w : ν) (i : Nat) (k : κ) :
    (∃ v, (i, k, v) ∈ setValue d id w) ↔ (∃ v, (i, k, v) ∈ d) := by
  unfold setValue
  constructor
  · rintro ⟨v, hv⟩
    obtain ⟨x, hx, hfx⟩ := List.mem_map.mp hv
    by_cases h : x.1 = id
    · simp [h] at hfx
      exact ⟨x.2.2, by
        have : x = (i, k, x.2.2) := by
          obtain ⟨a, b, c⟩ := x
          simp at hfx h ⊢
          exact ⟨by omega, hfx.2.1⟩
        rw [← this]; exact hx⟩
    · simp [h] at hfx
      exact ⟨v, hfx ▸ hx⟩
  · rintro ⟨v, hv⟩
    by_cases h : i = id
    · exact ⟨w, List.mem_map.mpr ⟨(i, k, v), hv, by simp [h]⟩⟩
    · exact ⟨v, List.mem_map.mpr ⟨(i, k, v), hv, by simp [h]⟩⟩

theorem setValue_mem_self {d : List (Nat × κ × ν)} {id : Nat} {k : κ} {v : ν} (h : (id, k, v) ∈ d) (w : ν) :
    (id, k, w) ∈ setValue d id w := by
  unfold setValue
  exact List.mem_map.mpr ⟨(id, k, v), h, by simp⟩

theorem setValue_filter (d : List (Nat × κ × ν)) (id : Nat) (w : ν) :
    (setValue d id w).filter (fun x => !(x.1 == id)) = d.filter (fun x => !(x.1 == id)) := by
  unfold setValue
  rw [List.filter_map]
  have h1 : ((fun x : Nat × κ × ν => !(x.1 == id)) ∘ fun nd : Nat × κ × ν => if nd.1 == id then (nd.1, nd.2.1, w) else nd)
      = fun x : Nat × κ × ν => !(x.1 == id) := by
    funext x
    by_cases h : x.1 = id <;> simp [h]
  rw [h1]
  conv => rhs; rw [← List.map_id (List.filter (fun x : Nat × κ × ν => !(x.1 == id)) d)]
  apply List.map_congr_left
  intro x hx
  have := (List.mem_filter.mp hx).2
  simp at this
  simp [this]

theorem Inv.setValue {s : State κ ν} (h : Inv s) (id : Nat) (w : ν) : Inv { s with data := setValue s.data id w } := by
  refine ⟨?_, ?_, ?_, ?_⟩
  · simpa [setValue_ids] using h.ids
  · simpa [NoDupKeys, setValue_keys] using h.keys
  · intro k i
    simp only
    rw [h.index, setValue_mem_iff]
  · intro nd hnd
    have : nd.1 ∈ (LRU.setValue s.data id w).map (·.1) := List.mem_map_of_mem (f := fun x : Nat × κ × ν => x.1) hnd
    rw [setValue_ids] at this
    obtain ⟨x, hx, hxe⟩ := List.mem_map.mp this
    have := h.fresh x hx
    show nd.1 < s.fresh
    omega

/-! ### the operations -/

theorem inv_empty : Inv (empty : State κ ν) := by
  refine ⟨by simp [empty], by simp [NoDupKeys, empty], ?_, ?_⟩
  · intro k id; simp [empty, idxFind]
  · intro nd h; simp [empty] at h

theorem key_absent_of_idxFind_none {s : State κ ν} (h : Inv s) {k : κ} (hk : idxFind s.index k = none) :
    ∀ e ∈ abs s, ¬ e.1 = k := by
  intro e he hek
  obtain ⟨nd, hnd, rfl⟩ := List.mem_map.mp he
  have : idxFind s.index k = some nd.1 := (h.index k nd.1).mpr ⟨nd.2.2, by
    obtain ⟨a, b, c⟩ := nd
    simp at hek
    subst hek
    exact hnd⟩
  rw [hk] at this
  cases this

theorem insert_refines {s : State κ ν} (h : Inv s) (k : κ) (v : ν) :
    Inv (insert s k v) ∧ abs (insert s k v) = specInsert (abs s) k v := by
  unfold insert
  cases hf : idxFind s.index k with
  | some id =>
    simp only
    obtain ⟨v0, hv0⟩ := (h.index k id).mp hf
    have h' := h.setValue id v
    have hmem : (id, k, v) ∈ setValue s.data id v := setValue_mem_self hv0 v
    refine ⟨?_, ?_⟩
    · exact Inv.of_perm h' (spliceFront_perm (nd := (id, k, v)) h'.ids hmem) rfl rfl
    · unfold abs specInsert
      simp only
      have e1 := spliceFront_eq (nd := (id, k, v)) h'.ids hmem
      simp only at e1
      rw [e1, setValue_filter, List.map_cons]
      have e2 := filter_id_eq_filter_key (nd := (id, k, v0)) h.ids h.keys hv0
      simp only at e2
      rw [e2, List.filter_map]
      rfl
  | none =>
    simp only
    have habs := key_absent_of_idxFind_none h hf
    refine ⟨⟨?_, ?_, ?_, ?_⟩, ?_⟩
    · simp only [List.map_cons, List.nodup_cons]
      refine ⟨?_, h.ids⟩
      intro hm
      obtain ⟨x, hx, hxe⟩ := List.mem_map.mp hm
      have := h.fresh x hx
      omega
    · simp only [NoDupKeys, List.map_cons, List.nodup_cons]
      refine ⟨?_, h.keys⟩
      intro hm
      obtain ⟨x, hx, hxe⟩ := List.mem_map.mp hm
      exact habs x.2 (List.mem_map_of_mem (f := fun y : Nat × κ × ν => y.2) hx) hxe
    · intro k' id'
      simp only [idxInsert, hf, Option.isSome_none, Bool.false_eq_true, if_false]
      rw [idxFind_cons]
      by_cases hk : k = k'
      · subst hk
        simp only [if_true]
        constructor
        · intro e; cases e; exact ⟨v, by simp⟩
        · rintro ⟨v', hv'⟩
          rcases List.mem_cons.mp hv' with e | hr
          · simp at e; rw [e.1]
          · exact absurd rfl (habs (k, v') (List.mem_map_of_mem (f := fun y : Nat × κ × ν => y.2) hr))
      · simp only [hk, if_false]
        rw [h.index]
        constructor
        · rintro ⟨v', hv'⟩; exact ⟨v', List.mem_cons_of_mem _ hv'⟩
        · rintro ⟨v', hv'⟩
          rcases List.mem_cons.mp hv' with e | hr
          · simp at e; exact absurd e.2.1.symm hk
          · exact ⟨v', hr⟩
    · intro nd hnd
      rcases List.mem_cons.mp hnd with e | hr
      · subst e; simp
      · have := h.fresh nd hr; simp; omega
    · unfold abs specInsert
      simp only [List.map_cons]
      congr 1
      symm
      rw [List.filter_eq_self]
      intro e he
      have := habs e he
      simp [this]

theorem touch_refines {s : State κ ν} (h : Inv s) (k : κ) :
    match touch s k with
    | none => specTouch (abs s) k = none
    | some (s', r) => Inv s' ∧ specTouch (abs s) k = some (abs s') ∧ r = ((abs s).find? (fun e => e.1 == k)).map (·.2) := by
  unfold touch
  cases hf : idxFind s.index k with
  | none =>
    simp only
    unfold specTouch
    have habs := key_absent_of_idxFind_none h hf
    have : (abs s).find? (fun e => e.1 == k) = none := by
      rw [List.find?_eq_none]; intro x hx; simpa using habs x hx
    rw [this]; rfl
  | some id =>
    simp only
    obtain ⟨v0, hv0⟩ := (h.index k id).mp hf
    have hperm := spliceFront_perm (nd := (id, k, v0)) h.ids hv0
    have hfind : (abs s).find? (fun e => e.1 == k) = some (k, v0) := by
      unfold abs
      rw [List.find?_map]
      have := find?_key (nd := (id, k, v0)) h.keys hv0
      simp only at this
      have e : ((fun e : κ × ν => e.1 == k) ∘ fun x : Nat × κ × ν => x.2) = fun x : Nat × κ × ν => x.2.1 == k := rfl
      rw [e, this]; rfl
    refine ⟨Inv.of_perm h hperm rfl rfl, ?_, ?_⟩
    · unfold specTouch
      rw [hfind]
      have := abs_spliceFront (nd := (id, k, v0)) h.ids h.keys hv0
      simp only at this
      simp only [abs, Option.map_some]
      rw [this]
    · rw [hfind]
      have hm : (id, k, v0) ∈ spliceFront s.data id := hperm.mem_iff.mpr hv0
      have hids : ((spliceFront s.data id).map (·.1)).Nodup := ((hperm.map (·.1)).nodup_iff).mpr h.ids
      have := find?_id (nd := (id, k, v0)) hids hm
      simp only at this
      rw [this]; rfl

theorem find_refines {s : State κ ν} (h : Inv s) (k : κ) : find s k = specFind (abs s) k := by
  unfold find specFind
  cases hf : idxFind s.index k with
  | none =>
    simp only
    have habs := key_absent_of_idxFind_none h hf
    symm
    rw [List.find?_eq_none]; intro x hx; simpa using habs x hx
  | some id =>
    simp only
    obtain ⟨v0, hv0⟩ := (h.index k id).mp hf
    have h1 := find?_id (nd := (id, k, v0)) h.ids hv0
    simp only at h1
    rw [h1]
    unfold abs
    rw [List.find?_map]
    have h2 := find?_key (nd := (id, k, v0)) h.keys hv0
    simp only at h2
    have e : ((fun e : κ × ν => e.1 == k) ∘ fun x : Nat × κ × ν => x.2) = fun x : Nat × κ × ν => x.2.1 == k := rfl
    rw [e, h2]

theorem popFront_refines {s : State κ ν} (h : Inv s) : Inv (popFront s) ∧ abs (popFront s) = (abs s).tail := by
  unfold popFront
  cases hd : s.data with
  | nil => simp only; exact ⟨h, by simp [abs, hd]⟩
  | cons nd rest =>
    simp only
    exact ⟨h.remove (by rw [hd]), by simp [abs, hd]⟩

theorem popBack_refines {s : State κ ν} (h : Inv s) : Inv (popBack s) ∧ abs (popBack s) = (abs s).dropLast := by
  unfold popBack
  cases hl : s.data.getLast? with
  | none =>
    simp only
    have : s.data = [] := by simpa using hl
    exact ⟨h, by simp [abs, this]⟩
  | some nd =>
    simp only
    obtain ⟨ys, hys⟩ := List.getLast?_eq_some_iff.mp hl
    refine ⟨?_, by simp [abs, List.map_dropLast]⟩
    apply h.remove
    rw [hys, List.dropLast_concat]
    exact List.perm_append_comm

omit [DecidableEq κ] in
theorem size_eq (s : State κ ν) : size s = (abs s).length := by simp [size, abs]

theorem resizeLoop_refines (n : Nat) : ∀ (fuel : Nat) {s : State κ ν}, Inv s → size s ≤ n + fuel →
    Inv (resizeLoop n fuel s) ∧ abs (resizeLoop n fuel s) = (abs s).take n
  | 0, s, h, hs => by
    simp only [resizeLoop]
    exact ⟨h, by rw [List.take_of_length_le]; rw [← size_eq]; omega⟩
  | fuel + 1, s, h, hs => by
    simp only [resizeLoop]
    by_cases hn : n < size s
    · simp only [hn, if_true]
      obtain ⟨h1, h2⟩ := popBack_refines h
      have hsz : size (popBack s) = size s - 1 := by rw [size_eq, h2, size_eq]; simp
      obtain ⟨h3, h4⟩ := resizeLoop_refines n fuel h1 (by omega)
      refine ⟨h3, ?_⟩
      rw [h4, h2, List.dropLast_eq_take, List.take_take, ← size_eq]
      rw [Nat.min_eq_left (by omega)]
    · simp only [hn, if_false]
      exact ⟨h, by rw [List.take_of_length_le]; rw [← size_eq]; omega⟩

theorem resize_refines {s : State κ ν} (h : Inv s) (n : Nat) : Inv (resize s n) ∧ abs (resize s n) = (abs s).take n :=
  resizeLoop_refines n (size s) h (by omega)

theorem clear_refines (s : State κ ν) (_h : Inv s) : Inv (clear s) ∧ abs (clear s) = [] := by
  refine ⟨⟨by simp [clear], by simp [NoDupKeys, clear], ?_, ?_⟩, by simp [clear, abs]⟩
  · intro k id; simp [clear, idxFind]
  · intro nd hnd; simp [clear] at hnd

theorem step_refines {s : State κ ν} (h : Inv s) (o : Op κ ν) :
    Inv (step s o) ∧ abs (step s o) = specStep (abs s) o := by
  cases o with
  | insert k v => simpa [step, Op.ok, specStep] using insert_refines h k v
  | touch k =>
    have := touch_refines h k
    simp only [step, Op.ok, if_true, specStep]
    cases ht : touch s k with
    | none => rw [ht] at this; simp only at this; simp [this, h]
    | some r => rw [ht] at this; simp only at this; simp [this.1, this.2.1]
  | popFront =>
    by_cases hs : 0 < size s
    · simpa [step, Op.ok, hs, specStep] using popFront_refines h
    · have : s.data = [] := by simpa [size] using hs
      simp [step, Op.ok, hs, specStep, h, abs, this]
  | popBack =>
    by_cases hs : 0 < size s
    · simpa [step, Op.ok, hs, specStep] using popBack_refines h
    · have : s.data = [] := by simpa [size] using hs
      simp [step, Op.ok, hs, specStep, h, abs, this]
  | resize n =>
    by_cases hs : n ≤ size s
    · have hl : n ≤ (abs s).length := by rw [← size_eq]; exact hs
      simpa [step, Op.ok, hs, specStep, hl] using resize_refines h n
    · have hl : ¬ n ≤ (abs s).length := by rw [← size_eq]; exact hs
      simp [step, Op.ok, hs, specStep, hl, h]
  | clear => simpa [step, Op.ok, specStep] using clear_refines s h

theorem run_refines (ops : List (Op κ ν)) :
    ∀ {s : State κ ν}, Inv s → Inv (run s ops) ∧ abs (run s ops) = specRun (abs s) ops := by
  induction ops with
  | nil => intro s h; exact ⟨h, rfl⟩
  | cons o t ih =>
    intro s h
    obtain ⟨h1, h2⟩ := step_refines h o
    have := ih h1
    simp only [run, specRun, List.foldl_cons] at this ⊢
    rw [h2] at this
    exact this

/-! ### copying (fixes/C11_lru_copy.patch) and histories over two caches -/

theorem idxFind_idxInsert (ix : List (κ × Nat)) (k0 : κ) (id0 : Nat) (k : κ) :
    idxFind (idxInsert ix k0 id0) k =
      if (idxFind ix k0).isSome then idxFind ix k else if k0 = k then some id0 else idxFind ix k := by
  unfold idxInsert
  by_cases h : (idxFind ix k0).isSome
  · simp [h]
  · simp only [h, Bool.false_eq_true, if_false]; exact idxFind_cons ix k0 id0 k

theorem idxFind_rebuild_aux (d : List (Nat × κ × ν)) : ∀ (ix : List (κ × Nat)) (k : κ),
    idxFind (d.foldl (fun ix nd => idxInsert ix nd.2.1 nd.1) ix) k =
      match idxFind ix k with
      | some id => some id
      | none => (d.find? (fun nd => nd.2.1 == k)).map (·.1) := by
  induction d with
  | nil => intro ix k; simp only [List.foldl_nil, List.find?_nil, Option.map_none]; cases idxFind ix k <;> rfl
  | cons nd t ih =>
    intro ix k
    simp only [List.foldl_cons]
    rw [ih, idxFind_idxInsert, List.find?_cons]
    by_cases hk : nd.2.1 = k
    · have hb : (nd.2.1 == k) = true := by simp [hk]
      cases h0 : idxFind ix nd.2.1 with
      | some id => rw [hk] at h0; simp [h0, hk]
      | none => rw [hk] at h0; simp [h0, hk]
    · have hb : (nd.2.1 == k) = false := beq_false_of_ne hk
      by_cases h : (idxFind ix nd.2.1).isSome
      · simp [h, hb]
      · simp [h, hk, hb]

/-- the rebuilt index maps a key to the first node carrying it -/
theorem idxFind_rebuildIndex (d : List (Nat × κ × ν)) (k : κ) :
    idxFind (rebuildIndex d) k = (d.find? (fun nd => nd.2.1 == k)).map (·.1) := by
  have := idxFind_rebuild_aux d [] k
  simpa [rebuildIndex, idxFind] using this

theorem copy_refines {s : State κ ν} (h : Inv s) : Inv (copy s) ∧ abs (copy s) = abs s := by
  refine ⟨⟨h.ids, h.keys, ?_, h.fresh⟩, rfl⟩
  intro k id
  show idxFind (rebuildIndex s.data) k = some id ↔ _
  rw [idxFind_rebuildIndex]
  constructor
  · intro hf
    cases hfd : s.data.find? (fun nd => nd.2.1 == k) with
    | none => rw [hfd] at hf; simp at hf
    | some nd =>
      rw [hfd] at hf
      have hm := List.mem_of_find?_eq_some hfd
      have hk := List.find?_some hfd
      obtain ⟨a, b, c⟩ := nd
      simp only [Option.map_some, Option.some.injEq, beq_iff_eq] at hk hf
      subst hk; subst hf
      exact ⟨c, hm⟩
  · rintro ⟨v, hm⟩
    have := find?_key h.keys hm
    simp only at this
    rw [this]; rfl

theorem assign_refines {s : State κ ν} (h : Inv s) (o : Option (State κ ν)) (ho : ∀ t, o = some t → Inv t) :
    Inv (assign s o) ∧ abs (assign s o) = match o with | none => abs s | some t => abs t := by
  cases o with
  | none => exact ⟨h, rfl⟩
  | some t => exact copy_refines (ho t rfl)

theorem step2_refines {w : World κ ν} (ha : Inv w.a) (hb : Inv w.b) (o : Op2 κ ν) :
    Inv (step2 w o).a ∧ Inv (step2 w o).b ∧
      ((abs (step2 w o).a, abs (step2 w o).b) = specStep2 (abs w.a, abs w.b) o) := by
  cases o with
  | on t o =>
    cases t with
    | a => obtain ⟨h1, h2⟩ := step_refines ha o; exact ⟨h1, hb, by simp [step2, specStep2, h2]⟩
    | b => obtain ⟨h1, h2⟩ := step_refines hb o; exact ⟨ha, h1, by simp [step2, specStep2, h2]⟩
  | copyFrom t =>
    cases t with
    | a => obtain ⟨h1, h2⟩ := copy_refines hb; exact ⟨h1, hb, by simp [step2, specStep2, assign, h2]⟩
    | b => obtain ⟨h1, h2⟩ := copy_refines ha; exact ⟨ha, h1, by simp [step2, specStep2, assign, h2]⟩
  | selfAssign t =>
    cases t with
    | a => exact ⟨ha, hb, by simp [step2, specStep2, assign]⟩
    | b => exact ⟨ha, hb, by simp [step2, specStep2, assign]⟩

theorem run2_refines (ops : List (Op2 κ ν)) : ∀ {w : World κ ν}, Inv w.a → Inv w.b →
    Inv (run2 w ops).a ∧ Inv (run2 w ops).b ∧
      (abs (run2 w ops).a, abs (run2 w ops).b) = specRun2 (abs w.a, abs w.b) ops := by
  induction ops with
  | nil => intro w ha hb; exact ⟨ha, hb, rfl⟩
  | cons o t ih =>
    intro w ha hb
    obtain ⟨h1, h2, h3⟩ := step2_refines ha hb o
    have := ih h1 h2
    simp only [run2, specRun2, List.foldl_cons] at this ⊢
    rw [h3] at this
    exact this

end DV.C11.LRU
