import DuneVerif.Model.C11.SLList
import DuneVerif.Proofs.C11.Lru
/-! Helper lemmas for the SLList refinement (core Lean only; reuses two list lemmas of the lru file). -/
namespace DV.C11.SL

variable {α : Type}

/-- pointer to the element in front of chain position `j` (the sentinel for `j = 0`) -/
def ptrBefore (nodes : List (Nat × α)) : Nat → Ptr
  | 0 => .head
  | j + 1 => ptrOfIdx nodes j

/-- pointer to the last element, the sentinel for the empty chain -/
def lastPtr (nodes : List (Nat × α)) : Ptr :=
  match nodes.getLast? with
  | some nd => .node nd.1
  | none => .head

/-- representation invariant: element identities are distinct and older than the allocator counter,
    `tail_` names the last element (the sentinel iff the list is empty), `size_` is the chain length -/
structure Inv (s : State α) : Prop where
  ids : (s.nodes.map (·.1)).Nodup
  fresh : ∀ nd ∈ s.nodes, nd.1 < s.fresh
  tail : s.tail = lastPtr s.nodes
  size : s.size = s.nodes.length

/-! ### locating elements -/

theorem idxOf_cons (nd : Nat × α) (t : List (Nat × α)) (id : Nat) :
    idxOf (nd :: t) id = if nd.1 = id then some 0 else (idxOf t id).map (· + 1) := by
  unfold idxOf
  rw [List.findIdx?_cons]
  by_cases h : nd.1 = id <;> simp [h]

theorem idxOf_getElem : ∀ {nodes : List (Nat × α)}, (nodes.map (·.1)).Nodup → ∀ {j : Nat} {nd : Nat × α},
    nodes[j]? = some nd → idxOf nodes nd.1 = some j
  | [], _, j, nd, h => by simp at h
  | x :: t, hn, 0, nd, h => by
    simp at h; subst h; rw [idxOf_cons]; simp
  | x :: t, hn, j + 1, nd, h => by
    rw [List.map_cons, List.nodup_cons] at hn
    simp at h
    have hmem : nd ∈ t := List.mem_of_getElem? h
    have hne : x.1 ≠ nd.1 := fun e => hn.1 (e ▸ List.mem_map_of_mem (f := fun y : Nat × α => y.1) hmem)
    rw [idxOf_cons, if_neg hne, idxOf_getElem hn.2 h]; rfl

theorem idxOf_some : ∀ {nodes : List (Nat × α)} {id j : Nat}, idxOf nodes id = some j →
    ∃ nd, nodes[j]? = some nd ∧ nd.1 = id
  | [], id, j, h => by simp [idxOf] at h
  | x :: t, id, j, h => by
    rw [idxOf_cons] at h
    by_cases hx : x.1 = id
    · rw [if_pos hx] at h; cases h; exact ⟨x, by simp, hx⟩
    · rw [if_neg hx] at h
      cases ht : idxOf t id with
      | none => rw [ht] at h; simp at h
      | some j' =>
        rw [ht] at h; simp at h; subst h
        obtain ⟨nd, h1, h2⟩ := idxOf_some ht
        exact ⟨nd, by simpa using h1, h2⟩

theorem ptrOfIdx_of_get {nodes : List (Nat × α)} {j : Nat} {nd : Nat × α} (h : nodes[j]? = some nd) :
    ptrOfIdx nodes j = .node nd.1 := by simp [ptrOfIdx, h]

theorem ptrOfIdx_of_ge {nodes : List (Nat × α)} {j : Nat} (h : nodes.length ≤ j) : ptrOfIdx nodes j = .null := by
  simp [ptrOfIdx, List.getElem?_eq_none h]

theorem ptrOfIdx_ne_null_iff {nodes : List (Nat × α)} {j : Nat} : ptrOfIdx nodes j ≠ .null ↔ j < nodes.length := by
  by_cases h : j < nodes.length
  · simp [ptrOfIdx, List.getElem?_eq_getElem h, h]
  · simp [ptrOfIdx_of_ge (Nat.le_of_not_lt h), h]

theorem posAfter_ptrBefore {nodes : List (Nat × α)} (hn : (nodes.map (·.1)).Nodup) {j : Nat} (hj : j ≤ nodes.length) :
    posAfter nodes (ptrBefore nodes j) = some j := by
  cases j with
  | zero => rfl
  | succ j =>
    have hlt : j < nodes.length := hj
    have hg : nodes[j]? = some nodes[j] := List.getElem?_eq_getElem hlt
    simp only [ptrBefore, ptrOfIdx_of_get hg, posAfter, idxOf_getElem hn hg, Option.map_some]

theorem posAfter_some {nodes : List (Nat × α)} {p : Ptr} {j : Nat} (h : posAfter nodes p = some j) :
    p = ptrBefore nodes j ∧ j ≤ nodes.length := by
  cases p with
  | head => simp [posAfter] at h; subst h; exact ⟨rfl, Nat.zero_le _⟩
  | null => simp [posAfter] at h
  | node id =>
    simp only [posAfter] at h
    cases hi : idxOf nodes id with
    | none => rw [hi] at h; simp at h
    | some j' =>
      rw [hi] at h; simp at h; subst h
      obtain ⟨nd, h1, h2⟩ := idxOf_some hi
      refine ⟨by simp [ptrBefore, ptrOfIdx_of_get h1, h2], ?_⟩
      have : j' < nodes.length := by
        rcases Nat.lt_or_ge j' nodes.length with h | h
        · exact h
        · rw [List.getElem?_eq_none h] at h1; cases h1
      omega

theorem next_ptrBefore {s : State α} (hn : (s.nodes.map (·.1)).Nodup) {j : Nat} (hj : j ≤ s.nodes.length) :
    next s (ptrBefore s.nodes j) = ptrOfIdx s.nodes j := by
  simp [next, posAfter_ptrBefore hn hj]

theorem next_ptrOfIdx {s : State α} (hn : (s.nodes.map (·.1)).Nodup) (j : Nat) :
    next s (ptrOfIdx s.nodes j) = ptrOfIdx s.nodes (j + 1) := by
  by_cases hj : j < s.nodes.length
  · exact next_ptrBefore hn (j := j + 1) hj
  · have h1 := ptrOfIdx_of_ge (Nat.le_of_not_lt hj)
    have h2 : ptrOfIdx s.nodes (j + 1) = .null := ptrOfIdx_of_ge (by omega)
    rw [h1, h2]; simp [next, posAfter]

theorem ptrAt_eq {s : State α} (hn : (s.nodes.map (·.1)).Nodup) : ∀ k, ptrAt s k = ptrOfIdx s.nodes k
  | 0 => next_ptrBefore hn (j := 0) (Nat.zero_le _)
  | k + 1 => by rw [ptrAt, ptrAt_eq hn k, next_ptrOfIdx hn]

theorem lastPtr_eq (nodes : List (Nat × α)) : lastPtr nodes = ptrBefore nodes nodes.length := by
  unfold lastPtr
  rw [List.getLast?_eq_getElem?]
  cases nodes with
  | nil => rfl
  | cons x t =>
    have hlt : t.length < (x :: t).length := by simp
    simp only [List.length_cons, Nat.add_sub_cancel, ptrBefore, ptrOfIdx]
    rw [List.getElem?_eq_getElem hlt]

theorem item_ptrOfIdx {s : State α} (hn : (s.nodes.map (·.1)).Nodup) (j : Nat) :
    item s (ptrOfIdx s.nodes j) = (items s)[j]? := by
  unfold items
  rw [List.getElem?_map]
  cases hg : s.nodes[j]? with
  | none => simp [ptrOfIdx, hg, item]
  | some nd =>
    rw [ptrOfIdx_of_get hg]
    have hmem : nd ∈ s.nodes := List.mem_of_getElem? hg
    have := LRU.find?_of_nodup_map (fun y : Nat × α => y.1) hn hmem
    simp only [item, this, Option.map_some]

/-! ### the chain with one element inserted / removed -/

theorem insert_perm (nodes : List (Nat × α)) (j : Nat) (nd : Nat × α) :
    (nodes.take j ++ nd :: nodes.drop j).Perm (nd :: nodes) := by
  have := List.perm_middle (a := nd) (l₁ := nodes.take j) (l₂ := nodes.drop j)
  rwa [List.take_append_drop] at this

theorem remove_perm {nodes : List (Nat × α)} {j : Nat} (hj : j < nodes.length) :
    nodes.Perm (nodes[j] :: (nodes.take j ++ nodes.drop (j + 1))) := by
  have h1 : nodes = nodes.take j ++ nodes[j] :: nodes.drop (j + 1) := by
    rw [← List.drop_eq_getElem_cons hj, List.take_append_drop]
  have h2 := List.perm_middle (a := nodes[j]) (l₁ := nodes.take j) (l₂ := nodes.drop (j + 1))
  rw [← h1] at h2
  exact h2

theorem ptrBefore_take {nodes : List (Nat × α)} (j : Nat) : ptrBefore (nodes.take j) j = ptrBefore nodes j := by
  cases j with
  | zero => rfl
  | succ j => simp [ptrBefore, ptrOfIdx, List.getElem?_take]

theorem lastPtr_insert (nodes : List (Nat × α)) {j : Nat} (nd : Nat × α) :
    lastPtr (nodes.take j ++ nd :: nodes.drop j) = if j ≥ nodes.length then .node nd.1 else lastPtr nodes := by
  unfold lastPtr
  rw [List.getLast?_append, List.getLast?_cons, List.getLast?_drop]
  by_cases h : nodes.length ≤ j
  · simp [h]
  · simp only [h, if_false, ge_iff_le]
    cases hl : nodes.getLast? with
    | none =>
      have : nodes = [] := List.getLast?_eq_none_iff.mp hl
      subst this; simp at h
    | some x => simp

theorem lastPtr_remove {nodes : List (Nat × α)} {j : Nat} (hj : j < nodes.length) :
    lastPtr (nodes.take j ++ nodes.drop (j + 1)) = if j + 1 = nodes.length then ptrBefore nodes j else lastPtr nodes := by
  by_cases h : j + 1 = nodes.length
  · have hd : nodes.drop (j + 1) = [] := List.drop_eq_nil_of_le (by omega)
    rw [hd, List.append_nil, if_pos h, lastPtr_eq, ← ptrBefore_take j]
    congr 1
    simp; omega
  · rw [if_neg h]
    unfold lastPtr
    rw [List.getLast?_append, List.getLast?_drop]
    have : ¬ nodes.length ≤ j + 1 := by omega
    simp only [this, if_false]
    cases hl : nodes.getLast? with
    | none =>
      have : nodes = [] := List.getLast?_eq_none_iff.mp hl
      subst this; simp at hj
    | some x => simp

/-! ### push_back, push_front -/

theorem inv_empty : Inv (empty : State α) := ⟨by simp [empty], by simp [empty], rfl, rfl⟩

theorem posAfter_tail {s : State α} (h : Inv s) : posAfter s.nodes s.tail = some s.nodes.length := by
  rw [h.tail, lastPtr_eq]; exact posAfter_ptrBefore h.ids (Nat.le_refl _)

theorem fresh_not_mem {s : State α} (h : Inv s) : s.fresh ∉ s.nodes.map (·.1) := by
  intro hm
  obtain ⟨x, hx, hxe⟩ := List.mem_map.mp hm
  have := h.fresh x hx
  omega

theorem pushBack_refines {s : State α} (h : Inv s) (x : α) :
    Inv (pushBack s x) ∧ items (pushBack s x) = items s ++ [x] := by
  unfold pushBack
  simp only [posAfter_tail h, List.take_length]
  refine ⟨⟨?_, ?_, ?_, ?_⟩, by simp [items]⟩
  · simp only [List.map_append, List.map_cons, List.map_nil]
    rw [List.nodup_append]
    refine ⟨h.ids, by simp, ?_⟩
    intro a ha b hb
    simp at hb; subst hb
    exact fun e => fresh_not_mem h (e ▸ ha)
  · intro nd hnd
    simp only [List.mem_append, List.mem_singleton] at hnd
    rcases hnd with hnd | rfl
    · have := h.fresh nd hnd; simp; omega
    · simp
  · simp [lastPtr]
  · simp [h.size]

theorem tail_eq_head_iff {s : State α} (h : Inv s) : s.tail = .head ↔ s.nodes = [] := by
  rw [h.tail]
  unfold lastPtr
  cases hl : s.nodes.getLast? with
  | none => simp [List.getLast?_eq_none_iff.mp hl]
  | some x =>
    simp only [reduceCtorEq, false_iff]
    intro e; rw [e] at hl; simp at hl

theorem pushFront_refines {s : State α} (h : Inv s) (x : α) :
    Inv (pushFront s x) ∧ items (pushFront s x) = x :: items s := by
  unfold pushFront
  by_cases ht : s.tail = .head
  · have hn := (tail_eq_head_iff h).mp ht
    have hsz : s.size = 0 := by rw [h.size, hn]; rfl
    simp only [ht, beq_self_eq_true, if_true]
    exact ⟨⟨by simp, by simp, by simp [lastPtr], by simp [hsz]⟩, by simp [items, hn]⟩
  · have hb : (s.tail == Ptr.head) = false := beq_false_of_ne ht
    have hne : s.nodes ≠ [] := fun e => ht ((tail_eq_head_iff h).mpr e)
    simp only [hb, Bool.false_eq_true, if_false]
    refine ⟨⟨?_, ?_, ?_, by simp [h.size]⟩, by simp [items]⟩
    · simp only [List.map_cons, List.nodup_cons]; exact ⟨fresh_not_mem h, h.ids⟩
    · intro nd hnd
      rcases List.mem_cons.mp hnd with rfl | hnd
      · simp
      · have := h.fresh nd hnd; simp; omega
    · rw [h.tail]
      unfold lastPtr
      rw [List.getLast?_cons]
      cases hl : s.nodes.getLast? with
      | none => exact absurd (List.getLast?_eq_none_iff.mp hl) hne
      | some y => simp

/-! ### insertAfter, deleteNext -/

theorem insertAfter_refines {s : State α} (h : Inv s) {j : Nat} (hj : j ≤ s.nodes.length) (x : α) :
    Inv (insertAfter s (ptrBefore s.nodes j) x) ∧
      items (insertAfter s (ptrBefore s.nodes j) x) = (items s).take j ++ x :: (items s).drop j ∧
      (insertAfter s (ptrBefore s.nodes j) x).nodes = s.nodes.take j ++ (s.fresh, x) :: s.nodes.drop j := by
  unfold insertAfter
  simp only [posAfter_ptrBefore h.ids hj]
  have hp := insert_perm s.nodes j (s.fresh, x)
  refine ⟨⟨?_, ?_, ?_, ?_⟩, by simp [items, List.map_take, List.map_drop], by first | rfl | trivial⟩
  · rw [(hp.map (·.1)).nodup_iff, List.map_cons, List.nodup_cons]
    exact ⟨fresh_not_mem h, h.ids⟩
  · intro nd hnd
    rcases List.mem_cons.mp (hp.mem_iff.mp hnd) with rfl | hnd
    · simp
    · have := h.fresh nd hnd; simp; omega
  · simp only
    rw [lastPtr_insert, h.tail]
  · have := hp.length_eq
    simp only [List.length_cons] at this
    simp only [h.size, this]; omega

theorem deleteNext_refines {s : State α} (h : Inv s) {j : Nat} (hj : j < s.nodes.length) :
    Inv (deleteNext true s (ptrBefore s.nodes j)) ∧
      items (deleteNext true s (ptrBefore s.nodes j)) = (items s).take j ++ (items s).drop (j + 1) ∧
      (deleteNext true s (ptrBefore s.nodes j)).nodes = s.nodes.take j ++ s.nodes.drop (j + 1) := by
  unfold deleteNext
  have hg : s.nodes[j]? = some s.nodes[j] := List.getElem?_eq_getElem hj
  simp only [posAfter_ptrBefore h.ids (Nat.le_of_lt hj), hg]
  have hp := remove_perm hj
  have hids : ((s.nodes[j] :: (s.nodes.take j ++ s.nodes.drop (j + 1))).map (·.1)).Nodup :=
    ((hp.map (·.1)).nodup_iff).mp h.ids
  rw [List.map_cons, List.nodup_cons] at hids
  refine ⟨⟨hids.2, ?_, ?_, ?_⟩, by simp [items, List.map_take, List.map_drop], by first | rfl | trivial⟩
  · intro nd hnd
    exact h.fresh nd (hp.mem_iff.mpr (List.mem_cons_of_mem _ hnd))
  · simp only [Bool.true_and]
    rw [lastPtr_remove hj]
    by_cases hlast : j + 1 = s.nodes.length
    · have hl : s.tail = .node s.nodes[j].1 := by
        rw [h.tail, lastPtr_eq, ← hlast]
        simp [ptrBefore, ptrOfIdx_of_get hg]
      simp [hl, hlast]
    · have hl : s.tail ≠ .node s.nodes[j].1 := by
        rw [h.tail, lastPtr_eq]
        have hm : s.nodes.length - 1 < s.nodes.length := by omega
        have hgm : s.nodes[s.nodes.length - 1]? = some s.nodes[s.nodes.length - 1] := List.getElem?_eq_getElem hm
        have e : s.nodes.length = (s.nodes.length - 1) + 1 := by omega
        rw [e]
        simp only [ptrBefore, ptrOfIdx_of_get hgm]
        intro hc
        have hc' : s.nodes[s.nodes.length - 1 + 1 - 1].1 = s.nodes[j].1 := by injection hc
        have i1 := idxOf_getElem h.ids hgm
        have i2 := idxOf_getElem h.ids hg
        simp only [Nat.add_sub_cancel] at hc'
        rw [hc'] at i1
        rw [i1] at i2
        injection i2 with i2
        omega
      have hb : (s.tail == Ptr.node s.nodes[j].1) = false := beq_false_of_ne hl
      rw [if_neg hlast]
      simp only [hb, Bool.false_eq_true, if_false]
      exact h.tail
  · have := hp.length_eq
    simp only [List.length_cons] at this
    simp only [h.size]; omega

theorem popFront_refines {s : State α} (h : Inv s) (hne : 0 < s.nodes.length) :
    Inv (popFront s) ∧ items (popFront s) = (items s).tail := by
  have := deleteNext_refines h (j := 0) hne
  simp only [ptrBefore, List.take_zero, List.nil_append] at this
  exact ⟨this.1, by simpa [popFront] using this.2.1⟩

/-! ### clear, copy, assignment -/

theorem clearLoop_spec : ∀ (k : Nat) (s : State α), s.nodes.length ≤ k →
    (clearLoop k s).nodes = [] ∧ (clearLoop k s).size = s.size - s.nodes.length ∧ (clearLoop k s).fresh = s.fresh
  | 0, s, hk => by
    have : s.nodes = [] := List.eq_nil_of_length_eq_zero (by omega)
    simp [clearLoop, this]
  | k + 1, s, hk => by
    simp only [clearLoop]
    cases hn : s.nodes with
    | nil => simp [hn]
    | cons x t =>
      simp only [List.isEmpty_cons, Bool.false_eq_true, if_false]
      have e : deleteNext false s .head = { nodes := t, tail := s.tail, size := s.size - 1, fresh := s.fresh } := by
        simp [deleteNext, posAfter, hn]
      rw [e]
      have hk' : t.length ≤ k := by rw [hn] at hk; simp at hk; omega
      obtain ⟨h1, h2, h3⟩ := clearLoop_spec k { nodes := t, tail := s.tail, size := s.size - 1, fresh := s.fresh } hk'
      refine ⟨h1, ?_, h3⟩
      rw [h2]; simp; omega

theorem clear_refines {s : State α} (h : Inv s) : Inv (clear s) ∧ items (clear s) = [] := by
  obtain ⟨h1, h2, h3⟩ := clearLoop_spec s.nodes.length s (Nat.le_refl _)
  unfold clear
  refine ⟨⟨by simp [h1], by simp [h1], by simp [h1, lastPtr], ?_⟩, by simp [items, h1]⟩
  simp only [h1, h2, h.size]; simp

theorem foldl_pushBack_refines : ∀ (l : List α) {s : State α}, Inv s →
    Inv (l.foldl pushBack s) ∧ items (l.foldl pushBack s) = items s ++ l
  | [], s, h => ⟨h, by simp⟩
  | x :: t, s, h => by
    obtain ⟨h1, h2⟩ := pushBack_refines h x
    obtain ⟨h3, h4⟩ := foldl_pushBack_refines t h1
    exact ⟨h3, by simp only [List.foldl_cons]; rw [h4, h2]; simp⟩

theorem copyElements_refines {s o : State α} (h : Inv s) :
    Inv (copyElements s o) ∧ items (copyElements s o) = items s ++ items o := foldl_pushBack_refines _ h

theorem copy_refines (o : State α) : Inv (copy o) ∧ items (copy o) = items o := by
  have := copyElements_refines (o := o) (inv_empty (α := α))
  simpa [copy, items, empty] using this

theorem copyConv_refines {β : Type} (f : β → α) (o : State β) :
    Inv (copyConv f o) ∧ items (copyConv f o) = (items o).map f := by
  have := foldl_pushBack_refines ((items o).map f) (inv_empty (α := α))
  simpa [copyConv, items, empty] using this

theorem ofList_refines (l : List α) : Inv (ofList l) ∧ items (ofList l) = l := by
  have := foldl_pushBack_refines l (inv_empty (α := α))
  simpa [ofList, items, empty] using this

theorem assign_refines {s : State α} (h : Inv s) (o : State α) :
    Inv (assign s (some o)) ∧ items (assign s (some o)) = items o := by
  obtain ⟨h1, h2⟩ := clear_refines h
  have := copyElements_refines (o := o) h1
  rw [h2] at this
  simpa [assign] using this

/-- the unrepaired `operator=` empties the list on self-assignment (the defect of DESIGN.md section 6 #5) -/
theorem assignUnguarded_self {s : State α} (h : Inv s) : items (assignUnguarded s none) = [] := by
  obtain ⟨h1, h2⟩ := clear_refines h
  have := copyElements_refines (o := clear s) h1
  rw [h2] at this
  simpa [assignUnguarded] using this.2

/-! ### comparison -/

theorem firstDiff_iff [BEq α] [LawfulBEq α] : ∀ (l₁ l₂ : List α), l₁.length = l₂.length →
    (firstDiff l₁ l₂ = false ↔ l₁ = l₂)
  | [], [], _ => by simp [firstDiff]
  | [], _ :: _, h => by simp at h
  | _ :: _, [], h => by simp at h
  | x :: xs, y :: ys, h => by
    simp only [List.length_cons, Nat.add_right_cancel_iff] at h
    simp only [firstDiff]
    by_cases hxy : x = y
    · subst hxy
      simp [firstDiff_iff xs ys h]
    · have : (x != y) = true := by simp [hxy]
      simp [this, hxy]

theorem eq_iff [BEq α] [LawfulBEq α] {a b : State α} (ha : Inv a) (hb : Inv b) :
    eq a b = true ↔ items a = items b := by
  unfold eq
  have la : (items a).length = a.nodes.length := by simp [items]
  have lb : (items b).length = b.nodes.length := by simp [items]
  by_cases hs : a.size = b.size
  · have : (a.size != b.size) = false := by simp [hs]
    simp only [this, Bool.false_eq_true, if_false, Bool.not_eq_true']
    apply firstDiff_iff
    rw [la, lb]
    have := ha.size; have := hb.size; omega
  · have : (a.size != b.size) = true := by simp [hs]
    simp only [this, if_true, Bool.false_eq_true, false_iff]
    intro he
    have := congrArg List.length he
    rw [la, lb] at this
    have := ha.size; have := hb.size; omega

theorem ne_eq_not_eq [BEq α] [LawfulBEq α] (a b : State α) : ne a b = !(eq a b) := by
  unfold ne eq
  by_cases hs : a.size = b.size <;> simp [hs]

theorem isEmpty_iff {s : State α} (h : Inv s) : isEmpty s = true ↔ items s = [] := by
  unfold isEmpty
  rw [beq_iff_eq, tail_eq_head_iff h]
  simp [items]

/-! ### modify iterators -/

/-- the modify iterator `(beforeIterator_, iterator_)` stands at chain position `j` -/
structure ModInv (s : State α) (m : MIt) (j : Nat) : Prop where
  le : j ≤ s.nodes.length
  before : m.before = ptrBefore s.nodes j
  cur : m.cur = ptrOfIdx s.nodes j

theorem beginModify_inv {s : State α} (h : Inv s) : ModInv s (beginModify s) 0 :=
  ⟨Nat.zero_le _, rfl, next_ptrBefore h.ids (j := 0) (Nat.zero_le _)⟩

theorem endModify_inv {s : State α} (h : Inv s) : ModInv s (endModify s) s.nodes.length :=
  ⟨Nat.le_refl _, by simp [endModify, h.tail, lastPtr_eq], by simp [endModify, ptrOfIdx_of_ge]⟩

theorem mIncrement_inv {s : State α} (h : Inv s) {m : MIt} {j : Nat} (hm : ModInv s m j) (hj : j < s.nodes.length) :
    ModInv s (mIncrement s m) (j + 1) :=
  ⟨hj, by show next s m.before = _; rw [hm.before, next_ptrBefore h.ids hm.le]; rfl,
    by show next s m.cur = _; rw [hm.cur, next_ptrOfIdx h.ids]⟩

theorem mDeref_eq {s : State α} (h : Inv s) {m : MIt} {j : Nat} (hm : ModInv s m j) : mDeref s m = (items s)[j]? := by
  simp only [mDeref, hm.cur, item_ptrOfIdx h.ids]

theorem ptrBefore_congr {n₁ n₂ : List (Nat × α)} {j : Nat} (h : ∀ i, i < j → n₁[i]? = n₂[i]?) :
    ptrBefore n₁ j = ptrBefore n₂ j := by
  cases j with
  | zero => rfl
  | succ j => simp [ptrBefore, ptrOfIdx, h j (Nat.lt_succ_self j)]

theorem mInsert_refines {s : State α} (h : Inv s) {m : MIt} {j : Nat} (hm : ModInv s m j) (x : α) :
    Inv (mInsert s m x).1 ∧ items (mInsert s m x).1 = (items s).take j ++ x :: (items s).drop j ∧
      ModInv (mInsert s m x).1 (mInsert s m x).2 (j + 1) := by
  obtain ⟨h1, h2, h3⟩ := insertAfter_refines h hm.le x
  simp only [mInsert, hm.before]
  generalize insertAfter s (ptrBefore s.nodes j) x = s' at h1 h2 h3 ⊢
  refine ⟨h1, h2, ?_⟩
  have htake : (List.take j s.nodes).length = j := by rw [List.length_take]; exact Nat.min_eq_left hm.le
  have hlen : s'.nodes.length = s.nodes.length + 1 := by
    rw [h3]; simp [htake]; have := hm.le; omega
  have hpb : ptrBefore s.nodes j = ptrBefore s'.nodes j := by
    apply ptrBefore_congr
    intro i hi
    rw [h3, List.getElem?_append_left (by rw [htake]; exact hi), List.getElem?_take, if_pos hi]
  refine ⟨by rw [hlen]; have := hm.le; omega, ?_, ?_⟩
  · show next s' (ptrBefore s.nodes j) = ptrBefore s'.nodes (j + 1)
    rw [hpb, next_ptrBefore h1.ids (by rw [hlen]; have := hm.le; omega)]
    rfl
  · show m.cur = ptrOfIdx s'.nodes (j + 1)
    rw [hm.cur]
    unfold ptrOfIdx
    rw [h3, List.getElem?_append_right (by rw [htake]; omega), htake]
    simp

theorem mRemove_refines {s : State α} (h : Inv s) {m : MIt} {j : Nat} (hm : ModInv s m j) (hj : j < s.nodes.length) :
    Inv (mRemove s m).1 ∧ items (mRemove s m).1 = (items s).take j ++ (items s).drop (j + 1) ∧
      ModInv (mRemove s m).1 (mRemove s m).2 j := by
  obtain ⟨h1, h2, h3⟩ := deleteNext_refines h hj
  simp only [mRemove, hm.before]
  generalize deleteNext true s (ptrBefore s.nodes j) = s' at h1 h2 h3 ⊢
  refine ⟨h1, h2, ?_⟩
  have htake : (List.take j s.nodes).length = j := by rw [List.length_take]; exact Nat.min_eq_left hm.le
  have hlen : s'.nodes.length + 1 = s.nodes.length := by
    rw [h3]; simp [htake]; omega
  refine ⟨by omega, ?_, ?_⟩
  · show ptrBefore s.nodes j = ptrBefore s'.nodes j
    apply ptrBefore_congr
    intro i hi
    rw [h3, List.getElem?_append_left (by rw [htake]; exact hi), List.getElem?_take, if_pos hi]
  · show next s m.cur = ptrOfIdx s'.nodes j
    rw [hm.cur, next_ptrOfIdx h.ids]
    unfold ptrOfIdx
    rw [h3, List.getElem?_append_right (by rw [htake]; exact Nat.le_refl _), htake]
    simp

/-! ### histories -/

/-- the live modify iterator of the world corresponds to the abstract position -/
def ItRel (s : State α) : Option MIt → Option Nat → Prop
  | none, none => True
  | some m, some j => ModInv s m j
  | _, _ => False

/-- refinement relation between the pointer world and the abstract sequence with a cursor -/
structure Rel (w : World α) (sp : Spec α) : Prop where
  inv : Inv w.s
  items : items w.s = sp.l
  it : ItRel w.s w.m sp.pos

theorem Rel.len {w : World α} {sp : Spec α} (h : Rel w sp) : w.s.nodes.length = sp.l.length := by
  rw [← h.items]; simp [SL.items]

theorem rel_empty : Rel (⟨empty, none⟩ : World α) ⟨[], none⟩ := ⟨inv_empty, rfl, trivial⟩

theorem step_refines {w : World α} {sp : Spec α} (h : Rel w sp) (o : Op α) : Rel (step w o) (specStep sp o) := by
  have hlen := h.len
  have hsz : w.s.size = (sp.l.length : Int) := by rw [h.inv.size, hlen]
  have hI := h.inv
  have hitems := h.items
  cases o with
  | pushBack x =>
    obtain ⟨h1, h2⟩ := pushBack_refines hI x
    exact ⟨by simpa [step, Op.ok] using h1, by simpa [step, Op.ok, specStep, hitems] using h2, by simp [step, Op.ok, specStep, ItRel]⟩
  | pushFront x =>
    obtain ⟨h1, h2⟩ := pushFront_refines hI x
    exact ⟨by simpa [step, Op.ok] using h1, by simpa [step, Op.ok, specStep, hitems] using h2, by simp [step, Op.ok, specStep, ItRel]⟩
  | clear =>
    obtain ⟨h1, h2⟩ := clear_refines hI
    exact ⟨by simpa [step, Op.ok] using h1, by simpa [step, Op.ok, specStep] using h2, by simp [step, Op.ok, specStep, ItRel]⟩
  | assignSelf =>
    exact ⟨by simpa [step, Op.ok, assign] using hI, by simpa [step, Op.ok, specStep, assign] using hitems,
      by simp [step, Op.ok, specStep, ItRel]⟩
  | assignFrom l =>
    obtain ⟨h1, h2⟩ := assign_refines hI (ofList l)
    rw [(ofList_refines l).2] at h2
    exact ⟨by simpa [step, Op.ok] using h1, by simpa [step, Op.ok, specStep] using h2, by simp [step, Op.ok, specStep, ItRel]⟩
  | popFront =>
    by_cases hne : 0 < sp.l.length
    · have hok : (Op.popFront : Op α).ok w = true := by simp [Op.ok, hsz]; omega
      obtain ⟨h1, h2⟩ := popFront_refines hI (by omega)
      simp only [step, hok, if_true, specStep, hne]
      exact ⟨h1, by rw [h2, hitems], trivial⟩
    · have hz : sp.l.length = 0 := by omega
      have hok : (Op.popFront : Op α).ok w = false := by simp [Op.ok, hsz, hz]
      simp only [step, hok, Bool.false_eq_true, if_false, specStep, hne]
      exact h
  | insAfter k x =>
    by_cases hk : k < sp.l.length
    · have hok : (Op.insAfter k x).ok w = true := by simp [Op.ok, hsz]; omega
      obtain ⟨h1, h2, _⟩ := insertAfter_refines hI (j := k + 1) (by omega) x
      simp only [step, hok, if_true, specStep, hk, ptrAt_eq hI.ids]
      exact ⟨h1, by rw [← hitems]; exact h2, trivial⟩
    · have hok : (Op.insAfter k x).ok w = false := by simp [Op.ok, hsz]; omega
      simp only [step, hok, Bool.false_eq_true, if_false, specStep, hk]
      exact h
  | delNext k =>
    by_cases hk : k + 1 < sp.l.length
    · have hok : (Op.delNext k : Op α).ok w = true := by simp [Op.ok, hsz]; omega
      obtain ⟨h1, h2, _⟩ := deleteNext_refines hI (j := k + 1) (by omega)
      simp only [step, hok, if_true, specStep, hk, ptrAt_eq hI.ids]
      exact ⟨h1, by rw [← hitems]; exact h2, trivial⟩
    · have hok : (Op.delNext k : Op α).ok w = false := by simp [Op.ok, hsz]; omega
      simp only [step, hok, Bool.false_eq_true, if_false, specStep, hk]
      exact h
  | mBegin =>
    simp only [step, Op.ok, if_true, specStep]
    exact ⟨hI, hitems, beginModify_inv hI⟩
  | mEnd =>
    simp only [step, Op.ok, if_true, specStep]
    exact ⟨hI, hitems, by rw [← hlen]; exact endModify_inv hI⟩
  | mInc =>
    cases hm : w.m with
    | none =>
      have hp : sp.pos = none := by
        have := h.it; rw [hm] at this; cases hp : sp.pos <;> simp [hp, ItRel] at this ⊢
      have hok : (Op.mInc : Op α).ok w = false := by simp [Op.ok, hm]
      simp only [step, hok, Bool.false_eq_true, if_false, specStep, hp]
      exact h
    | some m =>
      obtain ⟨j, hp, hmj⟩ : ∃ j, sp.pos = some j ∧ ModInv w.s m j := by
        have := h.it; rw [hm] at this
        cases hp : sp.pos with
        | none => simp [hp, ItRel] at this
        | some j => exact ⟨j, rfl, by simpa [hp, ItRel] using this⟩
      by_cases hj : j < sp.l.length
      · have hok : (Op.mInc : Op α).ok w = true := by
          simp only [Op.ok, hm, hmj.cur, bne_iff_ne]
          exact ptrOfIdx_ne_null_iff.mpr (by omega)
        simp only [step, hok, if_true, specStep, hp, hj, hm, Option.map_some]
        exact ⟨hI, hitems, mIncrement_inv hI hmj (by omega)⟩
      · have hok : (Op.mInc : Op α).ok w = false := by
          simp only [Op.ok, hm, hmj.cur, bne_eq_false_iff_eq]
          exact ptrOfIdx_of_ge (by omega)
        simp only [step, hok, Bool.false_eq_true, if_false, specStep, hp, hj]
        exact h
  | mIns x =>
    cases hm : w.m with
    | none =>
      have hp : sp.pos = none := by
        have := h.it; rw [hm] at this; cases hp : sp.pos <;> simp [hp, ItRel] at this ⊢
      have hok : (Op.mIns x).ok w = false := by simp [Op.ok, hm]
      simp only [step, hok, Bool.false_eq_true, if_false, specStep, hp]
      exact h
    | some m =>
      obtain ⟨j, hp, hmj⟩ : ∃ j, sp.pos = some j ∧ ModInv w.s m j := by
        have := h.it; rw [hm] at this
        cases hp : sp.pos with
        | none => simp [hp, ItRel] at this
        | some j => exact ⟨j, rfl, by simpa [hp, ItRel] using this⟩
      have hok : (Op.mIns x).ok w = true := by simp [Op.ok, hm]
      obtain ⟨h1, h2, h3⟩ := mInsert_refines hI hmj x
      simp only [step, hok, if_true, specStep, hp, hm]
      exact ⟨h1, by rw [← hitems]; exact h2, h3⟩
  | mRem =>
    cases hm : w.m with
    | none =>
      have hp : sp.pos = none := by
        have := h.it; rw [hm] at this; cases hp : sp.pos <;> simp [hp, ItRel] at this ⊢
      have hok : (Op.mRem : Op α).ok w = false := by simp [Op.ok, hm]
      simp only [step, hok, Bool.false_eq_true, if_false, specStep, hp]
      exact h
    | some m =>
      obtain ⟨j, hp, hmj⟩ : ∃ j, sp.pos = some j ∧ ModInv w.s m j := by
        have := h.it; rw [hm] at this
        cases hp : sp.pos with
        | none => simp [hp, ItRel] at this
        | some j => exact ⟨j, rfl, by simpa [hp, ItRel] using this⟩
      by_cases hj : j < sp.l.length
      · have hok : (Op.mRem : Op α).ok w = true := by
          simp only [Op.ok, hm, hmj.cur, bne_iff_ne]
          exact ptrOfIdx_ne_null_iff.mpr (by omega)
        obtain ⟨h1, h2, h3⟩ := mRemove_refines hI hmj (by omega)
        simp only [step, hok, if_true, specStep, hp, hj, hm]
        exact ⟨h1, by rw [← hitems]; exact h2, h3⟩
      · have hok : (Op.mRem : Op α).ok w = false := by
          simp only [Op.ok, hm, hmj.cur, bne_eq_false_iff_eq]
          exact ptrOfIdx_of_ge (by omega)
        simp only [step, hok, Bool.false_eq_true, if_false, specStep, hp, hj]
        exact h

theorem run_refines (ops : List (Op α)) : ∀ {w : World α} {sp : Spec α}, Rel w sp → Rel (run w ops) (specRun sp ops) := by
  induction ops with
  | nil => intro w sp h; exact h
  | cons o t ih =>
    intro w sp h
    simp only [run, specRun, List.foldl_cons]
    exact ih (step_refines h o)

end DV.C11.SL
