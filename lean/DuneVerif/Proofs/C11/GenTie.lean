import DuneVerif.Gen.C11
import DuneVerif.Model.C11.ArrayList
import DuneVerif.Model.C11.BitSetVector
import DuneVerif.Model.C11.ReservedVector
/-!
C11, round four — the arithmetic ties between `Gen/C11.lean` (regenerated from arraylist.hh / bitsetvector.hh by
tools/translators/tr_c11.py on every run) and the formulas the hand-written models use.

Every lemma says `generated formula = model formula` for all arguments and is closed by a normalising tactic, so a
rewrite of the source that commutes or re-associates operands stays provable, while a rewrite that changes a value
(for some argument) makes the lemma false and the build of `Props/C11.lean` fail.
-/
namespace DV.C11.GenTie
open DV.C11

/-- `generated = model` for `Nat`/`Int` formulas, up to commutativity / associativity, `x % n` spelled `x - x / n * n`
    (round five) and values the translator merged from several paths into an `if` (round five) -/
macro "tie_arith" : tactic =>
  `(tactic| first
    | rfl
    | omega
    | (simp only [Nat.add_comm, Nat.mul_comm, Nat.add_left_comm, Nat.mul_left_comm, Nat.add_assoc, Nat.mul_assoc, Nat.mod_mod]; done)
    | (simp only [Nat.add_comm, Nat.mul_comm, Nat.add_left_comm, Nat.mul_left_comm, Nat.add_assoc, Nat.mul_assoc, Nat.mod_mod]; omega)
    | (simp only [Nat.mod_def, Nat.add_comm, Nat.mul_comm, Nat.add_left_comm, Nat.mul_left_comm, Nat.add_assoc, Nat.mul_assoc]; done)
    | (simp only [Nat.mod_def, Nat.add_comm, Nat.mul_comm, Nat.add_left_comm, Nat.mul_left_comm, Nat.add_assoc, Nat.mul_assoc]; omega)
    | (split <;> first | rfl | omega | grind)
    | grind)

/-- `generated condition ↔ model condition` (also when the translator merged several paths into an `if`, round five) -/
macro "tie_cond" : tactic =>
  `(tactic| first
    | (simp only [beq_iff_eq, bne_iff_ne, ne_eq, decide_eq_true_eq, gt_iff_lt, ge_iff_le, Bool.not_eq_true', decide_eq_false_iff_not, beq_eq_false_iff_ne, Bool.not_eq_eq_eq_not, Bool.not_true, Nat.not_lt, Nat.not_le]; done)
    | (simp only [beq_iff_eq, bne_iff_ne, ne_eq, decide_eq_true_eq, gt_iff_lt, ge_iff_le, Bool.not_eq_true', decide_eq_false_iff_not, beq_eq_false_iff_ne, Bool.not_eq_eq_eq_not, Bool.not_true, Nat.not_lt, Nat.not_le]; omega)
    | (simp only [beq_iff_eq, bne_iff_ne, ne_eq, decide_eq_true_eq, gt_iff_lt, ge_iff_le, Bool.not_eq_true', decide_eq_false_iff_not, beq_eq_false_iff_ne, Bool.not_eq_eq_eq_not, Bool.not_true, Nat.not_lt, Nat.not_le]; constructor <;> intro h <;> omega)
    | (split <;> first
        | (simp only [beq_iff_eq, bne_iff_ne, ne_eq, decide_eq_true_eq, gt_iff_lt, ge_iff_le, Bool.not_eq_true', decide_eq_false_iff_not, beq_eq_false_iff_ne, Bool.not_eq_eq_eq_not, Bool.not_true, Nat.not_lt, Nat.not_le]; done)
        | (simp only [beq_iff_eq, bne_iff_ne, ne_eq, decide_eq_true_eq, gt_iff_lt, ge_iff_le, Bool.not_eq_true', decide_eq_false_iff_not, beq_eq_false_iff_ne, Bool.not_eq_eq_eq_not, Bool.not_true, Nat.not_lt, Nat.not_le]; omega)
        | (simp_all; done)
        | (simp_all; omega)
        | grind)
    | grind)

/-! ### ArrayList -/

theorem chunkSize (n : Int) : Gen.chunkSize n = AL.chunkSize n := by
  unfold Gen.chunkSize AL.chunkSize
  first | rfl | (split <;> split <;> omega)

theorem alElemChunk (N i : Nat) : Gen.alElemChunk N i = i / N := by unfold Gen.alElemChunk; tie_arith
theorem alElemOffset (N i : Nat) : Gen.alElemOffset N i = i % N := by unfold Gen.alElemOffset; tie_arith
theorem alElemChunkC (N i : Nat) : Gen.alElemChunkC N i = i / N := by unfold Gen.alElemChunkC; tie_arith
theorem alElemOffsetC (N i : Nat) : Gen.alElemOffsetC N i = i % N := by unfold Gen.alElemOffsetC; tie_arith
theorem alIndexArg (N st sz cap i : Nat) : Gen.alIndexArg N st sz cap i = st + i := by unfold Gen.alIndexArg; tie_arith
theorem alIndexArgC (N st sz cap i : Nat) : Gen.alIndexArgC N st sz cap i = st + i := by unfold Gen.alIndexArgC; tie_arith
theorem alBegin (N st sz cap : Nat) : Gen.alBegin N st sz cap = st := by unfold Gen.alBegin; tie_arith
theorem alBeginC (N st sz cap : Nat) : Gen.alBeginC N st sz cap = st := by unfold Gen.alBeginC; tie_arith
theorem alEnd (N st sz cap : Nat) : Gen.alEnd N st sz cap = st + sz := by unfold Gen.alEnd; tie_arith
theorem alEndC (N st sz cap : Nat) : Gen.alEndC N st sz cap = st + sz := by unfold Gen.alEndC; tie_arith
theorem alSize (N st sz cap : Nat) : Gen.alSize N st sz cap = sz := by unfold Gen.alSize; tie_arith

theorem itElemArg (N p i : Nat) : Gen.itElemArg N p i = p + i := by unfold Gen.itElemArg; tie_arith
theorem itElemArgC (N p i : Nat) : Gen.itElemArgC N p i = p + i := by unfold Gen.itElemArgC; tie_arith
theorem itDerefArg (N p : Nat) : Gen.itDerefArg N p = p := by unfold Gen.itDerefArg; tie_arith
theorem itDerefArgC (N p : Nat) : Gen.itDerefArgC N p = p := by unfold Gen.itDerefArgC; tie_arith
theorem itDistanceTo (p o : Int) : Gen.itDistanceTo p o = o - p := by unfold Gen.itDistanceTo; tie_arith
theorem itDistanceToC (p o : Int) : Gen.itDistanceToC p o = o - p := by unfold Gen.itDistanceToC; tie_arith
theorem itAdvance (p n : Int) : Gen.itAdvance p n = p + n := by unfold Gen.itAdvance; tie_arith
theorem itAdvanceC (p n : Int) : Gen.itAdvanceC p n = p + n := by unfold Gen.itAdvanceC; tie_arith
theorem itIncrement (p : Int) : Gen.itIncrement p = p + 1 := by unfold Gen.itIncrement; tie_arith
theorem itIncrementC (p : Int) : Gen.itIncrementC p = p + 1 := by unfold Gen.itIncrementC; tie_arith
theorem itDecrement (p : Int) : Gen.itDecrement p = p - 1 := by unfold Gen.itDecrement; tie_arith
theorem itDecrementC (p : Int) : Gen.itDecrementC p = p - 1 := by unfold Gen.itDecrementC; tie_arith
theorem itEquals (p o : Nat) : Gen.itEquals p o = true ↔ p = o := by unfold Gen.itEquals; tie_cond
theorem itEqualsM (p o : Nat) : Gen.itEqualsM p o = true ↔ p = o := by unfold Gen.itEqualsM; tie_cond
theorem itEqualsC (p o : Nat) : Gen.itEqualsC p o = true ↔ p = o := by unfold Gen.itEqualsC; tie_cond

theorem clearCapacity (N st sz cap : Nat) : Gen.clearCapacity N st sz cap = 0 := by unfold Gen.clearCapacity; tie_arith
theorem clearSize (N st sz cap : Nat) : Gen.clearSize N st sz cap = 0 := by unfold Gen.clearSize; tie_arith
theorem clearStart (N st sz cap : Nat) : Gen.clearStart N st sz cap = 0 := by unfold Gen.clearStart; tie_arith

theorem pushGrow (N st sz cap : Nat) : Gen.pushGrow N st sz cap = true ↔ st + sz = cap := by unfold Gen.pushGrow; tie_cond
theorem pushGrownCapacity (N st sz cap : Nat) : Gen.pushGrownCapacity N st sz cap = cap + N := by
  unfold Gen.pushGrownCapacity; tie_arith
theorem pushWriteIndex (N st sz cap : Nat) : Gen.pushWriteIndex N st sz cap = st + sz := by
  unfold Gen.pushWriteIndex; tie_arith
theorem pushSize (N st sz cap : Nat) : Gen.pushSize N st sz cap = sz + 1 := by unfold Gen.pushSize; tie_arith
theorem pushStart (N st sz cap : Nat) : Gen.pushStart N st sz cap = st := by unfold Gen.pushStart; tie_arith

theorem purgeCond (N st sz cap : Nat) : Gen.purgeCond N st sz cap = true ↔ st / N > 0 := by unfold Gen.purgeCond; tie_cond
theorem purgeCopyFrom (N st sz cap : Nat) : Gen.purgeCopyFrom N st sz cap = st / N := by unfold Gen.purgeCopyFrom; tie_arith
theorem purgeResize (N st sz cap : Nat) : Gen.purgeResize N st sz cap = (st % N + sz + N - 1) / N := by
  unfold Gen.purgeResize; tie_arith
theorem purgeCopyTo (N st sz cap : Nat) : Gen.purgeCopyTo N st sz cap = st / N + (st % N + sz + N - 1) / N := by
  unfold Gen.purgeCopyTo; tie_arith
theorem purgeStart (N st sz cap : Nat) : Gen.purgeStart N st sz cap = st % N := by unfold Gen.purgeStart; tie_arith
theorem purgeCapacity (N st sz cap : Nat) : Gen.purgeCapacity N st sz cap = (st % N + sz + N - 1) / N * N := by
  unfold Gen.purgeCapacity; tie_arith
theorem purgeSize (N st sz cap : Nat) : Gen.purgeSize N st sz cap = sz := by unfold Gen.purgeSize; tie_arith

theorem erasePos (N st sz cap p : Nat) : Gen.erasePos N st sz cap p = p + 1 := by unfold Gen.erasePos; tie_arith
theorem eraseSize (N st sz cap p : Nat) : Gen.eraseSize N st sz cap p = sz - (p + 1 - st) := by unfold Gen.eraseSize; tie_arith
theorem eraseStart (N st sz cap p : Nat) : Gen.eraseStart N st sz cap p = p + 1 := by unfold Gen.eraseStart; tie_arith
theorem eraseCapacity (N st sz cap p : Nat) : Gen.eraseCapacity N st sz cap p = cap := by unfold Gen.eraseCapacity; tie_arith
theorem eraseLoopFirst (N st sz cap p : Nat) : Gen.eraseLoopFirst N st sz cap p = (p + 1) / N := by
  unfold Gen.eraseLoopFirst; tie_arith
theorem eraseLoopCount (N st sz cap p : Nat) : Gen.eraseLoopCount N st sz cap p = (p + 1 - st + st % N) / N := by
  unfold Gen.eraseLoopCount; tie_arith

/-- `chunks_[c]->operator[](o)` as a read, with the two indices given separately -/
def readVia {α : Type} (cs : List (Option (List α))) (c o : Nat) : Option α :=
  match cs[c]? with
  | some (some ch) => ch[o]?
  | _ => none

theorem readAt_eq_readVia {α : Type} (N : Nat) (cs : List (Option (List α))) (i : Nat) :
    AL.readAt N cs i = readVia cs (i / N) (i % N) := rfl

/-! ### BitSetVector -/

theorem bvAddr (B i j : Nat) : Gen.bvAddr B i j = i * B + j := by unfold Gen.bvAddr; tie_arith
theorem bvAddrC (B i j : Nat) : Gen.bvAddrC B i j = i * B + j := by unfold Gen.bvAddrC; tie_arith
theorem bvCtorLen (B n : Nat) : Gen.bvCtorLen B n = n * B := by unfold Gen.bvCtorLen; tie_arith
theorem bvCtorLenV (B n : Nat) : Gen.bvCtorLenV B n = n * B := by unfold Gen.bvCtorLenV; tie_arith
theorem bvResizeLen (B n : Nat) : Gen.bvResizeLen B n = n * B := by unfold Gen.bvResizeLen; tie_arith
theorem bvSize (B len : Nat) : Gen.bvSize B len = len / B := by unfold Gen.bvSize; tie_arith
theorem bvCtorReject (B len : Nat) : Gen.bvCtorReject B len = true ↔ len % B ≠ 0 := by unfold Gen.bvCtorReject; tie_cond

/-! ### ReservedVector -/

theorem rvIndex (n sz i : Nat) : Gen.rvIndex n sz i = i := by unfold Gen.rvIndex; tie_arith
theorem rvIndexC (n sz i : Nat) : Gen.rvIndexC n sz i = i := by unfold Gen.rvIndexC; tie_arith
theorem rvFront (n sz : Nat) : Gen.rvFront n sz = 0 := by unfold Gen.rvFront; tie_arith
theorem rvFrontC (n sz : Nat) : Gen.rvFrontC n sz = 0 := by unfold Gen.rvFrontC; tie_arith
theorem rvBack (n sz : Nat) : Gen.rvBack n sz = sz - 1 := by unfold Gen.rvBack; tie_arith
theorem rvBackC (n sz : Nat) : Gen.rvBackC n sz = sz - 1 := by unfold Gen.rvBackC; tie_arith
theorem rvAtIndex (n sz i : Nat) : Gen.rvAtIndex n sz i = i := by unfold Gen.rvAtIndex; tie_arith
theorem rvAtIndexC (n sz i : Nat) : Gen.rvAtIndexC n sz i = i := by unfold Gen.rvAtIndexC; tie_arith
theorem rvSize (n sz : Nat) : Gen.rvSize n sz = sz := by unfold Gen.rvSize; tie_arith
theorem rvCapacity (n sz : Nat) : Gen.rvCapacity n sz = n := by unfold Gen.rvCapacity; tie_arith
theorem rvMaxSize (n sz : Nat) : Gen.rvMaxSize n sz = n := by unfold Gen.rvMaxSize; tie_arith
theorem rvClearSize (n sz : Nat) : Gen.rvClearSize n sz = 0 := by unfold Gen.rvClearSize; tie_arith
theorem rvResizeSize (n sz i : Nat) : Gen.rvResizeSize n sz i = i := by unfold Gen.rvResizeSize; tie_arith
theorem rvPushIndex (n sz : Nat) : Gen.rvPushIndex n sz = sz := by unfold Gen.rvPushIndex; tie_arith
theorem rvPushSize (n sz : Nat) : Gen.rvPushSize n sz = sz + 1 := by unfold Gen.rvPushSize; tie_arith
theorem rvPushRIndex (n sz : Nat) : Gen.rvPushRIndex n sz = sz := by unfold Gen.rvPushRIndex; tie_arith
theorem rvPushRSize (n sz : Nat) : Gen.rvPushRSize n sz = sz + 1 := by unfold Gen.rvPushRSize; tie_arith
theorem rvEmplaceIndex (n sz : Nat) : Gen.rvEmplaceIndex n sz = sz := by unfold Gen.rvEmplaceIndex; tie_arith
theorem rvEmplaceSize (n sz : Nat) : Gen.rvEmplaceSize n sz = sz + 1 := by unfold Gen.rvEmplaceSize; tie_arith
theorem rvPopSize (n sz : Nat) : Gen.rvPopSize n sz = sz - 1 := by unfold Gen.rvPopSize; tie_arith
theorem rvBeginOff (n sz : Nat) : Gen.rvBeginOff n sz = 0 := by unfold Gen.rvBeginOff; tie_arith
theorem rvBeginOffC (n sz : Nat) : Gen.rvBeginOffC n sz = 0 := by unfold Gen.rvBeginOffC; tie_arith
theorem rvCbeginOff (n sz : Nat) : Gen.rvCbeginOff n sz = 0 := by unfold Gen.rvCbeginOff; tie_arith
theorem rvEndOff (n sz : Nat) : Gen.rvEndOff n sz = sz := by unfold Gen.rvEndOff; tie_arith
theorem rvEndOffC (n sz : Nat) : Gen.rvEndOffC n sz = sz := by unfold Gen.rvEndOffC; tie_arith
theorem rvCendOff (n sz : Nat) : Gen.rvCendOff n sz = sz := by unfold Gen.rvCendOff; tie_arith
theorem rvRbeginOff (n sz : Nat) : Gen.rvRbeginOff n sz = sz := by unfold Gen.rvRbeginOff; tie_arith
theorem rvRbeginOffC (n sz : Nat) : Gen.rvRbeginOffC n sz = sz := by unfold Gen.rvRbeginOffC; tie_arith
theorem rvCrbeginOff (n sz : Nat) : Gen.rvCrbeginOff n sz = sz := by unfold Gen.rvCrbeginOff; tie_arith
theorem rvRendOff (n sz : Nat) : Gen.rvRendOff n sz = 0 := by unfold Gen.rvRendOff; tie_arith
theorem rvRendOffC (n sz : Nat) : Gen.rvRendOffC n sz = 0 := by unfold Gen.rvRendOffC; tie_arith
theorem rvCrendOff (n sz : Nat) : Gen.rvCrendOff n sz = 0 := by unfold Gen.rvCrendOff; tie_arith
theorem rvFillBound (n sz : Nat) : Gen.rvFillBound n sz = sz := by unfold Gen.rvFillBound; tie_arith
theorem rvFillIndex (n sz i : Nat) : Gen.rvFillIndex n sz i = i := by unfold Gen.rvFillIndex; tie_arith
theorem rvHashEnd (n sz : Nat) : Gen.rvHashEnd n sz = sz := by unfold Gen.rvHashEnd; tie_arith
theorem rvIndexCheck (n sz i : Nat) : Gen.rvIndexCheck n sz i = true ↔ i < sz := by unfold Gen.rvIndexCheck; tie_cond
theorem rvIndexCheckC (n sz i : Nat) : Gen.rvIndexCheckC n sz i = true ↔ i < sz := by unfold Gen.rvIndexCheckC; tie_cond
theorem rvFrontCheck (n sz : Nat) : Gen.rvFrontCheck n sz = true ↔ 0 < sz := by unfold Gen.rvFrontCheck; tie_cond
theorem rvFrontCheckC (n sz : Nat) : Gen.rvFrontCheckC n sz = true ↔ 0 < sz := by unfold Gen.rvFrontCheckC; tie_cond
theorem rvBackCheck (n sz : Nat) : Gen.rvBackCheck n sz = true ↔ 0 < sz := by unfold Gen.rvBackCheck; tie_cond
theorem rvBackCheckC (n sz : Nat) : Gen.rvBackCheckC n sz = true ↔ 0 < sz := by unfold Gen.rvBackCheckC; tie_cond
theorem rvAtThrow (n sz i : Nat) : Gen.rvAtThrow n sz i = true ↔ ¬ i < sz := by unfold Gen.rvAtThrow; tie_cond
theorem rvAtThrowC (n sz i : Nat) : Gen.rvAtThrowC n sz i = true ↔ ¬ i < sz := by unfold Gen.rvAtThrowC; tie_cond
theorem rvEmpty (n sz : Nat) : Gen.rvEmpty n sz = true ↔ sz = 0 := by unfold Gen.rvEmpty; tie_cond
theorem rvResizeCheck (n sz i : Nat) : Gen.rvResizeCheck n sz i = true ↔ i ≤ n := by unfold Gen.rvResizeCheck; tie_cond
theorem rvPushCheck (n sz : Nat) : Gen.rvPushCheck n sz = true ↔ sz < n := by unfold Gen.rvPushCheck; tie_cond
theorem rvPushRCheck (n sz : Nat) : Gen.rvPushRCheck n sz = true ↔ sz < n := by unfold Gen.rvPushRCheck; tie_cond
theorem rvEmplaceCheck (n sz : Nat) : Gen.rvEmplaceCheck n sz = true ↔ sz < n := by unfold Gen.rvEmplaceCheck; tie_cond
theorem rvPopCond (n sz : Nat) : Gen.rvPopCond n sz = true ↔ sz ≠ 0 := by unfold Gen.rvPopCond; tie_cond

end DV.C11.GenTie
