import DuneVerif.Model.C11.ReservedVector
/-! Helper lemmas for the ReservedVector refinement (core Lean only). -/
namespace DV.C11.RV

variable {α : Type}

/-- the array has its `n` slots and the size respects the capacity -/
structure Inv (n : Nat) (s : State α) : Prop where
  len : s.storage.length = n
  le : s.size ≤ n

theorem abs_length {n : Nat} {s : State α} (h : Inv n s) : (abs s).length = s.size := by
  simp [abs, h.len, Nat.min_eq_left h.le]

theorem length_fillLoop (st : List α) (v : α) (k : Nat) : (fillLoop st v k).length = st.length := by
  induction k with
  | zero => rfl
  | succ k ih => simp [fillLoop, ih]

theorem getElem?_fillLoop (st : List α) (v : α) (k i : Nat) (hk : k ≤ st.length) :
    (fillLoop st v k)[i]? = if i < k then some v else st[i]? := by
  induction k with
  | zero => simp [fillLoop]
  | succ k ih =>
    simp only [fillLoop, List.getElem?_set, length_fillLoop]
    by_cases h1 : k = i
    · subst h1
      have : k < st.length := by omega
      simp [this]
    · rw [if_neg h1, ih (by omega)]
      by_cases h2 : i < k
      · simp [h2, show i < k + 1 by omega]
      · simp [h2, show ¬ i < k + 1 by omega]

theorem inv_empty (n : Nat) (d : α) : Inv n (empty n d) := ⟨by simp [empty], by simp [empty]⟩
theorem abs_empty (n : Nat) (d : α) : abs (empty n d) = [] := by simp [abs, empty]

theorem pushBack_refines {n : Nat} {s : State α} (h : Inv n s) (hs : s.size < n) (x : α) :
    Inv n (pushBack s x) ∧ abs (pushBack s x) = abs s ++ [x] := by
  refine ⟨⟨by simp [pushBack, h.len], by simp [pushBack]; omega⟩, ?_⟩
  unfold abs pushBack
  simp only
  have hlt : s.size < s.storage.length := by rw [h.len]; exact hs
  rw [List.take_add_one, List.take_set_of_le (Nat.le_refl _)]
  simp [List.getElem?_set, hlt]

theorem popBack_refines {n : Nat} {s : State α} (h : Inv n s) :
    Inv n (popBack s) ∧ abs (popBack s) = (abs s).dropLast := by
  unfold popBack
  by_cases h0 : s.size = 0
  · simp only [h0, if_true]
    exact ⟨h, by simp [abs, h0]⟩
  · simp only [h0, if_false]
    refine ⟨⟨h.len, by have := h.le; simp; omega⟩, ?_⟩
    unfold abs
    simp only
    rw [List.dropLast_eq_take, List.take_take, List.length_take, h.len]
    congr 1
    have := h.le
    omega

theorem clear_refines {n : Nat} {s : State α} (h : Inv n s) : Inv n (clear s) ∧ abs (clear s) = [] :=
  ⟨⟨h.len, Nat.zero_le _⟩, by simp [abs, clear]⟩

/-- `resize` keeps the elements up to the smaller of the two sizes (what lies beyond is whatever the array holds) -/
theorem resize_refines {n : Nat} {s : State α} (h : Inv n s) {k : Nat} (hk : k ≤ n) :
    Inv n (resize s k) ∧ (abs (resize s k)).length = k ∧ (abs (resize s k)).take s.size = (abs s).take k := by
  refine ⟨⟨h.len, hk⟩, by simp [abs, resize, h.len, Nat.min_eq_left hk], ?_⟩
  simp [abs, resize, List.take_take, Nat.min_comm]

theorem set_refines {n : Nat} {s : State α} (h : Inv n s) (i : Nat) (x : α) :
    Inv n (set s i x) ∧ abs (set s i x) = (abs s).set i x := by
  refine ⟨⟨by simp [set, h.len], h.le⟩, ?_⟩
  simp [abs, set, List.take_set]

theorem fill_refines {n : Nat} {s : State α} (h : Inv n s) (v : α) :
    Inv n (fill s v) ∧ abs (fill s v) = List.replicate s.size v := by
  refine ⟨⟨by simp [fill, length_fillLoop, h.len], h.le⟩, ?_⟩
  apply List.ext_getElem?
  intro i
  have hle : s.size ≤ s.storage.length := by rw [h.len]; exact h.le
  simp only [abs, fill, List.getElem?_take, List.getElem?_replicate]
  by_cases hi : i < s.size
  · simp [hi, getElem?_fillLoop _ _ _ _ hle]
  · simp [hi]

theorem at?_eq (s : State α) (i : Nat) : at? s i = (abs s)[i]? := by
  simp [at?, abs, List.getElem?_take]

theorem get_eq {s : State α} {i : Nat} (hi : i < s.size) : get s i = (abs s)[i]? := by
  simp [get, abs, List.getElem?_take, hi]

theorem front_eq {s : State α} (hs : 0 < s.size) : front s = (abs s).head? := by
  simp [front, abs, List.head?_eq_getElem?, List.getElem?_take, hs]

theorem back_eq {n : Nat} {s : State α} (h : Inv n s) (hs : 0 < s.size) : back s = (abs s).getLast? := by
  have hlen := abs_length h
  rw [List.getLast?_eq_getElem?, hlen]
  simp only [back, abs, List.getElem?_take]
  simp [show s.size - 1 < s.size by omega]

/-- the count/value constructor and the range constructor -/
theorem ofCountValue_refines {n : Nat} (d : α) {count : Nat} (hc : count ≤ n) (v : α) :
    Inv n (ofCountValue n d count v) ∧ abs (ofCountValue n d count v) = List.replicate count v := by
  refine ⟨⟨by simp [ofCountValue, length_fillLoop], hc⟩, ?_⟩
  apply List.ext_getElem?
  intro i
  simp only [abs, ofCountValue, List.getElem?_take, List.getElem?_replicate]
  by_cases hi : i < count
  · simp [hi, getElem?_fillLoop _ _ _ _ (show count ≤ (List.replicate n d).length by simpa using hc)]
  · simp [hi]

theorem foldl_pushBack_refines {n : Nat} : ∀ (l : List α) {s : State α}, Inv n s → s.size + l.length ≤ n →
    Inv n (l.foldl pushBack s) ∧ abs (l.foldl pushBack s) = abs s ++ l
  | [], s, h, _ => ⟨h, by simp⟩
  | x :: t, s, h, hl => by
    simp only [List.length_cons] at hl
    obtain ⟨h1, h2⟩ := pushBack_refines h (by omega) x
    have hsz : (pushBack s x).size = s.size + 1 := rfl
    obtain ⟨h3, h4⟩ := foldl_pushBack_refines t h1 (by rw [hsz]; omega)
    exact ⟨h3, by simp only [List.foldl_cons]; rw [h4, h2]; simp⟩

theorem ofList_refines {n : Nat} (d : α) {l : List α} (hl : l.length ≤ n) :
    Inv n (ofList n d l) ∧ abs (ofList n d l) = l := by
  unfold ofList
  have ht : l.take n = l := List.take_of_length_le hl
  rw [ht]
  have := foldl_pushBack_refines l (inv_empty n d) (by simp [empty]; exact hl)
  rw [abs_empty] at this
  simpa using this

/-! ### equality -/

theorem eqLoop_iff [BEq α] [LawfulBEq α] (a b : List α) (k : Nat) (ha : k ≤ a.length) (hb : k ≤ b.length) :
    eqLoop a b k = true ↔ a.take k = b.take k := by
  induction k with
  | zero => simp [eqLoop]
  | succ k ih =>
    have hka : k < a.length := by omega
    have hkb : k < b.length := by omega
    simp only [eqLoop, Bool.and_eq_true, ih (by omega) (by omega), List.take_add_one,
      List.getElem?_eq_getElem hka, List.getElem?_eq_getElem hkb, Option.toList_some]
    constructor
    · rintro ⟨h1, h2⟩
      rw [h1, (beq_iff_eq.mp h2)]
    · intro h
      have hlen : (List.take k a).length = (List.take k b).length := by simp [Nat.min_eq_left, Nat.le_of_lt hka, Nat.le_of_lt hkb]
      have := List.append_inj h hlen
      exact ⟨this.1, by simpa using this.2⟩

theorem eq_iff [BEq α] [LawfulBEq α] {n : Nat} {a b : State α} (ha : Inv n a) (hb : Inv n b) :
    eq a b = true ↔ abs a = abs b := by
  unfold eq
  by_cases hs : a.size = b.size
  · have : (a.size != b.size) = false := by simp [hs]
    simp only [this, Bool.false_eq_true, if_false]
    rw [eqLoop_iff _ _ _ (by rw [ha.len]; exact ha.le) (by rw [hb.len, hs]; exact hb.le)]
    simp [abs, hs]
  · have : (a.size != b.size) = true := by simp [hs]
    simp only [this, if_true, Bool.false_eq_true, false_iff]
    intro he
    have := congrArg List.length he
    rw [abs_length ha, abs_length hb] at this
    exact hs this

/-! ### lexicographic comparison -/

/-- the comparison loop of `operator<` written on lists -/
def lexB [LT α] [DecidableRel (α := α) (· < ·)] : List α → List α → Bool
  | [], [] => false
  | [], _ :: _ => true
  | _ :: _, [] => false
  | x :: xs, y :: ys => if x < y then true else if y < x then false else lexB xs ys

theorem lexB_iff [LT α] [DecidableRel (α := α) (· < ·)]
    (irrefl : ∀ x : α, ¬ x < x) (tri : ∀ x y : α, ¬ x < y → ¬ y < x → x = y) :
    ∀ (l₁ l₂ : List α), lexB l₁ l₂ = true ↔ l₁ < l₂
  | [], [] => by simp only [lexB]; constructor <;> intro h <;> cases h
  | [], _ :: _ => by simp only [lexB]; exact ⟨fun _ => List.Lex.nil, fun _ => trivial⟩
  | _ :: _, [] => by simp only [lexB]; constructor <;> intro h <;> cases h
  | x :: xs, y :: ys => by
    have ih := lexB_iff irrefl tri xs ys
    simp only [lexB]
    by_cases h1 : x < y
    · simp only [h1, if_true]; exact ⟨fun _ => List.Lex.rel h1, fun _ => trivial⟩
    · by_cases h2 : y < x
      · simp only [h1, h2, if_true, if_false, Bool.false_eq_true, false_iff]
        intro h
        cases h with
        | rel h => exact h1 h
        | cons h => exact irrefl _ h2
      · simp only [h1, h2, if_false]
        rw [ih]
        constructor
        · intro h
          have := tri x y h1 h2
          subst this
          exact List.Lex.cons h
        · intro h
          cases h with
          | rel h => exact absurd h h1
          | cons h => exact h

theorem ltLoop_eq [LT α] [DecidableRel (α := α) (· < ·)] (A B : List α) (sa sb : Nat)
    (ha : sa ≤ A.length) (hb : sb ≤ B.length) :
    ∀ (fuel i : Nat), i + fuel = min sa sb →
      (match ltLoop A B i fuel with
        | some r => r
        | none => decide (sa < sb)) = lexB ((A.take sa).drop i) ((B.take sb).drop i)
  | 0, i, hi => by
    simp only [ltLoop]
    by_cases hab : sa ≤ sb
    · have him : i = sa := by omega
      have e1 : (A.take sa).drop i = [] := by
        apply List.drop_eq_nil_of_le; simp; omega
      rw [e1]
      by_cases hlt : sa < sb
      · have hne : (B.take sb).drop i ≠ [] := by
          intro h
          have := congrArg List.length h
          simp at this
          omega
        cases hd : (B.take sb).drop i with
        | nil => exact absurd hd hne
        | cons y ys => simp [lexB, hlt]
      · have e2 : (B.take sb).drop i = [] := by
          apply List.drop_eq_nil_of_le; simp; omega
        rw [e2]; simp [lexB, hlt]
    · have e2 : (B.take sb).drop i = [] := by
        apply List.drop_eq_nil_of_le; simp; omega
      rw [e2]
      have hlt : ¬ sa < sb := by omega
      cases (A.take sa).drop i <;> simp [lexB, hlt]
  | fuel + 1, i, hi => by
    have hia : i < sa := by omega
    have hib : i < sb := by omega
    have hA : i < A.length := by omega
    have hB : i < B.length := by omega
    have e1 : (A.take sa).drop i = A[i] :: (A.take sa).drop (i + 1) := by
      rw [List.drop_eq_getElem_cons (by simp; omega)]; simp
    have e2 : (B.take sb).drop i = B[i] :: (B.take sb).drop (i + 1) := by
      rw [List.drop_eq_getElem_cons (by simp; omega)]; simp
    rw [e1, e2]
    simp only [ltLoop, List.getElem?_eq_getElem hA, List.getElem?_eq_getElem hB, lexB]
    by_cases h1 : A[i] < B[i]
    · simp [h1]
    · by_cases h2 : B[i] < A[i]
      · simp [h1, h2]
      · simp only [h1, h2, if_false]
        exact ltLoop_eq A B sa sb ha hb fuel (i + 1) (by omega)

theorem lt_iff [LT α] [DecidableRel (α := α) (· < ·)]
    (irrefl : ∀ x : α, ¬ x < x) (tri : ∀ x y : α, ¬ x < y → ¬ y < x → x = y)
    {n : Nat} {a b : State α} (ha : Inv n a) (hb : Inv n b) : lt a b = true ↔ abs a < abs b := by
  rw [← lexB_iff irrefl tri]
  have := ltLoop_eq a.storage b.storage a.size b.size (by rw [ha.len]; exact ha.le) (by rw [hb.len]; exact hb.le)
    (min a.size b.size) 0 (by omega)
  simp only [List.drop_zero] at this
  unfold lt abs
  rw [← this]
  cases ltLoop a.storage b.storage 0 (min a.size b.size) <;> simp

/-! ### histories: the bounded vector as a (nondeterministic) abstract machine -/

theorem step_inv {n : Nat} {s : State α} (h : Inv n s) (o : Op α) : Inv n (step n s o) := by
  unfold step
  by_cases hok : o.ok n s
  · simp only [hok, if_true]
    cases o with
    | push x => exact (pushBack_refines h (by simpa [Op.ok] using hok) x).1
    | pop => exact (popBack_refines h).1
    | clear => exact (clear_refines h).1
    | resize k => exact (resize_refines h (by simpa [Op.ok] using hok)).1
    | set i x => exact (set_refines h i x).1
    | fill x => exact (fill_refines h x).1
    | assignFrom o =>
      simp only [Op.ok, Bool.and_eq_true, beq_iff_eq, decide_eq_true_eq] at hok
      exact ⟨hok.1, hok.2⟩
  · simp only [hok, Bool.false_eq_true, if_false]; exact h

theorem run_inv {n : Nat} (ops : List (Op α)) : ∀ {s : State α}, Inv n s → Inv n (run n s ops) := by
  induction ops with
  | nil => intro s h; exact h
  | cons o t ih => intro s h; exact ih (step_inv h o)

/-- One step of the specification "a vector with capacity limit `n`" on plain lists.  Operations outside their
    precondition leave the vector unchanged (they are skipped); `resize` beyond the current length appends elements
    about which nothing is promised (`g` is arbitrary); `pop_back` on the empty vector does nothing. -/
inductive SpecStep (n : Nat) : List α → Op α → List α → Prop where
  | push {l : List α} {x : α} : l.length < n → SpecStep n l (.push x) (l ++ [x])
  | pushFull {l : List α} {x : α} : ¬ l.length < n → SpecStep n l (.push x) l
  | pop {l : List α} : SpecStep n l .pop l.dropLast
  | clear {l : List α} : SpecStep n l .clear []
  | shrink {l : List α} {k : Nat} : k ≤ l.length → SpecStep n l (.resize k) (l.take k)
  | grow {l g : List α} {k : Nat} : l.length < k → k ≤ n → g.length = k - l.length → SpecStep n l (.resize k) (l ++ g)
  | resizeBeyond {l : List α} {k : Nat} : ¬ k ≤ n → SpecStep n l (.resize k) l
  | set {l : List α} {i : Nat} {x : α} : SpecStep n l (.set i x) (l.set i x)      -- `List.set` beyond the end is the identity
  | fill {l : List α} {x : α} : SpecStep n l (.fill x) (List.replicate l.length x)
  | assignFrom {l : List α} {o : State α} : Inv n o → SpecStep n l (.assignFrom o) (abs o)
  | assignInvalid {l : List α} {o : State α} : ¬ Inv n o → SpecStep n l (.assignFrom o) l

/-- a whole history on the specification -/
inductive SpecRuns (n : Nat) : List α → List (Op α) → List α → Prop where
  | nil {l : List α} : SpecRuns n l [] l
  | cons {l l' l'' : List α} {o : Op α} {ops : List (Op α)} :
      SpecStep n l o l' → SpecRuns n l' ops l'' → SpecRuns n l (o :: ops) l''

/-- every run of the specification respects the capacity -/
theorem SpecStep.length_le {n : Nat} {l l' : List α} {o : Op α} (h : SpecStep n l o l') (hl : l.length ≤ n) :
    l'.length ≤ n := by
  cases h with
  | push h => simp; omega
  | pushFull _ => exact hl
  | pop => simp; omega
  | clear => simp
  | shrink h => simp; omega
  | grow h1 h2 h3 => simp [h3]; omega
  | resizeBeyond _ => exact hl
  | set => simpa using hl
  | fill => simpa using hl
  | assignFrom ho => rw [abs_length ho]; exact ho.le
  | assignInvalid _ => exact hl

theorem step_spec {n : Nat} {s : State α} (h : Inv n s) (o : Op α) : SpecStep n (abs s) o (abs (step n s o)) := by
  have hlen := abs_length h
  cases o with
  | push x =>
    by_cases hs : s.size < n
    · have e : step n s (.push x) = pushBack s x := by simp [step, Op.ok, hs]
      rw [e, (pushBack_refines h hs x).2]
      exact .push (by rw [hlen]; exact hs)
    · have e : step n s (.push x) = s := by simp [step, Op.ok, hs]
      rw [e]
      exact .pushFull (by rw [hlen]; exact hs)
  | pop =>
    have e : step n s .pop = popBack s := by simp [step, Op.ok]
    rw [e, (popBack_refines h).2]
    exact .pop
  | clear =>
    have e : step n s .clear = RV.clear s := by simp [step, Op.ok]
    rw [e, (clear_refines h).2]
    exact .clear
  | resize k =>
    by_cases hk : k ≤ n
    · have e : step n s (.resize k) = resize s k := by simp [step, Op.ok, hk]
      rw [e]
      by_cases hks : k ≤ s.size
      · have : abs (resize s k) = (abs s).take k := by
          simp only [abs, resize, List.take_take]
          rw [Nat.min_eq_left hks]
        rw [this]
        exact .shrink (by rw [hlen]; exact hks)
      · have hsl : s.size ≤ s.storage.length := by rw [h.len]; exact h.le
        have : abs (resize s k) = abs s ++ (s.storage.drop s.size).take (k - s.size) := by
          simp only [abs, resize]
          have hk' : k = s.size + (k - s.size) := by omega
          conv => lhs; rw [hk']
          rw [List.take_add]
        rw [this]
        refine .grow (by rw [hlen]; omega) hk ?_
        rw [hlen, List.length_take, List.length_drop, h.len]
        omega
    · have e : step n s (.resize k) = s := by simp [step, Op.ok, hk]
      rw [e]
      exact .resizeBeyond hk
  | set i x =>
    by_cases hi : i < s.size
    · have e : step n s (.set i x) = RV.set s i x := by simp [step, Op.ok, hi]
      rw [e, (set_refines h i x).2]
      exact .set
    · have e : step n s (.set i x) = s := by simp [step, Op.ok, hi]
      rw [e]
      have : abs s = (abs s).set i x := by rw [List.set_eq_of_length_le (by omega)]
      conv => rhs; rw [this]
      exact .set
  | fill x =>
    have e : step n s (.fill x) = RV.fill s x := by simp [step, Op.ok]
    rw [e, (fill_refines h x).2, ← hlen]
    exact .fill
  | assignFrom o =>
    by_cases ho : o.storage.length = n ∧ o.size ≤ n
    · have e : step n s (.assignFrom o) = o := by simp [step, Op.ok, ho.1, ho.2]
      rw [e]
      exact .assignFrom ⟨ho.1, ho.2⟩
    · have e : step n s (.assignFrom o) = s := by
        simp only [step, Op.ok, Bool.and_eq_true, beq_iff_eq, decide_eq_true_eq]
        rw [if_neg ho]
      rw [e]
      exact .assignInvalid (fun hi => ho ⟨hi.len, hi.le⟩)

theorem run_spec {n : Nat} (ops : List (Op α)) : ∀ {s : State α}, Inv n s → SpecRuns n (abs s) ops (abs (run n s ops)) := by
  induction ops with
  | nil => intro s _; exact .nil
  | cons o t ih =>
    intro s h
    simp only [run, List.foldl_cons]
    exact .cons (step_spec h o) (ih (step_inv h o))

end DV.C11.RV
