import DuneVerif.Model.C04F
import DuneVerif.Model.C04L
/-!
C04 — lemmas about the construction variants of a local index and about the chunked storage (`DV.C04.L`).
Core Lean only.
-/
namespace DV.C04.L
open DV.C04 DV.C04.GenL

theorem mkPair_eq (how : Nat) (g : Int) (l a : Nat) (pub : Bool) :
    mkPair how g l a pub = { g := g, l := l, a := a, pub := pub } := by
  unfold mkPair toPair build
  match how with
  | 0 => simp [ctorLAP, getLocal, getAttribute, isPublic]
  | 1 => simp [ctorAP, assignLocal, getLocal, getAttribute, isPublic]
  | 2 => cases pub <;> simp [ctorLAP, ctorDefault, ctorLAPDefaultIsPublic, setAttribute, assignLocal, getLocal, getAttribute, isPublic]
  | 3 =>
    by_cases h : (a == 0 && !pub) = true
    · have ha : a = 0 := by simp at h; exact h.1
      have hp : pub = false := by simp at h; exact h.2
      subst ha; subst hp
      simp [ctorDefault, assignLocal, getLocal, getAttribute, isPublic]
    · simp [h, ctorAP, assignLocal, getLocal, getAttribute, isPublic]
  | _ + 4 => simp [ctorLAP, assignLocal, getLocal, getAttribute, isPublic]

theorem build_valid (how l a : Nat) (pub : Bool) : (build how l a pub).valid = true := by
  unfold build
  match how with
  | 0 => simp [ctorLAP]
  | 1 => simp [ctorAP, assignLocal]
  | 2 => cases pub <;> simp [ctorLAP, ctorDefault, setAttribute, assignLocal]
  | 3 => by_cases h : (a == 0 && !pub) = true <;> simp [h, ctorDefault, ctorAP, assignLocal]
  | _ + 4 => simp [ctorLAP, assignLocal]

/-! ### chunks -/

theorem chunked_go_flatten (N : Nat) : ∀ (fuel : Nat) (l : List α), l.length ≤ fuel → (chunked.go N fuel l).flatten = l
  | 0, l, h => by
    have : l = [] := List.eq_nil_of_length_eq_zero (by omega)
    subst this; simp [chunked.go]
  | fuel + 1, [], _ => by simp [chunked.go]
  | fuel + 1, x :: xs, h => by
    have hk : 1 ≤ max N 1 := by omega
    have hlen : ((x :: xs).drop (max N 1)).length ≤ fuel := by
      simp only [List.length_drop, List.length_cons] at *; omega
    simp only [chunked.go, List.flatten_cons]
    rw [chunked_go_flatten N fuel _ hlen, List.take_append_drop]

theorem chunked_go_sizes (N : Nat) : ∀ (fuel : Nat) (l : List α), ∀ c ∈ chunked.go N fuel l, c ≠ [] ∧ c.length ≤ max N 1
  | 0, l, c, hc => by simp [chunked.go] at hc
  | fuel + 1, [], c, hc => by simp [chunked.go] at hc
  | fuel + 1, x :: xs, c, hc => by
    simp only [chunked.go, List.mem_cons] at hc
    rcases hc with rfl | hc
    · have hk : 1 ≤ max N 1 := by omega
      constructor
      · intro h0
        have := congrArg List.length h0
        simp only [List.length_take, List.length_cons, List.length_nil] at this
        omega
      · simp only [List.length_take]; omega
    · exact chunked_go_sizes N fuel _ c hc

theorem packChunk_one (pub : α → Bool) (c : List α) :
    ∀ (fuel off : Nat), c.length - off ≤ fuel → packChunk pub 1 c fuel off = some ((c.drop off).filter pub)
  | 0, off, h => by
    have : c.drop off = [] := List.drop_eq_nil_of_le (by omega)
    simp [packChunk, this]
  | fuel + 1, off, h => by
    unfold packChunk
    by_cases hge : off ≥ c.length
    · have : c.drop off = [] := List.drop_eq_nil_of_le hge
      simp [hge, this]
    · have hlt : off < c.length := by omega
      have hd : c.drop off = c[off] :: c.drop (off + 1) := List.drop_eq_getElem_cons hlt
      have ih := packChunk_one pub c fuel (off + 1) (by omega)
      simp only [hge, if_false, List.getElem?_eq_getElem hlt]
      have hpa : packAt c off 1 = some [c[off]] := by
        unfold packAt
        have h1 : off + 1 ≤ c.length := by omega
        rw [if_pos h1, hd]
        rfl
      rw [hd, ih, hpa]
      by_cases hp : pub c[off] = true
      · rw [List.filter_cons_of_pos hp]; simp [hp]
      · rw [List.filter_cons_of_neg hp]; simp [hp]

theorem packWalk_one (pub : α → Bool) : ∀ (cs : List (List α)), packWalk pub 1 cs = some (cs.flatten.filter pub)
  | [] => by simp [packWalk]
  | c :: cs => by
    have h1 := packChunk_one pub c c.length 0 (by omega)
    simp [packWalk, h1, packWalk_one pub cs]

end DV.C04.L
