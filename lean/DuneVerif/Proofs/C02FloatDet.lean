import DuneVerif.Proofs.C02FloatLU
/-! C02 — `determinant` on the LU path under rounded arithmetic (see Proofs/C02Float.lean for the setting). -/
namespace DV.C02.Flt
open DV.C02 Matrix
variable {R : Rounding} {n : Nat}

/-! ### `determinant` on the LU path under rounding -/

/-- the sign kept by `ElimDet`: the sign of the accumulated row permutation up to a relative factor -/
def SignInv (m : ℕ) (σ : Equiv.Perm (Fin n)) (s : FlR R) : Prop :=
  ∃ θ : ℝ, |θ| ≤ gamma R.u m ∧ s.val = ((Equiv.Perm.sign σ : ℤ) : ℝ) * (1 + θ)

theorem neg_one_val : (-(1 : FlR R)).val = -1 := rfl

theorem lu_run_det_fl {Q : Type} [LinearOrder Q] [Zero Q] (hn : (n : ℝ) * R.u < 1) (piv : Bool)
    (absval : FlR R → Q) (habs0 : ∀ x : FlR R, x.val = 0 → absval x = 0) (A₀ : Mat n (FlR R))
    (hok : (luDecomp piv absval detFunc A₀ (1 : FlR R)).ok = true) :
    ∃ σ : Equiv.Perm (Fin n), MatInv A₀ n σ (luDecomp piv absval detFunc A₀ (1 : FlR R)).A ∧
      SignInv n σ (luDecomp piv absval detFunc A₀ (1 : FlR R)).s := by
  have hu := R.u_nonneg
  apply lu_invariantG piv absval detFunc A₀ (1 : FlR R)
    (fun m σ A s => MatInv A₀ m σ A ∧ SignInv m σ s) _ _ hok
  · exact ⟨MatInv_zero A₀, 0, by simp [gamma_zero], by simp [one_val]⟩
  · intro i p σ A s hip hp ⟨hM, θ, hθ, hs⟩ hpiv
    have hne : ((swapRows A i p).f i i).val ≠ 0 := fun h0 => hpiv (habs0 _ h0)
    have hk1 : ((i.1 + 1 : ℕ) : ℝ) * R.u < 1 := nat_mul_lt hu (Nat.succ_le_of_lt i.2) hn
    have hmono : gamma R.u i.1 ≤ gamma R.u (i.1 + 1) := gamma_mono hu (Nat.le_succ _) hk1
    refine ⟨MatInv_elim hn hne (MatInv_swap hip hM), ?_⟩
    rw [elimLoop_snd_of_elim_id detFunc (fun _ _ _ _ => rfl)]
    cases piv
    · have := hp rfl; subst this
      refine ⟨θ, le_trans hθ hmono, ?_⟩
      simp [swapSG, hs]
    · have hc : (if i = p then (1 : FlR R) else -(1 : FlR R)).val = ((Equiv.Perm.sign (Equiv.swap i p) : ℤ) : ℝ) := by
        rw [Equiv.Perm.sign_swap']
        by_cases hipe : i = p
        · simp [hipe, one_val]
        · simp [hipe, neg_one_val]
      obtain ⟨δ, hδ, hmul⟩ := R.spec (s.val * (if i = p then (1 : FlR R) else -(1 : FlR R)).val)
      refine ⟨(1 + θ) * (1 + δ) - 1, gamma_step_mul hu hk1 hθ hδ, ?_⟩
      have hval : (swapSG true (detFunc : Func n (FlR R) (FlR R)) s i p).val =
          R.fl (s.val * (if i = p then (1 : FlR R) else -(1 : FlR R)).val) := rfl
      rw [hval, hmul, hc, hs, Equiv.Perm.sign_mul, Units.val_mul, Int.cast_mul]
      ring

/-- `for i: det *= A[i][i]`, continuing the error count of the sign -/
theorem prod_loop_fl (hn : ((2 * n : ℕ) : ℝ) * R.u < 1) (s : FlR R) (c : ℝ) (A : Mat n (FlR R))
    (hs : ∃ θ : ℝ, |θ| ≤ gamma R.u n ∧ s.val = c * (1 + θ)) :
    ∃ θ : ℝ, |θ| ≤ gamma R.u (2 * n) ∧
      (forUp n s fun i det => det * A.f i i).val = c * (∏ j, (A.f j j).val) * (1 + θ) := by
  have hu := R.u_nonneg
  obtain ⟨θ₀, hθ₀, hs0⟩ := hs
  have key := forUp_ind s (fun (i : Fin n) det => det * A.f i i)
    (fun m acc => ∃ θ : ℝ, |θ| ≤ gamma R.u (n + m) ∧
      acc.val = c * (∏ j : Fin n, if j.1 < m then (A.f j j).val else 1) * (1 + θ))
    ⟨θ₀, by simpa using hθ₀, by simpa using hs0⟩
    (by
      intro k acc ⟨θ, hθ, heq⟩
      have hk1 : ((n + k.1 + 1 : ℕ) : ℝ) * R.u < 1 := nat_mul_lt hu (by have := k.2; omega) hn
      have hsplit : ∀ j : Fin n, (if j.1 < k.1 + 1 then (A.f j j).val else 1) =
          (if j.1 < k.1 then (A.f j j).val else 1) * (if j = k then (A.f k k).val else 1) := by
        intro j
        by_cases hjk : j = k
        · subst hjk; simp
        · have : j.1 ≠ k.1 := fun h => hjk (Fin.ext h)
          have h1 : (j.1 < k.1 + 1) ↔ j.1 < k.1 := by omega
          simp [hjk, h1]
      simp only [hsplit, Finset.prod_mul_distrib, Finset.prod_ite_eq' Finset.univ k, Finset.mem_univ, if_true]
      obtain ⟨δ, hδ, hmul⟩ := R.spec (acc.val * (A.f k k).val)
      refine ⟨(1 + θ) * (1 + δ) - 1, ?_, ?_⟩
      · have := gamma_step_mul hu (k := n + k.1) hk1 hθ hδ
        simpa [Nat.add_assoc] using this
      · rw [mul_val, hmul, heq]; ring)
  obtain ⟨θ, hθ, heq⟩ := key
  refine ⟨θ, by simpa [two_mul] using hθ, ?_⟩
  rw [heq]
  congr 2
  apply Finset.prod_congr rfl
  intro j _
  simp [j.2]

/-- the real matrix of the values of `A` -/
def realMat (A : Mat n (FlR R)) : Matrix (Fin n) (Fin n) ℝ := Matrix.of fun r c => (A.f r c).val

theorem det_LrUr (LU : Mat n (FlR R)) :
    ((Matrix.of (Lr LU) : Matrix (Fin n) (Fin n) ℝ) * Matrix.of (Ur LU)).det = ∏ j, (LU.f j j).val := by
  rw [Matrix.det_mul, det_of_isLowerTriangular, det_of_isUpperTriangular]
  · have h1 : ∏ j : Fin n, (Matrix.of (Lr LU) : Matrix (Fin n) (Fin n) ℝ) j j = 1 := by
      apply Finset.prod_eq_one; intro j _; simp [Lr]
    rw [h1, one_mul]
    apply Finset.prod_congr rfl
    intro j _
    simp [Ur]
  · intro r c hrc
    have hlt : c < r := by simpa using hrc
    have : ¬ r ≤ c := not_le.mpr hlt
    simp [Ur, this]
  · intro r c hrc
    have hlt : r < c := by simpa using hrc
    have h1 : ¬ (c < r) := not_lt.mpr (le_of_lt hlt)
    have h2 : r ≠ c := ne_of_lt hlt
    simp [Lr, h1, h2]

/-- **`determinant` on the LU path under rounding**: the computed value is the exact determinant of a matrix
`A + ΔA`, `|ΔA| ≤ γ_n |L̂||Û|` (rows permuted back), times `1 + θ`, `|θ| ≤ γ_{2n}` -/
theorem detLU_backward_error_rows {Q : Type} [LinearOrder Q] [Zero Q] (hn : ((2 * n : ℕ) : ℝ) * R.u < 1)
    (piv : Bool) (absval : FlR R → Q) (habs0 : ∀ x : FlR R, x.val = 0 → absval x = 0) (A : Mat n (FlR R))
    (hok : (luDecomp piv absval detFunc A (1 : FlR R)).ok = true) :
    ∃ (σ : Equiv.Perm (Fin n)) (ΔA : Matrix (Fin n) (Fin n) ℝ) (θ : ℝ), |θ| ≤ gamma R.u (2 * n) ∧
      (∀ r c, |ΔA (σ r) c| ≤ gamma R.u n *
        ∑ k, |Lr (luDecomp piv absval detFunc A (1 : FlR R)).A r k| *
          |Ur (luDecomp piv absval detFunc A (1 : FlR R)).A k c|) ∧
      (detLU piv absval A).val = (realMat A + ΔA).det * (1 + θ) := by
  have hu := R.u_nonneg
  have hn' : (n : ℝ) * R.u < 1 := nat_mul_lt hu (by omega) hn
  obtain ⟨σ, hM, hS⟩ := lu_run_det_fl hn' piv absval habs0 A hok
  unfold detLU
  rw [if_pos hok]
  generalize (luDecomp piv absval detFunc A (1 : FlR R)).A = LU at hM ⊢
  generalize (luDecomp piv absval detFunc A (1 : FlR R)).s = s at hS ⊢
  choose Ψ hΨ hA using fun r c => MatInv_rows hM r c
  obtain ⟨θ, hθ, hprod⟩ := prod_loop_fl hn s ((Equiv.Perm.sign σ : ℤ) : ℝ) LU hS
  let ΔA' : Fin n → Fin n → ℝ := fun r c => -∑ k, Lr LU r k * Ur LU k c * Ψ r c k
  let ΔA : Matrix (Fin n) (Fin n) ℝ := Matrix.of fun r c => ΔA' (σ⁻¹ r) c
  have hinv : ∀ r, σ⁻¹ (σ r) = r := fun r => by simp
  have hsub : (realMat A + ΔA).submatrix σ id = (Matrix.of (Lr LU) : Matrix (Fin n) (Fin n) ℝ) * Matrix.of (Ur LU) := by
    ext r c
    simp only [Matrix.submatrix_apply, Matrix.add_apply, realMat, Matrix.of_apply, id, ΔA, ΔA',
      hinv, Matrix.mul_apply]
    rw [hA r c]
    simp only [mul_add, mul_one, Finset.sum_add_distrib]
    ring
  have hdet : ∏ j, (LU.f j j).val = ((Equiv.Perm.sign σ : ℤ) : ℝ) * (realMat A + ΔA).det := by
    rw [← det_LrUr, ← hsub, Matrix.det_permute]
  have hss : ((Equiv.Perm.sign σ : ℤ) : ℝ) * ((Equiv.Perm.sign σ : ℤ) : ℝ) = 1 := by
    rw [← Int.cast_mul, ← Units.val_mul]; simp
  refine ⟨σ, ΔA, θ, hθ, ?_, ?_⟩
  · intro r c
    simp only [ΔA, ΔA', Matrix.of_apply, hinv, abs_neg]
    calc |∑ k, Lr LU r k * Ur LU k c * Ψ r c k| ≤ ∑ k, |Lr LU r k * Ur LU k c * Ψ r c k| :=
          Finset.abs_sum_le_sum_abs _ _
      _ ≤ ∑ k, gamma R.u n * (|Lr LU r k| * |Ur LU k c|) := by
          apply Finset.sum_le_sum
          intro k _
          rw [abs_mul, abs_mul, mul_comm]
          exact mul_le_mul_of_nonneg_right (hΨ r c k) (mul_nonneg (abs_nonneg _) (abs_nonneg _))
      _ = gamma R.u n * ∑ k, |Lr LU r k| * |Ur LU k c| := by rw [Finset.mul_sum]
  · rw [hprod, hdet, ← mul_assoc, hss, one_mul]

end DV.C02.Flt
