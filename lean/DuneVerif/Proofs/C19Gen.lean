/-
C19, round four — the definitions regenerated from the source (Gen/C19.lean) are the hand-written model.
Every lemma is stated for all states; the proofs are case analyses that do not look at the shape of the generated
terms (renamed locals, commuted conditions, `!= 0` for `> 0` give other terms with the same proofs).
-/
import DuneVerif.Model.C19
import DuneVerif.Gen.C19

namespace DV.C19

theorem Prog.sum_ext {α : Type} {c c' : Nat} {k k' : Nat → Prog α} (hc : c = c') (h0 : k 0 = k' 0)
    (hS : ∀ n, k (n + 1) = k' (n + 1)) : Prog.sum c k = Prog.sum c' k' := by
  subst hc
  have : k = k' := by
    funext t
    cases t with
    | zero => exact h0
    | succ n => exact hS n
  rw [this]

/-- closes goals `p = q` between guard programs with one collective: same contribution, same continuation for the
sum 0 and for every positive sum -/
macro "guard_prog" : tactic =>
  `(tactic| first
    | rfl
    | (refine Prog.sum_ext ?_ ?_ ?_ <;> simp [Prog.bind] <;> omega)
    | (refine Prog.sum_ext ?_ ?_ ?_ <;> simp [Prog.bind]))

theorem gen_finalize (g : Guard) (s : Bool) : Gen.Guard.finalize g s = finalize g s := by
  cases g with | mk a =>
  cases a <;> cases s <;> simp only [Gen.Guard.finalize, finalize] <;> guard_prog

theorem gen_reactivate (g : Guard) : Gen.Guard.reactivate g = reactivate g := by
  cases g with | mk a =>
  cases a <;> simp [Gen.Guard.reactivate, reactivate, finalizeDefault, gen_finalize, finalize, Prog.bind] <;> guard_prog

theorem gen_destroy (g : Guard) : (Gen.Guard.destroy g).bind (fun r => Prog.ret r.2) = destroy g := by
  cases g with | mk a =>
  cases a <;> simp [Gen.Guard.destroy, destroy, gen_finalize, finalize, Prog.bind] <;> guard_prog

/-! ### futures -/

open Interp

/-- the generated member `body` of `MPIFuture<R,S>` on value buffers (`impl::Buffer<T>`) -/
def genFut (body : List Micro) (f : MpiFut2) : Option (FObs × MpiFut2) :=
  futRun Gen.MpiFuture.bufferValueGet Gen.MpiFuture.bufferValueBool Gen.MpiFuture.valid Gen.MpiFuture.wait body f

/-- … on reference buffers (`impl::Buffer<T&>`) -/
def genFutRef (body : List Micro) (f : MpiFut2) : Option (FObs × MpiFut2) :=
  futRun Gen.MpiFuture.bufferRefGet Gen.MpiFuture.bufferRefBool Gen.MpiFuture.valid Gen.MpiFuture.wait body f

/-- … of `MPIFuture<void>` (`impl::Buffer<void>`) -/
def genVoid (body : List Micro) (f : MpiVoid) : Option (FObs × MpiVoid) :=
  voidRun Gen.MpiFuture.bufferVoidGet Gen.MpiFuture.bufferVoidBool Gen.MpiFuture.valid Gen.MpiFuture.wait body f

macro "fut_cases" f:ident : tactic =>
  `(tactic| (rcases $f:ident with ⟨⟨v, r, buf, inc⟩, snd⟩
             cases v <;> cases r <;> cases snd <;> first | rfl | simp_all [genFut, genFutRef, futRun, futBasic]))

theorem gen_buffers (v : List Int) (o : Option (List Int)) (b : Bool) :
    bufGet Gen.MpiFuture.bufferValueGet (some v) none = some (v, none) ∧
    bufGet Gen.MpiFuture.bufferRefGet (some v) none = some (v, none) ∧
    bufGet Gen.MpiFuture.bufferValueGet none none = none ∧
    bufGet Gen.MpiFuture.bufferRefGet none none = none ∧
    bufVoidGet Gen.MpiFuture.bufferVoidGet b = some false ∧
    bufBool Gen.MpiFuture.bufferValueBool o = some o.isSome ∧
    bufBool Gen.MpiFuture.bufferRefBool o = some o.isSome ∧
    bufVoidBool Gen.MpiFuture.bufferVoidBool b = some b :=
  ⟨rfl, rfl, rfl, rfl, rfl, rfl, rfl, rfl⟩

theorem gen_fut_valid (f : MpiFut2) : genFut Gen.MpiFuture.valid f = MpiFut2.step f (.call .valid) := by fut_cases f
theorem gen_fut_wait (f : MpiFut2) : genFut Gen.MpiFuture.wait f = MpiFut2.step f (.call .wait) := by fut_cases f
theorem gen_fut_ready (f : MpiFut2) : genFut Gen.MpiFuture.ready f = MpiFut2.step f (.call .ready) := by fut_cases f
theorem gen_fut_get (f : MpiFut2) : genFut Gen.MpiFuture.get f = MpiFut2.step f (.call .get) := by fut_cases f
theorem gen_fut_send (f : MpiFut2) : genFut Gen.MpiFuture.getSendData f = MpiFut2.sendData f := by fut_cases f

theorem gen_futref_valid (f : MpiFut2) : genFutRef Gen.MpiFuture.valid f = MpiFut2.step f (.call .valid) := by fut_cases f
theorem gen_futref_wait (f : MpiFut2) : genFutRef Gen.MpiFuture.wait f = MpiFut2.step f (.call .wait) := by fut_cases f
theorem gen_futref_ready (f : MpiFut2) : genFutRef Gen.MpiFuture.ready f = MpiFut2.step f (.call .ready) := by fut_cases f
theorem gen_futref_get (f : MpiFut2) : genFutRef Gen.MpiFuture.get f = MpiFut2.step f (.call .get) := by fut_cases f
theorem gen_futref_send (f : MpiFut2) : genFutRef Gen.MpiFuture.getSendData f = MpiFut2.sendData f := by fut_cases f

theorem gen_void (f : MpiVoid) :
    genVoid Gen.MpiFuture.valid f = some (MpiVoid.step f .valid) ∧
    genVoid Gen.MpiFuture.wait f = some (MpiVoid.step f .wait) ∧
    genVoid Gen.MpiFuture.ready f = some (MpiVoid.step f .ready) ∧
    genVoid Gen.MpiFuture.get f = some (MpiVoid.step f .get) := by
  rcases f with ⟨v, r⟩
  cases v <;> cases r <;> exact ⟨rfl, rfl, rfl, rfl⟩

theorem gen_move_assign (t s : MpiFut2) :
    moveAssignBy Gen.MpiFuture.assignSwaps t s = MpiFut2.moveAssign t s := by
  rcases t with ⟨⟨tv, tr, tb, ti⟩, ts⟩
  rcases s with ⟨⟨sv, sr, sb, si⟩, ss⟩
  rfl

theorem gen_move_construct (s : MpiFut2) :
    moveConstructBy Gen.MpiFuture.ctorMoved Gen.MpiFuture.ctorNulled Gen.MpiFuture.ctorSwaps s = MpiFut2.moveConstruct s := by
  rcases s with ⟨⟨sv, sr, sb, si⟩, ss⟩
  rfl

theorem gen_pseudo (f : PseudoFut) :
    pseudoRun Gen.PseudoT.valid f = some (PseudoFut.step f .valid) ∧
    pseudoRun Gen.PseudoT.wait f = some (PseudoFut.step f .wait) ∧
    pseudoRun Gen.PseudoT.ready f = some (PseudoFut.step f .ready) ∧
    pseudoRun Gen.PseudoT.get f = some (PseudoFut.step f .get) := by
  rcases f with ⟨v, d⟩
  cases v <;> exact ⟨rfl, rfl, rfl, rfl⟩

theorem gen_pseudo_void (f : PseudoVoid) :
    pseudoVoidRun Gen.PseudoV.valid f = some (PseudoVoid.step f .valid) ∧
    pseudoVoidRun Gen.PseudoV.wait f = some (PseudoVoid.step f .wait) ∧
    pseudoVoidRun Gen.PseudoV.ready f = some (PseudoVoid.step f .ready) ∧
    pseudoVoidRun Gen.PseudoV.get f = some (PseudoVoid.step f .get) := by
  rcases f with ⟨v⟩
  cases v <;> exact ⟨rfl, rfl, rfl, rfl⟩

/-- the generated `Future<T>` member `body` around a future with step function `inner` -/
def genErased {σ : Type} (inner : σ → FOp → FObs × σ) (body : List Micro) (s : Option σ) : Option (FObs × Option σ) :=
  erasedRun inner Gen.ErasedModel.wait Gen.ErasedModel.get Gen.ErasedModel.ready Gen.ErasedModel.valid body s

theorem gen_erased {σ : Type} (inner : σ → FOp → FObs × σ) (s : Option σ) :
    genErased inner Gen.Erased.valid s = some (erasedStep inner s .valid) ∧
    genErased inner Gen.Erased.wait s = some (erasedStep inner s .wait) ∧
    genErased inner Gen.Erased.ready s = some (erasedStep inner s .ready) ∧
    genErased inner Gen.Erased.get s = some (erasedStep inner s .get) := by
  cases s <;> exact ⟨rfl, rfl, rfl, rfl⟩

/-! ### whole call histories of the generated members -/

/-- one call on `MPIFuture<R,S>` executed by the generated member bodies (`complete` and the completion inside `spin`
are the environment, not code) -/
def genStep2 (f : MpiFut2) : FOp2 → Option (FObs × MpiFut2)
  | .call .valid => genFut Gen.MpiFuture.valid f
  | .call .ready => genFut Gen.MpiFuture.ready f
  | .call .wait => genFut Gen.MpiFuture.wait f
  | .call .get => genFut Gen.MpiFuture.get f
  | .call .complete => some (.env, { f with base := f.base.envComplete })
  | .call .spin => genFut Gen.MpiFuture.ready { f with base := f.base.envComplete }
  | .sendData => genFut Gen.MpiFuture.getSendData f

def genRun2 : MpiFut2 → List FOp2 → Option (List FObs × MpiFut2)
  | s, [] => some ([], s)
  | s, o :: os =>
    match genStep2 s o with
    | none => none
    | some r =>
      match genRun2 r.2 os with
      | none => none
      | some rest => some (r.1 :: rest.1, rest.2)

theorem genStep2_eq (f : MpiFut2) (o : FOp2) : genStep2 f o = MpiFut2.step f o := by
  cases o with
  | sendData => exact gen_fut_send f
  | call c =>
    cases c with
    | valid => exact gen_fut_valid f
    | ready => exact gen_fut_ready f
    | wait => exact gen_fut_wait f
    | get => exact gen_fut_get f
    | complete => rfl
    | spin => exact gen_fut_ready _

theorem genRun2_eq (f : MpiFut2) (h : List FOp2) : genRun2 f h = runFut2 f h := by
  induction h generalizing f with
  | nil => rfl
  | cons o os ih =>
    simp only [genRun2, runFut2, genStep2_eq]
    cases MpiFut2.step f o with
    | none => rfl
    | some r => simp only [ih] <;> rfl

end DV.C19
