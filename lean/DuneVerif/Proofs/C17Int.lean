/-
C17 — lemmas about the machine-integer models of `power`, `factorial` and `binomial`
(every intermediate value goes through `chk`).  Used by Props/C17.lean.
-/
import DuneVerif.Model.C17
import Mathlib.Data.Nat.GCD.Basic
import Mathlib.Data.Nat.Choose.Basic
import Mathlib.Data.Nat.Factorial.Basic
import Mathlib.Algebra.Order.Ring.Abs
import Mathlib.Algebra.Order.Ring.Cast
import Mathlib.Tactic.Linarith
import Mathlib.Tactic.Ring
import Mathlib.Tactic.NormNum
import Mathlib.Algebra.Field.Basic

namespace DV.C17
open Nat

theorem fits_iff (t : IType) (x : Int) : t.fits x = true ↔ t.lo ≤ x ∧ x ≤ t.hi := by
  simp [IType.fits]

theorem chk_of_fits {t : IType} {x : Int} (h : t.fits x = true) : chk t x = some x := by
  simp [chk, h]

theorem chk_of_not_fits {t : IType} {x : Int} (h : t.fits x = false) : chk t x = none := by
  simp [chk, h]

theorem fits_between {t : IType} {a b x : Int} (ha : t.fits a = true) (hb : t.fits b = true)
    (h1 : a ≤ x) (h2 : x ≤ b) : t.fits x = true := by
  rw [fits_iff] at *; exact ⟨le_trans ha.1 h1, le_trans h2 hb.2⟩

/-- the range of a machine type is `[0, hi]` or `[-(hi+1), hi]` -/
theorem lo_cases (t : IType) : t.lo = 0 ∨ t.lo = -(t.hi + 1) := by
  unfold IType.lo IType.hi
  cases t.signed <;> simp

/-! ### factorial -/

theorem factLoop_spec (t : IType) (h1 : t.fits 1 = true) : ∀ (it k : Nat),
    t.fits (((k + it)! : Nat) : Int) = true →
    factLoop t it (k : Int) ((k ! : Nat) : Int) = some (((k + it)! : Nat) : Int)
  | 0, k, _ => by simp [factLoop]
  | it + 1, k, hf => by
    have hk1 : t.fits ((k : Int) + 1) = true := by
      refine fits_between h1 hf (by omega) ?_
      have : k + 1 ≤ (k + (it + 1))! := le_trans (by omega) (Nat.self_le_factorial _)
      exact_mod_cast this
    have hf1 : t.fits (((k ! : Nat) : Int) * ((k : Int) + 1)) = true := by
      have e : ((k ! : Nat) : Int) * ((k : Int) + 1) = (((k + 1)! : Nat) : Int) := by
        rw [Nat.factorial_succ]; push_cast; ring
      rw [e]
      refine fits_between h1 hf ?_ ?_
      · exact_mod_cast Nat.one_le_iff_ne_zero.mpr (Nat.factorial_ne_zero _)
      · exact_mod_cast Nat.factorial_le (by omega)
    have e : ((k ! : Nat) : Int) * ((k : Int) + 1) = (((k + 1)! : Nat) : Int) := by
      rw [Nat.factorial_succ]; push_cast; ring
    simp only [factLoop, chk_of_fits hk1, Option.bind_some, chk_of_fits hf1]
    rw [e]
    have := factLoop_spec t h1 it (k + 1) (by rw [show k + 1 + it = k + (it + 1) by omega]; exact hf)
    rw [show k + 1 + it = k + (it + 1) by omega] at this
    exact_mod_cast this

theorem factLoop_none (t : IType) : ∀ (it k : Nat),
    t.fits ((k ! : Nat) : Int) = true → t.fits (((k + it)! : Nat) : Int) = false →
    factLoop t it (k : Int) ((k ! : Nat) : Int) = none
  | 0, k, h, hf => by simp [h] at hf
  | it + 1, k, _, hf => by
    have e : ((k ! : Nat) : Int) * ((k : Int) + 1) = (((k + 1)! : Nat) : Int) := by
      rw [Nat.factorial_succ]; push_cast; ring
    simp only [factLoop]
    cases hk : t.fits ((k : Int) + 1)
    · simp [chk_of_not_fits hk]
    · simp only [chk_of_fits hk, Option.bind_some]
      cases hf1 : t.fits (((k ! : Nat) : Int) * ((k : Int) + 1))
      · simp [chk_of_not_fits hf1]
      · simp only [chk_of_fits hf1, Option.bind_some]
        rw [e] at hf1 ⊢
        have := factLoop_none t it (k + 1) hf1 (by rw [show k + 1 + it = k + (it + 1) by omega]; exact hf)
        exact_mod_cast this


/-! ### power -/

theorem powerLoop_spec (t : IType) (m : Int) : ∀ (n : Nat) (r : Int),
    (∀ j, 1 ≤ j → j ≤ n → t.fits (r * m ^ j) = true) → powerLoop t m n r = some (r * m ^ n)
  | 0, r, _ => by simp [powerLoop]
  | n + 1, r, h => by
    have h1 : t.fits (r * m) = true := by simpa using h 1 (le_refl 1) (by omega)
    simp only [powerLoop, chk_of_fits h1, Option.bind_some]
    rw [powerLoop_spec t m n (r * m) (fun j hj1 hjn => by
      have := h (j + 1) (by omega) (by omega)
      rw [pow_succ] at this
      rw [show r * m * m ^ j = r * (m ^ j * m) by ring]; exact this)]
    rw [pow_succ]; congr 1; ring

theorem powerLoop_none (t : IType) (m : Int) : ∀ (n : Nat) (r : Int), 1 ≤ n →
    t.fits (r * m ^ n) = false → powerLoop t m n r = none
  | 0, _, h, _ => by omega
  | n + 1, r, _, hf => by
    simp only [powerLoop]
    cases h1 : t.fits (r * m)
    · simp [chk_of_not_fits h1]
    · simp only [chk_of_fits h1, Option.bind_some]
      rcases Nat.eq_zero_or_pos n with hn | hn
      · subst hn; simp [h1] at hf
      · exact powerLoop_none t m n (r * m) hn (by
          rw [show r * m * m ^ n = r * m ^ (n + 1) by rw [pow_succ]; ring]; exact hf)

/-- if the final power is representable, so is every intermediate power -/
theorem fits_pow_mono (t : IType) (m : Int) (n j : Nat) (h1 : t.fits 1 = true) (hm : t.fits m = true)
    (hn : t.fits (m ^ n) = true) (hj : j ≤ n) : t.fits (m ^ j) = true := by
  rcases eq_or_lt_of_le hj with hjn | hjn
  · subst hjn; exact hn
  rw [fits_iff] at *
  have hhi : (1 : Int) ≤ t.hi := h1.2
  rcases lo_cases t with hlo | hlo
  · -- unsigned
    have hm0 : 0 ≤ m := by linarith [hm.1]
    rcases eq_or_lt_of_le hm0 with h0 | hpos
    · have hz : m = 0 := h0.symm
      subst hz
      cases j with
      | zero => simpa using h1
      | succ j' => rw [zero_pow (by omega)]; constructor <;> linarith
    · have hm1 : (1 : Int) ≤ m := by omega
      have hp := pow_nonneg hm0 j
      exact ⟨by linarith, le_trans (pow_le_pow_right₀ hm1 hj) hn.2⟩
  · -- signed: bound the absolute value by hi
    suffices h : |m ^ j| ≤ t.hi by
      rw [abs_le] at h; exact ⟨by linarith [h.1], h.2⟩
    rw [abs_pow]
    rcases le_or_gt |m| 1 with hs | hb
    · exact le_trans (pow_le_one₀ (abs_nonneg m) hs) hhi
    · have hle : |m| ^ (j + 1) ≤ |m| ^ n := pow_le_pow_right₀ (le_of_lt hb) (by omega)
      have habs : |m| ^ n ≤ t.hi + 1 := by
        rw [← abs_pow, abs_le]; constructor <;> linarith [hn.1, hn.2]
      have h2 : |m| ^ j * 2 ≤ |m| ^ (j + 1) := by
        rw [pow_succ]; exact mul_le_mul_of_nonneg_left (by omega) (pow_nonneg (abs_nonneg m) j)
      have hge1 : 1 ≤ |m| ^ j := one_le_pow₀ (le_of_lt hb)
      omega

/-- `power(m, p)` for `p ≥ 0`: the exact power if it is representable, otherwise an overflow -/
theorem powerI_nat (t te : IType) (m : Int) (p : Nat) (h1 : t.fits 1 = true) (hm : t.fits m = true) :
    powerI t te m (p : Int) = if t.fits (m ^ p) then some (m ^ p) else none := by
  have hp : ¬ ((p : Int) < 0) := by omega
  simp only [powerI, hp, if_false, Option.bind_some, Int.toNat_natCast]
  cases hf : t.fits (m ^ p)
  · rcases Nat.eq_zero_or_pos p with h0 | hpos
    · subst h0; simp [h1] at hf
    · rw [powerLoop_none t m p 1 hpos (by simpa using hf)]; simp
  · rw [powerLoop_spec t m p 1 (fun j _ hjp => by
      simpa using fits_pow_mono t m p j h1 hm hf hjp)]
    simp

/-! ### binomial -/

/-- one step of the overflow-free evaluation: `C(m+j, j) / (i/g) * (a/g) = C(m+j+1, j+1)` with
    `a = m+j+1`, `i = j+1`, `g = gcd a i`; the first division is exact -/
theorem choose_step (m j : Nat) :
    (m + j).choose j / ((j + 1) / Nat.gcd (m + j + 1) (j + 1)) * ((m + j + 1) / Nat.gcd (m + j + 1) (j + 1))
      = (m + j + 1).choose (j + 1) := by
  set a := m + j + 1 with ha
  set i := j + 1 with hi
  set g := Nat.gcd a i with hg
  set B := (m + j).choose j with hB
  set C := a.choose i with hC
  have gpos : 0 < g := Nat.gcd_pos_of_pos_right a (by omega)
  have key : a * B = C * i := Nat.add_one_mul_choose_eq (m + j) j
  have hai : a / g * g = a := Nat.div_mul_cancel (Nat.gcd_dvd_left a i)
  have hii : i / g * g = i := Nat.div_mul_cancel (Nat.gcd_dvd_right a i)
  have hcop : Nat.Coprime (a / g) (i / g) := Nat.coprime_div_gcd_div_gcd gpos
  have ipos : 0 < i / g := Nat.div_pos (Nat.le_of_dvd (by omega) (Nat.gcd_dvd_right a i)) gpos
  -- cancel g
  have key2 : (a / g) * B = C * (i / g) := by
    apply Nat.eq_of_mul_eq_mul_right gpos
    calc a / g * B * g = (a / g * g) * B := by ring
      _ = a * B := by rw [hai]
      _ = C * i := key
      _ = C * (i / g * g) := by rw [hii]
      _ = C * (i / g) * g := by ring
  have hdvd : (i / g) ∣ B := by
    have : (i / g) ∣ (a / g) * B := ⟨C, by rw [key2]; ring⟩
    exact (Nat.Coprime.dvd_of_dvd_mul_left hcop.symm this)
  obtain ⟨B', hB'⟩ := hdvd
  have : B / (i / g) = B' := by rw [hB']; exact Nat.mul_div_cancel_left B' ipos
  rw [this]
  apply Nat.eq_of_mul_eq_mul_right ipos
  calc B' * (a / g) * (i / g) = (a / g) * ((i / g) * B') := by ring
    _ = (a / g) * B := by rw [← hB']
    _ = C * (i / g) := key2

theorem choose_add_mono (m j j' : Nat) (h : j ≤ j') : (m + j).choose j ≤ (m + j').choose j' := by
  rw [← Nat.choose_symm_add, ← Nat.choose_symm_add]
  exact Nat.choose_le_choose m (by omega)





/-- the body of one iteration, in terms of natural numbers -/
theorem binom_body (m j : Nat) :
    let a : Int := (m : Int) + ((j : Int) + 1)
    let g : Int := (Int.gcd a ((j : Int) + 1) : Int)
    ((((m + j).choose j : Nat) : Int) / (((j : Int) + 1) / g)) * (a / g) = (((m + j + 1).choose (j + 1) : Nat) : Int) := by
  intro a g
  have ea : a = ((m + j + 1 : Nat) : Int) := by simp only [a]; push_cast; ring
  have ei : (j : Int) + 1 = ((j + 1 : Nat) : Int) := by push_cast; ring
  have eg : g = ((Nat.gcd (m + j + 1) (j + 1) : Nat) : Int) := by
    simp only [g]; rw [ea, ei, Int.gcd_natCast_natCast]
  rw [eg, ea, ei, ← choose_step m j]
  push_cast
  rfl

theorem binomLoop_spec (t : IType) (h0 : t.fits 0 = true) (n : Nat) (hn : t.fits (n : Int) = true) :
    ∀ (it m j : Nat), m + j + it ≤ n → (0 < it → j + it + 1 ≤ n) →
    t.fits (((m + j + it).choose (j + it) : Nat) : Int) = true →
    binomLoop t (m : Int) it ((j : Int) + 1) (((m + j).choose j : Nat) : Int)
      = some (((m + j + it).choose (j + it) : Nat) : Int)
  | 0, m, j, _, _, _ => by simp [binomLoop]
  | it + 1, m, j, h1, h2, hC => by
    have h2' := h2 (by omega)
    have hb := binom_body m j
    simp only at hb
    have fa : t.fits ((m : Int) + ((j : Int) + 1)) = true :=
      fits_between h0 hn (by omega) (by omega)
    have fb : t.fits (((m + j + 1).choose (j + 1) : Nat) : Int) = true := by
      refine fits_between h0 hC (by exact_mod_cast Nat.zero_le _) ?_
      have := choose_add_mono m (j + 1) (j + (it + 1)) (by omega)
      rw [show m + (j + 1) = m + j + 1 by omega, show m + (j + (it + 1)) = m + j + (it + 1) by omega] at this
      exact_mod_cast this
    have fi : t.fits ((j : Int) + 1 + 1) = true := fits_between h0 hn (by omega) (by omega)
    simp only [binomLoop, chk_of_fits fa, Option.bind_some, hb, chk_of_fits fb, chk_of_fits fi]
    have ih := binomLoop_spec t h0 n hn it m (j + 1) (by omega) (fun _ => by omega)
      (by rw [show m + (j + 1) + it = m + j + (it + 1) by omega, show j + 1 + it = j + (it + 1) by omega]; exact hC)
    rw [show m + (j + 1) + it = m + j + (it + 1) by omega, show j + 1 + it = j + (it + 1) by omega,
      show m + (j + 1) = m + j + 1 by omega] at ih
    rw [← ih]; push_cast; rfl

theorem binomLoop_none (t : IType) : ∀ (it m j : Nat),
    t.fits (((m + j).choose j : Nat) : Int) = true →
    t.fits (((m + j + it).choose (j + it) : Nat) : Int) = false →
    binomLoop t (m : Int) it ((j : Int) + 1) (((m + j).choose j : Nat) : Int) = none
  | 0, m, j, hs, hf => by simp [hs] at hf
  | it + 1, m, j, _, hf => by
    have hb := binom_body m j
    simp only at hb
    simp only [binomLoop]
    cases fa : t.fits ((m : Int) + ((j : Int) + 1))
    · simp [chk_of_not_fits fa]
    · simp only [chk_of_fits fa, Option.bind_some, hb]
      cases fb : t.fits (((m + j + 1).choose (j + 1) : Nat) : Int)
      · simp [chk_of_not_fits fb]
      · simp only [chk_of_fits fb, Option.bind_some]
        cases fi : t.fits ((j : Int) + 1 + 1)
        · simp [chk_of_not_fits fi]
        · simp only [chk_of_fits fi, Option.bind_some]
          have ih := binomLoop_none t it m (j + 1)
            (by rw [show m + (j + 1) = m + j + 1 by omega]; exact fb)
            (by rw [show m + (j + 1) + it = m + j + (it + 1) by omega, show j + 1 + it = j + (it + 1) by omega]; exact hf)
          rw [show m + (j + 1) = m + j + 1 by omega] at ih
          rw [← ih]; push_cast; rfl


theorem fits_zero_of_one {t : IType} (h1 : t.fits 1 = true) : t.fits 0 = true := by
  rw [fits_iff] at *
  rcases lo_cases t with h | h <;> constructor <;> omega

/-- the loop part, for `k ≤ n` with `k = 0 ∨ k < n` -/
theorem binomCore_nat (t : IType) (n k : Nat) (hk : k ≤ n) (hk' : k = 0 ∨ k + 1 ≤ n)
    (h1 : t.fits 1 = true) (hn : t.fits (n : Int) = true) :
    binomCore t (n : Int) (k : Int) =
      if t.fits ((n.choose k : Nat) : Int) then some ((n.choose k : Nat) : Int) else none := by
  have h0 := fits_zero_of_one h1
  have fnk : t.fits ((n : Int) - (k : Int)) = true := fits_between h0 hn (by omega) (by omega)
  have enk : (n : Int) - (k : Int) = ((n - k : Nat) : Int) := by omega
  simp only [binomCore, chk_of_fits fnk, Option.bind_some, Int.toNat_natCast]
  rw [enk]
  have hstart : ((1 : Int)) = ((((n - k) + 0).choose 0 : Nat) : Int) := by simp
  have hone : (1 : Int) = ((0 : Nat) : Int) + 1 := by simp
  cases hf : t.fits ((n.choose k : Nat) : Int)
  · have := binomLoop_none t k (n - k) 0 (by simpa using h1)
      (by rw [show n - k + 0 + k = n by omega, show 0 + k = k by omega]; exact hf)
    simp only [Nat.add_zero, Nat.choose_zero_right, Nat.cast_one, Nat.cast_zero, zero_add] at this
    simp [this]
  · have := binomLoop_spec t h0 n hn k (n - k) 0 (by omega) (fun hpos => by omega)
      (by rw [show n - k + 0 + k = n by omega, show 0 + k = k by omega]; exact hf)
    simp only [Nat.add_zero, Nat.choose_zero_right, Nat.cast_one, Nat.cast_zero, zero_add] at this
    rw [show n - k + k = n by omega] at this
    simp [this]

/-- `binomial(n,k)` for `0 ≤ k ≤ n`: the binomial coefficient if it is representable, otherwise an overflow -/
theorem binomial_nat (t : IType) (n k : Nat) (hk : k ≤ n) (h1 : t.fits 1 = true) (hn : t.fits (n : Int) = true) :
    binomial t (n : Int) (k : Int) =
      if t.fits ((n.choose k : Nat) : Int) then some ((n.choose k : Nat) : Int) else none := by
  have h0 := fits_zero_of_one h1
  have fnk : t.fits ((n : Int) - (k : Int)) = true := fits_between h0 hn (by omega) (by omega)
  have hc : ¬ ((k : Int) < 0 ∨ (k : Int) > (n : Int)) := by omega
  simp only [binomial, hc, if_false, chk_of_fits fnk, Option.bind_some]
  by_cases hgt : (k : Int) > (n : Int) - (k : Int)
  · simp only [hgt, if_true]
    have e : (n : Int) - (k : Int) = ((n - k : Nat) : Int) := by omega
    rw [e, binomCore_nat t n (n - k) (by omega) (by omega) h1 hn, Nat.choose_symm hk]
  · simp only [hgt, if_false]
    exact binomCore_nat t n k hk (by omega) h1 hn


/-! ### power over a field, folds of the classifiers -/

theorem powLoopK_eq {F : Type} [Field F] (m : F) : ∀ (n : Nat) (r : F), powLoopK m n r = r * m ^ n
  | 0, r => by simp [powLoopK]
  | n + 1, r => by rw [powLoopK, powLoopK_eq m n (r * m), pow_succ]; ring

theorem foldl_or {α} (f : α → Bool) : ∀ (v : List α) (acc : Bool),
    v.foldl (fun out x => out || f x) acc = (acc || v.any f)
  | [], acc => by simp
  | x :: xs, acc => by simp [foldl_or f xs, Bool.or_assoc]

theorem foldl_and {α} (f : α → Bool) : ∀ (v : List α) (acc : Bool),
    v.foldl (fun out x => out && f x) acc = (acc && v.all f)
  | [], acc => by simp
  | x :: xs, acc => by simp [foldl_and f xs, Bool.and_assoc]

end DV.C17
