import DuneVerif.Model.C13
/-! C13: the size of a packed message as a function of its field-type layout. Core Lean only. -/
namespace DV.C13

theorem groupBytes_eq_counts (sz : WireTy → Nat) : ∀ l : List WireTy,
    WireLayout.groupBytes sz l =
      l.count .int * sz .int + l.count .char * sz .char + l.count .global * sz .global
  | [] => by simp [WireLayout.groupBytes]
  | t :: ts => by
    have ih := groupBytes_eq_counts sz ts
    simp only [WireLayout.groupBytes, List.map_cons, List.sum_cons] at ih ⊢
    rw [ih]
    cases t <;> simp [Nat.add_mul] <;> omega

theorem groupBytes_le_of_covers (sz : WireTy → Nat) (a b : List WireTy) (h : WireLayout.covers a b = true) :
    WireLayout.groupBytes sz a ≤ WireLayout.groupBytes sz b := by
  simp only [WireLayout.covers, List.all_cons, List.all_nil, Bool.and_true, Bool.and_eq_true, decide_eq_true_eq] at h
  rw [groupBytes_eq_counts, groupBytes_eq_counts]
  have h1 := Nat.mul_le_mul_right (sz .int) h.1
  have h2 := Nat.mul_le_mul_right (sz .char) h.2.1
  have h3 := Nat.mul_le_mul_right (sz .global) h.2.2
  omega

theorem bytes_le_of_covers (sz : WireTy → Nat) (A B : WireLayout)
    (h1 : WireLayout.covers A.header B.header = true) (h2 : WireLayout.covers A.perIndex B.perIndex = true)
    (h3 : WireLayout.covers A.perPair B.perPair = true) (publish pairs : Nat) :
    A.bytes sz publish pairs ≤ B.bytes sz publish pairs := by
  unfold WireLayout.bytes
  have e1 := groupBytes_le_of_covers sz _ _ h1
  have e2 := Nat.mul_le_mul_left publish (groupBytes_le_of_covers sz _ _ h2)
  have e3 := Nat.mul_le_mul_left pairs (groupBytes_le_of_covers sz _ _ h3)
  omega

end DV.C13
