/-
C03 helper lemmas, part 2: the binary search of exists / at / operator[].  Core Lean only.
-/
import DuneVerif.Proofs.C03Sort

namespace DV.C03

theorem gAt_eq_map (xs : List Pair) (i : Int) : gAt xs i = (pAt xs i).map (·.g) := by
  unfold gAt pAt; split <;> simp

theorem pAt_some_iff {xs : List Pair} {i : Int} {p : Pair} :
    pAt xs i = some p ↔ 0 ≤ i ∧ ∃ h : i.toNat < xs.length, xs[i.toNat] = p := by
  unfold pAt
  by_cases h : i < 0
  · simp [h]; omega
  · simp only [h, if_false, List.getElem?_eq_some_iff]
    constructor
    · intro hh; exact ⟨by omega, hh⟩
    · intro hh; exact hh.2

theorem pAt_bounds {xs : List Pair} {i : Int} {p : Pair} (h : pAt xs i = some p) : 0 ≤ i ∧ i < xs.length := by
  obtain ⟨h0, h1, _⟩ := pAt_some_iff.1 h
  exact ⟨h0, by omega⟩

theorem pAt_isSome {xs : List Pair} {i : Int} (h0 : 0 ≤ i) (h1 : i < xs.length) : ∃ p, pAt xs i = some p := by
  have h : i.toNat < xs.length := by omega
  exact ⟨xs[i.toNat], pAt_some_iff.2 ⟨h0, h, rfl⟩⟩

theorem pAt_mem {xs : List Pair} {i : Int} {p : Pair} (h : pAt xs i = some p) : p ∈ xs := by
  obtain ⟨_, h1, h2⟩ := pAt_some_iff.1 h
  exact h2 ▸ List.getElem_mem h1

theorem mem_pAt {xs : List Pair} {p : Pair} (h : p ∈ xs) : ∃ i : Int, pAt xs i = some p := by
  obtain ⟨i, hi, hp⟩ := List.getElem_of_mem h
  refine ⟨(i : Int), pAt_some_iff.2 ⟨by omega, ?_⟩⟩
  simp only [Int.toNat_natCast]
  exact ⟨hi, hp⟩

theorem pairwise_pAt {R : Pair → Pair → Prop} {xs : List Pair} (hs : xs.Pairwise R) {i j : Int} {a b : Pair}
    (hij : i < j) (ha : pAt xs i = some a) (hb : pAt xs j = some b) : R a b := by
  obtain ⟨hi0, hi1, hi2⟩ := pAt_some_iff.1 ha
  obtain ⟨hj0, hj1, hj2⟩ := pAt_some_iff.1 hb
  have := List.pairwise_iff_getElem.1 hs i.toNat j.toNat hi1 hj1 (by omega)
  rw [hi2, hj2] at this
  exact this

theorem pAt_inj_of_strict {xs : List Pair} (hs : StrictG xs) {i j : Int} {a b : Pair}
    (ha : pAt xs i = some a) (hb : pAt xs j = some b) (hg : a.g = b.g) : i = j := by
  rcases Int.lt_trichotomy i j with h | h | h
  · have := pairwise_pAt hs h ha hb; omega
  · exact h
  · have := pairwise_pAt hs h hb ha; omega

theorem gAt_some_iff {xs : List Pair} {i : Int} {v : Int} : gAt xs i = some v ↔ ∃ p, pAt xs i = some p ∧ p.g = v := by
  rw [gAt_eq_map, Option.map_eq_some_iff]

/-- the loop terminates within the fuel and never reads outside the list — for every list, sorted or not -/
theorem searchLoop_total (xs : List Pair) (g : Int) :
    ∀ (fuel : Nat) (low high : Int), 0 ≤ low → high ≤ (xs.length : Int) - 1 → high - low ≤ fuel →
      ∃ r, searchLoop xs g fuel low high = some r ∧ low ≤ r ∧ (low ≤ high → r ≤ high) := by
  intro fuel
  induction fuel with
  | zero =>
    intro low high _ _ hf
    have : ¬ low < high := by omega
    exact ⟨low, by simp [searchLoop, this], Int.le_refl _, fun h => h⟩
  | succ f ih =>
    intro low high h0 hh hf
    by_cases hlt : low < high
    · have hp : Int.tdiv (high + low) 2 = (high + low) / 2 := Int.tdiv_eq_ediv_of_nonneg (by omega)
      obtain ⟨p, hpp⟩ := pAt_isSome (xs := xs) (i := (high + low) / 2) (by omega) (by omega)
      have hg : gAt xs ((high + low) / 2) = some p.g := gAt_some_iff.2 ⟨p, hpp, rfl⟩
      unfold searchLoop
      simp only [hlt, if_true, hp, hg]
      by_cases hc : p.g ≥ g
      · simp only [hc, if_true]
        obtain ⟨r, hr, h1, h2⟩ := ih low ((high + low) / 2) h0 (by omega) (by omega)
        exact ⟨r, hr, h1, fun _ => by have := h2 (by omega); omega⟩
      · simp only [hc, if_false]
        obtain ⟨r, hr, h1, h2⟩ := ih ((high + low) / 2 + 1) high (by omega) hh (by omega)
        exact ⟨r, hr, by omega, fun _ => h2 (by omega)⟩
    · exact ⟨low, by simp [searchLoop, hlt], Int.le_refl _, fun h => h⟩

/-- lower-bound invariant of the loop on a list with ascending global indices -/
theorem searchLoop_spec (xs : List Pair) (g : Int) (hs : SortedG xs) :
    ∀ (fuel : Nat) (low high : Int), 0 ≤ low → low ≤ high → high ≤ (xs.length : Int) - 1 → high - low ≤ fuel →
      (∀ (i : Int) (p : Pair), i < low → pAt xs i = some p → p.g < g) →
      (high = (xs.length : Int) - 1 ∨ ∃ p, pAt xs high = some p ∧ g ≤ p.g) →
      ∃ r, searchLoop xs g fuel low high = some r ∧ 0 ≤ r ∧ r ≤ (xs.length : Int) - 1 ∧
        (∀ (i : Int) (p : Pair), i < r → pAt xs i = some p → p.g < g) ∧
        (r = (xs.length : Int) - 1 ∨ ∃ p, pAt xs r = some p ∧ g ≤ p.g) := by
  intro fuel
  induction fuel with
  | zero =>
    intro low high h0 hlh hh hf hlo hhi
    have heq : low = high := by omega
    have : ¬ low < high := by omega
    refine ⟨low, by simp [searchLoop, this], h0, by omega, hlo, ?_⟩
    rw [heq]; exact hhi
  | succ f ih =>
    intro low high h0 hlh hh hf hlo hhi
    by_cases hlt : low < high
    · have hp : Int.tdiv (high + low) 2 = (high + low) / 2 := Int.tdiv_eq_ediv_of_nonneg (by omega)
      obtain ⟨p, hpp⟩ := pAt_isSome (xs := xs) (i := (high + low) / 2) (by omega) (by omega)
      have hg : gAt xs ((high + low) / 2) = some p.g := gAt_some_iff.2 ⟨p, hpp, rfl⟩
      unfold searchLoop
      simp only [hlt, if_true, hp, hg]
      by_cases hc : p.g ≥ g
      · simp only [hc, if_true]
        exact ih low ((high + low) / 2) h0 (by omega) (by omega) (by omega) hlo (Or.inr ⟨p, hpp, hc⟩)
      · simp only [hc, if_false]
        refine ih ((high + low) / 2 + 1) high (by omega) (by omega) hh (by omega) ?_ hhi
        intro i q hi hq
        by_cases hip : i = (high + low) / 2
        · subst hip
          rw [hpp] at hq; cases hq; omega
        · have : q.g ≤ p.g := pairwise_pAt hs (by omega) hq hpp
          omega
    · have heq : low = high := by omega
      refine ⟨low, by simp [searchLoop, hlt], h0, by omega, hlo, ?_⟩
      rw [heq]; exact hhi

/-- `search` always returns a position; on a non-empty list it is a valid index -/
theorem search_total (xs : List Pair) (g : Int) :
    ∃ r, search xs g = some r ∧ 0 ≤ r ∧ (xs ≠ [] → r < xs.length) := by
  obtain ⟨r, hr, h1, h2⟩ := searchLoop_total xs g xs.length 0 ((xs.length : Int) - 1) (Int.le_refl _) (Int.le_refl _) (by omega)
  refine ⟨r, hr, h1, fun hne => ?_⟩
  have : 0 < xs.length := List.length_pos_iff.2 hne
  have := h2 (by omega)
  omega

/-- on a non-empty ascending list `search` returns the lower bound of `g` -/
theorem search_spec (xs : List Pair) (g : Int) (hs : SortedG xs) (hne : xs ≠ []) :
    ∃ (r : Int) (p : Pair), search xs g = some r ∧ pAt xs r = some p ∧
      (∀ (i : Int) (q : Pair), i < r → pAt xs i = some q → q.g < g) ∧
      (g ∈ globals xs → p.g = g) := by
  have hpos : 0 < xs.length := List.length_pos_iff.2 hne
  obtain ⟨r, hr, h0, h1, hlo, hhi⟩ := searchLoop_spec xs g hs xs.length 0 ((xs.length : Int) - 1)
    (Int.le_refl _) (by omega) (Int.le_refl _) (by omega) (fun i p hi hp => by have := (pAt_bounds hp).1; omega) (Or.inl rfl)
  obtain ⟨p, hp⟩ := pAt_isSome (xs := xs) (i := r) h0 (by omega)
  refine ⟨r, p, hr, hp, hlo, ?_⟩
  intro hmem
  obtain ⟨q, hq, hqg⟩ := List.mem_map.1 hmem
  obtain ⟨j, hj⟩ := mem_pAt hq
  have hjr : r ≤ j := by
    by_cases hjr : j < r
    · have := hlo j q hjr hj; omega
    · omega
  have hle : p.g ≤ g := by
    by_cases hjr' : r = j
    · subst hjr'; rw [hp] at hj; cases hj; omega
    · have := pairwise_pAt hs (show r < j by omega) hp hj; omega
  rcases hhi with hlast | ⟨p', hp', hge⟩
  · -- r is the last index, hence j = r
    have := (pAt_bounds hj).2
    have hjr' : r = j := by omega
    subst hjr'; rw [hp] at hj; cases hj; exact hqg
  · rw [hp] at hp'; cases hp'; omega

/-! ### 32-bit `int` arithmetic -/

theorem fitsI32_iff (i : Int) : fitsI32 i = true ↔ -2147483648 ≤ i ∧ i ≤ 2147483647 := by
  simp [fitsI32]

theorem searchLoopI32_eq (xs : List Pair) (g : Int) (hlen : xs.length ≤ 1073741824) :
    ∀ (fuel : Nat) (low high : Int), 0 ≤ low → high ≤ (xs.length : Int) - 1 →
      searchLoopI32 xs g fuel low high = searchLoop xs g fuel low high := by
  intro fuel
  induction fuel with
  | zero => intro low high _ _; rfl
  | succ f ih =>
    intro low high h0 hh
    unfold searchLoopI32 searchLoop
    by_cases hlt : low < high
    · have hfit : fitsI32 (high + low) = true := (fitsI32_iff _).2 (by omega)
      have hp : Int.tdiv (high + low) 2 = (high + low) / 2 := Int.tdiv_eq_ediv_of_nonneg (by omega)
      simp only [hlt, if_true, hfit, Bool.not_true, Bool.false_eq_true, if_false, hp]
      cases hg : gAt xs ((high + low) / 2) with
      | none => rfl
      | some gp =>
        simp only []
        by_cases hc : gp ≥ g
        · simp only [hc, if_true]
          exact ih low ((high + low) / 2) h0 (by omega)
        · have hfit2 : fitsI32 ((high + low) / 2 + 1) = true := (fitsI32_iff _).2 (by omega)
          simp only [hc, if_false, hfit2, Bool.not_true, Bool.false_eq_true]
          exact ih ((high + low) / 2 + 1) high (by omega) hh
    · simp only [hlt, if_false]

theorem searchI32_eq (xs : List Pair) (g : Int) (hlen : xs.length ≤ 1073741824) : searchI32 xs g = search xs g := by
  have hfit : fitsI32 ((xs.length : Int) - 1) = true := (fitsI32_iff _).2 (by omega)
  unfold searchI32 search
  simp only [hfit, Bool.not_true, Bool.false_eq_true, if_false]
  exact searchLoopI32_eq xs g hlen xs.length 0 _ (Int.le_refl _) (Int.le_refl _)

/-! ### the three lookups on ascending lists -/

theorem existsL_spec (xs : List Pair) (g : Int) (hs : SortedG xs) :
    existsL xs g = some (decide (g ∈ globals xs)) := by
  by_cases hne : xs = []
  · subst hne
    obtain ⟨r, hr, _, _⟩ := search_total [] g
    simp [existsL, hr, globals]
  · obtain ⟨r, p, hr, hp, _, hfound⟩ := search_spec xs g hs hne
    have hlen : xs.length ≠ 0 := by
      intro h; exact hne (List.eq_nil_of_length_eq_zero h)
    have hg : gAt xs r = some p.g := gAt_some_iff.2 ⟨p, hp, rfl⟩
    simp only [existsL, hr, hlen, if_false, hg]
    by_cases hmem : g ∈ globals xs
    · simp [hfound hmem, hmem]
    · have : p.g ≠ g := by
        intro h; exact hmem (h ▸ List.mem_map.2 ⟨p, pAt_mem hp, rfl⟩)
      simp [this, hmem]

/-- `at` returns the first stored pair with this global index, or RangeError when there is none -/
theorem atL_spec (xs : List Pair) (g : Int) (hs : SortedG xs) :
    atL xs g = some (match xs.find? (·.g == g) with | some p => .ok p | none => .error .range) := by
  by_cases hne : xs = []
  · subst hne
    obtain ⟨r, hr, _, _⟩ := search_total [] g
    simp [atL, hr]
  · obtain ⟨r, p, hr, hp, hlo, hfound⟩ := search_spec xs g hs hne
    have hlen : xs.length ≠ 0 := by
      intro h; exact hne (List.eq_nil_of_length_eq_zero h)
    simp only [atL, hr, hlen, if_false, hp]
    by_cases hpg : p.g = g
    · -- p is the first entry with global g
      have hfind : xs.find? (·.g == g) = some p := by
        obtain ⟨h0, h1, h2⟩ := pAt_some_iff.1 hp
        rw [List.find?_eq_some_iff_getElem]
        refine ⟨by simp [hpg], r.toNat, h1, h2, ?_⟩
        intro j hj
        have hjlt : j < xs.length := by omega
        have := hlo (j : Int) xs[j] (by omega) (pAt_some_iff.2 ⟨by omega, by simpa using hjlt, by simp⟩)
        simp; omega
      simp [hpg, hfind]
    · have hnot : g ∉ globals xs := fun h => hpg (hfound h)
      have hfind : xs.find? (·.g == g) = none := by
        rw [List.find?_eq_none]
        intro x hx hxg
        exact hnot (List.mem_map.2 ⟨x, hx, by simpa using hxg⟩)
      simp [hpg, hfind]

theorem getL_spec (xs : List Pair) (g : Int) (hs : SortedG xs) (hmem : g ∈ globals xs) :
    ∃ (i : Nat) (p : Pair), getL xs g = some (i, p) ∧ xs[i]? = some p ∧ xs.find? (·.g == g) = some p := by
  have hne : xs ≠ [] := by
    intro h; subst h; simp [globals] at hmem
  obtain ⟨r, p, hr, hp, hlo, hfound⟩ := search_spec xs g hs hne
  obtain ⟨h0, h1, h2⟩ := pAt_some_iff.1 hp
  refine ⟨r.toNat, p, by simp [getL, hr, hp], ?_, ?_⟩
  · rw [List.getElem?_eq_some_iff]; exact ⟨h1, h2⟩
  · have hpg := hfound hmem
    rw [List.find?_eq_some_iff_getElem]
    refine ⟨by simp [hpg], r.toNat, h1, h2, ?_⟩
    intro j hj
    have hjlt : j < xs.length := by omega
    have := hlo (j : Int) xs[j] (by omega) (pAt_some_iff.2 ⟨by omega, by simpa using hjlt, by simp⟩)
    simp; omega

/-- with strictly ascending globals the first pair with global `p.g` is `p` itself -/
theorem find_of_strict {xs : List Pair} (hs : StrictG xs) {p : Pair} (hp : p ∈ xs) :
    xs.find? (·.g == p.g) = some p := by
  induction xs with
  | nil => cases hp
  | cons x xs ih =>
    unfold StrictG at hs
    rw [List.pairwise_cons] at hs
    rcases List.mem_cons.1 hp with rfl | hp'
    · simp
    · have : x.g < p.g := hs.1 p hp'
      have hne : (x.g == p.g) = false := by simp; omega
      rw [List.find?_cons, hne]
      exact ih hs.2 hp'

end DV.C03
