import DuneVerif.Proofs.C09
import DuneVerif.Proofs.C09LU
/-!
# C09 — the functions of the abstraction layer for LoopSIMD: lane, lane assignment, cond, mask reductions,
broadcast, nested lane numbering (core Lean only).  All statements are about the definitions the translator
regenerates (`Gen.laneInner/laneOuter/laneCount`, `Gen.loop_condLanes`, `Gen.red_*`, `Gen.scalarReduce`, `Gen.scalarCond`).
-/
namespace DV.C09
open Gen

section Lane
variable {α : Type} {S S₂ : Nat}

/-- `lane(l, v)` of a vector of scalars is entry `l` -/
theorem lane_flat (v : Vec α S) (l : Nat) (hl : l < S) : Simd.lane l v = some v[l] := by
  simp [Simd.lane, laneOuter, laneInner, Nat.div_one, Nat.mod_one, Vector.getElem?_eq_getElem hl]

/-- **nested_lane_divmod**: lane `l` of a vector of vectors is lane `l % S₂` of entry `l / S₂` … -/
theorem nested_lane_divmod (v : Vec (Vec α S₂) S) (l : Nat) (hl : l < S * S₂) :
    ∃ (h1 : l / S₂ < S) (h2 : l % S₂ < S₂), Simd.laneNested l v = some (v[l / S₂])[l % S₂] := by
  have hS2 : 0 < S₂ := by
    rcases Nat.eq_zero_or_pos S₂ with h | h
    · subst h; simp at hl
    · exact h
  have h1 : l / S₂ < S := Nat.div_lt_of_lt_mul (by rw [Nat.mul_comm]; exact hl)
  have h2 : l % S₂ < S₂ := Nat.mod_lt _ hS2
  refine ⟨h1, h2, ?_⟩
  simp [Simd.laneNested, laneCount, laneOuter, laneInner, hl, Vector.getElem?_eq_getElem h1,
    Vector.getElem?_eq_getElem h2]

/-- … i.e. entry `(i, j)` is lane `i * S₂ + j`: the lanes are numbered in storage order -/
theorem nested_lane_entry_aux (v : Vec (Vec α S₂) S) (i j : Nat) (hi : i < S) (hj : j < S₂) :
    Simd.laneNested (i * S₂ + j) v = some (v[i])[j] := by
  have hS2 : 0 < S₂ := Nat.lt_of_le_of_lt (Nat.zero_le _) hj
  have hl : i * S₂ + j < S * S₂ := by
    have : (i + 1) * S₂ ≤ S * S₂ := Nat.mul_le_mul_right _ hi
    rw [Nat.add_mul, Nat.one_mul] at this
    omega
  have hd : (i * S₂ + j) / S₂ = i := by
    rw [Nat.mul_comm, Nat.mul_add_div hS2, Nat.div_eq_of_lt hj, Nat.add_zero]
  have hm : (i * S₂ + j) % S₂ = j := by
    rw [Nat.mul_comm, Nat.mul_add_mod, Nat.mod_eq_of_lt hj]
  simp [Simd.laneNested, laneCount, laneOuter, laneInner, hl, hd, hm, Vector.getElem?_eq_getElem hi,
    Vector.getElem?_eq_getElem hj]

theorem laneCount_nested : laneCount S (laneCount S₂ 1) = S * S₂ := by simp [laneCount]

/-- assignment through `lane(l, v)` changes lane `l` only -/
theorem lane_setLane (v : Vec α S) (l l' : Nat) (x : α) (hl : l < S) (hl' : l' < S) :
    ∃ v', Simd.setLane l x v = some v' ∧ Simd.lane l' v' = some (if l = l' then x else v[l']) := by
  refine ⟨v.set l x hl, ?_, ?_⟩
  · simp [Simd.setLane, laneOuter, laneInner, Nat.div_one, Nat.mod_one, hl]
  · rw [lane_flat _ _ hl', Vector.getElem_set]

theorem lane_broadcast (x : α) (l : Nat) (hl : l < S) : Simd.lane l (Simd.broadcast (S := S) x) = some x := by
  rw [lane_flat _ _ hl]; simp [Simd.broadcast]

end Lane

section Cond
variable {α : Type} {S S₂ : Nat}

private theorem condLanes_eq (n : Nat) (gm : Nat → Option Bool) (ga gb : Nat → Option α) :
    Simd.condLanes n gm ga gb = allSome (Vector.ofFn fun l : Fin n =>
      (gm l.val).bind fun c => (ga l.val).bind fun x => (gb l.val).bind fun y => some (if c then x else y)) := by
  unfold Simd.condLanes
  have hargs : loop_condLanes.args = [.vec 0 .i, .vec 1 .i, .vec 2 .i] := by decide
  rw [hargs]
  simp only
  rw [loopOut_canonical loop_condLanes (by decide) (by decide)]
  congr 1

/-- **lane_cond** for a vector of scalars: `cond(mask, a, b)` is `mask[l] ? a[l] : b[l]` in every lane -/
theorem cond_flat (m : Vec Bool S) (a b : Vec α S) :
    Simd.cond m a b = some (Vector.ofFn fun i : Fin S => if m[i] then a[i] else b[i]) := by
  unfold Simd.cond
  rw [condLanes_eq]
  have h1 : allSome (Vector.ofFn fun l : Fin (laneCount S 1) =>
      (Simd.lane l.val m).bind fun c => (Simd.lane l.val a).bind fun x => (Simd.lane l.val b).bind fun y =>
        some (if c then x else y)) =
      some (Vector.ofFn fun l : Fin (laneCount S 1) =>
        if m[l.val]'(by have := l.isLt; simpa [laneCount] using this) then a[l.val]'(by have := l.isLt; simpa [laneCount] using this)
        else b[l.val]'(by have := l.isLt; simpa [laneCount] using this)) := by
    rw [allSome_eq_some_iff]
    intro i hi
    have hi' : i < S := by simpa [laneCount] using hi
    simp [Vector.getElem_ofFn, lane_flat _ _ hi']
  rw [h1]
  simp only [Option.bind_some]
  rw [allSome_eq_some_iff]
  intro i hi
  have hi' : i < laneCount S 1 := by simpa [laneCount] using hi
  simp only [Vector.getElem_ofFn, laneOuter, laneInner, Nat.div_one, Nat.mod_one, and_self, if_true]
  rw [Vector.getElem?_eq_getElem hi', Vector.getElem_ofFn]
  rfl

/-- **lane_cond** for a vector of vectors: the selection happens in every lane of every entry -/
theorem cond_nested (m : Vec (Vec Bool S₂) S) (a b : Vec (Vec α S₂) S) :
    Simd.condNested m a b =
      some (Vector.ofFn fun i : Fin S => Vector.ofFn fun j : Fin S₂ => if (m[i])[j] then (a[i])[j] else (b[i])[j]) := by
  unfold Simd.condNested
  rw [condLanes_eq]
  have hlanes : ∀ l : Fin (laneCount S S₂), l.val < S * S₂ := fun l => by have := l.isLt; simpa [laneCount] using this
  have h1 : allSome (Vector.ofFn fun l : Fin (laneCount S S₂) =>
      (Simd.laneNested l.val m).bind fun c => (Simd.laneNested l.val a).bind fun x => (Simd.laneNested l.val b).bind fun y =>
        some (if c then x else y)) =
      some (Vector.ofFn fun l : Fin (laneCount S S₂) =>
        if (m[l.val / S₂]'(nested_lane_divmod m l.val (hlanes l)).1)[l.val % S₂]'(nested_lane_divmod m l.val (hlanes l)).2.1
        then (a[l.val / S₂]'(nested_lane_divmod m l.val (hlanes l)).1)[l.val % S₂]'(nested_lane_divmod m l.val (hlanes l)).2.1
        else (b[l.val / S₂]'(nested_lane_divmod m l.val (hlanes l)).1)[l.val % S₂]'(nested_lane_divmod m l.val (hlanes l)).2.1) := by
    rw [allSome_eq_some_iff]
    intro i hi
    have hi' : i < S * S₂ := by simpa [laneCount] using hi
    obtain ⟨_, _, hm⟩ := nested_lane_divmod m i hi'
    obtain ⟨_, _, ha⟩ := nested_lane_divmod a i hi'
    obtain ⟨_, _, hb⟩ := nested_lane_divmod b i hi'
    simp [Vector.getElem_ofFn, hm, ha, hb]
  rw [h1]
  simp only [Option.bind_some]
  rw [allSome_eq_some_iff]
  intro i hi
  simp only [Vector.getElem_ofFn]
  rw [allSome_eq_some_iff]
  intro j hj
  have hS2 : 0 < S₂ := Nat.lt_of_le_of_lt (Nat.zero_le _) hj
  have hl : i * S₂ + j < laneCount S S₂ := by
    have : (i + 1) * S₂ ≤ S * S₂ := Nat.mul_le_mul_right _ hi
    rw [Nat.add_mul, Nat.one_mul] at this
    simp only [laneCount]
    omega
  have hd : (i * S₂ + j) / S₂ = i := by
    rw [Nat.mul_comm, Nat.mul_add_div hS2, Nat.div_eq_of_lt hj, Nat.add_zero]
  have hm : (i * S₂ + j) % S₂ = j := by
    rw [Nat.mul_comm, Nat.mul_add_mod, Nat.mod_eq_of_lt hj]
  simp only [Vector.getElem_ofFn, laneOuter, laneInner, hd, hm, and_self, if_true]
  rw [Vector.getElem?_eq_getElem hl, Vector.getElem_ofFn]
  simp only [hd, hm, Fin.getElem_fin]

/-- the `cond` of the vector instance used by the dense algorithms is the translated one -/
theorem cond_loop_instance (m : Vec Bool S) (a b : Vec α S) :
    Simd.cond m a b = some ((SimdLike.loop S).cond m a b) := by
  rw [cond_flat]; rfl

end Cond

section Reductions
variable {μ : Type} {S S₂ : Nat}

private theorem foldl_or_g (g : μ → Bool) (l : List μ) (init : Bool) :
    l.foldl (fun out e => out || g e) init = (init || l.any g) := by
  induction l generalizing init with
  | nil => simp
  | cons x xs ih => simp [ih, Bool.or_assoc]

private theorem foldl_and_g (g : μ → Bool) (l : List μ) (init : Bool) :
    l.foldl (fun out e => out && g e) init = (init && l.all g) := by
  induction l generalizing init with
  | nil => simp
  | cons x xs ih => simp [ih, Bool.and_assoc]

private theorem reduce_prefix (R : Reduce) (hix : R.ix = .i) (g : μ → Bool) (m : Vec μ S) (k : Nat) (hk : k ≤ S) :
    (List.range' 0 k).foldl (Simd.stepRed R (fun e => some (g e)) m) (some R.init) =
      some ((m.toList.take k).foldl (fun out e => if R.isOr then (out || g e) else (out && g e)) R.init) := by
  induction k with
  | zero => simp
  | succ k ih =>
    have hkS : k < S := hk
    have hlen : k < m.toList.length := by simpa using hkS
    rw [List.range'_concat, List.foldl_append, ih (Nat.le_of_succ_le hk)]
    rw [List.take_succ_eq_append_getElem hlen, List.foldl_append]
    simp [Simd.stepRed, hix, rd, ixEval, Vector.getElem?_eq_getElem hkS]

/-- a canonical reduction loop folds `|=` / `&=` over all entries, in order -/
theorem reduce_canonical (R : Reduce) (hlo : R.lo = 0) (hhi : R.hiMinus = 0) (hix : R.ix = .i) (g : μ → Bool) (m : Vec μ S) :
    Simd.reduce R (fun e => some (g e)) m =
      some (m.toList.foldl (fun out e => if R.isOr then (out || g e) else (out && g e)) R.init) := by
  unfold Simd.reduce
  rw [hlo, hhi]
  simp only [Nat.sub_zero]
  rw [reduce_prefix R hix g m S (Nat.le_refl S)]
  congr 2
  apply List.take_of_length_le
  simp

/-- what each reduction says about the lanes -/
def redSpec (k : RedKind) (lanes : List Bool) : Bool :=
  match k with
  | .anyTrue => lanes.any id
  | .allTrue => lanes.all id
  | .anyFalse => lanes.any (!·)
  | .allFalse => lanes.all (!·)

theorem reduceFlat_eq (k : RedKind) (m : Vec Bool S) : Simd.reduceFlat k m = some (redSpec k m.toList) := by
  unfold Simd.reduceFlat
  cases k <;>
  · simp only [reduceOf]
    rw [reduce_canonical _ (by decide) (by decide) (by decide)]
    first
      | (simp only [red_anyTrue, scalarReduce, if_true, redSpec]; rw [foldl_or_g]; simp)
      | (simp only [red_allTrue, scalarReduce, Bool.false_eq_true, if_false, redSpec]; rw [foldl_and_g]; simp)
      | (simp only [red_anyFalse, scalarReduce, if_true, redSpec]; rw [foldl_or_g]; simp)
      | (simp only [red_allFalse, scalarReduce, Bool.false_eq_true, if_false, redSpec]; rw [foldl_and_g]; simp)

theorem reduceNested_eq (k : RedKind) (m : Vec (Vec Bool S₂) S) :
    Simd.reduceNested k m = some (redSpec k (Simd.flatten m)) := by
  unfold Simd.reduceNested
  have hinner : ∀ k', (Simd.reduceFlat (S := S₂) k') = fun e => some (redSpec k' e.toList) := by
    intro k'; funext e; exact reduceFlat_eq k' e
  cases k <;>
  · simp only [reduceOf]
    first
      | (simp only [red_anyTrue]; rw [hinner, reduce_canonical _ rfl rfl rfl]
         simp only [if_true, redSpec, Simd.flatten]; rw [foldl_or_g]; simp [List.any_flatten, List.any_map])
      | (simp only [red_allTrue]; rw [hinner, reduce_canonical _ rfl rfl rfl]
         simp only [Bool.false_eq_true, if_false, redSpec, Simd.flatten]; rw [foldl_and_g]; simp [List.all_flatten, List.all_map])
      | (simp only [red_anyFalse]; rw [hinner, reduce_canonical _ rfl rfl rfl]
         simp only [if_true, redSpec, Simd.flatten]; rw [foldl_or_g]; simp [List.any_flatten, List.any_map])
      | (simp only [red_allFalse]; rw [hinner, reduce_canonical _ rfl rfl rfl]
         simp only [Bool.false_eq_true, if_false, redSpec, Simd.flatten]; rw [foldl_and_g]; simp [List.all_flatten, List.all_map])

private theorem mem_toList_iff (m : Vec Bool S) (b : Bool) : b ∈ m.toList ↔ ∃ l, ∃ h : l < S, m[l] = b := by
  constructor
  · intro h
    obtain ⟨i, hi, e⟩ := List.getElem_of_mem h
    have hi' : i < S := by simpa using hi
    exact ⟨i, hi', by simpa using e⟩
  · rintro ⟨l, hl, rfl⟩
    simp

/-- **anyTrue_iff_flat** and its three companions: the reductions of a flat mask are ∃/∀ over the lanes -/
theorem anyTrue_iff_flat (m : Vec Bool S) :
    ∃ r, Simd.reduceFlat .anyTrue m = some r ∧ (r = true ↔ ∃ l, ∃ h : l < S, m[l] = true) := by
  refine ⟨_, reduceFlat_eq _ m, ?_⟩
  simp only [redSpec, List.any_eq_true, id]
  constructor
  · rintro ⟨x, hx, rfl⟩; exact (mem_toList_iff m true).mp hx
  · intro h; exact ⟨true, (mem_toList_iff m true).mpr h, rfl⟩

theorem allTrue_iff_flat (m : Vec Bool S) :
    ∃ r, Simd.reduceFlat .allTrue m = some r ∧ (r = true ↔ ∀ l, ∀ h : l < S, m[l] = true) := by
  refine ⟨_, reduceFlat_eq _ m, ?_⟩
  simp only [redSpec, List.all_eq_true, id]
  constructor
  · intro h l hl; exact h _ ((mem_toList_iff m m[l]).mpr ⟨l, hl, rfl⟩)
  · intro h x hx
    obtain ⟨l, hl, e⟩ := (mem_toList_iff m x).mp hx
    rw [← e]; exact h l hl

theorem anyFalse_iff_flat (m : Vec Bool S) :
    ∃ r, Simd.reduceFlat .anyFalse m = some r ∧ (r = true ↔ ∃ l, ∃ h : l < S, m[l] = false) := by
  refine ⟨_, reduceFlat_eq _ m, ?_⟩
  simp only [redSpec, List.any_eq_true]
  constructor
  · rintro ⟨x, hx, hn⟩
    have : x = false := by simpa using hn
    subst this
    exact (mem_toList_iff m false).mp hx
  · intro h; exact ⟨false, (mem_toList_iff m false).mpr h, rfl⟩

theorem allFalse_iff_flat (m : Vec Bool S) :
    ∃ r, Simd.reduceFlat .allFalse m = some r ∧ (r = true ↔ ∀ l, ∀ h : l < S, m[l] = false) := by
  refine ⟨_, reduceFlat_eq _ m, ?_⟩
  simp only [redSpec, List.all_eq_true]
  constructor
  · intro h l hl
    have := h _ ((mem_toList_iff m m[l]).mpr ⟨l, hl, rfl⟩)
    simpa using this
  · intro h x hx
    obtain ⟨l, hl, e⟩ := (mem_toList_iff m x).mp hx
    rw [← e, h l hl]; rfl

/-- the reductions of the vector instance used by the dense algorithms are the translated ones -/
theorem anyTrue_loop_instance (m : Vec Bool S) : Simd.reduceFlat .anyTrue m = some ((SimdLike.loop S).anyTrue m) := by
  rw [reduceFlat_eq]
  simp only [redSpec, SimdLike.loop, scalarReduce]
  rw [foldl_or_g]
  simp
theorem allTrue_loop_instance (m : Vec Bool S) : Simd.reduceFlat .allTrue m = some ((SimdLike.loop S).allTrue m) := by
  rw [reduceFlat_eq]
  simp only [redSpec, SimdLike.loop, scalarReduce]
  rw [foldl_and_g]
  simp

end Reductions

section Bridge
variable {α β γ : Type} {S : Nat}

theorem allSome_map_some (f : α → β) (a : Vec α S) : allSome (a.map fun x => some (f x)) = some (a.map f) := by
  rw [allSome_eq_some_iff]; intro i hi; simp
theorem allSome_zipWith_some (f : α → β → γ) (a : Vec α S) (b : Vec β S) :
    allSome (Vector.zipWith (fun x y => some (f x y)) a b) = some (Vector.zipWith f a b) := by
  rw [allSome_eq_some_iff]; intro i hi; simp

/-- for total scalar operations the translated binary loop *is* the `map2` of the vector instance (e.g. `-`, `*`,
    `/`, `>` on floating-point numbers in the dense algorithms) -/
theorem binaryVV_loop_instance (op : BinOp) (f : α → α → α) (a b : Vec α S) :
    Simd.binaryVV (fun _ x y => some (f x y)) op a b = some ((SimdLike.loop S).map2 f a b) := by
  rw [lanewise_binaryVV, allSome_zipWith_some]; rfl
theorem compareVV_loop_instance (op : CmpOp) (f : α → α → Bool) (a b : Vec α S) :
    Simd.compareVV (fun _ x y => some (f x y)) op a b = some ((SimdLike.loop S).map2 f a b) := by
  rw [lanewise_compareVV, allSome_zipWith_some]; rfl
theorem math_loop_instance (op : MathOp) (f : α → α) (a : Vec α S) :
    Simd.math (fun _ x => some (f x)) op a = some ((SimdLike.loop S).map f a) := by
  rw [lanewise_math, allSome_map_some]; rfl

end Bridge

end DV.C09
