/-
C16 — what the translated operator bodies (DuneVerif/Gen/C16.lean, regenerated from the headers on every run) say,
as equations about the model's operators.  Every lemma here is closed by `rfl`: it holds exactly when the generated
expression *is* the expected one up to evaluation.  A change of the source that alters the meaning of one of the
bodies makes the corresponding lemma (and with it the property theorems that use it) fail to compile.
Core Lean only.
-/
import DuneVerif.Model.C16

namespace DV.C16

/-! ### position based primitives -/
theorem posCore_equals (a b : It) : posCore.equals a b = (decide (a.pos = b.pos) && (a.cont == b.cont)) := rfl
theorem posCore_increment (a : It) : posCore.increment a = { a with pos := a.pos + 1 } := rfl
theorem posCore_decrement (a : It) : posCore.decrement a = { a with pos := a.pos - 1 } := rfl
theorem posCore_advance (a : It) (n : Int) : posCore.advance a n = { a with pos := a.pos + n } := rfl
theorem posCore_distanceTo (a b : It) : posCore.distanceTo a b = b.pos - a.pos := rfl
theorem dereference_spec (c : List Int) (a : It) : dereference c a = getAt c a.pos := rfl
theorem elementAt_spec (c : List Int) (a : It) (i : Int) : elementAt c a i = getAt c (a.pos + i) := rfl

theorem alCore_equals (a b : It) : alCore.equals a b = decide (a.pos = b.pos) := rfl
theorem alCore_increment (a : It) : alCore.increment a = { a with pos := a.pos + 1 } := rfl
theorem alCore_decrement (a : It) : alCore.decrement a = { a with pos := a.pos - 1 } := rfl
theorem alCore_advance (a : It) (n : Int) : alCore.advance a n = { a with pos := a.pos + n } := rfl
theorem alCore_distanceTo (a b : It) : alCore.distanceTo a b = b.pos - a.pos := rfl
theorem alDereference_spec (c : List Int) (a : It) : alDereference c a = getAt c a.pos := rfl
theorem alElementAt_spec (c : List Int) (a : It) (i : Int) : alElementAt c a i = getAt c (a.pos + i) := rfl

/-! ### legacy facades -/
namespace Legacy
variable {I : Type} (k : Core I)
theorem eq_spec (conv : Bool) (l r : I) : eq k conv l r = if conv then k.equals l r else k.equals r l := by cases conv <;> rfl
theorem ne_spec (conv : Bool) (l r : I) : ne k conv l r = if conv then !k.equals l r else !k.equals r l := by cases conv <;> rfl
theorem eqFw_spec (conv : Bool) (l r : I) : eqFw k conv l r = if conv then k.equals l r else k.equals r l := by cases conv <;> rfl
theorem neFw_spec (conv : Bool) (l r : I) : neFw k conv l r = if conv then !k.equals l r else !k.equals r l := by cases conv <;> rfl
theorem eqBi_spec (conv : Bool) (l r : I) : eqBi k conv l r = if conv then k.equals l r else k.equals r l := by cases conv <;> rfl
theorem neBi_spec (conv : Bool) (l r : I) : neBi k conv l r = !eqBi k conv l r := rfl
theorem lt_spec (conv : Bool) (l r : I) :
    lt k conv l r = if conv then decide (k.distanceTo l r > 0) else decide (k.distanceTo r l < 0) := by cases conv <;> rfl
theorem le_spec (conv : Bool) (l r : I) :
    le k conv l r = if conv then decide (k.distanceTo l r ≥ 0) else decide (k.distanceTo r l ≤ 0) := by cases conv <;> rfl
theorem gt_spec (conv : Bool) (l r : I) :
    gt k conv l r = if conv then decide (k.distanceTo l r < 0) else decide (k.distanceTo r l > 0) := by cases conv <;> rfl
theorem ge_spec (conv : Bool) (l r : I) :
    ge k conv l r = if conv then decide (k.distanceTo l r ≤ 0) else decide (k.distanceTo r l ≥ 0) := by cases conv <;> rfl
theorem diff_spec (conv : Bool) (l r : I) :
    diff k conv l r = if conv then -(k.distanceTo l r) else k.distanceTo r l := by cases conv <;> rfl
theorem addAssign_spec (i : I) (n : Int) : addAssign k i n = k.advance i n := rfl
theorem subAssign_spec (i : I) (n : Int) : subAssign k i n = k.advance i (-n) := rfl
theorem plus_spec (i : I) (n : Int) : plus k i n = k.advance i n := rfl
theorem minus_spec (i : I) (n : Int) : minus k i n = k.advance i (-n) := rfl
theorem indexArg_spec (n : Int) : indexArg n = n := rfl
end Legacy

/-! ### IntegralRangeIterator, IntegralRange, StaticIntegralRange -/
namespace IR
theorem eq_spec (a b : IR) : eq a b = decide (a.value = b.value) := rfl
theorem ne_spec (a b : IR) : ne a b = decide (a.value ≠ b.value) := rfl
theorem lt_spec (a b : IR) : lt a b = decide (a.value < b.value) := rfl
theorem le_spec (a b : IR) : le a b = decide (a.value ≤ b.value) := rfl
theorem gt_spec (a b : IR) : gt a b = decide (a.value > b.value) := rfl
theorem ge_spec (a b : IR) : ge a b = decide (a.value ≥ b.value) := rfl
/-- for EVERY width of the integral type: the comparison bodies contain no machine difference -/
theorem eqW_spec (bits : Nat) (a b : IR) : eqW bits a b = decide (a.value = b.value) := rfl
theorem neW_spec (bits : Nat) (a b : IR) : neW bits a b = decide (a.value ≠ b.value) := rfl
theorem ltW_spec (bits : Nat) (a b : IR) : ltW bits a b = decide (a.value < b.value) := rfl
theorem leW_spec (bits : Nat) (a b : IR) : leW bits a b = decide (a.value ≤ b.value) := rfl
theorem gtW_spec (bits : Nat) (a b : IR) : gtW bits a b = decide (a.value > b.value) := rfl
theorem geW_spec (bits : Nat) (a b : IR) : geW bits a b = decide (a.value ≥ b.value) := rfl
theorem inc_spec (a : IR) : inc a = ⟨a.value + 1⟩ := rfl
theorem dec_spec (a : IR) : dec a = ⟨a.value - 1⟩ := rfl
theorem addAssign_spec (a : IR) (n : Int) : addAssign a n = ⟨a.value + n⟩ := rfl
theorem subAssign_spec (a : IR) (n : Int) : subAssign a n = ⟨a.value - n⟩ := rfl
theorem plus_spec (a : IR) (n : Int) : plus a n = ⟨a.value + n⟩ := rfl
theorem nplus_spec (n : Int) (a : IR) : nplus n a = ⟨a.value + n⟩ := rfl
theorem minus_spec (a : IR) (n : Int) : minus a n = ⟨a.value - n⟩ := rfl
theorem diff_spec (a b : IR) : diff a b = a.value - b.value := rfl
theorem deref_spec (a : IR) : deref a = a.value := rfl
theorem index_spec (a : IR) (n : Int) : index a n = a.value + n := rfl
end IR

namespace IntegralRange
theorem ofTo_spec (to : Int) : ofTo to = ⟨0, to⟩ := rfl
theorem begin_spec (r : IntegralRange) : r.begin_ = ⟨r.lo⟩ := rfl
theorem end_spec (r : IntegralRange) : r.end_ = ⟨r.hi⟩ := rfl
theorem get_spec (r : IntegralRange) (i : Int) : r.get i = r.lo + i := rfl
theorem empty_spec (r : IntegralRange) : r.empty = decide (r.lo = r.hi) := rfl
theorem size_spec (bits : Nat) (r : IntegralRange) : r.size bits = (r.hi % 2 ^ bits - r.lo % 2 ^ bits) % 2 ^ bits := rfl
theorem contains_spec (r : IntegralRange) (x : Int) : r.contains x = (decide (r.lo ≤ x) && decide (x < r.hi)) := rfl
end IntegralRange

namespace SR
theorem begin_spec (r : IntegralRange) : begin_ r = ⟨r.lo⟩ := rfl
theorem end_spec (r : IntegralRange) : end_ r = ⟨r.hi⟩ := rfl
theorem getStatic_spec (r : IntegralRange) (i : Int) : getStatic r i = r.lo + i := rfl
theorem get_spec (r : IntegralRange) (i : Int) : get r i = r.lo + i := rfl
theorem empty_spec (r : IntegralRange) : empty r = decide (r.lo = r.hi) := rfl
theorem size_spec (bits : Nat) (r : IntegralRange) : size bits r = (r.hi % 2 ^ bits - r.lo % 2 ^ bits) % 2 ^ bits := rfl
theorem contains_spec (r : IntegralRange) (x : Int) : contains r x = (decide (r.lo ≤ x) && decide (x < r.hi)) := rfl
end SR

/-! ### the new IteratorFacade -/
namespace NewF
variable {B : Type} (b : Base B)
theorem ne_spec (l r : B) : ne b l r = !eq b l r := rfl
theorem ltB_spec (l r : B) : ltB b l r = b.lt l r := rfl
theorem leB_spec (l r : B) : leB b l r = !b.lt r l := rfl
theorem gtB_spec (l r : B) : gtB b l r = b.lt r l := rfl
theorem geB_spec (l r : B) : geB b l r = !b.lt l r := rfl
theorem lt_spec (l r : B) : lt b l r = decide (diff b l r < 0) := rfl
theorem le_spec (l r : B) : le b l r = decide (diff b l r ≤ 0) := rfl
theorem gt_spec (l r : B) : gt b l r = decide (diff b l r > 0) := rfl
theorem ge_spec (l r : B) : ge b l r = decide (diff b l r ≥ 0) := rfl
theorem subAssign_spec (i : B) (n : Int) : subAssign b i n = b.addAssign i (-n) := rfl
theorem preIncAdv_spec (i : B) : preIncAdv b i = b.addAssign i 1 := rfl
theorem preDecAdv_spec (i : B) : preDecAdv b i = b.addAssign i (-1) := rfl
end NewF

end DV.C16
