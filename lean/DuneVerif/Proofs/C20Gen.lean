import DuneVerif.Model.C20
import DuneVerif.Gen.C20
import DuneVerif.Proofs.C20Basic
/-!
C20 — tie between the definitions regenerated from the source on every run (`DuneVerif/Gen/C20.lean`, written by
`tools/translators/tr_c20.py`) and the hand-written model: interpreters for the generated loop descriptions, the generic
lemmas `runLoop_eq`, and the table saying which operation names of the op language drive which binding.
-/
namespace DV.C20

/-- run a generated copy loop: a vector of `size` entries `init`, then `acc[dst i] := xs[src i]` for `first ≤ i < bound` -/
def runLoop (c : Gen.CopyLoop) (size : Nat) (xs : List Int) : List Int :=
  (List.range' (c.first size xs.length) (c.bound size xs.length - c.first size xs.length)).foldl
    (fun acc i => acc.set (c.dst i) (xs.getD (c.src i) 0)) (List.replicate size c.init)

/-- run the generated buffer constructor: the source is addressed in whole items of `w = 8` bytes from `ptr` -/
def runBufLoop (n : Nat) (mem : List Int) (m : MemLay) (b : BufInfo) : List Int :=
  (List.range' (Gen.bufFirst n b.shape) (Gen.bufBound n b.shape - Gen.bufFirst n b.shape)).foldl
    (fun acc i => acc.set (Gen.bufDst i) (m.load mem (b.ptr + 8 * Gen.bufSrc (i : Int) (Gen.bufStride b.stride 8))))
    (List.replicate n Gen.bufInit)

theorem runLoop_eq (c : Gen.CopyLoop) (bound : Nat → Nat → Nat) (hi : c.init = 0) (hf : ∀ s l, c.first s l = 0)
    (hb : ∀ s l, c.bound s l = bound s l) (hd : ∀ i, c.dst i = i) (hs : ∀ i, c.src i = i) (n : Nat) (xs : List Int) :
    runLoop c n xs =
      (List.range (bound n xs.length)).foldl (fun acc i => acc.set i (xs.getD i 0)) (List.replicate n 0) := by
  have h1 : c.dst = fun i => i := funext hd
  have h2 : c.src = fun i => i := funext hs
  unfold runLoop
  rw [hi, hf, hb, h1, h2, List.range_eq_range']
  simp

/-- the generated index normalisation, whatever the order and spelling of its tests: `none` outside `[-n, n)`, else the
    entry `i` / `n + i` -/
theorem gen_norm_char (n : Nat) (i : Int) :
    Gen.normalizeIndex n i = if i < -(n:Int) ∨ (n:Int) ≤ i then none else some (if i < 0 then i + n else i) := by
  unfold Gen.normalizeIndex
  simp only [Bool.or_eq_true, decide_eq_true_eq]
  repeat' split
  all_goals first | rfl | (exfalso; omega) | (apply congrArg; omega)

theorem normIndex_char (n : Nat) (i : Int) :
    (normIndex n i).map (fun (p : Nat) => Int.ofNat p) = if i < -(n:Int) ∨ (n:Int) ≤ i then none else some (if i < 0 then i + n else i) := by
  unfold normIndex
  simp only []
  repeat' split
  all_goals first | rfl | (exfalso; omega) | (simp only [Option.map_some]; apply congrArg; simp only [Int.ofNat_eq_natCast]; omega) | (simp only [Option.map_none]) | skip

/-- which operation names of the op language (`harness/c20_py.py` executor `op_*`, `Driver/C20.lean`) drive a binding;
    `-` = a structural entry (the order in which registration functions are called) -/
def boundTable : List (String × String) := [
  ("densevector.hh:registerCopyingDenseVectorMethods#1: def __add__(T,list)", "addl"),
  ("densevector.hh:registerCopyingDenseVectorMethods#1: def __div__(T,ValueType)", "ldiv"),
  ("densevector.hh:registerCopyingDenseVectorMethods#1: def __mul__(T,ValueType)", "mul muli"),
  ("densevector.hh:registerCopyingDenseVectorMethods#1: def __neg__(T)", "neg"),
  ("densevector.hh:registerCopyingDenseVectorMethods#1: def __pos__(object)", "alias"),
  ("densevector.hh:registerCopyingDenseVectorMethods#1: def __radd__(T,list)", "raddl"),
  ("densevector.hh:registerCopyingDenseVectorMethods#1: def __rmul__(T,ValueType)", "rmul rmuli"),
  ("densevector.hh:registerCopyingDenseVectorMethods#1: def __rsub__(T,list)", "rsubl"),
  ("densevector.hh:registerCopyingDenseVectorMethods#1: def __sub__(T,list)", "subl"),
  ("densevector.hh:registerCopyingDenseVectorMethods#1: def __truediv__(T,ValueType)", "div divi"),
  ("densevector.hh:registerCopyingDenseVectorMethods#1: op self+self", "add addo"),
  ("densevector.hh:registerCopyingDenseVectorMethods#1: op self-self", "sub subo"),
  ("densevector.hh:registerDenseVector: def __getitem__(T,ssize_t)", "get getn iter slice"),
  ("densevector.hh:registerDenseVector: def __getitem__(T,int_)", "get"),
  ("densevector.hh:registerDenseVector: def __len__(T)", "len"),
  ("densevector.hh:registerDenseVector: def __setitem__(T,ssize_t,ValueType)", "set setn"),
  ("densevector.hh:registerDenseVector: def __setitem__(T,int_,ValueType)", "set"),
  ("densevector.hh:registerDenseVector: def assign(T,T)", "assign assigno"),
  ("densevector.hh:registerDenseVector: op self!=self", "ne nel neo"),
  ("densevector.hh:registerDenseVector: op self*=ValueType", "imuls imuli"),
  ("densevector.hh:registerDenseVector: op self+=self", "iadd iaddl iaddo"),
  ("densevector.hh:registerDenseVector: op self+=ValueType", "iadds iaddi"),
  ("densevector.hh:registerDenseVector: op self-=self", "isub isubl isubo"),
  ("densevector.hh:registerDenseVector: op self-=ValueType", "isubs isubi"),
  ("densevector.hh:registerDenseVector: op self/=ValueType", "idivs idivi"),
  ("densevector.hh:registerDenseVector: op self==self", "eq eql eqo"),
  ("densevector.hh:registerDenseVector: call registerOneTensorInterface", "-"),
  ("densevector.hh:registerDenseVector: call registerCopyingDenseVectorMethods", "-"),
  ("densevector.hh:registerDenseVector: call registerScalarCopyingDenseVectorMethods", "-"),
  ("densevector.hh:registerDenseVector: conv list,T", "addo subo eqo neo doto assigno iaddo isubo"),
  ("densevector.hh:registerScalarCopyingDenseVectorMethods#1: def __add__(object,int)", "addi"),
  ("densevector.hh:registerScalarCopyingDenseVectorMethods#1: def __radd__(object,int)", "raddi"),
  ("densevector.hh:registerScalarCopyingDenseVectorMethods#1: def __rsub__(T,int)", "rsubi"),
  ("densevector.hh:registerScalarCopyingDenseVectorMethods#1: def __sub__(object,int)", "subi"),
  ("densevector.hh:registerScalarCopyingDenseVectorMethods#2: def __add__(T,int)", "addi"),
  ("densevector.hh:registerScalarCopyingDenseVectorMethods#2: def __add__(T,ValueType)", "addf"),
  ("densevector.hh:registerScalarCopyingDenseVectorMethods#2: def __radd__(T,int)", "raddi"),
  ("densevector.hh:registerScalarCopyingDenseVectorMethods#2: def __radd__(T,ValueType)", "raddf"),
  ("densevector.hh:registerScalarCopyingDenseVectorMethods#2: def __rsub__(T,int)", "rsubi"),
  ("densevector.hh:registerScalarCopyingDenseVectorMethods#2: def __rsub__(T,ValueType)", "rsubf"),
  ("densevector.hh:registerScalarCopyingDenseVectorMethods#2: def __sub__(T,int)", "subi"),
  ("densevector.hh:registerScalarCopyingDenseVectorMethods#2: def __sub__(T,ValueType)", "subf"),
  ("dynvector.hh:registerDynamicVector: init()", "new zero"),
  ("dynvector.hh:registerDynamicVector: init(list)", "new list ilist"),
  ("dynvector.hh:registerDynamicVector: def __repr__(DV)", "str"),
  ("dynvector.hh:registerDynamicVector: call registerDenseVector", "-"),
  ("fvector.hh:registerFieldVector: def __float__(FV)", "float"),
  ("fvector.hh:registerFieldVector: init()", "new zero"),
  ("fvector.hh:registerFieldVector: init(int)", "new iargs"),
  ("fvector.hh:registerFieldVector: init(K)", "new args"),
  ("fvector.hh:registerFieldVector: init(buffer)", "new np nps2 npsm1 npb0 arr nb_*"),
  ("fvector.hh:registerFieldVector: init(tuple)", "new tuple ituple"),
  ("fvector.hh:registerFieldVector: init(list)", "new list ilist"),
  ("fvector.hh:registerFieldVector: init(args)", "new args iargs"),
  ("fvector.hh:registerFieldVector: def __repr__(FV)", "str"),
  ("fvector.hh:registerFieldVector: def __str__(FV)", "str"),
  ("fvector.hh:registerFieldVector: buffer()", "view npcopy sl slice nvscale"),
  ("fvector.hh:registerFieldVector: def copy(FV,args)", "mcopy mcopya"),
  ("fvector.hh:registerFieldVector: call registerDenseVector", "-"),
  ("fvector.hh:registerFieldVector: call registerFieldVector", "-"),
  ("fvector.hh:registerFieldVector: conv int,FV", "muli rmuli"),
  ("fvector.hh:registerFieldVector: conv K,FV", "mul rmul"),
  ("fvector.hh:registerFieldVector: conv args,FV", "addo subo (tuple)"),
  ("fvector.hh:registerFieldVector: conv buffer,FV", "addo subo eqo doto (np arr)"),
  ("tuplevector.hh:registerTupleVector: def __getitem__(TV,size_t)", "tget tlist tsetel"),
  ("tuplevector.hh:registerTupleVector: init(tuple)", "tnew tnewa"),
  ("tuplevector.hh:registerTupleVector: def __len__(TV)", "tlen"),
  ("tuplevector.hh:registerTupleVector: def __setitem__(TV,size_t,object)", "tsetd tseti tsetf tsetl"),
  ("tuplevector.hh:registerTupleVector: def assign(TV,TV)", "tassign"),
  ("tuplevector.hh:registerTupleVector: def copy(TV)", "tcopy"),
  ("vector.hh:registerOneTensorInterface#1: def __mul__(T,T)", "dot dotl doto"),
  ("vector.hh:registerOneTensorInterface#1: def __rmul__(T,T)", "rdotl"),
  ("vector.hh:registerOneTensorInterface#1: prop infinity_norm(T)", "norms"),
  ("vector.hh:registerOneTensorInterface#1: prop infinity_norm_real(T)", "norms"),
  ("vector.hh:registerOneTensorInterface#1: prop one_norm(T)", "norms"),
  ("vector.hh:registerOneTensorInterface#1: prop one_norm_real(T)", "norms"),
  ("vector.hh:registerOneTensorInterface#1: prop two_norm(T)", "norms"),
  ("vector.hh:registerOneTensorInterface#1: prop two_norm2(T)", "norms")
]

end DV.C20
