import DuneVerif.Model.C05
/-!
C05, round four — what the translator reads from interface.hh / communicator.hh beyond the attribute tests:
the erase condition of `Interface::strip`, the loop body of both `BufferedCommunicator::build` overloads and the
direction selectors (`FORWARD ? first : second`) of `sendRecv`, `MessageGatherer`, `MessageScatterer` and of the
`forward`/`backward` wrappers.  The proofs are written to survive equivalent spellings (commuted sums/products,
`!= 0` for `> 0`, De-Morgan forms) and to fail when the meaning changes.
-/
set_option linter.unusedSimpArgs false
namespace DV.C05

theorem stripErase_spec (n1 n2 : Nat) : Gen.stripErase n1 n2 = (n1 == 0 && n2 == 0) := by
  exact Bool.eq_iff_iff.mpr (by simp [Gen.stripErase] <;> omega)

theorem stripG_eq (m : IfMap) : stripG m = strip m := by
  have h : (fun e : Nat × Info × Info => !(Gen.stripErase e.2.1.size e.2.2.size)) =
      (fun e => !(e.2.1.size == 0 && e.2.2.size == 0)) := by
    funext e
    rw [stripErase_spec]
  unfold stripG strip
  rw [h]

theorem interfaceOfG_eq (ign : Bool) (S T : Nat → Bool) (sys : System) (p : Nat) :
    interfaceOfG ign S T sys p = interfaceOf ign S T sys p := by
  simp [interfaceOfG, interfaceOf, buildInterface, stripG_eq]

theorem layoutCond_spec (two : Bool) (nF nS s0 s1 sz : Nat) :
    Gen.layoutCond two nF nS s0 s1 sz = decide (nF + nS > 0) := by
  exact Bool.eq_iff_iff.mpr (by cases two <;> simp [Gen.layoutCond] <;> omega)

theorem layoutArith_spec (two : Bool) (nF nS s0 s1 sz : Nat) :
    Gen.layoutFirstStart two nF nS s0 s1 sz = s0 ∧ Gen.layoutFirstSize two nF nS s0 s1 sz = nF * sz ∧
    Gen.layoutSecondStart two nF nS s0 s1 sz = s1 ∧ Gen.layoutSecondSize two nF nS s0 s1 sz = nS * sz ∧
    Gen.layoutInc0 two nF nS s0 s1 sz = nF ∧ Gen.layoutInc1 two nF nS s0 s1 sz = nS := by
  refine ⟨?_, ?_, ?_, ?_, ?_, ?_⟩ <;> cases two <;>
    simp [Gen.layoutFirstStart, Gen.layoutFirstSize, Gen.layoutSecondStart, Gen.layoutSecondSize, Gen.layoutInc0,
      Gen.layoutInc1, Nat.mul_comm, Nat.add_comm]

theorem layoutCont_spec (two : Bool) : Gen.layoutFirstCont two = .first ∧ Gen.layoutSecondCont two = .second := by
  cases two <;> simp [Gen.layoutFirstCont, Gen.layoutSecondCont]

theorem layoutG_eq (two : Bool) (sz : Nat) (csS csT : Nat → Nat) (m : IfMap) (s0 s1 : Nat) :
    layoutG two sz csS csT m s0 s1 = layout sz csS csT m s0 s1 := by
  induction m generalizing s0 s1 with
  | nil => rfl
  | cons e es ih =>
    simp only [layoutG, layout, (layoutCont_spec two).1, (layoutCont_spec two).2, pick, layoutCond_spec,
      (layoutArith_spec two _ _ s0 s1 sz).1, (layoutArith_spec two _ _ s0 s1 sz).2.1, (layoutArith_spec two _ _ s0 s1 sz).2.2.1,
      (layoutArith_spec two _ _ s0 s1 sz).2.2.2.1, (layoutArith_spec two _ _ s0 s1 sz).2.2.2.2.1,
      (layoutArith_spec two _ _ s0 s1 sz).2.2.2.2.2, ih, decide_eq_true_eq]

theorem Comm.buildG_eq (c : Comm) (two : Bool) (sz : Nat) (csS csT : Nat → Nat) (ifs : IfMap) :
    c.buildG two sz csS csT ifs = c.build sz csS csT ifs := by
  simp [Comm.buildG, Comm.build, layoutG_eq]

/-- the model's direction selectors on the entries of `interfaces_` … -/
theorem ifaceSelectors_spec (fwd : Bool) (e : Info × Info) :
    pick (Gen.gatherOneSize.side fwd) e = sendSide fwd e ∧ pick (Gen.gatherOneIndex.side fwd) e = sendSide fwd e ∧
    pick (Gen.gatherVarSize.side fwd) e = sendSide fwd e ∧ pick (Gen.gatherVarIndex.side fwd) e = sendSide fwd e ∧
    pick (Gen.scatterOneInfo.side fwd) e = recvSide fwd e ∧ pick (Gen.scatterVarInfo.side fwd) e = recvSide fwd e := by
  cases fwd <;> simp [pick, Gen.DirSel.side, sendSide, recvSide, Gen.gatherOneSize, Gen.gatherOneIndex, Gen.gatherVarSize,
    Gen.gatherVarIndex, Gen.scatterOneInfo, Gen.scatterVarInfo]

/-- … on the entries of `messageInformation_` … -/
theorem msgSelectors_spec (fwd : Bool) (m : MsgInfo × MsgInfo) :
    pick (Gen.issendStart.side fwd) m = sendMsgInfo fwd m ∧ pick (Gen.issendSize.side fwd) m = sendMsgInfo fwd m ∧
    pick (Gen.issendGuard.side fwd) m = sendMsgInfo fwd m ∧
    pick (Gen.irecvStart.side fwd) m = recvMsgInfo fwd m ∧ pick (Gen.irecvSize.side fwd) m = recvMsgInfo fwd m ∧
    pick (Gen.irecvGuard.side fwd) m = recvMsgInfo fwd m ∧ pick (Gen.waitanyInfo.side fwd) m = recvMsgInfo fwd m := by
  cases fwd <;> simp [pick, Gen.DirSel.side, sendMsgInfo, recvMsgInfo, Gen.issendStart, Gen.issendSize, Gen.issendGuard,
    Gen.irecvStart, Gen.irecvSize, Gen.irecvGuard, Gen.waitanyInfo]

/-- … and on `buffers_[0..1]` -/
theorem bufSelectors_spec (fwd : Bool) {Val Data : Type} (st : PState Val Data) :
    pick (Gen.sendBuffer.side fwd) (st.b0, st.b1) = st.sendB fwd ∧ pick (Gen.recvBuffer.side fwd) (st.b0, st.b1) = st.recvB fwd := by
  cases fwd <;> simp [pick, Gen.DirSel.side, PState.sendB, PState.recvB, Gen.sendBuffer, Gen.recvBuffer]

/-- the container argument number `i` of a two-container call `f(source, dest)` -/
def argOf {Data : Type} (c : Cont Data) (i : Nat) : Data := if i = 0 then c.c0 else c.c1

/-- the four `forward`/`backward` members: direction, and (two containers) which argument is gathered from / scattered to,
    against the model's `Cont.get (!fwd)` / `Cont.get fwd` -/
theorem wrappers_spec {Data : Type} (c : Cont Data) (hc : c.one = false) :
    Gen.forward1.fwd = true ∧ Gen.backward1.fwd = false ∧ Gen.forward2.fwd = true ∧ Gen.backward2.fwd = false ∧
    Gen.forward1.gatherArg = 0 ∧ Gen.forward1.scatterArg = 0 ∧ Gen.backward1.gatherArg = 0 ∧ Gen.backward1.scatterArg = 0 ∧
    argOf c Gen.forward2.gatherArg = c.get (!true) ∧ argOf c Gen.forward2.scatterArg = c.get true ∧
    argOf c Gen.backward2.gatherArg = c.get (!false) ∧ argOf c Gen.backward2.scatterArg = c.get false := by
  simp [Gen.forward1, Gen.backward1, Gen.forward2, Gen.backward2, argOf, Cont.get, hc]

/-! ### DatatypeCommunicator: composing the selectors the translator read from `build`, `createDataTypes`,
`createRequests`, `forward()`, `backward()` -/

/-- the unique flag value at which a selector yields `s` -/
def flagWith (d : Gen.DirSel) (s : Gen.Side) : Option Bool :=
  if d.side true = s ∧ d.side false ≠ s then some true
  else if d.side false = s ∧ d.side true ≠ s then some false
  else none

/-- the `send` flag of the `createDataTypes` pass that filled datatype slot `s` (its index lists are those of
    `buildInterface<…,send>`: the send lists for `true`, the receive lists for `false`) -/
def dtPassOf (s : Gen.Side) : Option Bool := flagWith Gen.dtTypeSlot s

/-- the `createForward` flag of the request set that `forward()` (`fwd`) / `backward()` starts -/
def dtFlagOf (fwd : Bool) : Option Bool := flagWith Gen.dtReqSlot (Gen.dtUseSlot.side fwd)

/-- the index list behind the receive / send datatype used in direction `fwd`; `e` = (send list, receive list) of the
    unstripped interface entry of a neighbour -/
def dtRecvList (fwd : Bool) (e : Info × Info) : Option Info :=
  (dtFlagOf fwd).bind fun cf => (dtPassOf (Gen.dtReqRecvType.side cf)).map fun sf => if sf then e.1 else e.2
def dtSendList (fwd : Bool) (e : Info × Info) : Option Info :=
  (dtFlagOf fwd).bind fun cf => (dtPassOf (Gen.dtReqSendType.side cf)).map fun sf => if sf then e.1 else e.2

/-- the container (`first` = `sendData`, `second` = `receiveData` of `build`) whose base address the receives / sends of
    direction `fwd` use -/
def dtRecvCont (fwd : Bool) : Option Gen.Side :=
  (dtFlagOf fwd).map fun cf => pick (Gen.dtRecvAddr.side cf) (Gen.dtReqSendArg.side cf, Gen.dtReqRecvArg.side cf)
def dtSendCont (fwd : Bool) : Option Gen.Side :=
  (dtFlagOf fwd).map fun cf => pick (Gen.dtSendAddr.side cf) (Gen.dtReqSendArg.side cf, Gen.dtReqRecvArg.side cf)

/-- the container on which the displacements of that receive / send datatype were computed -/
def dtRecvTypeCont (fwd : Bool) : Option Gen.Side :=
  (dtFlagOf fwd).bind fun cf => (dtPassOf (Gen.dtReqRecvType.side cf)).map Gen.dtTypeData.side
def dtSendTypeCont (fwd : Bool) : Option Gen.Side :=
  (dtFlagOf fwd).bind fun cf => (dtPassOf (Gen.dtReqSendType.side cf)).map Gen.dtTypeData.side

theorem dtSelectors_spec (fwd : Bool) (e : Info × Info) :
    dtRecvList fwd e = some (recvSide fwd e) ∧ dtSendList fwd e = some (sendSide fwd e) ∧
    dtRecvCont fwd = some (if fwd then .second else .first) ∧ dtRecvTypeCont fwd = dtRecvCont fwd ∧
    dtSendCont fwd = some (if fwd then .first else .second) ∧ dtSendTypeCont fwd = dtSendCont fwd := by
  cases fwd <;> refine ⟨?_, ?_, ?_, ?_, ?_, ?_⟩ <;> rfl

/-! ### the counting loops of `MessageSizeCalculator<Data,VariableSize>`, the gatherers and the scatterers -/

/-- a loop `for(v = start; cond; ++v)` that starts at 0, runs while `v` is below the bound and stops at the bound visits
    `0, …, n-1` -/
theorem forIdx_canonical (start : Nat) (cond : Nat → Nat → Bool) (n : Nat) (hs : start = 0)
    (h1 : ∀ i, i < n → cond i n = true) (h2 : cond n n = false) : Gen.forIdx start cond n = List.range n := by
  subst hs
  unfold Gen.forIdx
  have hf : ((List.range (n + 2)).filter fun i => decide (0 ≤ i)) = List.range (n + 2) := by simp
  rw [hf]
  have hr : List.range (n + 2) = List.range n ++ [n, n + 1] := by
    rw [List.range_succ, List.range_succ]
    simp
  rw [hr, List.takeWhile_append_of_pos]
  · simp [List.takeWhile, h2]
  · intro a ha
    exact h1 a (List.mem_range.mp ha)

theorem loops_spec (n : Nat) :
    Gen.loop_sizeVarI n = List.range n ∧ Gen.loop_gatherOneI n = List.range n ∧ Gen.loop_gatherVarI n = List.range n ∧
    Gen.loop_gatherVarJ n = List.range n ∧ Gen.loop_scatterOneI n = List.range n ∧ Gen.loop_scatterVarI n = List.range n ∧
    Gen.loop_scatterVarJ n = List.range n := by
  refine ⟨?_, ?_, ?_, ?_, ?_, ?_, ?_⟩ <;>
    exact forIdx_canonical _ _ n rfl (by intro i hi; simp <;> omega) (by simp <;> omega)

theorem map_getD_range (l : List Nat) : (List.range l.length).map (fun i => l.getD i 0) = l := by
  apply List.ext_getElem
  · simp
  · intro i h1 h2
    simp [h2]

/-- the (local index, component) slots as the nested loops `for i … for j …` over `info[i]` produce them -/
def slotsLoop (I J : Nat → List Nat) (cs : Nat → Nat) (info : Info) : List (Nat × Nat) :=
  (I info.size).flatMap fun i => (J (cs (info.idx.getD i 0))).map fun j => (info.idx.getD i 0, j)

theorem slotsLoop_range (J : Nat → List Nat) (cs : Nat → Nat) (info : Info) :
    slotsLoop List.range J cs info = info.idx.flatMap fun l => (J (cs l)).map fun j => (l, j) := by
  unfold slotsLoop Info.size
  conv => rhs; rw [← map_getD_range info.idx]
  rw [List.flatMap_map]

theorem sizeLoop_range (cs : Nat → Nat) (info : Info) :
    ((List.range info.size).map fun i => cs (info.idx.getD i 0)).sum = sizeCalc cs info := by
  unfold sizeCalc Info.size
  conv => rhs; rw [← map_getD_range info.idx]
  rw [List.map_map]
  rfl

theorem loopsModel_spec (cs : Nat → Nat) (info : Info) :
    ((Gen.loop_sizeVarI info.size).map fun i => cs (info.idx.getD i 0)).sum = sizeCalc cs info ∧
    slotsLoop Gen.loop_gatherVarI Gen.loop_gatherVarJ cs info = slots cs info ∧
    slotsLoop Gen.loop_gatherOneI (fun _ => [0]) cs info = slots (fun _ => 1) info ∧
    slotsLoop Gen.loop_scatterVarI Gen.loop_scatterVarJ cs info = slots cs info ∧
    slotsLoop Gen.loop_scatterOneI (fun _ => [0]) cs info = slots (fun _ => 1) info := by
  have hI1 : Gen.loop_gatherVarI = List.range := funext fun n => (loops_spec n).2.2.1
  have hJ1 : Gen.loop_gatherVarJ = List.range := funext fun n => (loops_spec n).2.2.2.1
  have hI2 : Gen.loop_gatherOneI = List.range := funext fun n => (loops_spec n).2.1
  have hI3 : Gen.loop_scatterVarI = List.range := funext fun n => (loops_spec n).2.2.2.2.2.1
  have hJ3 : Gen.loop_scatterVarJ = List.range := funext fun n => (loops_spec n).2.2.2.2.2.2
  have hI4 : Gen.loop_scatterOneI = List.range := funext fun n => (loops_spec n).2.2.2.2.1
  have one : (fun l : Nat => ([0] : List Nat).map fun j => (l, j)) = fun l => (List.range 1).map fun j => (l, j) := by
    funext l; simp [List.range_succ]
  refine ⟨?_, ?_, ?_, ?_, ?_⟩
  · rw [(loops_spec info.size).1]; exact sizeLoop_range cs info
  · rw [hI1, hJ1, slotsLoop_range]; rfl
  · rw [hI2, slotsLoop_range, one]; rfl
  · rw [hI3, hJ3, slotsLoop_range]; rfl
  · rw [hI4, slotsLoop_range, one]; rfl

end DV.C05
