import DuneVerif.Proofs.C09X
/-!
# C09 — `LoopSIMD<LoopSIMD<·,S₂>,S₁>` is a lawful `SimdLike`, and it is the translated nested `lane` / `cond` /
reductions of loop.hh (core Lean only).  Consequence: every dense-matrix theorem also holds for SIMD-of-SIMD numbers.
-/
namespace DV.C09
open Gen

section Index
variable {S₁ S₂ : Nat}

theorem nested_idx_eq {a b : Nat} (hd : a / S₂ = b / S₂) (hm : a % S₂ = b % S₂) : a = b := by
  rw [← Nat.div_add_mod a S₂, ← Nat.div_add_mod b S₂, hd, hm]

theorem nested_entry_lt {i j : Nat} (hi : i < S₁) (hj : j < S₂) : i * S₂ + j < S₁ * S₂ := by
  have : (i + 1) * S₂ ≤ S₁ * S₂ := Nat.mul_le_mul_right _ hi
  rw [Nat.add_mul, Nat.one_mul] at this
  omega
theorem nested_entry_div {i j : Nat} (hj : j < S₂) : (i * S₂ + j) / S₂ = i := by
  have hS2 : 0 < S₂ := Nat.lt_of_le_of_lt (Nat.zero_le _) hj
  rw [Nat.mul_comm, Nat.mul_add_div hS2, Nat.div_eq_of_lt hj, Nat.add_zero]
theorem nested_entry_mod {i j : Nat} (hj : j < S₂) : (i * S₂ + j) % S₂ = j := by
  rw [Nat.mul_comm, Nat.mul_add_mod, Nat.mod_eq_of_lt hj]

/-- quantifying over the lanes of a nested vector = quantifying over entries and their lanes -/
theorem nested_exists_iff (P : Nat → Nat → Prop) :
    (∃ l : Fin (S₁ * S₂), P (l.val / S₂) (l.val % S₂)) ↔ ∃ i, i < S₁ ∧ ∃ j, j < S₂ ∧ P i j := by
  constructor
  · rintro ⟨l, h⟩
    exact ⟨_, nested_div_lt l, _, nested_mod_lt l, h⟩
  · rintro ⟨i, hi, j, hj, h⟩
    refine ⟨⟨i * S₂ + j, nested_entry_lt hi hj⟩, ?_⟩
    simp only [nested_entry_div hj, nested_entry_mod hj]
    exact h

theorem nested_forall_iff (P : Nat → Nat → Prop) :
    (∀ l : Fin (S₁ * S₂), P (l.val / S₂) (l.val % S₂)) ↔ ∀ i, i < S₁ → ∀ j, j < S₂ → P i j := by
  constructor
  · intro h i hi j hj
    have := h ⟨i * S₂ + j, nested_entry_lt hi hj⟩
    simpa only [nested_entry_div hj, nested_entry_mod hj] using this
  · intro h l
    exact h _ (nested_div_lt l) _ (nested_mod_lt l)

end Index

private theorem foldl_or_g' {μ : Type} (g : μ → Bool) (l : List μ) (init : Bool) :
    l.foldl (fun out e => out || g e) init = (init || l.any g) := by
  induction l generalizing init with
  | nil => simp
  | cons x xs ih => simp [ih, Bool.or_assoc]

private theorem foldl_and_g' {μ : Type} (g : μ → Bool) (l : List μ) (init : Bool) :
    l.foldl (fun out e => out && g e) init = (init && l.all g) := by
  induction l generalizing init with
  | nil => simp
  | cons x xs ih => simp [ih, Bool.and_assoc]

private theorem vec_any_iff {μ : Type} {S : Nat} (g : μ → Bool) (m : Vector μ S) :
    m.toList.any g = true ↔ ∃ i, ∃ h : i < S, g m[i] = true := by
  rw [List.any_eq_true]
  constructor
  · rintro ⟨x, hx, hg⟩
    obtain ⟨i, hi, rfl⟩ := List.getElem_of_mem hx
    have hi' : i < S := by simpa using hi
    exact ⟨i, hi', by simpa using hg⟩
  · rintro ⟨i, hi, hg⟩
    exact ⟨m[i], by simp, hg⟩

private theorem vec_all_iff {μ : Type} {S : Nat} (g : μ → Bool) (m : Vector μ S) :
    m.toList.all g = true ↔ ∀ i, ∀ h : i < S, g m[i] = true := by
  rw [List.all_eq_true]
  constructor
  · intro h i hi
    exact h m[i] (by simp)
  · intro h x hx
    obtain ⟨i, hi, rfl⟩ := List.getElem_of_mem hx
    have hi' : i < S := by simpa using hi
    simpa using h i hi'

theorem nested_lawful (S₁ S₂ : Nat) : (SimdLike.nested S₁ S₂).Lawful where
  lane_setLane := by
    intro α l l' x v
    simp only [SimdLike.nested]
    by_cases hd : l.val / S₂ = l'.val / S₂
    · by_cases hm : l.val % S₂ = l'.val % S₂
      · have : l = l' := Fin.ext (nested_idx_eq hd hm)
        subst this
        simp
      · have hne : l ≠ l' := fun e => hm (by rw [e])
        simp only [hne, if_false]
        simp only [Vector.getElem_set, hd, if_true, hm, if_false]
    · have hne : l ≠ l' := fun e => hd (by rw [e])
      simp only [hne, if_false]
      simp only [Vector.getElem_set, hd, if_false]
  lane_bcast := by intro α l x; simp [SimdLike.nested]
  lane_map := by intro α β l f v; simp [SimdLike.nested]
  lane_map2 := by intro α β γ l f a b; simp [SimdLike.nested]
  lane_cond := by intro α l m a b; simp [SimdLike.nested, Vector.getElem_ofFn]
  anyTrue_iff := by
    intro m
    simp only [SimdLike.nested]
    rw [foldl_or_g', Bool.false_or, vec_any_iff]
    constructor
    · rintro ⟨i, hi, h⟩
      obtain ⟨j, hj⟩ := ((loop_lawful S₂).anyTrue_iff _).mp h
      refine ⟨⟨i * S₂ + j.val, nested_entry_lt hi j.isLt⟩, ?_⟩
      simp only [nested_entry_div j.isLt, nested_entry_mod j.isLt]
      exact hj
    · rintro ⟨l, hl⟩
      exact ⟨_, nested_div_lt l, ((loop_lawful S₂).anyTrue_iff _).mpr ⟨⟨_, nested_mod_lt l⟩, hl⟩⟩
  allTrue_iff := by
    intro m
    simp only [SimdLike.nested]
    rw [foldl_and_g', Bool.true_and, vec_all_iff]
    constructor
    · intro h l
      have := ((loop_lawful S₂).allTrue_iff _).mp (h _ (nested_div_lt l)) ⟨_, nested_mod_lt l⟩
      exact this
    · intro h i hi
      rw [(loop_lawful S₂).allTrue_iff]
      intro j
      have := h ⟨i * S₂ + j.val, nested_entry_lt hi j.isLt⟩
      simp only [nested_entry_div j.isLt, nested_entry_mod j.isLt] at this
      exact this

-- bridges: the instance is the translated code of loop.hh ---------------------------------------------------
section Bridges
variable {α : Type} {S S₂ : Nat}

theorem laneNested_instance (v : Vec (Vec α S₂) S) (l : Fin (S * S₂)) :
    Simd.laneNested l.val v = some ((SimdLike.nested S S₂).lane l v) := by
  obtain ⟨_, _, h⟩ := nested_lane_divmod v l.val l.isLt
  rw [h]; rfl

theorem condNested_instance (m : Vec (Vec Bool S₂) S) (a b : Vec (Vec α S₂) S) :
    Simd.condNested m a b = some ((SimdLike.nested S S₂).cond m a b) := by
  rw [cond_nested]; rfl

theorem setLaneNested_instance (v : Vec (Vec α S₂) S) (l : Fin (S * S₂)) (x : α) :
    Simd.setLaneNested l.val x v = some ((SimdLike.nested S S₂).setLane l x v) := by
  simp [Simd.setLaneNested, laneOuter, laneInner, nested_div_lt l, nested_mod_lt l, SimdLike.nested]

theorem anyTrueNested_instance (m : Vec (Vec Bool S₂) S) :
    Simd.reduceNested .anyTrue m = some ((SimdLike.nested S S₂).anyTrue m) := by
  rw [reduceNested_eq]
  simp only [redSpec, SimdLike.nested, SimdLike.loop, scalarReduce, Simd.flatten]
  rw [foldl_or_g']
  congr 1
  simp only [Bool.false_or, List.any_flatten, List.any_map]
  congr 1
  funext e
  simp only [Function.comp]
  rw [foldl_or_g']
  simp

theorem allTrueNested_instance (m : Vec (Vec Bool S₂) S) :
    Simd.reduceNested .allTrue m = some ((SimdLike.nested S S₂).allTrue m) := by
  rw [reduceNested_eq]
  simp only [redSpec, SimdLike.nested, SimdLike.loop, scalarReduce, Simd.flatten]
  rw [foldl_and_g']
  congr 1
  simp only [Bool.true_and, List.all_flatten, List.all_map]
  congr 1
  funext e
  simp only [Function.comp]
  rw [foldl_and_g']
  simp

/-- an operator of the nested vector (outer loop over the inner operator) is the `map2` of the instance -/
theorem binaryNested_instance (op : BinOp) (f : α → α → α) (a b : Vec (Vec α S₂) S) :
    Simd.binVV loop_BINARY_OP_vv (Simd.binaryVV (fun _ x y => some (f x y)) op) a b =
      some ((SimdLike.nested S S₂).map2 f a b) := by
  rw [binVV_canonical loop_BINARY_OP_vv (by decide) (by decide) (by decide)]
  have : (Simd.binaryVV (S := S₂) (fun _ x y => some (f x y)) op) =
      fun x y => some (Vector.zipWith f x y) := by
    funext x y
    rw [lanewise_binaryVV, allSome_zipWith_some]
  rw [this, allSome_zipWith_some]
  rfl

end Bridges

end DV.C09
