/-
C15 — the pool invariant `free ⊎ live = all slots of all chunks, without duplicates` and its consequences.
Core Lean only.
-/
import DuneVerif.Proofs.C15Geo

namespace DV.C15
open DV.C15.Gen

/-- what the state machine needs from the geometry (all three are consequences of `geometry_sound`) -/
structure GeoOK (g : Geo) : Prop where
  as_pos : 0 < g.alignedSize
  el_pos : 1 ≤ g.elements
  fit : g.elements * g.alignedSize ≤ g.chunkSize

/-- the pool invariant: the chunk list holds the creation numbers `n-1 … 0`; free list and live set together
    contain every slot `(c, i)`, `c < n`, `i < E`, exactly once -/
structure Inv (E : Nat) (p : Pool) : Prop where
  chunks : p.chunks = (List.range p.chunks.length).reverse
  nodup : (p.free ++ p.live).Nodup
  mem : ∀ b, b ∈ p.free ++ p.live ↔ (b.1 < p.chunks.length ∧ b.2 < E)
  count : p.free.length + p.live.length = p.chunks.length * E

theorem inv_empty (E : Nat) : Inv E Pool.empty := by
  refine ⟨by simp [Pool.empty], by simp [Pool.empty], ?_, by simp [Pool.empty]⟩
  intro b; simp [Pool.empty]

theorem length_growTail (E c : Nat) : (growTail E c).length = E - 1 := by simp [growTail]

theorem mem_growTail {E c : Nat} {b : Block} : b ∈ growTail E c ↔ b.1 = c ∧ 1 ≤ b.2 ∧ b.2 < E := by
  unfold growTail
  simp only [List.mem_map, List.mem_range'_1]
  constructor
  · rintro ⟨i, ⟨h1, h2⟩, rfl⟩
    exact ⟨rfl, h1, by simp only; omega⟩
  · rintro ⟨h1, h2, h3⟩
    exact ⟨b.2, ⟨h2, by omega⟩, by rw [← h1]⟩

theorem nodup_growTail (E c : Nat) : (growTail E c).Nodup := by
  unfold growTail
  exact List.Pairwise.map _ (fun a b (h : a ≠ b) heq => h (Prod.mk.inj heq).2) (List.nodup_range' (s := 1) (n := E - 1) 1)

/-! ### allocate -/

theorem allocate_pop {E : Nat} {p : Pool} {b : Block} {rest : List Block} (h : p.free = b :: rest) :
    allocate E p = (b, { p with free := rest, live := p.live ++ [b] }) := by
  unfold allocate; rw [h]

theorem allocate_grow {E : Nat} {p : Pool} (h : p.free = []) :
    allocate E p = ((p.chunks.length, 0),
      { chunks := p.chunks.length :: p.chunks, free := growTail E p.chunks.length,
        live := p.live ++ [(p.chunks.length, 0)] }) := by
  unfold allocate; rw [h]

theorem inv_allocate {E : Nat} (hE : 1 ≤ E) {p : Pool} (hi : Inv E p) : Inv E (allocate E p).2 := by
  cases hf : p.free with
  | cons b rest =>
    rw [allocate_pop hf]
    have hperm : (rest ++ (p.live ++ [b])).Perm (p.free ++ p.live) := by
      rw [hf]
      have h1 : (rest ++ (p.live ++ [b])).Perm ((rest ++ p.live) ++ [b]) := by rw [List.append_assoc]
      exact h1.trans (List.perm_append_comm.trans (by simp))
    refine ⟨hi.chunks, hperm.nodup_iff.2 hi.nodup, fun x => ?_, ?_⟩
    · exact (hperm.mem_iff).trans (hi.mem x)
    · have := hi.count
      rw [hf] at this
      simp only [List.length_cons, List.length_append, List.length_nil] at this ⊢
      omega
  | nil =>
    rw [allocate_grow hf]
    have hmem := hi.mem
    have hnd := hi.nodup
    rw [hf] at hmem hnd
    simp only [List.nil_append] at hmem hnd
    have hcnt := hi.count
    rw [hf] at hcnt
    refine ⟨?_, ?_, fun x => ?_, ?_⟩
    rotate_right
    · simp only [List.length_cons, List.length_append, List.length_nil, length_growTail] at hcnt ⊢
      rw [Nat.add_mul, Nat.one_mul]
      omega
    · simp only [List.length_cons]
      rw [List.range_succ, List.reverse_append]
      simp only [List.reverse_cons, List.reverse_nil, List.nil_append, List.cons_append]
      rw [← hi.chunks]
    · simp only
      rw [List.nodup_append]
      refine ⟨nodup_growTail _ _, ?_, ?_⟩
      · rw [List.nodup_append]
        refine ⟨hnd, by simp, ?_⟩
        intro a ha c hc
        simp only [List.mem_singleton] at hc
        subst hc
        intro heq
        have := (hmem a).1 ha
        rw [heq] at this
        simp at this
      · intro a ha c hc heq
        subst heq
        have h1 := mem_growTail.1 ha
        rcases List.mem_append.1 hc with h2 | h2
        · have := (hmem a).1 h2
          omega
        · simp only [List.mem_singleton] at h2
          rw [h2] at h1
          simp at h1
    · simp only [List.length_cons, List.mem_append, List.mem_singleton]
      rw [mem_growTail, hmem x]
      constructor
      · rintro (⟨h1, _, h3⟩ | h | h)
        · omega
        · omega
        · rw [h]; simp only; omega
      · rintro ⟨h1, h2⟩
        rcases Nat.lt_or_ge x.1 p.chunks.length with h | h
        · exact Or.inr (Or.inl ⟨h, h2⟩)
        · have hx1 : x.1 = p.chunks.length := by omega
          rcases Nat.eq_zero_or_pos x.2 with h0 | h0
          · exact Or.inr (Or.inr (by rw [← hx1, ← h0]))
          · exact Or.inl ⟨hx1, h0, h2⟩

/-- `allocate` never returns a live block; it returns a slot of one of the pool's chunks, which is live afterwards -/
theorem allocate_fresh' {E : Nat} (hE : 1 ≤ E) {p : Pool} (hi : Inv E p) :
    (allocate E p).1 ∉ p.live ∧ (allocate E p).1.1 < (allocate E p).2.chunks.length ∧ (allocate E p).1.2 < E ∧
    (allocate E p).1 ∈ (allocate E p).2.live ∧ (allocate E p).1 ∉ (allocate E p).2.free := by
  have hi' := inv_allocate hE hi
  cases hf : p.free with
  | cons b rest =>
    rw [allocate_pop hf] at hi' ⊢
    have hnd := hi.nodup
    rw [hf] at hnd
    have hm := (hi.mem b).1 (by rw [hf]; simp)
    have hnd' := hi'.nodup
    simp only at hnd'
    refine ⟨?_, hm.1, hm.2, by simp, ?_⟩
    · intro hb
      have := (List.nodup_append.1 hnd).2.2 b (by simp) b hb
      exact this rfl
    · intro hb
      have := (List.nodup_append.1 hnd').2.2 b hb b (by simp)
      exact this rfl
  | nil =>
    rw [allocate_grow hf] at hi' ⊢
    have hmem := hi.mem
    rw [hf] at hmem
    simp only [List.nil_append] at hmem
    refine ⟨?_, by simp, by simp only; omega, by simp, ?_⟩
    · intro hb
      have := (hmem _).1 hb
      simp at this
    · intro hb
      have := mem_growTail.1 hb
      simp at this

/-! ### free -/

theorem mem_chunks_of_inv {E : Nat} {p : Pool} (hi : Inv E p) (c : Nat) : c ∈ p.chunks ↔ c < p.chunks.length := by
  rw [hi.chunks]; simp

theorem inSomeChunk_of_slot {g : Geo} (hg : GeoOK g) {p : Pool} (hi : Inv g.elements p) {b : Block}
    (h1 : b.1 < p.chunks.length) (h2 : b.2 < g.elements) : inSomeChunk g p b = true := by
  unfold inSomeChunk
  have hc : b.1 ∈ p.chunks := (mem_chunks_of_inv hi _).2 h1
  have := slot_inside hg.fit h2
  have hpos := hg.as_pos
  simp only [Bool.and_eq_true, List.contains_iff_mem, decide_eq_true_eq]
  exact ⟨hc, by omega⟩

/-- giving back a live block is accepted and pushes it on the free list -/
theorem free_live {g : Geo} (hg : GeoOK g) {p : Pool} (hi : Inv g.elements p) {b : Block} (hb : b ∈ p.live) :
    free g p (.blk b) = .ok { p with free := b :: p.free, live := p.live.erase b } := by
  have hm := (hi.mem b).1 (List.mem_append.2 (Or.inr hb))
  simp only [free, inSomeChunk_of_slot hg hi hm.1 hm.2, if_true]

theorem inv_free {E : Nat} {p : Pool} (hi : Inv E p) {b : Block} (hb : b ∈ p.live) :
    Inv E { p with free := b :: p.free, live := p.live.erase b } := by
  have hperm : ((b :: p.free) ++ p.live.erase b).Perm (p.free ++ p.live) := by
    have h1 : (p.free ++ p.live).Perm (p.free ++ (b :: p.live.erase b)) :=
      List.Perm.append_left _ (List.perm_cons_erase hb)
    exact (h1.trans List.perm_middle).symm
  refine ⟨hi.chunks, hperm.nodup_iff.2 hi.nodup, fun x => (hperm.mem_iff).trans (hi.mem x), ?_⟩
  have := hi.count
  have hl := List.length_erase_of_mem hb
  have hpos : 0 < p.live.length := List.length_pos_of_mem hb
  simp only [List.length_cons]
  omega

/-! ### histories -/

theorem step_alloc (g : Geo) (p : Pool) : step g p .alloc = ((allocate g.elements p).2, .ret (allocate g.elements p).1) := rfl

theorem step_free_live {g : Geo} (hg : GeoOK g) {p : Pool} (hi : Inv g.elements p) {b : Block} (hb : b ∈ p.live) :
    step g p (.free (.blk b)) = ({ p with free := b :: p.free, live := p.live.erase b }, .freed (.blk b)) := by
  simp only [step, free_live hg hi hb]

/-- the three things a step of a valid history can be: an allocation by the pool, the release of a live block, or a
    refused request that leaves the pool as it was -/
inductive StepKind (g : Geo) (p : Pool) (o : Op) : Prop where
  | allocated (h : step g p o = ((allocate g.elements p).2, .ret (allocate g.elements p).1))
  | released (b : Block) (hb : b ∈ p.live) (ho : o = .free (.blk b))
      (h : step g p o = ({ p with free := b :: p.free, live := p.live.erase b }, .freed (.blk b)))
  | refused (hbad : o.isBad = true) (h : step g p o = (p, .refused))

theorem step_kind {g : Geo} (hg : GeoOK g) {p : Pool} (hi : Inv g.elements p) {o : Op} (hv : okOp p o) :
    StepKind g p o := by
  cases o with
  | alloc => exact .allocated rfl
  | allocN n =>
    by_cases h : n = 1
    · subst h; exact .allocated (by simp [step, paAllocate, paAccepts])
    · exact .refused (by simp [Op.isBad, h]) (by simp [step, paAllocate, paAccepts, h])
  | allocOom =>
    cases hf : p.free with
    | nil => exact .refused rfl (by simp [step, allocateOS, hf])
    | cons c rest => exact .allocated (by simp [step, allocateOS, hf])
  | free q =>
    cases q with
    | null => exact .refused rfl (by simp [step, free])
    | foreign => exact .refused rfl (by simp [step, free])
    | blk b => exact .released b hv rfl (step_free_live hg hi hv)

theorem inv_step {g : Geo} (hg : GeoOK g) {p : Pool} (hi : Inv g.elements p) {o : Op} (hv : okOp p o) :
    Inv g.elements (step g p o).1 := by
  cases step_kind hg hi hv with
  | allocated h => rw [h]; exact inv_allocate hg.el_pos hi
  | released b hb _ h => rw [h]; exact inv_free hi hb
  | refused _ h => rw [h]; exact hi

theorem inv_run {g : Geo} (hg : GeoOK g) : ∀ (ops : List Op) (p : Pool), Inv g.elements p → Valid g p ops →
    Inv g.elements (run g p ops).1
  | [], p, hi, _ => hi
  | o :: os, p, hi, hv => by
    simp only [run]
    exact inv_run hg os _ (inv_step hg hi hv.1) hv.2

/-- a refused request leaves the pool unchanged — in every state, valid history or not -/
theorem refused_unchanged (g : Geo) (p : Pool) (o : Op) (h : (step g p o).2 = .refused) : (step g p o).1 = p := by
  cases o with
  | alloc => simp [step] at h
  | allocN n =>
    simp only [step] at h ⊢
    split at h <;> simp_all
  | allocOom =>
    simp only [step] at h ⊢
    split at h <;> simp_all
  | free q =>
    simp only [step] at h ⊢
    split at h <;> simp_all

/-- in a valid history only the requests the pool refuses by design are refused: every plain `allocate`, every
    `allocate(1)` and every release of a live block succeeds -/
theorem refused_only_bad {g : Geo} (hg : GeoOK g) : ∀ (ops : List Op) (p : Pool), Inv g.elements p → Valid g p ops →
    ∀ i : Nat, (run g p ops).2[i]? = some Ev.refused → ∃ o, ops[i]? = some o ∧ o.isBad = true
  | [], _, _, _, i, h => by simp [run] at h
  | o :: os, p, hi, hv, i, h => by
    cases i with
    | zero =>
      simp only [run, List.getElem?_cons_zero, Option.some.injEq] at h
      refine ⟨o, by simp, ?_⟩
      cases step_kind hg hi hv.1 with
      | allocated h' => rw [h'] at h; simp at h
      | released b _ _ h' => rw [h'] at h; simp at h
      | refused hbad _ => exact hbad
    | succ i =>
      simp only [run, List.getElem?_cons_succ] at h ⊢
      exact refused_only_bad hg os _ (inv_step hg hi hv.1) hv.2 i h

/-- a block that is live and is not given back during `ops` is not returned by any allocate of `ops` -/
theorem live_not_returned {g : Geo} (hg : GeoOK g) {b : Block} : ∀ (ops : List Op) (p : Pool), Inv g.elements p →
    Valid g p ops → b ∈ p.live → ∀ j : Nat, (∀ k : Nat, k < j → (run g p ops).2[k]? ≠ some (Ev.freed (.blk b))) →
    (run g p ops).2[j]? ≠ some (Ev.ret b)
  | [], _, _, _, _, j, _ => by simp [run]
  | o :: os, p, hi, hv, hb, j, hk => by
    have hinv' := inv_step hg hi hv.1
    simp only [run] at hk ⊢
    cases j with
    | zero =>
      simp only [List.getElem?_cons_zero, ne_eq, Option.some.injEq]
      cases step_kind hg hi hv.1 with
      | allocated h =>
        rw [h]
        simp only [Ev.ret.injEq]
        intro heq
        have hfr := allocate_fresh' hg.el_pos hi
        rw [heq] at hfr; exact hfr.1 hb
      | released c _ _ h => rw [h]; simp
      | refused _ h => rw [h]; simp
    | succ j =>
      simp only [List.getElem?_cons_succ]
      have hk0 := hk 0 (by omega)
      simp only [List.getElem?_cons_zero, ne_eq, Option.some.injEq] at hk0
      refine live_not_returned hg os _ hinv' hv.2 ?_ j ?_
      · cases step_kind hg hi hv.1 with
        | allocated h =>
          rw [h]
          cases hf : p.free with
          | cons c rest => rw [allocate_pop hf]; simp [hb]
          | nil => rw [allocate_grow hf]; simp [hb]
        | released c _ _ h =>
          rw [h] at hk0 ⊢
          have hne : c ≠ b := by
            intro heq; apply hk0; rw [heq]
          exact (List.mem_erase_of_ne (Ne.symm hne)).2 hb
        | refused _ h => rw [h]; exact hb
      · intro k hkj
        have := hk (k + 1) (by omega)
        simpa using this

/-- between two allocations that return the same block the block has been given back -/
theorem reuse_after_free {g : Geo} (hg : GeoOK g) {b : Block} : ∀ (ops : List Op) (p : Pool), Inv g.elements p →
    Valid g p ops → ∀ i j : Nat, i < j → (run g p ops).2[i]? = some (Ev.ret b) → (run g p ops).2[j]? = some (Ev.ret b) →
    ∃ k : Nat, i < k ∧ k < j ∧ (run g p ops).2[k]? = some (Ev.freed (.blk b))
  | [], _, _, _, i, j, _, h, _ => by simp [run] at h
  | o :: os, p, hi, hv, i, j, hij, h1, h2 => by
    have hinv' : Inv g.elements (step g p o).1 := inv_step hg hi hv.1
    have hv' : Valid g (step g p o).1 os := hv.2
    cases j with
    | zero => omega
    | succ j =>
      simp only [run, List.getElem?_cons_succ] at h2
      cases i with
      | succ i =>
        simp only [run, List.getElem?_cons_succ] at h1
        obtain ⟨k, hk1, hk2, hk3⟩ := reuse_after_free hg os _ hinv' hv' i j (by omega) h1 h2
        exact ⟨k + 1, by omega, by omega, by simp only [run, List.getElem?_cons_succ]; exact hk3⟩
      | zero =>
        simp only [run, List.getElem?_cons_zero, Option.some.injEq] at h1
        -- the first step returned b, so b is live afterwards
        have hlive : b ∈ (step g p o).1.live := by
          cases step_kind hg hi hv.1 with
          | allocated h =>
            rw [h] at h1 ⊢
            simp only [Ev.ret.injEq] at h1
            have := (allocate_fresh' hg.el_pos hi).2.2.2.1
            rw [h1] at this; exact this
          | released c _ _ h => rw [h] at h1; simp at h1
          | refused _ h => rw [h] at h1; simp at h1
        -- if it were never freed before position j of the tail, it could not be returned there
        apply Classical.byContradiction
        intro hno
        refine live_not_returned hg os _ hinv' hv' hlive j ?_ h2
        intro k hkj hfreed
        exact hno ⟨k + 1, by omega, by omega, by simp only [run, List.getElem?_cons_succ]; exact hfreed⟩

/-- `allocate` while `operator new` fails: with an empty free list the request is refused (the pool is not touched),
    otherwise it is an ordinary pop that obtains no memory -/
theorem allocateOS_false (E : Nat) (p : Pool) :
    (p.free = [] → allocateOS E false p = .error .alloc) ∧
    (p.free ≠ [] → allocateOS E false p = .ok (allocate E p) ∧ (allocate E p).2.chunks = p.chunks) := by
  constructor
  · intro h; simp [allocateOS, h]
  · intro h
    cases hf : p.free with
    | nil => exact absurd hf h
    | cons c rest => exact ⟨by simp [allocateOS, hf], by rw [allocate_pop hf]⟩

theorem allocateOS_true (E : Nat) (p : Pool) : allocateOS E true p = .ok (allocate E p) := by
  cases hf : p.free <;> simp [allocateOS, hf]

/-! ### the chunk list -/

/-- the destructor deletes every chunk ever obtained exactly once -/
theorem destroy_perm {E : Nat} {p : Pool} (hi : Inv E p) : (destroy p).Perm (List.range p.chunks.length) := by
  unfold destroy
  rw [hi.chunks]
  simp only [List.length_reverse, List.length_range]
  exact List.reverse_perm _

/-- `allocate` obtains a chunk exactly when the free list is empty, and never gives one back -/
theorem allocate_chunks (E : Nat) (p : Pool) :
    (allocate E p).2.chunks.length = p.chunks.length + (if p.free = [] then 1 else 0) := by
  cases hf : p.free with
  | cons b rest => rw [allocate_pop hf]; simp
  | nil => rw [allocate_grow hf]; simp

/-- no chunk is obtained while a free slot exists: free and live blocks together are exactly the slots of the chunks -/
theorem chunks_needed {E : Nat} {p : Pool} (hi : Inv E p) : p.free.length + p.live.length = p.chunks.length * E :=
  hi.count

end DV.C15
