import DuneVerif.Proofs.C02Outer
/-! C02: the whole run of `luDecomposition` for an arbitrary functor: invariant + the three functors. -/
namespace DV.C02
open Matrix
set_option linter.unusedSectionVars false

variable {n : Nat} {K Q S : Type} [Field K] [LinearOrder Q] [Zero Q]

/-- what the theorems need to know about the absolute value used in the pivot search / singularity test -/
structure AbsLike (absval : K → Q) : Prop where
  zero_iff : ∀ x, absval x = 0 ↔ x = 0
  nonneg : ∀ x, 0 ≤ absval x

/-- the pivot row of outer step `i` -/
def pivRow (piv : Bool) (absval : K → Q) (A : Mat n K) (i : Fin n) : Fin n :=
  if piv then (pivotSearch absval A i).2 else i

/-- the value compared with zero in the singularity test of outer step `i` -/
def pivVal (piv : Bool) (absval : K → Q) (A : Mat n K) (i : Fin n) : Q :=
  if piv then (pivotSearch absval A i).1 else absval (A.f i i)

/-- the functor state after `func.swap` (only called when pivoting) -/
def swapS (piv : Bool) (F : Func n K S) (s : S) (i p : Fin n) : S := if piv then F.swap s i p else s

theorem pivotPhase_eq (piv : Bool) (absval : K → Q) (F : Func n K S) (A : Mat n K) (s : S) (i : Fin n) :
    pivotPhase piv absval F A s i =
      (pivVal piv absval A i, swapRows A i (pivRow piv absval A i), swapS piv F s i (pivRow piv absval A i)) := by
  cases piv <;> simp [pivotPhase, pivVal, pivRow, swapS, swapRows_self]

theorem luStep_eq (piv : Bool) (absval : K → Q) (F : Func n K S) (i : Fin n) (st : LUState n K S)
    (hok : st.ok = true) :
    luStep piv absval F i st =
      if pivVal piv absval st.A i = 0 then
        ⟨swapRows st.A i (pivRow piv absval st.A i), swapS piv F st.s i (pivRow piv absval st.A i), false⟩
      else
        ⟨elimAll (swapRows st.A i (pivRow piv absval st.A i)) i,
         (elimLoop F (swapRows st.A i (pivRow piv absval st.A i))
            (swapS piv F st.s i (pivRow piv absval st.A i)) i).2, true⟩ := by
  simp only [luStep, hok, if_true, pivotPhase_eq, beq_iff_eq, elimLoop_fst]

theorem luStep_not_ok (piv : Bool) (absval : K → Q) (F : Func n K S) (i : Fin n) (st : LUState n K S)
    (hok : st.ok = false) : luStep piv absval F i st = st := by
  simp [luStep, hok]

theorem pivRow_ge (piv : Bool) (absval : K → Q) (A : Mat n K) (i : Fin n) : i ≤ pivRow piv absval A i := by
  cases piv
  · simp [pivRow]
  · simp only [pivRow, if_true]; exact (pivotSearch_spec absval A i).1

theorem pivVal_eq (piv : Bool) (absval : K → Q) (A : Mat n K) (i : Fin n) :
    pivVal piv absval A i = absval ((swapRows A i (pivRow piv absval A i)).f i i) := by
  rw [swapRows_f, Equiv.swap_apply_left]
  cases piv
  · simp [pivVal, pivRow]
  · simp only [pivVal, pivRow, if_true]; exact (pivotSearch_spec absval A i).2.1

theorem pivVal_zero_col {absval : K → Q} (habs : AbsLike absval) (A : Mat n K) (i : Fin n)
    (h : pivVal true absval A i = 0) :
    ∀ r, i ≤ r → (swapRows A i (pivRow true absval A i)).f r i = 0 := by
  intro r hr
  rw [swapRows_f]
  have hp := pivRow_ge true absval A i
  have hge : i ≤ Equiv.swap i (pivRow true absval A i) r := by
    rw [Equiv.swap_apply_def]
    split_ifs with h1 h2
    · exact hp
    · exact le_refl _
    · exact hr
  have hle := (pivotSearch_spec absval A i).2.2 _ hge
  simp only [pivVal, if_true] at h
  rw [h] at hle
  exact (habs.zero_iff _).mp (le_antisymm hle (habs.nonneg _))

/-- The invariant of a run of `luDecomposition` with functor `F`: `R m σ A s` is the functor-specific part. -/
theorem lu_invariant (piv : Bool) {absval : K → Q} (habs : AbsLike absval) (F : Func n K S)
    (A₀ : Mat n K) (s₀ : S) (R : Nat → Equiv.Perm (Fin n) → Mat n K → S → Prop)
    (hR0 : R 0 1 A₀ s₀)
    (hRstep : ∀ (i p : Fin n) (σ : Equiv.Perm (Fin n)) (A : Mat n K) (s : S), i ≤ p → (piv = false → p = i) →
      AInv A₀ i.1 A σ → R i.1 σ A s → (swapRows A i p).f i i ≠ 0 →
      R (i.1 + 1) (σ * Equiv.swap i p) (elimAll (swapRows A i p) i)
        (elimLoop F (swapRows A i p) (swapS piv F s i p) i).2) :
    ((luDecomp piv absval F A₀ s₀).ok = true →
      ∃ σ, AInv A₀ n (luDecomp piv absval F A₀ s₀).A σ ∧
        R n σ (luDecomp piv absval F A₀ s₀).A (luDecomp piv absval F A₀ s₀).s) ∧
    ((luDecomp piv absval F A₀ s₀).ok = false → piv = true → (toMatrix A₀).det = 0) := by
  unfold luDecomp
  apply forUp_ind (⟨A₀, s₀, true⟩ : LUState n K S) (luStep piv absval F)
    (fun m st => (st.ok = true → ∃ σ, AInv A₀ m st.A σ ∧ R m σ st.A st.s) ∧
      (st.ok = false → piv = true → (toMatrix A₀).det = 0))
  · exact ⟨fun _ => ⟨1, AInv_zero A₀, hR0⟩, fun h => by simp at h⟩
  · intro i st ⟨h1, h2⟩
    by_cases hok : st.ok = true
    · obtain ⟨σ, hA, hR⟩ := h1 hok
      rw [luStep_eq piv absval F i st hok]
      have hp := pivRow_ge piv absval st.A i
      by_cases hz : pivVal piv absval st.A i = 0
      · simp only [hz, if_true]
        refine ⟨fun h => by simp at h, fun _ hpiv => ?_⟩
        subst hpiv
        exact det_zero_of_fail (fact_swap hp hA.fact) (pivVal_zero_col habs st.A i hz)
      · simp only [hz, if_false]
        have hne : (swapRows st.A i (pivRow piv absval st.A i)).f i i ≠ 0 := by
          intro h0
          apply hz
          rw [pivVal_eq, h0]
          exact (habs.zero_iff 0).mpr rfl
        refine ⟨fun _ => ⟨σ * Equiv.swap i (pivRow piv absval st.A i), AInv_step hp hA hne, ?_⟩,
          fun h => by simp at h⟩
        apply hRstep i _ σ st.A st.s hp _ hA hR hne
        intro hpiv; subst hpiv; simp [pivRow]
    · have hok' : st.ok = false := by simpa using hok
      rw [luStep_not_ok piv absval F i st hok']
      exact ⟨fun h => absurd h hok, h2⟩

end DV.C02
