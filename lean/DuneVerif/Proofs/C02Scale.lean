import DuneVerif.Proofs.C02FloatLU
import DuneVerif.Model.C02Top
/-!
# C02 — the LU path has no absolute scale

`luDecomposition` decides "singular" by an exact comparison of the pivot's magnitude with zero and chooses the pivot by
comparing magnitudes within one column.  Consequently the whole LU path of `solve / invert / determinant` is
*equivariant under scaling*: for operands `φ∘A` ("`c·A`") and `ψ∘b` ("`d·b`") it reports FMatrixError in exactly the same
cases as for `A`, `b`, exchanges the same rows, stores the same multipliers, and returns the scaled results
`χ∘x` ("`(d/c)·x`"), `ι∘B` ("`c⁻¹·B`"), `φ^[n] det`.

Everything is stated for an arbitrary scalar type with the core operations and maps `φ ψ χ` that satisfy the few
identities the loops use (`ScaleSys`), so that it applies both to exact fields (`x ↦ c·x`, `c ≠ 0`) and to rounded
arithmetic (`Flt.FlR R`) whenever the rounding commutes with the scaling (`fl (c·x) = c·fl x`: binary floating point and
`c` a power of two, in the absence of overflow and underflow).  A singularity test against a fixed threshold
(`pivmax > 1e-80`) violates these theorems.
-/
namespace DV.C02.Scale
open DV.C02 DV.C02.Flt
set_option linter.unusedSectionVars false

/-! ### two folds in lockstep -/

theorem foldl_rel_ind {α β γ : Type} (l : List α) (f : β → α → β) (g : γ → α → γ) (b : β) (c : γ)
    (P : Nat → β → γ → Prop) (h0 : P 0 b c)
    (hs : ∀ (i : Nat) (h : i < l.length) (s : β) (t : γ), P i s t → P (i + 1) (f s l[i]) (g t l[i])) :
    P l.length (l.foldl f b) (l.foldl g c) := by
  induction l generalizing b c P with
  | nil => simpa using h0
  | cons a t ih =>
    simp only [List.foldl_cons, List.length_cons]
    apply ih (f b a) (g c a) (fun i s t => P (i + 1) s t)
    · exact hs 0 (by simp) b c h0
    · intro i h s t' hp
      exact hs (i + 1) (by simpa using h) s t' hp

theorem foldr_rel_ind {α β γ : Type} (l : List α) (f : α → β → β) (g : α → γ → γ) (b : β) (c : γ)
    (P : Nat → β → γ → Prop) (h0 : P l.length b c)
    (hs : ∀ (i : Nat) (h : i < l.length) (s : β) (t : γ), P (i + 1) s t → P i (f l[i] s) (g l[i] t)) :
    P 0 (l.foldr f b) (l.foldr g c) := by
  induction l generalizing P with
  | nil => simpa using h0
  | cons a t ih =>
    simp only [List.foldr_cons]
    apply hs 0 (by simp)
    apply ih (fun i s t => P (i + 1) s t)
    · simpa using h0
    · intro i h s t' hp
      exact hs (i + 1) (by simpa using h) s t' hp

/-- two `for (k = 0; k < n; ++k)` loops in lockstep -/
theorem forUp_rel {n : Nat} {β γ : Type} (b : β) (c : γ) (f : Fin n → β → β) (g : Fin n → γ → γ)
    (P : Nat → β → γ → Prop) (h0 : P 0 b c)
    (hs : ∀ (k : Fin n) (s : β) (t : γ), P k.1 s t → P (k.1 + 1) (f k s) (g k t)) :
    P n (forUp n b f) (forUp n c g) := by
  have := foldl_rel_ind (List.finRange n) (fun s k => f k s) (fun t k => g k t) b c P h0 (by
    intro i h s t hp
    have hi : i < n := by simpa using h
    have : (List.finRange n)[i] = ⟨i, hi⟩ := by simp
    rw [this]
    exact hs ⟨i, hi⟩ s t hp)
  simpa [forUp] using this

/-- two `for (k = n; k > 0;) { --k; … }` loops in lockstep -/
theorem forDown_rel {n : Nat} {β γ : Type} (b : β) (c : γ) (f : Fin n → β → β) (g : Fin n → γ → γ)
    (P : Nat → β → γ → Prop) (h0 : P n b c)
    (hs : ∀ (k : Fin n) (s : β) (t : γ), P (k.1 + 1) s t → P k.1 (f k s) (g k t)) :
    P 0 (forDown n b f) (forDown n c g) := by
  have := foldr_rel_ind (List.finRange n) (fun k s => f k s) (fun k t => g k t) b c P (by simpa using h0) (by
    intro i h s t hp
    have hi : i < n := by simpa using h
    have : (List.finRange n)[i] = ⟨i, hi⟩ := by simp
    rw [this]
    exact hs ⟨i, hi⟩ s t hp)
  simpa [forDown] using this

section Generic
variable {n : Nat} {K Q S : Type} [Add K] [Sub K] [Mul K] [Div K] [Neg K] [OfNat K 0] [OfNat K 1]
variable [LinearOrder Q] [Zero Q]

/-- entry-wise image of a matrix / vector -/
def mapMat (g : K → K) (A : Mat n K) : Mat n K := Mat.ofFn fun i j => g (A.f i j)
def mapVec (g : K → K) (v : Vec n K) : Vec n K := Vec.ofFn fun i => g (v.f i)
def mapRes {α : Type} (g : α → α) : Res α → Res α
  | .ok x => .ok (g x)
  | .fmatrixError => .fmatrixError

/-- what the loops of the LU path use about a scaling `φ` of the matrix ("`c·`"), `ψ` of the right-hand side ("`d·`")
and `χ` of the solution ("`(d/c)·`"); `absval` is the pivot magnitude -/
structure ScaleSys (absval : K → Q) (φ ψ χ : K → K) : Prop where
  abs_lt : ∀ x y, absval (φ x) < absval (φ y) ↔ absval x < absval y
  abs_zero : ∀ x, absval (φ x) = 0 ↔ absval x = 0
  div_φ : ∀ a b, φ a / φ b = a / b
  mul_φ : ∀ f b, f * φ b = φ (f * b)
  sub_φ : ∀ a b, φ a - φ b = φ (a - b)
  mul_ψ : ∀ f b, f * ψ b = ψ (f * b)
  sub_ψ : ∀ a b, ψ a - ψ b = ψ (a - b)
  mul_χ : ∀ a x, φ a * χ x = ψ (a * x)
  div_χ : ∀ r a, ψ r / φ a = χ (r / a)

/-- the working matrix of the scaled run after `m` outer steps: the stored multipliers (below the diagonal, columns
`< m`) are those of the unscaled run, everything else is scaled -/
def MatRel (φ : K → K) (m : Nat) (A' A : Mat n K) : Prop :=
  ∀ r c : Fin n, A'.f r c = if c < r ∧ c.1 < m then A.f r c else φ (A.f r c)

theorem MatRel_map (φ : K → K) (A : Mat n K) : MatRel φ 0 (mapMat φ A) A := by
  intro r c; simp [mapMat]

theorem MatRel_col {φ : K → K} {A' A : Mat n K} {i : Fin n} (h : MatRel φ i.1 A' A) (r : Fin n) :
    A'.f r i = φ (A.f r i) := by
  rw [h r i]; simp

variable {absval : K → Q} {φ ψ χ : K → K}

/-- the pivot search of the scaled run finds the same row -/
theorem pivotSearch_scale (H : ScaleSys absval φ ψ χ) {A' A : Mat n K} {i : Fin n} (h : MatRel φ i.1 A' A) :
    (pivotSearch absval A' i).2 = (pivotSearch absval A i).2 := by
  have key : (pivotSearch absval A' i).2 = (pivotSearch absval A i).2 ∧
      (pivotSearch absval A' i).1 = absval (φ (A.f (pivotSearch absval A i).2 i)) ∧
      (pivotSearch absval A i).1 = absval (A.f (pivotSearch absval A i).2 i) := by
    unfold pivotSearch
    apply forUp_rel (absval (A'.f i i), i) (absval (A.f i i), i) _ _
      (fun _ s t => s.2 = t.2 ∧ s.1 = absval (φ (A.f t.2 i)) ∧ t.1 = absval (A.f t.2 i))
    · exact ⟨rfl, by rw [MatRel_col h], rfl⟩
    · intro k s t ⟨h2, h1, ht⟩
      by_cases hik : i < k
      · simp only [hik, if_true]
        rw [MatRel_col h k, h1, ht]
        by_cases hlt : absval (A.f t.2 i) < absval (A.f k i)
        · have hlt' := (H.abs_lt _ _).mpr hlt
          simp only [hlt, hlt', if_true]; simp
        · have hlt' : ¬ absval (φ (A.f t.2 i)) < absval (φ (A.f k i)) := fun h => hlt ((H.abs_lt _ _).mp h)
          simp only [hlt, hlt', if_false]; exact ⟨h2, h1, ht⟩
      · simp only [hik, if_false]; exact ⟨h2, h1, ht⟩
  exact key.1

theorem pivRow_scale (H : ScaleSys absval φ ψ χ) (piv : Bool) {A' A : Mat n K} {i : Fin n} (h : MatRel φ i.1 A' A) :
    pivRowG piv absval A' i = pivRowG piv absval A i := by
  cases piv
  · simp [pivRowG]
  · simp only [pivRowG, if_true]; exact pivotSearch_scale H h

theorem swapRows_scale {A' A : Mat n K} {i p : Fin n} (hip : i ≤ p) (h : MatRel φ i.1 A' A) :
    MatRel φ i.1 (swapRows A' i p) (swapRows A i p) := by
  intro r c
  rw [swapRows_fG, swapRows_fG, h]
  have hcond : ∀ q : Fin n, i ≤ q → ((c < q ∧ c.1 < i.1) ↔ c.1 < i.1) := by
    intro q hq
    constructor
    · exact fun h => h.2
    · intro hc
      refine ⟨?_, hc⟩
      simp only [Fin.lt_def, Fin.le_def] at *
      omega
  by_cases hri : r = i
  · subst hri
    rw [Equiv.swap_apply_left]
    simp only [hcond p hip, hcond r (Fin.le_refl _)]
  · by_cases hrp : r = p
    · subst hrp
      rw [Equiv.swap_apply_right]
      simp only [hcond i (Fin.le_refl _), hcond r hip]
    · rw [Equiv.swap_apply_of_ne_of_ne hri hrp]

/-- the zero test of the scaled run has the same outcome -/
theorem pivVal_scale (H : ScaleSys absval φ ψ χ) (piv : Bool) {A' A : Mat n K} {i : Fin n} (h : MatRel φ i.1 A' A) :
    pivValG piv absval A' i = 0 ↔ pivValG piv absval A i = 0 := by
  rw [pivVal_eqG, pivVal_eqG, pivRow_scale H piv h]
  have := swapRows_scale (φ := φ) (pivRow_geG piv absval A i) h
  rw [MatRel_col this]
  exact H.abs_zero _

theorem elimAll_scale (H : ScaleSys absval φ ψ χ) {B' B : Mat n K} {i : Fin n} (h : MatRel φ i.1 B' B) :
    MatRel φ (i.1 + 1) (elimAll B' i) (elimAll B i) := by
  intro r c
  simp only [elimAll, Mat.ofFn_f]
  by_cases hir : i < r
  · simp only [hir, if_true, elimEntry]
    have hii : B'.f i i = φ (B.f i i) := MatRel_col h i
    have hri : B'.f r i = φ (B.f r i) := MatRel_col h r
    by_cases hci : c = i
    · subst hci
      simp only [if_true, hii, hri, H.div_φ]
      have : c < r ∧ c.1 < c.1 + 1 := ⟨hir, Nat.lt_succ_self _⟩
      rw [if_pos this]
    · simp only [hci, if_false]
      by_cases hic : i < c
      · simp only [hic, if_true, hii, hri, H.div_φ]
        have h1 : B'.f r c = φ (B.f r c) := by
          rw [h r c]
          have : ¬ (c < r ∧ c.1 < i.1) := by
            simp only [Fin.lt_def] at *; omega
          rw [if_neg this]
        have h2 : B'.f i c = φ (B.f i c) := by
          rw [h i c]
          have : ¬ (c < i ∧ c.1 < i.1) := by
            simp only [Fin.lt_def] at *; omega
          rw [if_neg this]
        rw [h1, h2, H.mul_φ, H.sub_φ]
        have : ¬ (c < r ∧ c.1 < i.1 + 1) := by
          simp only [Fin.lt_def] at *; omega
        rw [if_neg this]
      · simp only [hic, if_false]
        have hlt : c.1 < i.1 := by
          have : c.1 ≠ i.1 := fun h => hci (Fin.ext h)
          simp only [Fin.lt_def] at *; omega
        rw [h r c]
        have h1 : c < r ∧ c.1 < i.1 := by
          simp only [Fin.lt_def] at *; omega
        have h2 : c < r ∧ c.1 < i.1 + 1 := by
          simp only [Fin.lt_def] at *; omega
        rw [if_pos h1, if_pos h2]
  · simp only [hir, if_false]
    rw [h r c]
    have : (c < r ∧ c.1 < i.1) ↔ (c < r ∧ c.1 < i.1 + 1) := by
      simp only [Fin.lt_def] at *; omega
    simp only [this]

/-- **`luDecomposition` of the scaled operands**: the same verdict "singular", and when the run completes the same
multipliers, the scaled upper triangle and related functor states.  `RS` is the relation between the functor states;
the functor must preserve it (`hswap`, `hel`). -/
theorem luDecomp_scale (H : ScaleSys absval φ ψ χ) (piv : Bool) (F : Func n K S) (RS : S → S → Prop)
    (hswap : ∀ (s' s : S) (i p : Fin n), RS s' s → RS (F.swap s' i p) (F.swap s i p))
    (hel : ∀ (B' B : Mat n K) (s' s : S) (i : Fin n), MatRel φ i.1 B' B → RS s' s →
      RS (elimLoop F B' s' i).2 (elimLoop F B s i).2)
    (A' A : Mat n K) (s' s : S) (hA : MatRel φ 0 A' A) (hs : RS s' s) :
    (luDecomp piv absval F A' s').ok = (luDecomp piv absval F A s).ok ∧
    ((luDecomp piv absval F A s).ok = true →
      RS (luDecomp piv absval F A' s').s (luDecomp piv absval F A s).s ∧
      MatRel φ n (luDecomp piv absval F A' s').A (luDecomp piv absval F A s).A) := by
  unfold luDecomp
  apply forUp_rel (⟨A', s', true⟩ : LUState n K S) (⟨A, s, true⟩ : LUState n K S) _ _
    (fun m st' st => st'.ok = st.ok ∧ (st.ok = true → RS st'.s st.s ∧ MatRel φ m st'.A st.A))
  · exact ⟨rfl, fun _ => ⟨hs, hA⟩⟩
  · intro i st' st ⟨hok, hrel⟩
    by_cases hst : st.ok = true
    · have hst' : st'.ok = true := by rw [hok]; exact hst
      obtain ⟨hRS, hM⟩ := hrel hst
      rw [luStep_eqG piv absval F i st' hst', luStep_eqG piv absval F i st hst]
      have hz := pivVal_scale H piv hM
      have hrow := pivRow_scale H piv hM
      by_cases hzero : pivValG piv absval st.A i = 0
      · have hzero' : pivValG piv absval st'.A i = 0 := hz.mpr hzero
        simp only [hzero, hzero', if_true]
        simp
      · have hzero' : ¬ pivValG piv absval st'.A i = 0 := fun h => hzero (hz.mp h)
        simp only [hzero, hzero', if_false]
        refine ⟨by simp, fun _ => ?_⟩
        have hsw := swapRows_scale (φ := φ) (pivRow_geG piv absval st.A i) hM
        rw [hrow]
        refine ⟨?_, elimAll_scale H hsw⟩
        apply hel _ _ _ _ i hsw
        cases piv
        · simpa [swapSG] using hRS
        · simp only [swapSG, if_true]; exact hswap _ _ _ _ hRS
    · have hst0 : st.ok = false := by simpa using hst
      have hst0' : st'.ok = false := by rw [hok]; exact hst0
      rw [luStep_not_okG piv absval F i st' hst0', luStep_not_okG piv absval F i st hst0]
      exact ⟨hok, fun h => absurd h hst⟩

/-! ### solve -/

theorem elimFunc_swap_scale (g : K → K) (s' s : Vec n K) (i p : Fin n) (h : ∀ r, s'.f r = g (s.f r)) :
    ∀ r, ((elimFunc : Func n K (Vec n K)).swap s' i p).f r = g (((elimFunc : Func n K (Vec n K)).swap s i p).f r) := by
  intro r
  simp only [elimFunc, Vec.ofFn_f]
  split_ifs <;> exact h _

theorem elimFunc_elim_scale (H : ScaleSys absval φ ψ χ) {B' B : Mat n K} {s' s : Vec n K} {i : Fin n}
    (hM : MatRel φ i.1 B' B) (h : ∀ r, s'.f r = ψ (s.f r)) :
    ∀ r, (elimLoop elimFunc B' s' i).2.f r = ψ ((elimLoop elimFunc B s i).2.f r) := by
  intro r
  rw [elimLoop_elimFunc_snd, elimLoop_elimFunc_snd]
  simp only [Vec.ofFn_f]
  by_cases hir : i < r
  · simp only [hir, if_true]
    rw [MatRel_col hM r, MatRel_col hM i, H.div_φ, h r, h i, H.mul_ψ, H.sub_ψ]
  · simp only [hir, if_false]; exact h r

/-- back substitution with the scaled upper triangle and the scaled right-hand side gives the scaled solution -/
theorem backSubst_scale (H : ScaleSys absval φ ψ χ) {U' U : Mat n K} {y' y : Vec n K}
    (hU : MatRel φ n U' U) (hy : ∀ r, y'.f r = ψ (y.f r)) :
    ∀ r, (backSubst U' y').f r = χ ((backSubst U y).f r) := by
  have hup : ∀ r c : Fin n, r ≤ c → U'.f r c = φ (U.f r c) := by
    intro r c hrc
    rw [hU r c]
    have : ¬ (c < r ∧ c.1 < n) := by simp only [Fin.lt_def, Fin.le_def] at *; omega
    rw [if_neg this]
  have key : ∀ r : Fin n, (backSubst U' y').f r =
      if 0 ≤ r.1 then χ ((backSubst U y).f r) else ψ ((backSubst U y).f r) := by
    unfold backSubst
    apply forDown_rel y' y _ _
      (fun m x' x => ∀ r : Fin n, x'.f r = if m ≤ r.1 then χ (x.f r) else ψ (x.f r))
    · intro r
      have : ¬ n ≤ r.1 := by omega
      simp [this, hy r]
    · intro i x' x ih r
      simp only [Vec.ofFn_f]
      by_cases hri : r = i
      · subst hri
        simp only [if_true, le_refl]
        have hacc : forUp n (x'.f r) (fun j acc => if r < j then acc - U'.f r j * x'.f j else acc) =
            ψ (forUp n (x.f r) (fun j acc => if r < j then acc - U.f r j * x.f j else acc)) := by
          apply forUp_rel (x'.f r) (x.f r) _ _ (fun _ a' a => a' = ψ a)
          · rw [ih r]
            have : ¬ r.1 + 1 ≤ r.1 := by omega
            simp [this]
          · intro j a' a ha
            by_cases hrj : r < j
            · simp only [hrj, if_true]
              have hj : x'.f j = χ (x.f j) := by
                rw [ih j]
                have : r.1 + 1 ≤ j.1 := by simp only [Fin.lt_def] at hrj; omega
                simp [this]
              rw [ha, hup r j (le_of_lt hrj), hj, H.mul_χ, H.sub_ψ]
            · simp only [hrj, if_false]; exact ha
        rw [hacc, hup r r (le_refl _), H.div_χ]
      · simp only [hri, if_false]
        rw [ih r]
        have : (i.1 + 1 ≤ r.1) ↔ (i.1 ≤ r.1) := by
          have : r.1 ≠ i.1 := fun h => hri (Fin.ext h)
          omega
        simp only [this]
  intro r
  have := key r
  simpa using this

/-- **solve on the LU path**: FMatrixError for the scaled operands iff for the unscaled ones; otherwise the scaled
solution -/
theorem solveLU_scale (H : ScaleSys absval φ ψ χ) (piv : Bool) (A : Mat n K) (b : Vec n K) :
    solveLU piv absval (mapMat φ A) (mapVec ψ b) = mapRes (mapVec χ) (solveLU piv absval A b) := by
  have hlu := luDecomp_scale H piv (elimFunc : Func n K (Vec n K)) (fun s' s => ∀ r, s'.f r = ψ (s.f r))
    (fun s' s i p h => elimFunc_swap_scale ψ s' s i p h)
    (fun B' B s' s i hM h => elimFunc_elim_scale H hM h)
    (mapMat φ A) A (mapVec ψ b) b (MatRel_map φ A) (by intro r; simp [mapVec])
  unfold solveLU
  rw [hlu.1]
  by_cases hok : (luDecomp piv absval elimFunc A b).ok = true
  · simp only [hok, if_true, mapRes]
    obtain ⟨hs, hM⟩ := hlu.2 hok
    congr 1
    apply Vec.ext
    intro r
    rw [backSubst_scale H hM hs r]
    simp [mapVec]
  · simp only [hok, mapRes]
    simp

/-! ### determinant -/

theorem iterate_mul_left (hleft : ∀ x a, φ x * a = φ (x * a)) (m : Nat) (x a : K) :
    φ^[m] x * a = φ^[m] (x * a) := by
  induction m generalizing x with
  | zero => rfl
  | succ m ih => simp only [Function.iterate_succ, Function.comp]; rw [ih, hleft]

theorem iterate_zero (hzero : φ 0 = 0) (m : Nat) : φ^[m] (0 : K) = 0 := by
  induction m with
  | zero => rfl
  | succ m ih => simp only [Function.iterate_succ, Function.comp, hzero, ih]

/-- **determinant on the LU path**: `0` for the scaled matrix iff the unscaled run reports "singular"; otherwise the
value scaled `n` times (`det (c·A) = cⁿ det A`, here with the rounding of the computed product) -/
theorem detLU_scale (H : ScaleSys absval φ ψ χ) (hleft : ∀ x a, φ x * a = φ (x * a)) (hzero : φ 0 = 0)
    (piv : Bool) (A : Mat n K) :
    detLU piv absval (mapMat φ A) = φ^[n] (detLU piv absval A) := by
  have hlu := luDecomp_scale H piv (detFunc : Func n K K) (fun s' s => s' = s)
    (fun s' s i p h => by rw [h])
    (fun B' B s' s i _ h => by
      rw [elimLoop_snd_of_elim_id detFunc (fun _ _ _ _ => rfl), elimLoop_snd_of_elim_id detFunc (fun _ _ _ _ => rfl)]
      exact h)
    (mapMat φ A) A (1 : K) (1 : K) (MatRel_map φ A) rfl
  unfold detLU
  rw [hlu.1]
  by_cases hok : (luDecomp piv absval detFunc A (1 : K)).ok = true
  · simp only [hok, if_true]
    obtain ⟨hs, hM⟩ := hlu.2 hok
    rw [hs]
    have hdiag : ∀ i : Fin n, (luDecomp piv absval detFunc (mapMat φ A) (1 : K)).A.f i i =
        φ ((luDecomp piv absval detFunc A (1 : K)).A.f i i) := by
      intro i
      rw [hM i i]
      have : ¬ (i < i ∧ i.1 < n) := fun h => absurd h.1 (lt_irrefl _)
      rw [if_neg this]
    apply forUp_rel _ _ _ _ (fun m d' d => d' = φ^[m] d)
    · rfl
    · intro i d' d hd
      rw [hd, hdiag i, H.mul_φ, iterate_mul_left hleft]
      simp only [Function.iterate_succ_apply']
  · simp only [hok]
    simp only [Bool.false_eq_true, if_false]
    exact (iterate_zero hzero n).symm

/-! ### invert -/

/-- the forward sweep reads the strictly lower triangle only -/
theorem forwardL_congr {L' L : Mat n K} (h : ∀ r c : Fin n, c < r → L'.f r c = L.f r c) (B : Mat n K) :
    forwardL L' B = forwardL L B := by
  unfold forwardL
  apply forUp_rel B B _ _ (fun _ X' X => X' = X)
  · rfl
  · intro i X' X hX
    subst hX
    apply forUp_rel X' X' _ _ (fun _ Y' Y => Y' = Y)
    · rfl
    · intro j Y' Y hY
      subst hY
      by_cases hji : j < i
      · simp only [hji, if_true, h i j hji]
      · simp only [hji, if_false]

/-- the backward sweep with the scaled upper triangle gives the result scaled by `χ` (from `ψ`) -/
theorem backwardU_scale (H : ScaleSys absval φ ψ χ) {U' U : Mat n K} {Y' Y : Mat n K}
    (hU : MatRel φ n U' U) (hY : ∀ r c, Y'.f r c = ψ (Y.f r c)) :
    ∀ r c, (backwardU U' Y').f r c = χ ((backwardU U Y).f r c) := by
  have hup : ∀ r c : Fin n, r ≤ c → U'.f r c = φ (U.f r c) := by
    intro r c hrc
    rw [hU r c]
    have : ¬ (c < r ∧ c.1 < n) := by simp only [Fin.lt_def, Fin.le_def] at *; omega
    rw [if_neg this]
  have key : ∀ r c : Fin n, (backwardU U' Y').f r c =
      if 0 ≤ r.1 then χ ((backwardU U Y).f r c) else ψ ((backwardU U Y).f r c) := by
    unfold backwardU
    apply forDown_rel Y' Y _ _
      (fun m X' X => ∀ r c : Fin n, X'.f r c = if m ≤ r.1 then χ (X.f r c) else ψ (X.f r c))
    · intro r c
      have : ¬ n ≤ r.1 := by omega
      simp [this, hY r c]
    · intro i X' X ih r c
      simp only [Mat.ofFn_f]
      by_cases hri : r = i
      · subst hri
        simp only [if_true, le_refl]
        have hacc : forUp n (X'.f r c) (fun j acc => if r < j then acc - U'.f r j * X'.f j c else acc) =
            ψ (forUp n (X.f r c) (fun j acc => if r < j then acc - U.f r j * X.f j c else acc)) := by
          apply forUp_rel (X'.f r c) (X.f r c) _ _ (fun _ a' a => a' = ψ a)
          · rw [ih r c]
            have : ¬ r.1 + 1 ≤ r.1 := by omega
            simp [this]
          · intro j a' a ha
            by_cases hrj : r < j
            · simp only [hrj, if_true]
              have hj : X'.f j c = χ (X.f j c) := by
                rw [ih j c]
                have : r.1 + 1 ≤ j.1 := by simp only [Fin.lt_def] at hrj; omega
                simp [this]
              rw [ha, hup r j (le_of_lt hrj), hj, H.mul_χ, H.sub_ψ]
            · simp only [hrj, if_false]; exact ha
        rw [hacc, hup r r (le_refl _), H.div_χ]
      · simp only [hri, if_false]
        rw [ih r c]
        have : (i.1 + 1 ≤ r.1) ↔ (i.1 ≤ r.1) := by
          have : r.1 ≠ i.1 := fun h => hri (Fin.ext h)
          omega
        simp only [this]
  intro r c
  have := key r c
  simpa using this

/-- the column un-permutation only moves entries -/
theorem unpermute_map (g : K → K) (p : Vec n (Fin n)) {B' B : Mat n K} (h : ∀ r c, B'.f r c = g (B.f r c)) :
    ∀ r c, (unpermute p B').f r c = g ((unpermute p B).f r c) := by
  unfold unpermute
  apply forDown_rel B' B _ _ (fun _ X' X => ∀ r c, X'.f r c = g (X.f r c))
  · exact h
  · intro i X' X ih r c
    by_cases hp : i ≠ p.f i
    · simp only [hp, ne_eq, not_false_eq_true, if_true, swapCols, Mat.ofFn_f]
      split_ifs <;> exact ih _ _
    · simp only [hp, if_false]; exact ih r c

/-- **invert on the LU path** (`ι` = "`c⁻¹·`"): FMatrixError for the scaled matrix iff for the unscaled one; otherwise
the inverse scaled by `ι` -/
theorem invertLU_scale {ι : K → K} (H : ScaleSys absval φ id ι) (piv : Bool) (A : Mat n K) :
    invertLU piv absval (mapMat φ A) = mapRes (mapMat ι) (invertLU piv absval A) := by
  have hlu := luDecomp_scale H piv (pivotFunc : Func n K (Vec n (Fin n))) (fun s' s => s' = s)
    (fun s' s i p h => by rw [h])
    (fun B' B s' s i _ h => by
      rw [elimLoop_snd_of_elim_id pivotFunc (fun _ _ _ _ => rfl), elimLoop_snd_of_elim_id pivotFunc (fun _ _ _ _ => rfl)]
      exact h)
    (mapMat φ A) A idPivot idPivot (MatRel_map φ A) rfl
  unfold invertLU
  rw [hlu.1]
  by_cases hok : (luDecomp piv absval pivotFunc A idPivot).ok = true
  · simp only [hok, if_true, mapRes]
    obtain ⟨hs, hM⟩ := hlu.2 hok
    rw [hs]
    congr 1
    apply Mat.ext
    intro r c
    have hL : forwardL (luDecomp piv absval pivotFunc (mapMat φ A) idPivot).A (identity : Mat n K) =
        forwardL (luDecomp piv absval pivotFunc A idPivot).A identity := by
      apply forwardL_congr
      intro r c hcr
      rw [hM r c]
      have : c < r ∧ c.1 < n := ⟨hcr, c.2⟩
      rw [if_pos this]
    rw [hL]
    rw [unpermute_map ι _ (backwardU_scale H hM (fun _ _ => rfl)) r c]
    simp [mapMat]
  · simp only [hok, mapRes]
    simp


/-- the member functions for `rows() ≥ 4` are the LU path -/
theorem solve_scale_ge4 (H : ScaleSys absval φ ψ χ) (piv : Bool) {m : Nat} (A : Mat (m + 4) K) (b : Vec (m + 4) K) :
    solve piv absval (mapMat φ A) (mapVec ψ b) = mapRes (mapVec χ) (solve piv absval A b) :=
  solveLU_scale H piv A b

theorem invert_scale_ge4 {ι : K → K} (H : ScaleSys absval φ id ι) (piv : Bool) {m : Nat} (A : Mat (m + 4) K) :
    invert piv absval (mapMat φ A) = mapRes (mapMat ι) (invert piv absval A) :=
  invertLU_scale H piv A

theorem determinant_scale_ge4 (H : ScaleSys absval φ ψ χ) (hleft : ∀ x a, φ x * a = φ (x * a)) (hzero : φ 0 = 0)
    (piv : Bool) {m : Nat} (A : Mat (m + 4) K) :
    determinant piv absval (mapMat φ A) = φ^[m + 4] (determinant piv absval A) :=
  detLU_scale H hleft hzero piv A

end Generic

/-! ### instance 1: an exact field, `x ↦ c·x` with `c ≠ 0` -/
section Exact
variable {K Q : Type} [Field K] [LinearOrder Q] [Zero Q]

theorem scaleSys_field {absval : K → Q} {c : K} (hc : c ≠ 0) (d : K)
    (h0 : ∀ x, absval x = 0 ↔ x = 0)
    (hlt : ∀ x y, absval (c * x) < absval (c * y) ↔ absval x < absval y) :
    ScaleSys absval (fun x => c * x) (fun x => d * x) (fun x => d / c * x) where
  abs_lt := hlt
  abs_zero x := by rw [h0, h0]; simp [hc]
  div_φ a b := mul_div_mul_left a b hc
  mul_φ f b := by ring
  sub_φ a b := by ring
  mul_ψ f b := by ring
  sub_ψ a b := by ring
  mul_χ a x := by field_simp
  div_χ r a := by rw [mul_div_mul_comm]

theorem scaleSys_field_inv {absval : K → Q} {c : K} (hc : c ≠ 0)
    (h0 : ∀ x, absval x = 0 ↔ x = 0)
    (hlt : ∀ x y, absval (c * x) < absval (c * y) ↔ absval x < absval y) :
    ScaleSys absval (fun x => c * x) id (fun x => c⁻¹ * x) where
  abs_lt := hlt
  abs_zero x := by rw [h0, h0]; simp [hc]
  div_φ a b := mul_div_mul_left a b hc
  mul_φ f b := by ring
  sub_φ a b := by ring
  mul_ψ f b := rfl
  sub_ψ a b := rfl
  mul_χ a x := by simp only [id]; field_simp
  div_χ r a := by simp only [id]; rw [div_eq_mul_inv, div_eq_mul_inv, mul_inv]; ring

theorem iterate_mul_const (c : K) (m : Nat) (x : K) : (fun y => c * y)^[m] x = c ^ m * x := by
  induction m generalizing x with
  | zero => simp
  | succ m ih => rw [Function.iterate_succ_apply, ih]; ring

end Exact

/-! ### instance 2: rounded arithmetic, when the rounding commutes with the scaling -/
section Rounded
variable {R : Rounding} {Q : Type} [LinearOrder Q] [Zero Q]

theorem FlR.ext' {a b : FlR R} (h : a.val = b.val) : a = b := by
  cases a; cases b; simp_all

/-- `x ↦ c·x` on `FlR R` (an exact operation: no rounding) -/
def scaleFl (c : ℝ) (x : FlR R) : FlR R := ⟨c * x.val⟩

theorem scaleSys_fl {absval : FlR R → Q} {c d : ℝ} (hc : c ≠ 0)
    (hflc : ∀ x, R.fl (c * x) = c * R.fl x) (hfld : ∀ x, R.fl (d * x) = d * R.fl x)
    (hfldc : ∀ x, R.fl (d / c * x) = d / c * R.fl x)
    (h0 : ∀ x, absval (scaleFl c x) = 0 ↔ absval x = 0)
    (hlt : ∀ x y, absval (scaleFl c x) < absval (scaleFl c y) ↔ absval x < absval y) :
    ScaleSys absval (scaleFl c) (scaleFl d) (scaleFl (d / c)) where
  abs_lt := hlt
  abs_zero := h0
  div_φ a b := by
    apply FlR.ext'
    show R.fl (c * a.val / (c * b.val)) = R.fl (a.val / b.val)
    rw [mul_div_mul_left _ _ hc]
  mul_φ f b := by
    apply FlR.ext'
    show R.fl (f.val * (c * b.val)) = c * R.fl (f.val * b.val)
    rw [← hflc]; congr 1; ring
  sub_φ a b := by
    apply FlR.ext'
    show R.fl (c * a.val - c * b.val) = c * R.fl (a.val - b.val)
    rw [← hflc]; congr 1; ring
  mul_ψ f b := by
    apply FlR.ext'
    show R.fl (f.val * (d * b.val)) = d * R.fl (f.val * b.val)
    rw [← hfld]; congr 1; ring
  sub_ψ a b := by
    apply FlR.ext'
    show R.fl (d * a.val - d * b.val) = d * R.fl (a.val - b.val)
    rw [← hfld]; congr 1; ring
  mul_χ a x := by
    apply FlR.ext'
    show R.fl (c * a.val * (d / c * x.val)) = d * R.fl (a.val * x.val)
    rw [← hfld]; congr 1; field_simp
  div_χ r a := by
    apply FlR.ext'
    show R.fl (d * r.val / (c * a.val)) = d / c * R.fl (r.val / a.val)
    rw [← hfldc, mul_div_mul_comm]

theorem scaleSys_fl_inv {absval : FlR R → Q} {c : ℝ} (hc : c ≠ 0)
    (hflc : ∀ x, R.fl (c * x) = c * R.fl x) (hflci : ∀ x, R.fl (c⁻¹ * x) = c⁻¹ * R.fl x)
    (h0 : ∀ x, absval (scaleFl c x) = 0 ↔ absval x = 0)
    (hlt : ∀ x y, absval (scaleFl c x) < absval (scaleFl c y) ↔ absval x < absval y) :
    ScaleSys absval (scaleFl c) id (scaleFl c⁻¹) where
  abs_lt := hlt
  abs_zero := h0
  div_φ a b := by
    apply FlR.ext'
    show R.fl (c * a.val / (c * b.val)) = R.fl (a.val / b.val)
    rw [mul_div_mul_left _ _ hc]
  mul_φ f b := by
    apply FlR.ext'
    show R.fl (f.val * (c * b.val)) = c * R.fl (f.val * b.val)
    rw [← hflc]; congr 1; ring
  sub_φ a b := by
    apply FlR.ext'
    show R.fl (c * a.val - c * b.val) = c * R.fl (a.val - b.val)
    rw [← hflc]; congr 1; ring
  mul_ψ f b := rfl
  sub_ψ a b := rfl
  mul_χ a x := by
    apply FlR.ext'
    show R.fl (c * a.val * (c⁻¹ * x.val)) = R.fl (a.val * x.val)
    congr 1; field_simp
  div_χ r a := by
    apply FlR.ext'
    show R.fl (r.val / (c * a.val)) = c⁻¹ * R.fl (r.val / a.val)
    rw [← hflci]; congr 1
    rw [div_eq_mul_inv, div_eq_mul_inv, mul_inv]; ring

theorem scaleFl_mul_left {c : ℝ} (hflc : ∀ x, R.fl (c * x) = c * R.fl x) (x a : FlR R) :
    scaleFl c x * a = scaleFl c (x * a) := by
  apply FlR.ext'
  show R.fl (c * x.val * a.val) = c * R.fl (x.val * a.val)
  rw [← hflc]; congr 1; ring

theorem scaleFl_zero (c : ℝ) : scaleFl c (0 : FlR R) = 0 := by
  apply FlR.ext'
  show c * (0 : ℝ) = 0
  simp

theorem iterate_scaleFl (c : ℝ) (m : Nat) (x : FlR R) : ((scaleFl c)^[m] x).val = c ^ m * x.val := by
  induction m generalizing x with
  | zero => simp
  | succ m ih => rw [Function.iterate_succ_apply, ih]; simp only [scaleFl]; ring

/-- the usual magnitude `|x|` is compatible with every scaling `c ≠ 0` -/
theorem abs_scale_zero {c : ℝ} (hc : c ≠ 0) (x : FlR R) :
    (fun y : FlR R => |y.val|) (scaleFl c x) = 0 ↔ (fun y : FlR R => |y.val|) x = 0 := by
  simp [scaleFl, hc]

theorem abs_scale_lt {c : ℝ} (hc : c ≠ 0) (x y : FlR R) :
    (fun z : FlR R => |z.val|) (scaleFl c x) < (fun z : FlR R => |z.val|) (scaleFl c y) ↔
      (fun z : FlR R => |z.val|) x < (fun z : FlR R => |z.val|) y := by
  simp only [scaleFl, abs_mul]
  exact mul_lt_mul_iff_right₀ (abs_pos.mpr hc)

end Rounded
end DV.C02.Scale

