import DuneVerif.Proofs.C06Send
/-! C06 helper lemmas, part 3: unpacking one message, the receive loop over all messages of the peer. -/
namespace DV.C06
variable {α : Type}

/-- the scatter calls the receiver owes for send indices `is` matched with receive indices `js`
    (zero-size indices get no call) -/
def callsOf (h : Handle α) : List Nat → List Nat → List (Call α)
  | i :: is, j :: js => if h.size i = 0 then callsOf h is js else ⟨j, h.size i, h.data i⟩ :: callsOf h is js
  | _, _ => []

@[simp] theorem callsOf_nil_left (h : Handle α) (js : List Nat) : callsOf h [] js = [] := by
  cases js <;> rfl

theorem callsOf_append (h : Handle α) : ∀ (a ja r jr : List Nat), ja.length = a.length →
    callsOf h (a ++ r) (ja ++ jr) = callsOf h a ja ++ callsOf h r jr := by
  intro a
  induction a with
  | nil => intro ja r jr hl; cases ja <;> simp_all
  | cons i a ih =>
    intro ja r jr hl
    cases ja with
    | nil => simp at hl
    | cons j ja =>
      have := ih ja r jr (by simpa using hl)
      by_cases hz : h.size i = 0 <;> simp [callsOf, hz, this]

@[simp] theorem recvT_iface (r k js ss) : (recvT r k js ss).iface = js := rfl
@[simp] theorem recvT_sizes (r k js ss) : (recvT r k js ss).sizes = ss := rfl

/-! ### UnpackEntries -/

theorem unpackVarLoop_recvS (h : Handle α) (r : Nat) (rest jrest : List Nat) (count : Nat) :
    ∀ (a ja : List Nat) (k unpacked fuel : Nat) (b : MessageBuffer α) (cs : List (Call α)),
    ja.length = a.length → count = unpacked + total h a → b.cells.drop b.position = a.flatMap h.data →
    (recvS r k (ja ++ jrest) ((a ++ rest).map h.size)).indicesLeft ≤ fuel →
    ∃ b' : MessageBuffer α, b'.size = b.size ∧
      unpackVarLoop count fuel unpacked (recvS r k (ja ++ jrest) ((a ++ rest).map h.size)) b cs =
        (recvS r (k + a.length) jrest (rest.map h.size), b', cs ++ callsOf h a ja) := by
  intro a
  induction a with
  | nil =>
    intro ja k unpacked fuel b cs hl hc _ _
    cases ja with
    | cons j ja => simp at hl
    | nil =>
      refine ⟨b, rfl, ?_⟩
      simp at hc
      cases fuel <;> simp [unpackVarLoop, hc]
  | cons i a ih =>
    intro ja k unpacked fuel b cs hl hc hcells hfuel
    cases ja with
    | nil => simp at hl
    | cons j ja =>
      have hl' : ja.length = a.length := by simpa using hl
      by_cases hz : h.size i = 0
      · -- an empty index: the tracker has skipped it already
        have hd : h.data i = [] := List.eq_nil_of_length_eq_zero hz
        have hst : recvS r k (j :: ja ++ jrest) ((i :: a ++ rest).map h.size) =
            recvS r (k + 1) (ja ++ jrest) ((a ++ rest).map h.size) := by
          simp [hz, recvS_zero]
        rw [hst] at hfuel ⊢
        obtain ⟨b', hb', heq⟩ := ih ja (k + 1) unpacked fuel b cs hl' (by simpa [hz] using hc)
          (by simpa [hd] using hcells) hfuel
        refine ⟨b', hb', ?_⟩
        rw [heq]
        simp [callsOf, hz, Nat.add_assoc, Nat.add_comm 1]
      · have hst : recvS r k (j :: ja ++ jrest) ((i :: a ++ rest).map h.size) =
            recvT r k (j :: (ja ++ jrest)) (h.size i :: (a ++ rest).map h.size) := by
          simp [recvS_pos _ _ _ _ _ _ hz]
        rw [hst] at hfuel ⊢
        cases fuel with
        | zero => simp at hfuel
        | succ fuel =>
          have hlt : unpacked < count := by simp at hc; omega
          have hread : (b.cells.drop b.position).take (h.size i) = h.data i := by
            rw [hcells]; simp [Handle.size]
          have hcells' : (b.read (h.size i)).2.cells.drop (b.read (h.size i)).2.position = a.flatMap h.data := by
            simp only [MessageBuffer.read]
            rw [← List.drop_drop, hcells]
            simp [Handle.size]
          have hfuel' : (recvS r (k + 1) (ja ++ jrest) ((a ++ rest).map h.size)).indicesLeft ≤ fuel := by
            have := recvS_left_le r (k + 1) (ja ++ jrest) ((a ++ rest).map h.size)
            simp at hfuel; simp at this ⊢; omega
          obtain ⟨b', hb', heq⟩ := ih ja (k + 1) (unpacked + h.size i) fuel (b.read (h.size i)).2
            (cs ++ [⟨j, h.size i, (b.read (h.size i)).1⟩]) hl' (by simp at hc; omega) hcells' hfuel'
          refine ⟨b', by simpa [MessageBuffer.read] using hb', ?_⟩
          simp only [unpackVarLoop, hlt, if_true, recvT_iface, recvT_sizes, recvT_move]
          rw [heq]
          simp [callsOf, hz, MessageBuffer.read, hread, Nat.add_assoc, Nat.add_comm 1]

theorem unpackFixedLoop_sendT (h : Handle α) (r f : Nat) (jrest : List Nat) :
    ∀ (a ja : List Nat) (k : Nat) (b : MessageBuffer α) (cs : List (Call α)),
    ja.length = a.length → (∀ i ∈ a, h.size i = f) → f ≠ 0 → b.cells.drop b.position = a.flatMap h.data →
    ∃ b' : MessageBuffer α, b'.size = b.size ∧
      unpackFixedLoop a.length (sendT r k (ja ++ jrest) f) b cs =
        (sendT r (k + a.length) jrest f, b', cs ++ callsOf h a ja) := by
  intro a
  induction a with
  | nil =>
    intro ja k b cs hl _ _ _
    cases ja with
    | cons j ja => simp at hl
    | nil => exact ⟨b, rfl, by simp [unpackFixedLoop]⟩
  | cons i a ih =>
    intro ja k b cs hl hs hf hcells
    cases ja with
    | nil => simp at hl
    | cons j ja =>
      have hi : h.size i = f := hs i (by simp)
      have hread : (b.cells.drop b.position).take f = h.data i := by
        rw [hcells, ← hi]; simp [Handle.size]
      have hcells' : (b.read f).2.cells.drop (b.read f).2.position = a.flatMap h.data := by
        simp only [MessageBuffer.read]
        rw [← List.drop_drop, hcells, ← hi]
        simp [Handle.size]
      obtain ⟨b', hb', heq⟩ := ih ja (k + 1) (b.read f).2 (cs ++ [⟨j, f, (b.read f).1⟩]) (by simpa using hl)
        (fun x hx => hs x (by simp [hx])) hf hcells'
      refine ⟨b', by simpa [MessageBuffer.read] using hb', ?_⟩
      simp only [List.length_cons, unpackFixedLoop, List.cons_append, sendT_iface, sendT_fixed, sendT_move]
      rw [heq]
      simp [callsOf, hi, hf, MessageBuffer.read, hread, Nat.add_assoc, Nat.add_comm 1]

/-- the receive tracker that stands in front of receive indices `js`, matched with the peer's send indices `is` -/
def rcvT (h : Handle α) (f r k : Nat) (js is : List Nat) : Tracker :=
  if f ≠ 0 then sendT r k js f else recvS r k js (is.map h.size)

theorem rcvT_skip (h : Handle α) (f r k : Nat) (js is : List Nat) :
    (rcvT h f r k js is).skipZeroIndices = rcvT h f r k js is := by
  unfold rcvT; split <;> simp

theorem rcvT_finished (h : Handle α) (B f r k : Nat) (js is : List Nat) (hl : js.length = is.length)
    (hf : Fits h B f is) : (rcvT h f r k js is).finished = (total h is == 0) := by
  unfold rcvT
  rcases hf with ⟨h0, _⟩ | ⟨h0, _, hs⟩
  · simp only [h0, ne_eq, not_true_eq_false, if_false]
    by_cases hz : total h is = 0
    · simp [hz, recvS_allzero h r is js k hl hz]
    · simp [hz, recvS_notfinished h r is js k hl (Nat.pos_of_ne_zero hz)]
  · simp only [h0, ne_eq, not_false_eq_true, if_true, sendT_finished]
    rw [total_fixed h f is hs]
    cases is with
    | nil => cases js <;> simp_all
    | cons i is =>
      cases js with
      | nil => simp at hl
      | cons j js =>
        have : (is.length + 1) * f ≠ 0 := Nat.mul_ne_zero (by omega) h0
        simp [this]

/-- `UnpackEntries` on the message of one round, in both modes -/
theorem unpackEntries_round (h : Handle α) (B f r k : Nat) (js is : List Nat) (b : MessageBuffer α)
    (cs : List (Call α)) (hl : js.length = is.length) (hf : Fits h B f is) (hb : b.size = B) (hp : b.position = 0)
    (count : Nat) (hcount : f = 0 → count = total h (round1 h B f is).1) :
    ∃ b' : MessageBuffer α, b'.size = B ∧
      unpackEntries (rcvT h f r k js is) (b.received ((round1 h B f is).1.flatMap h.data)) count cs =
        (rcvT h f r (k + (round1 h B f is).1.length) (js.drop (round1 h B f is).1.length) (round1 h B f is).2, b',
         cs ++ callsOf h (round1 h B f is).1 (js.take (round1 h B f is).1.length)) := by
  have happ := round1_append h B f is
  have hlen : (round1 h B f is).1.length ≤ js.length := by
    rw [hl]; conv => rhs; rw [← happ]
    simp
  have hjs : js = js.take (round1 h B f is).1.length ++ js.drop (round1 h B f is).1.length := by simp
  have hcells : (b.received ((round1 h B f is).1.flatMap h.data)).cells.drop
      (b.received ((round1 h B f is).1.flatMap h.data)).position = (round1 h B f is).1.flatMap h.data := by
    simp [MessageBuffer.received, hp]
  by_cases h0 : f = 0
  · subst h0
    have := unpackVarLoop_recvS h r (round1 h B 0 is).2 (js.drop (round1 h B 0 is).1.length) count
      (round1 h B 0 is).1 (js.take (round1 h B 0 is).1.length) k 0
      (recvS r k js (is.map h.size)).indicesLeft (b.received ((round1 h B 0 is).1.flatMap h.data)) cs
      (by simp [Nat.min_eq_left hlen]) (by simpa using hcount rfl) hcells (by rw [← hjs, happ]; exact Nat.le_refl _)
    rw [← hjs, happ] at this
    obtain ⟨b', hb', heq⟩ := this
    refine ⟨b', by simpa [MessageBuffer.received, hb] using hb', ?_⟩
    simp only [unpackEntries, rcvT, ne_eq, not_true_eq_false, if_false, recvS, recvT_fixed] at heq ⊢
    exact heq
  · rcases hf with ⟨h0', _⟩ | ⟨_, h1, hs⟩
    · exact absurd h0' h0
    · have hr1 : round1 h B f is = (is.take (min (B / f) is.length), is.drop (min (B / f) is.length)) := by
        simp [round1, h0]
      have hn : (round1 h B f is).1.length = min (B / f) js.length := by
        rw [hr1, hl]; simp
      have := unpackFixedLoop_sendT h r f (js.drop (round1 h B f is).1.length) (round1 h B f is).1
        (js.take (round1 h B f is).1.length) k (b.received ((round1 h B f is).1.flatMap h.data)) cs
        (by simp [Nat.min_eq_left hlen])
        (fun i hi => hs i (by rw [← happ]; exact List.mem_append_left _ hi)) h0 hcells
      rw [← hjs] at this
      obtain ⟨b', hb', heq⟩ := this
      refine ⟨b', by simpa [MessageBuffer.received, hb] using hb', ?_⟩
      simp only [unpackEntries, rcvT, ne_eq, h0, not_false_eq_true, if_true, sendT_fixed, sendT_left,
        MessageBuffer.received, hb, ← hn]
      simpa [MessageBuffer.received, hb] using heq

/-! ### the receive loop, generic in what unpacking does -/

theorem setupRecv_posts {β : Type} (t : Tracker) (b : MessageBuffer β) (hs : t.skipZeroIndices = t)
    (hfin : t.finished = false) :
    setupRecv true t b = (t, b.reset, true) := by
  have : t.indicesLeft ≠ 0 := by
    simp [Tracker.finished, Tracker.indicesLeft] at hfin ⊢
    exact hfin
  simp [setupRecv, hs, this]

theorem setupRecv_idle {β : Type} (t : Tracker) (b : MessageBuffer β) (hs : t.skipZeroIndices = t)
    (hfin : t.finished = true) :
    setupRecv true t b = (t, b.reset, false) := by
  have : t.indicesLeft = 0 := by
    simp [Tracker.finished, Tracker.indicesLeft] at hfin ⊢
    exact hfin
  simp [setupRecv, hs, this]

theorem setupRecv_posts' {β : Type} (t : Tracker) (b : MessageBuffer β) (hfin : t.skipZeroIndices.finished = false) :
    setupRecv true t b = (t.skipZeroIndices, b.reset, true) := by
  have : t.skipZeroIndices.indicesLeft ≠ 0 := by
    simp [Tracker.finished, Tracker.indicesLeft] at hfin ⊢
    exact hfin
  simp [setupRecv, this]

theorem setupRecv_idle' {β : Type} (t : Tracker) (b : MessageBuffer β) (hfin : t.skipZeroIndices.finished = true) :
    setupRecv true t b = (t.skipZeroIndices, b.reset, false) := by
  have : t.skipZeroIndices.indicesLeft = 0 := by
    simp [Tracker.finished, Tracker.indicesLeft] at hfin ⊢
    exact hfin
  simp [setupRecv, this]

/-- Generic receive loop: `T k js is` is the tracker standing in front of `js` (matched with `is`), `Inv acc k is js`
    an invariant of the accumulated result; `hU` says what unpacking the message of one round does. -/
theorem recvLoop_generic {β σ : Type} (hd : Handle β) (B f : Nat) (getCount : Bool)
    (unpack : Tracker → MessageBuffer β → Nat → σ → Tracker × MessageBuffer β × σ)
    (T : Nat → List Nat → List Nat → Tracker) (Inv : σ → Nat → List Nat → List Nat → Prop)
    (hT_skip : ∀ k js is, (T k js is).skipZeroIndices = T k js is)
    (hT_fin : ∀ k js is, js.length = is.length → Fits hd B f is → (T k js is).finished = (total hd is == 0))
    (hU : ∀ k js is (b : MessageBuffer β) acc, js.length = is.length → Fits hd B f is → 0 < total hd is →
        b.size = B → b.position = 0 → Inv acc k is js →
        (unpack (T k js is) (b.received ((round1 hd B f is).1.flatMap hd.data))
            (if getCount then total hd (round1 hd B f is).1 else 0) acc).1.skipZeroIndices
          = T (k + (round1 hd B f is).1.length) (js.drop (round1 hd B f is).1.length) (round1 hd B f is).2 ∧
        (unpack (T k js is) (b.received ((round1 hd B f is).1.flatMap hd.data))
            (if getCount then total hd (round1 hd B f is).1 else 0) acc).2.1.size = B ∧
        Inv (unpack (T k js is) (b.received ((round1 hd B f is).1.flatMap hd.data))
            (if getCount then total hd (round1 hd B f is).1 else 0) acc).2.2
          (k + (round1 hd B f is).1.length) (round1 hd B f is).2 (js.drop (round1 hd B f is).1.length)) :
    ∀ (fuel : Nat) (is js : List Nat) (k : Nat) (b : MessageBuffer β) (posted : Nat) (acc : σ),
      is.length + 1 ≤ fuel → js.length = is.length → b.size = B → b.position = 0 → Fits hd B f is →
      0 < total hd is → Inv acc k is js →
      ∃ k', Inv (recvLoop true getCount unpack (msgsOf hd B f fuel is) (T k js is) b posted acc).acc k' [] [] ∧
        (recvLoop true getCount unpack (msgsOf hd B f fuel is) (T k js is) b posted acc).posted + 1
          = posted + (msgsOf hd B f fuel is).length ∧
        (recvLoop true getCount unpack (msgsOf hd B f fuel is) (T k js is) b posted acc).unreceived = 0 ∧
        (recvLoop true getCount unpack (msgsOf hd B f fuel is) (T k js is) b posted acc).waiting = false ∧
        (recvLoop true getCount unpack (msgsOf hd B f fuel is) (T k js is) b posted acc).stuck = false ∧
        (recvLoop true getCount unpack (msgsOf hd B f fuel is) (T k js is) b posted acc).tracker.finished = true := by
  intro fuel
  induction fuel with
  | zero => intro is js k b posted acc hfu; omega
  | succ fuel ih =>
    intro is js k b posted acc hfu hl hb hp hf htot hinv
    have happ := round1_append hd B f is
    obtain ⟨hU1, hU2, hU3⟩ := hU k js is b acc hl hf htot hb hp hinv
    -- the first block holds an item
    have hz : total hd (round1 hd B f is).1 ≠ 0 := by
      intro hz
      have hr := round1_zero hd B f is hf hz
      have : total hd is = 0 := by rw [← happ, total_append, hz, hr]; simp
      omega
    have hne : ((round1 hd B f is).1.flatMap hd.data).isEmpty = false := by
      cases hdd : (round1 hd B f is).1.flatMap hd.data with
      | nil => simp [total, hdd] at hz
      | cons x xs => rfl
    have hlen : ((round1 hd B f is).1.flatMap hd.data).length = total hd (round1 hd B f is).1 := rfl
    have hjl : (js.drop (round1 hd B f is).1.length).length = (round1 hd B f is).2.length := by
      have := congrArg List.length happ
      simp at this ⊢; omega
    by_cases hr : (round1 hd B f is).2 = []
    · -- last round
      have hfin : (T (k + (round1 hd B f is).1.length) (js.drop (round1 hd B f is).1.length) (round1 hd B f is).2).finished
          = true := by
        rw [hT_fin _ _ _ hjl hf.rest, hr]; simp
      rw [hr] at hfin
      have hjn : js.drop (round1 hd B f is).1.length = [] := by
        apply List.eq_nil_of_length_eq_zero; rw [hjl, hr]; rfl
      refine ⟨k + (round1 hd B f is).1.length, ?_⟩
      simp only [msgsOf, blocks, hr, List.isEmpty_nil, if_true, List.map_cons, List.map_nil, List.filter_cons, hne,
        Bool.not_false, List.filter_nil, recvLoop, hlen, hU1, hfin, List.length_nil, List.length_cons]
      rw [hr, hjn] at hU3
      exact ⟨hU3, trivial, trivial, trivial, trivial, trivial⟩
    · have hr' : (round1 hd B f is).2.isEmpty = false := by simpa using hr
      have htot' := round1_rest_total hd B f is hf hr
      have hfin : (T (k + (round1 hd B f is).1.length) (js.drop (round1 hd B f is).1.length) (round1 hd B f is).2).finished
          = false := by
        rw [hT_fin _ _ _ hjl hf.rest]; simp; omega
      obtain ⟨k', hrec⟩ := ih (round1 hd B f is).2 (js.drop (round1 hd B f is).1.length) (k + (round1 hd B f is).1.length)
        ((unpack (T k js is) (b.received ((round1 hd B f is).1.flatMap hd.data))
            (if getCount then total hd (round1 hd B f is).1 else 0) acc).2.1.reset) (posted + 1)
        ((unpack (T k js is) (b.received ((round1 hd B f is).1.flatMap hd.data))
            (if getCount then total hd (round1 hd B f is).1 else 0) acc).2.2)
        (round1_rest_lt_fuel hd B f is hf fuel hfu hr) hjl (by simpa using hU2) rfl hf.rest htot' hU3
      refine ⟨k', ?_⟩
      have hmsgs : msgsOf hd B f (fuel + 1) is =
          (round1 hd B f is).1.flatMap hd.data :: msgsOf hd B f fuel (round1 hd B f is).2 := by
        simp [msgsOf, blocks, hr', hne]
      rw [hmsgs]
      simp only [recvLoop, hlen, hU1, hfin, Bool.false_eq_true, if_false,
        setupRecv_posts _ _ (hT_skip _ _ _) hfin, hT_skip, if_true, List.length_cons]
      obtain ⟨h1, h2, h3, h4, h5, h6⟩ := hrec
      exact ⟨h1, by omega, h3, h4, h5, h6⟩

end DV.C06
