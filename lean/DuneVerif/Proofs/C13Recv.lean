import DuneVerif.Proofs.C13Basic
/-! C13, level 2: what receiving published indices does to one rank's state. Core Lean only. -/
namespace DV.C13

/-! ### definitions used by the property statements -/

/-- the remote part of a rank's state agrees with the decomposition `D` and refers to pairs of `idx` -/
structure RemInv (D : Decomp) (P q : Nat) (idx : List IdxEntry) (r : List (Nat × List RemEntry)) : Prop where
  nbSorted : r.Pairwise (fun a b => a.1 < b.1)
  nbOk : ∀ x ∈ r, x.1 ≠ q ∧ x.1 < P ∧ x.2.Pairwise (fun a b => a.g < b.g)
  remTrue : ∀ x ∈ r, ∀ en ∈ x.2, D.attrOf x.1 en.g = some en.rem ∧ hasKey idx en.g en.own = true

/-- rank `q`'s state is a partial view of the decomposition `D`: every global index at most once and in ascending
order, every attribute as in `D`, neighbours in ascending order without `q` itself, every remote index refers to a
pair of the index set -/
structure RankInv (D : Decomp) (P q : Nat) (st : RankState) : Prop where
  idxSorted : st.idx.Pairwise (fun a b => a.g < b.g)
  idxTrue : ∀ e ∈ st.idx, D.attrOf q e.g = some e.attr
  rem : RemInv D P q st.idx st.remote

/-- a published index all of whose statements agree with `D` -/
structure TrueItem (D : Decomp) (P me src : Nat) (it : Item) : Prop where
  srcTrue : D.attrOf src it.g = some it.srcAttr
  srcNe : src ≠ me
  srcLt : src < P
  pairsTrue : ∀ pr ∈ it.pairs, D.attrOf pr.1 it.g = some pr.2 ∧ pr.1 < P

/-- the item tells `me` that it holds `g` with attribute `a` -/
def ToldIdxI (me : Nat) (it : Item) (g : Int) (a : Nat) : Prop :=
  it.g = g ∧ it.pairs.lookup me = some a

/-- the item (sent by `src`) tells `me` that process `y` holds `en.g` with attribute `en.rem` -/
def ToldRemI (me src : Nat) (it : Item) (y : Nat) (en : RemEntry) : Prop :=
  en.g = it.g ∧ it.pairs.lookup me = some en.own ∧
    ((y = src ∧ en.rem = it.srcAttr) ∨ (y ≠ me ∧ (y, en.rem) ∈ it.pairs))

/-- receiving a flat list of (source, item) pairs -/
def recvFlat (num : Int → Nat) (me : Nat) (st : RankState) (xs : List (Nat × Item)) : RankState :=
  xs.foldl (fun s x => receiveItem num me x.1 s x.2) st

def flatMsgs (msgs : List (Nat × List Item)) : List (Nat × Item) :=
  msgs.flatMap fun m => m.2.map fun it => (m.1, it)

theorem recvAll_eq_flat (num : Int → Nat) (me : Nat) :
    ∀ (msgs : List (Nat × List Item)) (st : RankState), recvAll num me st msgs = recvFlat num me st (flatMsgs msgs)
  | [], st => by simp [recvAll, recvFlat, flatMsgs]
  | m :: ms, st => by
    have ih := recvAll_eq_flat num me ms (receiveMsg num me st m)
    simp only [recvAll, recvFlat, flatMsgs, List.foldl_cons, List.flatMap_cons, List.foldl_append] at ih ⊢
    rw [ih]
    congr 1
    simp [receiveMsg, List.foldl_map]

theorem mem_flatMsgs (msgs : List (Nat × List Item)) (x : Nat × Item) :
    x ∈ flatMsgs msgs ↔ ∃ m ∈ msgs, m.1 = x.1 ∧ x.2 ∈ m.2 := by
  simp only [flatMsgs, List.mem_flatMap, List.mem_map]
  constructor
  · rintro ⟨m, hm, it, hit, rfl⟩
    exact ⟨m, hm, rfl, hit⟩
  · rintro ⟨m, hm, h1, h2⟩
    exact ⟨m, hm, x.2, h2, by rw [h1]⟩

/-! ### small facts -/

theorem lookup_mem {β : Type} (k : Nat) (v : β) : ∀ l : List (Nat × β), l.lookup k = some v → (k, v) ∈ l
  | [], h => by simp [List.lookup] at h
  | (k', v') :: t, h => by
    by_cases hk : k = k'
    · subst hk
      simp [List.lookup] at h
      simp [h]
    · have : (k == k') = false := by simpa using hk
      simp [List.lookup, this] at h
      simp [lookup_mem k v t h]

theorem attr_unique_of_hasKey (D : Decomp) (q : Nat) (idx : List IdxEntry)
    (hT : ∀ e ∈ idx, D.attrOf q e.g = some e.attr) (g : Int) (a b : Nat)
    (ha : hasKey idx g a = true) (hb : D.attrOf q g = some b) : a = b := by
  obtain ⟨e, he, h1, h2⟩ := (hasKey_iff idx g a).1 ha
  have := hT e he
  rw [h1, hb] at this
  simp at this
  omega

theorem RemInv.mono {D : Decomp} {P q : Nat} {idx idx' : List IdxEntry} {r : List (Nat × List RemEntry)}
    (h : RemInv D P q idx r) (hm : ∀ g a, hasKey idx g a = true → hasKey idx' g a = true) : RemInv D P q idx' r :=
  ⟨h.nbSorted, h.nbOk, fun x hx en hen => ⟨(h.remTrue x hx en hen).1, hm _ _ (h.remTrue x hx en hen).2⟩⟩

theorem RemInv.listOf_pairwise {D : Decomp} {P q : Nat} {idx : List IdxEntry} {r : List (Nat × List RemEntry)}
    (h : RemInv D P q idx r) (x : Nat) : (listOf r x).Pairwise (fun a b => a.g < b.g) := by
  cases hn : isNeighbour r x
  · rw [listOf_eq_nil_of_not_neighbour r x hn]; exact List.Pairwise.nil
  · obtain ⟨l, hl⟩ := (isNeighbour_iff r x).1 hn
    rw [listOf_of_mem r h.nbSorted x l hl]
    exact (h.nbOk _ hl).2.2

theorem RemInv.listOf_true {D : Decomp} {P q : Nat} {idx : List IdxEntry} {r : List (Nat × List RemEntry)}
    (h : RemInv D P q idx r) (x : Nat) (en : RemEntry) (hen : en ∈ listOf r x) :
    D.attrOf x en.g = some en.rem ∧ hasKey idx en.g en.own = true := by
  obtain ⟨l, hl, hen'⟩ := mem_of_mem_listOf r x en hen
  exact h.remTrue _ hl en hen'

theorem RemInv.insert {D : Decomp} {P q : Nat} {idx : List IdxEntry} {r : List (Nat × List RemEntry)}
    (h : RemInv D P q idx r) (hT : ∀ e ∈ idx, D.attrOf q e.g = some e.attr)
    (x : Nat) (g : Int) (a xa : Nat) (hxq : x ≠ q) (hxP : x < P) (hx : D.attrOf x g = some xa)
    (hk : hasKey idx g a = true) : RemInv D P q idx (insertRemote x ⟨g, a, xa⟩ r) := by
  have hq : D.attrOf q g = some a := by
    obtain ⟨e, he, h1, h2⟩ := (hasKey_iff idx g a).1 hk
    have := hT e he
    rw [h1, h2] at this
    exact this
  -- an entry for g that is already in x's list is the entry to be inserted
  have hsame : ∀ e ∈ listOf r x, e.g = g → e = ⟨g, a, xa⟩ := by
    intro e he heg
    have ht := h.listOf_true x e he
    rw [heg] at ht
    have h1 : e.rem = xa := by
      have := ht.1; rw [hx] at this; simp at this; omega
    have h2 : e.own = a := attr_unique_of_hasKey D q idx hT g e.own a ht.2 hq
    cases e
    simp at heg h1 h2
    simp [heg, h1, h2]
  have hpw : (insertEntry ⟨g, a, xa⟩ (listOf r x)).Pairwise (fun a b => a.g < b.g) := by
    by_cases hex : ∃ e ∈ listOf r x, e.g = g
    · obtain ⟨e, he, heg⟩ := hex
      have := hsame e he heg
      subst this
      rw [insertEntry_of_mem _ _ (h.listOf_pairwise x) he]
      exact h.listOf_pairwise x
    · apply pairwise_insertEntry _ _ (h.listOf_pairwise x)
      intro e he heg
      exact hex ⟨e, he, heg⟩
  refine ⟨pairwise_insertRemote _ _ _ h.nbSorted, ?_, ?_⟩
  · intro ⟨y, l⟩ hy
    rcases mem_insertRemote _ _ _ h.nbSorted y l hy with h1 | ⟨h1, h2⟩
    · exact h.nbOk _ h1
    · subst h1; subst h2
      exact ⟨hxq, hxP, hpw⟩
  · intro ⟨y, l⟩ hy en hen
    rcases mem_insertRemote _ _ _ h.nbSorted y l hy with h1 | ⟨h1, h2⟩
    · exact h.remTrue _ h1 en hen
    · subst h1; subst h2
      rcases (mem_insertEntry _ en _).1 hen with h3 | h3
      · subst h3
        exact ⟨hx, hk⟩
      · exact h.listOf_true _ en h3

/-! ### inserting the source and the third parties of one published index -/

def insertAll (g : Int) (a : Nat) (os : List (Nat × Nat)) (r : List (Nat × List RemEntry)) : List (Nat × List RemEntry) :=
  os.foldl (fun r x => insertRemote x.1 ⟨g, a, x.2⟩ r) r

theorem insertAll_sorted (g : Int) (a : Nat) : ∀ (os : List (Nat × Nat)) (r : List (Nat × List RemEntry)),
    r.Pairwise (fun a b => a.1 < b.1) → (insertAll g a os r).Pairwise (fun a b => a.1 < b.1)
  | [], r, h => h
  | o :: os, r, h => by
    simp only [insertAll, List.foldl_cons]
    exact insertAll_sorted g a os _ (pairwise_insertRemote _ _ _ h)

theorem mem_listOf_insertAll (g : Int) (a : Nat) (y : Nat) (en : RemEntry) :
    ∀ (os : List (Nat × Nat)) (r : List (Nat × List RemEntry)), r.Pairwise (fun a b => a.1 < b.1) →
      (en ∈ listOf (insertAll g a os r) y ↔ en ∈ listOf r y ∨ (en.g = g ∧ en.own = a ∧ (y, en.rem) ∈ os))
  | [], r, _ => by simp [insertAll]
  | o :: os, r, h => by
    simp only [insertAll, List.foldl_cons]
    have ih := mem_listOf_insertAll g a y en os (insertRemote o.1 ⟨g, a, o.2⟩ r) (pairwise_insertRemote _ _ _ h)
    simp only [insertAll] at ih
    rw [ih]
    by_cases hy : y = o.1
    · subst hy
      rw [listOf_insertRemote_same _ _ _ h, mem_insertEntry]
      constructor
      · rintro ((h1 | h1) | h1)
        · right; subst h1; simp
        · left; exact h1
        · right; exact ⟨h1.1, h1.2.1, by simp [h1.2.2]⟩
      · rintro (h1 | ⟨h1, h2, h3⟩)
        · left; right; exact h1
        · simp only [List.mem_cons] at h3
          rcases h3 with h3 | h3
          · left; left
            cases en
            simp at h1 h2 h3
            simp [h1, h2]
            have := congrArg Prod.snd h3
            simpa using this
          · right; exact ⟨h1, h2, h3⟩
    · rw [listOf_insertRemote_other _ _ _ hy]
      constructor
      · rintro (h1 | h1)
        · left; exact h1
        · right; exact ⟨h1.1, h1.2.1, by simp [h1.2.2]⟩
      · rintro (h1 | ⟨h1, h2, h3⟩)
        · left; exact h1
        · simp only [List.mem_cons] at h3
          rcases h3 with h3 | h3
          · exact absurd (congrArg Prod.fst h3) hy
          · right; exact ⟨h1, h2, h3⟩

theorem isNeighbour_insertAll (g : Int) (a : Nat) (y : Nat) :
    ∀ (os : List (Nat × Nat)) (r : List (Nat × List RemEntry)),
      (isNeighbour (insertAll g a os r) y = true ↔ isNeighbour r y = true ∨ ∃ xa, (y, xa) ∈ os)
  | [], r => by simp [insertAll]
  | o :: os, r => by
    simp only [insertAll, List.foldl_cons]
    have ih := isNeighbour_insertAll g a y os (insertRemote o.1 ⟨g, a, o.2⟩ r)
    simp only [insertAll] at ih
    rw [ih, isNeighbour_insertRemote]
    constructor
    · rintro ((h1 | h1) | ⟨xa, h1⟩)
      · right; exact ⟨o.2, by subst h1; simp⟩
      · left; exact h1
      · right; exact ⟨xa, by simp [h1]⟩
    · rintro (h1 | ⟨xa, h1⟩)
      · left; right; exact h1
      · simp only [List.mem_cons] at h1
        rcases h1 with h1 | h1
        · left; left; exact congrArg Prod.fst h1
        · right; exact ⟨xa, h1⟩

theorem insertAll_inv {D : Decomp} {P q : Nat} {idx : List IdxEntry}
    (hT : ∀ e ∈ idx, D.attrOf q e.g = some e.attr) (g : Int) (a : Nat) (hk : hasKey idx g a = true) :
    ∀ (os : List (Nat × Nat)) (r : List (Nat × List RemEntry)), RemInv D P q idx r →
      (∀ o ∈ os, o.1 ≠ q ∧ o.1 < P ∧ D.attrOf o.1 g = some o.2) → RemInv D P q idx (insertAll g a os r)
  | [], r, h, _ => h
  | o :: os, r, h, ho => by
    simp only [insertAll, List.foldl_cons]
    have h1 := ho o (by simp)
    exact insertAll_inv hT g a hk os _ (h.insert hT o.1 g a o.2 h1.1 h1.2.1 h1.2.2 hk)
      (fun o' ho' => ho o' (by simp [ho']))

/-! ### one published index -/

theorem receiveItem_none (num : Int → Nat) (me src : Nat) (st : RankState) (it : Item)
    (h : it.pairs.lookup me = none) : receiveItem num me src st it = st := by
  simp [receiveItem, h]

theorem receiveItem_some (num : Int → Nat) (me src : Nat) (st : RankState) (it : Item) (a : Nat)
    (h : it.pairs.lookup me = some a) :
    receiveItem num me src st it =
      { st with
        idx := if hasKey st.idx it.g a then st.idx else insertIdx ⟨it.g, a, num it.g⟩ st.idx
        remote := insertAll it.g a ((src, it.srcAttr) :: it.pairs.filter (fun x => x.1 != me)) st.remote } := by
  simp [receiveItem, h, insertAll]

theorem receiveItem_seq (num : Int → Nat) (me src : Nat) (st : RankState) (it : Item) :
    (receiveItem num me src st it).idxSeq = st.idxSeq ∧ (receiveItem num me src st it).remSeq = st.remSeq := by
  cases h : it.pairs.lookup me
  · rw [receiveItem_none _ _ _ _ _ h]; exact ⟨rfl, rfl⟩
  · rw [receiveItem_some _ _ _ _ _ _ h]; exact ⟨rfl, rfl⟩

theorem hasKey_receiveItem (num : Int → Nat) (me src : Nat) (st : RankState) (it : Item) (g : Int) (a : Nat) :
    hasKey (receiveItem num me src st it).idx g a = true ↔ hasKey st.idx g a = true ∨ ToldIdxI me it g a := by
  cases h : it.pairs.lookup me with
  | none => rw [receiveItem_none _ _ _ _ _ h]; simp [ToldIdxI, h]
  | some b =>
    rw [receiveItem_some _ _ _ _ _ _ h]
    simp only [ToldIdxI, h, Option.some.injEq]
    by_cases hk : hasKey st.idx it.g b = true
    · simp only [hk, if_true]
      constructor
      · intro h1; exact Or.inl h1
      · rintro (h1 | ⟨h1, h2⟩)
        · exact h1
        · subst h1; subst h2; exact hk
    · simp only [hk, Bool.false_eq_true, if_false]
      rw [hasKey_insertIdx]
      constructor
      · rintro (h1 | h1)
        · right; exact h1
        · left; exact h1
      · rintro (h1 | h1)
        · right; exact h1
        · left; exact h1

theorem mem_idx_receiveItem (num : Int → Nat) (me src : Nat) (st : RankState) (it : Item) (e : IdxEntry) :
    e ∈ (receiveItem num me src st it).idx ↔
      e ∈ st.idx ∨ (ToldIdxI me it e.g e.attr ∧ e.loc = num e.g ∧ hasKey st.idx e.g e.attr = false) := by
  cases h : it.pairs.lookup me with
  | none => rw [receiveItem_none _ _ _ _ _ h]; simp [ToldIdxI, h]
  | some b =>
    rw [receiveItem_some _ _ _ _ _ _ h]
    simp only [ToldIdxI, h, Option.some.injEq]
    by_cases hk : hasKey st.idx it.g b = true
    · simp only [hk, if_true]
      constructor
      · intro h1; exact Or.inl h1
      · rintro (h1 | ⟨⟨h1, h2⟩, _, h3⟩)
        · exact h1
        · rw [← h1, ← h2, hk] at h3; simp at h3
    · have hk' : hasKey st.idx it.g b = false := by simpa using hk
      simp only [hk', Bool.false_eq_true, if_false]
      rw [mem_insertIdx]
      constructor
      · rintro (h1 | h1)
        · right; subst h1; exact ⟨⟨rfl, rfl⟩, rfl, hk'⟩
        · left; exact h1
      · rintro (h1 | ⟨⟨h1, h2⟩, h3, _⟩)
        · right; exact h1
        · left
          cases e
          simp at h1 h2 h3
          simp [h1, h2, h3]

theorem sorted_receiveItem (num : Int → Nat) (me src : Nat) (st : RankState) (it : Item)
    (hs : st.remote.Pairwise (fun a b => a.1 < b.1)) :
    (receiveItem num me src st it).remote.Pairwise (fun a b => a.1 < b.1) := by
  cases h : it.pairs.lookup me with
  | none => rw [receiveItem_none _ _ _ _ _ h]; exact hs
  | some b => rw [receiveItem_some _ _ _ _ _ _ h]; exact insertAll_sorted _ _ _ _ hs

theorem mem_others (me src : Nat) (it : Item) (y xa : Nat) :
    (y, xa) ∈ (src, it.srcAttr) :: it.pairs.filter (fun x => x.1 != me) ↔
      (y = src ∧ xa = it.srcAttr) ∨ (y ≠ me ∧ (y, xa) ∈ it.pairs) := by
  simp only [List.mem_cons, Prod.mk.injEq, List.mem_filter, bne_iff_ne, ne_eq]
  constructor
  · rintro (h1 | h1)
    · left; exact h1
    · right; exact ⟨h1.2, h1.1⟩
  · rintro (h1 | h1)
    · left; exact h1
    · right; exact ⟨h1.2, h1.1⟩

theorem mem_listOf_receiveItem (num : Int → Nat) (me src : Nat) (st : RankState) (it : Item)
    (hs : st.remote.Pairwise (fun a b => a.1 < b.1)) (y : Nat) (en : RemEntry) :
    en ∈ listOf (receiveItem num me src st it).remote y ↔ en ∈ listOf st.remote y ∨ ToldRemI me src it y en := by
  cases h : it.pairs.lookup me with
  | none => rw [receiveItem_none _ _ _ _ _ h]; simp [ToldRemI, h]
  | some b =>
    rw [receiveItem_some _ _ _ _ _ _ h]
    simp only [ToldRemI, h, Option.some.injEq]
    rw [mem_listOf_insertAll _ _ _ _ _ _ hs, mem_others]
    constructor
    · rintro (h1 | ⟨h1, h2, h3⟩)
      · left; exact h1
      · right; exact ⟨h1, h2.symm, h3⟩
    · rintro (h1 | ⟨h1, h2, h3⟩)
      · left; exact h1
      · right; exact ⟨h1, h2.symm, h3⟩

theorem isNeighbour_receiveItem (num : Int → Nat) (me src : Nat) (st : RankState) (it : Item) (y : Nat) :
    isNeighbour (receiveItem num me src st it).remote y = true ↔
      isNeighbour st.remote y = true ∨ ((∃ b, it.pairs.lookup me = some b) ∧ (y = src ∨ (y ≠ me ∧ ∃ xa, (y, xa) ∈ it.pairs))) := by
  cases h : it.pairs.lookup me with
  | none => rw [receiveItem_none _ _ _ _ _ h]; simp
  | some b =>
    rw [receiveItem_some _ _ _ _ _ _ h]
    simp only [Option.some.injEq, exists_eq', true_and]
    rw [isNeighbour_insertAll]
    constructor
    · rintro (h1 | ⟨xa, h1⟩)
      · left; exact h1
      · right
        rcases (mem_others me src it y xa).1 h1 with h2 | h2
        · left; exact h2.1
        · right; exact ⟨h2.1, xa, h2.2⟩
    · rintro (h1 | h1 | ⟨h1, xa, h2⟩)
      · left; exact h1
      · right; exact ⟨it.srcAttr, (mem_others me src it y _).2 (Or.inl ⟨h1, rfl⟩)⟩
      · right; exact ⟨xa, (mem_others me src it y xa).2 (Or.inr ⟨h1, h2⟩)⟩

theorem RankInv.receiveItem {D : Decomp} {P me : Nat} {st : RankState} (h : RankInv D P me st)
    (num : Int → Nat) (src : Nat) (it : Item) (ht : TrueItem D P me src it) :
    RankInv D P me (receiveItem num me src st it) := by
  cases hl : it.pairs.lookup me with
  | none => rw [receiveItem_none _ _ _ _ _ hl]; exact h
  | some a =>
    rw [receiveItem_some _ _ _ _ _ _ hl]
    have hme : D.attrOf me it.g = some a := (ht.pairsTrue _ (lookup_mem me a it.pairs hl)).1
    -- the new index set
    have hidx : (if hasKey st.idx it.g a then st.idx else insertIdx ⟨it.g, a, num it.g⟩ st.idx).Pairwise (fun a b => a.g < b.g)
        ∧ (∀ e ∈ (if hasKey st.idx it.g a then st.idx else insertIdx ⟨it.g, a, num it.g⟩ st.idx), D.attrOf me e.g = some e.attr)
        ∧ hasKey (if hasKey st.idx it.g a then st.idx else insertIdx ⟨it.g, a, num it.g⟩ st.idx) it.g a = true
        ∧ (∀ g b, hasKey st.idx g b = true → hasKey (if hasKey st.idx it.g a then st.idx else insertIdx ⟨it.g, a, num it.g⟩ st.idx) g b = true) := by
      by_cases hk : hasKey st.idx it.g a = true
      · rw [if_pos hk]
        exact ⟨h.idxSorted, h.idxTrue, hk, fun _ _ h1 => h1⟩
      · rw [if_neg hk]
        refine ⟨?_, ?_, ?_, ?_⟩
        · apply pairwise_insertIdx _ _ h.idxSorted
          intro e he heg
          apply hk
          rw [hasKey_iff]
          refine ⟨e, he, heg, ?_⟩
          have := h.idxTrue e he
          simp only at heg
          rw [heg, hme] at this
          simp at this
          omega
        · intro e he
          rcases (mem_insertIdx _ e _).1 he with h1 | h1
          · subst h1; exact hme
          · exact h.idxTrue e h1
        · rw [hasKey_insertIdx]; left; exact ⟨rfl, rfl⟩
        · intro g b h1
          rw [hasKey_insertIdx]; right; exact h1
    refine ⟨hidx.1, hidx.2.1, ?_⟩
    apply insertAll_inv hidx.2.1 it.g a hidx.2.2.1 _ _ (h.rem.mono hidx.2.2.2)
    intro o ho
    obtain ⟨y, xa⟩ := o
    rcases (mem_others me src it y xa).1 ho with ⟨h1, h2⟩ | ⟨h1, h2⟩
    · subst h1; subst h2
      exact ⟨ht.srcNe, ht.srcLt, ht.srcTrue⟩
    · have := ht.pairsTrue _ h2
      exact ⟨h1, this.2, this.1⟩

/-! ### a whole inbox, as a flat list of (source, item) -/

theorem recvFlat_seq (num : Int → Nat) (me : Nat) : ∀ (xs : List (Nat × Item)) (st : RankState),
    (recvFlat num me st xs).idxSeq = st.idxSeq ∧ (recvFlat num me st xs).remSeq = st.remSeq
  | [], _ => ⟨rfl, rfl⟩
  | x :: xs, st => by
    simp only [recvFlat, List.foldl_cons]
    have ih := recvFlat_seq num me xs (receiveItem num me x.1 st x.2)
    simp only [recvFlat] at ih
    have h1 := receiveItem_seq num me x.1 st x.2
    exact ⟨ih.1.trans h1.1, ih.2.trans h1.2⟩

theorem sorted_recvFlat (num : Int → Nat) (me : Nat) : ∀ (xs : List (Nat × Item)) (st : RankState),
    st.remote.Pairwise (fun a b => a.1 < b.1) → (recvFlat num me st xs).remote.Pairwise (fun a b => a.1 < b.1)
  | [], _, h => h
  | x :: xs, st, h => by
    simp only [recvFlat, List.foldl_cons]
    exact sorted_recvFlat num me xs _ (sorted_receiveItem num me x.1 st x.2 h)

theorem hasKey_recvFlat (num : Int → Nat) (me : Nat) (g : Int) (a : Nat) :
    ∀ (xs : List (Nat × Item)) (st : RankState),
      (hasKey (recvFlat num me st xs).idx g a = true ↔ hasKey st.idx g a = true ∨ ∃ x ∈ xs, ToldIdxI me x.2 g a)
  | [], st => by simp [recvFlat]
  | x :: xs, st => by
    simp only [recvFlat, List.foldl_cons]
    have ih := hasKey_recvFlat num me g a xs (receiveItem num me x.1 st x.2)
    simp only [recvFlat] at ih
    rw [ih, hasKey_receiveItem]
    constructor
    · rintro ((h1 | h1) | ⟨y, hy, h1⟩)
      · left; exact h1
      · right; exact ⟨x, by simp, h1⟩
      · right; exact ⟨y, by simp [hy], h1⟩
    · rintro (h1 | ⟨y, hy, h1⟩)
      · left; left; exact h1
      · simp only [List.mem_cons] at hy
        rcases hy with rfl | hy
        · left; right; exact h1
        · right; exact ⟨y, hy, h1⟩

theorem mem_idx_recvFlat (num : Int → Nat) (me : Nat) (e : IdxEntry) :
    ∀ (xs : List (Nat × Item)) (st : RankState),
      (e ∈ (recvFlat num me st xs).idx ↔
        e ∈ st.idx ∨ ((∃ x ∈ xs, ToldIdxI me x.2 e.g e.attr) ∧ e.loc = num e.g ∧ hasKey st.idx e.g e.attr = false))
  | [], st => by simp [recvFlat]
  | x :: xs, st => by
    simp only [recvFlat, List.foldl_cons]
    have ih := mem_idx_recvFlat num me e xs (receiveItem num me x.1 st x.2)
    simp only [recvFlat] at ih
    rw [ih, mem_idx_receiveItem]
    have hk := hasKey_receiveItem num me x.1 st x.2 e.g e.attr
    constructor
    · rintro ((h1 | ⟨h1, h2, h3⟩) | ⟨⟨y, hy, h1⟩, h2, h3⟩)
      · left; exact h1
      · right; exact ⟨⟨x, by simp, h1⟩, h2, h3⟩
      · right
        refine ⟨⟨y, by simp [hy], h1⟩, h2, ?_⟩
        cases hh : hasKey st.idx e.g e.attr
        · rfl
        · rw [hk.2 (Or.inl hh)] at h3; simp at h3
    · rintro (h1 | ⟨⟨y, hy, h1⟩, h2, h3⟩)
      · left; left; exact h1
      · simp only [List.mem_cons] at hy
        rcases hy with rfl | hy
        · left; right; exact ⟨h1, h2, h3⟩
        · by_cases ht : ToldIdxI me x.2 e.g e.attr
          · left; right; exact ⟨ht, h2, h3⟩
          · right
            refine ⟨⟨y, hy, h1⟩, h2, ?_⟩
            cases hh : hasKey (receiveItem num me x.1 st x.2).idx e.g e.attr
            · rfl
            · rcases hk.1 hh with h4 | h4
              · rw [h4] at h3; simp at h3
              · exact absurd h4 ht

theorem mem_listOf_recvFlat (num : Int → Nat) (me : Nat) (y : Nat) (en : RemEntry) :
    ∀ (xs : List (Nat × Item)) (st : RankState), st.remote.Pairwise (fun a b => a.1 < b.1) →
      (en ∈ listOf (recvFlat num me st xs).remote y ↔
        en ∈ listOf st.remote y ∨ ∃ x ∈ xs, ToldRemI me x.1 x.2 y en)
  | [], st, _ => by simp [recvFlat]
  | x :: xs, st, hs => by
    simp only [recvFlat, List.foldl_cons]
    have ih := mem_listOf_recvFlat num me y en xs (receiveItem num me x.1 st x.2) (sorted_receiveItem num me x.1 st x.2 hs)
    simp only [recvFlat] at ih
    rw [ih, mem_listOf_receiveItem _ _ _ _ _ hs]
    constructor
    · rintro ((h1 | h1) | ⟨z, hz, h1⟩)
      · left; exact h1
      · right; exact ⟨x, by simp, h1⟩
      · right; exact ⟨z, by simp [hz], h1⟩
    · rintro (h1 | ⟨z, hz, h1⟩)
      · left; left; exact h1
      · simp only [List.mem_cons] at hz
        rcases hz with rfl | hz
        · left; right; exact h1
        · right; exact ⟨z, hz, h1⟩

theorem isNeighbour_recvFlat (num : Int → Nat) (me : Nat) (y : Nat) :
    ∀ (xs : List (Nat × Item)) (st : RankState),
      (isNeighbour (recvFlat num me st xs).remote y = true ↔
        isNeighbour st.remote y = true ∨ ∃ x ∈ xs, (∃ b, x.2.pairs.lookup me = some b) ∧ (y = x.1 ∨ (y ≠ me ∧ ∃ xa, (y, xa) ∈ x.2.pairs)))
  | [], st => by simp [recvFlat]
  | x :: xs, st => by
    simp only [recvFlat, List.foldl_cons]
    have ih := isNeighbour_recvFlat num me y xs (receiveItem num me x.1 st x.2)
    simp only [recvFlat] at ih
    rw [ih, isNeighbour_receiveItem]
    constructor
    · rintro ((h1 | h1) | ⟨z, hz, h1⟩)
      · left; exact h1
      · right; exact ⟨x, by simp, h1⟩
      · right; exact ⟨z, by simp [hz], h1⟩
    · rintro (h1 | ⟨z, hz, h1⟩)
      · left; left; exact h1
      · simp only [List.mem_cons] at hz
        rcases hz with rfl | hz
        · left; right; exact h1
        · right; exact ⟨z, hz, h1⟩

theorem RankInv.recvFlat {D : Decomp} {P me : Nat} (num : Int → Nat) :
    ∀ (xs : List (Nat × Item)) (st : RankState), RankInv D P me st → (∀ x ∈ xs, TrueItem D P me x.1 x.2) →
      RankInv D P me (recvFlat num me st xs)
  | [], _, h, _ => h
  | x :: xs, st, h, ht => by
    simp only [DV.C13.recvFlat, List.foldl_cons]
    exact RankInv.recvFlat num xs _ (h.receiveItem num x.1 x.2 (ht x (by simp))) (fun y hy => ht y (by simp [hy]))

end DV.C13
