import DuneVerif.Proofs.C02Elim
import Mathlib.LinearAlgebra.Matrix.Determinant.Basic
import Mathlib.Tactic.Ring
import Mathlib.Tactic.FieldSimp
/-! C02: one outer step of `luDecomposition` seen through the factor views
`Lview m A` (unit lower triangular, the stored factors of the columns `< m`) and
`Wview m A` (the matrix still being reduced: stored factors read as exact zeros). -/
namespace DV.C02
open Matrix
set_option linter.unusedSectionVars false

variable {n : Nat} {K : Type} [Field K]

/-- unit lower triangular matrix of the factors stored in the columns `< m` of `A` -/
def Lview (m : Nat) (A : Mat n K) : Matrix (Fin n) (Fin n) K :=
  fun r c => if c.1 < m ∧ c < r then A.f r c else if r = c then 1 else 0

/-- the matrix under reduction after `m` steps: the stored factors are exact zeros -/
def Wview (m : Nat) (A : Mat n K) : Matrix (Fin n) (Fin n) K :=
  fun r c => if c.1 < m ∧ c < r then 0 else A.f r c

/-- the multipliers of step `i`: `g r = B[r][i]/B[i][i]` for `r > i`, `0` otherwise -/
def gfac (B : Mat n K) (i : Fin n) (r : Fin n) : K := if i < r then B.f r i / B.f i i else 0

theorem swapRows_f (A : Mat n K) (i p r c : Fin n) :
    (swapRows A i p).f r c = A.f (Equiv.swap i p r) c := by
  simp only [swapRows, Mat.ofFn_f, Equiv.swap_apply_def]
  split_ifs <;> rfl

theorem swapRows_self (A : Mat n K) (i : Fin n) : swapRows A i i = A := by
  apply Mat.ext; intro r c; rw [swapRows_f]; simp

/-- (c) the row swap commutes with the `W` view (the swapped rows are both `≥ i`) -/
theorem Wview_swap (A : Mat n K) (i p : Fin n) (hip : i ≤ p) (r c : Fin n) :
    Wview i.1 (swapRows A i p) r c = Wview i.1 A (Equiv.swap i p r) c := by
  simp only [Wview, swapRows_f]
  have : (c.1 < i.1 ∧ c < r) ↔ (c.1 < i.1 ∧ c < Equiv.swap i p r) := by
    simp only [Equiv.swap_apply_def, Fin.lt_def, Fin.le_def] at *
    split_ifs with h1 h2
    · subst h1; omega
    · subst h2; omega
    · rfl
  simp only [this]

/-- the row swap seen in the `L` view: rows and (unit) columns `i`, `p` are exchanged -/
theorem Lview_swap (A : Mat n K) (i p : Fin n) (hip : i ≤ p) (r c : Fin n) :
    Lview i.1 (swapRows A i p) r c = Lview i.1 A (Equiv.swap i p r) (Equiv.swap i p c) := by
  simp only [Lview, swapRows_f]
  by_cases hc : c.1 < i.1
  · have hci : c ≠ i := fun h => by subst h; omega
    have hcp : c ≠ p := fun h => by subst h; simp only [Fin.le_def] at hip; omega
    rw [Equiv.swap_apply_of_ne_of_ne hci hcp]
    have h1 : (c < r) ↔ (c < Equiv.swap i p r) := by
      simp only [Equiv.swap_apply_def, Fin.lt_def, Fin.le_def] at *
      split_ifs with h1 h2
      · subst h1; omega
      · subst h2; omega
      · rfl
    have h2 : (r = c) ↔ (Equiv.swap i p r = c) := by
      constructor
      · intro h; subst h; rw [Equiv.swap_apply_of_ne_of_ne hci hcp]
      · intro h
        have := congrArg (Equiv.swap i p) h
        rw [Equiv.swap_apply_self, Equiv.swap_apply_of_ne_of_ne hci hcp] at this
        exact this
    simp only [hc, true_and, h1, h2]
  · have hc' : ¬ ((Equiv.swap i p c).1 < i.1) := by
      simp only [Equiv.swap_apply_def, Fin.le_def] at *
      split_ifs with h1 h2
      · subst h1; omega
      · omega
      · exact hc
    simp only [hc, hc', false_and, if_false, Equiv.apply_eq_iff_eq]

/-- (a) the `L` view after the row swap, applied to the swapped vector -/
theorem Lview_swap_mulVec (A : Mat n K) (i p : Fin n) (hip : i ≤ p) (v : Fin n → K) :
    Lview i.1 (swapRows A i p) *ᵥ (v ∘ Equiv.swap i p) = (Lview i.1 A *ᵥ v) ∘ Equiv.swap i p := by
  funext r
  simp only [mulVec, dotProduct, Function.comp, Lview_swap A i p hip]
  exact Equiv.sum_comp (Equiv.swap i p) (fun c => Lview i.1 A (Equiv.swap i p r) c * v c)

theorem elimAll_f (B : Mat n K) (i r c : Fin n) :
    (elimAll B i).f r c = if i < r then elimEntry B i r c else B.f r c := by
  simp [elimAll]

/-- the `L` view after the elimination loop: column `i` receives the multipliers -/
theorem Lview_elim (B : Mat n K) (i r c : Fin n) :
    Lview (i.1 + 1) (elimAll B i) r c = Lview i.1 B r c + (if c = i then gfac B i r else 0) := by
  simp only [Lview, elimAll_f, elimEntry, gfac]
  by_cases hci : c = i
  · subst hci
    by_cases hr : c < r
    · have : r ≠ c := fun h => by subst h; exact absurd hr (lt_irrefl _)
      simp [hr, this]
    · simp [hr]
  · by_cases hc : c.1 < i.1
    · have h1 : c.1 < i.1 + 1 := by omega
      have h2 : ¬ (i < c) := by simp only [Fin.lt_def]; omega
      simp only [hc, h1, true_and, hci, if_false, h2, add_zero]
      split_ifs <;> rfl
    · have h1 : ¬ (c.1 < i.1 + 1) := by
        have : c.1 ≠ i.1 := fun h => hci (Fin.ext h)
        omega
      simp [hc, h1, hci]

/-- (b) the `L` view after the elimination loop applied to the eliminated vector -/
theorem Lview_elim_mulVec (B : Mat n K) (i : Fin n) (w : Fin n → K) :
    Lview (i.1 + 1) (elimAll B i) *ᵥ (fun r => w r - gfac B i r * w i) = Lview i.1 B *ᵥ w := by
  funext r
  simp only [mulVec, dotProduct, Lview_elim]
  have hcol : ∀ c : Fin n, Lview i.1 B r c * gfac B i c = if c = r then gfac B i r else 0 := by
    intro c
    simp only [Lview, gfac]
    by_cases hic : i < c
    · have h1 : ¬ (c.1 < i.1) := by simp only [Fin.lt_def] at hic; omega
      by_cases hrc : r = c
      · subst hrc; simp [hic, h1]
      · have : c ≠ r := fun h => hrc h.symm
        simp [hic, h1, hrc, this]
    · by_cases hcr : c = r
      · subst hcr; simp [hic]
      · simp [hic, hcr]
  have hgi : gfac B i i = 0 := by simp [gfac]
  calc ∑ c, (Lview i.1 B r c + if c = i then gfac B i r else 0) * (w c - gfac B i c * w i)
      = ∑ c, (Lview i.1 B r c * w c - (Lview i.1 B r c * gfac B i c) * w i
          + (if c = i then gfac B i r * (w i - gfac B i i * w i) else 0)) := by
        apply Finset.sum_congr rfl
        intro c _
        by_cases hci : c = i
        · subst hci; simp only [if_true]; ring
        · simp only [hci, if_false]; ring
    _ = ∑ c, Lview i.1 B r c * w c - (∑ c, Lview i.1 B r c * gfac B i c) * w i
          + gfac B i r * (w i - gfac B i i * w i) := by
        rw [Finset.sum_add_distrib, Finset.sum_sub_distrib, Finset.sum_ite_eq' Finset.univ i]
        simp [Finset.sum_mul]
    _ = ∑ c, Lview i.1 B r c * w c := by
        simp only [hcol, Finset.sum_ite_eq' Finset.univ r, Finset.mem_univ, if_true, hgi]
        ring

/-- (d) the `W` view after the elimination loop: multiples of row `i` are subtracted from the rows below -/
theorem Wview_elim (B : Mat n K) (i : Fin n) (hne : B.f i i ≠ 0) (r c : Fin n) :
    Wview (i.1 + 1) (elimAll B i) r c = Wview i.1 B r c - gfac B i r * Wview i.1 B i c := by
  simp only [Wview, elimAll_f, elimEntry, gfac]
  by_cases hir : i < r
  · simp only [hir, if_true]
    by_cases hci : c = i
    · subst hci
      simp only [Nat.lt_succ_self, hir, true_and, if_true, lt_irrefl, false_and, if_false, and_false]
      field_simp
      ring
    · by_cases hc : c.1 < i.1
      · have h1 : c.1 < i.1 + 1 := by omega
        have h2 : c < r := by simp only [Fin.lt_def] at *; omega
        have h3 : c < i := hc
        simp [hc, h1, h2, h3]
      · have h1 : ¬ (c.1 < i.1 + 1) := by
          have : c.1 ≠ i.1 := fun h => hci (Fin.ext h)
          omega
        have h2 : i < c := by
          have : c.1 ≠ i.1 := fun h => hci (Fin.ext h)
          simp only [Fin.lt_def]; omega
        simp [hc, h1, hci, h2]
  · simp only [hir, if_false, zero_mul, sub_zero]
    have : (c.1 < i.1 + 1 ∧ c < r) ↔ (c.1 < i.1 ∧ c < r) := by
      simp only [Fin.lt_def] at *
      omega
    simp only [this]

end DV.C02
