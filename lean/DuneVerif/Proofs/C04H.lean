import DuneVerif.Proofs.C04F
/-!
C04 — histories (core Lean only): the invariant that makes the no-op branch of `rebuild` sound.

`Inv w B ignB`: every rank whose object has been built since its last `free`/`setIndexSets` holds the lists of one and
the same collective build — `buildRemote ignB B p` for the system `B` as it was then —, its stored sequence numbers are
not ahead of the index sets, and *if it reports itself in sync its own data is still what it was in `B`*.
-/
namespace DV.C04.F
open DV.C04

/-! ## worlds -/

theorem modify_length (w : World) (p : Nat) (f : RankW → RankW) : (w.modify p f).length = w.length := by
  simp [World.modify]

theorem modify_getD (w : World) (p : Nat) (f : RankW → RankW) (q : Nat) (hq : q < w.length) :
    (w.modify p f).getD q default = if q = p then f (w.getD q default) else w.getD q default := by
  simp only [World.modify, List.getD_eq_getElem?_getD, List.getElem?_mapIdx, List.getElem?_eq_getElem hq,
    Option.map_some, Option.getD_some]

theorem isSynced_iff (r : RankW) : r.isSynced = true ↔
    r.ri.sourceSeqNo = ((r.obj r.srcObj).seq : Int) ∧ r.ri.destSeqNo = ((r.obj r.tgtObj).seq : Int) := by
  simp [RankW.isSynced, Gen.isSynced]

theorem needs_false_iff (r : RankW) (ign : Bool) : r.needs ign = false ↔
    r.ri.firstBuild = false ∧ r.ri.publicIgnored = ign ∧ r.isSynced = true := by
  unfold RankW.needs Gen.needRebuild
  cases r.ri.firstBuild <;> cases r.ri.publicIgnored <;> cases ign <;> cases r.isSynced <;> simp

theorem obj_setObj (r : RankW) (o : Nat) (x : IdxObj) (i : Nat) :
    ((r.setObj o x).obj i = x ∧ r.obj i = r.obj o) ∨ (r.setObj o x).obj i = r.obj i := by
  unfold RankW.setObj RankW.obj
  by_cases h0 : o = 0
  · by_cases i0 : i = 0
    · left; simp [h0, i0]
    · right; simp [h0, i0]
  · by_cases h1 : o = 1
    · by_cases i0 : i = 0
      · right; simp [h0, h1, i0]
      · by_cases i1 : i = 1
        · left; simp [h0, h1, i0, i1]
        · right; simp [h0, h1, i0, i1]
    · by_cases i0 : i = 0
      · right; simp [h0, h1, i0]
      · by_cases i1 : i = 1
        · right; simp [h0, h1, i0, i1]
        · left; simp [h0, h1, i0, i1]

theorem setObj_fields (r : RankW) (o : Nat) (x : IdxObj) :
    (r.setObj o x).ri = r.ri ∧ (r.setObj o x).srcObj = r.srcObj ∧ (r.setObj o x).tgtObj = r.tgtObj ∧
    (r.setObj o x).incl = r.incl ∧ (r.setObj o x).hints = r.hints := by
  unfold RankW.setObj
  split
  · exact ⟨rfl, rfl, rfl, rfl, rfl⟩
  · split <;> exact ⟨rfl, rfl, rfl, rfl, rfl⟩

/-! ## the invariant -/

structure RankInv (B : System) (ignB : Bool) (p : Nat) (r : RankW) : Prop where
  remote : r.ri.remote = C04.buildRemote ignB B p (senders B p)
  pub : r.ri.publicIgnored = ignB
  seqS : r.ri.sourceSeqNo ≤ ((r.obj r.srcObj).seq : Int)
  seqT : r.ri.destSeqNo ≤ ((r.obj r.tgtObj).seq : Int)
  same : r.isSynced = true → r.data = B.rank p

def Inv (w : World) (B : System) (ignB : Bool) : Prop :=
  B.P = w.length ∧
  ∀ p, p < w.length → (w.getD p default).ri.firstBuild = false → RankInv B ignB p (w.getD p default)

theorem inv_fresh (w : World) (h : ∀ r ∈ w, r.ri.firstBuild = true) (ign : Bool) : Inv w w.sys ign := by
  refine ⟨rfl, fun p hp hf => ?_⟩
  have hm : w.getD p default ∈ w := by
    rw [List.getD_eq_getElem?_getD, List.getElem?_eq_getElem hp]
    exact List.getElem_mem hp
  rw [h _ hm] at hf
  cases hf

theorem rankInv_resize {B : System} {ignB : Bool} {p : Nat} {r : RankW} (h : RankInv B ignB p r)
    (o : Nat) (pairs : List Pair) : RankInv B ignB p (r.setObj o { pairs := pairs, seq := (r.obj o).seq + 1 }) := by
  obtain ⟨f1, f2, f3, f4, f5⟩ := setObj_fields r o { pairs := pairs, seq := (r.obj o).seq + 1 }
  have hs := obj_setObj r o { pairs := pairs, seq := (r.obj o).seq + 1 } r.srcObj
  have ht := obj_setObj r o { pairs := pairs, seq := (r.obj o).seq + 1 } r.tgtObj
  have hS := h.seqS
  have hT := h.seqT
  refine ⟨by rw [f1]; exact h.remote, by rw [f1]; exact h.pub, ?_, ?_, ?_⟩
  · rw [f1, f2]
    rcases hs with ⟨e, e'⟩ | e
    · rw [e, ← e']; simp only []; omega
    · rw [e]; exact hS
  · rw [f1, f3]
    rcases ht with ⟨e, e'⟩ | e
    · rw [e, ← e']; simp only []; omega
    · rw [e]; exact hT
  · intro hsy
    rw [isSynced_iff, f1, f2, f3] at hsy
    rcases hs with ⟨e, e'⟩ | es
    · exfalso
      rw [e, ← e'] at hsy
      simp only [] at hsy
      omega
    · rcases ht with ⟨e, e'⟩ | et
      · exfalso
        rw [e, ← e'] at hsy
        simp only [] at hsy
        omega
      · rw [es, et] at hsy
        have hd : (r.setObj o { pairs := pairs, seq := (r.obj o).seq + 1 }).data = r.data := by
          unfold RankW.data
          rw [f2, f3, f4, f5, es, et]
        rw [hd]
        exact h.same ((isSynced_iff r).mpr hsy)

theorem inv_modify_keep {w : World} {B : System} {ignB : Bool} (h : Inv w B ignB) (p : Nat) (f : RankW → RankW)
    (hf : ∀ r, (f r).ri.firstBuild = false → r.ri.firstBuild = false ∧ (∀ q, RankInv B ignB q r → RankInv B ignB q (f r))) :
    Inv (w.modify p f) B ignB := by
  refine ⟨by rw [modify_length]; exact h.1, fun q hq hfb => ?_⟩
  rw [modify_length] at hq
  rw [modify_getD w p f q hq] at hfb ⊢
  by_cases e : q = p
  · rw [if_pos e] at hfb ⊢
    have := hf _ hfb
    exact this.2 q (h.2 q hq this.1)
  · rw [if_neg e] at hfb ⊢
    exact h.2 q hq hfb

/-! ## congruence: `buildRemote` only looks at the ranks below `P` -/

theorem fromRank_congr (ign : Bool) {sys sys' : System} {p q : Nat} (hp : sys.rank p = sys'.rank p)
    (hq : sys.rank q = sys'.rank q) (fs : Bool) : fromRank ign sys p q fs = fromRank ign sys' p q fs := by
  unfold fromRank
  rw [hp, hq]

theorem senders_congr {sys sys' : System} (hP : sys.P = sys'.P) (h : ∀ q, q < sys.P → sys.rank q = sys'.rank q) (p : Nat) :
    senders sys p = senders sys' p := by
  unfold senders
  rw [← hP]
  apply List.filter_congr
  intro q hq
  rw [h q (List.mem_range.mp hq)]

theorem buildRemote_congr (ign : Bool) {sys sys' : System} (hP : sys.P = sys'.P)
    (h : ∀ q, q < sys.P → sys.rank q = sys'.rank q) {p : Nat} (hp : p < sys.P) (order : List Nat)
    (ho : ∀ q ∈ order, q < sys.P) : C04.buildRemote ign sys p order = C04.buildRemote ign sys' p order := by
  unfold C04.buildRemote
  rw [← hP, ← h p hp]
  simp only []
  have hself : selfPart ign sys p = selfPart ign sys' p := by
    unfold selfPart
    rw [← h p hp]
    simp only [fromRank_congr ign (h p hp) (h p hp)]
  rw [hself]
  have hrec : ∀ qs : List Nat, (∀ q ∈ qs, q < sys.P) → ∀ m, receiveAll ign sys p m qs = receiveAll ign sys' p m qs := by
    intro qs hqs m
    unfold receiveAll
    apply foldl_congr_mem
    intro m' q hq
    rw [fromRank_congr ign (h p hp) (h q (hqs q hq))]
  rw [hrec _ (fun q hq => ((mem_ringOrder hp q).mp hq).1), hrec _ ho]

/-! ## the collective build, whenever it returns -/

theorem buildRemote_ring_order (ign : Bool) (sys : System) (p : Nat) (o₁ o₂ : List Nat)
    (h : nbIds (sys.rank p) p = []) : C04.buildRemote ign sys p o₁ = C04.buildRemote ign sys p o₂ := by
  unfold C04.buildRemote
  simp [h]

/-- if the collective `buildRemote` returns, every rank holds the per-rank model's result for the canonical order -/
theorem buildAll_some (ign : Bool) (sys : System) (arrivals : Nat → List Nat) (maps : List RMap)
    (h : buildAll ign sys arrivals = some maps) (hP : 0 < sys.P) :
    ∀ p, p < sys.P → maps.getD p [] = C04.buildRemote ign sys p (senders sys p) := by
  by_cases hn : netOK sys arrivals = true
  · obtain ⟨maps', h1, _, h3⟩ := buildAll_refines ign sys arrivals hn hP
    rw [h1] at h
    cases h
    intro p hp
    rw [h3 p hp]
    -- canonical order
    unfold netOK at hn
    rcases Bool.or_eq_true _ _ |>.mp hn with hr | hr
    · exact buildRemote_ring_order ign sys p _ _
        ((isRing_iff sys p).mp (List.all_eq_true.mp hr p (List.mem_range.mpr hp)))
    · have := List.all_eq_true.mp hr p (List.mem_range.mpr hp)
      simp only [Bool.and_eq_true, List.isPerm_iff] at this
      exact buildRemote_perm ign sys p _ _ this.1.2
  · -- without a working network the call returns only if every rank returns at once
    have hfold : buildAll ign sys arrivals =
        (let ranks := List.range sys.P
         let locals := localsOf ign sys
         let early := ranks.map fun p => Gen.nothingToDo sys.P (locals.getD p default).sendTwo (sys.rank p).incl
         if early.all id then some (ranks.map fun _ => [])
         else if early.any id then none
         else if !netOK sys arrivals then none
         else
           let msgs := locals.map mkMsg
           let self := ranks.map fun p => selfMap (locals.getD p default) (sys.rank p).incl p
           if isRing sys 0 then
             let st0 := msgs.map fun m => (⟨m, default⟩ : Bufs)
             some (ringLoop sys.P locals sys.P Gen.ringFirst st0 self)
           else
             some (ranks.map fun p =>
               nbLoop (locals.getD p default) msgs (self.getD p []) (arrivals p) (nbIds (sys.rank p) p).length)) := rfl
    rw [hfold] at h
    simp only [] at h
    have hnf : netOK sys arrivals = false := by
      cases hc : netOK sys arrivals with
      | false => rfl
      | true => exact absurd hc hn
    rw [hnf] at h
    split at h
    · rename_i hall
      cases h
      intro p hp
      rw [getD_map_range _ _ hp]
      have hc := List.all_eq_true.mp hall _ (List.mem_map.mpr ⟨p, List.mem_range.mpr hp, rfl⟩)
      simp only [id] at hc
      rw [early_eq ign sys hp] at hc
      unfold C04.buildRemote
      simp only [hc, if_true]
    · split at h
      · cases h
      · simp at h

/-! ## steps -/

theorem inv_resize {w : World} {B : System} {ignB : Bool} (h : Inv w B ignB) (p o : Nat) (pairs : List Pair) :
    Inv (w.modify p fun r => r.setObj o { pairs := pairs, seq := (r.obj o).seq + 1 }) B ignB :=
  inv_modify_keep h p _ (fun r hf => by
    rw [(setObj_fields r o _).1] at hf
    exact ⟨hf, fun q hq => rankInv_resize hq o pairs⟩)

theorem inv_free {w : World} {B : System} {ignB : Bool} (h : Inv w B ignB) (p : Nat) :
    Inv (w.modify p RankW.free) B ignB :=
  inv_modify_keep h p _ (fun r hf => by simp [RankW.free] at hf)

theorem inv_setSets {w : World} {B : System} {ignB : Bool} (h : Inv w B ignB) (p s t : Nat) (hints : List Nat) :
    Inv (w.modify p fun r => { r.free with srcObj := s, tgtObj := t, hints := hints }) B ignB :=
  inv_modify_keep h p _ (fun r hf => by simp [RankW.free] at hf)

theorem getD_mem {w : World} {p : Nat} (hp : p < w.length) : w.getD p default ∈ w := by
  rw [List.getD_eq_getElem?_getD, List.getElem?_eq_getElem hp]
  exact List.getElem_mem hp

theorem sys_rank (w : World) (p : Nat) : w.sys.rank p = (w.getD p default).data := rfl

theorem built_data (r : RankW) (ign : Bool) (m : RMap) : (r.built ign m).data = r.data := rfl

theorem sys_built (w : World) (ign : Bool) (maps : List RMap) :
    World.sys (w.mapIdx fun p r => r.built ign (maps.getD p [])) = w.sys := by
  unfold World.sys
  congr 1
  · simp
  · funext p
    by_cases hp : p < w.length
    · simp only [List.getD_eq_getElem?_getD, List.getElem?_mapIdx, List.getElem?_eq_getElem hp, Option.map_some,
        Option.getD_some]
      rfl
    · have hn : w[p]? = none := List.getElem?_eq_none (by omega)
      simp only [List.getD_eq_getElem?_getD, List.getElem?_mapIdx, hn, Option.map_none, Option.getD_none]

/-- what holds on every rank right after a collective `rebuild<ign>()` that returned -/
structure Fresh (w : World) (ign : Bool) (p : Nat) : Prop where
  remote : (w.getD p default).ri.remote = C04.buildRemote ign w.sys p (senders w.sys p)
  synced : (w.getD p default).isSynced = true
  built : (w.getD p default).ri.firstBuild = false
  pub : (w.getD p default).ri.publicIgnored = ign

theorem inv_rebuild {w w' : World} {B : System} {ignB : Bool} (h : Inv w B ignB) (ign : Bool)
    (arrivals : Nat → List Nat) (hr : w.rebuild ign arrivals = some w') :
    Inv w' w'.sys ign ∧ ∀ p, p < w'.length → Fresh w' ign p := by
  unfold World.rebuild at hr
  split at hr
  · -- nobody rebuilds
    rename_i hall
    cases hr
    have hno : ∀ p, p < w.length → (w.getD p default).ri.firstBuild = false ∧
        (w.getD p default).ri.publicIgnored = ign ∧ (w.getD p default).isSynced = true := by
      intro p hp
      have := List.all_eq_true.mp hall _ (getD_mem hp)
      simp only [Bool.not_eq_true'] at this
      exact (needs_false_iff _ ign).mp this
    have hri : ∀ p (hp : p < w.length), RankInv B ignB p (w.getD p default) := fun p hp => h.2 p hp (hno p hp).1
    have hdata : ∀ q, q < B.P → B.rank q = w.sys.rank q := by
      intro q hq
      rw [h.1] at hq
      rw [sys_rank]
      exact ((hri q hq).same (hno q hq).2.2).symm
    have hrem : ∀ p, p < w.length →
        (w.getD p default).ri.remote = C04.buildRemote ign w.sys p (senders w.sys p) := by
      intro p hp
      have e1 : ignB = ign := by rw [← (hri p hp).pub, (hno p hp).2.1]
      rw [(hri p hp).remote, e1, ← senders_congr (sys := B) (sys' := w.sys) h.1 hdata p]
      exact buildRemote_congr ign h.1 hdata (by rw [h.1]; exact hp) _
        (fun q hq => ((mem_senders B p q).mp hq).1)
    refine ⟨⟨rfl, fun p hp _ => ?_⟩, fun p hp => ⟨hrem p hp, (hno p hp).2.2, (hno p hp).1, (hno p hp).2.1⟩⟩
    exact ⟨hrem p hp, (hno p hp).2.1, (hri p hp).seqS, (hri p hp).seqT, fun _ => rfl⟩
  · split at hr
    · -- everybody rebuilds
      rename_i hnotall hall
      split at hr
      · cases hr
      · rename_i maps hb
        cases hr
        have hP : 0 < w.sys.P := by
          cases w with
          | nil => simp at hnotall
          | cons a as => simp [World.sys]
        have hmaps := buildAll_some ign w.sys arrivals maps hb hP
        have hsys := sys_built w ign maps
        have hget : ∀ p, p < w.length →
            (w.mapIdx fun p r => r.built ign (maps.getD p [])).getD p default
              = (w.getD p default).built ign (maps.getD p []) := by
          intro p hp
          simp only [List.getD_eq_getElem?_getD, List.getElem?_mapIdx, List.getElem?_eq_getElem hp, Option.map_some,
            Option.getD_some]
        have hfresh : ∀ p, p < w.length → Fresh (w.mapIdx fun p r => r.built ign (maps.getD p [])) ign p := by
          intro p hp
          refine ⟨?_, ?_, ?_, ?_⟩
          · rw [hget p hp, hsys]
            exact hmaps p hp
          · rw [hget p hp, isSynced_iff]
            exact ⟨rfl, rfl⟩
          · rw [hget p hp]; rfl
          · rw [hget p hp]; rfl
        refine ⟨⟨rfl, fun p hp _ => ?_⟩, fun p hp => hfresh p (by simpa using hp)⟩
        have hp' : p < w.length := by simpa using hp
        have f := hfresh p hp'
        refine ⟨f.remote, f.pub, ?_, ?_, fun _ => rfl⟩
        · rw [hget p hp']; exact Int.le_refl _
        · rw [hget p hp']; exact Int.le_refl _
    · cases hr

theorem inv_step {w w' : World} {B : System} {ignB : Bool} (h : Inv w B ignB) (e : Ev) (hc : e.core = true)
    (hs : w.step e = some w') : ∃ B' ignB', Inv w' B' ignB' := by
  cases e with
  | resize p o pairs => cases hs; exact ⟨B, ignB, inv_resize h p o pairs⟩
  | rebuild ign arrivals => exact ⟨w'.sys, ign, (inv_rebuild h ign arrivals hs).1⟩
  | free p => cases hs; exact ⟨B, ignB, inv_free h p⟩
  | setSets p s t hints => cases hs; exact ⟨B, ignB, inv_setSets h p s t hints⟩
  | setIncl p b => cases hc
  | setNb p hints => cases hc

theorem inv_run : ∀ (evs : List Ev) {w w' : World} {B : System} {ignB : Bool}, Inv w B ignB →
    (∀ e ∈ evs, e.core = true) → World.run w evs = some w' → ∃ B' ignB', Inv w' B' ignB'
  | [], w, w', B, ignB, h, _, hr => by
    cases hr
    exact ⟨B, ignB, h⟩
  | e :: es, w, w', B, ignB, h, hc, hr => by
    unfold World.run at hr
    cases hs : w.step e with
    | none => simp [hs] at hr
    | some w1 =>
      simp only [hs, Option.bind_some] at hr
      obtain ⟨B1, i1, h1⟩ := inv_step h e (hc e (by simp)) hs
      exact inv_run es h1 (fun e' he' => hc e' (by simp [he'])) hr

theorem run_append : ∀ (a b : List Ev) (w : World), World.run w (a ++ b) = (World.run w a).bind fun w' => World.run w' b
  | [], b, w => by simp [World.run]
  | e :: es, b, w => by
    simp only [List.cons_append, World.run]
    cases w.step e with
    | none => rfl
    | some w1 => simp only [Option.bind_some]; exact run_append es b w1

/-- every history of resizes, frees, `setIndexSets` and collective rebuilds from freshly constructed objects, followed
    by a collective rebuild that returns, leaves every rank with the lists the per-rank model computes from the
    *current* index sets -/
theorem run_then_rebuild_fresh (w0 : World) (h0 : ∀ r ∈ w0, r.ri.firstBuild = true) (evs : List Ev)
    (hc : ∀ e ∈ evs, e.core = true) (ign : Bool) (arrivals : Nat → List Nat) (w : World)
    (hr : World.run w0 (evs ++ [Ev.rebuild ign arrivals]) = some w) : ∀ p, p < w.length → Fresh w ign p := by
  rw [run_append] at hr
  cases h1 : World.run w0 evs with
  | none => simp [h1] at hr
  | some w1 =>
    simp only [h1, Option.bind_some, World.run, World.step] at hr
    cases h2 : w1.rebuild ign arrivals with
    | none => simp [h2] at hr
    | some w2 =>
      simp only [h2, Option.bind_some] at hr
      cases hr
      obtain ⟨B, ignB, hinv⟩ := inv_run evs (inv_fresh w0 h0 ign) hc h1
      exact (inv_rebuild hinv ign arrivals h2).2

/-! ## the configuration in force -/

theorem config_setObj (r : RankW) (o : Nat) (x : IdxObj) : (r.setObj o x).config = r.config := by
  obtain ⟨_, h2, h3, h4, h5⟩ := setObj_fields r o x
  simp [RankW.config, h2, h3, h4, h5]

theorem rebuild_config {w w' : World} {ign : Bool} {arrivals : Nat → List Nat} (hr : w.rebuild ign arrivals = some w') :
    w'.length = w.length ∧ ∀ p, p < w.length → (w'.getD p default).config = (w.getD p default).config := by
  unfold World.rebuild at hr
  split at hr
  · cases hr; exact ⟨rfl, fun _ _ => rfl⟩
  · split at hr
    · split at hr
      · cases hr
      · cases hr
        refine ⟨by simp, fun p hp => ?_⟩
        simp only [List.getD_eq_getElem?_getD, List.getElem?_mapIdx, List.getElem?_eq_getElem hp, Option.map_some,
          Option.getD_some]
        rfl
    · cases hr

/-- one event: the number of ranks stays, and the configuration of every rank changes as `Config.step` says -/
theorem step_config {w w' : World} (e : Ev) (hs : w.step e = some w') :
    w'.length = w.length ∧
    ∀ p, p < w.length → (w'.getD p default).config = Config.step p (w.getD p default).config e := by
  cases e with
  | resize q o pairs =>
    cases hs
    refine ⟨modify_length _ _ _, fun p hp => ?_⟩
    rw [modify_getD _ _ _ _ hp]
    by_cases h : p = q
    · simp only [h, if_true, Config.step]; exact config_setObj _ _ _
    · simp only [h, if_false, Config.step]
  | rebuild ign arrivals => exact rebuild_config hs
  | free q =>
    cases hs
    refine ⟨modify_length _ _ _, fun p hp => ?_⟩
    rw [modify_getD _ _ _ _ hp]
    by_cases h : p = q
    · simp only [h, if_true, Config.step]; rfl
    · simp only [h, if_false, Config.step]
  | setSets q s t hints =>
    cases hs
    refine ⟨modify_length _ _ _, fun p hp => ?_⟩
    rw [modify_getD _ _ _ _ hp]
    by_cases h : p = q
    · subst h; simp only [if_true, Config.step]; rfl
    · have h' : ¬ q = p := fun e => h e.symm
      simp only [h, h', if_false, Config.step]
  | setIncl q b =>
    cases hs
    refine ⟨modify_length _ _ _, fun p hp => ?_⟩
    rw [modify_getD _ _ _ _ hp]
    by_cases h : p = q
    · subst h; simp only [if_true, Config.step]; rfl
    · have h' : ¬ q = p := fun e => h e.symm
      simp only [h, h', if_false, Config.step]
  | setNb q hints =>
    cases hs
    refine ⟨modify_length _ _ _, fun p hp => ?_⟩
    rw [modify_getD _ _ _ _ hp]
    by_cases h : p = q
    · subst h; simp only [if_true, Config.step]; rfl
    · have h' : ¬ q = p := fun e => h e.symm
      simp only [h, h', if_false, Config.step]

/-- a whole history: every rank ends with the configuration of the last calls addressed to it -/
theorem run_config : ∀ (evs : List Ev) {w w' : World}, World.run w evs = some w' →
    w'.length = w.length ∧
    ∀ p, p < w.length → (w'.getD p default).config = Config.after p (w.getD p default).config evs
  | [], w, w', hr => by cases hr; exact ⟨rfl, fun _ _ => rfl⟩
  | e :: es, w, w', hr => by
    unfold World.run at hr
    cases hs : w.step e with
    | none => simp [hs] at hr
    | some w1 =>
      simp only [hs, Option.bind_some] at hr
      obtain ⟨hl1, hc1⟩ := step_config e hs
      obtain ⟨hl2, hc2⟩ := run_config es hr
      refine ⟨hl2.trans hl1, fun p hp => ?_⟩
      rw [hc2 p (hl1 ▸ hp), hc1 p hp]
      rfl

theorem nbIds_nil_of_hints {d : RankData} (h : d.hints = []) (p : Nat) : nbIds d p = [] := by
  simp [nbIds, h]

/-! ## staleness at world level -/

theorem obj_setObj' (r : RankW) (o : Nat) (x : IdxObj) (i : Nat) :
    (r.setObj o x).obj i = if sameObj i o then x else r.obj i := by
  unfold RankW.setObj RankW.obj sameObj objId
  rcases i with _ | _ | i <;> rcases o with _ | _ | o <;> simp

theorem obj_sameObj (r : RankW) {i o : Nat} (h : sameObj i o = true) : r.obj i = r.obj o := by
  unfold sameObj objId at h
  unfold RankW.obj
  rcases i with _ | _ | i <;> rcases o with _ | _ | o <;> simp at h ⊢

/-- what a sequence of resizes does to the rank `p`: bookkeeping and roles untouched, sequence numbers only grow, and
    the sequence number of object `i` is unchanged exactly if no resize on rank `p` hit it -/
theorem resizes_rank : ∀ (rs : List (Nat × Nat × List Pair)) (w : World) (p : Nat), p < w.length →
    ((w.resizes rs).getD p default).ri = (w.getD p default).ri ∧
    ((w.resizes rs).getD p default).srcObj = (w.getD p default).srcObj ∧
    ((w.resizes rs).getD p default).tgtObj = (w.getD p default).tgtObj ∧
    ∀ i, ((w.getD p default).obj i).seq ≤ (((w.resizes rs).getD p default).obj i).seq ∧
      ((((w.resizes rs).getD p default).obj i).seq = ((w.getD p default).obj i).seq ↔
        ∀ e ∈ rs, e.1 = p → sameObj i e.2.1 = false)
  | [], w, p, _ => by simp [World.resizes]
  | e :: es, w, p, hp => by
    have hlen : p < (w.modify e.1 fun r => r.setObj e.2.1 { pairs := e.2.2, seq := (r.obj e.2.1).seq + 1 }).length := by
      rw [modify_length]; exact hp
    have ih := resizes_rank es _ p hlen
    have hstep : World.resizes w (e :: es) = World.resizes
        (w.modify e.1 fun r => r.setObj e.2.1 { pairs := e.2.2, seq := (r.obj e.2.1).seq + 1 }) es := rfl
    rw [hstep]
    obtain ⟨i1, i2, i3, i4⟩ := ih
    rw [modify_getD w _ _ p hp] at i1 i2 i3 i4
    by_cases c : p = e.1
    · rw [if_pos c] at i1 i2 i3 i4
      obtain ⟨f1, f2, f3, _, _⟩ := setObj_fields (w.getD p default) e.2.1
        { pairs := e.2.2, seq := ((w.getD p default).obj e.2.1).seq + 1 }
      refine ⟨i1.trans f1, i2.trans f2, i3.trans f3, fun i => ?_⟩
      have hi := i4 i
      rw [obj_setObj'] at hi
      by_cases hs : sameObj i e.2.1 = true
      · rw [if_pos hs] at hi
        simp only [] at hi
        rw [← obj_sameObj _ hs] at hi
        refine ⟨by omega, ?_⟩
        constructor
        · intro h; omega
        · intro h
          have := h e (by simp) c.symm
          rw [hs] at this
          cases this
      · rw [if_neg hs] at hi
        refine ⟨hi.1, hi.2.trans ?_⟩
        constructor
        · intro h e' he'
          rcases List.mem_cons.mp he' with x | x
          · subst x; intro _; simpa using hs
          · exact h e' x
        · intro h e' he'
          exact h e' (by simp [he'])
    · rw [if_neg c] at i1 i2 i3 i4
      refine ⟨i1, i2, i3, fun i => ⟨(i4 i).1, (i4 i).2.trans ?_⟩⟩
      constructor
      · intro h e' he'
        rcases List.mem_cons.mp he' with x | x
        · subst x; intro hc; exact absurd hc.symm c
        · exact h e' x
      · intro h e' he'
        exact h e' (by simp [he'])

theorem world_synced_iff' (w : World) (p : Nat) (hp : p < w.length) (hsy : (w.getD p default).isSynced = true)
    (rs : List (Nat × Nat × List Pair)) :
    ((w.resizes rs).getD p default).isSynced = true ↔
      ∀ e ∈ rs, e.1 = p → (w.getD p default).refers e.2.1 = false := by
  obtain ⟨h1, h2, h3, h4⟩ := resizes_rank rs w p hp
  rw [isSynced_iff] at hsy ⊢
  rw [h1, h2, h3, hsy.1, hsy.2]
  have hs := h4 (w.getD p default).srcObj
  have ht := h4 (w.getD p default).tgtObj
  constructor
  · rintro ⟨a, b⟩ e he hep
    have a' := hs.2.mp (by omega) e he hep
    have b' := ht.2.mp (by omega) e he hep
    simp only [RankW.refers, a', b', Bool.or_self]
  · intro h
    have a : ∀ e ∈ rs, e.1 = p → sameObj (w.getD p default).srcObj e.2.1 = false := fun e he hep => by
      have := h e he hep
      simp only [RankW.refers, Bool.or_eq_false_iff] at this
      exact this.1
    have b : ∀ e ∈ rs, e.1 = p → sameObj (w.getD p default).tgtObj e.2.1 = false := fun e he hep => by
      have := h e he hep
      simp only [RankW.refers, Bool.or_eq_false_iff] at this
      exact this.2
    have := hs.2.mpr a
    have := ht.2.mpr b
    constructor <;> omega

end DV.C04.F
