/-
C10 helper lemmas, part 7: `operator/=` and `operator%=` (repeated subtraction).  Core Lean only.
-/
import DuneVerif.Proofs.C10Arith
import DuneVerif.Proofs.C10Cmp

namespace DV.C10
open DV.C10.Gen

/-- The subtraction loop with more fuel than the quotient leaves through its `else` branch with quotient (added to
    the counter `r`, modulo W) and remainder.  The divisor must be non-zero: this is the guard the code needs. -/
theorem divLoop_spec {n : Nat} {x : List Nat} (hx : Wf n x) (hpos : 0 < val x) :
    ∀ (fuel : Nat) (a r : List Nat), Wf n a → Wf n r → val a / val x < fuel →
      Wf n (divLoop fuel a x r).1 ∧ Wf n (divLoop fuel a x r).2 ∧
      val (divLoop fuel a x r).1 = (val r + val a / val x) % W n ∧
      val (divLoop fuel a x r).2 = val a % val x
  | 0, _, _, _, _, h => absurd h (Nat.not_lt_zero _)
  | fuel + 1, a, r, ha, hr, h => by
    simp only [divLoop, ge_val' ha hx]
    by_cases hle : val x ≤ val a
    · simp only [hle, decide_true, if_true]
      have hs := sub_val_of_le ha hx hle
      have hq := Nat.div_eq_sub_div hpos hle
      obtain ⟨h1, h2, h3, h4⟩ := divLoop_spec hx hpos fuel (sub a x) (incr r) (sub_wf ha hx) (incr_wf hr)
        (by rw [hs]; omega)
      refine ⟨h1, h2, ?_, ?_⟩
      · rw [h3, incr_val' hr, hs, Nat.mod_add_mod, Nat.div_eq_sub_div hpos hle]
        congr 1; omega
      · rw [h4, hs, ← Nat.mod_eq_sub_mod hle]
    · simp only [hle, decide_false]
      have hlt : val a < val x := by omega
      refine ⟨hr, ha, ?_, ?_⟩
      · show val r = _
        rw [Nat.div_eq_of_lt hlt, Nat.add_zero, Nat.mod_eq_of_lt (val_lt hr)]
      · show val a = _
        rw [Nat.mod_eq_of_lt hlt]

theorem eq_zeros {n : Nat} {x : List Nat} (hx : Wf n x) : eq x (zeros x.length) = decide (val x = 0) := by
  have hz : Wf n (zeros x.length) := by rw [hx.1]; exact wf_zeros n
  rw [eq_val' hx hz, val_zeros]

theorem div_spec {n : Nat} {a x : List Nat} (ha : Wf n a) (hx : Wf n x) (h : val x ≠ 0) :
    ∃ q, div a x = .ok q ∧ Wf n q ∧ val q = val a / val x := by
  have hpos : 0 < val x := Nat.pos_of_ne_zero h
  have hz : Wf n (zeros a.length) := by rw [ha.1]; exact wf_zeros n
  obtain ⟨h1, _, h3, _⟩ := divLoop_spec hx hpos (val a / val x + 1) a (zeros a.length) ha hz (by omega)
  refine ⟨_, by simp [div, eq_zeros hx, h], h1, ?_⟩
  rw [h3, val_zeros, Nat.zero_add]
  exact Nat.mod_eq_of_lt (Nat.lt_of_le_of_lt (Nat.div_le_self _ _) (val_lt ha))

theorem mod_spec {n : Nat} {a x : List Nat} (ha : Wf n a) (hx : Wf n x) (h : val x ≠ 0) :
    ∃ r, mod a x = .ok r ∧ Wf n r ∧ val r = val a % val x := by
  have hpos : 0 < val x := Nat.pos_of_ne_zero h
  have hz : Wf n (zeros a.length) := by rw [ha.1]; exact wf_zeros n
  obtain ⟨_, h2, _, h4⟩ := divLoop_spec hx hpos (val a / val x + 1) a (zeros a.length) ha hz (by omega)
  exact ⟨_, by simp [mod, eq_zeros hx, h], h2, h4⟩

theorem div_zero' {n : Nat} {a x : List Nat} (hx : Wf n x) (h : val x = 0) : div a x = .mathError := by
  simp [div, eq_zeros hx, h]

theorem mod_zero' {n : Nat} {a x : List Nat} (hx : Wf n x) (h : val x = 0) : mod a x = .mathError := by
  simp [mod, eq_zeros hx, h]

/-- more fuel changes nothing: the loop has already left through `!(a >= x)` -/
theorem divLoop_fuel {n : Nat} {a x r : List Nat} (ha : Wf n a) (hx : Wf n x) (hr : Wf n r) (hpos : 0 < val x)
    {f1 f2 : Nat} (h1 : val a / val x < f1) (h2 : val a / val x < f2) : divLoop f1 a x r = divLoop f2 a x r := by
  obtain ⟨a1, a2, a3, a4⟩ := divLoop_spec hx hpos f1 a r ha hr h1
  obtain ⟨b1, b2, b3, b4⟩ := divLoop_spec hx hpos f2 a r ha hr h2
  exact Prod.ext (val_inj a1 b1 (by rw [a3, b3])) (val_inj a2 b2 (by rw [a4, b4]))

end DV.C10
