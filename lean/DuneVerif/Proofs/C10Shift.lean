/-
C10 helper lemmas, part 5: `operator<<` and `operator>>` (whole digits, then the bit remainder).  Core Lean only.
-/
import DuneVerif.Proofs.C10Basic

namespace DV.C10
open DV.C10.Gen

/-- `B = 2^j * 2^(bits-j)` for a bit remainder `j ≤ bits` -/
theorem B_split {j : Nat} (hj : j ≤ bits) : B = 2 ^ j * 2 ^ (bits - j) := by
  rw [B_def, ← Nat.pow_add]; congr 1; omega

theorem pow_shift (s : Nat) : W (s / bits) * 2 ^ (s % bits) = 2 ^ s := by
  rw [W_eq, ← Nat.pow_add, Nat.div_add_mod]

/-! ### operator<< : second pass -/

/-- one digit of the left-shift pass: written digit, carry into the next digit, carry bound -/
theorem shl_digit {j d cin : Nat} (hj : j ≤ bits) (hd : d < B) (hc : cin < 2 ^ j) :
    ((d <<< j) &&& bitmask) ||| cin = (d * 2 ^ j + cin) % B ∧
    (d <<< j) >>> bits = (d * 2 ^ j + cin) / B ∧
    (d <<< j) >>> bits < 2 ^ j := by
  have hB := B_split hj
  have hp : 0 < 2 ^ j := Nat.two_pow_pos j
  rw [and_bitmask, shr_bits, Nat.shiftLeft_eq]
  generalize 2 ^ (bits - j) = M at *
  have e1 : d * 2 ^ j % B = 2 ^ j * (d % M) := by
    rw [hB, Nat.mul_comm d, Nat.mul_mod_mul_left]
  have e2 : (d * 2 ^ j + cin) % B = 2 ^ j * (d % M) + cin := by
    rw [hB, Nat.mod_mul, Nat.mul_comm d, Nat.mul_add_mod, Nat.mod_eq_of_lt hc,
      Nat.mul_add_div hp, Nat.div_eq_of_lt hc, Nat.add_zero, Nat.add_comm]
  have e3 : (d * 2 ^ j + cin) / B = d / M := by
    rw [hB, ← Nat.div_div_eq_div_mul, Nat.mul_comm d, Nat.mul_add_div hp, Nat.div_eq_of_lt hc, Nat.add_zero]
  have e4 : d * 2 ^ j / B = d / M := by
    have := e3
    rw [hB, Nat.mul_comm d, Nat.mul_div_mul_left _ _ hp]
  refine ⟨?_, ?_, ?_⟩
  · rw [e1, e2, Nat.two_pow_add_eq_or_of_lt hc]
  · rw [e3, e4]
  · rw [e4]
    apply (Nat.div_lt_iff_lt_mul (by
      rcases Nat.eq_zero_or_pos M with h | h
      · rw [h, Nat.mul_zero] at hB; have := B_pos; omega
      · exact h)).2
    rw [← hB]; exact hd

theorem shlBits_length (j : Nat) : ∀ (l : List Nat) (cin : Nat), (shlBits j l cin).length = l.length
  | [], _ => rfl
  | d :: ds, cin => by simp only [shlBits, List.length_cons]; rw [shlBits_length j ds]

theorem shlBits_spec {j : Nat} (hj : j ≤ bits) : ∀ (l : List Nat) (cin : Nat), Digs l → cin < 2 ^ j →
    Digs (shlBits j l cin) ∧ val (shlBits j l cin) = (val l * 2 ^ j + cin) % W l.length
  | [], cin, _, _ => by simp [shlBits, W, Nat.mod_one]
  | d :: ds, cin, hl, hc => by
    rw [digs_cons] at hl
    obtain ⟨e1, e2, e3⟩ := shl_digit hj hl.1 hc
    simp only [shlBits, digs_cons, val_cons, List.length_cons, W_succ]
    rw [e1, e2]
    rw [e2] at e3
    obtain ⟨ih1, ih2⟩ := shlBits_spec hj ds _ hl.2 e3
    rw [ih2]
    refine ⟨⟨Nat.mod_lt _ B_pos, ih1⟩, ?_⟩
    have e : (d + B * val ds) * 2 ^ j + cin = (d * 2 ^ j + cin) + B * (val ds * 2 ^ j) := by
      rw [Nat.add_mul, Nat.mul_assoc]; omega
    rw [e, digit_step, Nat.add_comm (val ds * 2 ^ j)]

/-! ### operator<< -/

theorem shl_spec {n : Nat} {a : List Nat} (ha : Wf n a) {s : Nat} (hs : s < bits * n) :
    Wf n (shl a s) ∧ val (shl a s) = (val a * 2 ^ s) % W n := by
  have hj : s / bits < n := (Nat.div_lt_iff_lt_mul bits_pos).2 (by rw [Nat.mul_comm]; exact hs)
  have hr : s % bits ≤ bits := Nat.le_of_lt (Nat.mod_lt _ bits_pos)
  have hpow := pow_shift s
  simp only [shl, ha.1]
  generalize s / bits = q at *
  generalize s % bits = r at *
  have hmin : min q n = q := Nat.min_eq_left (Nat.le_of_lt hj)
  have hlen : (zeros (min q n) ++ a.take (n - q)).length = n := by
    rw [List.length_append, List.length_take, ha.1, hmin]
    simp only [zeros, List.length_replicate]; omega
  have hdigs : Digs (zeros (min q n) ++ a.take (n - q)) :=
    digs_append.2 ⟨digs_zeros _, digs_take ha.2 _⟩
  obtain ⟨h1, h2⟩ := shlBits_spec hr _ 0 hdigs (Nat.two_pow_pos _)
  have hmoved : val (zeros (min q n) ++ a.take (n - q)) = (val a * W q) % W n := by
    rw [val_append, val_zeros, Nat.zero_add, val_take ha.2 (by rw [ha.1]; omega), hmin]
    simp only [zeros, List.length_replicate]
    have : W n = W q * W (n - q) := by rw [← W_add]; congr 1; omega
    rw [this, Nat.mul_comm (val a), Nat.mul_mod_mul_left]
  refine ⟨⟨by rw [shlBits_length, hlen], h1⟩, ?_⟩
  rw [h2, hlen, hmoved, Nat.add_zero, Nat.mod_mul_mod, Nat.mul_assoc, hpow]

/-! ### operator>> : second pass -/

/-- one digit of the right-shift pass (`e` is the next higher digit, 0 above the top) -/
theorem shr_digit {j d e : Nat} (hj : j ≤ bits) (hd : d < B) :
    (((d <<< (bits - j)) &&& compbitmask) >>> bits) ||| ((e <<< (bits - j)) &&& bitmask)
      = d / 2 ^ j + 2 ^ (bits - j) * (e % 2 ^ j) ∧
    d / 2 ^ j + 2 ^ (bits - j) * (e % 2 ^ j) < B := by
  have hB := B_split hj
  have hp : 0 < 2 ^ (bits - j) := Nat.two_pow_pos _
  have hpj : 0 < 2 ^ j := Nat.two_pow_pos _
  have e1 : ((d <<< (bits - j)) &&& compbitmask) >>> bits = d / 2 ^ j := by
    have : d * 2 ^ (bits - j) / B = d / 2 ^ j := by
      rw [hB, Nat.mul_div_mul_right _ _ hp]
    have hlt : (d <<< (bits - j)) >>> bits < B := by
      rw [shr_bits, Nat.shiftLeft_eq, this]
      exact Nat.lt_of_le_of_lt (Nat.div_le_self _ _) hd
    rw [and_compbitmask_shr hlt, shr_bits, Nat.shiftLeft_eq, this]
  have e2 : (e <<< (bits - j)) &&& bitmask = 2 ^ (bits - j) * (e % 2 ^ j) := by
    rw [and_bitmask, Nat.shiftLeft_eq, hB, Nat.mul_comm (2 ^ j), Nat.mul_comm e, Nat.mul_mod_mul_left]
  have e3 : d / 2 ^ j < 2 ^ (bits - j) := by
    apply (Nat.div_lt_iff_lt_mul hpj).2
    rw [Nat.mul_comm, ← hB]; exact hd
  rw [e1, e2, Nat.or_comm, ← Nat.two_pow_add_eq_or_of_lt e3, Nat.add_comm]
  refine ⟨rfl, ?_⟩
  have h1 : e % 2 ^ j + 1 ≤ 2 ^ j := Nat.mod_lt _ hpj
  have h2 := Nat.mul_le_mul_left (2 ^ (bits - j)) h1
  rw [Nat.mul_add, Nat.mul_one, Nat.mul_comm _ (2 ^ j), ← hB] at h2
  omega

theorem shrBits_length (j : Nat) : ∀ (l : List Nat), (shrBits j l).length = l.length
  | [] => rfl
  | d :: ds => by simp only [shrBits, List.length_cons]; rw [shrBits_length j ds]

theorem val_mod_low {j : Nat} (hj : j ≤ bits) (e v : Nat) : (e + B * v) % 2 ^ j = e % 2 ^ j := by
  rw [B_split hj, Nat.mul_assoc, Nat.add_mul_mod_self_left]

theorem shrBits_spec {j : Nat} (hj : j ≤ bits) : ∀ (l : List Nat), Digs l →
    Digs (shrBits j l) ∧ val (shrBits j l) = val l / 2 ^ j
  | [], _ => by simp [shrBits]
  | d :: ds, hl => by
    rw [digs_cons] at hl
    obtain ⟨ih1, ih2⟩ := shrBits_spec hj ds hl.2
    have hpj : 0 < 2 ^ j := Nat.two_pow_pos _
    -- the low bits handed down from the next digit are the low bits of the rest's value
    have key : ∀ e, e % 2 ^ j = val ds % 2 ^ j →
        d / 2 ^ j + 2 ^ (bits - j) * (e % 2 ^ j) + B * (val ds / 2 ^ j) = (d + B * val ds) / 2 ^ j := by
      intro e he
      have hB := B_split hj
      rw [he]
      have h1 : B * val ds = 2 ^ j * (2 ^ (bits - j) * val ds) := by rw [hB, Nat.mul_assoc]
      rw [h1, Nat.add_mul_div_left _ _ hpj]
      have h2 : val ds = val ds % 2 ^ j + 2 ^ j * (val ds / 2 ^ j) := (Nat.mod_add_div _ _).symm
      have h3 : 2 ^ (bits - j) * val ds
          = 2 ^ (bits - j) * (val ds % 2 ^ j) + B * (val ds / 2 ^ j) := by
        rw [hB, Nat.mul_comm (2 ^ j) (2 ^ (bits - j)), Nat.mul_assoc, ← Nat.mul_add, ← h2]
      rw [h3, Nat.add_assoc]
    match ds, hl, ih1, ih2, key with
    | [], hl, ih1, ih2, key =>
      have := shr_digit (e := 0) hj hl.1
      simp only [Nat.zero_shiftLeft, Nat.zero_and] at this
      simp only [shrBits, digs_cons, val_cons, val_nil]
      rw [this.1]
      refine ⟨⟨this.2, by simp⟩, ?_⟩
      simp
    | e :: es, hl, ih1, ih2, key =>
      have h := shr_digit (e := e) hj hl.1
      have hk := key e (by rw [val_cons, val_mod_low hj])
      simp only [shrBits, digs_cons, val_cons] at ih1 ih2 hk ⊢
      rw [h.1]
      refine ⟨⟨h.2, ih1⟩, ?_⟩
      rw [ih2]; exact hk

/-! ### operator>> -/

theorem shr_spec {n : Nat} {a : List Nat} (ha : Wf n a) (s : Nat) :
    Wf n (shr a s) ∧ val (shr a s) = val a / 2 ^ s := by
  have hr : s % bits ≤ bits := Nat.le_of_lt (Nat.mod_lt _ bits_pos)
  have hlen : (a.drop (s / bits) ++ zeros (min (s / bits) n)).length = n := by
    rw [List.length_append, List.length_drop, ha.1]
    simp only [zeros, List.length_replicate]; omega
  have hdigs : Digs (a.drop (s / bits) ++ zeros (min (s / bits) n)) :=
    digs_append.2 ⟨digs_drop ha.2 _, digs_zeros _⟩
  obtain ⟨h1, h2⟩ := shrBits_spec hr _ hdigs
  simp only [shr, ha.1]
  refine ⟨⟨by rw [shrBits_length, hlen], h1⟩, ?_⟩
  rw [h2, val_append, val_zeros, Nat.mul_zero, Nat.add_zero, val_drop ha.2, Nat.div_div_eq_div_mul, pow_shift]

end DV.C10
