import DuneVerif.Proofs.C13Consistent
/-! C13, level 5: post-condition and monotonicity per rank; deleting copies from the consistent state and syncing. -/
namespace DV.C13

/-- the property's first sentence for one believed copy -/
theorem postcondition_rank {D : Decomp} {w : World} (num : Int → Nat) (hw : PartialView D w)
    (p q : Nat) (sp : RankState) (hp : w[p]? = some sp) (en : RemEntry) (hen : en ∈ listOf sp.remote q) :
    ∃ sq', (sync num w)[q]? = some sq' ∧
      hasKey sq'.idx en.g en.rem = true ∧
      (⟨en.g, en.rem, en.own⟩ : RemEntry) ∈ listOf sq'.remote p ∧
      ∀ r er, r ≠ q → er ∈ listOf sp.remote r → er.g = en.g → (⟨en.g, en.rem, er.rem⟩ : RemEntry) ∈ listOf sq'.remote r := by
  have hI := hw p sp hp
  obtain ⟨l, hl, _⟩ := mem_of_mem_listOf sp.remote q en hen
  have hq : q < w.length := (hI.rem.nbOk _ hl).2.1
  have hsq : w[q]? = some w[q] := List.getElem?_eq_getElem hq
  have hIq := hw q _ hsq
  refine ⟨syncRank num w q w[q], by rw [sync_getElem?, hsq]; rfl, ?_⟩
  obtain ⟨hmem, hlook⟩ := item_in_inbox hw p q sp hp en hen
  rw [(syncRank_idx num w q w[q]).1, (syncRank_idx num w q w[q]).2]
  refine ⟨?_, ?_, ?_⟩
  · rw [hasKey_recvFlat]
    right
    exact ⟨_, hmem, rfl, hlook⟩
  · rw [mem_listOf_recvFlat _ _ _ _ _ _ hIq.rem.nbSorted]
    right
    exact ⟨_, hmem, rfl, hlook, Or.inl ⟨rfl, rfl⟩⟩
  · intro r er hr her hg
    rw [mem_listOf_recvFlat _ _ _ _ _ _ hIq.rem.nbSorted]
    right
    refine ⟨_, hmem, rfl, hlook, Or.inr ⟨hr, ?_⟩⟩
    have := mem_holders_of_mem hI.rem r er her
    rw [hg] at this
    exact this

/-- nothing known before is lost -/
theorem monotone_rank {D : Decomp} {w : World} (num : Int → Nat) (hw : PartialView D w)
    (q : Nat) (sq : RankState) (hq : w[q]? = some sq) :
    ∃ sq', (sync num w)[q]? = some sq' ∧
      (∀ e ∈ sq.idx, e ∈ sq'.idx) ∧
      (∀ x, isNeighbour sq.remote x = true → isNeighbour sq'.remote x = true) ∧
      (∀ x en, en ∈ listOf sq.remote x → en ∈ listOf sq'.remote x) := by
  refine ⟨syncRank num w q sq, by rw [sync_getElem?, hq]; rfl, ?_⟩
  rw [(syncRank_idx num w q sq).1, (syncRank_idx num w q sq).2]
  refine ⟨?_, ?_, ?_⟩
  · intro e he
    rw [mem_idx_recvFlat]; left; exact he
  · intro x hx
    rw [isNeighbour_recvFlat]; left; exact hx
  · intro x en hen
    rw [mem_listOf_recvFlat _ _ _ _ _ _ (hw q sq hq).rem.nbSorted]; left; exact hen

/-- where a told item comes from: a remote index in the sender's list for the receiver -/
theorem told_origin {D : Decomp} {w : World} (hw : PartialView D w) (q : Nat) (x : Nat × Item)
    (hx : x ∈ flatMsgs (inbox w q)) (a : Nat) (ha : x.2.pairs.lookup q = some a) :
    ∃ (sp : RankState) (enq : RemEntry), w[x.1]? = some sp ∧ enq ∈ listOf sp.remote q ∧ enq.g = x.2.g ∧ enq.rem = a ∧ enq.own = x.2.srcAttr ∧
      ∀ y ya, (y, ya) ∈ x.2.pairs → ∃ er, er ∈ listOf sp.remote y ∧ er.g = x.2.g ∧ er.rem = ya := by
  obtain ⟨m, hm, h1, h2⟩ := (mem_flatMsgs _ x).1 hx
  obtain ⟨sp, hsp, _, hit⟩ := (mem_inbox w q m).1 hm
  rw [h1] at hsp
  rw [hit] at h2
  obtain ⟨e, he, hx2, _⟩ := (mem_itemsFor sp q x.2).1 h2
  have hI := hw _ sp hsp
  have hall : ∀ y ya, (y, ya) ∈ x.2.pairs → ∃ er, er ∈ listOf sp.remote y ∧ er.g = x.2.g ∧ er.rem = ya := by
    intro y ya hy
    rw [hx2] at hy
    obtain ⟨l, er, h3, h4, h5⟩ := (mem_holders sp.remote e.g y ya).1 hy
    refine ⟨er, ?_, ?_, h5⟩
    · rw [listOf_of_mem _ hI.rem.nbSorted y l h3]
      exact List.mem_of_find?_eq_some h4
    · have := List.find?_some h4
      rw [hx2]
      simpa using this
  obtain ⟨enq, h3, h4, h5⟩ := hall q a (lookup_mem q a _ ha)
  refine ⟨sp, enq, hsp, h3, h4, h5, ?_, hall⟩
  -- the own attribute of the entry is the attribute of the sender's pair
  have ht := hI.rem.listOf_true q enq h3
  have : D.attrOf x.1 enq.g = some e.attr := by
    have := hI.idxTrue e he
    rw [h4, hx2]
    exact this
  have h6 := attr_unique_of_hasKey D x.1 sp.idx hI.idxTrue enq.g enq.own e.attr ht.2 this
  rw [h6, hx2]

/-- nothing is invented -/
theorem exact_rank {D : Decomp} {w : World} (num : Int → Nat) (hw : PartialView D w)
    (q : Nat) (sq sq' : RankState) (hq : w[q]? = some sq) (hq' : (sync num w)[q]? = some sq') :
    (∀ e ∈ sq'.idx, e ∈ sq.idx ∨
      (e.loc = num e.g ∧ ∃ (p : Nat) (sp : RankState) (enq : RemEntry), w[p]? = some sp ∧ enq ∈ listOf sp.remote q ∧ enq.g = e.g ∧ enq.rem = e.attr)) ∧
    (∀ x en, en ∈ listOf sq'.remote x → en ∈ listOf sq.remote x ∨
      ∃ (p : Nat) (sp : RankState) (enq : RemEntry), w[p]? = some sp ∧ enq ∈ listOf sp.remote q ∧ enq.g = en.g ∧ enq.rem = en.own ∧
        ((x = p ∧ en.rem = enq.own) ∨ (x ≠ q ∧ ∃ er, er ∈ listOf sp.remote x ∧ er.g = en.g ∧ er.rem = en.rem))) := by
  rw [sync_getElem?, hq] at hq'
  simp only [Option.map_some, Option.some.injEq] at hq'
  subst hq'
  rw [(syncRank_idx num w q sq).1, (syncRank_idx num w q sq).2]
  refine ⟨fun e he => ?_, fun x en hen => ?_⟩
  · rw [mem_idx_recvFlat] at he
    rcases he with h | ⟨⟨y, hy, h1, h2⟩, h3, _⟩
    · exact Or.inl h
    · right
      obtain ⟨sp, enq, h4, h5, h6, h7, _, _⟩ := told_origin hw q y hy e.attr h2
      exact ⟨h3, y.1, sp, enq, h4, h5, by rw [h6, h1], h7⟩
  · rw [mem_listOf_recvFlat _ _ _ _ _ _ (hw q sq hq).rem.nbSorted] at hen
    rcases hen with h | ⟨y, hy, h1, h2, h3⟩
    · exact Or.inl h
    · right
      obtain ⟨sp, enq, h4, h5, h6, h7, h8, h9⟩ := told_origin hw q y hy en.own h2
      refine ⟨y.1, sp, enq, h4, h5, by rw [h6, h1], h7, ?_⟩
      rcases h3 with ⟨h10, h11⟩ | ⟨h10, h11⟩
      · left; exact ⟨h10, by rw [h11, h8]⟩
      · right
        obtain ⟨er, h12, h13, h14⟩ := h9 x en.rem h11
        exact ⟨h10, er, h12, by rw [h13, h1], h14⟩

/-! ### restoring deleted copies -/

theorem listOf_deleteRank (del : Int → Bool) (st : RankState) (x : Nat) :
    listOf (deleteRank del st).remote x = (listOf st.remote x).filter (fun en => !del en.g) := by
  simp only [deleteRank]
  exact listOf_map_filter _ _ _

theorem isNeighbour_deleteRank (del : Int → Bool) (st : RankState) (x : Nat) :
    isNeighbour (deleteRank del st).remote x = isNeighbour st.remote x := by
  simp only [deleteRank]
  exact isNeighbour_map_filter _ _ _

/-- a process that keeps its copy of `g` still lists every other holder of `g` -/
theorem survivor_lists {D : Decomp} (hD : DecompWF D) (del : Nat → Int → Bool) (r x : Nat) (g : Int) (ar ax : Nat)
    (hr : r < D.length) (hx : x < D.length) (hrx : x ≠ r)
    (har : D.attrOf r g = some ar) (hax : D.attrOf x g = some ax) (hdel : del r g = false) :
    ∃ sr, (deleteCopies del (consistent D))[r]? = some sr ∧ (⟨g, ar, ax⟩ : RemEntry) ∈ listOf sr.remote x := by
  refine ⟨deleteRank (del r) (consistentRank D r (D.slice r)), ?_, ?_⟩
  · rw [deleteCopies_getElem?, consistent_getElem?, slice_eq_of_lt D r hr]
    rfl
  · rw [listOf_deleteRank, listOf_consistentRank D r _ x hx hrx, List.mem_filter]
    refine ⟨(mem_interList _ _ _).2 ⟨(attrOf_iff hD r g ar).1 har, hax⟩, ?_⟩
    simp [hdel]

/-- the state of one rank after deleting copies from the consistent state and syncing: index set (global, attribute)
and remote index lists are those of the consistent state -/
theorem restore_rank {D : Decomp} (hD : DecompWF D) (num : Int → Nat) (del : Nat → Int → Bool)
    (hsurv : ∀ p g, del p g = true → (D.attrOf p g).isSome = true →
      ∃ r, r ≠ p ∧ r < D.length ∧ (D.attrOf r g).isSome = true ∧ del r g = false)
    (q : Nat) (hq : q < D.length) :
    ∃ s', (sync num (deleteCopies del (consistent D)))[q]? = some s' ∧
      s'.idx.map (fun e => (e.g, e.attr)) = D.slice q ∧
      s'.remote = (consistentRank D q (D.slice q)).remote := by
  have hw0 := partialView_consistent hD
  have hw1 : PartialView D (deleteCopies del (consistent D)) := partialView_delete hw0 del
  have hw2 := partialView_sync num hw1
  have hlen1 : (deleteCopies del (consistent D)).length = D.length := by simp [deleteCopies, consistent]
  have hlen2 : (sync num (deleteCopies del (consistent D))).length = D.length := by simp [sync, hlen1]
  let s0 := consistentRank D q (D.slice q)
  have hs1 : (deleteCopies del (consistent D))[q]? = some (deleteRank (del q) s0) := by
    rw [deleteCopies_getElem?, consistent_getElem?, slice_eq_of_lt D q hq]; rfl
  obtain ⟨s', hs', hmIdx, hmNb, hmRem⟩ := monotone_rank num hw1 q _ hs1
  have hI' : RankInv D D.length q s' := by have := hw2 q s' hs'; rwa [hlen2] at this
  have hI0 : RankInv D D.length q s0 := rankInv_consistent hD q
  -- what a survivor of g makes true at q
  have hrestore : ∀ g a, D.attrOf q g = some a → del q g = true →
      hasKey s'.idx g a = true ∧
      ∀ x ax, x ≠ q → x < D.length → D.attrOf x g = some ax → (⟨g, a, ax⟩ : RemEntry) ∈ listOf s'.remote x := by
    intro g a hqa hdel
    obtain ⟨r, hrq, hr, hra, hrdel⟩ := hsurv q g hdel (by rw [hqa]; rfl)
    obtain ⟨ar, har⟩ := Option.isSome_iff_exists.1 hra
    obtain ⟨sr, hsr, hen⟩ := survivor_lists hD del r q g ar a hr hq (Ne.symm hrq) har hqa hrdel
    obtain ⟨sq', hsq', h1, h2, h3⟩ := postcondition_rank num hw1 r q sr hsr _ hen
    rw [hs'] at hsq'
    simp only [Option.some.injEq] at hsq'
    subst hsq'
    refine ⟨h1, ?_⟩
    intro x ax hxq hx hxa
    by_cases hxr : x = r
    · subst hxr
      rw [har] at hxa
      simp only [Option.some.injEq] at hxa
      subst hxa
      exact h2
    · obtain ⟨sr2, hsr2, hen2⟩ := survivor_lists hD del r x g ar ax hr hx hxr har hxa hrdel
      rw [hsr] at hsr2
      simp only [Option.some.injEq] at hsr2
      subst hsr2
      exact h3 x _ hxq hen2 rfl
  refine ⟨s', hs', ?_, ?_⟩
  · -- index set
    apply pairwise_ext (fun a b : Int × Nat => a.1 < b.1) (fun a => Int.lt_irrefl _) (fun a b h => Int.lt_asymm h)
      _ _ (List.Pairwise.map _ (fun a b h => h) hI'.idxSorted) (hD.slice q)
    intro ⟨g, a⟩
    constructor
    · intro h
      rw [List.mem_map] at h
      obtain ⟨e, he, h1⟩ := h
      simp only [Prod.mk.injEq] at h1
      have := hI'.idxTrue e he
      rw [h1.1, h1.2] at this
      exact (attrOf_iff hD q g a).1 this
    · intro h
      have hqa := (attrOf_iff hD q g a).2 h
      have hk : hasKey s'.idx g a = true := by
        cases hdel : del q g
        · obtain ⟨e, he, h1, h2⟩ := (hasKey_iff _ _ _).1 ((hasKey_numberFrom g a 0 _).2 h)
          rw [hasKey_iff]
          refine ⟨e, hmIdx e ?_, h1, h2⟩
          simp only [deleteRank, List.mem_filter]
          refine ⟨he, ?_⟩
          rw [h1, hdel]; rfl
        · exact (hrestore g a hqa hdel).1
      obtain ⟨e, he, h1, h2⟩ := (hasKey_iff _ _ _).1 hk
      rw [List.mem_map]
      exact ⟨e, he, by rw [h1, h2]⟩
  · -- remote index lists
    apply remote_ext _ _ hI'.rem.nbSorted hI0.rem.nbSorted
    · intro x
      constructor
      · intro hx
        -- a neighbour after the sync shares an index with q in D
        obtain ⟨l, hl⟩ := (isNeighbour_iff _ _).1 hx
        have hok := hI'.rem.nbOk _ hl
        have hx' : isNeighbour (syncRank num (deleteCopies del (consistent D)) q (deleteRank (del q) s0)).remote x = true := by
          have : s' = syncRank num (deleteCopies del (consistent D)) q (deleteRank (del q) s0) := by
            rw [sync_getElem?, hs1] at hs'
            simp only [Option.map_some, Option.some.injEq] at hs'
            exact hs'.symm
          rw [← this]; exact hx
        rw [(syncRank_idx num _ q _).2, isNeighbour_recvFlat] at hx'
        rcases hx' with h1 | ⟨y, hy, ⟨b, hb⟩, h2⟩
        · rw [isNeighbour_deleteRank] at h1; exact h1
        · have ht := trueItems_inbox hw1 q y hy
          rw [hlen1] at ht
          have hqb : D.attrOf q y.2.g = some b := (ht.pairsTrue _ (lookup_mem q b _ hb)).1
          have hshare : ∃ ax, D.attrOf x y.2.g = some ax := by
            rcases h2 with h2 | ⟨_, xa, h2⟩
            · exact ⟨_, h2 ▸ ht.srcTrue⟩
            · exact ⟨xa, (ht.pairsTrue _ h2).1⟩
          obtain ⟨ax, hax⟩ := hshare
          rw [isNeighbour_iff]
          refine ⟨interList (D.slice q) (D.slice x), (mem_remote_consistentRank D q _ x _).2 ⟨hok.2.1, hok.1, rfl, ?_⟩⟩
          intro hc
          have : (⟨y.2.g, b, ax⟩ : RemEntry) ∈ interList (D.slice q) (D.slice x) :=
            (mem_interList _ _ _).2 ⟨(attrOf_iff hD q _ b).1 hqb, hax⟩
          rw [hc] at this
          simp at this
      · intro hx
        apply hmNb
        rw [isNeighbour_deleteRank]
        exact hx
    · intro x
      apply pairwise_ext (fun a b : RemEntry => a.g < b.g) (fun a => Int.lt_irrefl _) (fun a b h => Int.lt_asymm h)
        _ _ (hI'.rem.listOf_pairwise x) (hI0.rem.listOf_pairwise x)
      intro en
      constructor
      · intro hen
        obtain ⟨l, hl, _⟩ := mem_of_mem_listOf _ x en hen
        have hok := hI'.rem.nbOk _ hl
        have ht := hI'.rem.listOf_true x en hen
        obtain ⟨e, he, h1, h2⟩ := (hasKey_iff _ _ _).1 ht.2
        have hqo : D.attrOf q en.g = some en.own := by
          have := hI'.idxTrue e he
          rw [h1, h2] at this
          exact this
        rw [listOf_consistentRank D q _ x hok.2.1 hok.1]
        exact (mem_interList _ _ en).2 ⟨(attrOf_iff hD q _ _).1 hqo, ht.1⟩
      · intro hen
        obtain ⟨l, hl, _⟩ := mem_of_mem_listOf _ x en hen
        obtain ⟨hx, hxq, _, _⟩ := (mem_remote_consistentRank D q _ x l).1 hl
        rw [listOf_consistentRank D q _ x hx hxq] at hen
        obtain ⟨h1, h2⟩ := (mem_interList _ _ en).1 hen
        cases hdel : del q en.g
        · apply hmRem
          rw [listOf_deleteRank, listOf_consistentRank D q _ x hx hxq, List.mem_filter]
          exact ⟨hen, by simp [hdel]⟩
        · have := (hrestore en.g en.own ((attrOf_iff hD q _ _).2 h1) hdel).2 x en.rem hxq hx h2
          exact this

end DV.C13
