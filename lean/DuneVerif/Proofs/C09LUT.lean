import DuneVerif.Model.C09LUT
import DuneVerif.Proofs.C09LU
import DuneVerif.Proofs.C09X
import DuneVerif.Proofs.C09Chk
/-!
# C09 (round 4) — the translated control table of `luDecomposition`

`Model/C09LUT.lean` executes `luDecomposition`, `ElimDet::swap`, `ElimPivot::swap` and the LU branches of `determinant`,
`solve`, `invert` from the table `Gen.luCtl` the translator reads off densematrix.hh.  Here: for the canonical table these are the
hand-written algorithms of `Model/C09LU.lean` (so every theorem proved about those transfers), and the LU factors themselves
(not only determinant / solution / inverse) are lane-wise.
-/
namespace DV.C09
open Gen

theorem inRange_one_zero {n : Nat} (i k : Fin n) : (inRange 1 0 i k = true) ↔ i < k := by
  simp only [inRange, decide_eq_true_eq, Fin.lt_def]
  have := k.isLt
  omega

section Canon
variable {V : Type → Type} {L : Nat} (X : SimdLike V L) {K : Type} (R : Arith K) {n : Nat}

theorem cmpK_gt : cmpK R .gt = fun x y => R.lt y x := rfl
theorem cmpK_ne : cmpK R .ne = fun x y => !(R.beq x y) := rfl
theorem cmpIdx_eq : (cmpIdx .eq : Fin n → Fin n → Bool) = fun a b => decide (a = b) := rfl
theorem boolOpB_land : boolOpB .land = fun x y => x && y := rfl

theorem pivotSearchT_canonical (A : Mat (V K) n) (i : Fin n) :
    pivotSearchT X R luCtlCanonical A i = pivotSearch X R A i := by
  simp [pivotSearchT, pivotSearch, luCtlCanonical, inRange_one_zero, cmpK_gt, vgt]

variable {Aux : Type} (F : ElimFunc (V := V) (K := K) (n := n) Aux)

theorem eliminateT_canonical (A : Mat (V K) n) (aux : Aux) (i : Fin n) :
    eliminateT X R luCtlCanonical F A aux i = eliminate X R F A aux i := by
  simp [eliminateT, eliminate, luCtlCanonical, inRange_one_zero]

theorem luPreT_canonical (piv : Bool) (st : LUState (V := V) (K := K) (n := n) Aux) (i : Fin n) :
    luPreT X R luCtlCanonical F piv st i = luPre X R F piv st i := by
  simp only [luPreT, luPre, pivotSearchT_canonical]
  simp [luCtlCanonical, cmpK_ne, boolOpB_land, vand, vne]

theorem luElimT_canonical (st : LUState (V := V) (K := K) (n := n) Aux) (i : Fin n) :
    luElimT X R luCtlCanonical F st i = luElim X R F st i := by
  simp only [luElimT, luElim, eliminateT_canonical]

theorem luLoopT_canonical (te piv : Bool) : ∀ (is : List (Fin n)) (st : LUState (V := V) (K := K) (n := n) Aux),
    luLoopT X R luCtlCanonical F te piv is st = luLoop X R F te piv is st := by
  intro is
  induction is with
  | nil => intro st; rfl
  | cons i is ih =>
    intro st
    simp only [luLoopT, luLoop, luPreT_canonical, luElimT_canonical, ih]
    simp [redTest, reduceMask, luCtlCanonical]

theorem luDecompT_canonical (te piv : Bool) (A : Mat (V K) n) (aux : Aux) :
    luDecompT X R luCtlCanonical F te piv A aux = luDecomp X R F te piv A aux := by
  simp only [luDecompT, luDecomp, luLoopT_canonical]

theorem elimDetT_canonical : elimDetT X R luCtlCanonical (n := n) = elimDet X R := by
  simp [elimDetT, elimDet, luCtlCanonical, cmpIdx_eq, signK]

theorem elimPivotT_canonical : elimPivotT X (K := K) luCtlCanonical (n := n) = elimPivot X := by
  simp [elimPivotT, elimPivot, luCtlCanonical, cmpIdx_eq]

/-- with the canonical table the translated-control determinant is the hand-written one (and never throws) -/
theorem determinantT_canonical (piv : Bool) (A : Mat (V K) n) :
    determinantT X R luCtlCanonical piv A = some (determinant X R piv A) := by
  unfold determinantT
  by_cases h : n ≤ 3
  · simp [h]
  · rw [if_neg h]
    have h1 : ¬ n = 1 := by omega
    have h2 : ¬ n = 2 := by omega
    have h3 : ¬ n = 3 := by omega
    have hs := luDecomp_false_isSome X R (elimDet X R) piv A (X.bcast R.one)
    unfold determinant
    simp only [dif_neg h1, dif_neg h2, dif_neg h3]
    rw [show luCtlCanonical.detThrowEarly = false from rfl, luDecompT_canonical, elimDetT_canonical]
    cases hr : luDecomp X R (elimDet X R) false piv A (X.bcast R.one) with
    | none => rw [hr] at hs; cases hs
    | some st => simp [luCtlCanonical]

theorem solveT_canonical (piv : Bool) (A : Mat (V K) n) (b : Vector (V K) n) :
    solveT X R luCtlCanonical piv A b = solve X R piv A b := by
  unfold solveT
  by_cases h : n ≤ 3
  · simp [h]
  · rw [if_neg h]
    have h1 : ¬ n = 1 := by omega
    have h2 : ¬ n = 2 := by omega
    have h3 : ¬ n = 3 := by omega
    unfold solve
    simp only [dif_neg h1, dif_neg h2, dif_neg h3]
    rw [show luCtlCanonical.solveThrowEarly = true from rfl, luDecompT_canonical]
    generalize luDecomp X R (elimRhs X R) true piv A b = r
    cases r <;> rfl

theorem invertT_canonical (piv : Bool) (A : Mat (V K) n) :
    invertT X R luCtlCanonical piv A = invert X R piv A := by
  unfold invertT
  by_cases h : n ≤ 3
  · simp [h]
  · rw [if_neg h]
    have h1 : ¬ n = 1 := by omega
    have h2 : ¬ n = 2 := by omega
    have h3 : ¬ n = 3 := by omega
    unfold invert
    simp only [dif_neg h1, dif_neg h2, dif_neg h3]
    rw [show luCtlCanonical.invertThrowEarly = true from rfl, luDecompT_canonical, elimPivotT_canonical]
    generalize luDecomp X R (elimPivot X (K := K)) true piv A (Vector.ofFn fun i => X.bcast i) = r
    cases r <;> rfl

theorem solveCT_canonical (chk : Option (CmpOpName → K → Bool)) (piv : Bool) (A : Mat (V K) n) (b : Vector (V K) n) :
    solveCT X R luCtlCanonical chk piv A b = solveC X R chk piv A b := by
  simp only [solveCT, solveC, solveT_canonical]

theorem invertCT_canonical (chk : Option (CmpOpName → K → Bool)) (piv : Bool) (A : Mat (V K) n) :
    invertCT X R luCtlCanonical chk piv A = invertC X R chk piv A := by
  simp only [invertCT, invertC, invertT_canonical]

end Canon

-- the LU factors themselves are lane-wise ------------------------------------------------------------------------------------

section Factors
variable {V : Type → Type} {L : Nat} (X : SimdLike V L) (hX : X.Lawful) {K : Type} (R : Arith K) {n : Nat}

include hX in
/-- `luDecomposition(A, ElimPivot(pivot), …, throwEarly = true, …)` (the mode of `invert`): if the SIMD decomposition succeeds, the
    scalar decomposition of every lane's matrix succeeds and its factors `L\U`, its recorded pivot rows and its flag are that lane
    of the SIMD factors, pivot rows and mask -/
theorem luFactors_throwEarly (piv : Bool) (A : Mat (V K) n) (st : LUState (V := V) (K := K) (n := n) (Vector (V (Fin n)) n))
    (h : luDecomp X R (elimPivot X (K := K)) true piv A (Vector.ofFn fun i => X.bcast i) = some st) (l : Fin L) :
    luDecomp (V := fun α => α) Xs R (elimPivot (V := fun α => α) Xs (K := K)) true piv (laneMat X l A) (Vector.ofFn fun i => i) =
      some { A := laneMat X l st.A, aux := st.aux.map (X.lane l), ns := X.lane l st.ns } := by
  have hs := luLoop_throw_some X hX R (elimPivot X (K := K)) (elimPivot (V := fun α => α) Xs (K := K))
    (fun l p => p.map (X.lane l)) (fun l => elimPivot_hom X hX l) piv _ _ _ h l
  have e : projState X l (fun p => Vector.map (X.lane l) p)
      ({ A := A, aux := Vector.ofFn fun i => X.bcast i, ns := X.bcast true } :
        LUState (V := V) (K := K) (n := n) (Vector (V (Fin n)) n)) =
      ({ A := laneMat X l A, aux := Vector.ofFn fun i => i, ns := true } :
        LUState (V := fun α => α) (K := K) (n := n) (Vector (Fin n) n)) := by
    simp only [projState, hX.lane_bcast]
    congr 1
    ext i hi
    simp [hX.lane_bcast]
  unfold luDecomp
  rw [e] at hs
  exact hs

include hX in
/-- `luDecomposition(A, ElimDet(sign), …, throwEarly = false, …)` (the mode of `determinant`): both runs return; lane `l` of the
    final mask is the scalar run's flag — **whatever happens in the other lanes** — and in every lane that stays nonsingular the
    factors and the sign are the scalar run's -/
theorem luFactors_noThrow (piv : Bool) (A : Mat (V K) n) (l : Fin L) :
    ∃ st sts, luDecomp X R (elimDet X R) false piv A (X.bcast R.one) = some st ∧
      luDecomp (V := fun α => α) Xs R (elimDet (V := fun α => α) Xs R) false piv (laneMat X l A) R.one = some sts ∧
      X.lane l st.ns = sts.ns ∧ (sts.ns = true → laneMat X l st.A = sts.A ∧ X.lane l st.aux = sts.aux) := by
  obtain ⟨st, sts, h1, h2, h3, h4⟩ :=
    luLoop_noThrow X hX R l (elimDet X R) (elimDet (V := fun α => α) Xs R) (X.lane l) (elimDet_hom X hX R l) piv
      (List.finRange n) { A := A, aux := X.bcast R.one, ns := X.bcast true }
  refine ⟨st, sts, h1, ?_, h3, h4⟩
  have e : projState X l (X.lane l)
      ({ A := A, aux := X.bcast R.one, ns := X.bcast true } : LUState (V := V) (K := K) (n := n) (V K)) =
      ({ A := laneMat X l A, aux := R.one, ns := true } : LUState (V := fun α => α) (K := K) (n := n) K) := by
    simp only [projState, hX.lane_bcast]
  unfold luDecomp
  rw [e] at h2
  exact h2

end Factors
end DV.C09
