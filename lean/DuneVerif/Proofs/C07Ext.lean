import DuneVerif.Proofs.C07
/-!
# C07 — round-two lemmas (core Lean only): arbitrary displacement layouts of `gatherv`, rank-level statements for
every collective, reductions as *any* tree per element, receive with size discovery, the stand-in for partially
communicated types, nested struct typemaps, the generated loop shape `Seq.forCopy`.
-/
namespace DV.C07.Proofs
open DV.C07 TMap
set_option linter.unusedSimpArgs false
set_option linter.unusedVariables false

/-! ## `gatherv` with arbitrary displacements -/

/-- cell `i` of the receive buffer lies in a communicated block of the segment `(len, displ)` -/
def inSeg (tm : TMap) (len displ i : Nat) : Prop :=
  displ * tm.extent ≤ i ∧ (i - displ * tm.extent) / tm.extent < len ∧
    tm.covers ((i - displ * tm.extent) % tm.extent) = true

instance (tm : TMap) (len displ i : Nat) : Decidable (inSeg tm len displ i) := by unfold inSeg; infer_instance

/-- the fold `Spec.gathervAt` runs, over a list of `(send buffer, count, displacement)` -/
def gathervFold {α} (tm : TMap) (segs : List (List α × Nat × Nat)) (out : List α) : List α :=
  segs.foldl (fun acc p => transferN tm p.2.1 p.1 0 acc (p.2.2 * tm.extent)) out

theorem zip3_map {α β γ δ} (l : List δ) (f : δ → α) (g : δ → β) (h : δ → γ) :
    (l.map f).zip ((l.map g).zip (l.map h)) = l.map (fun s => (f s, g s, h s)) := by
  induction l with
  | nil => rfl
  | cons x xs ih => simp only [List.map_cons, List.zip_cons_cons, ih]

theorem gathervAt_eq_fold {α} (tm : TMap) (segs : List (List α × Nat × Nat)) (out : List α) :
    Spec.gathervAt tm (segs.map (·.1)) (segs.map (·.2.1)) (segs.map (·.2.2)) out = gathervFold tm segs out := by
  unfold Spec.gathervAt gathervFold
  rw [zip3_map, List.foldl_map]

theorem gathervFold_length {α} (tm : TMap) (segs : List (List α × Nat × Nat)) (out : List α) :
    (gathervFold tm segs out).length = out.length := by
  induction segs generalizing out with
  | nil => rfl
  | cons s ss ih => simp only [gathervFold, List.foldl_cons] at ih ⊢; rw [ih, transferN_length]

theorem gathervFold_untouched {α} (tm : TMap) (hwf : tm.wf) (hpos : 0 < tm.extent) (segs : List (List α × Nat × Nat))
    (out : List α) (i : Nat) (h : ∀ t ∈ segs, ¬ inSeg tm t.2.1 t.2.2 i) :
    (gathervFold tm segs out)[i]? = out[i]? := by
  induction segs generalizing out with
  | nil => rfl
  | cons s ss ih =>
    simp only [gathervFold, List.foldl_cons] at ih ⊢
    rw [ih _ (fun t ht => h t (by simp [ht])), transferN_getElem? tm hwf hpos]
    have := h s (by simp)
    unfold inSeg at this
    rw [if_neg this]

/-- the value a cell gets from the segment that covers it -/
theorem transferN_inSeg {α} (tm : TMap) (hwf : tm.wf) (hpos : 0 < tm.extent) (src : List α) (len displ : Nat)
    (hs : src.length = len * tm.extent) (acc : List α) (i : Nat) (hi : i < acc.length)
    (hin : inSeg tm len displ i) :
    (transferN tm len src 0 acc (displ * tm.extent))[i]? = src[i - displ * tm.extent]? := by
  rw [transferN_getElem? tm hwf hpos]
  have hin' := hin
  unfold inSeg at hin'
  rw [if_pos hin', Nat.zero_add]
  obtain ⟨h1, h2, _⟩ := hin'
  have hlt : i - displ * tm.extent < len * tm.extent := by
    have := (Nat.div_lt_iff_lt_mul hpos).mp h2
    exact this
  have hsome : src[i - displ * tm.extent]? = some (src[i - displ * tm.extent]'(by omega)) :=
    List.getElem?_eq_getElem (by omega)
  have hacc : acc[i]? = some acc[i] := List.getElem?_eq_getElem hi
  rw [hsome, hacc]
  rfl

theorem gathervFold_last {α} (tm : TMap) (hwf : tm.wf) (hpos : 0 < tm.extent) (pre post : List (List α × Nat × Nat))
    (s : List α × Nat × Nat) (hs : s.1.length = s.2.1 * tm.extent) (out : List α) (i : Nat) (hi : i < out.length)
    (hin : inSeg tm s.2.1 s.2.2 i) (hpost : ∀ t ∈ post, ¬ inSeg tm t.2.1 t.2.2 i) :
    (gathervFold tm (pre ++ s :: post) out)[i]? = s.1[i - s.2.2 * tm.extent]? := by
  have hsplit : gathervFold tm (pre ++ s :: post) out
      = gathervFold tm post (transferN tm s.2.1 s.1 0 (gathervFold tm pre out) (s.2.2 * tm.extent)) := by
    simp only [gathervFold, List.foldl_append, List.foldl_cons]
  rw [hsplit, gathervFold_untouched tm hwf hpos post _ i hpost]
  exact transferN_inSeg tm hwf hpos s.1 s.2.1 s.2.2 hs _ i (by rw [gathervFold_length]; exact hi) hin

/-! ## rank-level statements -/

theorem allgather_mem {α} (tm : TMap) (n : Nat) (ins outs : List (List α)) (r : Nat) :
    (Spec.allgather tm n ins outs)[r]? = (outs[r]?).map (Spec.gatherAt tm n ins) := by
  simp [Spec.allgather]

theorem gatherAt_full {α} (e n : Nat) (ins : List (List α)) (hl : ∀ inp ∈ ins, inp.length = n * e) (out : List α)
    (hout : out.length = ins.length * n * e) : Spec.gatherAt (full e) n ins out = ins.flatten := by
  have hl' : ∀ inp ∈ ins, inp.length = n * (full e).extent := hl
  rw [gatherAt_concat (full e) (full_wf e) n ins hl' out, transferN_full]
  apply copyCells_all
  · clear hout hl'
    induction ins with
    | nil => simp
    | cons x xs ih =>
      simp only [List.flatten_cons, List.length_append, List.length_cons]
      rw [ih (fun q hq => hl q (by simp [hq])), hl x (by simp), Nat.add_mul, Nat.add_mul, Nat.one_mul]
      omega
  · exact hout

/-- uniform chunks: cell `j` of chunk `r` sits at `r*n*e + j` of the concatenation -/
theorem flatten_uniform_getElem? {α} (m : Nat) (parts : List (List α)) (hl : ∀ p ∈ parts, p.length = m)
    (r : Nat) (hr : r < parts.length) (j : Nat) (hj : j < m) :
    parts.flatten[r * m + j]? = (parts[r])[j]? := by
  induction parts generalizing r with
  | nil => simp at hr
  | cons p ps ih =>
    have hp := hl p (by simp)
    cases r with
    | zero =>
      simp only [List.flatten_cons, Nat.zero_mul, Nat.zero_add, List.getElem_cons_zero]
      exact List.getElem?_append_left (by omega)
    | succ r =>
      simp only [List.flatten_cons, List.getElem_cons_succ]
      rw [List.getElem?_append_right (by rw [hp, Nat.add_mul]; omega)]
      rw [← ih (fun q hq => hl q (by simp [hq])) r (by simpa using hr)]
      congr 1
      rw [hp, Nat.add_mul]
      omega

theorem scatterAt_flatten {α} (tm : TMap) (hwf : tm.wf) (n : Nat) (parts : List (List α))
    (hl : ∀ p ∈ parts, p.length = n * tm.extent) (r : Nat) (hr : r < parts.length) (rcv : List α) :
    Spec.scatterAt tm n parts.flatten r rcv = transferN tm n (parts[r]) 0 rcv 0 := by
  unfold Spec.scatterAt
  apply transferN_src_congr tm hwf
  intro j hj
  rw [Nat.zero_add, Nat.mul_assoc]
  exact flatten_uniform_getElem? (n * tm.extent) parts hl r hr j hj

theorem scatterAt_full {α} (e n : Nat) (parts : List (List α)) (hl : ∀ p ∈ parts, p.length = n * e) (r : Nat)
    (hr : r < parts.length) (rcv : List α) (hrcv : rcv.length = n * e) :
    Spec.scatterAt (full e) n parts.flatten r rcv = parts[r] := by
  have hl' : ∀ p ∈ parts, p.length = n * (full e).extent := hl
  rw [scatterAt_flatten (full e) (full_wf e) n parts hl' r hr rcv, transferN_full]
  exact copyCells_all _ _ _ (hl _ (List.getElem_mem hr)) hrcv

/-! ## reductions: any tree per element -/

theorem allreduceVal_trees {α} (e n : Nat) (op : List α → List α → List α) (ins : List (List α))
    (ts : Nat → Tree (List α))
    (hts : ∀ j, j < n → some ((ts j).eval op) = Spec.foldRanks op (ins.map (Spec.elem e j))) :
    Spec.allreduceVal e n op ins = (List.range n).flatMap (fun j => (ts j).eval op) := by
  unfold Spec.allreduceVal
  rw [List.flatMap_def, List.flatMap_def]
  congr 1
  apply List.map_congr_left
  intro j hj
  rw [← hts j (List.mem_range.mp hj)]
  rfl

theorem foldRanks_length {α} (e : Nat) (op : List α → List α → List α)
    (hop : ∀ a b, a.length = e → b.length = e → (op a b).length = e) (xs : List (List α)) (hx : ∀ x ∈ xs, x.length = e)
    (hne : xs ≠ []) : ((Spec.foldRanks op xs).getD []).length = e := by
  cases xs with
  | nil => exact absurd rfl hne
  | cons x rest =>
    simp only [Spec.foldRanks, Option.getD_some]
    have hx0 := hx x (by simp)
    have hrest : ∀ y ∈ rest, y.length = e := fun y hy => hx y (by simp [hy])
    clear hx hne
    induction rest generalizing x with
    | nil => exact hx0
    | cons y ys ih =>
      simp only [List.foldl_cons]
      exact ih (op x y) (hop x y hx0 (hrest y (by simp))) (fun z hz => hrest z (by simp [hz]))

theorem elem_length {α} (e j n : Nat) (x : List α) (hj : j < n) (hx : x.length = n * e) : (Spec.elem e j x).length = e := by
  unfold Spec.elem
  rw [List.length_take, List.length_drop, hx]
  have : (j + 1) * e ≤ n * e := Nat.mul_le_mul_right e hj
  rw [Nat.add_mul, Nat.one_mul] at this
  omega

theorem flatMap_length_const {β} (n e : Nat) (f : Nat → List β) (h : ∀ j, j < n → (f j).length = e) :
    ((List.range n).flatMap f).length = n * e := by
  induction n with
  | zero => simp
  | succ n ih =>
    rw [List.range_succ, List.flatMap_append, List.length_append, ih (fun j hj => h j (by omega))]
    simp only [List.flatMap_cons, List.flatMap_nil, List.append_nil]
    rw [h n (by omega), Nat.add_mul, Nat.one_mul]

theorem allreduceVal_length {α} (e n : Nat) (op : List α → List α → List α)
    (hop : ∀ a b, a.length = e → b.length = e → (op a b).length = e) (ins : List (List α)) (hne : ins ≠ [])
    (hl : ∀ x ∈ ins, x.length = n * e) : (Spec.allreduceVal e n op ins).length = n * e := by
  unfold Spec.allreduceVal
  apply flatMap_length_const
  intro j hj
  apply foldRanks_length e op hop
  · intro x hx
    simp only [List.mem_map] at hx
    obtain ⟨y, hy, rfl⟩ := hx
    exact elem_length e j n y hj (hl y hy)
  · intro h
    exact hne (List.map_eq_nil_iff.mp h)

/-! ## receive with size discovery -/

theorem rrecv_full {α} (e n m : Nat) (he : 0 < e) (src dflt dst : List α) (hs : src.length = n * e)
    (hdf : dflt.length = e) (hd : dst.length = m * e) : Spec.rrecv (full e) dflt src n dst = src := by
  unfold Spec.rrecv
  rw [transferN_full]
  have hext : (full e).extent = e := rfl
  rw [hext]
  exact copyCells_all _ _ _ hs (resizeCells_length e he dflt dst m n hdf hd)

/-! ## the stand-in's single-element assignment is a loop of length one -/

theorem assignElem_copyLoop {α} (e : Nat) (src dst : List α) :
    Seq.assignElem e src 0 dst 0 = Seq.copyLoop e src 0 dst 0 1 := by
  simp [Seq.copyLoop, List.range_succ]

/-! ## the generated loop shape -/

theorem forCopy_eq_copyLoop {α} (e : Nat) (src dst : List α) (io oo len : Nat) :
    Seq.forCopy e src dst 0 len (fun i => oo + i) (fun i => io + i) = Seq.copyLoop e src io dst oo len := by
  unfold Seq.forCopy Seq.copyLoop
  rw [Nat.sub_zero, List.range_eq_range']

/-! ## nested typemaps -/

theorem coversL_append (a b : List (Nat × Nat)) (j : Nat) : coversL (a ++ b) j = (coversL a j || coversL b j) := by
  simp [coversL, List.any_append]

theorem coversL_shift (d : Nat) (bs : List (Nat × Nat)) (j : Nat) :
    coversL (bs.map (shift d)) j = (decide (d ≤ j) && coversL bs (j - d)) := by
  apply Bool.eq_iff_iff.mpr
  simp only [coversL, List.any_map, List.any_eq_true, Bool.and_eq_true, decide_eq_true_eq, Function.comp, shift]
  constructor
  · rintro ⟨b, hb, h1, h2⟩
    have h1' := of_decide_eq_true h1
    have h2' := of_decide_eq_true h2
    exact ⟨by omega, b, hb, by omega, by omega⟩
  · rintro ⟨hd, b, hb, h1, h2⟩
    exact ⟨b, hb, decide_eq_true (by omega), decide_eq_true (by omega)⟩

theorem covers_eq_coversL (tm : TMap) (j : Nat) : tm.covers j = coversL tm.blocks j := rfl

/-- `MPI_Type_contiguous(n, t)`: cell `j` is covered iff it is covered in one of the `n` copies of `t` -/
theorem contiguous_covers (n : Nat) (t : TMap) (j : Nat) :
    (contiguous n t).covers j = true ↔ ∃ k, k < n ∧ k * t.extent ≤ j ∧ t.covers (j - k * t.extent) = true := by
  rw [covers_eq_coversL]
  simp only [contiguous]
  induction n with
  | zero => simp [coversL]
  | succ n ih =>
    rw [List.range_succ, List.flatMap_append, coversL_append, Bool.or_eq_true, ih]
    simp only [List.flatMap_cons, List.flatMap_nil, List.append_nil]
    rw [coversL_shift, Bool.and_eq_true, decide_eq_true_eq]
    constructor
    · rintro (⟨k, hk, h1, h2⟩ | ⟨h1, h2⟩)
      · exact ⟨k, by omega, h1, h2⟩
      · exact ⟨n, by omega, h1, h2⟩
    · rintro ⟨k, hk, h1, h2⟩
      by_cases hkn : k = n
      · subst hkn; exact Or.inr ⟨h1, h2⟩
      · exact Or.inl ⟨k, by omega, h1, h2⟩

/-- `MPI_Type_create_struct`: cell `j` is covered iff some member `(displ, count, type)` covers it -/
theorem struct_covers (members : List (Nat × Nat × TMap)) (j : Nat) :
    (struct members).covers j = true ↔
      ∃ m ∈ members, m.1 ≤ j ∧ (contiguous m.2.1 m.2.2).covers (j - m.1) = true := by
  rw [covers_eq_coversL]
  simp only [struct]
  induction members with
  | nil => simp [coversL]
  | cons m ms ih =>
    rw [List.flatMap_cons, coversL_append, Bool.or_eq_true, ih, coversL_shift, Bool.and_eq_true, decide_eq_true_eq]
    constructor
    · rintro (⟨h1, h2⟩ | ⟨m', hm', h1, h2⟩)
      · exact ⟨m, by simp, h1, h2⟩
      · exact ⟨m', by simp [hm'], h1, h2⟩
    · rintro ⟨m', hm', h1, h2⟩
      simp only [List.mem_cons] at hm'
      rcases hm' with rfl | hm'
      · exact Or.inl ⟨h1, h2⟩
      · exact Or.inr ⟨m', hm', h1, h2⟩

theorem resized_covers (t : TMap) (ext j : Nat) : (resized t ext).covers j = t.covers j := rfl


theorem contiguous_one_blocks (t : TMap) : (contiguous 1 t).blocks = t.blocks.map (shift 0) := by
  simp [contiguous, List.range_succ]

theorem shift_zero_map (bs : List (Nat × Nat)) : bs.map (shift 0) = bs := by
  induction bs with
  | nil => rfl
  | cons b bs ih => simp [shift, ih]

theorem contiguous_one_covers (t : TMap) (j : Nat) : (contiguous 1 t).covers j = t.covers j := by
  rw [covers_eq_coversL, contiguous_one_blocks, shift_zero_map]; rfl

theorem pair_blocks (off1 off2 size : Nat) (t1 t2 : TMap) :
    (Types.pair off1 t1 off2 t2 size).blocks = t1.blocks.map (shift off1) ++ t2.blocks.map (shift off2) := by
  simp [Types.pair, resized, struct, contiguous_one_blocks, shift_zero_map]

/-- a pair covers a cell iff one of its members (at its offset) covers it — for arbitrary member typemaps -/
theorem pair_covers (off1 off2 size : Nat) (t1 t2 : TMap) (j : Nat) :
    (Types.pair off1 t1 off2 t2 size).covers j = true ↔
      (off1 ≤ j ∧ t1.covers (j - off1) = true) ∨ (off2 ≤ j ∧ t2.covers (j - off2) = true) := by
  rw [covers_eq_coversL, pair_blocks, coversL_append, Bool.or_eq_true, coversL_shift, coversL_shift]
  simp only [Bool.and_eq_true, decide_eq_true_eq]
  rfl

theorem pair_wf (off1 off2 size : Nat) (t1 t2 : TMap) (h1 : ∀ b ∈ t1.blocks, off1 + b.1 + b.2 ≤ size)
    (h2 : ∀ b ∈ t2.blocks, off2 + b.1 + b.2 ≤ size) : (Types.pair off1 t1 off2 t2 size).wf := by
  intro b hb
  rw [pair_blocks] at hb
  have hext : (Types.pair off1 t1 off2 t2 size).extent = size := rfl
  rw [hext]
  simp only [List.mem_append, List.mem_map] at hb
  rcases hb with ⟨c, hc, rfl⟩ | ⟨c, hc, rfl⟩
  · exact h1 c hc
  · exact h2 c hc

end DV.C07.Proofs
