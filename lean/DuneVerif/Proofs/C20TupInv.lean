import DuneVerif.Model.C20
import DuneVerif.Proofs.C20Basic
/-!
C20 — histories of tuple-vector programs: after every program the slots of every tuple vector (and of its Python-side
sources) have the types of the shape the class was generated for, and every FieldVector slot names an existing object
with exactly the cells of its type.
-/
namespace DV.C20

/-- a slot has the type the shape asks for; a FieldVector slot names an existing block of exactly `n` cells -/
def SlotOK (s : State) : SlotTy → Slot → Prop
  | .d, .d _ => True
  | .i, .i _ => True
  | .f n, .f b => b < s.blocks.length ∧ (s.read b).length = n
  | _, _ => False

def SlotsOK (s : State) : List SlotTy → List Slot → Prop
  | [], [] => True
  | t :: sh, x :: L => SlotOK s t x ∧ SlotsOK s sh L
  | _, _ => False

/-- blocks are only added and keep their number of cells -/
def Grows (s s' : State) : Prop :=
  s.blocks.length ≤ s'.blocks.length ∧ ∀ b, b < s.blocks.length → (s'.read b).length = (s.read b).length

theorem Grows.refl (s : State) : Grows s s := ⟨Nat.le_refl _, fun _ _ => rfl⟩

theorem Grows.trans {a b c : State} (h1 : Grows a b) (h2 : Grows b c) : Grows a c :=
  ⟨Nat.le_trans h1.1 h2.1, fun x hx => by rw [h2.2 x (Nat.lt_of_lt_of_le hx h1.1), h1.2 x hx]⟩

theorem grows_alloc (s : State) (v : List Int) : Grows s (s.alloc v).1 :=
  ⟨by rw [alloc_blocks_length]; omega, fun b hb => by rw [read_alloc_old s v b hb]⟩

theorem grows_write (s : State) (b : Nat) (v : List Int) (hb : b < s.blocks.length) (hl : v.length = (s.read b).length) :
    Grows s (s.write b v) := by
  refine ⟨by rw [write_blocks_length]; exact Nat.le_refl _, fun c _ => ?_⟩
  by_cases h : b = c
  · subst h
    rw [read_write_same s b v hb, hl]
  · rw [read_write_other s b c v h]

theorem grows_of_blocks_eq {s s' : State} (h : s'.blocks = s.blocks) : Grows s s' := by
  refine ⟨by rw [h]; exact Nat.le_refl _, fun b _ => ?_⟩
  simp [State.read, h]

theorem SlotOK.mono {s s' : State} (h : Grows s s') : ∀ (t : SlotTy) (x : Slot), SlotOK s t x → SlotOK s' t x
  | .d, .d _, _ => trivial
  | .i, .i _, _ => trivial
  | .f _, .f b, hx => ⟨Nat.lt_of_lt_of_le hx.1 h.1, by rw [h.2 b hx.1]; exact hx.2⟩
  | .d, .i _, hx => hx.elim
  | .d, .f _, hx => hx.elim
  | .i, .d _, hx => hx.elim
  | .i, .f _, hx => hx.elim
  | .f _, .d _, hx => hx.elim
  | .f _, .i _, hx => hx.elim

theorem SlotsOK.mono {s s' : State} (h : Grows s s') : ∀ (sh : List SlotTy) (L : List Slot), SlotsOK s sh L → SlotsOK s' sh L
  | [], [], _ => trivial
  | t :: sh, x :: L, hl => ⟨SlotOK.mono h t x hl.1, SlotsOK.mono h sh L hl.2⟩
  | [], _ :: _, hl => hl.elim
  | _ :: _, [], hl => hl.elim

theorem SlotsOK.length {s : State} : ∀ (sh : List SlotTy) (L : List Slot), SlotsOK s sh L → L.length = sh.length
  | [], [], _ => rfl
  | _ :: sh, _ :: L, hl => by simp [SlotsOK.length sh L hl.2]
  | [], _ :: _, hl => hl.elim
  | _ :: _, [], hl => hl.elim

theorem SlotsOK.get {s : State} : ∀ (sh : List SlotTy) (L : List Slot) (i : Nat) (x : Slot), SlotsOK s sh L →
    L[i]? = some x → ∃ t, sh[i]? = some t ∧ SlotOK s t x
  | [], [], _, _, _, hx => by simp at hx
  | t :: sh, y :: L, 0, x, hl, hx => by
    simp only [List.getElem?_cons_zero, Option.some.injEq] at hx
    subst hx
    exact ⟨t, by simp, hl.1⟩
  | _ :: sh, _ :: L, i + 1, x, hl, hx => by
    simp only [List.getElem?_cons_succ] at hx
    obtain ⟨t, ht, hok⟩ := SlotsOK.get sh L i x hl.2 hx
    exact ⟨t, by simpa using ht, hok⟩
  | [], _ :: _, _, _, hl, _ => hl.elim
  | _ :: _, [], _, _, hl, _ => hl.elim

theorem SlotsOK.set {s : State} : ∀ (sh : List SlotTy) (L : List Slot) (i : Nat) (t : SlotTy) (x : Slot), SlotsOK s sh L →
    sh[i]? = some t → SlotOK s t x → SlotsOK s sh (L.set i x)
  | [], [], _, _, _, _, ht, _ => by simp at ht
  | t' :: sh, y :: L, 0, t, x, hl, ht, hx => by
    simp only [List.getElem?_cons_zero, Option.some.injEq] at ht
    subst ht
    exact ⟨hx, hl.2⟩
  | _ :: sh, _ :: L, i + 1, t, x, hl, ht, hx => by
    simp only [List.getElem?_cons_succ] at ht
    exact ⟨hl.1, SlotsOK.set sh L i t x hl.2 ht hx⟩
  | [], _ :: _, _, _, _, hl, _, _ => hl.elim
  | _ :: _, [], _, _, _, hl, _, _ => hl.elim

/-! ### the three slot-list builders -/

theorem buildSlots_ok (byRef : Bool) : ∀ (sh : List SlotTy) (V : List Int) (s : State), V.length = shapeWidth sh →
    Grows s (buildSlots byRef sh V s).1 ∧ SlotsOK (buildSlots byRef sh V s).1 sh (buildSlots byRef sh V s).2.1 ∧
      SlotsOK (buildSlots byRef sh V s).1 sh (buildSlots byRef sh V s).2.2 ∧
      (buildSlots byRef sh V s).1.ts = s.ts ∧ (buildSlots byRef sh V s).1.ss = s.ss
  | [], _, s, _ => ⟨Grows.refl s, trivial, trivial, rfl, rfl⟩
  | .d :: sh, V, s, hV => by
    have hV' : (V.drop 1).length = shapeWidth sh := by
      simp only [shapeWidth, SlotTy.width] at hV
      simp only [List.length_drop]; omega
    obtain ⟨hg, h1, h2, hr1, hr2⟩ := buildSlots_ok byRef sh (V.drop 1) s hV'
    simp only [buildSlots]
    exact ⟨hg, ⟨trivial, h1⟩, ⟨trivial, h2⟩, hr1, hr2⟩
  | .i :: sh, V, s, hV => by
    have hV' : (V.drop 1).length = shapeWidth sh := by
      simp only [shapeWidth, SlotTy.width] at hV
      simp only [List.length_drop]; omega
    obtain ⟨hg, h1, h2, hr1, hr2⟩ := buildSlots_ok byRef sh (V.drop 1) s hV'
    simp only [buildSlots]
    exact ⟨hg, ⟨trivial, h1⟩, ⟨trivial, h2⟩, hr1, hr2⟩
  | .f n :: sh, V, s, hV => by
    have hn : (V.take n).length = n := by
      simp only [shapeWidth, SlotTy.width] at hV
      simp only [List.length_take]; omega
    have hV' : (V.drop n).length = shapeWidth sh := by
      simp only [shapeWidth, SlotTy.width] at hV
      simp only [List.length_drop]; omega
    cases byRef with
    | true =>
      obtain ⟨hg, h1, h2, hr1, hr2⟩ := buildSlots_ok true sh (V.drop n) (s.alloc (V.take n)).1 hV'
      have hs : SlotOK (s.alloc (V.take n)).1 (.f n) (.f (s.alloc (V.take n)).2) :=
        ⟨by rw [alloc_blocks_length, alloc_fresh]; omega, by rw [read_alloc_new]; exact hn⟩
      simp only [buildSlots]
      exact ⟨(grows_alloc s _).trans hg, ⟨SlotOK.mono hg _ _ hs, h1⟩, ⟨SlotOK.mono hg _ _ hs, h2⟩, hr1, hr2⟩
    | false =>
      have hg1 := grows_alloc s (V.take n)
      have hg2 := grows_alloc (s.alloc (V.take n)).1 (V.take n)
      obtain ⟨hg, h1, h2, hr1, hr2⟩ := buildSlots_ok false sh (V.drop n) ((s.alloc (V.take n)).1.alloc (V.take n)).1 hV'
      have hs1 : SlotOK (s.alloc (V.take n)).1 (.f n) (.f (s.alloc (V.take n)).2) :=
        ⟨by rw [alloc_blocks_length, alloc_fresh]; omega, by rw [read_alloc_new]; exact hn⟩
      have hs2 : SlotOK ((s.alloc (V.take n)).1.alloc (V.take n)).1 (.f n) (.f ((s.alloc (V.take n)).1.alloc (V.take n)).2) :=
        ⟨by rw [alloc_blocks_length, alloc_fresh]; omega, by rw [read_alloc_new]; exact hn⟩
      simp only [buildSlots]
      exact ⟨(hg1.trans hg2).trans hg, ⟨SlotOK.mono (hg2.trans hg) _ _ hs1, h1⟩, ⟨SlotOK.mono hg _ _ hs2, h2⟩, hr1, hr2⟩

theorem copySlots_ok (byRef : Bool) : ∀ (sh : List SlotTy) (U : List Slot) (s : State), SlotsOK s sh U →
    Grows s (copySlots byRef U s).1 ∧ SlotsOK (copySlots byRef U s).1 sh (copySlots byRef U s).2 ∧
      (copySlots byRef U s).1.ts = s.ts ∧ (copySlots byRef U s).1.ss = s.ss
  | [], [], s, _ => ⟨Grows.refl s, trivial, rfl, rfl⟩
  | [], _ :: _, _, h => h.elim
  | _ :: _, [], _, h => h.elim
  | .d :: sh, .d v :: U, s, h => by
    obtain ⟨hg, h1, hr1, hr2⟩ := copySlots_ok byRef sh U s h.2
    simp only [copySlots]
    exact ⟨hg, ⟨trivial, h1⟩, hr1, hr2⟩
  | .i :: sh, .i v :: U, s, h => by
    obtain ⟨hg, h1, hr1, hr2⟩ := copySlots_ok byRef sh U s h.2
    simp only [copySlots]
    exact ⟨hg, ⟨trivial, h1⟩, hr1, hr2⟩
  | .f n :: sh, .f b :: U, s, h => by
    cases byRef with
    | true =>
      obtain ⟨hg, h1, hr1, hr2⟩ := copySlots_ok true sh U s h.2
      simp only [copySlots]
      exact ⟨hg, ⟨SlotOK.mono hg _ _ h.1, h1⟩, hr1, hr2⟩
    | false =>
      have hg1 := grows_alloc s (s.read b)
      obtain ⟨hg, h1, hr1, hr2⟩ := copySlots_ok false sh U (s.alloc (s.read b)).1 (SlotsOK.mono hg1 sh U h.2)
      have hs : SlotOK (s.alloc (s.read b)).1 (.f n) (.f (s.alloc (s.read b)).2) :=
        ⟨by rw [alloc_blocks_length, alloc_fresh]; omega, by rw [read_alloc_new]; exact h.1.2⟩
      simp only [copySlots]
      exact ⟨hg1.trans hg, ⟨SlotOK.mono hg _ _ hs, h1⟩, hr1, hr2⟩
  | .d :: _, .i _ :: _, _, h => h.1.elim
  | .d :: _, .f _ :: _, _, h => h.1.elim
  | .i :: _, .d _ :: _, _, h => h.1.elim
  | .i :: _, .f _ :: _, _, h => h.1.elim
  | .f _ :: _, .d _ :: _, _, h => h.1.elim
  | .f _ :: _, .i _ :: _, _, h => h.1.elim

theorem assignSlots_ok : ∀ (sh : List SlotTy) (T U : List Slot) (s : State), SlotsOK s sh T → SlotsOK s sh U →
    Grows s (assignSlots T U s).1 ∧ SlotsOK (assignSlots T U s).1 sh (assignSlots T U s).2 ∧
      (assignSlots T U s).1.ts = s.ts ∧ (assignSlots T U s).1.ss = s.ss
  | [], [], [], s, _, _ => by
    simp only [assignSlots]
    refine ⟨Grows.refl s, trivial, ?_, ?_⟩ <;> first | rfl | trivial
  | [], _ :: _, _, _, h, _ => h.elim
  | [], [], _ :: _, _, _, h => h.elim
  | _ :: _, [], _, _, h, _ => h.elim
  | _ :: _, _ :: _, [], _, _, h => h.elim
  | .d :: sh, .d _ :: T, .d v :: U, s, hT, hU => by
    obtain ⟨hg, h1, hr1, hr2⟩ := assignSlots_ok sh T U s hT.2 hU.2
    simp only [assignSlots]
    exact ⟨hg, ⟨trivial, h1⟩, hr1, hr2⟩
  | .i :: sh, .i _ :: T, .i v :: U, s, hT, hU => by
    obtain ⟨hg, h1, hr1, hr2⟩ := assignSlots_ok sh T U s hT.2 hU.2
    simp only [assignSlots]
    exact ⟨hg, ⟨trivial, h1⟩, hr1, hr2⟩
  | .f n :: sh, .f a :: T, .f b :: U, s, hT, hU => by
    have hg1 : Grows s (s.write a (s.read b)) := grows_write s a (s.read b) hT.1.1 (by rw [hU.1.2, hT.1.2])
    obtain ⟨hg, h1, hr1, hr2⟩ := assignSlots_ok sh T U (s.write a (s.read b)) (SlotsOK.mono hg1 sh T hT.2) (SlotsOK.mono hg1 sh U hU.2)
    simp only [assignSlots]
    exact ⟨hg1.trans hg, ⟨SlotOK.mono (hg1.trans hg) _ _ hT.1, h1⟩, hr1, hr2⟩
  | .d :: _, .i _ :: _, _ :: _, _, h, _ => h.1.elim
  | .d :: _, .f _ :: _, _ :: _, _, h, _ => h.1.elim
  | .i :: _, .d _ :: _, _ :: _, _, h, _ => h.1.elim
  | .i :: _, .f _ :: _, _ :: _, _, h, _ => h.1.elim
  | .f _ :: _, .d _ :: _, _ :: _, _, h, _ => h.1.elim
  | .f _ :: _, .i _ :: _, _ :: _, _, h, _ => h.1.elim
  | .d :: _, .d _ :: _, .i _ :: _, _, _, h => h.1.elim
  | .d :: _, .d _ :: _, .f _ :: _, _, _, h => h.1.elim
  | .i :: _, .i _ :: _, .d _ :: _, _, _, h => h.1.elim
  | .i :: _, .i _ :: _, .f _ :: _, _, _, h => h.1.elim
  | .f _ :: _, .f _ :: _, .d _ :: _, _, _, h => h.1.elim
  | .f _ :: _, .f _ :: _, .i _ :: _, _, _, h => h.1.elim

/-! ### the invariant of tuple-vector programs -/

structure TInv (sh : List SlotTy) (s : State) : Prop where
  ts_ok : ∀ t T, s.ts t = some T → SlotsOK s sh T
  ss_ok : ∀ t S, s.ss t = some S → SlotsOK s sh S

theorem tinv_init (sh : List SlotTy) : TInv sh {} where
  ts_ok := fun _ _ h => by cases h
  ss_ok := fun _ _ h => by cases h

/-- a step that only lets blocks grow and whose registers are either unchanged or hold well-typed slot lists -/
theorem TInv.update {sh : List SlotTy} {s s' : State} (h : TInv sh s) (hg : Grows s s')
    (hts : ∀ t T, s'.ts t = some T → s.ts t = some T ∨ SlotsOK s' sh T)
    (hss : ∀ t S, s'.ss t = some S → s.ss t = some S ∨ SlotsOK s' sh S) : TInv sh s' :=
  ⟨fun t T ht => (hts t T ht).elim (fun ho => SlotsOK.mono hg sh T (h.ts_ok t T ho)) id,
   fun t S ht => (hss t S ht).elim (fun ho => SlotsOK.mono hg sh S (h.ss_ok t S ho)) id⟩

/-! ### every bound tuple-vector operation preserves the invariant -/

theorem upd_opt {α} (f : Nat → Option α) (t : Nat) (g : Option α) (t' : Nat) (x : α) (h : upd f t g t' = some x) :
    f t' = some x ∨ g = some x := by
  unfold upd at h
  split at h
  · right; exact h
  · left; exact h

theorem setItem_length (l : List Int) (j k : Int) (v : List Int) (h : setItem l j k = .ok v) : v.length = l.length := by
  unfold setItem at h
  split at h
  · cases h
  · cases h
    simp

theorem TInv.setRegs {sh : List SlotTy} {s : State} (h : TInv sh s) (s1 : State) (hg : Grows s s1)
    (hts : s1.ts = s.ts) (hss : s1.ss = s.ss) (ts' ss' : Nat → Option (List Slot))
    (h1 : ∀ t T, ts' t = some T → s1.ts t = some T ∨ SlotsOK s1 sh T)
    (h2 : ∀ t S, ss' t = some S → s1.ss t = some S ∨ SlotsOK s1 sh S) :
    TInv sh { s1 with ts := ts', ss := ss' } := by
  have hb : Grows s1 { s1 with ts := ts', ss := ss' } := grows_of_blocks_eq rfl
  refine h.update (hg.trans hb) ?_ ?_
  · intro t T ht
    rcases h1 t T ht with ho | hok
    · left; rw [← hts]; exact ho
    · right; exact SlotsOK.mono hb sh T hok
  · intro t S ht
    rcases h2 t S ht with ho | hok
    · left; rw [← hss]; exact ho
    · right; exact SlotsOK.mono hb sh S hok

theorem tupStep_inv (sh : List SlotTy) (byRef : Bool) (s : State) (h : TInv sh s) (op : TOp) :
    TInv sh (tupStep (.tup sh byRef) s op).1 := by
  cases op with
  | tnew t V =>
    simp only [tupStep]
    split
    · exact h
    · rename_i hc
      have hV : V.length = shapeWidth sh := by
        simp only [Bool.or_eq_true, bne_iff_ne, ne_eq, Bool.not_eq_true', not_or, Decidable.not_not] at hc
        exact hc.1
      obtain ⟨hg, h1, h2, hr1, hr2⟩ := buildSlots_ok byRef sh V s hV
      exact h.setRegs _ hg hr1 hr2 _ _
        (fun t' T ht => (upd_opt _ _ _ _ _ ht).imp id (fun e => by cases e; exact h2))
        (fun t' S ht => (upd_opt _ _ _ _ _ ht).imp id (fun e => by cases e; exact h1))
  | tlen t =>
    simp only [tupStep, Kind.isTup, Bool.not_true, Bool.false_eq_true, ↓reduceIte]
    split <;> exact h
  | tget t i =>
    simp only [tupStep, Kind.isTup, Bool.not_true, Bool.false_eq_true, ↓reduceIte]
    repeat' split
    all_goals exact h
  | tlist t =>
    simp only [tupStep, Kind.isTup, Bool.not_true, Bool.false_eq_true, ↓reduceIte]
    split <;> exact h
  | tsetd t i k =>
    simp only [tupStep, Kind.isTup, Bool.not_true, Bool.false_eq_true, ↓reduceIte]
    repeat' split
    all_goals first
      | exact h
      | (rename_i _ T hT _ _ _ _ hget
         obtain ⟨ty, hty, hok⟩ := SlotsOK.get sh T _ _ (h.ts_ok t T hT) hget
         have hd : ty = .d := by cases ty <;> first | rfl | exact hok.elim
         subst hd
         exact h.setRegs s (Grows.refl s) rfl rfl _ _
           (fun t' T' ht => (upd_opt _ _ _ _ _ ht).imp id
             (fun e => by cases e; exact SlotsOK.set sh T _ .d _ (h.ts_ok t T hT) hty trivial))
           (fun t' S ht => Or.inl ht))
  | tseti t i k =>
    simp only [tupStep, Kind.isTup, Bool.not_true, Bool.false_eq_true, ↓reduceIte]
    repeat' split
    all_goals first
      | exact h
      | (rename_i _ T hT _ _ _ _ hget
         obtain ⟨ty, hty, hok⟩ := SlotsOK.get sh T _ _ (h.ts_ok t T hT) hget
         have hd : ty = .d := by cases ty <;> first | rfl | exact hok.elim
         subst hd
         exact h.setRegs s (Grows.refl s) rfl rfl _ _
           (fun t' T' ht => (upd_opt _ _ _ _ _ ht).imp id
             (fun e => by cases e; exact SlotsOK.set sh T _ .d _ (h.ts_ok t T hT) hty trivial))
           (fun t' S ht => Or.inl ht))
      | (rename_i _ T hT _ _ _ _ hget
         obtain ⟨ty, hty, hok⟩ := SlotsOK.get sh T _ _ (h.ts_ok t T hT) hget
         have hd : ty = .i := by cases ty <;> first | rfl | exact hok.elim
         subst hd
         exact h.setRegs s (Grows.refl s) rfl rfl _ _
           (fun t' T' ht => (upd_opt _ _ _ _ _ ht).imp id
             (fun e => by cases e; exact SlotsOK.set sh T _ .i _ (h.ts_ok t T hT) hty trivial))
           (fun t' S ht => Or.inl ht))
  | tsetf t i L =>
    simp only [tupStep, Kind.isTup, Bool.not_true, Bool.false_eq_true, ↓reduceIte]
    repeat' split
    all_goals first
      | exact h
      | (rename_i _ T hT _ _ _ b hget hlen
         obtain ⟨ty, hty, hok⟩ := SlotsOK.get sh T _ _ (h.ts_ok t T hT) hget
         have hl : L.length = (s.read b).length := by
           simp only [bne_iff_ne, ne_eq, Decidable.not_not] at hlen
           exact hlen.symm
         cases ty with
         | d => exact hok.elim
         | i => exact hok.elim
         | f n => exact h.update (grows_write s b L hok.1 hl) (fun t' T' ht => Or.inl ht) (fun t' S ht => Or.inl ht))
  | elem src t i j k =>
    simp only [tupStep, Kind.isTup, Bool.not_true, Bool.false_eq_true, ↓reduceIte]
    repeat' split
    all_goals first
      | exact h
      | (rename_i _ _ Tt T hTt hT _ _ b hget _ v hset
         have hTok : SlotsOK s sh T := by
           cases src with
           | true => exact h.ss_ok t T (by simpa using hT)
           | false => exact h.ts_ok t T (by simpa using hT)
         obtain ⟨ty, hty, hok⟩ := SlotsOK.get sh T _ _ hTok hget
         cases ty with
         | d => exact hok.elim
         | i => exact hok.elim
         | f n => exact h.update (grows_write s b v hok.1 (setItem_length _ _ _ _ hset)) (fun t' T' ht => Or.inl ht)
                   (fun t' S ht => Or.inl ht))
  | tcopy t u =>
    simp only [tupStep]
    split
    · exact h
    · rename_i U hU
      obtain ⟨hg, h1, hr1, hr2⟩ := copySlots_ok byRef sh U s (h.ts_ok u U hU)
      exact h.setRegs _ hg hr1 hr2 _ _
        (fun t' T ht => (upd_opt _ _ _ _ _ ht).imp id (fun e => by cases e; exact h1))
        (fun t' S ht => (upd_opt _ _ _ _ _ ht).imp id
          (fun e => SlotsOK.mono hg sh S (h.ss_ok u S (by rw [← hr2]; exact e))))
  | tassign t u =>
    simp only [tupStep, Kind.isTup, Bool.not_true, Bool.false_eq_true, ↓reduceIte]
    split
    · rename_i T U hT hU
      obtain ⟨hg, h1, hr1, hr2⟩ := assignSlots_ok sh T U s (h.ts_ok t T hT) (h.ts_ok u U hU)
      exact h.setRegs _ hg hr1 hr2 _ _
        (fun t' T' ht => (upd_opt _ _ _ _ _ ht).imp id (fun e => by cases e; exact h1))
        (fun t' S ht => Or.inl ht)
    · exact h

theorem step_tinv (sh : List SlotTy) (byRef : Bool) (s : State) (h : TInv sh s) (op : Op) :
    TInv sh (step (.tup sh byRef) s op).1 := by
  cases op with
  | v o =>
    simp only [step, Kind.isVec, Bool.not_false, ↓reduceIte]
    exact h
  | t o => exact tupStep_inv sh byRef s h o

theorem run_tinv (sh : List SlotTy) (byRef : Bool) : ∀ (ops : List Op) (s : State), TInv sh s →
    TInv sh (run (.tup sh byRef) s ops).1
  | [], _, h => h
  | op :: ops, s, h => by
    simp only [run]
    exact run_tinv sh byRef ops _ (step_tinv sh byRef s h op)

end DV.C20
