import DuneVerif.Model.C09K
import DuneVerif.Proofs.C09X
/-!
# C09 (round 4) — every kernel shape of the translator's grammar is lane-wise
-/
namespace DV.C09
open Gen

section Kern
variable {V : Type → Type} {L : Nat} (X : SimdLike V L) (hX : X.Lawful) {K : Type} (R : Arith K) {r c : Nat} (l : Fin L)
  (cj : K → K) (s : KShape)

include hX in
theorem hom_kTerm (alpha : V K) :
    LaneHom2 X l (kTerm X R cj s alpha) (kTerm (V := fun α => α) Xs R cj s (X.lane l alpha)) := by
  intro a b
  unfold kTerm
  cases s.scaled <;> cases s.conj <;> simp [lane_vmul X hX R, hX.lane_map, SimdLike.scalar]

include hX in
theorem hom_kUpd : LaneHom2 X l (kUpd X R s) (kUpd (V := fun α => α) Xs R s) := by
  intro a b
  unfold kUpd
  cases s.sub <;> simp [lane_vsub X hX R, lane_vadd X hX R]

include hX in
theorem kPre_lane : (kPre X R s).map (X.lane l) = kPre (V := fun α => α) Xs R s := by
  unfold kPre
  cases s.init <;> simp [lane_bcast' X hX, SimdLike.scalar]

theorem kernelM_lanewise (pre : Option (V K)) (upd term : V K → V K → V K) (upds terms : K → K → K)
    (hu : LaneHom2 X l upd upds) (ht : LaneHom2 X l term terms)
    (A : RMat (V K) r c) (x : Vector (V K) r) (y : Vector (V K) c) :
    laneVec X l (kernelM pre upd term A x y) =
      kernelM (V := fun α => α) (pre.map (X.lane l)) upds terms (laneRMat X l A) (laneVec X l x) (laneVec X l y) := by
  unfold kernelM
  apply foldl_hom' (laneVec X l)
  intro y i
  cases pre with
  | none =>
    simp only [Option.map_none]
    apply foldl_hom' (laneVec X l)
    intro y j
    simp only [Fin.getElem_fin]
    rw [laneVec_set, hu, ht, laneVec_get, laneVec_get, laneRMat_get]
  | some z =>
    simp only [Option.map_some]
    rw [← laneVec_set X l y i.val i.isLt z]
    apply foldl_hom' (laneVec X l)
    intro y j
    simp only [Fin.getElem_fin]
    rw [laneVec_set, hu, ht, laneVec_get, laneVec_get, laneRMat_get]

include hX in
theorem kernelRunN_lanewise (alpha : V K) (A : RMat (V K) r c) (x : Vector (V K) c) (y : Vector (V K) r) :
    laneVec X l (kernelRunN X R cj s alpha A x y) =
      kernelRunN (V := fun α => α) Xs R cj s (X.lane l alpha) (laneRMat X l A) (laneVec X l x) (laneVec X l y) := by
  unfold kernelRunN
  rw [kernelN_lanewise X l _ _ _ _ _ (hom_kUpd X hX R l s) (hom_kTerm X hX R l cj s alpha), kPre_lane X hX R l s]

include hX in
theorem kernelRunT_lanewise (alpha : V K) (A : RMat (V K) r c) (x : Vector (V K) r) (y : Vector (V K) c) :
    laneVec X l (kernelRunT X R cj s alpha A x y) =
      kernelRunT (V := fun α => α) Xs R cj s (X.lane l alpha) (laneRMat X l A) (laneVec X l x) (laneVec X l y) := by
  unfold kernelRunT
  cases s.form with
  | mtv =>
    simp only
    rw [kernelM_lanewise X l _ _ _ _ _ (hom_kUpd X hX R l s) (hom_kTerm X hX R l cj s alpha), kPre_lane X hX R l s]
  | n =>
    simp only
    rw [kernelT_lanewise X l _ _ _ _ (hom_kUpd X hX R l s) (hom_kTerm X hX R l cj s alpha)]
  | t =>
    simp only
    rw [kernelT_lanewise X l _ _ _ _ (hom_kUpd X hX R l s) (hom_kTerm X hX R l cj s alpha)]

end Kern
section MatSpace
variable {V : Type → Type} {L : Nat} (X : SimdLike V L) (hX : X.Lawful) {K : Type} (R : Arith K) {r c : Nat} (l : Fin L)

theorem rmap2_lanewise (f : V K → V K → V K) (fs : K → K → K) (h : ∀ a b, X.lane l (f a b) = fs (X.lane l a) (X.lane l b))
    (A B : RMat (V K) r c) : laneRMat X l (RMat.map2 f A B) = RMat.map2 fs (laneRMat X l A) (laneRMat X l B) := by
  apply Vector.ext; intro i hi; apply Vector.ext; intro j hj
  simp [laneRMat, RMat.map2, h]

theorem rmap1_lanewise (f : V K → V K) (fs : K → K) (h : ∀ a, X.lane l (f a) = fs (X.lane l a))
    (A : RMat (V K) r c) : laneRMat X l (RMat.map1 f A) = RMat.map1 fs (laneRMat X l A) := by
  apply Vector.ext; intro i hi; apply Vector.ext; intro j hj
  simp [laneRMat, RMat.map1, h]

include hX in
theorem matSpace_lanewise (k : V K) (A B : RMat (V K) r c) :
    laneRMat X l (matAdd X R A B) = matAdd (V := fun α => α) Xs R (laneRMat X l A) (laneRMat X l B) ∧
    laneRMat X l (matSub X R A B) = matSub (V := fun α => α) Xs R (laneRMat X l A) (laneRMat X l B) ∧
    laneRMat X l (matScale X R k A) = matScale (V := fun α => α) Xs R (X.lane l k) (laneRMat X l A) ∧
    laneRMat X l (matDiv X R k A) = matDiv (V := fun α => α) Xs R (X.lane l k) (laneRMat X l A) ∧
    laneRMat X l (matNeg X R A) = matNeg (V := fun α => α) Xs R (laneRMat X l A) ∧
    laneRMat X l (matAxpy X R k A B) = matAxpy (V := fun α => α) Xs R (X.lane l k) (laneRMat X l A) (laneRMat X l B) := by
  refine ⟨rmap2_lanewise X l _ _ (lane_vadd X hX R l) A B, rmap2_lanewise X l _ _ (lane_vsub X hX R l) A B,
    rmap1_lanewise X l _ _ (fun a => lane_vmul X hX R l a k) A, rmap1_lanewise X l _ _ (fun a => lane_vdiv X hX R l a k) A,
    rmap1_lanewise X l _ _ (lane_vneg X hX R l) A, rmap2_lanewise X l _ _ (fun y x => ?_) A B⟩
  rw [lane_vadd X hX R, lane_vmul X hX R]

end MatSpace
end DV.C09
