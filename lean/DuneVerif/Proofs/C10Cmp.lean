/-
C10 helper lemmas, part 3: the top-down comparison scan and the `!=` scan.  Core Lean only.
-/
import DuneVerif.Proofs.C10Basic

namespace DV.C10
open DV.C10.Gen

theorem compare_add_right (a x t : Nat) : compare (a + t) (x + t) = compare a x := by
  rw [Nat.compare_eq_ite_lt, Nat.compare_eq_ite_lt]
  simp only [Nat.add_lt_add_iff_right]

/-- the scan from the most significant digit is the three-way comparison of the values -/
theorem cmpTop_eq : ∀ (a x : List Nat), a.length = x.length → Digs a → Digs x →
    cmpTop a x = compare (val a) (val x)
  | [], [], _, _, _ => by simp [cmpTop]
  | [], _ :: _, h, _, _ => by simp at h
  | _ :: _, [], h, _, _ => by simp at h
  | a :: as, x :: xs, h, ha, hx => by
    rw [digs_cons] at ha hx
    have h1 := ha.1
    have h2 := hx.1
    simp only [cmpTop, val_cons]
    rw [cmpTop_eq as xs (by simpa using h) ha.2 hx.2]
    rcases Nat.lt_trichotomy (val as) (val xs) with hlt | heq | hgt
    · rw [Nat.compare_eq_lt.2 hlt]
      exact (Nat.compare_eq_lt.2 (by rw [B_eq] at *; omega)).symm
    · rw [heq, Nat.compare_eq_eq.2 rfl]
      exact (compare_add_right a x _).symm
    · rw [Nat.compare_eq_gt.2 hgt]
      exact (Nat.compare_eq_gt.2 (by rw [B_eq] at *; omega)).symm

theorem compare_beq_lt (m n : Nat) : (compare m n == Ordering.lt) = decide (m < n) := by
  rcases Nat.lt_trichotomy m n with h | h | h
  · rw [Nat.compare_eq_lt.2 h]; simp [h]
  · rw [Nat.compare_eq_eq.2 h]; subst h; simp
  · rw [Nat.compare_eq_gt.2 h]
    have : ¬ m < n := by omega
    simp [this]

theorem compare_bne_gt (m n : Nat) : (compare m n != Ordering.gt) = decide (m ≤ n) := by
  rcases Nat.lt_trichotomy m n with h | h | h
  · rw [Nat.compare_eq_lt.2 h]
    have : m ≤ n := by omega
    simp [this]
  · rw [Nat.compare_eq_eq.2 h]; subst h; simp
  · rw [Nat.compare_eq_gt.2 h]
    have : ¬ m ≤ n := by omega
    simp [this]

theorem lt_val' {n : Nat} {a x : List Nat} (ha : Wf n a) (hx : Wf n x) : lt a x = decide (val a < val x) := by
  rw [lt, cmpTop_eq a x (by rw [ha.1, hx.1]) ha.2 hx.2, compare_beq_lt]

theorem le_val' {n : Nat} {a x : List Nat} (ha : Wf n a) (hx : Wf n x) : le a x = decide (val a ≤ val x) := by
  rw [le, cmpTop_eq a x (by rw [ha.1, hx.1]) ha.2 hx.2, compare_bne_gt]

set_option linter.unusedSimpArgs false

theorem gt_val' {n : Nat} {a x : List Nat} (ha : Wf n a) (hx : Wf n x) : gt a x = decide (val x < val a) := by
  simp only [gt, gtDef, evalCmpDef, primCmp, le_val' ha hx, lt_val' ha hx, lt_val' hx ha, le_val' hx ha]
  all_goals (rw [Bool.eq_iff_iff]; simp)
  all_goals omega

theorem ge_val' {n : Nat} {a x : List Nat} (ha : Wf n a) (hx : Wf n x) : ge a x = decide (val x ≤ val a) := by
  simp only [ge, geDef, evalCmpDef, primCmp, le_val' ha hx, lt_val' ha hx, lt_val' hx ha, le_val' hx ha]
  all_goals (rw [Bool.eq_iff_iff]; simp)
  all_goals omega

/-- the `!=` scan finds a differing digit iff the digit lists differ -/
theorem ne_eq_decide : ∀ (a x : List Nat), a.length = x.length → ne a x = decide (a ≠ x)
  | [], [], _ => by simp [ne]
  | [], _ :: _, h => by simp at h
  | _ :: _, [], h => by simp at h
  | a :: as, x :: xs, h => by
    simp only [ne]
    by_cases hax : a = x
    · subst hax
      rw [ne_eq_decide as xs (by simpa using h)]
      simp
    · simp [hax]

theorem ne_val' {n : Nat} {a x : List Nat} (ha : Wf n a) (hx : Wf n x) : ne a x = decide (val a ≠ val x) := by
  rw [ne_eq_decide a x (by rw [ha.1, hx.1])]
  apply decide_eq_decide.2
  constructor
  · intro h hv; exact h (val_inj ha hx hv)
  · intro h e; exact h (by rw [e])

theorem eq_val' {n : Nat} {a x : List Nat} (ha : Wf n a) (hx : Wf n x) : eq a x = decide (val a = val x) := by
  simp only [eq, eqDef, evalCmpDef, primCmp, ne_val' ha hx, ne_val' hx ha]
  all_goals (rw [Bool.eq_iff_iff]; simp)
  all_goals omega

end DV.C10
