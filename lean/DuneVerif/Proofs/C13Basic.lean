import DuneVerif.Model.C13
/-! C13, level 1: list lemmas about the sorted insertions of the model. Core Lean only. -/
namespace DV.C13

theorem idxLt_iff (a b : IdxEntry) : idxLt a b = true ↔ a.g < b.g ∨ (a.g = b.g ∧ a.attr < b.attr) := by
  simp [idxLt]

theorem remLt_iff (a b : RemEntry) : remLt a b = true ↔ a.g < b.g ∨ (a.g = b.g ∧ a.own < b.own) := by
  simp [remLt]

theorem sameKey_iff (a b : RemEntry) : sameKey a b = true ↔ a.g = b.g ∧ a.own = b.own := by
  simp [sameKey]

theorem hasKey_iff (idx : List IdxEntry) (g : Int) (a : Nat) :
    hasKey idx g a = true ↔ ∃ e ∈ idx, e.g = g ∧ e.attr = a := by
  simp [hasKey]

/-! ### generic: strictly sorted lists are determined by their members -/

theorem pairwise_ext {α : Type} (lt : α → α → Prop) (irr : ∀ a, ¬ lt a a) (asym : ∀ a b, lt a b → ¬ lt b a) :
    ∀ (l₁ l₂ : List α), l₁.Pairwise lt → l₂.Pairwise lt → (∀ x, x ∈ l₁ ↔ x ∈ l₂) → l₁ = l₂
  | [], [], _, _, _ => rfl
  | [], b :: _, _, _, h => by have := (h b).2 (by simp); simp at this
  | a :: _, [], _, _, h => by have := (h a).1 (by simp); simp at this
  | a :: t₁, b :: t₂, h₁, h₂, h => by
    rw [List.pairwise_cons] at h₁ h₂
    have hab : a = b := by
      have ha := (h a).1 (by simp)
      have hb := (h b).2 (by simp)
      simp only [List.mem_cons] at ha hb
      rcases ha with ha | ha
      · exact ha
      · rcases hb with hb | hb
        · exact hb.symm
        · exact absurd (h₁.1 b hb) (asym _ _ (h₂.1 a ha))
    subst hab
    have : t₁ = t₂ := by
      apply pairwise_ext lt irr asym t₁ t₂ h₁.2 h₂.2
      intro x
      constructor
      · intro hx
        have := (h x).1 (by simp [hx])
        simp only [List.mem_cons] at this
        rcases this with rfl | h'
        · exact absurd (h₁.1 x hx) (irr x)
        · exact h'
      · intro hx
        have := (h x).2 (by simp [hx])
        simp only [List.mem_cons] at this
        rcases this with rfl | h'
        · exact absurd (h₂.1 x hx) (irr x)
        · exact h'
    rw [this]

/-! ### index set insertion -/

theorem mem_insertIdx (n e : IdxEntry) : ∀ l : List IdxEntry, e ∈ insertIdx n l ↔ e = n ∨ e ∈ l
  | [] => by simp [insertIdx]
  | h :: t => by
    unfold insertIdx
    split
    · simp only [List.mem_cons, mem_insertIdx n e t]
      constructor
      · rintro (h1 | h1 | h1) <;> simp [h1]
      · rintro (h1 | h1 | h1) <;> simp [h1]
    · simp

theorem pairwise_insertIdx (n : IdxEntry) :
    ∀ l : List IdxEntry, l.Pairwise (fun a b => a.g < b.g) → (∀ e ∈ l, e.g ≠ n.g) →
      (insertIdx n l).Pairwise (fun a b => a.g < b.g)
  | [], _, _ => by simp [insertIdx]
  | h :: t, hp, hn => by
    rw [List.pairwise_cons] at hp
    have hh : h.g ≠ n.g := hn h (by simp)
    unfold insertIdx
    split
    · rename_i hlt
      have hlt' : h.g < n.g := by
        rcases (idxLt_iff h n).1 hlt with h1 | h1
        · exact h1
        · exact absurd h1.1 hh
      rw [List.pairwise_cons]
      refine ⟨?_, pairwise_insertIdx n t hp.2 (fun e he => hn e (by simp [he]))⟩
      intro e he
      rcases (mem_insertIdx n e t).1 he with rfl | he
      · exact hlt'
      · exact hp.1 e he
    · rename_i hlt
      have hlt' : n.g < h.g := by
        have : ¬ (h.g < n.g ∨ (h.g = n.g ∧ h.attr < n.attr)) := fun hc => hlt ((idxLt_iff h n).2 hc)
        omega
      rw [List.pairwise_cons]
      refine ⟨?_, List.pairwise_cons.2 hp⟩
      intro e he
      simp only [List.mem_cons] at he
      rcases he with rfl | he
      · exact hlt'
      · exact Int.lt_trans hlt' (hp.1 e he)

theorem hasKey_insertIdx (n : IdxEntry) (l : List IdxEntry) (g : Int) (a : Nat) :
    hasKey (insertIdx n l) g a = true ↔ (n.g = g ∧ n.attr = a) ∨ hasKey l g a = true := by
  simp only [hasKey_iff]
  constructor
  · rintro ⟨e, he, h1⟩
    rcases (mem_insertIdx n e l).1 he with rfl | he
    · exact Or.inl h1
    · exact Or.inr ⟨e, he, h1⟩
  · rintro (h1 | ⟨e, he, h1⟩)
    · exact ⟨n, (mem_insertIdx n n l).2 (Or.inl rfl), h1⟩
    · exact ⟨e, (mem_insertIdx n e l).2 (Or.inr he), h1⟩

/-! ### remote index list insertion -/

theorem mem_takeWhile' {α : Type} (p : α → Bool) (x : α) : ∀ l : List α, x ∈ l.takeWhile p → p x = true ∧ x ∈ l
  | [], h => by simp at h
  | a :: t, h => by
    rw [List.takeWhile_cons] at h
    split at h
    · rename_i hpa
      simp only [List.mem_cons] at h
      rcases h with rfl | h
      · exact ⟨hpa, by simp⟩
      · have := mem_takeWhile' p x t h
        exact ⟨this.1, by simp [this.2]⟩
    · simp at h

theorem mem_insertEntry (n e : RemEntry) : ∀ l : List RemEntry, e ∈ insertEntry n l ↔ e = n ∨ e ∈ l
  | [] => by simp [insertEntry]
  | h :: t => by
    unfold insertEntry
    split
    · simp only [List.mem_cons, mem_insertEntry n e t]
      constructor
      · rintro (h1 | h1 | h1) <;> simp [h1]
      · rintro (h1 | h1 | h1) <;> simp [h1]
    · split
      · simp
      · split
        · rename_i hk hany
          constructor
          · intro h1; exact Or.inr h1
          · rintro (h1 | h1)
            · -- n itself is in the run of equal keys
              subst h1
              rw [List.any_eq_true] at hany
              obtain ⟨x, hx, hr⟩ := hany
              have hx2 := mem_takeWhile' _ x _ hx
              have hx' := hx2.1
              have hxm : x ∈ h :: t := hx2.2
              have hk' := (sameKey_iff x e).1 hx'
              have : x = e := by
                cases x; cases e
                simp at hk' hr
                simp [hk', hr]
              exact this ▸ hxm
            · exact h1
        · simp

theorem insertEntry_of_mem (n : RemEntry) :
    ∀ l : List RemEntry, l.Pairwise (fun a b => a.g < b.g) → n ∈ l → insertEntry n l = l
  | [], _, h => by simp at h
  | h :: t, hp, hm => by
    rw [List.pairwise_cons] at hp
    simp only [List.mem_cons] at hm
    unfold insertEntry
    rcases hm with rfl | hm
    · have h1 : remLt n n = false := by
        have : ¬ (remLt n n = true) := by rw [remLt_iff]; omega
        simpa using this
      have h2 : sameKey n n = true := by rw [sameKey_iff]; exact ⟨rfl, rfl⟩
      simp [h1, h2]
    · have hlt : h.g < n.g := hp.1 n hm
      have h1 : remLt h n = true := by rw [remLt_iff]; exact Or.inl hlt
      simp [h1, insertEntry_of_mem n t hp.2 hm]

theorem pairwise_insertEntry (n : RemEntry) :
    ∀ l : List RemEntry, l.Pairwise (fun a b => a.g < b.g) → (∀ e ∈ l, e.g ≠ n.g) →
      (insertEntry n l).Pairwise (fun a b => a.g < b.g)
  | [], _, _ => by simp [insertEntry]
  | h :: t, hp, hn => by
    rw [List.pairwise_cons] at hp
    have hh : h.g ≠ n.g := hn h (by simp)
    have hk : sameKey h n = false := by
      have : ¬ (sameKey h n = true) := by rw [sameKey_iff]; exact fun hc => hh hc.1
      simpa using this
    unfold insertEntry
    split
    · rename_i hlt
      have hlt' : h.g < n.g := by
        rcases (remLt_iff h n).1 hlt with h1 | h1
        · exact h1
        · exact absurd h1.1 hh
      rw [List.pairwise_cons]
      refine ⟨?_, pairwise_insertEntry n t hp.2 (fun e he => hn e (by simp [he]))⟩
      intro e he
      rcases (mem_insertEntry n e t).1 he with rfl | he
      · exact hlt'
      · exact hp.1 e he
    · rename_i hlt
      have hlt' : n.g < h.g := by
        have : ¬ (h.g < n.g ∨ (h.g = n.g ∧ h.own < n.own)) := fun hc => hlt ((remLt_iff h n).2 hc)
        omega
      simp only [hk, Bool.not_false, if_true]
      rw [List.pairwise_cons]
      refine ⟨?_, List.pairwise_cons.2 hp⟩
      intro e he
      simp only [List.mem_cons] at he
      rcases he with rfl | he
      · exact hlt'
      · exact Int.lt_trans hlt' (hp.1 e he)

/-! ### the neighbour map -/

theorem listOf_nil (x : Nat) : listOf [] x = [] := by simp [listOf, List.lookup]

theorem listOf_cons (y : Nat) (l : List RemEntry) (rest : List (Nat × List RemEntry)) (x : Nat) :
    listOf ((y, l) :: rest) x = if x = y then l else listOf rest x := by
  unfold listOf
  by_cases h : x = y
  · subst h; simp [List.lookup]
  · have : (x == y) = false := by simpa using h
    simp [List.lookup, this, h]

theorem isNeighbour_cons (y : Nat) (l : List RemEntry) (rest : List (Nat × List RemEntry)) (x : Nat) :
    isNeighbour ((y, l) :: rest) x = true ↔ y = x ∨ isNeighbour rest x = true := by
  simp [isNeighbour]

theorem isNeighbour_iff (r : List (Nat × List RemEntry)) (x : Nat) :
    isNeighbour r x = true ↔ ∃ l, (x, l) ∈ r := by
  simp only [isNeighbour, List.any_eq_true, beq_iff_eq]
  constructor
  · rintro ⟨⟨y, l⟩, h1, h2⟩
    simp at h2
    subst h2
    exact ⟨l, h1⟩
  · rintro ⟨l, h⟩
    exact ⟨(x, l), h, rfl⟩

/-- in a map with strictly ascending keys the list of a key is the list of its pair -/
theorem listOf_of_mem : ∀ (r : List (Nat × List RemEntry)), r.Pairwise (fun a b => a.1 < b.1) →
    ∀ x l, (x, l) ∈ r → listOf r x = l
  | [], _, _, _, h => by simp at h
  | (y, l') :: rest, hp, x, l, h => by
    rw [List.pairwise_cons] at hp
    rw [listOf_cons]
    simp only [List.mem_cons, Prod.mk.injEq] at h
    rcases h with ⟨rfl, rfl⟩ | h
    · simp
    · have : y < x := hp.1 (x, l) h
      have hne : x ≠ y := by omega
      simp [hne, listOf_of_mem rest hp.2 x l h]

theorem listOf_eq_nil_of_not_neighbour (r : List (Nat × List RemEntry)) (x : Nat)
    (h : isNeighbour r x = false) : listOf r x = [] := by
  induction r with
  | nil => exact listOf_nil x
  | cons hd tl ih =>
    obtain ⟨y, l⟩ := hd
    have hn : ¬ (isNeighbour ((y, l) :: tl) x = true) := by simp [h]
    rw [isNeighbour_cons] at hn
    have h1 : x ≠ y := fun hc => hn (Or.inl hc.symm)
    have h2 : isNeighbour tl x = false := by
      cases hh : isNeighbour tl x
      · rfl
      · exact absurd (Or.inr hh) hn
    rw [listOf_cons]
    simp [h1, ih h2]

theorem mem_of_mem_listOf (r : List (Nat × List RemEntry)) (x : Nat) (en : RemEntry)
    (h : en ∈ listOf r x) : ∃ l, (x, l) ∈ r ∧ en ∈ l := by
  induction r with
  | nil => simp [listOf_nil] at h
  | cons hd tl ih =>
    obtain ⟨y, l⟩ := hd
    rw [listOf_cons] at h
    by_cases hxy : x = y
    · subst hxy
      simp at h
      exact ⟨l, by simp, h⟩
    · simp [hxy] at h
      obtain ⟨l', h1, h2⟩ := ih h
      exact ⟨l', by simp [h1], h2⟩

theorem listOf_insertRemote_other (x : Nat) (n : RemEntry) (x' : Nat) (hne : x' ≠ x) :
    ∀ r : List (Nat × List RemEntry), listOf (insertRemote x n r) x' = listOf r x'
  | [] => by simp [insertRemote, listOf_cons, listOf_nil, hne]
  | (y, l) :: rest => by
    unfold insertRemote
    split
    · rw [listOf_cons, listOf_cons, listOf_insertRemote_other x n x' hne rest]
    · split
      · rename_i h1 h2
        subst h2
        rw [listOf_cons, listOf_cons]
        simp [hne]
      · rw [listOf_cons]
        simp [hne]

theorem listOf_insertRemote_same (x : Nat) (n : RemEntry) :
    ∀ r : List (Nat × List RemEntry), r.Pairwise (fun a b => a.1 < b.1) →
      listOf (insertRemote x n r) x = insertEntry n (listOf r x)
  | [], _ => by simp [insertRemote, listOf_cons, listOf_nil, insertEntry]
  | (y, l) :: rest, hp => by
    rw [List.pairwise_cons] at hp
    unfold insertRemote
    split
    · rename_i h1
      have hne : x ≠ y := by omega
      rw [listOf_cons, listOf_cons]
      simp [hne, listOf_insertRemote_same x n rest hp.2]
    · split
      · rename_i h1 h2
        subst h2
        rw [listOf_cons, listOf_cons]
        simp
      · rename_i h1 h2
        have hlt : x < y := by omega
        have hnn : isNeighbour ((y, l) :: rest) x = false := by
          cases hh : isNeighbour ((y, l) :: rest) x
          · rfl
          · rw [isNeighbour_iff] at hh
            obtain ⟨l', hl'⟩ := hh
            simp only [List.mem_cons, Prod.mk.injEq] at hl'
            rcases hl' with ⟨h3, _⟩ | hl'
            · omega
            · have := hp.1 (x, l') hl'
              simp at this
              omega
        rw [listOf_cons, listOf_eq_nil_of_not_neighbour _ _ hnn]
        simp [insertEntry]

theorem isNeighbour_insertRemote (x : Nat) (n : RemEntry) (x' : Nat) :
    ∀ r : List (Nat × List RemEntry), isNeighbour (insertRemote x n r) x' = true ↔ x' = x ∨ isNeighbour r x' = true
  | [] => by
    simp only [insertRemote, isNeighbour, List.any_cons, List.any_nil, Bool.or_false, beq_iff_eq]
    constructor
    · intro h; exact Or.inl h.symm
    · rintro (h | h)
      · exact h.symm
      · simp at h
  | (y, l) :: rest => by
    unfold insertRemote
    split
    · rw [isNeighbour_cons, isNeighbour_cons, isNeighbour_insertRemote x n x' rest]
      constructor
      · rintro (h | h | h) <;> simp [h]
      · rintro (h | h | h) <;> simp [h]
    · split
      · rename_i h1 h2
        subst h2
        rw [isNeighbour_cons, isNeighbour_cons]
        constructor
        · rintro (h | h) <;> simp [h]
        · rintro (h | h | h) <;> simp [h]
      · rw [isNeighbour_cons]
        constructor
        · rintro (h | h) <;> simp [h]
        · rintro (h | h) <;> simp [h]

theorem mem_insertRemote (x : Nat) (n : RemEntry) :
    ∀ r : List (Nat × List RemEntry), r.Pairwise (fun a b => a.1 < b.1) → ∀ y l, (y, l) ∈ insertRemote x n r →
      (y, l) ∈ r ∨ (y = x ∧ l = insertEntry n (listOf r x))
  | [], _, y, l, h => by
    simp [insertRemote] at h
    right
    simp [h, listOf_nil, insertEntry]
  | (z, lz) :: rest, hp, y, l, h => by
    have hp' := List.pairwise_cons.1 hp
    have hsame := listOf_insertRemote_same x n ((z, lz) :: rest) hp
    unfold insertRemote at h hsame
    split at h
    · rename_i h1
      simp only [List.mem_cons, Prod.mk.injEq] at h
      rcases h with ⟨rfl, rfl⟩ | h
      · left; simp
      · rcases mem_insertRemote x n rest hp'.2 y l h with h2 | ⟨h2, h3⟩
        · left; simp [h2]
        · right
          have hne : x ≠ z := by omega
          refine ⟨h2, ?_⟩
          rw [listOf_cons]
          simp [hne, h3]
    · split at h
      · rename_i h1 h2
        subst h2
        simp only [List.mem_cons, Prod.mk.injEq] at h
        rcases h with ⟨rfl, rfl⟩ | h
        · right
          refine ⟨rfl, ?_⟩
          rw [listOf_cons]; simp
        · left; simp [h]
      · rename_i h1 h2
        simp only [List.mem_cons, Prod.mk.injEq] at h
        rcases h with ⟨rfl, rfl⟩ | ⟨rfl, rfl⟩ | h
        · right
          refine ⟨rfl, ?_⟩
          simp only [h1, h2, if_false] at hsame
          rw [← hsame, listOf_cons]
          simp
        · left; simp
        · left; simp [h]

theorem pairwise_insertRemote (x : Nat) (n : RemEntry) :
    ∀ r : List (Nat × List RemEntry), r.Pairwise (fun a b => a.1 < b.1) →
      (insertRemote x n r).Pairwise (fun a b => a.1 < b.1)
  | [], _ => by simp [insertRemote]
  | (z, lz) :: rest, hp => by
    have hp' := List.pairwise_cons.1 hp
    unfold insertRemote
    split
    · rename_i h1
      rw [List.pairwise_cons]
      refine ⟨?_, pairwise_insertRemote x n rest hp'.2⟩
      intro a ha
      obtain ⟨y, l⟩ := a
      rcases mem_insertRemote x n rest hp'.2 y l ha with h2 | ⟨h2, _⟩
      · exact hp'.1 _ h2
      · subst h2; exact h1
    · split
      · rename_i h1 h2
        subst h2
        rw [List.pairwise_cons]
        exact ⟨hp'.1, hp'.2⟩
      · rename_i h1 h2
        have hlt : x < z := by omega
        rw [List.pairwise_cons]
        refine ⟨?_, hp⟩
        intro a ha
        simp only [List.mem_cons] at ha
        rcases ha with rfl | ha
        · exact hlt
        · exact Nat.lt_trans hlt (hp'.1 a ha)

/-- maps with strictly ascending keys are determined by their key set and the list of every key -/
theorem remote_ext : ∀ (r₁ r₂ : List (Nat × List RemEntry)),
    r₁.Pairwise (fun a b => a.1 < b.1) → r₂.Pairwise (fun a b => a.1 < b.1) →
    (∀ x, isNeighbour r₁ x = true ↔ isNeighbour r₂ x = true) → (∀ x, listOf r₁ x = listOf r₂ x) → r₁ = r₂ := by
  intro r₁ r₂ h₁ h₂ hk hl
  apply pairwise_ext (fun a b : Nat × List RemEntry => a.1 < b.1) (fun a => Nat.lt_irrefl _)
    (fun a b h => Nat.lt_asymm h) r₁ r₂ h₁ h₂
  intro ⟨x, l⟩
  constructor
  · intro h
    have hn : isNeighbour r₂ x = true := (hk x).1 ((isNeighbour_iff r₁ x).2 ⟨l, h⟩)
    obtain ⟨l', hl'⟩ := (isNeighbour_iff r₂ x).1 hn
    have e1 := listOf_of_mem r₁ h₁ x l h
    have e2 := listOf_of_mem r₂ h₂ x l' hl'
    have : l = l' := by rw [← e1, ← e2, hl x]
    exact this ▸ hl'
  · intro h
    have hn : isNeighbour r₁ x = true := (hk x).2 ((isNeighbour_iff r₂ x).2 ⟨l, h⟩)
    obtain ⟨l', hl'⟩ := (isNeighbour_iff r₁ x).1 hn
    have e1 := listOf_of_mem r₂ h₂ x l h
    have e2 := listOf_of_mem r₁ h₁ x l' hl'
    have : l = l' := by rw [← e1, ← e2, hl x]
    exact this ▸ hl'

end DV.C13
