import DuneVerif.Model.C06Fix
import DuneVerif.Proofs.C06Rank
/-! C06 helper lemmas, part 8: the rank-level system of `communicateFixedSize` (`FixSys`). -/
namespace DV.C06
variable {α : Type}

/-! ### the data machine of a link before and at the arrival of the scalar size -/

theorem isEmpty_eq_length (l : List Nat) : (!l.isEmpty) = decide (l.length ≠ 0) := by
  cases l <;> simp

/-- what `dst` does when the scalar has arrived turns the half-started machine into the state `dataInit` describes
    (the sender cannot have moved: its first message needs the receive that is posted only now) -/
theorem seenRecv_init (B : Nat) (l : FLinkSpec α) (hf : l.f ≠ 0) :
    seenRecv (fixInitDt B l) l.f = (dataInit B l.pair).state := by
  have hp : l.pair.f ≠ 0 := hf
  cases hr : l.recvIdx with
  | nil =>
    simp [seenRecv, fixInitDt, startSend, Pair.blank, dataInit, Pair.init, dataCfg, PairSpec.recvTracker, FLinkSpec.pair, hf, hr,
      Tracker.setFixedSize, Tracker.skipZeroIndices, Tracker.mk', Tracker.finished, setupRecv, Tracker.indicesLeft,
      MessageBuffer.new, MessageBuffer.reset]
  | cons j js =>
    simp [seenRecv, fixInitDt, startSend, Pair.blank, dataInit, Pair.init, dataCfg, PairSpec.recvTracker, FLinkSpec.pair, hf, hr,
      Tracker.setFixedSize, Tracker.skipZeroIndices, Tracker.mk', Tracker.finished, setupRecv, Tracker.indicesLeft,
      MessageBuffer.new, MessageBuffer.reset]

theorem fixInitDt_sendOpen (B : Nat) (l : FLinkSpec α) : (fixInitDt B l).sendOpen = (dataInit B l.pair).state.sendOpen := rfl

theorem fixInitDt_recvOpen (B : Nat) (l : FLinkSpec α) (hf : l.f ≠ 0) :
    (fixInitDt B l).recvOpen = (dataInit B l.pair).state.recvOpen := by
  cases hr : l.recvIdx <;>
    simp [fixInitDt, startSend, Pair.blank, dataInit, Pair.init, dataCfg, PairSpec.recvTracker, FLinkSpec.pair, hf, hr,
      Tracker.setFixedSize, Tracker.skipZeroIndices, Tracker.mk', setupRecv, Tracker.indicesLeft]

theorem fixInitDt_stuck (c : PairCfg α (List (Call α))) (B : Nat) (l : FLinkSpec α) (a : Action) :
    Pair.step c (fixInitDt B l) a = none := by
  refine stuck_of_fields c _ (Or.inl (by simp [fixInitDt, startSend, Pair.blank])) ?_ (by simp [fixInitDt, startSend, Pair.blank]) a
  simp only [fixInitDt, startSend]
  split <;> simp

/-- a send request exists exactly for the non-empty send lists (the "skip empty interfaces" loop counts the lists) -/
theorem fixInitDt_sendOpen_iff (B : Nat) (l : FLinkSpec α) (hf : l.f ≠ 0) (hfit : Fits l.h B l.f l.sendIdx) :
    (fixInitDt B l).sendOpen = !l.sendIdx.isEmpty := by
  obtain ⟨_, _, h3⟩ := setupSend_sendT l.h B l.f 0 0 l.sendIdx (MessageBuffer.new B) rfl hfit
  have hs : (fixInitDt B l).sendOpen
      = (setupSend l.h (sendT 0 0 l.sendIdx l.f) (MessageBuffer.new B)).message.isSome := by
    simp [fixInitDt, startSend, FLinkSpec.pair, mk'_send]
  rw [hs, h3]
  by_cases hz : total l.h l.sendIdx = 0
  · have hz1 : total l.h (round1 l.h B l.f l.sendIdx).1 = 0 := by
      have := congrArg (total l.h) (round1_append l.h B l.f l.sendIdx)
      simp at this; omega
    rcases hfit with ⟨h0, _⟩ | ⟨h0, _, hsz⟩
    · exact absurd h0 hf
    · have hlen : l.sendIdx.length * l.f = 0 := by rw [← total_fixed l.h l.f l.sendIdx hsz]; exact hz
      have : l.sendIdx = [] := by
        rcases Nat.mul_eq_zero.1 hlen with h | h
        · exact List.eq_nil_of_length_eq_zero h
        · exact absurd h h0
      rw [if_neg (by simpa using hz1), this]
      rfl
  · have ht : 0 < total l.h l.sendIdx := Nat.pos_of_ne_zero hz
    have hne : l.sendIdx ≠ [] := by intro e; rw [e] at ht; simp at ht
    have := total_round_pos hfit ht
    cases hl : l.sendIdx with
    | nil => exact absurd hl hne
    | cons i is => rw [hl] at this; simp [this]


/-! ### counters (generic in the link types) -/

@[simp] theorem scalar_ms : (Scalar.matched != Scalar.seen) = true := by decide
@[simp] theorem scalar_ps : (Scalar.pending != Scalar.seen) = true := by decide
@[simp] theorem scalar_ss : (Scalar.seen != Scalar.seen) = false := by decide

theorem counters_step_g {γ δ : Type} (sel : Nat → γ → δ → Bool) (key : γ → Nat) (opn : δ → Bool)
    (hsel : ∀ p l x, sel p l x = (key l == p && opn x))
    (specs : List γ) (links : List δ) (i : Nat) (l : γ) (x x' : δ)
    (hl : specs[i]? = some l) (hx : links[i]? = some x) (cs : List Nat) (hk : key l < cs.length) (hopen : opn x = true)
    (p : Nat) (hcnt : cs.getD p 0 = countSel (sel p) specs links) :
    (decIf (opn x && !opn x') (key l) cs).getD p 0 = countSel (sel p) specs (links.set i x') := by
  have hset := countSel_set (sel p) specs links i l x x' hl hx
  by_cases hp : key l = p
  · subst hp
    rw [getD_decIf_self _ _ _ hk, hcnt]
    simp only [hsel, beq_self_eq_true, Bool.true_and, hopen, if_true] at hset
    cases ho : opn x' with
    | true => simp only [ho, if_true] at hset; simp [hopen]; omega
    | false => simp only [ho, Bool.false_eq_true, if_false] at hset; simp [hopen]; omega
  · rw [getD_decIf_ne _ _ _ _ hp, hcnt]
    have hb : (key l == p) = false := by simpa using hp
    simp only [hsel, hb, Bool.false_and, Bool.false_eq_true, if_false] at hset
    omega

/-! ### the invariant of one link -/

structure FLinkInv (B n : Nat) (ph : List Nat) (l : FLinkSpec α) (x : FLinkSt α) : Prop where
  src_lt : l.src < n
  dst_lt : l.dst < n
  hlen : l.recvIdx.length = l.sendIdx.length
  fits : Fits l.h B l.f l.sendIdx
  fpos : l.f ≠ 0
  /-- until `dst` has seen the scalar the data machine rests in its half-started state -/
  pre : x.sc ≠ .seen → x.dt = fixInitDt B l
  /-- the delivered scalar is the sender's size -/
  rfok : x.sc = .matched → x.rf = l.f
  post : x.sc = .seen → GoodData B l.pair ⟨dataCfg l.pair, x.dt⟩
  /-- a rank returns only with every scalar seen and every data request closed, and after `MPI_Waitall` -/
  rret : ph.getD l.dst 3 = 1 → x.sc = .seen ∧ x.dt.recvOpen = false
  sret : ph.getD l.src 3 = 1 → x.sc ≠ .pending ∧ x.dt.sendOpen = false

def flinkMeasure (l : FLinkSpec α) (x : FLinkSt α) : Nat :=
  x.sc.weight + (if x.sc = .seen then x.dt.measure else 3 * (l.sendIdx.length + l.recvIdx.length) + 4)

theorem flinkInv_scalar {B n : Nat} {ph : List Nat} {l : FLinkSpec α} {x : FLinkSt α} (hI : FLinkInv B n ph l x)
    (hp : x.sc = .pending) :
    FLinkInv B n ph l { x with sc := .matched, rf := l.f } ∧
      flinkMeasure l { x with sc := .matched, rf := l.f } < flinkMeasure l x := by
  refine ⟨{ hI with pre := ?_, rfok := fun _ => rfl, post := ?_, rret := ?_, sret := ?_ }, ?_⟩
  · intro _; exact hI.pre (by rw [hp]; decide)
  · intro h; cases h
  · intro h; have := (hI.rret h).1; rw [hp] at this; cases this
  · intro h; exact absurd hp (hI.sret h).1
  · simp [flinkMeasure, hp, Scalar.weight]

theorem flinkInv_seen {B n : Nat} {ph : List Nat} {l : FLinkSpec α} {x : FLinkSt α} (hI : FLinkInv B n ph l x)
    (hm : x.sc = .matched) (hph : ph.getD l.dst 3 = 0) :
    FLinkInv B n ph l { x with sc := .seen, dt := seenRecv x.dt x.rf } ∧
      (seenRecv x.dt x.rf).sendOpen = x.dt.sendOpen ∧ (seenRecv x.dt x.rf).recvOpen = x.dt.recvOpen ∧
      flinkMeasure l { x with sc := .seen, dt := seenRecv x.dt x.rf } < flinkMeasure l x := by
  have hdt : x.dt = fixInitDt B l := hI.pre (by rw [hm]; decide)
  have hnew : seenRecv x.dt x.rf = (dataInit B l.pair).state := by
    rw [hdt, hI.rfok hm]; exact seenRecv_init B l hI.fpos
  have hgood : GoodData B l.pair ⟨dataCfg l.pair, (dataInit B l.pair).state⟩ := dataInit_good B l.pair hI.hlen hI.fits
  have hmeas : (dataInit B l.pair).state.measure ≤ 3 * (l.sendIdx.length + l.recvIdx.length) + 4 :=
    dataInit_measure_le B l.pair hI.fits
  have hso : (seenRecv x.dt x.rf).sendOpen = x.dt.sendOpen := by rw [hnew, hdt]; rfl
  have hro : (seenRecv x.dt x.rf).recvOpen = x.dt.recvOpen := by rw [hnew, hdt, fixInitDt_recvOpen B l hI.fpos]
  refine ⟨{ hI with pre := ?_, rfok := ?_, post := ?_, rret := ?_, sret := ?_ }, hso, hro, ?_⟩
  · intro h; exact absurd rfl h
  · intro h; cases h
  · intro _; simp only; rw [hnew]; exact hgood
  · intro h; rw [hph] at h; cases h
  · intro h
    obtain ⟨h1, h2⟩ := hI.sret h
    exact ⟨by simp, by simp only; rw [hso]; exact h2⟩
  · simp only [flinkMeasure, hm, hnew, Scalar.weight, if_true]
    simp
    omega

theorem flinkInv_data_step {B n : Nat} {ph : List Nat} {l : FLinkSpec α} {x : FLinkSt α}
    (hI : FLinkInv B n ph l x) (a : Action) (s' : Pair α (List (Call α)))
    (hs : Pair.step (dataCfg l.pair) x.dt a = some s') :
    x.sc = .seen ∧ FLinkInv B n ph l { x with dt := s' } ∧ s'.measure < x.dt.measure := by
  by_cases hseen : x.sc = .seen
  · obtain ⟨h1, h2⟩ := (goodData_closed B).step l.pair ⟨dataCfg l.pair, x.dt⟩ a s' (hI.post hseen) hs
    refine ⟨hseen, { hI with pre := fun h => absurd hseen h, post := fun _ => h1, rret := ?_, sret := ?_ }, h2⟩
    · intro hp
      obtain ⟨q1, q2⟩ := hI.rret hp
      refine ⟨q1, ?_⟩
      cases ho : s'.recvOpen with
      | false => rfl
      | true => have := step_recvOpen_mono _ _ _ a hs ho; rw [q2] at this; cases this
    · intro hp
      obtain ⟨q1, q2⟩ := hI.sret hp
      refine ⟨q1, ?_⟩
      cases ho : s'.sendOpen with
      | false => rfl
      | true => have := step_sendOpen_mono _ _ _ a hs ho; rw [q2] at this; cases this
  · rw [hI.pre hseen, fixInitDt_stuck] at hs; cases hs

theorem flinkInv_ret {B n : Nat} {ph : List Nat} {l : FLinkSpec α} {x : FLinkSt α} (p : Nat) (hp : p < ph.length)
    (hI : FLinkInv B n ph l x)
    (hr : l.dst = p → x.sc = .seen ∧ x.dt.recvOpen = false) (hs : l.src = p → x.sc ≠ .pending ∧ x.dt.sendOpen = false) :
    FLinkInv B n (ph.set p 1) l x := by
  refine { hI with rret := ?_, sret := ?_ }
  · intro h2
    by_cases h : l.dst = p
    · exact hr h
    · rw [getD_set_phase _ _ _ _ hp, if_neg h] at h2; exact hI.rret h2
  · intro h2
    by_cases h : l.src = p
    · exact hs h
    · rw [getD_set_phase _ _ _ _ hp, if_neg h] at h2; exact hI.sret h2

/-! ### the invariant of the whole system -/

def fMeasure (specs : List (FLinkSpec α)) (g : FixSys α) : Nat := sumSel flinkMeasure specs g.links + phaseSum g.phase

structure FInv (B n : Nat) (specs : List (FLinkSpec α)) (g : FixSys α) : Prop where
  lenP : g.phase.length = n
  lenN : g.noSize.length = n
  lenS : g.toSend.length = n
  lenR : g.toRecv.length = n
  phle : ∀ p, p < n → g.phase.getD p 3 ≤ 1
  links : Rel2 (FLinkInv B n g.phase) specs g.links
  /-- the three counters of a rank in its loop: scalars not yet seen, send requests open, receive lists not yet done -/
  cnt : ∀ p, p < n → g.phase.getD p 3 = 0 →
    g.noSize.getD p 0 = countSel (fNotSeen p) specs g.links ∧
    g.toSend.getD p 0 = countSel (fSendOpen p) specs g.links ∧
    g.toRecv.getD p 0 = countSel (fRecvOpen p) specs g.links

theorem finv_replace {B n : Nat} {specs : List (FLinkSpec α)} {g : FixSys α} (hI : FInv B n specs g) (i : Nat)
    (l : FLinkSpec α) (x' : FLinkSt α) (hl : specs[i]? = some l) (hx' : FLinkInv B n g.phase l x')
    (ns ts tr : List Nat) (hns : ns.length = n) (hts : ts.length = n) (htr : tr.length = n)
    (hc : ∀ p, p < n → g.phase.getD p 3 = 0 →
      ns.getD p 0 = countSel (fNotSeen p) specs (g.links.set i x') ∧
      ts.getD p 0 = countSel (fSendOpen p) specs (g.links.set i x') ∧
      tr.getD p 0 = countSel (fRecvOpen p) specs (g.links.set i x')) :
    FInv B n specs { g with links := g.links.set i x', noSize := ns, toSend := ts, toRecv := tr } :=
  { lenP := hI.lenP, lenN := hns, lenS := hts, lenR := htr, phle := hI.phle, links := hI.links.set i l x' hl hx', cnt := hc }

theorem fMeasure_replace (specs : List (FLinkSpec α)) (g : FixSys α) (i : Nat) (l : FLinkSpec α) (x x' : FLinkSt α)
    (hl : specs[i]? = some l) (hx : g.links[i]? = some x) (ns ts tr : List Nat) (hlt : flinkMeasure l x' < flinkMeasure l x) :
    fMeasure specs { g with links := g.links.set i x', noSize := ns, toSend := ts, toRecv := tr } < fMeasure specs g := by
  have := sumSel_set flinkMeasure specs g.links i l x x' hl hx
  simp only [fMeasure]
  omega

theorem fstep_inv {B n : Nat} {specs : List (FLinkSpec α)} {g g' : FixSys α} (hI : FInv B n specs g)
    (a : FAct) (hs : fixStep B specs g a = some g') : FInv B n specs g' ∧ fMeasure specs g' < fMeasure specs g := by
  cases a with
  | scalar i =>
    simp only [fixStep] at hs
    split at hs
    rotate_left
    · cases hs
    rename_i l x hl hx
    have hL := hI.links.2 i l x hl hx
    split at hs
    rotate_left
    · cases hs
    rename_i hpend
    simp only [Option.some.injEq] at hs
    subst hs
    obtain ⟨hL', hm⟩ := flinkInv_scalar hL hpend
    refine ⟨finv_replace hI i l _ hl hL' g.noSize g.toSend g.toRecv hI.lenN hI.lenS hI.lenR ?_, ?_⟩
    · intro p hp hph
      obtain ⟨c1, c2, c3⟩ := hI.cnt p hp hph
      rw [countSel_set_same (fNotSeen p) specs g.links i l x { x with sc := .matched, rf := l.f } hl hx
            (by simp [fNotSeen, hpend]),
        countSel_set_same (fSendOpen p) specs g.links i l x { x with sc := .matched, rf := l.f } hl hx rfl,
        countSel_set_same (fRecvOpen p) specs g.links i l x { x with sc := .matched, rf := l.f } hl hx rfl]
      exact ⟨c1, c2, c3⟩
    · exact fMeasure_replace specs g i l x _ hl hx _ _ _ hm
  | seen i =>
    simp only [fixStep] at hs
    split at hs
    rotate_left
    · cases hs
    rename_i l x hl hx
    have hL := hI.links.2 i l x hl hx
    split at hs
    rotate_left
    · cases hs
    rename_i hguard
    obtain ⟨hph, hns, hmat⟩ := hguard
    simp only [Option.some.injEq] at hs
    subst hs
    obtain ⟨hL', hso, hro, hm⟩ := flinkInv_seen hL hmat hph
    have hk : l.dst < g.noSize.length := by rw [hI.lenN]; exact hL.dst_lt
    refine ⟨finv_replace hI i l _ hl hL' _ g.toSend g.toRecv (by rw [length_decIf]; exact hI.lenN) hI.lenS hI.lenR ?_, ?_⟩
    · intro p hp hpph
      obtain ⟨c1, c2, c3⟩ := hI.cnt p hp hpph
      refine ⟨?_, ?_, ?_⟩
      · have := counters_step_g fNotSeen (·.dst) (fun (y : FLinkSt α) => y.sc != .seen) (fun _ _ _ => rfl) specs g.links i l x
          { x with sc := .seen, dt := seenRecv x.dt x.rf } hl hx g.noSize hk (by simp [hmat]) p c1
        simpa [hmat] using this
      · rw [countSel_set_same (fSendOpen p) specs g.links i l x { x with sc := .seen, dt := seenRecv x.dt x.rf } hl hx
            (by simp [fSendOpen, hso])]
        exact c2
      · rw [countSel_set_same (fRecvOpen p) specs g.links i l x { x with sc := .seen, dt := seenRecv x.dt x.rf } hl hx
            (by simp [fRecvOpen, hro])]
        exact c3
    · exact fMeasure_replace specs g i l x _ hl hx _ _ _ hm
  | data i act =>
    simp only [fixStep] at hs
    split at hs
    rotate_left
    · cases hs
    rename_i l x hl hx
    have hL := hI.links.2 i l x hl hx
    cases act with
    | deliver =>
      simp only at hs
      cases hst : Pair.step (dataCfg l.pair) x.dt .deliver with
      | none => simp [hst] at hs
      | some s' =>
        simp only [hst, Option.map_some, Option.some.injEq] at hs
        subst hs
        obtain ⟨hseen, hL', hm⟩ := flinkInv_data_step hL _ s' hst
        obtain ⟨_, _, hso, hro, _⟩ := step_deliver_inv _ _ _ hst
        refine ⟨finv_replace hI i l _ hl hL' g.noSize g.toSend g.toRecv hI.lenN hI.lenS hI.lenR ?_, ?_⟩
        · intro p hp hph
          obtain ⟨c1, c2, c3⟩ := hI.cnt p hp hph
          rw [countSel_set_same (fNotSeen p) specs g.links i l x { x with dt := s' } hl hx rfl,
            countSel_set_same (fSendOpen p) specs g.links i l x { x with dt := s' } hl hx (by simp [fSendOpen, hso]),
            countSel_set_same (fRecvOpen p) specs g.links i l x { x with dt := s' } hl hx (by simp [fRecvOpen, hro])]
          exact ⟨c1, c2, c3⟩
        · exact fMeasure_replace specs g i l x _ hl hx _ _ _ (by simp only [flinkMeasure, hseen, if_true]; omega)
    | sendDone =>
      simp only at hs
      split at hs
      rotate_left
      · cases hs
      rename_i hguard
      cases hst : Pair.step (dataCfg l.pair) x.dt .sendDone with
      | none => simp [hst] at hs
      | some s' =>
        simp only [hst, Option.map_some, Option.some.injEq] at hs
        subst hs
        obtain ⟨hseen, hL', hm⟩ := flinkInv_data_step hL _ s' hst
        obtain ⟨hcomp, hro, _, _, _⟩ := step_sendDone_inv _ _ _ hst
        have hopen : x.dt.sendOpen = true := pinv_complete_sendOpen x.dt (hL.post hseen).2.2.2 hcomp
        have hk : l.src < g.toSend.length := by rw [hI.lenS]; exact hL.src_lt
        refine ⟨finv_replace hI i l _ hl hL' g.noSize _ g.toRecv hI.lenN (by rw [length_decIf]; exact hI.lenS) hI.lenR ?_, ?_⟩
        · intro p hp hph
          obtain ⟨c1, c2, c3⟩ := hI.cnt p hp hph
          refine ⟨?_, counters_step_g fSendOpen (·.src) (fun (y : FLinkSt α) => y.dt.sendOpen) (fun _ _ _ => rfl) specs g.links
            i l x { x with dt := s' } hl hx g.toSend hk hopen p c2, ?_⟩
          · rw [countSel_set_same (fNotSeen p) specs g.links i l x { x with dt := s' } hl hx rfl]; exact c1
          · rw [countSel_set_same (fRecvOpen p) specs g.links i l x { x with dt := s' } hl hx (by simp [fRecvOpen, hro])]
            exact c3
        · exact fMeasure_replace specs g i l x _ hl hx _ _ _ (by simp only [flinkMeasure, hseen, if_true]; omega)
    | recvDone =>
      simp only at hs
      split at hs
      rotate_left
      · cases hs
      rename_i hguard
      cases hst : Pair.step (dataCfg l.pair) x.dt .recvDone with
      | none => simp [hst] at hs
      | some s' =>
        simp only [hst, Option.map_some, Option.some.injEq] at hs
        subst hs
        obtain ⟨hseen, hL', hm⟩ := flinkInv_data_step hL _ s' hst
        obtain ⟨⟨m, hcomp⟩, hso, _, _, _⟩ := step_recvDone_inv _ _ _ hst
        have hopen : x.dt.recvOpen = true := pinv_complete_recvOpen x.dt (hL.post hseen).2.2.2 m hcomp
        have hk : l.dst < g.toRecv.length := by rw [hI.lenR]; exact hL.dst_lt
        refine ⟨finv_replace hI i l _ hl hL' g.noSize g.toSend _ hI.lenN hI.lenS (by rw [length_decIf]; exact hI.lenR) ?_, ?_⟩
        · intro p hp hph
          obtain ⟨c1, c2, c3⟩ := hI.cnt p hp hph
          refine ⟨?_, ?_, counters_step_g fRecvOpen (·.dst) (fun (y : FLinkSt α) => y.dt.recvOpen) (fun _ _ _ => rfl) specs g.links
            i l x { x with dt := s' } hl hx g.toRecv hk hopen p c3⟩
          · rw [countSel_set_same (fNotSeen p) specs g.links i l x { x with dt := s' } hl hx rfl]; exact c1
          · rw [countSel_set_same (fSendOpen p) specs g.links i l x { x with dt := s' } hl hx (by simp [fSendOpen, hso])]
            exact c2
        · exact fMeasure_replace specs g i l x _ hl hx _ _ _ (by simp only [flinkMeasure, hseen, if_true]; omega)
  | ret p =>
    simp only [fixStep] at hs
    split at hs
    rotate_left
    · cases hs
    rename_i hguard
    obtain ⟨hpl, hph, hzero, hwait⟩ := hguard
    simp only [Option.some.injEq] at hs
    subst hs
    have hpn : p < n := by rw [← hI.lenP]; exact hpl
    obtain ⟨c1, c2, c3⟩ := hI.cnt p hpn hph
    have hz1 : countSel (fNotSeen p) specs g.links = 0 := by omega
    have hz2 : countSel (fSendOpen p) specs g.links = 0 := by omega
    have hz3 : countSel (fRecvOpen p) specs g.links = 0 := by omega
    have hlinks : Rel2 (FLinkInv B n (g.phase.set p 1)) specs g.links := by
      refine ⟨hI.links.1, fun i l x hl hx => flinkInv_ret p hpl (hI.links.2 i l x hl hx) ?_ ?_⟩
      · intro e
        have h1 := countSel_zero_get _ specs g.links hz1 i l x hl hx
        have h3 := countSel_zero_get _ specs g.links hz3 i l x hl hx
        simp only [fNotSeen, e, beq_self_eq_true, Bool.true_and, bne_eq_false_iff_eq] at h1
        simp only [fRecvOpen, e, beq_self_eq_true, Bool.true_and] at h3
        exact ⟨h1, h3⟩
      · intro e
        have h2 := countSel_zero_get _ specs g.links hz2 i l x hl hx
        have h4 := countSel_zero_get _ specs g.links hwait i l x hl hx
        simp only [fSendOpen, e, beq_self_eq_true, Bool.true_and] at h2
        simp only [fScalarPending, e, beq_self_eq_true, Bool.true_and, beq_eq_false_iff_ne] at h4
        exact ⟨h4, h2⟩
    refine ⟨{ lenP := by simpa using hI.lenP, lenN := hI.lenN, lenS := hI.lenS, lenR := hI.lenR, phle := ?_,
              links := hlinks, cnt := ?_ }, ?_⟩
    · intro q hq
      rw [getD_set_phase _ _ _ _ hpl]
      split
      · omega
      · exact hI.phle q hq
    · intro q hq hqph
      rw [getD_set_phase _ _ _ _ hpl] at hqph
      split at hqph
      · cases hqph
      · exact hI.cnt q hq hqph
    · have := phaseSum_set g.phase p 1 hpl
      rw [hph] at this
      simp only [fMeasure]
      omega


/-! ### initial state, executions, maximal executions -/

/-- what the theorems assume about the links of a fixed-size communication: ranks in range, matching list lengths, one
    size `1 ≤ f ≤ B` for all indices of the send list -/
def ValidFLinks (B n : Nat) (specs : List (FLinkSpec α)) : Prop :=
  ∀ l ∈ specs, l.src < n ∧ l.dst < n ∧ l.recvIdx.length = l.sendIdx.length ∧ l.f ≠ 0 ∧ l.f ≤ B ∧
    ∀ i ∈ l.sendIdx, l.h.size i = l.f

/-- a count over the descriptions alone equals the count over (description, state) when the states are a function of
    the descriptions -/
theorem countSel_map_unit {γ δ : Type} (sel : γ → δ → Bool) (sel' : γ → Unit → Bool) (g : γ → δ)
    (h : ∀ l, sel l (g l) = sel' l ()) : ∀ (ls : List γ),
    countSel sel' ls (ls.map fun _ => ()) = countSel sel ls (ls.map g) := by
  intro ls
  induction ls with
  | nil => rfl
  | cons l ls ih => simp [countSel, h, ih]

theorem fixInit_inv (B n : Nat) (specs : List (FLinkSpec α)) (hv : ValidFLinks B n specs) :
    FInv B n specs (fixInit B n specs) := by
  refine { lenP := by simp [fixInit], lenN := by simp [fixInit], lenS := by simp [fixInit], lenR := by simp [fixInit],
           phle := ?_, links := ?_, cnt := ?_ }
  · intro p hp
    simp only [fixInit]
    rw [getD_replicate_zero n p hp]
    omega
  · simp only [fixInit]
    refine Rel2.of_map _ specs (fun l hl => ?_)
    obtain ⟨h1, h2, h3, h4, h5, h6⟩ := hv l hl
    exact { src_lt := h1, dst_lt := h2, hlen := h3, fits := Or.inr ⟨h4, h5, h6⟩, fpos := h4,
            pre := fun _ => rfl, rfok := fun h => (by cases h), post := fun h => (by cases h),
            rret := fun h => (by rw [getD_replicate_zero n l.dst h2] at h; cases h),
            sret := fun h => (by rw [getD_replicate_zero n l.src h1] at h; cases h) }
  · intro p hp _
    simp only [fixInit]
    rw [getD_range_map _ n p hp, getD_range_map _ n p hp, getD_range_map _ n p hp]
    -- over the initial links the three counts are the numbers of neighbours / non-empty send lists / non-empty receive lists;
    -- the equality of the middle one needs `f ≤ B` (a non-empty list does produce a message)
    have key : ∀ (ls : List (FLinkSpec α)), (∀ l ∈ ls, l.f ≠ 0 ∧ Fits l.h B l.f l.sendIdx) →
        countSel (fun (l : FLinkSpec α) (_ : Unit) => l.dst == p) ls (ls.map fun _ => ())
          = countSel (fNotSeen p) ls (ls.map fun l => ({ sc := .pending, rf := l.own, dt := fixInitDt B l } : FLinkSt α)) ∧
        countSel (fun (l : FLinkSpec α) (_ : Unit) => l.src == p && !l.sendIdx.isEmpty) ls (ls.map fun _ => ())
          = countSel (fSendOpen p) ls (ls.map fun l => ({ sc := .pending, rf := l.own, dt := fixInitDt B l } : FLinkSt α)) ∧
        countSel (fun (l : FLinkSpec α) (_ : Unit) => l.dst == p && !l.recvIdx.isEmpty) ls (ls.map fun _ => ())
          = countSel (fRecvOpen p) ls (ls.map fun l => ({ sc := .pending, rf := l.own, dt := fixInitDt B l } : FLinkSt α)) := by
      intro ls
      induction ls with
      | nil => intro _; exact ⟨rfl, rfl, rfl⟩
      | cons l ls ih =>
        intro h
        obtain ⟨i1, i2, i3⟩ := ih (fun q hq => h q (by simp [hq]))
        obtain ⟨hf0, hfit⟩ := h l (by simp)
        refine ⟨?_, ?_, ?_⟩
        · simp only [List.map_cons, countSel, fNotSeen, scalar_ps, Bool.and_true, i1]
        · simp only [List.map_cons, countSel, fSendOpen, fixInitDt_sendOpen_iff B l hf0 hfit, i2]
        · have : (fixInitDt B l).recvOpen = !l.recvIdx.isEmpty := by simp [fixInitDt, startSend, Pair.blank]
          simp only [List.map_cons, countSel, fRecvOpen, this, i3]
    exact key specs (fun l hl => by
      obtain ⟨_, _, _, h4, h5, h6⟩ := hv l hl
      exact ⟨h4, Or.inr ⟨h4, h5, h6⟩⟩)

theorem fixInit_measure (B n : Nat) (specs : List (FLinkSpec α)) :
    fMeasure specs (fixInit B n specs) ≤ (specs.map fun l => 3 * (l.sendIdx.length + l.recvIdx.length) + 6).sum + 2 * n := by
  have h1 := sumSel_map_le flinkMeasure
    (fun l => ({ sc := .pending, rf := l.own, dt := fixInitDt B l } : FLinkSt α))
    (fun l => 3 * (l.sendIdx.length + l.recvIdx.length) + 6) specs (fun l _ => by
      simp [flinkMeasure, Scalar.weight]
      omega)
  simp only [fMeasure, fixInit, phaseSum_replicate]
  omega

theorem fexec_inv {B n : Nat} {specs : List (FLinkSpec α)} : ∀ (sched : List FAct) (g g' : FixSys α),
    FInv B n specs g → fixExec B specs g sched = some g' →
    FInv B n specs g' ∧ sched.length + fMeasure specs g' ≤ fMeasure specs g := by
  intro sched
  induction sched with
  | nil => intro g g' hI he; simp [fixExec] at he; subst he; exact ⟨hI, by simp⟩
  | cons a sched ih =>
    intro g g' hI he
    simp only [fixExec] at he
    cases hst : fixStep B specs g a with
    | none => simp [hst] at he
    | some g1 =>
      simp only [hst, Option.bind_some] at he
      obtain ⟨hI1, hm1⟩ := fstep_inv hI a hst
      obtain ⟨hI', hm'⟩ := ih g1 g' hI1 he
      exact ⟨hI', by simp; omega⟩

theorem fphase_cases {B n : Nat} {specs : List (FLinkSpec α)} {g : FixSys α} (hI : FInv B n specs g) (p : Nat) (hp : p < n) :
    g.phase.getD p 3 = 0 ∨ g.phase.getD p 3 = 1 := by
  have := hI.phle p hp
  omega

/-- a state in which no action is enabled: every rank has returned, every scalar has been seen with the sender's value,
    every data machine is final and has scattered what `callsOf` says -/
theorem fstuck_final {B n : Nat} {specs : List (FLinkSpec α)} {g : FixSys α} (hI : FInv B n specs g)
    (hstuck : ∀ a, fixStep B specs g a = none) :
    (∀ p, p < n → g.phase.getD p 3 = 1) ∧
    (∀ (i : Nat) l x, specs[i]? = some l → g.links[i]? = some x →
      x.sc = .seen ∧ x.dt.final = true ∧ x.dt.acc = callsOf l.h l.sendIdx l.recvIdx) := by
  -- 1. every scalar has been seen
  have hseen : ∀ (i : Nat) l x, specs[i]? = some l → g.links[i]? = some x → x.sc = .seen := by
    intro i l x hl hx
    have hL := hI.links.2 i l x hl hx
    cases hsc : x.sc with
    | seen => rfl
    | pending =>
      have := hstuck (.scalar i)
      simp [fixStep, hl, hx, hsc] at this
    | matched =>
      exfalso
      have hph : g.phase.getD l.dst 3 = 0 := by
        rcases fphase_cases hI l.dst hL.dst_lt with h | h
        · exact h
        · have := (hL.rret h).1; rw [hsc] at this; cases this
      have hcnt := (hI.cnt l.dst hL.dst_lt hph).1
      have hpos := countSel_pos (fNotSeen l.dst) specs g.links i l x hl hx (by simp [fNotSeen, hsc])
      have := hstuck (.seen i)
      simp only [fixStep, hl, hx] at this
      rw [if_pos ⟨hph, by omega, hsc⟩] at this
      cases this
  -- 2. every data machine is stuck, hence final
  have hdt : ∀ (i : Nat) l x, specs[i]? = some l → g.links[i]? = some x →
      x.dt.final = true ∧ x.dt.acc = callsOf l.h l.sendIdx l.recvIdx := by
    intro i l x hl hx
    have hL := hI.links.2 i l x hl hx
    have hG := hL.post (hseen i l x hl hx)
    have hfin : x.dt.final = true := by
      refine (goodData_closed B).stuck l.pair ⟨dataCfg l.pair, x.dt⟩ hG (fun act => ?_)
      cases hst : Pair.step (dataCfg l.pair) x.dt act with
      | none => rfl
      | some s' =>
        exfalso
        cases act with
        | deliver =>
          have := hstuck (.data i .deliver)
          simp [fixStep, hl, hx, hst] at this
        | sendDone =>
          obtain ⟨hcomp, _⟩ := step_sendDone_inv _ _ _ hst
          have hopen : x.dt.sendOpen = true := pinv_complete_sendOpen x.dt hG.2.2.2 hcomp
          have hph : g.phase.getD l.src 3 = 0 := by
            rcases fphase_cases hI l.src hL.src_lt with h | h
            · exact h
            · rw [(hL.sret h).2] at hopen; cases hopen
          have hcnt := (hI.cnt l.src hL.src_lt hph).2.1
          have hpos := countSel_pos (fSendOpen l.src) specs g.links i l x hl hx (by simp [fSendOpen, hopen])
          have := hstuck (.data i .sendDone)
          simp only [fixStep, hl, hx, hst] at this
          rw [if_pos ⟨hph, by omega⟩] at this
          simp at this
        | recvDone =>
          obtain ⟨⟨m, hcomp⟩, _⟩ := step_recvDone_inv _ _ _ hst
          have hopen : x.dt.recvOpen = true := pinv_complete_recvOpen x.dt hG.2.2.2 m hcomp
          have hph : g.phase.getD l.dst 3 = 0 := by
            rcases fphase_cases hI l.dst hL.dst_lt with h | h
            · exact h
            · rw [(hL.rret h).2] at hopen; cases hopen
          have := hstuck (.data i .recvDone)
          simp only [fixStep, hl, hx, hst] at this
          rw [if_pos hph] at this
          simp at this
    exact ⟨hfin, goodData_final_acc B l.pair ⟨dataCfg l.pair, x.dt⟩ hG hfin⟩
  -- 3. every rank has left its loop and passed `MPI_Waitall`
  refine ⟨fun p hp => ?_, fun i l x hl hx => ⟨hseen i l x hl hx, (hdt i l x hl hx).1, (hdt i l x hl hx).2⟩⟩
  rcases fphase_cases hI p hp with h | h
  · exfalso
    obtain ⟨c1, c2, c3⟩ := hI.cnt p hp h
    have hclosed : ∀ (i : Nat) l x, specs[i]? = some l → g.links[i]? = some x →
        x.dt.sendOpen = false ∧ x.dt.recvOpen = false := by
      intro i l x hl hx
      have := (hdt i l x hl hx).1
      simp only [Pair.final, Bool.and_eq_true, Bool.not_eq_eq_eq_not, Bool.not_true] at this
      exact ⟨this.1.1.1.1, this.1.1.1.2⟩
    have z1 : countSel (fNotSeen p) specs g.links = 0 :=
      countSel_all_false _ specs g.links (fun i l x hl hx => by simp [fNotSeen, hseen i l x hl hx])
    have z2 : countSel (fSendOpen p) specs g.links = 0 :=
      countSel_all_false _ specs g.links (fun i l x hl hx => by simp [fSendOpen, (hclosed i l x hl hx).1])
    have z3 : countSel (fRecvOpen p) specs g.links = 0 :=
      countSel_all_false _ specs g.links (fun i l x hl hx => by simp [fRecvOpen, (hclosed i l x hl hx).2])
    have z4 : countSel (fScalarPending p) specs g.links = 0 :=
      countSel_all_false _ specs g.links (fun i l x hl hx => by simp [fScalarPending, hseen i l x hl hx])
    have := hstuck (.ret p)
    simp only [fixStep] at this
    rw [if_pos ⟨by rw [hI.lenP]; exact hp, h, by omega, z4⟩] at this
    cases this
  · exact h

end DV.C06
