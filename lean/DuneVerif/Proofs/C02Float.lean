import DuneVerif.Proofs.C02Tri
import Mathlib.Data.Real.Basic
import Mathlib.Tactic.Linarith
import Mathlib.Tactic.Ring
import Mathlib.Tactic.FieldSimp
import Mathlib.Tactic.Positivity
import Mathlib.Algebra.Order.Ring.Abs
import Mathlib.Algebra.BigOperators.Fin
/-!
# C02 — the models under rounded arithmetic (standard model of floating point)

`Rounding` is an abstract floating-point format: a rounding function `fl : ℝ → ℝ` with relative error at most
`u` (`fl x = x (1+δ)`, `|δ| ≤ u`; no overflow / underflow).  `FlR R` is the type of reals whose `+ - * /` round
their exact result with `R.fl`; the executable models of Model/C02.lean (generic in the scalar type) are instantiated
at `FlR R`, i.e. the *same* loops as for the prime field and for `Float` in the driver.

Proved here (all sizes `n`):  Higham's `γ_k` calculus (Lemma 3.1), the backward error of the back substitution of
`solve` (Higham, Thm 8.5, for the loop order of the code), and the error of the three `DiagonalMatrix` members.
NOT proved: the backward error of the elimination phase itself (`L̂ Û = P A + ΔA`, Higham Thm 9.3) — see Props/C02.
-/
namespace DV.C02.Flt
open DV.C02

/-! ### `γ_k` -/

/-- Higham's `γ_k = k u / (1 - k u)` -/
noncomputable def gamma (u : ℝ) (k : ℕ) : ℝ := k * u / (1 - k * u)

theorem gamma_nonneg {u : ℝ} {k : ℕ} (hu : 0 ≤ u) (hk : k * u < 1) : 0 ≤ gamma u k := by
  unfold gamma
  apply div_nonneg
  · positivity
  · linarith

theorem gamma_zero (u : ℝ) : gamma u 0 = 0 := by simp [gamma]

theorem gamma_mono {u : ℝ} {k m : ℕ} (hu : 0 ≤ u) (hkm : k ≤ m) (hm : m * u < 1) : gamma u k ≤ gamma u m := by
  unfold gamma
  have hk' : (k : ℝ) * u ≤ m * u := by
    apply mul_le_mul_of_nonneg_right _ hu
    exact_mod_cast hkm
  have h1 : 0 < 1 - (m : ℝ) * u := by linarith
  have h2 : 0 < 1 - (k : ℝ) * u := by linarith
  rw [div_le_div_iff₀ h2 h1]
  have hk0 : 0 ≤ (k : ℝ) * u := by positivity
  nlinarith

/-- Lemma 3.1, one more factor: `(1+θ)(1+δ) = 1+θ'` with `|θ'| ≤ γ_{k+1}` -/
theorem gamma_step_mul {u θ δ : ℝ} {k : ℕ} (hu : 0 ≤ u) (hk : ((k + 1 : ℕ) : ℝ) * u < 1)
    (hθ : |θ| ≤ gamma u k) (hδ : |δ| ≤ u) : |(1 + θ) * (1 + δ) - 1| ≤ gamma u (k + 1) := by
  have ha0 : 0 ≤ (k : ℝ) * u := by positivity
  have hs : (k : ℝ) * u + u < 1 := by
    have : ((k + 1 : ℕ) : ℝ) * u = k * u + u := by push_cast; ring
    linarith
  have h1 : 0 < 1 - (k : ℝ) * u := by linarith
  have hg : gamma u k * (1 - k * u) = k * u := by
    unfold gamma; field_simp
  have hg0 : 0 ≤ gamma u k := gamma_nonneg hu (by linarith)
  have hbound : |(1 + θ) * (1 + δ) - 1| ≤ gamma u k + u + gamma u k * u := by
    have : (1 + θ) * (1 + δ) - 1 = θ + δ + θ * δ := by ring
    rw [this]
    calc |θ + δ + θ * δ| ≤ |θ + δ| + |θ * δ| := abs_add_le _ _
      _ ≤ |θ| + |δ| + |θ| * |δ| := by
        have := abs_add_le θ δ
        rw [abs_mul]; linarith
      _ ≤ gamma u k + u + gamma u k * u := by
        have := mul_le_mul hθ hδ (abs_nonneg δ) hg0
        linarith
  refine le_trans hbound ?_
  unfold gamma at hg ⊢
  have h2 : 0 < 1 - ((k + 1 : ℕ) : ℝ) * u := by linarith
  rw [le_div_iff₀ h2]
  push_cast
  set g := (k : ℝ) * u / (1 - k * u) with hgdef
  set a := (k : ℝ) * u with hadef
  have hg' : g * (1 - a) = a := hg
  have hg0' : 0 ≤ g := hg0
  nlinarith [mul_nonneg hg0' hu, mul_nonneg (mul_nonneg hg0' hu) hu, mul_nonneg ha0 hu]

/-- Lemma 3.1, one more factor in the denominator: `(1+θ)/(1+δ) = 1+θ'` with `|θ'| ≤ γ_{k+1}` -/
theorem gamma_step_div {u θ δ : ℝ} {k : ℕ} (hu : 0 ≤ u) (hk : ((k + 1 : ℕ) : ℝ) * u < 1)
    (hθ : |θ| ≤ gamma u k) (hδ : |δ| ≤ u) : |(1 + θ) / (1 + δ) - 1| ≤ gamma u (k + 1) := by
  have ha0 : 0 ≤ (k : ℝ) * u := by positivity
  have hs : (k : ℝ) * u + u < 1 := by
    have : ((k + 1 : ℕ) : ℝ) * u = k * u + u := by push_cast; ring
    linarith
  have hu1 : u < 1 := by linarith
  have h1 : 0 < 1 - (k : ℝ) * u := by linarith
  have hg : gamma u k * (1 - k * u) = k * u := by
    unfold gamma; field_simp
  have hg0 : 0 ≤ gamma u k := gamma_nonneg hu (by linarith)
  have hδ' := abs_le.mp hδ
  have hpos : 0 < 1 + δ := by linarith [hδ'.1]
  have hlow : 1 - u ≤ 1 + δ := by linarith [hδ'.1]
  have hbound : |(1 + θ) / (1 + δ) - 1| ≤ (gamma u k + u) / (1 - u) := by
    have : (1 + θ) / (1 + δ) - 1 = (θ - δ) / (1 + δ) := by field_simp; ring
    rw [this, abs_div, abs_of_pos hpos]
    have hnum : |θ - δ| ≤ gamma u k + u := by
      calc |θ - δ| ≤ |θ| + |δ| := abs_sub _ _
        _ ≤ gamma u k + u := by linarith
    calc |θ - δ| / (1 + δ) ≤ (gamma u k + u) / (1 + δ) := by
          apply div_le_div_of_nonneg_right hnum (le_of_lt hpos)
      _ ≤ (gamma u k + u) / (1 - u) := by
          apply div_le_div_of_nonneg_left (by linarith) (by linarith) hlow
  refine le_trans hbound ?_
  unfold gamma at hg ⊢
  have h2 : 0 < 1 - ((k + 1 : ℕ) : ℝ) * u := by linarith
  have h3 : 0 < 1 - u := by linarith
  rw [div_le_div_iff₀ h3 h2]
  push_cast
  set g := (k : ℝ) * u / (1 - k * u) with hgdef
  set a := (k : ℝ) * u with hadef
  have hg' : g * (1 - a) = a := hg
  have hg0' : 0 ≤ g := hg0
  nlinarith [mul_nonneg hg0' hu, mul_nonneg ha0 hu]

/-! ### rounded arithmetic -/

/-- standard model of floating-point arithmetic -/
structure Rounding where
  fl : ℝ → ℝ
  u : ℝ
  u_nonneg : 0 ≤ u
  spec : ∀ x, ∃ δ, |δ| ≤ u ∧ fl x = x * (1 + δ)

/-- reals with rounded operations -/
structure FlR (R : Rounding) where
  val : ℝ

variable {R : Rounding}

noncomputable instance : Add (FlR R) := ⟨fun a b => ⟨R.fl (a.val + b.val)⟩⟩
noncomputable instance : Sub (FlR R) := ⟨fun a b => ⟨R.fl (a.val - b.val)⟩⟩
noncomputable instance : Mul (FlR R) := ⟨fun a b => ⟨R.fl (a.val * b.val)⟩⟩
noncomputable instance : Div (FlR R) := ⟨fun a b => ⟨R.fl (a.val / b.val)⟩⟩
instance : Neg (FlR R) := ⟨fun a => ⟨-a.val⟩⟩
instance : OfNat (FlR R) 0 := ⟨⟨0⟩⟩
instance : OfNat (FlR R) 1 := ⟨⟨1⟩⟩

theorem sub_val (a b : FlR R) : (a - b).val = R.fl (a.val - b.val) := rfl
theorem mul_val (a b : FlR R) : (a * b).val = R.fl (a.val * b.val) := rfl
theorem div_val (a b : FlR R) : (a / b).val = R.fl (a.val / b.val) := rfl
theorem one_val : (1 : FlR R).val = 1 := rfl

/-- the exact rounding (`u = 0`): the model is non-vacuous -/
def exact : Rounding := ⟨id, 0, le_refl 0, fun x => ⟨0, by simp, by simp⟩⟩

/-- a rounding with `u = 2⁻⁵³ > 0` (used for the non-vacuity examples of Props/C02.lean) -/
noncomputable def exRounding : Rounding := ⟨id, 1 / 2 ^ 53, by positivity, fun x => ⟨0, by simp, by simp⟩⟩
theorem exRounding_sub (a b : FlR exRounding) : (a - b).val = a.val - b.val := rfl
theorem exRounding_mul (a b : FlR exRounding) : (a * b).val = a.val * b.val := rfl
theorem exRounding_div (a b : FlR exRounding) : (a / b).val = a.val / b.val := rfl

variable {n : Nat}

/-! ### back substitution (Higham, Thm 8.5, for the loop order of `DenseMatrix::solve`) -/

theorem nat_mul_lt {u : ℝ} (hu : 0 ≤ u) {k m : ℕ} (hkm : k ≤ m) (hm : (m : ℝ) * u < 1) : (k : ℝ) * u < 1 := by
  have : (k : ℝ) * u ≤ m * u := mul_le_mul_of_nonneg_right (by exact_mod_cast hkm) hu
  linarith

/-- a loop `for j: if P j: acc -= a[j]*x[j]` under rounding, in backward form (Higham, Lemma 8.4) -/
theorem inner_loop_pred (hn : (n : ℝ) * R.u < 1) (P : Fin n → Prop) [DecidablePred P] (a x : Fin n → FlR R) (c : FlR R) :
    ∃ (p : ℝ) (θ : Fin n → ℝ), |p| ≤ gamma R.u n ∧ (∀ j, |θ j| ≤ gamma R.u n) ∧
      c.val = (forUp n c (fun j acc => if P j then acc - a j * x j else acc)).val * (1 + p)
        + ∑ j, if P j then (a j).val * (x j).val * (1 + θ j) else 0 := by
  have hu := R.u_nonneg
  have key := forUp_ind c (fun j acc => if P j then acc - a j * x j else acc)
    (fun m acc => ∃ (p : ℝ) (θ : Fin n → ℝ), |p| ≤ gamma R.u m ∧ (∀ j, |θ j| ≤ gamma R.u m) ∧
      c.val = acc.val * (1 + p) + ∑ j : Fin n, if P j ∧ j.1 < m then (a j).val * (x j).val * (1 + θ j) else 0)
    ⟨0, fun _ => 0, by simp [gamma_zero], by simp [gamma_zero], by simp⟩
    (by
      intro k acc ⟨p, θ, hp, hθ, heq⟩
      have hk1 : ((k.1 + 1 : ℕ) : ℝ) * R.u < 1 := nat_mul_lt hu (Nat.succ_le_of_lt k.2) hn
      have hmono : gamma R.u k.1 ≤ gamma R.u (k.1 + 1) := gamma_mono hu (Nat.le_succ _) hk1
      by_cases hik : P k
      · simp only [hik, if_true]
        obtain ⟨ε, hε, hmul⟩ := R.spec ((a k).val * (x k).val)
        obtain ⟨δ, hδ, hsub⟩ := R.spec (acc.val - R.fl ((a k).val * (x k).val))
        have hδ' := abs_le.mp hδ
        have hu1 : R.u < 1 := by
          have : (1 : ℝ) * R.u ≤ ((k.1 + 1 : ℕ) : ℝ) * R.u :=
            mul_le_mul_of_nonneg_right (by exact_mod_cast Nat.succ_le_succ (Nat.zero_le _)) hu
          linarith
        have hpos : 1 + δ ≠ 0 := by linarith [hδ'.1]
        refine ⟨(1 + p) / (1 + δ) - 1, Function.update θ k ((1 + p) * (1 + ε) - 1),
          gamma_step_div hu hk1 hp hδ, ?_, ?_⟩
        · intro j
          by_cases hjk : j = k
          · subst hjk; rw [Function.update_self]; exact gamma_step_mul hu hk1 hp hε
          · rw [Function.update_of_ne hjk]; exact le_trans (hθ j) hmono
        · have hsplit : ∀ j : Fin n,
              (if P j ∧ j.1 < k.1 + 1 then
                (a j).val * (x j).val * (1 + Function.update θ k ((1 + p) * (1 + ε) - 1) j) else 0) =
              (if P j ∧ j.1 < k.1 then (a j).val * (x j).val * (1 + θ j) else 0) +
              (if j = k then (a k).val * (x k).val * ((1 + p) * (1 + ε)) else 0) := by
            intro j
            by_cases hjk : j = k
            · subst hjk; simp [hik]
            · have : j.1 ≠ k.1 := fun h => hjk (Fin.ext h)
              have h1 : (j.1 < k.1 + 1) ↔ j.1 < k.1 := by omega
              simp [hjk, h1]
          simp only [hsplit, Finset.sum_add_distrib, Finset.sum_ite_eq' Finset.univ k, Finset.mem_univ, if_true]
          rw [heq, sub_val, mul_val, hsub, hmul]
          field_simp
          ring
      · simp only [hik, if_false]
        refine ⟨p, θ, le_trans hp hmono, fun j => le_trans (hθ j) hmono, ?_⟩
        rw [heq]
        congr 1
        apply Finset.sum_congr rfl
        intro j _
        by_cases hjk : j = k
        · subst hjk; simp [hik]
        · have : j.1 ≠ k.1 := fun h => hjk (Fin.ext h)
          have h1 : (j.1 < k.1 + 1) ↔ j.1 < k.1 := by omega
          simp [h1])
  obtain ⟨p, θ, hp, hθ, heq⟩ := key
  refine ⟨p, θ, hp, hθ, ?_⟩
  rw [heq]
  congr 1
  apply Finset.sum_congr rfl
  intro j _
  simp [j.2]

/-- the inner loop `for j = i+1..n-1: acc -= a[j]*x[j]` of the back substitution -/
theorem inner_loop (hn : (n : ℝ) * R.u < 1) (i : Fin n) (a x : Fin n → FlR R) (c : FlR R) :
    ∃ (p : ℝ) (θ : Fin n → ℝ), |p| ≤ gamma R.u n ∧ (∀ j, |θ j| ≤ gamma R.u n) ∧
      c.val = (forUp n c (fun j acc => if i < j then acc - a j * x j else acc)).val * (1 + p)
        + ∑ j, if i < j then (a j).val * (x j).val * (1 + θ j) else 0 :=
  inner_loop_pred hn (fun j => i < j) a x c

section
variable {K : Type} [Sub K] [Mul K] [Div K]
/-- one pass `i` of the back substitution, on plain functions (any scalar type) -/
def bsStepG (A : Mat n K) (i : Fin n) (x : Fin n → K) : Fin n → K :=
  fun r => if r = i then (forUp n (x i) fun j acc => if i < j then acc - A.f i j * x j else acc) / A.f i i
           else x r

theorem backSubst_fG (A : Mat n K) (rhs : Vec n K) : (backSubst A rhs).f = forDown n rhs.f (bsStepG A) := by
  unfold backSubst
  apply forDown_rel (fun (x : Vec n K) (f : Fin n → K) => x.f = f)
  · rfl
  · intro k s1 s2 h
    funext r
    simp [bsStepG, ← h]
end

/-- every row of the triangular system holds for the computed solution with relatively perturbed coefficients -/
theorem bs_rows_fn (hn : ((n + 1 : ℕ) : ℝ) * R.u < 1) (U : Mat n (FlR R)) (y : Fin n → FlR R)
    (hd : ∀ j, (U.f j j).val ≠ 0) :
    ∀ r : Fin n, ∃ θ : Fin n → ℝ, (∀ c, |θ c| ≤ gamma R.u (n + 1)) ∧
      ∑ c, (if r ≤ c then (U.f r c).val * (1 + θ c) * ((forDown n y (bsStepG U)) c).val else 0) = (y r).val := by
  have hu := R.u_nonneg
  have hn' : (n : ℝ) * R.u < 1 := nat_mul_lt hu (Nat.le_succ n) hn
  have hu1 : R.u < 1 := by
    have : (1 : ℝ) * R.u ≤ ((n + 1 : ℕ) : ℝ) * R.u :=
      mul_le_mul_of_nonneg_right (by exact_mod_cast Nat.succ_le_succ (Nat.zero_le _)) hu
    linarith
  have hmono : gamma R.u n ≤ gamma R.u (n + 1) := gamma_mono hu (Nat.le_succ _) hn
  have key := forDown_ind y (bsStepG U)
    (fun m x => (∀ r : Fin n, r.1 < m → x r = y r) ∧
      ∀ r : Fin n, m ≤ r.1 → ∃ θ : Fin n → ℝ, (∀ c, |θ c| ≤ gamma R.u (n + 1)) ∧
        ∑ c, (if r ≤ c then (U.f r c).val * (1 + θ c) * (x c).val else 0) = (y r).val)
    ⟨fun _ _ => rfl, fun r hr => absurd r.2 (by omega)⟩
    (by
      intro i x ⟨h1, h2⟩
      have hx' : ∀ r, r ≠ i → bsStepG U i x r = x r := by
        intro r hr; simp [bsStepG, hr]
      constructor
      · intro r hr
        have : r ≠ i := fun h => by subst h; omega
        rw [hx' r this]
        exact h1 r (by omega)
      · intro r hr
        by_cases hri : r = i
        · subst hri
          obtain ⟨p, θ, hp, hθ, heq⟩ := inner_loop hn' r (U.f r) x (x r)
          set L := forUp n (x r) (fun j acc => if r < j then acc - U.f r j * x j else acc) with hL
          have hxr : (bsStepG U r x r).val = R.fl (L.val / (U.f r r).val) := by
            simp only [bsStepG, if_true]; rfl
          obtain ⟨η, hη, hdiv⟩ := R.spec (L.val / (U.f r r).val)
          have hη' := abs_le.mp hη
          have hpos : 1 + η ≠ 0 := by linarith [hη'.1]
          refine ⟨Function.update θ r ((1 + p) / (1 + η) - 1), ?_, ?_⟩
          · intro c
            by_cases hcr : c = r
            · subst hcr; rw [Function.update_self]; exact gamma_step_div hu hn hp hη
            · rw [Function.update_of_ne hcr]; exact le_trans (hθ c) hmono
          · have hsplit : ∀ c : Fin n,
                (if r ≤ c then (U.f r c).val * (1 + Function.update θ r ((1 + p) / (1 + η) - 1) c) *
                  (bsStepG U r x c).val else 0) =
                (if c = r then (U.f r r).val * ((1 + p) / (1 + η)) * (bsStepG U r x r).val else 0) +
                (if r < c then (U.f r c).val * (x c).val * (1 + θ c) else 0) := by
              intro c
              by_cases hcr : c = r
              · subst hcr; simp
              · rw [hx' c hcr, Function.update_of_ne hcr]
                by_cases hlt : r < c
                · simp [hcr, hlt, le_of_lt hlt]; ring
                · have : ¬ r ≤ c := fun h => hlt (lt_of_le_of_ne h (fun h' => hcr h'.symm))
                  simp [hcr, hlt, this]
            simp only [hsplit, Finset.sum_add_distrib, Finset.sum_ite_eq' Finset.univ r, Finset.mem_univ, if_true]
            rw [hxr, hdiv, ← h1 r (Nat.lt_succ_self _), heq]
            have := hd r
            field_simp
        · have hir : i < r := by
            have : r.1 ≠ i.1 := fun h => hri (Fin.ext h)
            simp only [Fin.lt_def]; omega
          obtain ⟨θ, hθ, heq⟩ := h2 r (by simp only [Fin.lt_def] at hir; omega)
          refine ⟨θ, hθ, ?_⟩
          rw [← heq]
          apply Finset.sum_congr rfl
          intro c _
          by_cases hrc : r ≤ c
          · have hci : c ≠ i := fun h => by subst h; exact absurd hir (not_lt.mpr hrc)
            simp [hrc, hx' c hci]
          · simp [hrc])
  intro r
  exact key.2 r (Nat.zero_le _)

theorem backSubst_rows (hn : ((n + 1 : ℕ) : ℝ) * R.u < 1) (U : Mat n (FlR R)) (y : Vec n (FlR R))
    (hd : ∀ j, (U.f j j).val ≠ 0) :
    ∀ r : Fin n, ∃ θ : Fin n → ℝ, (∀ c, |θ c| ≤ gamma R.u (n + 1)) ∧
      ∑ c, (if r ≤ c then (U.f r c).val * (1 + θ c) * ((backSubst U y).f c).val else 0) = (y.f r).val := by
  rw [backSubst_fG]
  exact bs_rows_fn hn U y.f hd

/-! ### DiagonalMatrix under rounding -/

/-- `x[i] = b[i]/diag[i]`: the computed solution solves a diagonal system with relatively perturbed entries -/
theorem solveDiag_fl (hu1 : ((1 : ℕ) : ℝ) * R.u < 1) (d b : Vec n (FlR R)) (hd : ∀ i, (d.f i).val ≠ 0) (i : Fin n) :
    ∃ θ : ℝ, |θ| ≤ gamma R.u 1 ∧ (d.f i).val * (1 + θ) * ((solveDiag d b).f i).val = (b.f i).val := by
  obtain ⟨δ, hδ, hdiv⟩ := R.spec ((b.f i).val / (d.f i).val)
  have h0 : |(0 : ℝ)| ≤ gamma R.u 0 := by simp [gamma_zero]
  have hstep := gamma_step_div R.u_nonneg (k := 0) (by simpa using hu1) h0 hδ
  have hδ' := abs_le.mp hδ
  have hu1' : R.u < 1 := by simpa using hu1
  have hpos : 1 + δ ≠ 0 := by linarith [hδ'.1]
  refine ⟨(1 + 0) / (1 + δ) - 1, by simpa using hstep, ?_⟩
  simp only [solveDiag, Vec.ofFn_f, div_val, hdiv]
  have := hd i
  field_simp
  ring

/-- `diag[i] = 1/diag[i]`: relative error at most `u` per entry -/
theorem invertDiag_fl (d : Vec n (FlR R)) (i : Fin n) :
    ∃ δ : ℝ, |δ| ≤ R.u ∧ ((invertDiag d).f i).val = 1 / (d.f i).val * (1 + δ) := by
  obtain ⟨δ, hδ, hdiv⟩ := R.spec ((1 : ℝ) / (d.f i).val)
  exact ⟨δ, hδ, by simp only [invertDiag, Vec.ofFn_f, div_val, one_val, hdiv]⟩

/-- `det = diag[0]; for i ≥ 1: det *= diag[i]`: relative error at most `γ_{n+1}` -/
theorem detDiag_fl (hn : ((n + 1 : ℕ) : ℝ) * R.u < 1) (d : Vec (n + 1) (FlR R)) :
    ∃ θ : ℝ, |θ| ≤ gamma R.u (n + 1) ∧ (detDiag d).val = (∏ i, (d.f i).val) * (1 + θ) := by
  have hu := R.u_nonneg
  unfold detDiag
  have key := forUp_ind (d.f 0) (fun (i : Fin (n + 1)) det => if 0 < i.1 then det * d.f i else det)
    (fun m acc => ∃ θ : ℝ, |θ| ≤ gamma R.u m ∧
      acc.val = ((d.f 0).val * ∏ j : Fin (n + 1), if 0 < j.1 ∧ j.1 < m then (d.f j).val else 1) * (1 + θ))
    ⟨0, by simp [gamma_zero], by simp⟩
    (by
      intro k acc ⟨θ, hθ, heq⟩
      have hk1 : ((k.1 + 1 : ℕ) : ℝ) * R.u < 1 := nat_mul_lt hu (Nat.succ_le_of_lt k.2) hn
      have hmono : gamma R.u k.1 ≤ gamma R.u (k.1 + 1) := gamma_mono hu (Nat.le_succ _) hk1
      have hsplit : ∀ j : Fin (n + 1), (if 0 < j.1 ∧ j.1 < k.1 + 1 then (d.f j).val else 1) =
          (if 0 < j.1 ∧ j.1 < k.1 then (d.f j).val else 1) * (if j = k then (if 0 < k.1 then (d.f k).val else 1) else 1) := by
        intro j
        by_cases hjk : j = k
        · subst hjk; by_cases h0 : 0 < j.1 <;> simp [h0]
        · have : j.1 ≠ k.1 := fun h => hjk (Fin.ext h)
          have h1 : (j.1 < k.1 + 1) ↔ j.1 < k.1 := by omega
          simp [hjk, h1]
      simp only [hsplit, Finset.prod_mul_distrib, Finset.prod_ite_eq' Finset.univ k, Finset.mem_univ, if_true]
      by_cases h0 : 0 < k.1
      · simp only [h0, if_true]
        obtain ⟨δ, hδ, hmul⟩ := R.spec (acc.val * (d.f k).val)
        refine ⟨(1 + θ) * (1 + δ) - 1, gamma_step_mul hu hk1 hθ hδ, ?_⟩
        rw [mul_val, hmul, heq]
        ring
      · simp only [h0, if_false, mul_one]
        exact ⟨θ, le_trans hθ hmono, heq⟩)
  obtain ⟨θ, hθ, heq⟩ := key
  refine ⟨θ, hθ, ?_⟩
  rw [heq, Fin.prod_univ_succ, Fin.prod_univ_succ]
  simp

end DV.C02.Flt
