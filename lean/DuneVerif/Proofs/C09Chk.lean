import DuneVerif.Proofs.C09LU
/-!
# C09 — the configuration `DUNE_FMatrix_WITH_CHECKING` (round 3)

`solveC` / `invertC` (Model/C09LU.lean) put the singularity test of the checked configuration in front of the closed forms.
The SIMD call throws exactly if the scalar call throws for some lane (the test reduces the lane mask with `anyTrue`), and
otherwise every lane of the result is the scalar result — for every lawful SIMD type, every arithmetic, every threshold
predicate, every `n`.
-/
namespace DV.C09
open Gen

section Checked
variable {V : Type → Type} {L : Nat} (X : SimdLike V L) (hX : X.Lawful) {K : Type} (R : Arith K) {n : Nat}

include hX in
/-- the reduced test is true exactly if the scalar test is true for some lane -/
theorem singularChecked_iff (chk : Option (K → Bool)) (d : V K) :
    singularChecked X chk d = true ↔ ∃ l, singularChecked (V := fun α => α) Xs chk (X.lane l d) = true := by
  cases chk with
  | none => simp [singularChecked]
  | some below =>
    simp only [singularChecked, hX.anyTrue_iff, hX.lane_map]
    constructor
    · rintro ⟨l, hl⟩
      exact ⟨l, by simpa [SimdLike.scalar, scalarReduce] using hl⟩
    · rintro ⟨l, hl⟩
      exact ⟨l, by simpa [SimdLike.scalar, scalarReduce] using hl⟩

include hX in
theorem solveC_lanewise_some (chk : Option (K → Bool)) (piv : Bool) (A : Mat (V K) n) (b x : Vector (V K) n)
    (h : solveC X R chk piv A b = some x) (l : Fin L) :
    solveC (V := fun α => α) Xs R chk piv (laneMat X l A) (laneVec X l b) = some (laneVec X l x) := by
  unfold solveC at h ⊢
  by_cases hc : 1 ≤ n ∧ n ≤ 3 ∧ singularChecked X chk (determinant X R piv A) = true
  · simp [hc] at h
  · rw [if_neg hc] at h
    have hs : ¬ (1 ≤ n ∧ n ≤ 3 ∧
        singularChecked (V := fun α => α) Xs chk (determinant (V := fun α => α) Xs R piv (laneMat X l A)) = true) := by
      rintro ⟨h1, h3, ht⟩
      apply hc
      refine ⟨h1, h3, (singularChecked_iff X hX chk _).2 ⟨l, ?_⟩⟩
      rw [determinant_lanewise X hX R piv A l]
      exact ht
    rw [if_neg hs]
    exact solve_lanewise_some X hX R piv A b x h l

include hX in
theorem solveC_lanewise_none (chk : Option (K → Bool)) (piv : Bool) (A : Mat (V K) n) (b : Vector (V K) n)
    (h : solveC X R chk piv A b = none) :
    ∃ l, solveC (V := fun α => α) Xs R chk piv (laneMat X l A) (laneVec X l b) = none := by
  unfold solveC at h
  by_cases hc : 1 ≤ n ∧ n ≤ 3 ∧ singularChecked X chk (determinant X R piv A) = true
  · obtain ⟨h1, h3, ht⟩ := hc
    obtain ⟨l, hl⟩ := (singularChecked_iff X hX chk _).1 ht
    refine ⟨l, ?_⟩
    rw [determinant_lanewise X hX R piv A l] at hl
    unfold solveC
    rw [if_pos ⟨h1, h3, hl⟩]
  · rw [if_neg hc] at h
    obtain ⟨l, hl⟩ := solve_lanewise_none X hX R piv A b h
    refine ⟨l, ?_⟩
    unfold solveC
    split
    · rfl
    · exact hl

include hX in
theorem invertC_lanewise_some (chk : Option (K → Bool)) (piv : Bool) (A B : Mat (V K) n)
    (h : invertC X R chk piv A = some B) (l : Fin L) :
    invertC (V := fun α => α) Xs R chk piv (laneMat X l A) = some (laneMat X l B) := by
  unfold invertC at h ⊢
  by_cases hc : 1 ≤ n ∧ n ≤ 2 ∧ singularChecked X chk (determinant X R piv A) = true
  · simp [hc] at h
  · rw [if_neg hc] at h
    have hs : ¬ (1 ≤ n ∧ n ≤ 2 ∧
        singularChecked (V := fun α => α) Xs chk (determinant (V := fun α => α) Xs R piv (laneMat X l A)) = true) := by
      rintro ⟨h1, h3, ht⟩
      apply hc
      refine ⟨h1, h3, (singularChecked_iff X hX chk _).2 ⟨l, ?_⟩⟩
      rw [determinant_lanewise X hX R piv A l]
      exact ht
    rw [if_neg hs]
    exact invert_lanewise_some X hX R piv A B h l

include hX in
theorem invertC_lanewise_none (chk : Option (K → Bool)) (piv : Bool) (A : Mat (V K) n)
    (h : invertC X R chk piv A = none) :
    ∃ l, invertC (V := fun α => α) Xs R chk piv (laneMat X l A) = none := by
  unfold invertC at h
  by_cases hc : 1 ≤ n ∧ n ≤ 2 ∧ singularChecked X chk (determinant X R piv A) = true
  · obtain ⟨h1, h3, ht⟩ := hc
    obtain ⟨l, hl⟩ := (singularChecked_iff X hX chk _).1 ht
    refine ⟨l, ?_⟩
    rw [determinant_lanewise X hX R piv A l] at hl
    unfold invertC
    rw [if_pos ⟨h1, h3, hl⟩]
  · rw [if_neg hc] at h
    obtain ⟨l, hl⟩ := invert_lanewise_none X hX R piv A h
    refine ⟨l, ?_⟩
    unfold invertC
    split
    · rfl
    · exact hl

/-- without the macro the checked functions are the unchecked ones -/
theorem solveC_none (piv : Bool) (A : Mat (V K) n) (b : Vector (V K) n) : solveC X R none piv A b = solve X R piv A b := by
  simp [solveC, singularChecked]
theorem invertC_none (piv : Bool) (A : Mat (V K) n) : invertC X R none piv A = invert X R piv A := by
  simp [invertC, singularChecked]

end Checked
end DV.C09
