import DuneVerif.Proofs.C09LU
/-!
# C09 — the configuration `DUNE_FMatrix_WITH_CHECKING` (round 3)

`solveC` / `invertC` (Model/C09LU.lean) put the singularity test of the checked configuration in front of the closed forms;
which reduction and comparison the test uses is read off densematrix.hh by the translator (`Gen.chkSolve`, `Gen.chkInvert`).
As long as every test reduces its lane mask with `anyTrue` (`Gen`'s current content, checked by `decide`), the SIMD call throws
exactly if the scalar call throws for some lane, and otherwise every lane of the result is the scalar result — for every
lawful SIMD type, every arithmetic, every threshold predicate, every `n`.
-/
namespace DV.C09
open Gen

section Checked
variable {V : Type → Type} {L : Nat} (X : SimdLike V L) (hX : X.Lawful) {K : Type} (R : Arith K) {n : Nat}

/-- every test of the table reduces with `anyTrue` -/
def AllAny (tests : List (Nat × RedKind × CmpOpName)) : Prop := ∀ e ∈ tests, e.2.1 = RedKind.anyTrue
instance (tests : List (Nat × RedKind × CmpOpName)) : Decidable (AllAny tests) := by unfold AllAny; infer_instance

theorem lookup_anyTrue {tests : List (Nat × RedKind × CmpOpName)} (h : AllAny tests) {m : Nat} {k : RedKind} {c : CmpOpName}
    (hl : tests.lookup m = some (k, c)) : k = .anyTrue := by
  induction tests with
  | nil => simp at hl
  | cons e es ih =>
    obtain ⟨m', k', c'⟩ := e
    simp only [List.lookup_cons] at hl
    by_cases hm : m = m'
    · subst hm
      simp at hl
      have := h (m, k', c') (by simp)
      simp at this
      rw [← hl.1]; exact this
    · have hne : (m == m') = false := by simp [hm]
      rw [hne] at hl
      exact ih (fun e he => h e (by simp [he])) hl

include hX in
/-- the reduced test is true exactly if the scalar test is true for some lane -/
theorem singularChecked_iff (tests : List (Nat × RedKind × CmpOpName)) (h : AllAny tests)
    (chk : Option (CmpOpName → K → Bool)) (m : Nat) (d : V K) :
    singularChecked X tests chk m d = true ↔ ∃ l, singularChecked (V := fun α => α) Xs tests chk m (X.lane l d) = true := by
  unfold singularChecked
  cases chk with
  | none => simp
  | some below =>
    cases hl : tests.lookup m with
    | none => simp
    | some kc =>
      obtain ⟨k, c⟩ := kc
      have hk := lookup_anyTrue h hl
      subst hk
      simp only [reduceMask, hX.anyTrue_iff, hX.lane_map]
      constructor
      · rintro ⟨l, hl⟩
        exact ⟨l, by simpa [SimdLike.scalar, scalarReduce] using hl⟩
      · rintro ⟨l, hl⟩
        exact ⟨l, by simpa [SimdLike.scalar, scalarReduce] using hl⟩

include hX in
theorem solveC_lanewise_some (hs : AllAny chkSolve) (chk : Option (CmpOpName → K → Bool)) (piv : Bool) (A : Mat (V K) n)
    (b x : Vector (V K) n) (h : solveC X R chk piv A b = some x) (l : Fin L) :
    solveC (V := fun α => α) Xs R chk piv (laneMat X l A) (laneVec X l b) = some (laneVec X l x) := by
  unfold solveC at h ⊢
  by_cases hc : singularChecked X chkSolve chk n (determinant X R piv A) = true
  · simp [hc] at h
  · rw [if_neg hc] at h
    have hsc : ¬ (singularChecked (V := fun α => α) Xs chkSolve chk n
        (determinant (V := fun α => α) Xs R piv (laneMat X l A)) = true) := by
      intro ht
      apply hc
      refine (singularChecked_iff X hX chkSolve hs chk n _).2 ⟨l, ?_⟩
      rw [determinant_lanewise X hX R piv A l]
      exact ht
    rw [if_neg hsc]
    exact solve_lanewise_some X hX R piv A b x h l

include hX in
theorem solveC_lanewise_none (hs : AllAny chkSolve) (chk : Option (CmpOpName → K → Bool)) (piv : Bool) (A : Mat (V K) n)
    (b : Vector (V K) n) (h : solveC X R chk piv A b = none) :
    ∃ l, solveC (V := fun α => α) Xs R chk piv (laneMat X l A) (laneVec X l b) = none := by
  unfold solveC at h
  by_cases hc : singularChecked X chkSolve chk n (determinant X R piv A) = true
  · obtain ⟨l, hl⟩ := (singularChecked_iff X hX chkSolve hs chk n _).1 hc
    refine ⟨l, ?_⟩
    rw [determinant_lanewise X hX R piv A l] at hl
    unfold solveC
    rw [if_pos hl]
  · rw [if_neg hc] at h
    obtain ⟨l, hl⟩ := solve_lanewise_none X hX R piv A b h
    refine ⟨l, ?_⟩
    unfold solveC
    split
    · rfl
    · exact hl

include hX in
theorem invertC_lanewise_some (hs : AllAny chkInvert) (chk : Option (CmpOpName → K → Bool)) (piv : Bool) (A B : Mat (V K) n)
    (h : invertC X R chk piv A = some B) (l : Fin L) :
    invertC (V := fun α => α) Xs R chk piv (laneMat X l A) = some (laneMat X l B) := by
  unfold invertC at h ⊢
  by_cases hc : singularChecked X chkInvert chk n (determinant X R piv A) = true
  · simp [hc] at h
  · rw [if_neg hc] at h
    have hsc : ¬ (singularChecked (V := fun α => α) Xs chkInvert chk n
        (determinant (V := fun α => α) Xs R piv (laneMat X l A)) = true) := by
      intro ht
      apply hc
      refine (singularChecked_iff X hX chkInvert hs chk n _).2 ⟨l, ?_⟩
      rw [determinant_lanewise X hX R piv A l]
      exact ht
    rw [if_neg hsc]
    exact invert_lanewise_some X hX R piv A B h l

include hX in
theorem invertC_lanewise_none (hs : AllAny chkInvert) (chk : Option (CmpOpName → K → Bool)) (piv : Bool) (A : Mat (V K) n)
    (h : invertC X R chk piv A = none) :
    ∃ l, invertC (V := fun α => α) Xs R chk piv (laneMat X l A) = none := by
  unfold invertC at h
  by_cases hc : singularChecked X chkInvert chk n (determinant X R piv A) = true
  · obtain ⟨l, hl⟩ := (singularChecked_iff X hX chkInvert hs chk n _).1 hc
    refine ⟨l, ?_⟩
    rw [determinant_lanewise X hX R piv A l] at hl
    unfold invertC
    rw [if_pos hl]
  · rw [if_neg hc] at h
    obtain ⟨l, hl⟩ := invert_lanewise_none X hX R piv A h
    refine ⟨l, ?_⟩
    unfold invertC
    split
    · rfl
    · exact hl

/-- without the macro the checked functions are the unchecked ones -/
theorem solveC_none (piv : Bool) (A : Mat (V K) n) (b : Vector (V K) n) : solveC X R none piv A b = solve X R piv A b := by
  simp [solveC, singularChecked]
theorem invertC_none (piv : Bool) (A : Mat (V K) n) : invertC X R none piv A = invert X R piv A := by
  simp [invertC, singularChecked]

end Checked
end DV.C09
