/-
C12, round two: the syntax accepted for floating-point targets.

`get<double>` / `get<float>` succeed ONLY on  blanks [sign] mantissa [exponent] blanks  where the mantissa is
digits with an optional fraction (at least one digit in total) and the exponent is `e|E [sign] digits+`.  Everything
else — empty text, a lone sign or point, `1e`, `1e+`, a second number, any other trailing character — is a RangeError.
(The *value* of an accepted text is the correctly rounded one in the model, `roundToBin`; no theorem is stated about
the rounding, it is compared bit for bit with strtod/strtof and std::from_chars on every run.)
-/
import DuneVerif.Proofs.C12Lex

namespace DV.C12

/-- the fraction stage of the lexer: `.digits*` or nothing -/
def fracSplit (s3 : Str) : Str × Str :=
  match s3 with
  | '.' :: r => (r.takeWhile isDig, r.dropWhile isDig)
  | _ => ([], s3)

/-- the exponent stage, given that a mantissa was found -/
def expoStage (neg : Bool) (ip fp s4 : Str) : Option (FloatLex × Str) :=
  match s4 with
  | e :: r =>
    if e == 'e' || e == 'E' then
      let eneg := r.head? == some '-'
      let r2 := if r.head? == some '-' || r.head? == some '+' then r.drop 1 else r
      let ex := r2.takeWhile isDig
      if ex = [] then none
      else some (⟨neg, ip, fp, eneg, ex⟩, r2.dropWhile isDig)
    else some (⟨neg, ip, fp, false, []⟩, s4)
  | [] => some (⟨neg, ip, fp, false, []⟩, [])

theorem extractFloatLex_eq (s : Str) :
    extractFloatLex s =
      (let s2 := (signSplit (skipWs s)).2
       let ip := s2.takeWhile isDig
       let fs := fracSplit (s2.dropWhile isDig)
       if ip = [] && fs.1 = [] then none else expoStage (signSplit (skipWs s)).1 ip fs.1 fs.2) := by
  unfold extractFloatLex signSplit fracSplit expoStage
  simp only
  split <;> rfl

/-- a floating literal: [sign] digits* [. digits*] [e|E [sign] digits+] with at least one mantissa digit -/
def FloatLit (t : Str) : Prop :=
  ∃ sign ip frac expo, t = sign ++ ip ++ frac ++ expo ∧ SignOK sign ∧ AllDig ip ∧
    (frac = [] ∨ ∃ fp, frac = '.' :: fp ∧ AllDig fp) ∧
    (ip ≠ [] ∨ ∃ fp, fp ≠ [] ∧ frac = '.' :: fp) ∧
    (expo = [] ∨ ∃ e esign ex, expo = e :: (esign ++ ex) ∧ (e = 'e' ∨ e = 'E') ∧ SignOK esign ∧ ex ≠ [] ∧ AllDig ex)

theorem fracSplit_spec (s3 : Str) :
    ∃ frac, s3 = frac ++ (fracSplit s3).2 ∧ AllDig (fracSplit s3).1 ∧
      ((frac = [] ∧ (fracSplit s3).1 = []) ∨ frac = '.' :: (fracSplit s3).1) := by
  unfold fracSplit
  split
  · rename_i r
    refine ⟨'.' :: r.takeWhile isDig, ?_, fun c hc => mem_takeWhile_pos isDig r c hc, Or.inr rfl⟩
    simp only [List.cons_append, List.takeWhile_append_dropWhile]
  · exact ⟨[], rfl, allDig_nil, Or.inl ⟨rfl, rfl⟩⟩

theorem expoStage_spec (neg : Bool) (ip fp s4 : Str) (f : FloatLex) (rest : Str)
    (h : expoStage neg ip fp s4 = some (f, rest)) :
    ∃ expo, s4 = expo ++ rest ∧
      (expo = [] ∨ ∃ e esign ex, expo = e :: (esign ++ ex) ∧ (e = 'e' ∨ e = 'E') ∧ SignOK esign ∧ ex ≠ [] ∧ AllDig ex) := by
  unfold expoStage at h
  split at h
  · rename_i e r
    by_cases he : (e == 'e' || e == 'E') = true
    · simp only [he, if_true] at h
      obtain ⟨esign, hes, hr, _⟩ := signSplit_spec r
      have hr2 : (signSplit r).2 = (if r.head? == some '-' || r.head? == some '+' then r.drop 1 else r) := rfl
      rw [← hr2] at h
      by_cases hex : (signSplit r).2.takeWhile isDig = []
      · simp [hex] at h
      · simp only [hex, if_false, Option.some.injEq, Prod.mk.injEq] at h
        obtain ⟨_, hrest⟩ := h
        refine ⟨e :: (esign ++ (signSplit r).2.takeWhile isDig), ?_, Or.inr ⟨e, esign, _, rfl, ?_, hes, hex,
          fun c hc => mem_takeWhile_pos isDig _ c hc⟩⟩
        · rw [← hrest]
          simp only [List.cons_append, List.append_assoc, List.takeWhile_append_dropWhile]
          rw [← hr]
        · simpa using he
    · simp only [he, if_false, Bool.false_eq_true, Option.some.injEq, Prod.mk.injEq] at h
      exact ⟨[], by rw [← h.2]; rfl, Or.inl rfl⟩
  · simp only [Option.some.injEq, Prod.mk.injEq] at h
    exact ⟨[], by rw [← h.2]; rfl, Or.inl rfl⟩

/-- one floating extraction consumes blanks and a floating literal, nothing else -/
theorem extractFloatLex_syntax (s : Str) (f : FloatLex) (rest : Str) (h : extractFloatLex s = some (f, rest)) :
    ∃ pre t, s = pre ++ t ++ rest ∧ AllSpace pre ∧ FloatLit t := by
  rw [extractFloatLex_eq] at h
  simp only at h
  obtain ⟨pre, hpre, hs⟩ := skipWs_split s
  obtain ⟨sign, hsign, hs1, _⟩ := signSplit_spec (skipWs s)
  obtain ⟨hdig, _, hs2⟩ := digs_split (signSplit (skipWs s)).2
  obtain ⟨frac, hs3, hfp, hfrac⟩ := fracSplit_spec ((signSplit (skipWs s)).2.dropWhile isDig)
  by_cases hm : ((signSplit (skipWs s)).2.takeWhile isDig = [] &&
      (fracSplit ((signSplit (skipWs s)).2.dropWhile isDig)).1 = []) = true
  · simp [hm] at h
  · simp only [hm, if_false, Bool.false_eq_true] at h
    obtain ⟨expo, hs4, hexpo⟩ := expoStage_spec _ _ _ _ f rest h
    refine ⟨pre, sign ++ (signSplit (skipWs s)).2.takeWhile isDig ++ frac ++ expo, ?_, hpre,
      sign, _, frac, expo, rfl, hsign, hdig, ?_, ?_, hexpo⟩
    · conv => lhs; rw [hs, hs1, hs2, hs3, hs4]
      simp only [List.append_assoc]
    · rcases hfrac with ⟨hf, _⟩ | hf
      · exact Or.inl hf
      · exact Or.inr ⟨_, hf, hfp⟩
    · by_cases hip : (signSplit (skipWs s)).2.takeWhile isDig = []
      · right
        have hfpne : (fracSplit ((signSplit (skipWs s)).2.dropWhile isDig)).1 ≠ [] := by
          intro e
          apply hm
          simp [hip, e]
        rcases hfrac with ⟨_, hf⟩ | hf
        · exact absurd hf hfpne
        · exact ⟨_, hfpne, hf⟩
      · exact Or.inl hip

/-- **`get<double>`, `get<float>` (any binary format): accepted ⇒ blanks, one floating literal, blanks** -/
theorem parseBin_syntax (b : BinFmt) (s : Str) (v : Nat) (h : parseScalar (extractBin b) s = some v) :
    ∃ pre t post, s = pre ++ t ++ post ∧ AllSpace pre ∧ AllSpace post ∧ FloatLit t := by
  rw [parseScalar_eq_some] at h
  obtain ⟨rest, h1, hrest⟩ := h
  unfold extractBin at h1
  cases hl : extractFloatLex s with
  | none => rw [hl] at h1; cases h1
  | some p =>
    obtain ⟨f, r⟩ := p
    rw [hl] at h1
    simp only at h1
    cases hv : f.evalB b with
    | none => rw [hv] at h1; cases h1
    | some w =>
      rw [hv] at h1
      simp only [Option.some.injEq, Prod.mk.injEq] at h1
      obtain ⟨_, rfl⟩ := h1
      obtain ⟨pre, t, hs, hpre, ht⟩ := extractFloatLex_syntax s f r hl
      exact ⟨pre, t, r, hs, hpre, hrest, ht⟩

/-- fixed-size ranges of floating values: `n` literals (blanks optional between adjacent ones only where the
    lexer can separate them), then only blanks — stated as: every extraction consumed blanks + one literal -/
theorem parseRange_bin_syntax (b : BinFmt) : ∀ (n : Nat) (s : Str) (vs : List Nat),
    parseRange (extractBin b) n s = some vs →
    ∃ (pieces : List Str) (post : Str), pieces.length = n ∧ AllSpace post ∧ s = pieces.flatten ++ post ∧
      ∀ p ∈ pieces, ∃ pre t, p = pre ++ t ∧ AllSpace pre ∧ FloatLit t
  | 0, s, vs, h => by
    rw [parseRange_zero_eq_some] at h
    exact ⟨[], s, rfl, h.2, by simp, by simp⟩
  | n + 1, s, vs, h => by
    rw [parseRange_succ_eq_some] at h
    obtain ⟨v, rest, vs', h1, h2, _⟩ := h
    obtain ⟨pieces, post, hl, hpost, hrest, hp⟩ := parseRange_bin_syntax b n rest vs' h2
    unfold extractBin at h1
    cases hx : extractFloatLex s with
    | none => rw [hx] at h1; cases h1
    | some p =>
      obtain ⟨f, r⟩ := p
      rw [hx] at h1
      simp only at h1
      cases hv : f.evalB b with
      | none => rw [hv] at h1; cases h1
      | some w =>
        rw [hv] at h1
        simp only [Option.some.injEq, Prod.mk.injEq] at h1
        obtain ⟨_, rfl⟩ := h1
        obtain ⟨pre, t, hs, hpre, ht⟩ := extractFloatLex_syntax s f r hx
        refine ⟨(pre ++ t) :: pieces, post, by simp [hl], hpost, ?_, ?_⟩
        · rw [hs, hrest]; simp [List.append_assoc]
        · intro p hpm
          simp only [List.mem_cons] at hpm
          rcases hpm with rfl | hpm
          · exact ⟨pre, t, rfl, hpre, ht⟩
          · exact hp p hpm

end DV.C12
