import DuneVerif.Proofs.C06Recv
/-! C06 helper lemmas, part 4: the messages of all rounds; data receive loop; size exchange; whole pair runs. -/
namespace DV.C06
variable {α : Type}

/-! ### the messages -/

theorem flatten_filter_nonempty {β : Type} (L : List (List β)) :
    (L.filter (fun m => !m.isEmpty)).flatten = L.flatten := by
  induction L with
  | nil => rfl
  | cons m L ih =>
    cases m with
    | nil => simpa using ih
    | cons x xs => simp [ih]

theorem flatten_map_flatMap {β : Type} (g : Nat → List β) (L : List (List Nat)) :
    (L.map (fun a => a.flatMap g)).flatten = L.flatten.flatMap g := by
  induction L with
  | nil => rfl
  | cons a L ih => simp [ih]

theorem msgsOf_flatten (h : Handle α) (B f fuel : Nat) (is : List Nat) (hfu : is.length + 1 ≤ fuel)
    (hf : Fits h B f is) : (msgsOf h B f fuel is).flatten = is.flatMap h.data := by
  unfold msgsOf
  rw [flatten_filter_nonempty, flatten_map_flatMap, blocks_flatten h B f fuel is hfu hf]

theorem msgsOf_mem (h : Handle α) (B f fuel : Nat) (is : List Nat) (hf : Fits h B f is) :
    ∀ m ∈ msgsOf h B f fuel is, m ≠ [] ∧ m.length ≤ B := by
  intro m hm
  unfold msgsOf at hm
  simp only [List.mem_filter, List.mem_map] at hm
  obtain ⟨⟨a, ha, rfl⟩, hne⟩ := hm
  refine ⟨by intro e; simp [e] at hne, blocks_total_le h B f fuel is hf a ha⟩

theorem msgsOf_allzero (h : Handle α) (B f fuel : Nat) (is : List Nat) (hfu : is.length + 1 ≤ fuel)
    (hf : Fits h B f is) (hz : total h is = 0) : msgsOf h B f fuel is = [] := by
  have hfl := msgsOf_flatten h B f fuel is hfu hf
  have hnil : is.flatMap h.data = [] := List.eq_nil_of_length_eq_zero hz
  rw [hnil] at hfl
  cases hm : msgsOf h B f fuel is with
  | nil => rfl
  | cons m ms =>
    have := (msgsOf_mem h B f fuel is hf m (by simp [hm])).1
    rw [hm] at hfl
    simp at hfl
    exact absurd hfl.1 this

theorem msgsOf_length_le (h : Handle α) (B f fuel : Nat) (is : List Nat) (hfu : is.length + 1 ≤ fuel)
    (hf : Fits h B f is) : (msgsOf h B f fuel is).length ≤ is.length := by
  cases his : is with
  | nil =>
    have : msgsOf h B f fuel [] = [] := msgsOf_allzero h B f fuel [] (by simpa [his] using hfu) (by simpa [his] using hf) rfl
    simp [this]
  | cons i is' =>
    have hne : is ≠ [] := by simp [his]
    have h1 : (msgsOf h B f fuel is).length ≤ (blocks h B f fuel is).length := by
      unfold msgsOf
      exact Nat.le_trans (List.length_filter_le _ _) (by simp)
    have h2 : ∀ (L : List (List Nat)), (∀ a ∈ L, a ≠ []) → L.length ≤ L.flatten.length := by
      intro L
      induction L with
      | nil => simp
      | cons a L ih =>
        intro hL
        have ha : a.length ≠ 0 := by simpa using hL a (by simp)
        have := ih (fun b hb => hL b (by simp [hb]))
        simp only [List.flatten_cons, List.length_append, List.length_cons]; omega
    have h3 := h2 _ (blocks_ne_nil h B f fuel is hf hne)
    rw [blocks_flatten h B f fuel is hfu hf] at h3
    rw [← his]; omega

/-! ### the data receive loop, both modes -/

theorem recvLoop_data (h : Handle α) (B f r : Nat) (getCount : Bool) (hg : getCount = true ↔ f = 0)
    (fuel : Nat) (is js : List Nat) (k : Nat) (b : MessageBuffer α) (posted : Nat) (cs : List (Call α))
    (hfu : is.length + 1 ≤ fuel) (hl : js.length = is.length) (hb : b.size = B) (hp : b.position = 0)
    (hf : Fits h B f is) (htot : 0 < total h is) :
    (recvLoop true getCount unpackEntries (msgsOf h B f fuel is) (rcvT h f r k js is) b posted cs).acc
        = cs ++ callsOf h is js ∧
    (recvLoop true getCount unpackEntries (msgsOf h B f fuel is) (rcvT h f r k js is) b posted cs).posted + 1
        = posted + (msgsOf h B f fuel is).length ∧
    (recvLoop true getCount unpackEntries (msgsOf h B f fuel is) (rcvT h f r k js is) b posted cs).unreceived = 0 ∧
    (recvLoop true getCount unpackEntries (msgsOf h B f fuel is) (rcvT h f r k js is) b posted cs).waiting = false ∧
    (recvLoop true getCount unpackEntries (msgsOf h B f fuel is) (rcvT h f r k js is) b posted cs).stuck = false ∧
    (recvLoop true getCount unpackEntries (msgsOf h B f fuel is) (rcvT h f r k js is) b posted cs).tracker.finished
        = true := by
  obtain ⟨k', h1, h2, h3, h4, h5, h6⟩ := recvLoop_generic h B f getCount unpackEntries
    (fun k js is => rcvT h f r k js is)
    (fun acc _ is' js' => acc ++ callsOf h is' js' = cs ++ callsOf h is js)
    (fun k js is => rcvT_skip h f r k js is)
    (fun k js is hl hf => rcvT_finished h B f r k js is hl hf)
    (by
      intro k js' is' b' acc hl' hf' _ hb' hp' hinv
      obtain ⟨b'', hb'', heq⟩ := unpackEntries_round h B f r k js' is' b' acc hl' hf' hb' hp'
        (if getCount then total h (round1 h B f is').1 else 0) (by intro h0; simp [hg.2 h0])
      rw [heq]
      refine ⟨rcvT_skip .., hb'', ?_⟩
      have hlen : (round1 h B f is').1.length ≤ js'.length := by
        rw [hl']; conv => rhs; rw [← round1_append h B f is']
        simp
      have e1 := callsOf_append h (round1 h B f is').1 (js'.take (round1 h B f is').1.length) (round1 h B f is').2
        (js'.drop (round1 h B f is').1.length) (by simp [Nat.min_eq_left hlen])
      rw [round1_append, List.take_append_drop] at e1
      show (acc ++ callsOf h (round1 h B f is').1 (js'.take (round1 h B f is').1.length)) ++
        callsOf h (round1 h B f is').2 (js'.drop (round1 h B f is').1.length) = cs ++ callsOf h is js
      rw [List.append_assoc, ← e1, hinv])
    fuel is js k b posted cs hfu hl hb hp hf htot rfl
  exact ⟨by simpa using h1, h2, h3, h4, h5, h6⟩

/-! ### the size exchange of variable-size communications -/

theorem sizeHandle_fits (h : Handle α) (B : Nat) (hB : 0 < B) (is : List Nat) : Fits (sizeHandle h) B 1 is :=
  Or.inr ⟨by decide, hB, fun _ _ => rfl⟩

theorem sizeHandle_flatMap (h : Handle α) (a : List Nat) : a.flatMap (sizeHandle h).data = a.map h.size := by
  induction a with
  | nil => rfl
  | cons i a ih => simp [sizeHandle] at ih ⊢; exact ih

theorem sizeHandle_total (h : Handle α) (a : List Nat) : total (sizeHandle h) a = a.length := by
  simp [total, sizeHandle_flatMap]

theorem mk'_send (r : Nat) (is : List Nat) (f : Nat) : Tracker.mk' r is f = sendT r 0 is f := by
  simp [Tracker.mk', sendT]

theorem writeAt_step (done chunk : List Nat) (n : Nat) (_hc : chunk.length ≤ n) :
    writeAt (done ++ List.replicate n 0) done.length chunk = (done ++ chunk) ++ List.replicate (n - chunk.length) 0 := by
  simp [writeAt, List.drop_append]

theorem recvLoop_sizes (h : Handle α) (B : Nat) (hB : 0 < B) (fuel : Nat) (is js : List Nat) (b : MessageBuffer Nat)
    (hfu : is.length + 1 ≤ fuel) (hl : js.length = is.length) (hb : b.size = B) (hp : b.position = 0)
    (hne : is ≠ []) :
    (recvLoop true false unpackSizes (msgsOf (sizeHandle h) B 1 fuel is) (sendT 0 0 js 1) b 1
        (List.replicate js.length 0)).acc = is.map h.size ∧
    (recvLoop true false unpackSizes (msgsOf (sizeHandle h) B 1 fuel is) (sendT 0 0 js 1) b 1
        (List.replicate js.length 0)).posted = (msgsOf (sizeHandle h) B 1 fuel is).length ∧
    (recvLoop true false unpackSizes (msgsOf (sizeHandle h) B 1 fuel is) (sendT 0 0 js 1) b 1
        (List.replicate js.length 0)).ok = true := by
  have htot : 0 < total (sizeHandle h) is := by
    rw [sizeHandle_total]; cases is with
    | nil => exact absurd rfl hne
    | cons => simp
  obtain ⟨k', h1, h2, h3, h4, h5, h6⟩ := recvLoop_generic (sizeHandle h) B 1 false unpackSizes
    (fun k js _ => sendT 0 k js 1)
    (fun dst k is' _ => ∃ done : List Nat, dst = done ++ List.replicate is'.length 0 ∧ done.length = k ∧
      done ++ is'.map h.size = is.map h.size)
    (fun k js _ => sendT_skip 0 k js 1)
    (by
      intro k js' is' hl' _
      rw [sizeHandle_total, sendT_finished]
      cases is' <;> cases js' <;> simp_all)
    (by
      intro k js' is' b' dst hl' _ _ hb' _ hinv
      obtain ⟨done, hd1, hd2, hd3⟩ := hinv
      have hr1 : round1 (sizeHandle h) B 1 is' = (is'.take (min B is'.length), is'.drop (min B is'.length)) := by
        simp [round1]
      have hn : min B is'.length ≤ is'.length := Nat.min_le_right _ _
      simp only [hr1, unpackSizes, unpackSizeEntries, sendT_left, MessageBuffer.received, hb', hl', sizeHandle_flatMap,
        Tracker.offset, sendT_index, List.length_take, Nat.min_eq_left hn, List.length_drop]
      refine ⟨by simp [Tracker.increment, sendT, Tracker.skipZeroIndices], trivial, ?_⟩
      refine ⟨done ++ (is'.take (min B is'.length)).map h.size, ?_, by simp [hd2, Nat.min_eq_left hn], ?_⟩
      · have htk : ((is'.take (min B is'.length)).map h.size).take (min B is'.length)
            = (is'.take (min B is'.length)).map h.size := List.take_of_length_le (by simp)
        rw [htk, hd1, ← hd2, writeAt_step done _ is'.length (by simpa using hn)]
        simp [Nat.min_eq_left hn]
      · rw [← hd3, List.append_assoc, ← List.map_append, List.take_append_drop])
    fuel is js 0 b 1 (List.replicate js.length 0) hfu hl hb hp (sizeHandle_fits h B hB is) htot
    ⟨[], by simp [hl], rfl, by simp⟩
  obtain ⟨done, hd1, _, hd3⟩ := h1
  refine ⟨by simpa [hd1] using hd3, by omega, ?_⟩
  simp [RecvRun.ok, h3, h4, h5, h6]

theorem exchangeSizes_spec (h : Handle α) (B : Nat) (hB : 0 < B) (sendIdx recvIdx : List Nat)
    (hl : recvIdx.length = sendIdx.length) :
    (exchangeSizes true B h sendIdx recvIdx).2.acc = sendIdx.map h.size ∧
    (exchangeSizes true B h sendIdx recvIdx).2.ok = true ∧
    (exchangeSizes true B h sendIdx recvIdx).1.stuck = false ∧
    (exchangeSizes true B h sendIdx recvIdx).1.tracker.finished = true ∧
    (exchangeSizes true B h sendIdx recvIdx).2.posted = (exchangeSizes true B h sendIdx recvIdx).1.messages.length ∧
    (exchangeSizes true B h sendIdx recvIdx).1.messages = msgsOf (sizeHandle h) B 1 (sendIdx.length + 1) sendIdx := by
  obtain ⟨hm, hfin, hst⟩ := sendAll_sendT (sizeHandle h) B 1 (sendIdx.length + 1) sendIdx 0 0 (MessageBuffer.new B) true
    (Nat.le_refl _) rfl (sizeHandle_fits h B hB sendIdx) (Or.inl rfl)
  simp only [exchangeSizes, mk'_send, hm, hfin, hst]
  by_cases hne : sendIdx = []
  · subst hne
    have hr : recvIdx = [] := List.eq_nil_of_length_eq_zero (by simpa using hl)
    subst hr
    have hmsg : msgsOf (sizeHandle h) B 1 (0 + 1) [] = [] :=
      msgsOf_allzero (sizeHandle h) B 1 1 [] (by simp) (sizeHandle_fits h B hB []) rfl
    simp only [List.length_nil, hmsg, recvAll]
    rw [setupRecv_idle _ _ (sendT_skip ..) (by simp)]
    simp [RecvRun.ok]
  · have hrne : (sendT 0 0 recvIdx 1).finished = false := by
      cases recvIdx with
      | nil => exact absurd (List.eq_nil_of_length_eq_zero (by simpa using hl.symm)) hne
      | cons => simp
    simp only [recvAll]
    rw [setupRecv_posts _ _ (sendT_skip ..) hrne]
    obtain ⟨h1, h2, h3⟩ := recvLoop_sizes h B hB (sendIdx.length + 1) sendIdx recvIdx (MessageBuffer.new B).reset
      (Nat.le_refl _) hl rfl rfl hne
    simp only [if_true]
    exact ⟨h1, h3, trivial, trivial, h2, trivial⟩

theorem mk'_recv (r : Nat) (js ss : List Nat) :
    ({ Tracker.mk' r js 0 true with sizes := ss } : Tracker) = recvT r 0 js ss := by
  simp [Tracker.mk', recvT]

/-- `communicateVariableSize`, one directed neighbour relation: delivery, termination, message matching -/
theorem communicatePairVar_spec (h : Handle α) (B : Nat) (hB : 0 < B) (sendIdx recvIdx : List Nat)
    (hl : recvIdx.length = sendIdx.length) (hfit : ∀ i ∈ sendIdx, h.size i ≤ B) :
    (communicatePairVar true B h sendIdx recvIdx).calls = callsOf h sendIdx recvIdx ∧
    (communicatePairVar true B h sendIdx recvIdx).returns = true ∧
    (communicatePairVar true B h sendIdx recvIdx).dataMessages = (communicatePairVar true B h sendIdx recvIdx).receivesPosted ∧
    (communicatePairVar true B h sendIdx recvIdx).dataMessages = (msgsOf h B 0 (sendIdx.length + 1) sendIdx).length := by
  have hf : Fits h B 0 sendIdx := Or.inl ⟨rfl, hfit⟩
  obtain ⟨e1, e2, e3, e4, _, _⟩ := exchangeSizes_spec h B hB sendIdx recvIdx hl
  obtain ⟨hm, hfin, hst⟩ := sendAll_sendT h B 0 (sendIdx.length + 1) sendIdx 0 0 (MessageBuffer.new B) true
    (Nat.le_refl _) rfl hf (Or.inl rfl)
  simp only [communicatePairVar, e1, e2, e3, e4, mk'_recv, mk'_send, hm, hfin, hst, recvAll]
  have hskip : (recvT 0 0 recvIdx (sendIdx.map h.size)).skipZeroIndices = rcvT h 0 0 0 recvIdx sendIdx := by
    simp [rcvT, recvT_skip]
  by_cases hz : total h sendIdx = 0
  · have hfinR : (rcvT h 0 0 0 recvIdx sendIdx).finished = true := by
      rw [rcvT_finished h B 0 0 0 recvIdx sendIdx hl hf]; simp [hz]
    rw [setupRecv_idle' _ _ (by rw [hskip]; exact hfinR), hskip]
    have hmsg := msgsOf_allzero h B 0 (sendIdx.length + 1) sendIdx (Nat.le_refl _) hf hz
    have hc : callsOf h sendIdx recvIdx = [] := by
      have : ∀ (is js : List Nat), total h is = 0 → callsOf h is js = [] := by
        intro is
        induction is with
        | nil => intro js _; simp
        | cons i is ih =>
          intro js ht
          cases js with
          | nil => rfl
          | cons j js => simp at ht; simp [callsOf, ht.1, ih js ht.2]
      exact this _ _ hz
    simp [hmsg, hc, RecvRun.ok, hfinR]
  · have hpos : 0 < total h sendIdx := Nat.pos_of_ne_zero hz
    have hfinR : (rcvT h 0 0 0 recvIdx sendIdx).finished = false := by
      rw [rcvT_finished h B 0 0 0 recvIdx sendIdx hl hf]; simp [hz]
    rw [setupRecv_posts' _ _ (by rw [hskip]; exact hfinR), hskip]
    obtain ⟨h1, h2, h3, h4, h5, h6⟩ := recvLoop_data h B 0 0 true (by simp) (sendIdx.length + 1) sendIdx recvIdx 0
      (MessageBuffer.new B).reset 1 [] (Nat.le_refl _) hl rfl rfl hf hpos
    simp only [if_true, h1, List.nil_append, RecvRun.ok, h3, h4, h5, h6]
    refine ⟨trivial, by simp, by omega, trivial⟩

/-- `communicateFixedSize`, one directed neighbour relation -/
theorem communicatePairFixed_spec (h : Handle α) (B f : Nat) (sendIdx recvIdx : List Nat)
    (hl : recvIdx.length = sendIdx.length) (hf0 : f ≠ 0) (hfB : f ≤ B) (hsz : ∀ i ∈ sendIdx, h.size i = f) :
    (communicatePairFixed true B h f sendIdx recvIdx).calls = callsOf h sendIdx recvIdx ∧
    (communicatePairFixed true B h f sendIdx recvIdx).returns = true ∧
    (communicatePairFixed true B h f sendIdx recvIdx).dataMessages
      = (communicatePairFixed true B h f sendIdx recvIdx).receivesPosted ∧
    (communicatePairFixed true B h f sendIdx recvIdx).dataMessages = (msgsOf h B f (sendIdx.length + 1) sendIdx).length := by
  have hf : Fits h B f sendIdx := Or.inr ⟨hf0, hfB, hsz⟩
  obtain ⟨hm, hfin, hst⟩ := sendAll_sendT h B f (sendIdx.length + 1) sendIdx 0 0 (MessageBuffer.new B) true
    (Nat.le_refl _) rfl hf (Or.inl rfl)
  have hT : (sendT 0 0 recvIdx 0).setFixedSize f = rcvT h f 0 0 recvIdx sendIdx := by
    simp [Tracker.setFixedSize, rcvT, sendT, hf0]
  simp only [communicatePairFixed, mk'_send, hm, hfin, hst, hT, rcvT_skip]
  by_cases hz : total h sendIdx = 0
  · have hfinR : (rcvT h f 0 0 recvIdx sendIdx).finished = true := by
      rw [rcvT_finished h B f 0 0 recvIdx sendIdx hl hf]; simp [hz]
    have hmsg := msgsOf_allzero h B f (sendIdx.length + 1) sendIdx (Nat.le_refl _) hf hz
    have hc : callsOf h sendIdx recvIdx = [] := by
      have hnil : sendIdx = [] := by
        rw [total_fixed h f sendIdx hsz] at hz
        rcases Nat.mul_eq_zero.1 hz with h1 | h1
        · exact List.eq_nil_of_length_eq_zero h1
        · exact absurd h1 hf0
      simp [hnil]
    simp [hfinR, hmsg, hc, RecvRun.ok]
  · have hpos : 0 < total h sendIdx := Nat.pos_of_ne_zero hz
    have hfinR : (rcvT h f 0 0 recvIdx sendIdx).finished = false := by
      rw [rcvT_finished h B f 0 0 recvIdx sendIdx hl hf]; simp [hz]
    obtain ⟨h1, h2, h3, h4, h5, h6⟩ := recvLoop_data h B f 0 false (by simp [hf0]) (sendIdx.length + 1) sendIdx recvIdx 0
      (MessageBuffer.new B).reset 1 [] (Nat.le_refl _) hl rfl rfl hf hpos
    simp only [hfinR, Bool.false_eq_true, if_false, recvAll, setupRecv_posts _ _ (rcvT_skip ..) hfinR, if_true, h1,
      List.nil_append, RecvRun.ok, h3, h4, h5, h6]
    refine ⟨trivial, by simp, by omega, trivial⟩

end DV.C06
