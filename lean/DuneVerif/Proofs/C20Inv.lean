import DuneVerif.Proofs.C20View
import DuneVerif.Proofs.C20Slice
/-! the store invariant of programs over vectors and its preservation by every bound operation -/
namespace DV.C20

/-- What holds in every state a program of bound vector operations can reach (`kd` is `fv n` or `dyn`):
    registers name existing vectors, a `FieldVector<K,n>` has exactly `n` cells, every NumPy view denotes cells
    inside an existing vector / array, and (DynamicVector has no buffer protocol) no array aliases a DynamicVector. -/
structure Inv (kd : Kind) (s : State) : Prop where
  xs_lt : ∀ x b, s.xs x = some b → b < s.blocks.length
  xs_len : ∀ n, kd = .fv n → ∀ x b, s.xs x = some b → (s.read b).length = n
  arrs_ok : ∀ a v, s.arrs a = some v → ViewOK s v
  arrs_sep : kd = .dyn → ∀ a v x, s.arrs a = some v → s.xs x ≠ some v.blk

theorem inv_init (kd : Kind) : Inv kd {} where
  xs_lt := by intro x b h; cases h
  xs_len := by intro n _ x b h; cases h
  arrs_ok := by intro a v h; cases h
  arrs_sep := by intro _ a v x h; cases h

/-- side conditions under which an effect keeps the invariant -/
def EffOK (kd : Kind) (s : State) : Eff → Prop
  | .obs _ => True
  | .newX _ v => ∀ n, kd = .fv n → v.length = n
  | .aliasX _ b => ∃ y, s.xs y = some b
  | .writeB b v => (∃ x, s.xs x = some b) ∧ (kd = .dyn ∨ v.length = (s.read b).length)
  | .bindA _ v => ViewOK s v ∧ kd.isFv = true
  | .newA _ _ => True
  | .newAV _ mem off step len _ m =>
    step ≠ 0 ∧ 0 < m.rsz ∧ ∀ j, j < len → 0 ≤ off + (j : Int) * step ∧ off + (j : Int) * step < (mem.length : Int)
  | .writeCell v p _ => (∃ a, s.arrs a = some v) ∧ p < v.len
  | .writeView v vals => (∃ a, s.arrs a = some v) ∧ vals.length = v.len

/-! ### the invariant under the store primitives -/

theorem viewOK_of_same (s s' : State) (v : View) (hlen : s.blocks.length ≤ s'.blocks.length)
    (hrd : (s'.read v.blk).length = (s.read v.blk).length) (h : ViewOK s v) : ViewOK s' v := by
  refine ⟨Nat.lt_of_lt_of_le h.1 hlen, h.2.1, h.2.2.1, ?_⟩
  intro j hj
  rw [hrd]
  exact h.2.2.2 j hj

theorem inv_alloc_bindX (kd : Kind) (s : State) (x : Nat) (v : List Int) (h : Inv kd s)
    (hv : ∀ n, kd = .fv n → v.length = n) : Inv kd ((s.alloc v).1.bindX x (s.alloc v).2) := by
  refine ⟨?_, ?_, ?_, ?_⟩
  · intro y b hy
    rw [bindX_blocks, alloc_blocks_length]
    by_cases hyx : y = x
    · subst hyx
      rw [bindX_same] at hy
      have := Option.some.inj hy
      rw [alloc_fresh] at this
      omega
    · rw [bindX_other _ _ _ _ hyx, alloc_xs] at hy
      have := h.xs_lt y b hy
      omega
  · intro n hn y b hy
    rw [bindX_read]
    by_cases hyx : y = x
    · subst hyx
      rw [bindX_same] at hy
      have hb := Option.some.inj hy
      rw [← hb, read_alloc_new]
      exact hv n hn
    · rw [bindX_other _ _ _ _ hyx, alloc_xs] at hy
      rw [read_alloc_old s v b (h.xs_lt y b hy)]
      exact h.xs_len n hn y b hy
  · intro a w ha
    rw [bindX_arrs, alloc_arrs] at ha
    have hw := h.arrs_ok a w ha
    apply viewOK_of_same s _ w _ _ hw
    · rw [bindX_blocks, alloc_blocks_length]; omega
    · rw [bindX_read, read_alloc_old s v w.blk hw.1]
  · intro hd a w y ha hy
    rw [bindX_arrs, alloc_arrs] at ha
    have hw := h.arrs_ok a w ha
    by_cases hyx : y = x
    · subst hyx
      rw [bindX_same] at hy
      have hb := Option.some.inj hy
      rw [alloc_fresh] at hb
      have := hw.1
      omega
    · rw [bindX_other _ _ _ _ hyx, alloc_xs] at hy
      exact h.arrs_sep hd a w y ha hy

theorem inv_bindX (kd : Kind) (s : State) (x b y : Nat) (h : Inv kd s) (hy : s.xs y = some b) :
    Inv kd (s.bindX x b) := by
  refine ⟨?_, ?_, ?_, ?_⟩
  · intro z c hz
    rw [bindX_blocks]
    by_cases hzx : z = x
    · subst hzx
      rw [bindX_same] at hz
      rw [← Option.some.inj hz]
      exact h.xs_lt y b hy
    · rw [bindX_other _ _ _ _ hzx] at hz
      exact h.xs_lt z c hz
  · intro n hn z c hz
    rw [bindX_read]
    by_cases hzx : z = x
    · subst hzx
      rw [bindX_same] at hz
      rw [← Option.some.inj hz]
      exact h.xs_len n hn y b hy
    · rw [bindX_other _ _ _ _ hzx] at hz
      exact h.xs_len n hn z c hz
  · intro a w ha
    rw [bindX_arrs] at ha
    exact viewOK_of_same s _ w (by rw [bindX_blocks]; omega) (by rw [bindX_read]) (h.arrs_ok a w ha)
  · intro hd a w z ha hz
    rw [bindX_arrs] at ha
    by_cases hzx : z = x
    · subst hzx
      rw [bindX_same] at hz
      have hb : b = w.blk := Option.some.inj hz
      exact h.arrs_sep hd a w y ha (by rw [hy, hb])
    · rw [bindX_other _ _ _ _ hzx] at hz
      exact h.arrs_sep hd a w z ha hz

/-- overwriting a block by a list of the same length -/
theorem inv_write_sameLen (kd : Kind) (s : State) (b : Nat) (R : List Int) (h : Inv kd s) (hb : b < s.blocks.length)
    (hl : R.length = (s.read b).length) : Inv kd (s.write b R) := by
  have hrd : ∀ c, ((s.write b R).read c).length = (s.read c).length := by
    intro c
    by_cases hc : b = c
    · subst hc; rw [read_write_same s b R hb, hl]
    · rw [read_write_other s b c R hc]
  refine ⟨?_, ?_, ?_, ?_⟩
  · intro x c hx
    rw [write_blocks_length]
    exact h.xs_lt x c hx
  · intro n hn x c hx
    rw [hrd]
    exact h.xs_len n hn x c hx
  · intro a w ha
    exact viewOK_of_same s _ w (by rw [write_blocks_length]; omega) (hrd w.blk) (h.arrs_ok a w ha)
  · intro hd a w x ha hx
    exact h.arrs_sep hd a w x ha hx

/-- overwriting the cells of a DynamicVector (possibly with another length: `assign` resizes) -/
theorem inv_write_dyn (s : State) (b x : Nat) (R : List Int) (h : Inv .dyn s) (hx : s.xs x = some b) :
    Inv .dyn (s.write b R) := by
  have hb := h.xs_lt x b hx
  refine ⟨?_, ?_, ?_, ?_⟩
  · intro y c hy
    rw [write_blocks_length]
    exact h.xs_lt y c hy
  · intro n hn; cases hn
  · intro a w ha
    have hne : b ≠ w.blk := by
      intro he
      exact h.arrs_sep rfl a w x ha (by rw [hx, he])
    exact viewOK_of_same s _ w (by rw [write_blocks_length]; omega) (by rw [read_write_other s b w.blk R hne])
      (h.arrs_ok a w ha)
  · intro hd a w y ha hy
    exact h.arrs_sep hd a w y ha hy

theorem inv_bindA (kd : Kind) (s : State) (a : Nat) (v : View) (h : Inv kd s) (hv : ViewOK s v)
    (hsep : kd = .dyn → ∀ x, s.xs x ≠ some v.blk) : Inv kd (s.bindA a v) := by
  refine ⟨h.xs_lt, h.xs_len, ?_, ?_⟩
  · intro c w hc
    by_cases hca : c = a
    · subst hca
      rw [bindA_arrs_same] at hc
      rw [← Option.some.inj hc]
      exact hv
    · rw [bindA_arrs_other _ _ _ _ hca] at hc
      exact h.arrs_ok c w hc
  · intro hd c w x hc hx
    by_cases hca : c = a
    · subst hca
      rw [bindA_arrs_same] at hc
      rw [← Option.some.inj hc] at hx
      exact hsep hd x hx
    · rw [bindA_arrs_other _ _ _ _ hca] at hc
      exact h.arrs_sep hd c w x hc hx

theorem inv_alloc (kd : Kind) (s : State) (v : List Int) (h : Inv kd s) : Inv kd (s.alloc v).1 := by
  refine ⟨?_, ?_, ?_, ?_⟩
  · intro x b hx
    rw [alloc_blocks_length]
    have := h.xs_lt x b hx
    omega
  · intro n hn x b hx
    rw [read_alloc_old s v b (h.xs_lt x b hx)]
    exact h.xs_len n hn x b hx
  · intro a w ha
    have hw := h.arrs_ok a w ha
    exact viewOK_of_same s _ w (by rw [alloc_blocks_length]; omega) (by rw [read_alloc_old s v w.blk hw.1]) hw
  · intro hd a w x ha hx
    exact h.arrs_sep hd a w x ha hx

theorem inv_viewWrite (kd : Kind) (s : State) (v : View) (vals : List Int) (h : Inv kd s) (hb : v.blk < s.blocks.length) :
    Inv kd (s.viewWrite v vals) := by
  refine ⟨?_, ?_, ?_, ?_⟩
  · intro x c hx
    rw [viewWrite_xs s v vals hb] at hx
    rw [viewWrite_blocks_length s v vals hb]
    exact h.xs_lt x c hx
  · intro n hn x c hx
    rw [viewWrite_xs s v vals hb] at hx
    rw [viewWrite_read_length s v vals hb]
    exact h.xs_len n hn x c hx
  · intro a w ha
    rw [viewWrite_arrs s v vals hb] at ha
    exact viewOK_of_same s _ w (by rw [viewWrite_blocks_length s v vals hb]; omega)
      (viewWrite_read_length s v vals hb w.blk) (h.arrs_ok a w ha)
  · intro hd a w x ha hx
    rw [viewWrite_arrs s v vals hb] at ha
    rw [viewWrite_xs s v vals hb] at hx
    exact h.arrs_sep hd a w x ha hx

/-- every effect whose side condition holds keeps the invariant -/
theorem apply_inv (kd : Kind) (s : State) (e : Eff) (h : Inv kd s) (he : EffOK kd s e) : Inv kd (e.apply s).1 := by
  cases e with
  | obs o => exact h
  | newX x v => exact inv_alloc_bindX kd s x v h he
  | aliasX x b =>
    obtain ⟨y, hy⟩ := he
    exact inv_bindX kd s x b y h hy
  | writeB b v =>
    obtain ⟨⟨x, hx⟩, hl⟩ := he
    cases hl with
    | inl hd => subst hd; exact inv_write_dyn s b x v h hx
    | inr hl => exact inv_write_sameLen kd s b v h (h.xs_lt x b hx) hl
  | bindA a v =>
    refine inv_bindA kd s a v h he.1 ?_
    intro hd
    rw [hd] at he
    exact absurd he.2 (by simp [Kind.isFv])
  | newA a v =>
    simp only [Eff.apply]
    have h1 := inv_alloc kd s v h
    refine inv_bindA kd _ a _ h1 ?_ ?_
    · have hb : (s.alloc v).2 < (s.alloc v).1.blocks.length := by
        rw [alloc_blocks_length, alloc_fresh]; omega
      have := fullView_ok (s.alloc v).1 (s.alloc v).2 hb
      rw [read_alloc_new] at this
      exact this
    · intro _ x hx
      rw [alloc_xs] at hx
      have := h.xs_lt x _ hx
      simp only [fullView, alloc_fresh] at this
      omega
  | newAV a mem off step len dt m =>
    simp only [Eff.apply]
    have h1 := inv_alloc kd s mem h
    refine inv_bindA kd _ a _ h1 ?_ ?_
    · have hb : (s.alloc mem).2 < (s.alloc mem).1.blocks.length := by
        rw [alloc_blocks_length, alloc_fresh]; omega
      refine ⟨hb, he.1, he.2.1, ?_⟩
      intro j hj
      simp only [read_alloc_new]
      exact he.2.2 j hj
    · intro _ x hx
      rw [alloc_xs] at hx
      have := h.xs_lt x _ hx
      simp only [alloc_fresh] at this
      omega
  | writeCell v p k =>
    obtain ⟨⟨a, ha⟩, _⟩ := he
    have hv := h.arrs_ok a v ha
    exact inv_write_sameLen kd s v.blk _ h hv.1 List.length_set
  | writeView v vals =>
    obtain ⟨⟨a, ha⟩, _⟩ := he
    exact inv_viewWrite kd s v vals h (h.arrs_ok a v ha).1

end DV.C20
