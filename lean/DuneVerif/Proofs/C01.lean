import Mathlib.Algebra.BigOperators.Group.Finset.Basic
import Mathlib.Algebra.BigOperators.Ring.Finset
import Mathlib.Tactic.Ring
import DuneVerif.Model.C01
/-! Helper lemmas for C01: what the counting loops of the model compute. -/
open Finset

namespace DV.C01

variable {R : Type*} [CommRing R]

@[simp] theorem forN_zero {σ : Type*} (f : Nat → σ → σ) (s : σ) : forN 0 f s = s := rfl
theorem forN_succ {σ : Type*} (n : Nat) (f : Nat → σ → σ) (s : σ) : forN (n+1) f s = f n (forN n f s) := rfl

omit [CommRing R] in
@[simp] theorem Vec.upd_get (y : Vec R) (t : Nat) (v : R) (k : Nat) :
    (y.upd t v).get k = if k = t then v else y.get k := rfl
omit [CommRing R] in
@[simp] theorem Vec.upd_n (y : Vec R) (t : Nat) (v : R) : (y.upd t v).n = y.n := rfl

/-- `acc = 0; for k < n: acc += f k` is the finite sum -/
theorem sumLoop_eq (n : Nat) (f : Nat → R) : sumLoop n f = ∑ k ∈ range n, f k := by
  induction n with
  | zero => simp [sumLoop]
  | succ n ih =>
    have : sumLoop (n+1) f = sumLoop n f + f n := rfl
    rw [this, ih, sum_range_succ]

/-- inner loop writing to a fixed target: `for n < N: y[t] += T n` -/
theorem inner_fixed (t N : Nat) (T : Nat → R) (y : Vec R) (k : Nat) :
    (forN N (fun n y => y.upd t (y.get t + T n)) y).get k
      = if k = t then y.get t + ∑ n ∈ range N, T n else y.get k := by
  induction N with
  | zero => by_cases h : k = t <;> simp [h]
  | succ N ih =>
    rw [forN_succ, Vec.upd_get, sum_range_succ]
    by_cases h : k = t
    · subst h; simp [ih]; ring
    · simp [h, ih]

theorem inner_fixed_n (t N : Nat) (T : Nat → R) (y : Vec R) :
    (forN N (fun n y => y.upd t (y.get t + T n)) y).n = y.n := by
  induction N with
  | zero => rfl
  | succ N ih => rw [forN_succ, Vec.upd_n, ih]

/-- loop nest writing to the outer index: `for o < O: [y[o] = 0;] for n < N: y[o] += T o n` -/
theorem outer_fixed (O N : Nat) (T : Nat → Nat → R) (z : Bool) (y : Vec R) (k : Nat) :
    (forN O (fun o y => forN N (fun n y => y.upd o (y.get o + T o n)) (if z then y.upd o 0 else y)) y).get k
      = if k < O then (if z then 0 else y.get k) + ∑ n ∈ range N, T k n else y.get k := by
  cases z
  · simp only [Bool.false_eq_true, if_false]
    induction O with
    | zero => simp
    | succ O ih =>
      rw [forN_succ, inner_fixed]
      by_cases h : k = O
      · subst h; simp [ih]
      · have h1 : (k < O + 1) = (k < O) := by
          apply propext; omega
        simp [h, ih, h1]
  · simp only [if_true]
    induction O with
    | zero => simp
    | succ O ih =>
      rw [forN_succ, inner_fixed]
      by_cases h : k = O
      · subst h; simp
      · have h1 : (k < O + 1) = (k < O) := by
          apply propext; omega
        simp [h, ih, h1]

/-- inner loop writing to the moving index: `for n < N: y[n] += T n` -/
theorem inner_moving (N : Nat) (T : Nat → R) (y : Vec R) (k : Nat) :
    (forN N (fun n y => y.upd n (y.get n + T n)) y).get k
      = if k < N then y.get k + T k else y.get k := by
  induction N with
  | zero => simp
  | succ N ih =>
    rw [forN_succ, Vec.upd_get]
    by_cases h : k = N
    · subst h; simp [ih]
    · have h1 : (k < N + 1) = (k < N) := by
        apply propext; omega
      simp [h, ih, h1]

/-- loop nest writing to the inner index: `for o < O: for n < N: y[n] += T o n` -/
theorem outer_moving (O N : Nat) (T : Nat → Nat → R) (y : Vec R) (k : Nat) :
    (forN O (fun o y => forN N (fun n y => y.upd n (y.get n + T o n)) y) y).get k
      = if k < N then y.get k + ∑ o ∈ range O, T o k else y.get k := by
  induction O with
  | zero => simp
  | succ O ih =>
    rw [forN_succ, inner_moving, ih, sum_range_succ]
    by_cases h : k < N
    · simp [h]; ring
    · simp [h]

omit [CommRing R] in
/-- single loop over the diagonal: `for i < n: y[i] = g i (y[i])` -/
theorem diag_loop (n : Nat) (g : Nat → R → R) (y : Vec R) (k : Nat) :
    (forN n (fun i y => y.upd i (g i (y.get i))) y).get k = if k < n then g k (y.get k) else y.get k := by
  induction n with
  | zero => simp
  | succ n ih =>
    rw [forN_succ, Vec.upd_get]
    by_cases h : k = n
    · subst h; simp [ih]
    · have h1 : (k < n + 1) = (k < n) := by
        apply propext; omega
      simp [h, ih, h1]

end DV.C01

namespace DV.C01
variable {R : Type*} [CommRing R]

/-! ### representations -/

theorem shape_toFull (r : Rep R) : r.toFull.rows = r.rows ∧ r.toFull.cols = r.cols := by
  induction r with
  | full m => exact ⟨rfl, rfl⟩
  | diag n d => exact ⟨rfl, rfl⟩
  | scalar a => exact ⟨rfl, rfl⟩
  | transposed r ih => exact ⟨ih.2, ih.1⟩

theorem toFull_rows (r : Rep R) : r.toFull.rows = r.rows := (shape_toFull r).1
theorem toFull_cols (r : Rep R) : r.toFull.cols = r.cols := (shape_toFull r).2

/-- row `i` of a diagonal matrix times `x` -/
theorem sum_diag_row (n : Nat) (d x : Nat → R) (i : Nat) (hi : i < n) :
    ∑ j ∈ range n, (if i = j then d i else 0) * x j = d i * x i := by
  simp [ite_mul, Finset.sum_ite_eq, hi]

/-- column `i` of a diagonal matrix (with `f` applied entrywise, `f 0 = 0`) times `x` -/
theorem sum_diag_col (f : R → R) (hf : f 0 = 0) (n : Nat) (d x : Nat → R) (i : Nat) (hi : i < n) :
    ∑ l ∈ range n, f (if l = i then d l else 0) * x l = f (d i) * x i := by
  have : ∀ l, f (if l = i then d l else 0) * x l = if l = i then f (d l) * x l else 0 := by
    intro l; by_cases h : l = i <;> simp [h, hf]
  simp [this, Finset.sum_ite_eq', hi]

/-! ### comparison loops -/

omit [CommRing R] in
theorem allN_iff (n : Nat) (p : Nat → Bool) : allN n p = true ↔ ∀ i, i < n → p i = true := by
  induction n with
  | zero => simp [allN]
  | succ n ih =>
    have : allN (n+1) p = (allN n p && p n) := rfl
    rw [this, Bool.and_eq_true, ih]
    constructor
    · rintro ⟨h1, h2⟩ i hi
      by_cases h : i = n
      · subst h; exact h2
      · exact h1 i (by omega)
    · intro h
      exact ⟨fun i hi => h i (by omega), h n (by omega)⟩

end DV.C01
