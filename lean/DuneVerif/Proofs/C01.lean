import Mathlib.Algebra.BigOperators.Group.Finset.Basic
import Mathlib.Algebra.BigOperators.Ring.Finset
import Mathlib.Tactic.Ring
import DuneVerif.Model.C01
/-! Helper lemmas for C01: what the counting loops of the model compute. -/
open Finset

namespace DV.C01

variable {R : Type*} [CommRing R]

@[simp] theorem forN_zero {σ : Type*} (f : Nat → σ → σ) (s : σ) : forN 0 f s = s := rfl
theorem forN_succ {σ : Type*} (n : Nat) (f : Nat → σ → σ) (s : σ) : forN (n+1) f s = f n (forN n f s) := rfl

omit [CommRing R] in
@[simp] theorem Vec.upd_get (y : Vec R) (t : Nat) (v : R) (k : Nat) :
    (y.upd t v).get k = if k = t then v else y.get k := rfl
omit [CommRing R] in
@[simp] theorem Vec.upd_n (y : Vec R) (t : Nat) (v : R) : (y.upd t v).n = y.n := rfl

/-- `acc = 0; for k < n: acc += f k` is the finite sum -/
theorem sumLoop_eq (n : Nat) (f : Nat → R) : sumLoop n f = ∑ k ∈ range n, f k := by
  induction n with
  | zero => simp [sumLoop]
  | succ n ih =>
    have : sumLoop (n+1) f = sumLoop n f + f n := rfl
    rw [this, ih, sum_range_succ]

/-- inner loop writing to a fixed target: `for n < N: y[t] += T n` -/
theorem inner_fixed (t N : Nat) (T : Nat → R) (y : Vec R) (k : Nat) :
    (forN N (fun n y => y.upd t (y.get t + T n)) y).get k
      = if k = t then y.get t + ∑ n ∈ range N, T n else y.get k := by
  induction N with
  | zero => by_cases h : k = t <;> simp [h]
  | succ N ih =>
    rw [forN_succ, Vec.upd_get, sum_range_succ]
    by_cases h : k = t
    · subst h; simp [ih]; ring
    · simp [h, ih]

theorem inner_fixed_n (t N : Nat) (T : Nat → R) (y : Vec R) :
    (forN N (fun n y => y.upd t (y.get t + T n)) y).n = y.n := by
  induction N with
  | zero => rfl
  | succ N ih => rw [forN_succ, Vec.upd_n, ih]

/-- loop nest writing to the outer index: `for o < O: [y[o] = 0;] for n < N: y[o] += T o n` -/
theorem outer_fixed (O N : Nat) (T : Nat → Nat → R) (z : Bool) (y : Vec R) (k : Nat) :
    (forN O (fun o y => forN N (fun n y => y.upd o (y.get o + T o n)) (if z then y.upd o 0 else y)) y).get k
      = if k < O then (if z then 0 else y.get k) + ∑ n ∈ range N, T k n else y.get k := by
  cases z
  · simp only [Bool.false_eq_true, if_false]
    induction O with
    | zero => simp
    | succ O ih =>
      rw [forN_succ, inner_fixed]
      by_cases h : k = O
      · subst h; simp [ih]
      · have h1 : (k < O + 1) = (k < O) := by
          apply propext; omega
        simp [h, ih, h1]
  · simp only [if_true]
    induction O with
    | zero => simp
    | succ O ih =>
      rw [forN_succ, inner_fixed]
      by_cases h : k = O
      · subst h; simp
      · have h1 : (k < O + 1) = (k < O) := by
          apply propext; omega
        simp [h, ih, h1]

/-- inner loop writing to the moving index: `for n < N: y[n] += T n` -/
theorem inner_moving (N : Nat) (T : Nat → R) (y : Vec R) (k : Nat) :
    (forN N (fun n y => y.upd n (y.get n + T n)) y).get k
      = if k < N then y.get k + T k else y.get k := by
  induction N with
  | zero => simp
  | succ N ih =>
    rw [forN_succ, Vec.upd_get]
    by_cases h : k = N
    · subst h; simp [ih]
    · have h1 : (k < N + 1) = (k < N) := by
        apply propext; omega
      simp [h, ih, h1]

/-- loop nest writing to the inner index: `for o < O: for n < N: y[n] += T o n` -/
theorem outer_moving (O N : Nat) (T : Nat → Nat → R) (y : Vec R) (k : Nat) :
    (forN O (fun o y => forN N (fun n y => y.upd n (y.get n + T o n)) y) y).get k
      = if k < N then y.get k + ∑ o ∈ range O, T o k else y.get k := by
  induction O with
  | zero => simp
  | succ O ih =>
    rw [forN_succ, inner_moving, ih, sum_range_succ]
    by_cases h : k < N
    · simp [h]; ring
    · simp [h]

omit [CommRing R] in
/-- single loop over the diagonal: `for i < n: y[i] = g i (y[i])` -/
theorem diag_loop (n : Nat) (g : Nat → R → R) (y : Vec R) (k : Nat) :
    (forN n (fun i y => y.upd i (g i (y.get i))) y).get k = if k < n then g k (y.get k) else y.get k := by
  induction n with
  | zero => simp
  | succ n ih =>
    rw [forN_succ, Vec.upd_get]
    by_cases h : k = n
    · subst h; simp [ih]
    · have h1 : (k < n + 1) = (k < n) := by
        apply propext; omega
      simp [h, ih, h1]

/-! ### elementwise loops -/

omit [CommRing R] in
theorem elemSem_get [Zero R] [Add R] [Sub R] [Mul R] [Neg R] [Div R]
    (s : ElemSig) (n : Nat) (self : Nat → R) (k : R) (x : Nat → R) (t : Vec R) (i : Nat) :
    (elemSem s n self k x t).get i
      = if i < n then applyE s.op (t.get i) (erhs s.rhs (self i) k (x i)) else t.get i := by
  unfold elemSem
  exact diag_loop n (fun i v => applyE s.op v (erhs s.rhs (self i) k (x i))) t i

omit [CommRing R] in
theorem loop_upd_n (n : Nat) (g : Nat → Vec R → Nat) (h : Nat → Vec R → R) (t : Vec R) :
    (forN n (fun i t => t.upd (g i t) (h i t)) t).n = t.n := by
  induction n with
  | zero => rfl
  | succ n ih => rw [forN_succ, Vec.upd_n, ih]

omit [CommRing R] in
theorem elemSem_n [Zero R] [Add R] [Sub R] [Mul R] [Neg R] [Div R]
    (s : ElemSig) (n : Nat) (self : Nat → R) (k : R) (x : Nat → R) (t : Vec R) :
    (elemSem s n self k x t).n = t.n := by
  unfold elemSem
  exact loop_upd_n n (fun i _ => i) (fun i t => applyE s.op (t.get i) (erhs s.rhs (self i) k (x i))) t

/-! ### stores into a matrix -/

omit [CommRing R] in
@[simp] theorem Mat.upd_e (M : Mat R) (a b : Nat) (v : R) (r c : Nat) :
    (M.upd a b v).e r c = if r = a ∧ c = b then v else M.e r c := rfl
omit [CommRing R] in
@[simp] theorem Mat.upd_rows (M : Mat R) (a b : Nat) (v : R) : (M.upd a b v).rows = M.rows := rfl
omit [CommRing R] in
@[simp] theorem Mat.upd_cols (M : Mat R) (a b : Nat) (v : R) : (M.upd a b v).cols = M.cols := rfl

omit [CommRing R] in
theorem loop_mupd_shape (n : Nat) (ga gb : Nat → Mat R → Nat) (h : Nat → Mat R → R) (T : Mat R) :
    (forN n (fun i T => T.upd (ga i T) (gb i T) (h i T)) T).rows = T.rows
    ∧ (forN n (fun i T => T.upd (ga i T) (gb i T) (h i T)) T).cols = T.cols := by
  induction n with
  | zero => exact ⟨rfl, rfl⟩
  | succ n ih => rw [forN_succ]; exact ⟨ih.1, ih.2⟩

omit [CommRing R] in
/-- a loop whose body preserves the shape preserves the shape -/
theorem loop_shape (n : Nat) (f : Nat → Mat R → Mat R)
    (hf : ∀ i T, (f i T).rows = T.rows ∧ (f i T).cols = T.cols) (T : Mat R) :
    (forN n f T).rows = T.rows ∧ (forN n f T).cols = T.cols := by
  induction n with
  | zero => exact ⟨rfl, rfl⟩
  | succ n ih =>
    rw [forN_succ]
    exact ⟨(hf n _).1.trans ih.1, (hf n _).2.trans ih.2⟩

/-- innermost loop of a product nest: `for k < N: T[i][j] += t k` -/
theorem mat_inner (i j N : Nat) (t : Nat → R) (T : Mat R) (a b : Nat) :
    (forN N (fun k T => T.upd i j (T.e i j + t k)) T).e a b
      = if a = i ∧ b = j then T.e i j + ∑ k ∈ range N, t k else T.e a b := by
  induction N with
  | zero => by_cases h : a = i ∧ b = j <;> simp [h]
  | succ N ih =>
    rw [forN_succ, Mat.upd_e, sum_range_succ]
    by_cases h : a = i ∧ b = j
    · obtain ⟨rfl, rfl⟩ := h
      simp [ih]; ring
    · simp [h, ih]

/-- middle loop: `for j < J: [T[i][j] = 0;] for k < N: T[i][j] += t j k` -/
theorem mat_mid (i J N : Nat) (t : Nat → Nat → R) (z : Bool) (T : Mat R) (a b : Nat) :
    (forN J (fun j T => forN N (fun k T => T.upd i j (T.e i j + t j k)) (if z then T.upd i j 0 else T)) T).e a b
      = if a = i ∧ b < J then (if z then 0 else T.e a b) + ∑ k ∈ range N, t b k else T.e a b := by
  cases z
  · simp only [Bool.false_eq_true, if_false]
    induction J with
    | zero => simp
    | succ J ih =>
      rw [forN_succ, mat_inner]
      by_cases hb : b = J
      · subst hb
        by_cases ha : a = i
        · subst ha; simp [ih]
        · simp [ha, ih]
      · have h1 : (b < J + 1) = (b < J) := by apply propext; omega
        simp [hb, ih, h1]
  · simp only [if_true]
    induction J with
    | zero => simp
    | succ J ih =>
      rw [forN_succ, mat_inner]
      by_cases hb : b = J
      · subst hb
        by_cases ha : a = i
        · subst ha; simp
        · simp [ha, ih]
      · have h1 : (b < J + 1) = (b < J) := by apply propext; omega
        simp [hb, ih, h1]

/-- the product loop nest with target `T[i][j]` -/
theorem nest_ij (I J N : Nat) (t : Nat → Nat → Nat → R) (z : Bool) (T : Mat R) (a b : Nat) :
    (forN I (fun i T => forN J (fun j T => forN N (fun k T => T.upd i j (T.e i j + t i j k))
        (if z then T.upd i j 0 else T)) T) T).e a b
      = if a < I ∧ b < J then (if z then 0 else T.e a b) + ∑ k ∈ range N, t a b k else T.e a b := by
  induction I with
  | zero => simp
  | succ I ih =>
    rw [forN_succ, mat_mid]
    by_cases ha : a = I
    · subst ha
      by_cases hb : b < J <;> simp [hb, ih]
    · have h1 : (a < I + 1) = (a < I) := by apply propext; omega
      simp [ha, ih, h1]

omit [CommRing R] in
theorem nest_shape [Add R] [Zero R] (I J N : Nat) (t : Nat → Nat → Nat → R) (z : Bool) (T : Mat R) :
    (forN I (fun i T => forN J (fun j T => forN N (fun k T => T.upd i j (T.e i j + t i j k))
        (if z then T.upd i j 0 else T)) T) T).rows = T.rows
    ∧ (forN I (fun i T => forN J (fun j T => forN N (fun k T => T.upd i j (T.e i j + t i j k))
        (if z then T.upd i j 0 else T)) T) T).cols = T.cols := by
  apply loop_shape
  intro i T
  apply loop_shape
  intro j T
  have h := loop_mupd_shape N (fun _ _ => i) (fun _ _ => j) (fun k T => T.e i j + t i j k) (if z then T.upd i j 0 else T)
  cases z <;> simpa using h

omit [CommRing R] in
/-- the transposition nest `for o < O: for n < N: T[n][o] = src o n` -/
theorem trans_nest (O N : Nat) (src : Nat → Nat → R) (T : Mat R) (a b : Nat) :
    (forN O (fun o T => forN N (fun n T => T.upd n o (src o n)) T) T).e a b
      = if a < N ∧ b < O then src b a else T.e a b := by
  have inner : ∀ (o N : Nat) (T : Mat R) (a b : Nat),
      (forN N (fun n T => T.upd n o (src o n)) T).e a b = if a < N ∧ b = o then src o a else T.e a b := by
    intro o N T a b
    induction N with
    | zero => simp
    | succ N ih =>
      rw [forN_succ, Mat.upd_e]
      by_cases ha : a = N
      · subst ha
        by_cases hb : b = o <;> simp [hb, ih]
      · have h1 : (a < N + 1) = (a < N) := by apply propext; omega
        simp [ha, ih, h1]
  induction O with
  | zero => simp
  | succ O ih =>
    rw [forN_succ, inner]
    by_cases hb : b = O
    · subst hb
      by_cases ha : a < N <;> simp [ha, ih]
    · have h1 : (b < O + 1) = (b < O) := by apply propext; omega
      simp [hb, ih, h1]

omit [CommRing R] in
theorem trans_shape (O N : Nat) (src : Nat → Nat → R) (T : Mat R) :
    (forN O (fun o T => forN N (fun n T => T.upd n o (src o n)) T) T).rows = T.rows
    ∧ (forN O (fun o T => forN N (fun n T => T.upd n o (src o n)) T) T).cols = T.cols := by
  apply loop_shape
  intro o T
  exact loop_mupd_shape N (fun n _ => n) (fun _ _ => o) (fun n _ => src o n) T

omit [CommRing R] in
/-- the same nest with the loops exchanged: `for o < O: for n < N: T[o][n] = src o n` -/
theorem trans_nest' (O N : Nat) (src : Nat → Nat → R) (T : Mat R) (a b : Nat) :
    (forN O (fun o T => forN N (fun n T => T.upd o n (src o n)) T) T).e a b
      = if a < O ∧ b < N then src a b else T.e a b := by
  have inner : ∀ (o N : Nat) (T : Mat R) (a b : Nat),
      (forN N (fun n T => T.upd o n (src o n)) T).e a b = if a = o ∧ b < N then src o b else T.e a b := by
    intro o N T a b
    induction N with
    | zero => simp
    | succ N ih =>
      rw [forN_succ, Mat.upd_e]
      by_cases hb : b = N
      · subst hb
        by_cases ha : a = o <;> simp [ha, ih]
      · have h1 : (b < N + 1) = (b < N) := by apply propext; omega
        simp [hb, ih, h1]
  induction O with
  | zero => simp
  | succ O ih =>
    rw [forN_succ, inner]
    by_cases ha : a = O
    · subst ha
      by_cases hb : b < N <;> simp [hb, ih]
    · have h1 : (a < O + 1) = (a < O) := by apply propext; omega
      simp [ha, ih, h1]

omit [CommRing R] in
theorem trans_shape' (O N : Nat) (src : Nat → Nat → R) (T : Mat R) :
    (forN O (fun o T => forN N (fun n T => T.upd o n (src o n)) T) T).rows = T.rows
    ∧ (forN O (fun o T => forN N (fun n T => T.upd o n (src o n)) T) T).cols = T.cols := by
  apply loop_shape
  intro o T
  exact loop_mupd_shape N (fun _ _ => o) (fun n _ => n) (fun n _ => src o n) T

/-! ### fresh-result elementwise loops (round four) -/

omit [CommRing R] in
theorem ewSemVec_get [Add R] [Sub R] [Mul R] [Neg R] [Div R]
    (s : EwSig) (n : Nat) (a b : Nat → R) (k : R) (t : Vec R) (i : Nat) :
    (ewSemVec s n a b k t).get i = if i < n then ewVal s (a i) (b i) k else t.get i := by
  unfold ewSemVec
  exact diag_loop n (fun i _ => ewVal s (a i) (b i) k) t i

omit [CommRing R] in
theorem ewSemVec_n [Add R] [Sub R] [Mul R] [Neg R] [Div R]
    (s : EwSig) (n : Nat) (a b : Nat → R) (k : R) (t : Vec R) : (ewSemVec s n a b k t).n = t.n := by
  unfold ewSemVec
  exact loop_upd_n n (fun i _ => i) (fun i _ => ewVal s (a i) (b i) k) t

omit [CommRing R] in
theorem ewSemMat_e [Add R] [Sub R] [Mul R] [Neg R] [Div R]
    (s : EwSig) (rows cols : Nat) (A B : Nat → Nat → R) (k : R) (T : Mat R) (i j : Nat) :
    (ewSemMat s rows cols A B k T).e i j = if i < rows ∧ j < cols then ewVal s (A i j) (B i j) k else T.e i j := by
  unfold ewSemMat
  exact trans_nest' rows cols (fun i j => ewVal s (A i j) (B i j) k) T i j

omit [CommRing R] in
theorem ewSemMat_shape [Add R] [Sub R] [Mul R] [Neg R] [Div R]
    (s : EwSig) (rows cols : Nat) (A B : Nat → Nat → R) (k : R) (T : Mat R) :
    (ewSemMat s rows cols A B k T).rows = T.rows ∧ (ewSemMat s rows cols A B k T).cols = T.cols := by
  unfold ewSemMat
  exact trans_shape' rows cols (fun i j => ewVal s (A i j) (B i j) k) T

/-- the two ways to write the transposition nest `AT[j][i] = (*this)[i][j]`: rows in the outer or in the inner loop -/
def TransSig.rowsOuter : TransSig :=
  { extO := .rows, extI := .cols, tr := .inner, tc := .outer, sr := .outer, sc := .inner }
def TransSig.colsOuter : TransSig :=
  { extO := .cols, extI := .rows, tr := .outer, tc := .inner, sr := .inner, sc := .outer }

omit [CommRing R] in
/-- every transposition nest of one of the two shapes writes `T[i][j] = A[j][i]` for `i < cols`, `j < rows` -/
theorem transSem_spec (s : TransSig) (hs : s = TransSig.rowsOuter ∨ s = TransSig.colsOuter) (A T : Mat R) (i j : Nat) :
    (transSem s A T).e i j = (if i < A.cols ∧ j < A.rows then A.e j i else T.e i j)
    ∧ (transSem s A T).rows = T.rows ∧ (transSem s A T).cols = T.cols := by
  rcases hs with rfl | rfl
  · have h := trans_nest A.rows A.cols (fun o n => A.e o n) T i j
    have hh := trans_shape A.rows A.cols (fun o n => A.e o n) T
    exact ⟨by simpa [transSem, TransSig.rowsOuter, bound, sel] using h,
           by simpa [transSem, TransSig.rowsOuter, bound, sel] using hh.1,
           by simpa [transSem, TransSig.rowsOuter, bound, sel] using hh.2⟩
  · have h := trans_nest' A.cols A.rows (fun o n => A.e n o) T i j
    have hh := trans_shape' A.cols A.rows (fun o n => A.e n o) T
    exact ⟨by simpa [transSem, TransSig.colsOuter, bound, sel] using h,
           by simpa [transSem, TransSig.colsOuter, bound, sel] using hh.1,
           by simpa [transSem, TransSig.colsOuter, bound, sel] using hh.2⟩

omit [CommRing R] in
/-- `dense = 0; for i < n: dense[i][i] = d i` -/
theorem diag_assign_loop [Zero R] (n : Nat) (d : Nat → R) (T : Mat R) (a b : Nat) :
    (forN n (fun i (M : Mat R) => M.upd i i (d i)) T).e a b = if a = b ∧ a < n then d a else T.e a b := by
  induction n with
  | zero => simp
  | succ n ih =>
    rw [forN_succ, Mat.upd_e]
    by_cases h : a = n ∧ b = n
    · obtain ⟨rfl, rfl⟩ := h; simp
    · by_cases hab : a = b
      · subst hab
        have : ¬ a = n := fun e => h ⟨e, e⟩
        have h1 : (a < n + 1) = (a < n) := by apply propext; omega
        simp [this, ih, h1]
      · simp [h, ih, hab]

end DV.C01

namespace DV.C01
variable {R : Type*} [CommRing R]

/-! ### representations -/

theorem shape_toFull (r : Rep R) : r.toFull.rows = r.rows ∧ r.toFull.cols = r.cols := by
  induction r with
  | full m => exact ⟨rfl, rfl⟩
  | diag n d => exact ⟨rfl, rfl⟩
  | scalar a => exact ⟨rfl, rfl⟩
  | transposed r ih => exact ⟨ih.2, ih.1⟩

theorem toFull_rows (r : Rep R) : r.toFull.rows = r.rows := (shape_toFull r).1
theorem toFull_cols (r : Rep R) : r.toFull.cols = r.cols := (shape_toFull r).2

/-- row `i` of a diagonal matrix times `x` -/
theorem sum_diag_row (n : Nat) (d x : Nat → R) (i : Nat) (hi : i < n) :
    ∑ j ∈ range n, (if i = j then d i else 0) * x j = d i * x i := by
  simp [ite_mul, Finset.sum_ite_eq, hi]

/-- column `i` of a diagonal matrix (with `f` applied entrywise, `f 0 = 0`) times `x` -/
theorem sum_diag_col (f : R → R) (hf : f 0 = 0) (n : Nat) (d x : Nat → R) (i : Nat) (hi : i < n) :
    ∑ l ∈ range n, f (if l = i then d l else 0) * x l = f (d i) * x i := by
  have : ∀ l, f (if l = i then d l else 0) * x l = if l = i then f (d l) * x l else 0 := by
    intro l; by_cases h : l = i <;> simp [h, hf]
  simp [this, Finset.sum_ite_eq', hi]

/-! ### comparison loops -/

omit [CommRing R] in
theorem allN_iff (n : Nat) (p : Nat → Bool) : allN n p = true ↔ ∀ i, i < n → p i = true := by
  induction n with
  | zero => simp [allN]
  | succ n ih =>
    have : allN (n+1) p = (allN n p && p n) := rfl
    rw [this, Bool.and_eq_true, ih]
    constructor
    · rintro ⟨h1, h2⟩ i hi
      by_cases h : i = n
      · subst h; exact h2
      · exact h1 i (by omega)
    · intro h
      exact ⟨fun i hi => h i (by omega), h n (by omega)⟩

end DV.C01
