/-
C17, round four — core-Lean lemmas about the parts of `round_t` / `trunc_t` that are regenerated from float_cmp.cc:
the rounding-style dispatch (`Gen/C17RT.lean`) and the component loops of the vector overloads (`Gen/C17Vec.lean`).
-/
import DuneVerif.Gen.C17RT
import DuneVerif.Gen.C17Vec
import DuneVerif.Gen.C17EqVec

namespace DV.C17
set_option linter.unusedSectionVars false

/-- a loop over all indices assigns every entry -/
theorem fillLoop_full (n : Nat) (f : Nat → Int) : fillLoop n 0 n f = (List.range n).map f := by
  unfold fillLoop
  apply List.map_congr_left
  intro i hi
  have : i < n := List.mem_range.mp hi
  simp [this]

/-- … and if entry `i` is computed from component `i` of the argument, the result is the map over the components -/
theorem fillLoop_components {K : Type} [Zero K] (v : List K) (g : K → Int) :
    fillLoop v.length 0 v.length (fun i => g (v.getD i 0)) = v.map g := by
  rw [fillLoop_full]
  apply List.ext_getElem
  · simp
  · intro i h1 h2
    have hi : i < v.length := by simpa using h1
    simp [List.getD_eq_getElem?_getD, List.getElem?_eq_getElem hi]

/-- a statement about every (argument component, result component) pair of a vector call -/
def Componentwise {α β} (P : α → β → Prop) (v : List α) (r : List β) : Prop :=
  r.length = v.length ∧ ∀ i (hv : i < v.length) (hr : i < r.length), P v[i] r[i]

theorem componentwise_map {α β} (P : α → β → Prop) (g : α → β) (v : List α) (h : ∀ x ∈ v, P x (g x)) :
    Componentwise P v (v.map g) := by
  refine ⟨by simp, fun i hv hr => ?_⟩
  rw [List.getElem_map]
  exact h _ (List.getElem_mem hv)

section
variable {K : Type} [Zero K]

/-- **the vector overloads are the component-wise maps** (all four, every rounding style, every length) -/
theorem vec_eq_map (round_t trunc_t : Style → RStyle → K → K → Int) (cs : Style) (rs : RStyle) (v : List K) (e : K) :
    GenVec.round_std_vec round_t trunc_t cs rs v e = v.map (fun x => round_t cs rs x e) ∧
    GenVec.round_fvec round_t trunc_t cs rs v e = v.map (fun x => round_t cs rs x e) ∧
    GenVec.trunc_std_vec round_t trunc_t cs rs v e = v.map (fun x => trunc_t cs rs x e) ∧
    GenVec.trunc_fvec round_t trunc_t cs rs v e = v.map (fun x => trunc_t cs rs x e) := by
  refine ⟨?_, ?_, ?_, ?_⟩ <;> cases rs <;>
    simp only [GenVec.round_std_vec, GenVec.round_fvec, GenVec.trunc_std_vec, GenVec.trunc_fvec,
      GenVec.round_t_std_vec, GenVec.round_t_fvec, GenVec.trunc_t_std_vec, GenVec.trunc_t_fvec] <;>
    first | exact fillLoop_components v (fun x => round_t cs _ x e) | exact fillLoop_components v (fun x => trunc_t cs _ x e)
end

section
variable {K : Type} [Zero K] [Neg K] [Sub K] [Mul K] [LT K] [LE K] [DecidableLT K] [DecidableLE K] [IntCast K] [Add K]

theorem dispatch_round (s : Style) (tr : K → Int) (x e : K) :
    round s .towardZero tr x e = GenRT.round_towardZero.run (fun rs => round s rs tr) x e ∧
    round s .towardInf tr x e = GenRT.round_towardInf.run (fun rs => round s rs tr) x e := by
  constructor <;> simp [Dispatch.run, ZeroTest.eval, GenRT.round_towardZero, GenRT.round_towardInf, round]

theorem dispatch_trunc (s : Style) (uns : Bool) (tr : K → Int) (x e : K) :
    trunc s uns .towardZero tr x e = GenRT.trunc_towardZero.run (fun rs => trunc s uns rs tr) x e ∧
    trunc s uns .towardInf tr x e = GenRT.trunc_towardInf.run (fun rs => trunc s uns rs tr) x e := by
  constructor <;> simp [Dispatch.run, ZeroTest.eval, GenRT.trunc_towardZero, GenRT.trunc_towardInf, trunc]

theorem dispatch_roundM (t : IType) (s : Style) (tr : K → Int) (x e : K) :
    roundM t s .towardZero tr x e = GenRT.round_towardZero.run (fun rs => roundM t s rs tr) x e ∧
    roundM t s .towardInf tr x e = GenRT.round_towardInf.run (fun rs => roundM t s rs tr) x e := by
  constructor <;> simp [Dispatch.run, ZeroTest.eval, GenRT.round_towardZero, GenRT.round_towardInf, roundM]

theorem dispatch_truncM (t : IType) (s : Style) (tr : K → Int) (x e : K) :
    truncM t s .towardZero tr x e = GenRT.trunc_towardZero.run (fun rs => truncM t s rs tr) x e ∧
    truncM t s .towardInf tr x e = GenRT.trunc_towardInf.run (fun rs => truncM t s rs tr) x e := by
  constructor <;> simp [Dispatch.run, ZeroTest.eval, GenRT.trunc_towardZero, GenRT.trunc_towardInf, truncM]

/-- the specialisations the dispatching ones forward to do not dispatch themselves (no recursion) -/
theorem dispatch_targets_base :
    ∀ d ∈ [GenRT.round_towardZero, GenRT.round_towardInf, GenRT.trunc_towardZero, GenRT.trunc_towardInf],
      (d.thenStyle = .downward ∨ d.thenStyle = .upward) ∧ (d.elseStyle = .downward ∨ d.elseStyle = .upward) := by
  decide
end

/-! ### the component loops of the vector comparisons (`Gen/C17EqVec.lean`) -/

theorem allLoopAux_shift (F : Nat → Bool) : ∀ n k, allLoopAux F (k + 1) n = allLoopAux (fun i => F (i + 1)) k n := by
  intro n
  induction n with
  | zero => intro k; rfl
  | succ n ih => intro k; simp only [allLoopAux]; rw [ih]

section
variable {K : Type} [Zero K] [Neg K] [Sub K] [Mul K] [LT K] [LE K] [DecidableLT K] [DecidableLE K]

theorem allLoop_eq_eqLoop (s : Style) (e : K) : ∀ (a b : List K), a.length = b.length →
    allLoop 0 a.length (fun i => eqS s (a.getD i 0) (b.getD i 0) e) = eqLoop s a b e
  | [], [], _ => by simp [allLoop, allLoopAux, eqLoop]
  | x :: xs, y :: ys, h => by
    have h' : xs.length = ys.length := by simpa using h
    have ih := allLoop_eq_eqLoop s e xs ys h'
    simp only [allLoop, Nat.sub_zero] at ih
    simp only [allLoop, Nat.sub_zero, List.length_cons, allLoopAux, eqLoop, List.getD_cons_zero]
    rw [allLoopAux_shift]
    simp only [List.getD_cons_succ]
    rw [ih]
  | [], _ :: _, h => by simp at h
  | _ :: _, [], h => by simp at h

/-- **the regenerated vector comparisons are the model's `eqVec` / `eqFV`** (every style, through the regenerated derivation
    tables; `FieldVector`: both operands have the `n` of the type) -/
theorem eqvec_tied (s : Style) (a b : List K) (e : K) :
    GenEqVec.eq_std_vec eqS s a b e = eqVec s a b e ∧
    (a.length = b.length → GenEqVec.eq_fvec eqS s a b e = eqFV s a b e) := by
  constructor
  · cases s <;> simp only [GenEqVec.eq_std_vec, GenEqVec.eq_t_std_vec, eqVec] <;>
      (split
       · rfl
       · rename_i h
         exact allLoop_eq_eqLoop _ e a b (by simpa using h))
  · intro h
    cases s <;> simp only [GenEqVec.eq_fvec, GenEqVec.eq_t_fvec, eqFV] <;> exact allLoop_eq_eqLoop _ e a b h
end

end DV.C17
