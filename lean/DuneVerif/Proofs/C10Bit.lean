/-
C10 helper lemmas, part 4: digit-wise `&`, `|`, `^`, `~` and `numeric_limits::max`.  Core Lean only.
-/
import DuneVerif.Proofs.C10Basic

namespace DV.C10
open DV.C10.Gen

/-- a bitwise operation (given by a Boolean function on the bits) acts on low digit and rest separately -/
theorem bitop_split {op : Nat → Nat → Nat} {f : Bool → Bool → Bool}
    (hop : ∀ x y i, (op x y).testBit i = f (x.testBit i) (y.testBit i))
    (hlt : ∀ {x y : Nat}, x < 2 ^ bits → y < 2 ^ bits → op x y < 2 ^ bits)
    {a x : Nat} (ha : a < B) (hx : x < B) (va vx : Nat) :
    op (a + B * va) (x + B * vx) = op a x + B * op va vx := by
  rw [B_def] at *
  apply Nat.eq_of_testBit_eq
  intro j
  rw [hop, Nat.add_comm a, Nat.add_comm x, Nat.add_comm (op a x),
    Nat.testBit_two_pow_mul_add _ ha, Nat.testBit_two_pow_mul_add _ hx,
    Nat.testBit_two_pow_mul_add _ (hlt ha hx)]
  split <;> rw [hop]

theorem band_length : ∀ (a x : List Nat), a.length = x.length → (band a x).length = a.length
  | [], [], _ => rfl
  | [], _ :: _, h => by simp at h
  | _ :: _, [], h => by simp at h
  | a :: as, x :: xs, h => by simp only [band, List.length_cons]; rw [band_length as xs (by simpa using h)]

theorem bor_length : ∀ (a x : List Nat), a.length = x.length → (bor a x).length = a.length
  | [], [], _ => rfl
  | [], _ :: _, h => by simp at h
  | _ :: _, [], h => by simp at h
  | a :: as, x :: xs, h => by simp only [bor, List.length_cons]; rw [bor_length as xs (by simpa using h)]

theorem bxor_length : ∀ (a x : List Nat), a.length = x.length → (bxor a x).length = a.length
  | [], [], _ => rfl
  | [], _ :: _, h => by simp at h
  | _ :: _, [], h => by simp at h
  | a :: as, x :: xs, h => by simp only [bxor, List.length_cons]; rw [bxor_length as xs (by simpa using h)]

theorem band_digs : ∀ (a x : List Nat), Digs a → Digs x → Digs (band a x)
  | [], _, _, _ => by simp [band]
  | _ :: _, [], _, _ => by simp [band]
  | a :: as, x :: xs, ha, hx => by
    rw [digs_cons] at ha hx
    simp only [band, digs_cons]
    exact ⟨by rw [B_def] at *; exact Nat.and_lt_two_pow _ hx.1, band_digs as xs ha.2 hx.2⟩

theorem bor_digs : ∀ (a x : List Nat), Digs a → Digs x → Digs (bor a x)
  | [], _, _, _ => by simp [bor]
  | _ :: _, [], _, _ => by simp [bor]
  | a :: as, x :: xs, ha, hx => by
    rw [digs_cons] at ha hx
    simp only [bor, digs_cons]
    exact ⟨by rw [B_def] at *; exact Nat.or_lt_two_pow ha.1 hx.1, bor_digs as xs ha.2 hx.2⟩

theorem bxor_digs : ∀ (a x : List Nat), Digs a → Digs x → Digs (bxor a x)
  | [], _, _, _ => by simp [bxor]
  | _ :: _, [], _, _ => by simp [bxor]
  | a :: as, x :: xs, ha, hx => by
    rw [digs_cons] at ha hx
    simp only [bxor, digs_cons]
    exact ⟨by rw [B_def] at *; exact Nat.xor_lt_two_pow ha.1 hx.1, bxor_digs as xs ha.2 hx.2⟩

theorem band_val'' : ∀ (a x : List Nat), a.length = x.length → Digs a → Digs x →
    val (band a x) = val a &&& val x
  | [], [], _, _, _ => by simp [band]
  | [], _ :: _, h, _, _ => by simp at h
  | _ :: _, [], h, _, _ => by simp at h
  | a :: as, x :: xs, h, ha, hx => by
    rw [digs_cons] at ha hx
    simp only [band, val_cons]
    rw [band_val'' as xs (by simpa using h) ha.2 hx.2]
    exact (bitop_split (f := fun p q => p && q) Nat.testBit_and
      (fun _ hy => Nat.and_lt_two_pow _ hy) ha.1 hx.1 _ _).symm

theorem bor_val'' : ∀ (a x : List Nat), a.length = x.length → Digs a → Digs x →
    val (bor a x) = val a ||| val x
  | [], [], _, _, _ => by simp [bor]
  | [], _ :: _, h, _, _ => by simp at h
  | _ :: _, [], h, _, _ => by simp at h
  | a :: as, x :: xs, h, ha, hx => by
    rw [digs_cons] at ha hx
    simp only [bor, val_cons]
    rw [bor_val'' as xs (by simpa using h) ha.2 hx.2]
    exact (bitop_split (f := fun p q => p || q) Nat.testBit_or
      (fun hx hy => Nat.or_lt_two_pow hx hy) ha.1 hx.1 _ _).symm

theorem bxor_val'' : ∀ (a x : List Nat), a.length = x.length → Digs a → Digs x →
    val (bxor a x) = val a ^^^ val x
  | [], [], _, _, _ => by simp [bxor]
  | [], _ :: _, h, _, _ => by simp at h
  | _ :: _, [], h, _, _ => by simp at h
  | a :: as, x :: xs, h, ha, hx => by
    rw [digs_cons] at ha hx
    simp only [bxor, val_cons]
    rw [bxor_val'' as xs (by simpa using h) ha.2 hx.2]
    exact (bitop_split (f := fun p q => p ^^ q) Nat.testBit_xor
      (fun hx hy => Nat.xor_lt_two_pow hx hy) ha.1 hx.1 _ _).symm

/-! ### operator~ -/

theorem bnot_length : ∀ (a : List Nat), (bnot a).length = a.length
  | [] => rfl
  | a :: as => by simp only [bnot, List.length_cons]; rw [bnot_length as]

theorem bnot_digs : ∀ (a : List Nat), Digs (bnot a)
  | [] => by simp [bnot]
  | a :: as => by
    simp only [bnot, digs_cons]
    have := bitmask_succ
    exact ⟨by omega, bnot_digs as⟩

theorem bnot_val'' : ∀ (a : List Nat), Digs a → val (bnot a) = W a.length - 1 - val a
  | [], _ => by simp [bnot, W]
  | a :: as, ha => by
    rw [digs_cons] at ha
    have h1 := ha.1
    have h2 := val_lt_of_digs ha.2
    have hm := bitmask_succ
    simp only [bnot, val_cons, List.length_cons, W_succ]
    rw [bnot_val'' as ha.2]
    have h3 : B * (val as + 1) ≤ B * W as.length := Nat.mul_le_mul_left B h2
    have h4 : B * (W as.length - 1 - val as) = B * W as.length - B - B * val as := by
      rw [Nat.mul_sub, Nat.mul_sub, Nat.mul_one]
    rw [h4, Nat.mul_add, Nat.mul_one] at *
    generalize B * W as.length = p at *
    generalize B * val as = q at *
    omega

/-! ### numeric_limits::max -/

theorem maxVal_wf (n : Nat) : Wf n (maxVal n) := by
  refine ⟨by simp [maxVal], ?_⟩
  intro d hd
  simp only [maxVal, List.mem_replicate] at hd
  have := bitmask_succ
  omega

theorem maxVal_val' (n : Nat) : val (maxVal n) = W n - 1 := by
  induction n with
  | zero => rfl
  | succ n ih =>
    show val (bitmask :: maxVal n) = W (n + 1) - 1
    have hm := bitmask_succ
    have hp := W_pos n
    rw [val_cons, ih, W_succ, Nat.mul_sub, Nat.mul_one]
    have : B * 1 ≤ B * W n := Nat.mul_le_mul_left B hp
    generalize B * W n = p at *
    omega

end DV.C10
